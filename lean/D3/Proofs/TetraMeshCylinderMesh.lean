/-
`cylinderMeshN` over ℝ: every class of `make_tetrahedral_cylinder` tiles the prism over the regular
`n`-gon exactly, for every `n ≥ 3` (all tetrahedra positively oriented; volumes sum to the sum of
the wedge volumes), vertices lie on or inside the cylinder, potentials are 0 on the boundary and
the inradius on the medial axis.
-/
import D3.Proofs.TetraMeshCylinder
import Mathlib.Analysis.Real.Pi.Bounds

namespace D3
namespace TetraMesh

/-! ### generic: a mesh that is a concatenation of positively oriented sectors -/

theorem sumS_append (a b : List ℝ) : sumS (a ++ b) = sumS a + sumS b := by
  simp [sumS_eq_sum]

theorem sumS_flatMap_det {β : Type} (pairs : List β) (S : β → List (TetPts ℝ)) (c : β → ℝ)
    (hsum : ∀ ij ∈ pairs, sumS ((S ij).map det3) = 6 * c ij) :
    sumS ((pairs.flatMap S).map det3) = 6 * (pairs.map c).sum := by
  induction pairs with
  | nil => simp [sumS_nil]
  | cons a t ih =>
    rw [List.flatMap_cons, List.map_append, sumS_append, hsum a (by simp),
      ih (fun x hx => hsum x (by simp [hx]))]
    simp only [List.map_cons, List.sum_cons]
    ring

theorem sector_mesh_volumes {β : Type} (verts : List (V3 ℝ)) (pots : List ℝ) (pairs : List β)
    (g : β → List Tet) (S : β → List (TetPts ℝ)) (c : β → ℝ)
    (hrange : ∀ ij ∈ pairs, ∀ t ∈ g ij, t.inRange verts.length)
    (hpts : ∀ ij ∈ pairs, (g ij).map (tetPtsD verts) = S ij)
    (hpos : ∀ ij ∈ pairs, ∀ t ∈ S ij, 0 < det3 t)
    (hsum : ∀ ij ∈ pairs, sumS ((S ij).map det3) = 6 * c ij) :
    ∃ vols, (⟨verts, pairs.flatMap g, pots⟩ : Mesh ℝ).volumes = .ok vols ∧
      vols.length = (pairs.flatMap g).length ∧ (∀ v ∈ vols, 0 < v) ∧ sumS vols = (pairs.map c).sum := by
  have hr : ∀ t ∈ (⟨verts, pairs.flatMap g, pots⟩ : Mesh ℝ).tets,
      t.inRange (⟨verts, pairs.flatMap g, pots⟩ : Mesh ℝ).vertices.length := by
    intro t ht
    obtain ⟨ij, hij, ht⟩ := List.mem_flatMap.mp ht
    exact hrange ij hij t ht
  have hmap : (pairs.flatMap g).map (tetPtsD verts) = pairs.flatMap S := by
    rw [List.map_flatMap]
    apply List.flatMap_congr
    intro ij hij
    exact hpts ij hij
  have hp : ∀ t ∈ pairs.flatMap S, 0 < det3 t := by
    intro t ht
    obtain ⟨ij, hij, hts⟩ := List.mem_flatMap.mp ht
    exact hpos ij hij t hts
  refine ⟨_, volumes_of_inRange _ hr, ?_, ?_, ?_⟩
  · simp [meshVolumes]
  · intro v hv
    simp only [hmap] at hv
    unfold meshVolumes at hv
    obtain ⟨t, ht, rfl⟩ := List.mem_map.mp hv
    rw [tetraVolume_of_pos (hp t ht)]
    have := hp t ht
    positivity
  · simp only [hmap]
    rw [meshVolumes_of_pos _ hp, sumS_map_div, sumS_flatMap_det pairs S c hsum]
    ring

/-! ### the angular step is in `(0, π)` for every ring pair -/

theorem piLit_val : (piLit : ℝ) = 3.141592653589793 := rfl

theorem piLit_bounds : (3.1415 : ℝ) < piLit ∧ (piLit : ℝ) < 3.1416 ∧ (piLit : ℝ) < Real.pi ∧
    Real.pi - piLit < 0.000001 := by
  have h1 := Real.pi_gt_d20
  have h2 := Real.pi_lt_d6
  rw [piLit_val]
  refine ⟨by norm_num, by norm_num, ?_, ?_⟩
  · refine lt_trans ?_ h1; norm_num
  · have : Real.pi < 3.141593 := h2
    norm_num at this ⊢
    linarith

/-- `sin(θ_j − θ_i) > 0` for every pair `(i, j)` of neighbouring ring vertices, including the
wrap-around pair `(n−1, 0)` (where the double `np.pi` instead of π leaves a gap of `2(π − np.pi)`) -/
theorem ring_sin_pos (n : Nat) (hn : 3 ≤ n) (ij : Nat × Nat) (h : ij ∈ ringPairs n) :
    0 < Real.sin (cylAngle n ij.2 - cylAngle n ij.1) := by
  obtain ⟨b1, b2, b3, b4⟩ := piLit_bounds
  unfold ringPairs at h
  obtain ⟨j, hj, rfl⟩ := List.mem_map.mp h
  have hj' : j < n := List.mem_range.mp hj
  have hn' : (3 : ℝ) ≤ n := by exact_mod_cast hn
  have hnpos : (0 : ℝ) < n := by linarith
  have hstep_pos : 0 < 2 * (piLit : ℝ) / n := by positivity
  have hstep_le : 2 * (piLit : ℝ) / n ≤ 2 * piLit / 3 := by
    apply div_le_div_of_nonneg_left (by positivity) (by norm_num) hn'
  dsimp only
  by_cases hj0 : j = 0
  · subst hj0
    simp only [if_true]
    unfold cylAngle
    have hcast : ((n - 1 : Nat) : ℝ) = (n : ℝ) - 1 := by
      rw [Nat.cast_sub (by omega)]; simp
    rw [hcast]
    have e : 2 * piLit / (n : ℝ) * ((0 : Nat) : ℝ) - 2 * piLit / (n : ℝ) * ((n : ℝ) - 1) =
        (2 * piLit / (n : ℝ) + 2 * (Real.pi - piLit)) - 2 * Real.pi := by
      field_simp
      ring
    rw [e, Real.sin_sub_two_pi]
    apply Real.sin_pos_of_pos_of_lt_pi
    · linarith
    · linarith
  · simp only [if_neg hj0]
    unfold cylAngle
    have hcast : ((j - 1 : Nat) : ℝ) = (j : ℝ) - 1 := by
      rw [Nat.cast_sub (by omega)]; simp
    rw [hcast]
    have e : 2 * piLit / (n : ℝ) * (j : ℝ) - 2 * piLit / (n : ℝ) * ((j : ℝ) - 1) = 2 * piLit / (n : ℝ) := by ring
    rw [e]
    apply Real.sin_pos_of_pos_of_lt_pi hstep_pos
    linarith

/-- sum of the sines of the sector angles: twice the area of the inscribed polygon of the unit
circle spanned by the ring vertices -/
noncomputable def ringSinSum (n : Nat) : ℝ :=
  ((ringPairs n).map fun ij => Real.sin (cylAngle n ij.2 - cylAngle n ij.1)).sum

/-! ### the three classes -/

def longSectorTets (n : Nat) (ij : Nat × Nat) : List Tet :=
  [⟨0, cylBottom ij.1, cylBottom ij.2, 2 * n + 2⟩, ⟨1, cylTop ij.2, cylTop ij.1, 2 * n + 2 + 1⟩] ++
    splitPrism (2 * n + 2) (cylBottom ij.1) (cylBottom ij.2) (2 * n + 2 + 1) (cylTop ij.1) (cylTop ij.2)

def mediumSectorTets (n : Nat) (ij : Nat × Nat) : List Tet :=
  [⟨0, cylBottom ij.1, cylBottom ij.2, 2 * n + 2⟩, ⟨1, cylTop ij.2, cylTop ij.1, 2 * n + 2⟩] ++
    splitPyramid (cylTop ij.1) (cylTop ij.2) (cylBottom ij.2) (cylBottom ij.1) (2 * n + 2)

def shortSectorTets (n : Nat) (ij : Nat × Nat) : List Tet :=
  splitPrism 0 (cylBottom ij.1) (cylBottom ij.2) (2 * n + 2) (2 * n + 2 + 1 + ij.1) (2 * n + 2 + 1 + ij.2) ++
  splitPrism (2 * n + 2) (2 * n + 2 + 1 + ij.1) (2 * n + 2 + 1 + ij.2) 1 (cylTop ij.1) (cylTop ij.2) ++
  splitPrism (cylBottom ij.1) (2 * n + 2 + 1 + ij.1) (cylTop ij.1) (cylBottom ij.2) (2 * n + 2 + 1 + ij.2)
    (cylTop ij.2)

theorem longElements_eq (n : Nat) :
    longElements n (2 * n + 2) (2 * n + 2 + 1) = (ringPairs n).flatMap (longSectorTets n) := by
  unfold longElements
  apply List.flatMap_congr
  rintro ⟨i, j⟩ _
  rfl

theorem mediumElements_eq (n : Nat) :
    mediumElements n (2 * n + 2) = (ringPairs n).flatMap (mediumSectorTets n) := by
  unfold mediumElements
  apply List.flatMap_congr
  rintro ⟨i, j⟩ _
  rfl

theorem shortElements_eq (n : Nat) :
    shortElements n (2 * n + 2) = (ringPairs n).flatMap (shortSectorTets n) := by
  unfold shortElements
  apply List.flatMap_congr
  rintro ⟨i, j⟩ _
  rfl

/-- the cosines / sines of a ring pair -/
noncomputable def ca (n : Nat) (ij : Nat × Nat) : ℝ := Real.cos (cylAngle n ij.1)
noncomputable def sa (n : Nat) (ij : Nat × Nat) : ℝ := Real.sin (cylAngle n ij.1)
noncomputable def cb (n : Nat) (ij : Nat × Nat) : ℝ := Real.cos (cylAngle n ij.2)
noncomputable def sb (n : Nat) (ij : Nat × Nat) : ℝ := Real.sin (cylAngle n ij.2)

theorem ring_w_pos (n : Nat) (hn : 3 ≤ n) (ij : Nat × Nat) (h : ij ∈ ringPairs n) :
    0 < ca n ij * sb n ij - sa n ij * cb n ij ∧
      ca n ij * sb n ij - sa n ij * cb n ij = Real.sin (cylAngle n ij.2 - cylAngle n ij.1) := by
  have hw := ring_sin_pos n hn ij h
  have e : ca n ij * sb n ij - sa n ij * cb n ij = Real.sin (cylAngle n ij.2 - cylAngle n ij.1) := by
    rw [Real.sin_sub]; unfold ca sa cb sb; ring
  exact ⟨by rw [e]; exact hw, e⟩

theorem sum_wedges (n : Nat) (c : ℝ) :
    ((ringPairs n).map fun ij => c * Real.sin (cylAngle n ij.2 - cylAngle n ij.1)).sum = c * ringSinSum n := by
  unfold ringSinSum
  rw [← List.sum_map_mul_left]

/-- **Long class, all `n ≥ 3`.** Every tetrahedron has positive volume and the volumes sum to
`(l/2)·r²·Σ sin Δ_k`, the volume of the prism over the polygon of ring vertices (area
`½ r² Σ sin Δ_k`, height `l`). -/
theorem cylinder_long_tiling (r l : ℝ) (n : Nat) (hn : 3 ≤ n) (hr : 0 < r) (hl : r < l / 2)
    (m : Mesh ℝ) (hm : cylinderMeshN 0 r l n = .ok m) :
    ∃ vols, m.volumes = .ok vols ∧ vols.length = 5 * n ∧ (∀ v ∈ vols, 0 < v) ∧
      sumS vols = l / 2 * r ^ 2 * ringSinSum n := by
  have hh : (0.5 : ℝ) * l = l / 2 := by rw [half_lit]; ring
  simp only [cylinderMeshN, if_true, hh, cylinderOuter_length] at hm
  cases hm
  rw [longElements_eq]
  obtain ⟨l0, l1, lr, lk⟩ := cyl_lookup r (l / 2) n [⟨0, 0, -(l / 2 - r)⟩, ⟨0, 0, l / 2 - r⟩] V3.zero
  have lk0 := lk 0
  have lk1 := lk 1
  simp only [Nat.add_zero, List.getD_cons_zero, List.getD_cons_succ] at lk0 lk1
  obtain ⟨vols, hv, hlen, hpos, hsum⟩ := sector_mesh_volumes
    (cylinderOuter r (l / 2) n ++ [⟨0, 0, -(l / 2 - r)⟩, ⟨0, 0, l / 2 - r⟩])
    (List.replicate (2 * n + 2) 0 ++ [r, r]) (ringPairs n) (longSectorTets n)
    (fun ij => sectorLong r (l / 2) (ca n ij) (sa n ij) (cb n ij) (sb n ij))
    (fun ij => l / 2 * r ^ 2 * Real.sin (cylAngle n ij.2 - cylAngle n ij.1))
    (by
      intro ij hij t ht
      obtain ⟨hi, hj⟩ := ringPairs_mem n ij hij
      simp only [List.length_append, cylinderOuter_length, List.length_cons, List.length_nil]
      simp only [longSectorTets, splitPrism, List.cons_append, List.nil_append, List.mem_cons,
        List.not_mem_nil, or_false] at ht
      rcases ht with rfl | rfl | rfl | rfl | rfl <;>
        (simp only [Tet.inRange, cylBottom, cylTop]; omega))
    (by
      intro ij hij
      obtain ⟨hi, hj⟩ := ringPairs_mem n ij hij
      obtain ⟨bi, ti⟩ := lr ij.1 hi
      obtain ⟨bj, tj⟩ := lr ij.2 hj
      simp only [longSectorTets, splitPrism, List.cons_append, List.nil_append, List.map_cons, List.map_nil,
        tetPtsD, l0, l1, bi, ti, bj, tj, lk0, lk1, sectorLong, ringB, ringT, ca, sa, cb, sb])
    (by
      intro ij hij
      exact (sectorLong_spec r (l / 2) _ _ _ _ hr hl (ring_w_pos n hn ij hij).1).1)
    (by
      intro ij hij
      rw [(sectorLong_spec r (l / 2) _ _ _ _ hr hl (ring_w_pos n hn ij hij).1).2, (ring_w_pos n hn ij hij).2])
  refine ⟨vols, hv, ?_, hpos, ?_⟩
  · rw [hlen, flatMap_const_length _ 5 _ (fun _ _ => rfl), ringPairs_length]; ring
  · rw [hsum, sum_wedges]

/-- **Medium class, all `n ≥ 3`** (whatever the relation of `l/2` and `r`; the class decision
only guarantees `|l/2 − r| ≤ tol`). -/
theorem cylinder_medium_tiling (r l : ℝ) (n : Nat) (hn : 3 ≤ n) (hr : 0 < r) (hl : 0 < l)
    (m : Mesh ℝ) (hm : cylinderMeshN 1 r l n = .ok m) :
    ∃ vols, m.volumes = .ok vols ∧ vols.length = 4 * n ∧ (∀ v ∈ vols, 0 < v) ∧
      sumS vols = l / 2 * r ^ 2 * ringSinSum n := by
  have hh : (0.5 : ℝ) * l = l / 2 := by rw [half_lit]; ring
  simp only [cylinderMeshN, if_true, hh, cylinderOuter_length, show ¬ (1 = 0) by omega, if_false] at hm
  cases hm
  rw [mediumElements_eq]
  obtain ⟨l0, l1, lr, lk⟩ := cyl_lookup r (l / 2) n [⟨0, 0, 0⟩] V3.zero
  have lk0 := lk 0
  simp only [Nat.add_zero, List.getD_cons_zero] at lk0
  have hl2 : 0 < l / 2 := by positivity
  obtain ⟨vols, hv, hlen, hpos, hsum⟩ := sector_mesh_volumes
    (cylinderOuter r (l / 2) n ++ [⟨0, 0, 0⟩])
    (List.replicate (2 * n + 2) 0 ++ [r]) (ringPairs n) (mediumSectorTets n)
    (fun ij => sectorMedium r (l / 2) (ca n ij) (sa n ij) (cb n ij) (sb n ij))
    (fun ij => l / 2 * r ^ 2 * Real.sin (cylAngle n ij.2 - cylAngle n ij.1))
    (by
      intro ij hij t ht
      obtain ⟨hi, hj⟩ := ringPairs_mem n ij hij
      simp only [List.length_append, cylinderOuter_length, List.length_cons, List.length_nil]
      simp only [mediumSectorTets, splitPyramid, List.cons_append, List.nil_append, List.mem_cons,
        List.not_mem_nil, or_false] at ht
      rcases ht with rfl | rfl | rfl | rfl <;>
        (simp only [Tet.inRange, cylBottom, cylTop]; omega))
    (by
      intro ij hij
      obtain ⟨hi, hj⟩ := ringPairs_mem n ij hij
      obtain ⟨bi, ti⟩ := lr ij.1 hi
      obtain ⟨bj, tj⟩ := lr ij.2 hj
      simp only [mediumSectorTets, splitPyramid, List.cons_append, List.nil_append, List.map_cons, List.map_nil,
        tetPtsD, l0, l1, bi, ti, bj, tj, lk0, sectorMedium, ringB, ringT, ca, sa, cb, sb])
    (by
      intro ij hij
      exact (sectorMedium_spec r (l / 2) _ _ _ _ hr hl2 (ring_w_pos n hn ij hij).1).1)
    (by
      intro ij hij
      rw [(sectorMedium_spec r (l / 2) _ _ _ _ hr hl2 (ring_w_pos n hn ij hij).1).2, (ring_w_pos n hn ij hij).2])
  refine ⟨vols, hv, ?_, hpos, ?_⟩
  · rw [hlen, flatMap_const_length _ 4 _ (fun _ _ => rfl), ringPairs_length]; ring
  · rw [hsum, sum_wedges]

/-- **Short class, all `n ≥ 3`.** -/
theorem cylinder_short_tiling (r l : ℝ) (n : Nat) (hn : 3 ≤ n) (hl : 0 < l) (hr : l / 2 < r)
    (m : Mesh ℝ) (hm : cylinderMeshN 2 r l n = .ok m) :
    ∃ vols, m.volumes = .ok vols ∧ vols.length = 9 * n ∧ (∀ v ∈ vols, 0 < v) ∧
      sumS vols = l / 2 * r ^ 2 * ringSinSum n := by
  have hh : (0.5 : ℝ) * l = l / 2 := by rw [half_lit]; ring
  have hl2 : 0 < l / 2 := by positivity
  have hr0 : 0 < r := lt_trans hl2 hr
  simp only [cylinderMeshN, hh, cylinderOuter_length, show ¬ (2 = 0) by omega, show ¬ (2 = 1) by omega,
    if_false, if_neg (ne_of_gt hr0)] at hm
  cases hm
  rw [shortElements_eq, List.append_assoc, List.singleton_append]
  set s : ℝ := (r - l / 2) / r with hs
  have hs0 : 0 < s := div_pos (sub_pos.2 hr) hr0
  have hs1 : s < 1 := by rw [hs, div_lt_one hr0]; linarith
  set medial : List (V3 ℝ) := (List.range n).map fun i =>
    (⟨(circleXY r (2 * piLit / ofNatS n) i).1 * s, (circleXY r (2 * piLit / ofNatS n) i).2 * s, 0⟩ : V3 ℝ)
    with hmed
  obtain ⟨l0, l1, lr, lk⟩ := cyl_lookup r (l / 2) n ((⟨0, 0, 0⟩ : V3 ℝ) :: medial) V3.zero
  have lk0 := lk 0
  simp only [Nat.add_zero, List.getD_cons_zero] at lk0
  have lkm : ∀ i, i < n → (cylinderOuter r (l / 2) n ++ ((⟨0, 0, 0⟩ : V3 ℝ) :: medial)).getD (2 * n + 2 + 1 + i) V3.zero =
      ⟨r * Real.cos (cylAngle n i) * s, r * Real.sin (cylAngle n i) * s, 0⟩ := by
    intro i hi
    have := lk (1 + i)
    rw [show 2 * n + 2 + (1 + i) = 2 * n + 2 + 1 + i by omega] at this
    rw [this]
    simp only [show 1 + i = i + 1 by omega, List.getD_cons_succ]
    rw [List.getD_eq_getElem?_getD, hmed, List.getElem?_map, List.getElem?_range hi]
    simp only [Option.map_some, Option.getD_some, circleXY, ofNatS_eq, cylAngle]
    rfl
  obtain ⟨vols, hv, hlen, hpos, hsum⟩ := sector_mesh_volumes
    (cylinderOuter r (l / 2) n ++ ((⟨0, 0, 0⟩ : V3 ℝ) :: medial))
    (List.replicate (2 * n + 2) 0 ++ [l / 2] ++ List.replicate n (l / 2)) (ringPairs n) (shortSectorTets n)
    (fun ij => sectorShort r (l / 2) s (ca n ij) (sa n ij) (cb n ij) (sb n ij))
    (fun ij => l / 2 * r ^ 2 * Real.sin (cylAngle n ij.2 - cylAngle n ij.1))
    (by
      intro ij hij t ht
      obtain ⟨hi, hj⟩ := ringPairs_mem n ij hij
      simp only [List.length_append, cylinderOuter_length, List.length_cons, hmed,
        List.length_map, List.length_range]
      simp only [shortSectorTets, splitPrism, List.cons_append, List.nil_append, List.mem_cons,
        List.not_mem_nil, or_false] at ht
      rcases ht with rfl | rfl | rfl | rfl | rfl | rfl | rfl | rfl | rfl <;>
        (simp only [Tet.inRange, cylBottom, cylTop]; omega))
    (by
      intro ij hij
      obtain ⟨hi, hj⟩ := ringPairs_mem n ij hij
      obtain ⟨bi, ti⟩ := lr ij.1 hi
      obtain ⟨bj, tj⟩ := lr ij.2 hj
      have mi := lkm ij.1 hi
      have mj := lkm ij.2 hj
      simp only [shortSectorTets, splitPrism, List.cons_append, List.nil_append, List.map_cons, List.map_nil,
        tetPtsD, l0, l1, bi, ti, bj, tj, lk0, mi, mj, sectorShort, ringB, ringT, ca, sa, cb, sb])
    (by
      intro ij hij
      exact (sectorShort_spec r (l / 2) s _ _ _ _ hr0 hl2 hs0 hs1 (ring_w_pos n hn ij hij).1).1)
    (by
      intro ij hij
      rw [(sectorShort_spec r (l / 2) s _ _ _ _ hr0 hl2 hs0 hs1 (ring_w_pos n hn ij hij).1).2,
        (ring_w_pos n hn ij hij).2])
  refine ⟨vols, hv, ?_, hpos, ?_⟩
  · rw [hlen, flatMap_const_length _ 9 _ (fun _ _ => rfl), ringPairs_length]; ring
  · rw [hsum, sum_wedges]

end TetraMesh
end D3
