/-
C18 → C01 link: the model of the real simplex solver (`GjkJolt.joltSolver`, i.e.
`Simplex.getClosestPointToOrigin` on the four rows of `Y`) satisfies the solver contract of the
C01 theorems (`SolverSpecOn`) on `JoltGood`, the conjunction of the C18 band exclusions, and is
total there.  The two vocabularies (`Gjk.InHull/InRelInt/IsMinNorm/keep` and
`Simplex.hullSet/relSet/IsMinNorm/selectBits`) are identified first.
-/
import D3.Proofs.GjkInv
import D3.Proofs.SimplexRelInt
import D3.Model.SimplexGood

namespace D3
namespace Gjk
open GjkJolt

/-! ### the two vocabularies coincide -/

theorem lincomb_eq : ∀ (ws : List ℝ) (ys : List V), lincomb ws ys = Simplex.lincomb ws ys
  | [], ys => by cases ys <;> rfl
  | _ :: _, [] => rfl
  | w :: ws, y :: ys => by
    show w * y + lincomb ws ys = w * y + Simplex.lincomb ws ys
    rw [lincomb_eq ws ys]

theorem inHull_iff (ys : List V) (y : V) : InHull ys y ↔ Simplex.hullSet ys y := by
  constructor
  · rintro ⟨ws, hl, hw, hs, he⟩
    exact ⟨ws, hl, hw, hs, by rw [he, lincomb_eq]⟩
  · rintro ⟨ws, hl, hw, hs, he⟩
    exact ⟨ws, hl, hw, hs, by rw [← he, lincomb_eq]⟩

theorem inRelInt_iff (ys : List V) (y : V) : InRelInt ys y ↔ Simplex.relSet ys y := by
  constructor
  · rintro ⟨ws, hl, hw, hs, he⟩
    exact ⟨ws, hl, hw, hs, by rw [he, lincomb_eq]⟩
  · rintro ⟨ws, hl, hw, hs, he⟩
    exact ⟨ws, hl, hw, hs, by rw [← he, lincomb_eq]⟩

theorem isMinNorm_iff (ys : List V) (v : V) :
    IsMinNorm (InHull ys) v ↔ Simplex.IsMinNorm (Simplex.hullSet ys) v := by
  constructor
  · rintro ⟨h1, h2⟩
    exact ⟨(inHull_iff ys v).mp h1, fun x hx => h2 x ((inHull_iff ys x).mpr hx)⟩
  · rintro ⟨h1, h2⟩
    exact ⟨(inHull_iff ys v).mpr h1, fun x hx => h2 x ((inHull_iff ys x).mp hx)⟩

/-- `update_simplex_ypq` keeps what the set bits of the solver name -/
theorem keep_eq_selectBits {β : Type} (s : Nat) (hs : s < 16) (l : List β) (hl : l.length ≤ 4) :
    keep s 0 l = Simplex.selectBits s l := by
  match l, hl with
  | [], _ => interval_cases s <;> rfl
  | [a], _ => interval_cases s <;> rfl
  | [a, b], _ => interval_cases s <;> rfl
  | [a, b, c], _ => interval_cases s <;> rfl
  | [a, b, c, d], _ => interval_cases s <;> rfl

theorem pre_eq_take (Y : A4 V) (n : Nat) : Y.pre n = [Y.r0, Y.r1, Y.r2, Y.r3].take n := rfl

/-! ### the simplices the real solver treats exactly -/

/-- **`JoltGood Y n`**: the first `n` rows of `Y` are outside every band in which the as-is
solver is not exact — the conjunction of the hypotheses of the C18 theorems:
* `n = 2`: `EdgeOK` — `¬ |b−a|² < EPSILON_SQR` (`line_spec`) or `a = b` (`line_same`);
* `n = 3`: `FaceOK` — `TriRegular` (`triangle_spec`) or exactly collinear with `EdgeOK` edges
  (`triangle_collinear_spec`);
* `n = 4`: `TetraOK` — `|a|², |b|² < MAX_FLOAT` and either consistent plane signs with no plane
  value in the `EPSILON` band and four `TriRegular` faces (`tetra_spec_pos/neg`) or exactly flat
  with four `FaceOK` faces (`tetra_spec_flat`);
* `n = 1`: nothing. -/
def JoltGood (Y : A4 V) (n : Nat) : Prop := Simplex.SimplexOK Y.r0 Y.r1 Y.r2 Y.r3 n

theorem joltGood_1 (Y : A4 V) : JoltGood Y 1 :=
  ⟨fun h => absurd h (by decide), fun h => absurd h (by decide), fun h => absurd h (by decide)⟩

theorem joltGood_2 {Y : A4 V} (h : Simplex.EdgeOK Y.r0 Y.r1) : JoltGood Y 2 :=
  ⟨fun _ => h, fun h => absurd h (by decide), fun h => absurd h (by decide)⟩

theorem joltGood_3 {Y : A4 V} (h : Simplex.FaceOK Y.r0 Y.r1 Y.r2) : JoltGood Y 3 :=
  ⟨fun h => absurd h (by decide), fun _ => h, fun h => absurd h (by decide)⟩

theorem joltGood_4 {Y : A4 V} (h : Simplex.TetraOK Y.r0 Y.r1 Y.r2 Y.r3) : JoltGood Y 4 :=
  ⟨fun h => absurd h (by decide), fun h => absurd h (by decide), fun _ => h⟩

theorem joltSolver_eq (Y : A4 V) (n : Nat) (prev : ℝ) :
    joltSolver Y n prev =
      (Simplex.getClosestPointToOrigin #[Y.r0, Y.r1, Y.r2, Y.r3] n prev).bind
        (fun r => .ok ⟨r.success, r.v, r.vLenSq, r.set⟩) := rfl

/-- the real solver on four points is the tetrahedron routine -/
theorem joltSolver_tetra (y0 y1 y2 y3 : V) (prev : ℝ) {r : Simplex.CP ℝ}
    (hr : Simplex.closestPointTetrahedron y0 y1 y2 y3 = .ok r) :
    joltSolver (⟨y0, y1, y2, y3⟩ : A4 V) 4 prev =
      .ok ⟨decide (V3.dot r.pt r.pt < prev), r.pt, V3.dot r.pt r.pt, r.set⟩ := by
  have hg : Simplex.getClosestPointToOrigin #[y0, y1, y2, y3] 4 prev =
      .ok ⟨decide (V3.dot r.pt r.pt < prev), r.pt, V3.dot r.pt r.pt, r.set, 4000 + r.br⟩ := by
    show (Simplex.closestPointTetrahedron y0 y1 y2 y3).bind _ = _
    rw [hr]; rfl
  rw [joltSolver_eq, hg]; rfl

/-- everything that is known about one call of the real solver on a `JoltGood` simplex -/
theorem joltSolver_full (Y : A4 V) (n : Nat) (prev : ℝ) (h1 : 1 ≤ n) (h4 : n ≤ 4)
    (hg : JoltGood Y n) :
    ∃ r, joltSolver Y n prev = .ok r ∧
      r.vLenSq = V3.normSq r.v ∧ (r.success = true ↔ r.vLenSq < prev) ∧ r.set < 2 ^ n ∧
      IsMinNorm (InHull (Y.pre n)) r.v ∧ InRelInt (keep r.set 0 (Y.pre n)) r.v ∧
      (r.set = 15 → r.v = zeroV) := by
  obtain ⟨g, hgcp, hv, hs, hset, hmin, hrel, h15⟩ :=
    Simplex.gcp_full Y.r0 Y.r1 Y.r2 Y.r3 n h1 h4 hg prev
  refine ⟨⟨g.success, g.v, g.vLenSq, g.set⟩, ?_, hv, hs, hset, ?_, ?_, h15⟩
  · rw [joltSolver_eq, hgcp]; rfl
  · rw [pre_eq_take, isMinNorm_iff]; exact hmin
  · have hset16 : g.set < 16 := lt_of_lt_of_le hset (two_pow_le_16 h4)
    rw [keep_eq_selectBits _ hset16 _ (by rw [pre_length Y n h4]; exact h4), inRelInt_iff,
      pre_eq_take]
    exact hrel

/-- **the model of the real solver satisfies the C01 solver contract on `JoltGood`** -/
theorem joltSolver_spec : SolverSpecOn JoltGood (joltSolver (α := ℝ)) := by
  constructor
  intro Y n prev r h1 h4 hg hr
  obtain ⟨r', hr', hall⟩ := joltSolver_full Y n prev h1 h4 hg
  rw [hr] at hr'
  have : r = r' := Except.ok.inj hr'
  rw [this]
  exact hall

/-- … and returns normally there (no `ZeroDivisionError`, no `assert False`) -/
theorem joltSolver_total (Y : A4 V) (n : Nat) (prev : ℝ) (h1 : 1 ≤ n) (h4 : n ≤ 4)
    (hg : JoltGood Y n) : ∃ r, joltSolver Y n prev = .ok r := by
  obtain ⟨r, hr, _⟩ := joltSolver_full Y n prev h1 h4 hg
  exact ⟨r, hr⟩

/-! ### the executable checker decides `JoltGood` -/

open Simplex in
theorem edgeOKb_iff (p q : V) : edgeOKb p q = true ↔ EdgeOK p q := by
  simp only [edgeOKb, EdgeOK, Bool.or_eq_true, Bool.not_eq_true', decide_eq_false_iff_not,
    decide_eq_true_iff]

open Simplex in
theorem triRegularB_iff (a b c : V) : triRegularB a b c = true ↔ TriRegular a b c := by
  simp only [triRegularB, TriRegular, Bool.not_eq_true', decide_eq_false_iff_not]

open Simplex in
theorem faceOKb_iff (p q r : V) : faceOKb p q r = true ↔ FaceOK p q r := by
  simp only [faceOKb, FaceOK, Bool.or_eq_true, Bool.and_eq_true, triRegularB_iff, edgeOKb_iff,
    decide_eq_true_iff, and_assoc]

open Simplex in
theorem tetraOKb_iff (a b c d : V) : tetraOKb a b c d = true ↔ TetraOK a b c d := by
  simp only [tetraOKb, TetraOK, Bool.or_eq_true, Bool.and_eq_true, Bool.not_eq_true',
    decide_eq_false_iff_not, triRegularB_iff, faceOKb_iff, decide_eq_true_iff, and_assoc,
    or_assoc, ← imp_iff_not_or]

open Simplex in
theorem simplexOKb_iff (y0 y1 y2 y3 : V) (n : Nat) :
    simplexOKb y0 y1 y2 y3 n = true ↔ SimplexOK y0 y1 y2 y3 n := by
  unfold simplexOKb SimplexOK
  by_cases h2 : n = 2
  · subst h2; simp [edgeOKb_iff]
  · by_cases h3 : n = 3
    · subst h3; simp [faceOKb_iff]
    · by_cases h4 : n = 4
      · subst h4; simp [tetraOKb_iff]
      · simp [h2, h3, h4]

/-- **the executable checker `joltGoodB` (run it at `Rat` on a recorded simplex) decides the
hypothesis `JoltGood` of the theorems about the real solver** -/
theorem joltGoodB_iff (Y : A4 V) (n : Nat) : joltGoodB Y n = true ↔ JoltGood Y n :=
  simplexOKb_iff Y.r0 Y.r1 Y.r2 Y.r3 n

end Gjk
end D3
