/-
`make_tetrahedral_capsule` over ℝ: every vertex except the two medial ones (the poles and all
ring vertices of the two caps) lies on the correct hemisphere of its cap sphere, hence on the
capsule surface.  The polar angle of ring `i` is `θ_i = ½·np.pi − i·(½·np.pi/⌊n/2⌋)` with
`i < ⌊n/2⌋`, so `0 < θ_i ≤ ½·np.pi < π/2` (the double `np.pi` is below π) and `cos θ_i > 0`.
-/
import D3.Proofs.TetraMeshCapsule
import D3.Proofs.TetraMeshCylinderMesh

namespace D3
namespace TetraMesh

/-- on the surface of one of the two hemispherical caps of the capsule of radius `r` around the
segment `[-h/2, h/2]` of the z-axis: at distance exactly `r` from a cap centre and not on the
inner side of that centre -/
def OnCapSurface (r h : ℝ) (p : V3 ℝ) : Prop :=
  (h / 2 ≤ p.z ∧ p.x ^ 2 + p.y ^ 2 + (p.z - h / 2) ^ 2 = r ^ 2) ∨
  (p.z ≤ -(h / 2) ∧ p.x ^ 2 + p.y ^ 2 + (p.z + h / 2) ^ 2 = r ^ 2)

/-- strictly beyond the cap centre (so not on the cylindrical part either) -/
def OnCapSurfaceStrict (r h : ℝ) (p : V3 ℝ) : Prop :=
  (h / 2 < p.z ∧ p.x ^ 2 + p.y ^ 2 + (p.z - h / 2) ^ 2 = r ^ 2) ∨
  (p.z < -(h / 2) ∧ p.x ^ 2 + p.y ^ 2 + (p.z + h / 2) ^ 2 = r ^ 2)

/-- the polar angle of ring `i < nC` is in `(0, π/2)` -/
theorem capsule_theta_mem (nC i : Nat) (hi : i < nC) :
    0 < (0.5 * piLit - ofNatS i * (0.5 * piLit / ofNatS nC) : ℝ) ∧
      (0.5 * piLit - ofNatS i * (0.5 * piLit / ofNatS nC) : ℝ) < Real.pi / 2 := by
  obtain ⟨b1, _, b3, _⟩ := piLit_bounds
  simp only [ofNatS_eq]
  have hi' : (i : ℝ) + 1 ≤ nC := by exact_mod_cast hi
  have hi0 : (0 : ℝ) ≤ i := Nat.cast_nonneg i
  have hC : (0 : ℝ) < nC := by linarith
  have hp : (0 : ℝ) < 0.5 * piLit := by linarith
  have ht : (0 : ℝ) < 0.5 * piLit / nC := div_pos hp hC
  have hmul : (0.5 * piLit / nC : ℝ) * nC = 0.5 * piLit := by field_simp
  constructor
  · nlinarith
  · have : (0 : ℝ) ≤ i * (0.5 * piLit / nC) := mul_nonneg hi0 ht.le
    linarith

/-- axial offset and distance of every cap vertex: `z = ±(r·c + h/2)` with `0 < c` and the
distance to the cap centre is exactly `r` -/
theorem capsule_cap_vertices_core (r h : ℝ) (n : Nat) (vs : List (V3 ℝ))
    (hv : capsuleVertices r h n = .ok vs) :
    ∀ p ∈ vs.drop 2, ∃ c : ℝ, 0 < c ∧
      ((p.z = r * c + h / 2 ∧ p.x ^ 2 + p.y ^ 2 + (p.z - h / 2) ^ 2 = r ^ 2) ∨
       (p.z = -(r * c + h / 2) ∧ p.x ^ 2 + p.y ^ 2 + (p.z + h / 2) ^ 2 = r ^ 2)) := by
  have hh : (0.5 : ℝ) * h = h / 2 := by rw [half_lit]; ring
  unfold capsuleVertices at hv
  simp only [hh] at hv
  split at hv
  · cases hv
  · cases hv
    intro p hp
    simp only [List.cons_append, List.nil_append, List.drop_succ_cons, List.drop_zero,
      List.mem_cons] at hp
    rcases hp with rfl | rfl | hp
    · exact ⟨1, one_pos, Or.inl ⟨by ring, by simp⟩⟩
    · exact ⟨1, one_pos, Or.inr ⟨by ring, by simp only []; ring⟩⟩
    · obtain ⟨i, hi, hp⟩ := List.mem_flatMap.mp hp
      obtain ⟨j, _, hp⟩ := List.mem_flatMap.mp hp
      simp only [List.mem_cons, List.not_mem_nil, or_false] at hp
      obtain ⟨t0, t1⟩ := capsule_theta_mem (n / 2) i (List.mem_range.mp hi)
      set θ : ℝ := 0.5 * piLit - ofNatS i * (0.5 * piLit / ofNatS (n / 2)) with hθ
      set φ : ℝ := ofNatS j * (2 * piLit / ofNatS n) with hφ
      have hc : 0 < Real.cos θ :=
        Real.cos_pos_of_mem_Ioo ⟨by linarith [Real.pi_pos], t1⟩
      have e1 := Real.sin_sq_add_cos_sq θ
      have e2 := Real.sin_sq_add_cos_sq φ
      have key : (r * Real.sin θ * Real.cos φ) ^ 2 + (r * Real.sin θ * Real.sin φ) ^ 2 +
          (r * Real.cos θ) ^ 2 = r ^ 2 := by
        have : (r * Real.sin θ * Real.cos φ) ^ 2 + (r * Real.sin θ * Real.sin φ) ^ 2 =
            r ^ 2 * Real.sin θ ^ 2 * (Real.sin φ ^ 2 + Real.cos φ ^ 2) := by ring
        rw [this, e2]
        nlinarith [e1]
      refine ⟨Real.cos θ, hc, ?_⟩
      rcases hp with rfl | rfl
      · refine Or.inl ⟨rfl, ?_⟩
        show (r * Real.sin θ * Real.cos φ) ^ 2 + (r * Real.sin θ * Real.sin φ) ^ 2 +
          (r * Real.cos θ + h / 2 - h / 2) ^ 2 = r ^ 2
        rw [show r * Real.cos θ + h / 2 - h / 2 = r * Real.cos θ by ring, key]
      · refine Or.inr ⟨rfl, ?_⟩
        show (r * Real.sin θ * Real.cos φ) ^ 2 + (r * Real.sin θ * Real.sin φ) ^ 2 +
          (-(r * Real.cos θ + h / 2) + h / 2) ^ 2 = r ^ 2
        rw [show -(r * Real.cos θ + h / 2) + h / 2 = -(r * Real.cos θ) by ring, neg_sq, key]

/-- the vertex list of a mesh returned by the factory -/
theorem capsule_mesh_vertices (r h hint : ℝ) (m : Mesh ℝ)
    (hm : makeTetrahedralCapsule r h hint = .ok m) :
    ∃ n, capsuleVertices r h n = .ok m.vertices := by
  unfold makeTetrahedralCapsule at hm
  split at hm
  · cases hm
  · unfold capsuleMeshN at hm
    cases hv : capsuleVertices r h (clipInt3_706 (2 * piLit * r / hint)) with
    | error e => simp [hv, bind, Except.bind] at hm
    | ok vs =>
      simp only [hv, bind, Except.bind, pure, Except.pure] at hm
      cases hm
      exact ⟨_, hv⟩

/-- **capsule boundary.** For `0 ≤ r` every vertex of the returned mesh except the first two
(the ends of the medial segment) lies on the surface of a cap: at distance exactly `r` from the
centre of the top cap with `z ≥ h/2`, or from the centre of the bottom cap with `z ≤ −h/2`. -/
theorem capsule_cap_vertices_on_surface (r h hint : ℝ) (hr : 0 ≤ r) (m : Mesh ℝ)
    (hm : makeTetrahedralCapsule r h hint = .ok m) :
    ∀ p ∈ m.vertices.drop 2, OnCapSurface r h p := by
  obtain ⟨n, hv⟩ := capsule_mesh_vertices r h hint m hm
  intro p hp
  obtain ⟨c, hc, hcase⟩ := capsule_cap_vertices_core r h n _ hv p hp
  have : 0 ≤ r * c := mul_nonneg hr hc.le
  rcases hcase with ⟨hz, hd⟩ | ⟨hz, hd⟩
  · exact Or.inl ⟨by linarith, hd⟩
  · exact Or.inr ⟨by linarith, hd⟩

/-- for `0 < r` strictly beyond the cap centre -/
theorem capsule_cap_vertices_on_surface_strict (r h hint : ℝ) (hr : 0 < r) (m : Mesh ℝ)
    (hm : makeTetrahedralCapsule r h hint = .ok m) :
    ∀ p ∈ m.vertices.drop 2, OnCapSurfaceStrict r h p := by
  obtain ⟨n, hv⟩ := capsule_mesh_vertices r h hint m hm
  intro p hp
  obtain ⟨c, hc, hcase⟩ := capsule_cap_vertices_core r h n _ hv p hp
  have : 0 < r * c := mul_pos hr hc
  rcases hcase with ⟨hz, hd⟩ | ⟨hz, hd⟩
  · exact Or.inl ⟨by linarith, hd⟩
  · exact Or.inr ⟨by linarith, hd⟩

end TetraMesh
end D3
