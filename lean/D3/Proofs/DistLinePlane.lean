/-
Feasibility and optimality of the `_plane.py` functions at `α := ℝ`:
`_point_to_plane`, `_line_to_plane` / `line_to_plane`, `_line_segment_to_plane`, `plane_to_plane`.
-/
import D3.Proofs.DistLineBasic

namespace D3
namespace DistLine

/-! ### `_point_to_plane` -/

theorem pointToPlane_eq (p pp n : V) :
    pointToPlane p pp n = (|V3.dot n (p - pp)|, p - (V3.dot n (p - pp)) * n) := by
  unfold pointToPlane pointToPlaneK Gen.distance__plane__point_to_plane__signed
  simp only [absS_real]
  rfl

theorem pointToPlaneK_unsigned (p pp n : V) :
    pointToPlaneK p pp n false = (|V3.dot n (p - pp)|, p - (V3.dot n (p - pp)) * n) := by
  unfold pointToPlaneK
  simp only [absS_real]
  rfl

/-- the foot point lies in the plane (needs `|n| = 1`) -/
theorem foot_mem (p pp n : V) (hu : UnitVec n) : planeSet pp n (p - (V3.dot n (p - pp)) * n) := by
  unfold planeSet
  unfold UnitVec at hu
  have : V3.dot n (p - (V3.dot n (p - pp)) * n - pp) = V3.dot n (p - pp) * (1 - V3.dot n n) := by
    vsimp; ring
  rw [this, hu]; ring

theorem foot_dist (p pp n : V) (hu : UnitVec n) :
    |V3.dot n (p - pp)| * |V3.dot n (p - pp)| = V3.normSq (p - (p - (V3.dot n (p - pp)) * n)) ∧
      0 ≤ |V3.dot n (p - pp)| := by
  refine ⟨?_, abs_nonneg _⟩
  unfold UnitVec at hu
  have : V3.normSq (p - (p - (V3.dot n (p - pp)) * n))
      = V3.dot n (p - pp) * V3.dot n (p - pp) * V3.dot n n := by vsimp; ring
  rw [this, hu, abs_mul_abs_self]; ring

/-- the connecting vector `p − foot` is orthogonal to every direction inside the plane -/
theorem foot_orth (p pp n : V) (hu : UnitVec n) (y : V) (hy : planeSet pp n y) :
    V3.dot (p - (p - (V3.dot n (p - pp)) * n)) (y - (p - (V3.dot n (p - pp)) * n)) = 0 := by
  have hf := foot_mem p pp n hu
  unfold planeSet at hy hf
  have : V3.dot (p - (p - (V3.dot n (p - pp)) * n)) (y - (p - (V3.dot n (p - pp)) * n))
      = V3.dot n (p - pp) * (V3.dot n (y - pp) - V3.dot n (p - (V3.dot n (p - pp)) * n - pp)) := by
    vsimp; ring
  rw [this, hy, hf]; ring

theorem pointToPlane_mem (p pp n : V) (hu : UnitVec n) : planeSet pp n (pointToPlane p pp n).2 := by
  rw [pointToPlane_eq]; exact foot_mem p pp n hu

theorem pointToPlane_dist (p pp n : V) (hu : UnitVec n) :
    (pointToPlane p pp n).1 * (pointToPlane p pp n).1 = V3.normSq (p - (pointToPlane p pp n).2) ∧
      0 ≤ (pointToPlane p pp n).1 := by
  rw [pointToPlane_eq]; exact foot_dist p pp n hu

theorem pointToPlane_opt (p pp n : V) (hu : UnitVec n) :
    LowerBound (pointSet p) (planeSet pp n) (pointToPlane p pp n).1 := by
  apply lowerBound_of_variational (pointToPlane_dist p pp n hu).1
  · intro x hx; rw [hx]; vsimp; nlinarith
  · intro y hy
    rw [pointToPlane_eq]
    exact le_of_eq (foot_orth p pp n hu y hy)

/-! ### `_line_to_plane`, `line_to_plane` -/

theorem lineToPlaneK_char {lp ld pp n : V} {eps : ℝ} {inter : Bool} {t : ℝ}
    (h : lineToPlaneK lp ld pp n eps = .ok (inter, t)) :
    (inter = false ∧ V3.dot ld n * V3.dot ld n < eps ∧ t = 0) ∨
    (inter = true ∧ eps ≤ V3.dot ld n * V3.dot ld n ∧ V3.dot n ld ≠ 0 ∧
      t = (V3.dot pp n - V3.dot n lp) / V3.dot n ld) := by
  unfold lineToPlaneK hesseD at h
  simp only [bind, Except.bind, pure, Except.pure] at h
  split at h
  · rename_i hlt
    left
    injection h with h
    have h1 := congrArg Prod.fst h
    have h2 := congrArg Prod.snd h
    simp only at h1 h2
    exact ⟨h1.symm, hlt, h2.symm⟩
  · rename_i hge
    right
    split at h
    · cases h
    · rename_i q hq
      obtain ⟨hne, rfl⟩ := divC_eq_ok hq
      injection h with h
      have h1 := congrArg Prod.fst h
      have h2 := congrArg Prod.snd h
      simp only at h1 h2
      exact ⟨h1.symm, not_lt.mp hge, hne, h2.symm⟩

theorem lineToPlaneK_ok (lp ld pp n : V) {eps : ℝ} (he : 0 < eps) :
    ∃ r, lineToPlaneK lp ld pp n eps = .ok r := by
  unfold lineToPlaneK
  simp only [bind, Except.bind, pure, Except.pure]
  split
  · exact ⟨_, rfl⟩
  · rename_i hge
    have hne : V3.dot n ld ≠ 0 := by
      intro h0
      rw [V3.dot_comm ld n, h0] at hge
      apply hge; linarith
    rw [divC_ok hne]; exact ⟨_, rfl⟩

/-- the intersection parameter really gives a point of the plane (no unit-length assumption) -/
theorem lineToPlane_hit {lp ld pp n : V} {t : ℝ} (hne : V3.dot n ld ≠ 0)
    (ht : t = (V3.dot pp n - V3.dot n lp) / V3.dot n ld) : planeSet pp n (lp + t * ld) := by
  unfold planeSet
  have : V3.dot n (lp + t * ld - pp) = V3.dot n lp - V3.dot pp n + t * V3.dot n ld := by vsimp; ring
  rw [this, ht]; field_simp; ring

theorem lineToPlaneE_char {lp ld pp n : V} {eps : ℝ} {r : Res3 ℝ}
    (h : lineToPlaneE lp ld pp n eps = .ok r) :
    (r.br = 0 ∧ eps ≤ V3.dot ld n * V3.dot ld n ∧ r.d = 0 ∧ r.p1 = r.p2 ∧
      lineSet lp ld r.p1 ∧ planeSet pp n r.p2) ∨
    (r.br = 1 ∧ V3.dot ld n * V3.dot ld n < eps ∧ r.d = (pointToPlane lp pp n).1 ∧ r.p1 = lp ∧
      r.p2 = (pointToPlane lp pp n).2) := by
  unfold lineToPlaneE at h
  simp only [bind, Except.bind, pure, Except.pure] at h
  split at h
  · cases h
  · rename_i v hv
    obtain ⟨inter, t⟩ := v
    rcases lineToPlaneK_char hv with ⟨hi, hlt, _⟩ | ⟨hi, hge, hne, ht⟩
    · right
      subst hi
      simp only [Bool.false_eq_true, if_false] at h
      injection h with h
      subst h
      exact ⟨rfl, hlt, rfl, rfl, rfl⟩
    · left
      subst hi
      simp only [if_true] at h
      injection h with h
      subst h
      exact ⟨rfl, hge, rfl, rfl, ⟨t, rfl⟩, lineToPlane_hit hne ht⟩

theorem lineToPlaneE_ok (lp ld pp n : V) {eps : ℝ} (he : 0 < eps) :
    ∃ r, lineToPlaneE lp ld pp n eps = .ok r := by
  obtain ⟨⟨inter, t⟩, hr⟩ := lineToPlaneK_ok lp ld pp n he
  unfold lineToPlaneE
  simp only [bind, Except.bind, pure, Except.pure]
  rw [hr]
  dsimp only
  split <;> exact ⟨_, rfl⟩

theorem lineToPlaneE_mem₁ {lp ld pp n : V} {eps : ℝ} {r : Res3 ℝ}
    (h : lineToPlaneE lp ld pp n eps = .ok r) : lineSet lp ld r.p1 := by
  rcases lineToPlaneE_char h with ⟨_, _, _, _, hm, _⟩ | ⟨_, _, _, hp, _⟩
  · exact hm
  · exact ⟨0, by rw [hp]; apply V3.ext' <;> simp⟩

theorem lineToPlaneE_mem₂ {lp ld pp n : V} {eps : ℝ} {r : Res3 ℝ}
    (h : lineToPlaneE lp ld pp n eps = .ok r) (hu : UnitVec n) : planeSet pp n r.p2 := by
  rcases lineToPlaneE_char h with ⟨_, _, _, _, _, hm⟩ | ⟨_, _, _, _, hp⟩
  · exact hm
  · rw [hp]; exact pointToPlane_mem lp pp n hu

theorem lineToPlaneE_dist {lp ld pp n : V} {eps : ℝ} {r : Res3 ℝ}
    (h : lineToPlaneE lp ld pp n eps = .ok r) (hu : UnitVec n) :
    r.d * r.d = V3.normSq (r.p1 - r.p2) ∧ 0 ≤ r.d := by
  rcases lineToPlaneE_char h with ⟨_, _, hd, hp, _⟩ | ⟨_, _, hd, hp1, hp2⟩
  · rw [hd, hp]
    refine ⟨?_, le_refl _⟩
    vsimp; ring
  · rw [hd, hp1, hp2]; exact pointToPlane_dist lp pp n hu

/-- optimality of `line_to_plane`; the band `0 < (ld·n)² < epsilon` is excluded by `hband` -/
theorem lineToPlaneE_opt {lp ld pp n : V} {eps : ℝ} {r : Res3 ℝ}
    (h : lineToPlaneE lp ld pp n eps = .ok r) (hu : UnitVec n)
    (hband : eps ≤ V3.dot ld n * V3.dot ld n ∨ V3.dot ld n = 0) :
    LowerBound (lineSet lp ld) (planeSet pp n) r.d := by
  rcases lineToPlaneE_char h with ⟨_, _, hd, _⟩ | ⟨_, hlt, hd, hp1, hp2⟩
  · intro x _ y _
    rw [hd]; simp only [mul_zero]; exact V3.normSq_nonneg _
  · have hl : V3.dot ld n = 0 := by
      rcases hband with hb | hb
      · linarith
      · exact hb
    apply lowerBound_of_variational (lineToPlaneE_dist h hu).1
    · rintro x ⟨t, rfl⟩
      rw [hp1, hp2, pointToPlane_eq]
      have : V3.dot (lp - (lp - (V3.dot n (lp - pp)) * n)) (lp + t * ld - lp)
          = V3.dot n (lp - pp) * t * V3.dot ld n := by vsimp; ring
      rw [this, hl]; simp
    · intro y hy
      rw [hp1, hp2, pointToPlane_eq]
      exact le_of_eq (foot_orth lp pp n hu y hy)

/-! ### `convert_segment_to_line`, `_line_segment_to_plane` -/

/-- `convert_segment_to_line` returns the length and a direction with `s₁ − s₀ = len · dir` -/
theorem segmentToLine_spec (s0 s1 : V) :
    (segmentToLine s0 s1).2 = V3.norm (s1 - s0) ∧
    s1 - s0 = (segmentToLine s0 s1).2 * (segmentToLine s0 s1).1 := by
  unfold segmentToLine
  dsimp only
  split
  · rename_i hpos
    refine ⟨rfl, ?_⟩
    have hne : V3.norm (s1 - s0) ≠ 0 := ne_of_gt hpos
    apply V3.ext' <;> simp only [V3.smul_x, V3.smul_y, V3.smul_z, sdiv_x, sdiv_y, sdiv_z] <;> field_simp
  · rename_i hnp
    refine ⟨rfl, ?_⟩
    have h0 : V3.norm (s1 - s0) = 0 := le_antisymm (not_lt.mp hnp) (V3.norm_nonneg _)
    have hn : V3.normSq (s1 - s0) = 0 := by rw [← V3.norm_sq, h0]; ring
    have hz := V3.normSq_eq_zero hn
    rw [h0]
    show s1 - s0 = (0 : ℝ) * (s1 - s0)
    rw [hz]; apply V3.ext' <;> simp

/-- `fin cps` of the model: project the chosen end point onto the plane -/
def IsFoot (pp n cps : V) (r : Res3 ℝ) : Prop :=
  r.d = |V3.dot n (cps - pp)| ∧ r.p1 = cps ∧ r.p2 = cps - (V3.dot n (cps - pp)) * n

theorem segToPlaneK_char {s0 s1 pp n : V} {eps : ℝ} {r : Res3 ℝ}
    (h : segToPlaneK s0 s1 pp n eps = .ok r) :
    let dir := (segmentToLine s0 s1).1
    let len := (segmentToLine s0 s1).2
    let t := (V3.dot pp n - V3.dot n s0) / V3.dot n dir
    (r.br = 0 ∧ eps ≤ V3.dot dir n * V3.dot dir n ∧ V3.dot n dir ≠ 0 ∧ 0 ≤ t ∧ t ≤ len ∧
      r.d = 0 ∧ r.p1 = s0 + t * dir ∧ r.p2 = r.p1) ∨
    (r.br = 1 ∧ eps ≤ V3.dot dir n * V3.dot dir n ∧ V3.dot n dir ≠ 0 ∧ t < 0 ∧ IsFoot pp n s0 r) ∨
    (r.br = 2 ∧ eps ≤ V3.dot dir n * V3.dot dir n ∧ V3.dot n dir ≠ 0 ∧ len < t ∧ IsFoot pp n s1 r) ∨
    (r.br = 3 ∧ V3.dot dir n * V3.dot dir n < eps ∧ IsFoot pp n s0 r) := by
  intro dir len t
  unfold segToPlaneK at h
  simp only [bind, Except.bind, pure, Except.pure, pointToPlaneK_unsigned] at h
  split at h
  · cases h
  · rename_i v hv
    obtain ⟨inter, t'⟩ := v
    rcases lineToPlaneK_char hv with ⟨hi, hlt, _⟩ | ⟨hi, hge, hne, ht⟩
    · subst hi
      simp only [Bool.false_eq_true, if_false] at h
      injection h with h
      subst h
      exact Or.inr (Or.inr (Or.inr ⟨rfl, hlt, rfl, rfl, rfl⟩))
    · subst hi
      simp only [if_true] at h
      have htt : t' = t := ht
      subst htt
      split at h
      · rename_i hin
        injection h with h
        subst h
        exact Or.inl ⟨rfl, hge, hne, hin.1, hin.2, rfl, rfl, rfl⟩
      · rename_i hout
        split at h
        · rename_i hneg
          injection h with h
          subst h
          exact Or.inr (Or.inl ⟨rfl, hge, hne, hneg, rfl, rfl, rfl⟩)
        · rename_i hnn
          injection h with h
          subst h
          refine Or.inr (Or.inr (Or.inl ⟨rfl, hge, hne, ?_, rfl, rfl, rfl⟩))
          by_contra hle
          exact hout ⟨not_lt.mp hnn, not_lt.mp hle⟩

theorem segToPlaneK_ok (s0 s1 pp n : V) {eps : ℝ} (he : 0 < eps) :
    ∃ r, segToPlaneK s0 s1 pp n eps = .ok r := by
  obtain ⟨⟨inter, t⟩, hr⟩ := lineToPlaneK_ok s0 (segmentToLine s0 s1).1 pp n he
  unfold segToPlaneK
  simp only [bind, Except.bind, pure, Except.pure]
  rw [hr]
  dsimp only
  split
  · split
    · exact ⟨_, rfl⟩
    · split <;> exact ⟨_, rfl⟩
  · exact ⟨_, rfl⟩

theorem segToPlaneK_mem₁ {s0 s1 pp n : V} {eps : ℝ} {r : Res3 ℝ}
    (h : segToPlaneK s0 s1 pp n eps = .ok r) : segmentSet s0 s1 r.p1 := by
  obtain ⟨hlen, hdir⟩ := segmentToLine_spec s0 s1
  rcases segToPlaneK_char h with ⟨_, hge, hne, h0, h1, _, hp, _⟩ | ⟨_, _, _, _, _, hp, _⟩ |
    ⟨_, _, _, _, _, hp, _⟩ | ⟨_, _, _, hp, _⟩
  · -- the hit point: parameter t/len
    have hlpos : 0 < (segmentToLine s0 s1).2 := by
      rcases lt_or_eq_of_le (by rw [hlen]; exact V3.norm_nonneg _ : 0 ≤ (segmentToLine s0 s1).2) with hl | hl
      · exact hl
      · exfalso
        -- zero length: s₁ − s₀ = 0 · dir, and the un-normalised direction is s₁ − s₀ itself
        have hz : s1 - s0 = (0 : ℝ) * (segmentToLine s0 s1).1 := by rw [hl]; exact hdir
        have hd0 : (segmentToLine s0 s1).1 = s1 - s0 := by
          unfold segmentToLine
          rw [if_neg]
          rw [← hlen, ← hl]; exact lt_irrefl _
        rw [hd0] at hne hz
        apply hne
        rw [hz]; vsimp; ring
    refine ⟨((V3.dot pp n - V3.dot n s0) / V3.dot n (segmentToLine s0 s1).1) / (segmentToLine s0 s1).2,
      div_nonneg h0 (le_of_lt hlpos), (div_le_one hlpos).mpr h1, ?_⟩
    rw [hp, hdir]
    apply V3.ext' <;> simp only [V3.add_x, V3.add_y, V3.add_z, V3.smul_x, V3.smul_y, V3.smul_z] <;>
      field_simp
  · exact ⟨0, le_refl _, zero_le_one, by rw [hp]; apply V3.ext' <;> simp⟩
  · exact ⟨1, zero_le_one, le_refl _, by rw [hp]; apply V3.ext' <;> simp⟩
  · exact ⟨0, le_refl _, zero_le_one, by rw [hp]; apply V3.ext' <;> simp⟩

theorem IsFoot.mem₂ {pp n cps : V} {r : Res3 ℝ} (h : IsFoot pp n cps r) (hu : UnitVec n) :
    planeSet pp n r.p2 := by
  rw [h.2.2]; exact foot_mem cps pp n hu

theorem IsFoot.dist {pp n cps : V} {r : Res3 ℝ} (h : IsFoot pp n cps r) (hu : UnitVec n) :
    r.d * r.d = V3.normSq (r.p1 - r.p2) ∧ 0 ≤ r.d := by
  rw [h.1, h.2.1, h.2.2]; exact foot_dist cps pp n hu

theorem segToPlaneK_mem₂ {s0 s1 pp n : V} {eps : ℝ} {r : Res3 ℝ}
    (h : segToPlaneK s0 s1 pp n eps = .ok r) (hu : UnitVec n) : planeSet pp n r.p2 := by
  rcases segToPlaneK_char h with ⟨_, _, hne, _, _, _, hp1, hp2⟩ | ⟨_, _, _, _, hf⟩ | ⟨_, _, _, _, hf⟩ | ⟨_, _, hf⟩
  · rw [hp2, hp1]; exact lineToPlane_hit hne rfl
  · exact hf.mem₂ hu
  · exact hf.mem₂ hu
  · exact hf.mem₂ hu

theorem segToPlaneK_dist {s0 s1 pp n : V} {eps : ℝ} {r : Res3 ℝ}
    (h : segToPlaneK s0 s1 pp n eps = .ok r) (hu : UnitVec n) :
    r.d * r.d = V3.normSq (r.p1 - r.p2) ∧ 0 ≤ r.d := by
  rcases segToPlaneK_char h with ⟨_, _, _, _, _, hd, _, hp2⟩ | ⟨_, _, _, _, hf⟩ | ⟨_, _, _, _, hf⟩ | ⟨_, _, hf⟩
  · rw [hd, hp2]
    refine ⟨?_, le_refl _⟩
    vsimp; ring
  · exact hf.dist hu
  · exact hf.dist hu
  · exact hf.dist hu

/-- optimality of `_line_segment_to_plane`; `hband` excludes `0 < (dir·n)² < epsilon` for the
normalised segment direction -/
theorem segToPlaneK_opt {s0 s1 pp n : V} {eps : ℝ} {r : Res3 ℝ}
    (h : segToPlaneK s0 s1 pp n eps = .ok r) (hu : UnitVec n)
    (hband : eps ≤ V3.dot (segmentToLine s0 s1).1 n * V3.dot (segmentToLine s0 s1).1 n ∨
      V3.dot (segmentToLine s0 s1).1 n = 0) :
    LowerBound (segmentSet s0 s1) (planeSet pp n) r.d := by
  obtain ⟨hlen, hdir⟩ := segmentToLine_spec s0 s1
  have hl0 : 0 ≤ (segmentToLine s0 s1).2 := by rw [hlen]; exact V3.norm_nonneg _
  -- `n·(s₁ − s₀) = len · (n·dir)`
  have hnd : V3.dot n (s1 - s0) = (segmentToLine s0 s1).2 * V3.dot n (segmentToLine s0 s1).1 := by
    rw [hdir]; vsimp; ring
  have hdist := segToPlaneK_dist h hu
  -- common part: w = τ·n is orthogonal to the plane directions
  have plane_side : ∀ cps, IsFoot pp n cps r → ∀ y, planeSet pp n y → V3.dot (r.p1 - r.p2) (y - r.p2) ≤ 0 := by
    intro cps hf y hy
    rw [hf.2.1, hf.2.2]
    exact le_of_eq (foot_orth cps pp n hu y hy)
  rcases segToPlaneK_char h with ⟨_, _, _, _, _, hd, _⟩ | ⟨_, _, hne, ht, hf⟩ | ⟨_, _, hne, ht, hf⟩ | ⟨_, hlt, hf⟩
  · intro x _ y _
    rw [hd]; simp only [mul_zero]; exact V3.normSq_nonneg _
  · -- closest point is the start: τ₀·(n·dir) > 0
    apply lowerBound_of_variational hdist.1 _ (plane_side s0 hf)
    rintro x ⟨s', h0, _, rfl⟩
    rw [hf.2.1, hf.2.2]
    have e : V3.dot (s0 - (s0 - (V3.dot n (s0 - pp)) * n)) (s0 + s' * (s1 - s0) - s0)
        = s' * (V3.dot n (s0 - pp) * V3.dot n (s1 - s0)) := by vsimp; ring
    rw [e, hnd]
    have hτ : V3.dot pp n - V3.dot n s0 = -(V3.dot n (s0 - pp)) := by vsimp; ring
    rw [hτ] at ht
    have hprod : 0 < V3.dot n (s0 - pp) * V3.dot n (segmentToLine s0 s1).1 := by
      have h2 : 0 < V3.dot n (s0 - pp) / V3.dot n (segmentToLine s0 s1).1 := by
        rw [neg_div] at ht; linarith
      have := mul_pos h2 (mul_self_pos.mpr hne)
      have e2 : V3.dot n (s0 - pp) / V3.dot n (segmentToLine s0 s1).1 *
          (V3.dot n (segmentToLine s0 s1).1 * V3.dot n (segmentToLine s0 s1).1)
          = V3.dot n (s0 - pp) * V3.dot n (segmentToLine s0 s1).1 := by field_simp
      rw [e2] at this; exact this
    have := mul_nonneg hl0 (le_of_lt hprod)
    nlinarith
  · -- closest point is the end: τ₁·(n·dir) < 0
    apply lowerBound_of_variational hdist.1 _ (plane_side s1 hf)
    rintro x ⟨s', _, h1, rfl⟩
    rw [hf.2.1, hf.2.2]
    have e : V3.dot (s1 - (s1 - (V3.dot n (s1 - pp)) * n)) (s0 + s' * (s1 - s0) - s1)
        = (s' - 1) * (V3.dot n (s1 - pp) * V3.dot n (s1 - s0)) := by vsimp; ring
    rw [e, hnd]
    have hτ : V3.dot n (s1 - pp) = V3.dot n (s0 - pp) + V3.dot n (s1 - s0) := by vsimp; ring
    have hτ0 : V3.dot pp n - V3.dot n s0 = -(V3.dot n (s0 - pp)) := by vsimp; ring
    rw [hτ0] at ht
    -- len < −τ₀/l  ⇒  (τ₀ + len·l)·l < 0
    have hprod : (V3.dot n (s0 - pp) + (segmentToLine s0 s1).2 * V3.dot n (segmentToLine s0 s1).1)
        * V3.dot n (segmentToLine s0 s1).1 < 0 := by
      have hsq := mul_self_pos.mpr hne
      have := mul_lt_mul_of_pos_right ht hsq
      have e2 : -(V3.dot n (s0 - pp)) / V3.dot n (segmentToLine s0 s1).1 *
          (V3.dot n (segmentToLine s0 s1).1 * V3.dot n (segmentToLine s0 s1).1)
          = -(V3.dot n (s0 - pp)) * V3.dot n (segmentToLine s0 s1).1 := by field_simp
      rw [e2] at this
      nlinarith
    rw [hτ, hnd]
    have := mul_nonneg hl0 (le_of_lt (neg_pos.mpr hprod))
    nlinarith
  · -- exactly parallel
    have hl : V3.dot (segmentToLine s0 s1).1 n = 0 := by
      rcases hband with hb | hb
      · linarith
      · exact hb
    apply lowerBound_of_variational hdist.1 _ (plane_side s0 hf)
    rintro x ⟨s', _, _, rfl⟩
    rw [hf.2.1, hf.2.2]
    have e : V3.dot (s0 - (s0 - (V3.dot n (s0 - pp)) * n)) (s0 + s' * (s1 - s0) - s0)
        = s' * (V3.dot n (s0 - pp) * V3.dot n (s1 - s0)) := by vsimp; ring
    rw [e, hnd, V3.dot_comm n (segmentToLine s0 s1).1, hl]; simp

/-! ### `plane_intersects_plane`, `line_from_pluecker`, `plane_to_plane` -/

/-- the point computed from the Plücker coordinates of the intersection line lies in both planes
(no unit-length assumption; only `n₁ × n₂ ≠ 0`) -/
theorem pluecker_point_mem (pp1 n1 pp2 n2 : V) (hpos : 0 < V3.dot (V3.cross n1 n2) (V3.cross n1 n2)) :
    planeSet pp1 n1 (lineFromPlueckerPoint (V3.cross n1 n2) (planeIntersectsPlaneMoment pp1 n1 pp2 n2)) ∧
    planeSet pp2 n2 (lineFromPlueckerPoint (V3.cross n1 n2) (planeIntersectsPlaneMoment pp1 n1 pp2 n2)) := by
  unfold lineFromPlueckerPoint planeIntersectsPlaneMoment hesseD planeSet
  dsimp only
  rw [if_pos hpos]
  have hne := ne_of_gt hpos
  constructor
  · have e : V3.dot n1 (V3.sdiv (V3.cross (V3.cross n1 n2) (V3.dot pp2 n2 * n1 - V3.dot pp1 n1 * n2))
          (V3.dot (V3.cross n1 n2) (V3.cross n1 n2)) - pp1)
        = (V3.dot pp1 n1 * V3.dot (V3.cross n1 n2) (V3.cross n1 n2)) / V3.dot (V3.cross n1 n2) (V3.cross n1 n2)
          - V3.dot pp1 n1 := by
      vsimp; field_simp; ring
    rw [e]; field_simp; ring
  · have e : V3.dot n2 (V3.sdiv (V3.cross (V3.cross n1 n2) (V3.dot pp2 n2 * n1 - V3.dot pp1 n1 * n2))
          (V3.dot (V3.cross n1 n2) (V3.cross n1 n2)) - pp2)
        = (V3.dot pp2 n2 * V3.dot (V3.cross n1 n2) (V3.cross n1 n2)) / V3.dot (V3.cross n1 n2) (V3.cross n1 n2)
          - V3.dot pp2 n2 := by
      vsimp; field_simp; ring
    rw [e]; field_simp; ring

theorem planeToPlaneE_char (pp1 n1 pp2 n2 : V) (eps : ℝ) :
    ((planeToPlaneE pp1 n1 pp2 n2 eps).br = 0 ∧ eps < V3.norm (V3.cross n1 n2) ∧
      (planeToPlaneE pp1 n1 pp2 n2 eps).d = 0 ∧
      (planeToPlaneE pp1 n1 pp2 n2 eps).p2 = (planeToPlaneE pp1 n1 pp2 n2 eps).p1 ∧
      (planeToPlaneE pp1 n1 pp2 n2 eps).p1
        = lineFromPlueckerPoint (V3.cross n1 n2) (planeIntersectsPlaneMoment pp1 n1 pp2 n2)) ∨
    ((planeToPlaneE pp1 n1 pp2 n2 eps).br = 1 ∧ V3.norm (V3.cross n1 n2) ≤ eps ∧
      (planeToPlaneE pp1 n1 pp2 n2 eps).d = (pointToPlane pp1 pp2 n2).1 ∧
      (planeToPlaneE pp1 n1 pp2 n2 eps).p1 = pp1 ∧
      (planeToPlaneE pp1 n1 pp2 n2 eps).p2 = (pointToPlane pp1 pp2 n2).2) := by
  by_cases hc : eps < V3.norm (V3.cross n1 n2)
  · left
    have : planeToPlaneE pp1 n1 pp2 n2 eps
        = ⟨0, lineFromPlueckerPoint (V3.cross n1 n2) (planeIntersectsPlaneMoment pp1 n1 pp2 n2),
        lineFromPlueckerPoint (V3.cross n1 n2) (planeIntersectsPlaneMoment pp1 n1 pp2 n2), 0⟩ := by
      unfold planeToPlaneE
      simp only [if_pos hc]
    rw [this]
    exact ⟨rfl, hc, rfl, rfl, rfl⟩
  · right
    have : planeToPlaneE pp1 n1 pp2 n2 eps
        = ⟨(pointToPlane pp1 pp2 n2).1, pp1, (pointToPlane pp1 pp2 n2).2, 1⟩ := by
      unfold planeToPlaneE
      simp only [if_neg hc]
    rw [this]
    exact ⟨rfl, not_lt.mp hc, rfl, rfl, rfl⟩

theorem planeToPlaneE_mem₁ (pp1 n1 pp2 n2 : V) {eps : ℝ} (heps : 0 ≤ eps) :
    planeSet pp1 n1 (planeToPlaneE pp1 n1 pp2 n2 eps).p1 := by
  rcases planeToPlaneE_char pp1 n1 pp2 n2 eps with ⟨_, hc, _, _, hp⟩ | ⟨_, _, _, hp, _⟩
  · rw [hp]
    have hpos : 0 < V3.dot (V3.cross n1 n2) (V3.cross n1 n2) := by
      have h0 : 0 < V3.norm (V3.cross n1 n2) := lt_of_le_of_lt heps hc
      have := mul_pos h0 h0
      rwa [V3.norm_sq] at this
    exact (pluecker_point_mem pp1 n1 pp2 n2 hpos).1
  · rw [hp]; unfold planeSet; vsimp; ring

theorem planeToPlaneE_mem₂ (pp1 n1 pp2 n2 : V) {eps : ℝ} (heps : 0 ≤ eps) (hu2 : UnitVec n2) :
    planeSet pp2 n2 (planeToPlaneE pp1 n1 pp2 n2 eps).p2 := by
  rcases planeToPlaneE_char pp1 n1 pp2 n2 eps with ⟨_, hc, _, hp2, hp⟩ | ⟨_, _, _, _, hp⟩
  · rw [hp2, hp]
    have hpos : 0 < V3.dot (V3.cross n1 n2) (V3.cross n1 n2) := by
      have h0 : 0 < V3.norm (V3.cross n1 n2) := lt_of_le_of_lt heps hc
      have := mul_pos h0 h0
      rwa [V3.norm_sq] at this
    exact (pluecker_point_mem pp1 n1 pp2 n2 hpos).2
  · rw [hp]; exact pointToPlane_mem pp1 pp2 n2 hu2

theorem planeToPlaneE_dist (pp1 n1 pp2 n2 : V) (eps : ℝ) (hu2 : UnitVec n2) :
    (planeToPlaneE pp1 n1 pp2 n2 eps).d * (planeToPlaneE pp1 n1 pp2 n2 eps).d
      = V3.normSq ((planeToPlaneE pp1 n1 pp2 n2 eps).p1 - (planeToPlaneE pp1 n1 pp2 n2 eps).p2) ∧
    0 ≤ (planeToPlaneE pp1 n1 pp2 n2 eps).d := by
  rcases planeToPlaneE_char pp1 n1 pp2 n2 eps with ⟨_, _, hd, hp2, _⟩ | ⟨_, _, hd, hp1, hp2⟩
  · rw [hd, hp2]
    refine ⟨?_, le_refl _⟩
    vsimp; ring
  · rw [hd, hp1, hp2]; exact pointToPlane_dist pp1 pp2 n2 hu2

/-- optimality of `plane_to_plane`; `hband` excludes `0 < |n₁ × n₂| ≤ epsilon` -/
theorem planeToPlaneE_opt (pp1 n1 pp2 n2 : V) (eps : ℝ) (hu1 : UnitVec n1) (hu2 : UnitVec n2)
    (hband : eps < V3.norm (V3.cross n1 n2) ∨ V3.cross n1 n2 = ⟨0, 0, 0⟩) :
    LowerBound (planeSet pp1 n1) (planeSet pp2 n2) (planeToPlaneE pp1 n1 pp2 n2 eps).d := by
  rcases planeToPlaneE_char pp1 n1 pp2 n2 eps with ⟨_, _, hd, _⟩ | ⟨_, hle, hd, hp1, hp2⟩
  · intro x _ y _
    rw [hd]; simp only [mul_zero]; exact V3.normSq_nonneg _
  · have hcr : V3.cross n1 n2 = ⟨0, 0, 0⟩ := by
      rcases hband with hb | hb
      · linarith
      · exact hb
    -- exact parallelism: n₂ = (n₁·n₂) n₁
    have hx := congrArg V3.x hcr
    have hy := congrArg V3.y hcr
    have hz := congrArg V3.z hcr
    simp only [cross_x, cross_y, cross_z] at hx hy hz
    unfold UnitVec at hu1
    have hpar : V3.normSq (n2 - (V3.dot n1 n2) * n1) = 0 := by
      have : V3.normSq (n2 - (V3.dot n1 n2) * n1)
          = (n1.y * n2.z - n1.z * n2.y) ^ 2 + (n1.z * n2.x - n1.x * n2.z) ^ 2 + (n1.x * n2.y - n1.y * n2.x) ^ 2
            + (V3.dot n1 n1 - 1) * (V3.dot n1 n2 * V3.dot n1 n2 - V3.dot n2 n2) := by vsimp; ring
      rw [this, hx, hy, hz, hu1]; ring
    have hn := V3.normSq_eq_zero hpar
    have ex := congrArg V3.x hn
    have ey := congrArg V3.y hn
    have ez := congrArg V3.z hn
    simp only [V3.sub_x, V3.sub_y, V3.sub_z, V3.smul_x, V3.smul_y, V3.smul_z] at ex ey ez
    apply lowerBound_of_variational (planeToPlaneE_dist pp1 n1 pp2 n2 eps hu2).1
    · intro x hx'
      rw [hp1, hp2, pointToPlane_eq]
      unfold planeSet at hx'
      have e : V3.dot (pp1 - (pp1 - (V3.dot n2 (pp1 - pp2)) * n2)) (x - pp1)
          = V3.dot n2 (pp1 - pp2) * (n2.x * (x.x - pp1.x) + n2.y * (x.y - pp1.y) + n2.z * (x.z - pp1.z)) := by
        vsimp; ring
      have ex' : n2.x = V3.dot n1 n2 * n1.x := by linarith
      have ey' : n2.y = V3.dot n1 n2 * n1.y := by linarith
      have ez' : n2.z = V3.dot n1 n2 * n1.z := by linarith
      have e2 : n2.x * (x.x - pp1.x) + n2.y * (x.y - pp1.y) + n2.z * (x.z - pp1.z)
          = V3.dot n1 n2 * V3.dot n1 (x - pp1) := by
        rw [ex', ey', ez', V3.dot_def n1 (x - pp1)]
        simp only [V3.sub_x, V3.sub_y, V3.sub_z]; ring
      rw [e, e2, hx']; simp
    · intro y hy
      rw [hp1, hp2, pointToPlane_eq]
      exact le_of_eq (foot_orth pp1 pp2 n2 hu2 y hy)

end DistLine
end D3
