/-
C18, Jolt solver: the exactly flat tetrahedron (`D = det[ab, ac, ad] = 0`, the "mixed signs"
branch): every point of the hull of four affinely dependent points lies in one of the four
faces (Carathéodory step), so the best of the four face solutions is the minimiser.
-/
import D3.Proofs.SimplexTetra
import D3.Proofs.SimplexTriDegenerate

set_option linter.unusedSectionVars false
set_option linter.unusedVariables false

namespace D3
namespace Simplex

/-- Carathéodory step: given a non-trivial affine dependency `α` (sum 0, `Σ αᵢ Pᵢ = 0`) every
convex combination can be rewritten with one weight equal to zero. -/
theorem drop_one {n : Nat} (α q : Fin n → ℝ) (hq : ∀ i, 0 ≤ q i) (hpos : ∃ i, 0 < α i) :
    ∃ s : ℝ, (∀ i, 0 ≤ q i - s * α i) ∧ ∃ j, q j - s * α j = 0 := by
  classical
  let S : Finset (Fin n) := Finset.univ.filter (fun i => 0 < α i)
  have hS : S.Nonempty := by
    obtain ⟨i, hi⟩ := hpos
    exact ⟨i, by simp [S, hi]⟩
  obtain ⟨j, hjS, hmin⟩ := Finset.exists_min_image S (fun i => q i / α i) hS
  have hj : 0 < α j := by simpa [S] using hjS
  refine ⟨q j / α j, ?_, j, by field_simp; ring⟩
  intro i
  have hs0 : 0 ≤ q j / α j := div_nonneg (hq j) hj.le
  by_cases hi : 0 < α i
  · have hiS : i ∈ S := by simp [S, hi]
    have := hmin i hiS
    have h2 : q j / α j * α i ≤ q i / α i * α i := mul_le_mul_of_nonneg_right this hi.le
    have h3 : q i / α i * α i = q i := by field_simp
    linarith
  · have : q j / α j * α i ≤ 0 := mul_nonpos_of_nonneg_of_nonpos hs0 (not_lt.mp hi)
    linarith [hq i]

/-- general Cramer identity (`z` arbitrary): the four plane values of `z` are `D` times its
barycentric coordinates -/
theorem cramer_general (a b c d z : V) :
    V3.dot (z - b) (V3.cross (d - b) (c - b)) + V3.dot (z - a) (V3.cross (c - a) (d - a)) +
      V3.dot (z - a) (V3.cross (d - a) (b - a)) + V3.dot (z - a) (V3.cross (b - a) (c - a)) =
      V3.dot (d - a) (V3.cross (b - a) (c - a)) ∧
    V3.dot (z - b) (V3.cross (d - b) (c - b)) * a + V3.dot (z - a) (V3.cross (c - a) (d - a)) * b +
      V3.dot (z - a) (V3.cross (d - a) (b - a)) * c + V3.dot (z - a) (V3.cross (b - a) (c - a)) * d =
      V3.dot (d - a) (V3.cross (b - a) (c - a)) * z := by
  constructor
  · simp only [V3.dot_def, cross_x, cross_y, cross_z, V3.sub_x, V3.sub_y, V3.sub_z]; ring
  · apply V3.ext' <;>
    · simp only [V3.dot_def, cross_x, cross_y, cross_z, V3.sub_x, V3.sub_y, V3.sub_z, V3.add_x,
        V3.add_y, V3.add_z, V3.smul_x, V3.smul_y, V3.smul_z]; ring

/-- four affinely dependent points admit a non-trivial affine dependency with a positive entry -/
theorem flat_dependency (a b c d : V) (hD : V3.dot (d - a) (V3.cross (b - a) (c - a)) = 0) :
    ∃ αa αb αc αd : ℝ, αa + αb + αc + αd = 0 ∧
      αa * a + αb * b + αc * c + αd * d = (⟨0, 0, 0⟩ : V) ∧
      (0 < αa ∨ 0 < αb ∨ 0 < αc ∨ 0 < αd) := by
  by_cases hn : V3.cross (b - a) (c - a) = ⟨0, 0, 0⟩
  · -- a, b, c collinear
    by_cases hab0 : V3.dot (b - a) (b - a) = 0
    · have hz := V3.normSq_eq_zero (a := b - a) hab0
      have ex : b.x = a.x := by have := congrArg V3.x hz; simp at this; linarith
      have ey : b.y = a.y := by have := congrArg V3.y hz; simp at this; linarith
      have ez : b.z = a.z := by have := congrArg V3.z hz; simp at this; linarith
      refine ⟨1, -1, 0, 0, by ring, ?_, Or.inl one_pos⟩
      apply V3.ext' <;> simp [ex, ey, ez]
    · have he1 : 0 < V3.dot (b - a) (b - a) :=
        lt_of_le_of_ne (V3.normSq_nonneg _) (Ne.symm hab0)
      have hnx := congrArg V3.x hn
      have hny := congrArg V3.y hn
      have hnz := congrArg V3.z hn
      simp only [cross_x, cross_y, cross_z, V3.sub_x, V3.sub_y, V3.sub_z] at hnx hny hnz
      -- e1 (c − a) = g (b − a):  (g − e1) a − g b + e1 c = 0
      refine ⟨V3.dot (b - a) (c - a) - V3.dot (b - a) (b - a), -V3.dot (b - a) (c - a),
        V3.dot (b - a) (b - a), 0, by ring, ?_, Or.inr (Or.inr (Or.inl he1))⟩
      apply V3.ext' <;> simp only [V3.dot_def, V3.sub_x, V3.sub_y, V3.sub_z, V3.add_x, V3.add_y,
        V3.add_z, V3.smul_x, V3.smul_y, V3.smul_z]
      · linear_combination (b.z - a.z) * hny - (b.y - a.y) * hnz
      · linear_combination (b.x - a.x) * hnz - (b.z - a.z) * hnx
      · linear_combination (b.y - a.y) * hnx - (b.x - a.x) * hny
  · -- z = a + n0
    set n0 := V3.cross (b - a) (c - a) with hn0
    obtain ⟨hs, hv⟩ := cramer_general a b c d (a + n0)
    rw [hD] at hs hv
    have hpos : 0 < V3.dot (a + n0 - a) n0 := by
      have : V3.dot (a + n0 - a) n0 = V3.dot n0 n0 := by
        simp only [V3.dot_def, V3.sub_x, V3.sub_y, V3.sub_z, V3.add_x, V3.add_y, V3.add_z]; ring
      rw [this]
      refine lt_of_le_of_ne (V3.normSq_nonneg _) (fun h => hn ?_)
      exact V3.normSq_eq_zero h.symm
    refine ⟨_, _, _, _, hs, ?_, Or.inr (Or.inr (Or.inr hpos))⟩
    rw [hv]
    apply V3.ext' <;> simp

/-- the hull of four affinely dependent points is covered by the four faces -/
theorem flat_hull_cover (a b c d : V) (hD : V3.dot (d - a) (V3.cross (b - a) (c - a)) = 0) (y : V)
    (hy : hullSet [a, b, c, d] y) :
    hullSet [a, b, c] y ∨ hullSet [a, c, d] y ∨ hullSet [a, d, b] y ∨ hullSet [b, d, c] y := by
  obtain ⟨αa, αb, αc, αd, hαs, hαv, hαp⟩ := flat_dependency a b c d hD
  obtain ⟨u, v, w, t, hu, hv, hw, ht, hs, rfl⟩ := hull4_elim hy
  obtain ⟨s, hall, j, hj⟩ := drop_one ![αa, αb, αc, αd] ![u, v, w, t]
    (by intro i; fin_cases i <;> simp [hu, hv, hw, ht])
    (by
      rcases hαp with h | h | h | h
      · exact ⟨0, by simpa using h⟩
      · exact ⟨1, by simpa using h⟩
      · exact ⟨2, by simpa using h⟩
      · exact ⟨3, by simpa using h⟩)
  have ha := hall 0
  have hb := hall 1
  have hc := hall 2
  have hd := hall 3
  simp only [Matrix.cons_val_zero, Matrix.cons_val_one, Matrix.cons_val] at ha hb hc hd
  have hzx := congrArg V3.x hαv
  have hzy := congrArg V3.y hαv
  have hzz := congrArg V3.z hαv
  simp only [V3.add_x, V3.add_y, V3.add_z, V3.smul_x, V3.smul_y, V3.smul_z] at hzx hzy hzz
  have hrep : u * a + v * b + w * c + t * d =
      (u - s * αa) * a + (v - s * αb) * b + (w - s * αc) * c + (t - s * αd) * d := by
    apply V3.ext' <;> simp only [V3.add_x, V3.add_y, V3.add_z, V3.smul_x, V3.smul_y, V3.smul_z]
    · linear_combination s * hzx
    · linear_combination s * hzy
    · linear_combination s * hzz
  have hsum : (u - s * αa) + (v - s * αb) + (w - s * αc) + (t - s * αd) = 1 := by
    linear_combination hs - s * hαs
  rw [hrep]
  fin_cases j
  · have h0 : u - s * αa = 0 := by simpa using hj
    right; right; right
    have : (u - s * αa) * a + (v - s * αb) * b + (w - s * αc) * c + (t - s * αd) * d =
        (v - s * αb) * b + (t - s * αd) * d + (w - s * αc) * c := by
      rw [h0]; apply V3.ext' <;> simp <;> ring
    rw [this]; exact hull3_intro b d c hb hd hc (by linarith)
  · have h0 : v - s * αb = 0 := by simpa using hj
    right; left
    have : (u - s * αa) * a + (v - s * αb) * b + (w - s * αc) * c + (t - s * αd) * d =
        (u - s * αa) * a + (w - s * αc) * c + (t - s * αd) * d := by
      rw [h0]; apply V3.ext' <;> simp
    rw [this]; exact hull3_intro a c d ha hc hd (by linarith)
  · have h0 : w - s * αc = 0 := by simpa using hj
    right; right; left
    have : (u - s * αa) * a + (v - s * αb) * b + (w - s * αc) * c + (t - s * αd) * d =
        (u - s * αa) * a + (t - s * αd) * d + (v - s * αb) * b := by
      rw [h0]; apply V3.ext' <;> simp <;> ring
    rw [this]; exact hull3_intro a d b ha hd hb (by linarith)
  · have h0 : t - s * αd = 0 := by simpa using hj
    left
    have : (u - s * αa) * a + (v - s * αb) * b + (w - s * αc) * c + (t - s * αd) * d =
        (u - s * αa) * a + (v - s * αb) * b + (w - s * αc) * c := by
      rw [h0]; apply V3.ext' <;> simp
    rw [this]; exact hull3_intro a b c ha hb hc (by linarith)

/-- **tetra_spec, flat case** (`D = 0`, the "mixed signs" branch): all four faces are tested
and the best face solution is the minimum-norm point of the (flat) hull, provided every face
is treated exactly by the triangle routine (`FaceOK`) and `|a|², |b|² < MAX_FLOAT`. -/
theorem closestPointTetrahedron_spec_flat (a b c d : V)
    (hD : V3.dot (d - a) (V3.cross (b - a) (c - a)) = 0)
    (hf0 : FaceOK a b c) (hf1 : FaceOK a c d) (hf2 : FaceOK a d b) (hf3 : FaceOK b d c)
    (hba : V3.dot a a < MAXF) (hbb : V3.dot b b < MAXF) :
    ∃ r, closestPointTetrahedron a b c d = .ok r ∧ IsMinNorm (hullSet [a, b, c, d]) r.pt ∧
      hullSet (selectBits r.set [a, b, c, d]) r.pt := by
  obtain ⟨r0, e0, m0, s0, l0, u0⟩ := closestPointTriangle_faceOK a b c hf0
  obtain ⟨r1, e1, m1, s1, l1, u1⟩ := closestPointTriangle_faceOK a c d hf1
  obtain ⟨r2, e2, m2, s2, l2, u2⟩ := closestPointTriangle_faceOK a d b hf2
  obtain ⟨r3, e3, m3, s3, l3, u3⟩ := closestPointTriangle_faceOK b d c hf3
  have b1 : V3.dot r1.pt r1.pt < MAXF :=
    lt_of_le_of_lt (m1.2 a (hull_sublist (by simp) _ (hull1_intro a))) hba
  have b2 : V3.dot r2.pt r2.pt < MAXF :=
    lt_of_le_of_lt (m2.2 a (hull_sublist (by simp) _ (hull1_intro a))) hba
  have b3 : V3.dot r3.pt r3.pt < MAXF :=
    lt_of_le_of_lt (m3.2 b (hull_sublist (by simp) _ (hull1_intro b))) hbb
  obtain ⟨st1, es1, i1⟩ := tetFirst_inv true a b c r0 e0
  obtain ⟨st2, es2, i2⟩ := tetStep_inv true a c d remapACD 2 r1 e1 _ st1 i1 (fun _ => b1)
  obtain ⟨st3, es3, i3⟩ := tetStep_inv true a d b remapADB 3 r2 e2 _ st2 i2 (fun _ => b2)
  obtain ⟨st4, es4, i4⟩ := tetStep_last_inv true b d c remapBDC 4 r3 e3 _ st3 i3 (fun _ => b3)
  simp only [List.cons_append, List.nil_append] at i4
  have hres : closestPointTetrahedron a b c d = .ok ⟨st4.pt, st4.set, 64 * st4.win + 16 * 2 +
      (1 + 2 + 4 + 8)⟩ := by
    unfold closestPointTetrahedron
    simp only [planes_flat a b c d hD, es1, es2, es3, es4, bind, Except.bind, if_true]
  have g0 : hullSet (selectBits r0.set [a, b, c, d]) r0.pt := by
    rw [selectBits_abc a b c d _ u0]; exact s0
  have g1 : hullSet (selectBits (remapACD r1.set) [a, b, c, d]) r1.pt := by
    rw [remapACD_ok a b c d _ l1 u1]; exact s1
  have g2 : hullSet (selectBits (remapADB r2.set) [a, b, c, d]) r2.pt :=
    hull_perm (remapADB_ok a b c d _ l2 u2).symm _ s2
  have g3 : hullSet (selectBits (remapBDC r3.set) [a, b, c, d]) r3.pt :=
    hull_perm (remapBDC_ok a b c d _ l3 u3).symm _ s3
  rcases i4 with ⟨hnone, _, _⟩ | ⟨⟨e, heL, hef, hept, heset⟩, hall⟩
  · have := hnone (true, r0.pt, r0.set) (by simp)
    cases this
  · have hmemS : hullSet (selectBits st4.set [a, b, c, d]) st4.pt := by
      simp only [List.mem_cons, List.not_mem_nil, or_false] at heL
      rcases heL with rfl | rfl | rfl | rfl <;> (rw [hept, heset]; assumption)
    refine ⟨_, hres, ⟨hull_selectBits hmemS, fun y hy => ?_⟩, hmemS⟩
    show V3.dot st4.pt st4.pt ≤ V3.dot y y
    rcases flat_hull_cover a b c d hD y hy with h | h | h | h
    · exact le_trans (hall (true, r0.pt, r0.set) (by simp) rfl) (m0.2 y h)
    · exact le_trans (hall (true, r1.pt, remapACD r1.set) (by simp) rfl) (m1.2 y h)
    · exact le_trans (hall (true, r2.pt, remapADB r2.set) (by simp) rfl) (m2.2 y h)
    · exact le_trans (hall (true, r3.pt, remapBDC r3.set) (by simp) rfl) (m3.2 y h)

/-! ### what the as-is code does inside the plane-sign band -/

/-- every point of a triangle lies in its plane -/
theorem hull3_plane (p q r x : V) (hx : hullSet [p, q, r] x) :
    V3.dot (x - p) (V3.cross (q - p) (r - p)) = 0 := by
  obtain ⟨u, v, w, _, _, _, hs, rfl⟩ := hull3_elim hx
  have hu : u = 1 - v - w := by linarith
  subst hu
  simp only [V3.dot_def, cross_x, cross_y, cross_z, V3.sub_x, V3.sub_y, V3.sub_z, V3.add_x,
    V3.add_y, V3.add_z, V3.smul_x, V3.smul_y, V3.smul_z]
  ring

/-- a triangle whose plane value `p·((q−p)×(r−p))` is non-zero does not contain the origin -/
theorem origin_not_in_face (p q r : V) (h : V3.dot p (V3.cross (q - p) (r - p)) ≠ 0) :
    ¬ hullSet [p, q, r] (⟨0, 0, 0⟩ : V) := by
  intro hx
  have := hull3_plane p q r _ hx
  apply h
  have e : V3.dot ((⟨0, 0, 0⟩ : V) - p) (V3.cross (q - p) (r - p)) =
      -V3.dot p (V3.cross (q - p) (r - p)) := by
    simp only [V3.dot_def, V3.sub_x, V3.sub_y, V3.sub_z]; ring
  rw [e] at this
  linarith

/-- **as-is behaviour in the band.** Whatever the reason a face is flagged "origin outside":
if at least one face is flagged and no plane value is exactly zero (the origin is on no face
plane), `closest_point_tetrahedron` returns a point different from the origin.  In particular,
when the origin is strictly inside the tetrahedron (true minimiser = origin) and a plane value
lies in the band `[−EPSILON, 0)` resp. `(0, EPSILON]`, the result is not the minimiser. -/
theorem tetra_flagged_nonzero (a b c d : V) (o0 o1 o2 o3 : Bool) (orient : Nat)
    (hpl : originOutsideOfTetrahedronPlanes a b c d = ((o0, o1, o2, o3), orient))
    (hflag : o0 = true ∨ o1 = true ∨ o2 = true ∨ o3 = true)
    (hnz : V3.dot a (V3.cross (b - a) (c - a)) ≠ 0 ∧ V3.dot a (V3.cross (c - a) (d - a)) ≠ 0 ∧
      V3.dot a (V3.cross (d - a) (b - a)) ≠ 0 ∧ V3.dot b (V3.cross (d - b) (c - b)) ≠ 0)
    (hf0 : FaceOK a b c) (hf1 : FaceOK a c d) (hf2 : FaceOK a d b) (hf3 : FaceOK b d c)
    (hba : V3.dot a a < MAXF) (hbb : V3.dot b b < MAXF) :
    ∃ r, closestPointTetrahedron a b c d = .ok r ∧ r.pt ≠ (⟨0, 0, 0⟩ : V) := by
  obtain ⟨r0, e0, m0, s0, l0, u0⟩ := closestPointTriangle_faceOK a b c hf0
  obtain ⟨r1, e1, m1, s1, l1, u1⟩ := closestPointTriangle_faceOK a c d hf1
  obtain ⟨r2, e2, m2, s2, l2, u2⟩ := closestPointTriangle_faceOK a d b hf2
  obtain ⟨r3, e3, m3, s3, l3, u3⟩ := closestPointTriangle_faceOK b d c hf3
  have b1 : V3.dot r1.pt r1.pt < MAXF :=
    lt_of_le_of_lt (m1.2 a (hull_sublist (by simp) _ (hull1_intro a))) hba
  have b2 : V3.dot r2.pt r2.pt < MAXF :=
    lt_of_le_of_lt (m2.2 a (hull_sublist (by simp) _ (hull1_intro a))) hba
  have b3 : V3.dot r3.pt r3.pt < MAXF :=
    lt_of_le_of_lt (m3.2 b (hull_sublist (by simp) _ (hull1_intro b))) hbb
  obtain ⟨st1, es1, i1⟩ := tetFirst_inv o0 a b c r0 e0
  obtain ⟨st2, es2, i2⟩ := tetStep_inv o1 a c d remapACD 2 r1 e1 _ st1 i1 (fun _ => b1)
  obtain ⟨st3, es3, i3⟩ := tetStep_inv o2 a d b remapADB 3 r2 e2 _ st2 i2 (fun _ => b2)
  obtain ⟨st4, es4, i4⟩ := tetStep_last_inv o3 b d c remapBDC 4 r3 e3 _ st3 i3 (fun _ => b3)
  simp only [List.cons_append, List.nil_append] at i4
  have hres : closestPointTetrahedron a b c d = .ok ⟨st4.pt, st4.set, 64 * st4.win + 16 * orient +
      ((if o0 then 1 else 0) + (if o1 then 2 else 0) + (if o2 then 4 else 0)
        + (if o3 then 8 else 0))⟩ := by
    unfold closestPointTetrahedron
    simp only [hpl, es1, es2, es3, es4, bind, Except.bind]
  refine ⟨_, hres, ?_⟩
  show st4.pt ≠ _
  rcases i4 with ⟨hnone, _, _⟩ | ⟨⟨e, heL, hef, hept, heset⟩, _⟩
  · exfalso
    have f0 : o0 = false := hnone (o0, r0.pt, r0.set) (by simp)
    have f1 : o1 = false := hnone (o1, r1.pt, remapACD r1.set) (by simp)
    have f2 : o2 = false := hnone (o2, r2.pt, remapADB r2.set) (by simp)
    have f3 : o3 = false := hnone (o3, r3.pt, remapBDC r3.set) (by simp)
    rcases hflag with h | h | h | h
    · rw [f0] at h; cases h
    · rw [f1] at h; cases h
    · rw [f2] at h; cases h
    · rw [f3] at h; cases h
  · simp only [List.mem_cons, List.not_mem_nil, or_false] at heL
    rw [hept]
    rcases heL with rfl | rfl | rfl | rfl
    · intro h0; exact origin_not_in_face a b c hnz.1 (h0 ▸ m0.1)
    · intro h0; exact origin_not_in_face a c d hnz.2.1 (h0 ▸ m1.1)
    · intro h0; exact origin_not_in_face a d b hnz.2.2.1 (h0 ▸ m2.1)
    · intro h0; exact origin_not_in_face b d c hnz.2.2.2 (h0 ▸ m3.1)

end Simplex
end D3
