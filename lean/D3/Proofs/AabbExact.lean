/-
Order-dependent facts of the AABB tree at ℝ: enclosure ⇒ the pruned traversal returns
exactly the overlapping leaves; tight trees enclose; soundness of `wfCheck`;
tree-layer insertion keeps the leaf multiset and tightness and never trips the assertion.
-/
import D3.Spec.Real
import D3.Proofs.AabbTreeQuery
import Mathlib.Tactic.Linarith
import Mathlib.Tactic.Positivity

set_option linter.unusedSectionVars false

namespace D3
namespace Aabb

theorem overlap_iff (a b : Box ℝ) :
    overlap a b = true ↔ a.lo0 ≤ b.hi0 ∧ b.lo0 ≤ a.hi0 ∧ a.lo1 ≤ b.hi1 ∧ b.lo1 ≤ a.hi1 ∧
      a.lo2 ≤ b.hi2 ∧ b.lo2 ≤ a.hi2 := by
  simp [overlap, and_assoc]

/-- overlap is monotone in the first box -/
theorem overlap_mono_left {a a' q : Box ℝ} (h : Box.le a a') (ho : overlap a q = true) :
    overlap a' q = true := by
  rw [overlap_iff] at *
  obtain ⟨h1, h2, h3, h4, h5, h6⟩ := h
  obtain ⟨o1, o2, o3, o4, o5, o6⟩ := ho
  exact ⟨by linarith, by linarith, by linarith, by linarith, by linarith, by linarith⟩

/-- overlap is monotone in the second box -/
theorem overlap_mono_right {a q q' : Box ℝ} (h : Box.le q q') (ho : overlap a q = true) :
    overlap a q' = true := by
  rw [overlap_iff] at *
  obtain ⟨h1, h2, h3, h4, h5, h6⟩ := h
  obtain ⟨o1, o2, o3, o4, o5, o6⟩ := ho
  exact ⟨by linarith, by linarith, by linarith, by linarith, by linarith, by linarith⟩

theorem Box.le_refl (a : Box ℝ) : Box.le a a := by simp [Box.le]

theorem Box.le_trans {a b c : Box ℝ} (h1 : Box.le a b) (h2 : Box.le b c) : Box.le a c := by
  obtain ⟨a1, a2, a3, a4, a5, a6⟩ := h1
  obtain ⟨b1, b2, b3, b4, b5, b6⟩ := h2
  exact ⟨by linarith, by linarith, by linarith, by linarith, by linarith, by linarith⟩

theorem le_merge_left (a b : Box ℝ) : Box.le a (merge a b) := by
  simp [Box.le, merge]

theorem le_merge_right (a b : Box ℝ) : Box.le b (merge a b) := by
  simp [Box.le, merge]

theorem merge_le {a b c : Box ℝ} (h1 : Box.le a c) (h2 : Box.le b c) : Box.le (merge a b) c := by
  obtain ⟨a1, a2, a3, a4, a5, a6⟩ := h1
  obtain ⟨b1, b2, b3, b4, b5, b6⟩ := h2
  simp [Box.le, merge]
  exact ⟨⟨a1, b1⟩, ⟨a2, b2⟩, ⟨a3, b3⟩, ⟨a4, b4⟩, ⟨a5, b5⟩, ⟨a6, b6⟩⟩

theorem merge_comm (a b : Box ℝ) : merge a b = merge b a := by
  simp [merge, min_comm, max_comm]

theorem Tight.encl : ∀ (t : T ℝ), t.Tight → t.Encl
  | .leaf _ _, _ => trivial
  | .node _ b l r, ⟨hb, hl, hr⟩ =>
    ⟨hb ▸ le_merge_left _ _, hb ▸ le_merge_right _ _, Tight.encl l hl, Tight.encl r hr⟩

/-- every leaf box of an enclosing tree lies inside the root box -/
theorem leaf_le_box : ∀ (t : T ℝ), t.Encl → ∀ p ∈ t.leaves, Box.le p.2 t.box
  | .leaf i b, _, p, hp => by
    simp [T.leaves] at hp; subst hp; exact Box.le_refl _
  | .node i b l r, ⟨hl, hr, hel, her⟩, p, hp => by
    simp only [T.leaves, List.mem_append] at hp
    rcases hp with h | h
    · exact Box.le_trans (leaf_le_box r her p h) hr
    · exact Box.le_trans (leaf_le_box l hel p h) hl

/-- **exactness of the pruned traversal**: on an enclosing tree it returns precisely the
leaves whose box passes the closed-interval test, in traversal order, each once. -/
theorem collect_exact (q : Box ℝ) : ∀ (t : T ℝ), t.Encl →
    t.collect q = (t.leaves.filter fun p => overlap p.2 q).map (·.1)
  | .leaf i b, _ => by
    by_cases h : overlap b q = true <;> simp [T.collect, T.leaves, h]
  | .node i b l r, he => by
    obtain ⟨hl, hr, hel, her⟩ := he
    by_cases h : overlap b q = true
    · simp [T.collect, T.leaves, h, collect_exact q l hel, collect_exact q r her]
    · have hnone : ∀ p ∈ (T.node i b l r).leaves, ¬ overlap p.2 q = true := by
        intro p hp ho
        have he : (T.node i b l r).Encl := ⟨hl, hr, hel, her⟩
        exact h (overlap_mono_left (leaf_le_box _ he p hp) ho)
      have : ((T.node i b l r).leaves.filter fun p => overlap p.2 q) = [] := by
        rw [List.filter_eq_nil_iff]
        intro p hp
        exact hnone p hp
      simp [T.collect, h, this]

/-- symmetric variant used by the tree–tree traversal: pruning on the second tree -/
theorem collectTree_exact (t1 : T ℝ) (h1 : t1.Encl) : ∀ (t2 : T ℝ), t2.Encl →
    t1.collectTree t2 = t2.leaves.flatMap fun pj =>
      ((t1.leaves.filter fun p => overlap p.2 pj.2).map fun p => (p.1, pj.1))
  | .leaf j b, _ => by
    simp [T.collectTree, T.leaves, collect_exact b t1 h1]
  | .node j b l r, he => by
    obtain ⟨hl, hr, hel, her⟩ := he
    have he : (T.node j b l r).Encl := ⟨hl, hr, hel, her⟩
    cases hc : t1.collect b with
    | cons x xs =>
      simp [T.collectTree, T.leaves, hc, collectTree_exact t1 h1 l hel, collectTree_exact t1 h1 r her]
    | nil =>
      have hnil := hc
      rw [collect_exact b t1 h1] at hnil
      have hno : ∀ p ∈ t1.leaves, ¬ overlap p.2 b = true := by
        intro p hp ho
        have hm : p ∈ (t1.leaves.filter fun p => overlap p.2 b) := by
          simp [List.mem_filter, hp, ho]
        have : (t1.leaves.filter fun p => overlap p.2 b) = [] := by
          simpa using hnil
        rw [this] at hm
        cases hm
      have : ∀ pj ∈ (T.node j b l r).leaves,
          ((t1.leaves.filter fun p => overlap p.2 pj.2).map fun p => (p.1, pj.1)) = [] := by
        intro pj hpj
        simp only [List.map_eq_nil_iff, List.filter_eq_nil_iff]
        intro p hp ho
        exact hno p hp (overlap_mono_right (leaf_le_box _ he pj hpj) ho)
      simp only [T.collectTree, hc, List.take_nil, List.length_nil]
      symm
      have h10 : ¬ (1 ≤ 0) := by omega
      rw [if_neg h10, List.flatMap_eq_nil_iff]
      exact this

/-! ### soundness of the run-time well-formedness check -/

theorem tightB_sound : ∀ (t : T ℝ), t.tightB = true → t.Tight
  | .leaf _ _, _ => trivial
  | .node _ b l r, h => by
    simp [T.tightB] at h
    exact ⟨h.1.1, tightB_sound l h.1.2, tightB_sound r h.2⟩

theorem nodupB_sound : ∀ (l : List Int), nodupB l = true → l.Nodup
  | [], _ => List.nodup_nil
  | x :: xs, h => by
    simp [nodupB] at h
    exact List.nodup_cons.mpr ⟨h.1, nodupB_sound xs h.2⟩

theorem parentsOk_allBranch (nodes : Array Node) : ∀ (p : Int) (t : T ℝ),
    parentsOk nodes p t = true → AllBranch nodes t
  | _, .leaf _ _, _ => trivial
  | p, .node i b l r, h => by
    unfold parentsOk at h
    split at h
    · rename_i nd hnd
      simp at h
      exact ⟨⟨nd, hnd, h.1.1.2⟩, parentsOk_allBranch nodes i l h.1.2, parentsOk_allBranch nodes i r h.2⟩
    · cases h

/-- what a successful `wfCheck` on a non-empty state establishes -/
theorem wfCheck_sound (c : Core ℝ) (t : T ℝ) (h : wfCheck c = some (some t)) :
    Rep c.nodes c.aabbs t ∧ t.idx = c.root ∧ t.Tight ∧ AllBranch c.nodes t ∧
      t.indices.Nodup ∧ t.size = c.nodes.size := by
  unfold wfCheck at h
  split at h
  · split at h <;> cases h
  · split at h
    · cases h
    · rename_i t' habs
      split at h
      · rename_i hc
        cases h
        simp only [Bool.and_eq_true, decide_eq_true_eq] at hc
        obtain ⟨⟨⟨⟨⟨h1, h2⟩, h3⟩, h4⟩, h5⟩, h6⟩ := hc
        obtain ⟨hrep, hidx⟩ := absTree_sound _ _ _ _ _ habs
        exact ⟨hrep, hidx, tightB_sound _ h1, parentsOk_allBranch _ _ _ h2, nodupB_sound _ h3,
          by omega⟩
      · cases h

/-! ### insertion on the tree layer -/

def Box.Valid (b : Box ℝ) : Prop := b.lo0 ≤ b.hi0 ∧ b.lo1 ≤ b.hi1 ∧ b.lo2 ≤ b.hi2

theorem merge_valid {a b : Box ℝ} (ha : a.Valid) (_hb : b.Valid) : (merge a b).Valid := by
  obtain ⟨a1, a2, a3⟩ := ha
  simp only [Box.Valid, merge]
  refine ⟨?_, ?_, ?_⟩
  · exact le_trans (min_le_left _ _) (le_trans a1 (le_max_left _ _))
  · exact le_trans (min_le_left _ _) (le_trans a2 (le_max_left _ _))
  · exact le_trans (min_le_left _ _) (le_trans a3 (le_max_left _ _))

/-- volume is monotone on valid boxes -/
theorem volume_mono {a b : Box ℝ} (ha : a.Valid) (h : Box.le a b) : volume a ≤ volume b := by
  obtain ⟨a1, a2, a3⟩ := ha
  obtain ⟨h1, h2, h3, h4, h5, h6⟩ := h
  unfold volume
  have e0 : 0 ≤ a.hi0 - a.lo0 := by linarith
  have e1 : 0 ≤ a.hi1 - a.lo1 := by linarith
  have e2 : 0 ≤ a.hi2 - a.lo2 := by linarith
  have d0 : a.hi0 - a.lo0 ≤ b.hi0 - b.lo0 := by linarith
  have d1 : a.hi1 - a.lo1 ≤ b.hi1 - b.lo1 := by linarith
  have d2 : a.hi2 - a.lo2 ≤ b.hi2 - b.lo2 := by linarith
  have := mul_le_mul d0 d1 e1 (by linarith)
  exact mul_le_mul this d2 e2 (by nlinarith)

def T.AllValid : T ℝ → Prop
  | .leaf _ b => b.Valid
  | .node _ b l r => b.Valid ∧ l.AllValid ∧ r.AllValid

theorem T.box_valid : ∀ (t : T ℝ), t.AllValid → t.box.Valid
  | .leaf _ _, h => h
  | .node _ _ _ _, h => h.1

theorem insert_spec (li : Int) (lb : Box ℝ) (hlb : lb.Valid) (p : Int) :
    ∀ (t : T ℝ), t.Tight → t.AllValid →
      ∃ t', t.insert li lb p = some t' ∧ t'.Tight ∧ t'.AllValid ∧
        t'.leaves.Perm ((li, lb) :: t.leaves) ∧
        t'.indices.Perm (p :: li :: t.indices) ∧ t'.idx = (match t with | .leaf _ _ => p | .node i _ _ _ => i) ∧
        t'.size = t.size + 2
  | .leaf i b, _, hv => by
    refine ⟨_, rfl, ⟨rfl, trivial, trivial⟩, ⟨merge_valid hv hlb, hv, hlb⟩, ?_, ?_, rfl, rfl⟩
    · simp [T.leaves]
    · simp only [T.indices, List.singleton_append]
      exact List.Perm.cons p (List.Perm.swap li i [])
  | .node i b l r, ⟨hb, htl, htr⟩, ⟨hvb, hvl, hvr⟩ => by
    have hlbox := T.box_valid l hvl
    have hrbox := T.box_valid r hvr
    have hL : volume (merge lb l.box) ≤ volume (merge lb b) := by
      apply volume_mono (merge_valid hlb hlbox)
      exact merge_le (le_merge_left _ _) (Box.le_trans (hb ▸ le_merge_left _ _) (le_merge_right _ _))
    have hnot : ¬ (volume (merge lb b) < volume (merge lb l.box) ∧
        volume (merge lb b) < volume (merge lb r.box)) := by
      intro h; linarith [h.1]
    simp only [T.insert, hnot, if_false]
    by_cases hc : volume (merge lb l.box) < volume (merge lb r.box)
    · obtain ⟨l', hl', htl', hvl', hpl, hpi, hidx, hsz⟩ := insert_spec li lb hlb p l htl hvl
      simp only [hc, if_true, hl']
      refine ⟨_, rfl, ⟨rfl, htl', htr⟩, ⟨merge_valid (T.box_valid l' hvl') hrbox, hvl', hvr⟩, ?_, ?_, rfl, ?_⟩
      · simp only [T.leaves]
        exact (List.Perm.append_left _ hpl).trans (by
          simpa using (List.perm_middle (l₁ := r.leaves) (a := (li, lb)) (l₂ := l.leaves)))
      · simp only [T.indices]
        have h1 : (l'.indices ++ r.indices).Perm ((p :: li :: l.indices) ++ r.indices) :=
          List.Perm.append_right _ hpi
        refine (List.Perm.cons i h1).trans ?_
        simp only [List.cons_append]
        exact (List.Perm.swap p i _).trans (List.Perm.cons p (List.Perm.swap li i _))
      · simp [T.size, hsz]; omega
    · obtain ⟨r', hr', htr', hvr', hpl, hpi, hidx, hsz⟩ := insert_spec li lb hlb p r htr hvr
      simp only [hc, if_false, hr']
      refine ⟨_, rfl, ⟨rfl, htl, htr'⟩, ⟨merge_valid hlbox (T.box_valid r' hvr'), hvl, hvr'⟩, ?_, ?_, rfl, ?_⟩
      · simp only [T.leaves]
        simpa using List.Perm.append_right l.leaves hpl
      · simp only [T.indices]
        have h1 : (l.indices ++ r'.indices).Perm (l.indices ++ (p :: li :: r.indices)) :=
          List.Perm.append_left _ hpi
        refine (List.Perm.cons i h1).trans ?_
        have h2 : (l.indices ++ p :: li :: r.indices).Perm (p :: li :: (l.indices ++ r.indices)) := by
          have := List.perm_middle (l₁ := l.indices) (a := p) (l₂ := li :: r.indices)
          refine this.trans (List.Perm.cons p ?_)
          exact List.perm_middle
        refine (List.Perm.cons i h2).trans ?_
        exact (List.Perm.swap p i _).trans (List.Perm.cons p (List.Perm.swap li i _))
      · simp [T.size, hsz]; omega

end Aabb
end D3
