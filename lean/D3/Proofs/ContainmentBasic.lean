/-
C04 — vocabulary (point sets of the colliders, `Encloses`, `TightOn`) and the proofs for
the shapes that need no analysis: point lists, vertex hull, mesh, sphere, box, margin;
the broad-phase corollary.
-/
import D3.Spec.Vec
import D3.Model.Containment
import Mathlib.Tactic.NormNum
import Mathlib.Tactic.Linarith
import Mathlib.Tactic.Ring

set_option linter.unusedSectionVars false
set_option linter.unusedVariables false

namespace D3
namespace Containment
open Aabb (Box)

/-! ### what an AABB has to satisfy -/

/-- every point of `K` lies within the per-axis bounds -/
def Encloses (b : Box ℝ) (K : V → Prop) : Prop :=
  ∀ p, K p → b.lo0 ≤ p.x ∧ p.x ≤ b.hi0 ∧ b.lo1 ≤ p.y ∧ p.y ≤ b.hi1 ∧ b.lo2 ≤ p.z ∧ p.z ≤ b.hi2

/-- each of the six bounds is attained by a point of `K` -/
def TightOn (b : Box ℝ) (K : V → Prop) : Prop :=
  (∃ p, K p ∧ p.x = b.lo0) ∧ (∃ p, K p ∧ p.x = b.hi0) ∧
  (∃ p, K p ∧ p.y = b.lo1) ∧ (∃ p, K p ∧ p.y = b.hi1) ∧
  (∃ p, K p ∧ p.z = b.lo2) ∧ (∃ p, K p ∧ p.z = b.hi2)

/-- `[lo, hi]` is exactly the range of the functional `f` on `K` (closed, attained) -/
def AxisBounds (lo hi : ℝ) (f : V → ℝ) (K : V → Prop) : Prop :=
  (∀ p, K p → lo ≤ f p ∧ f p ≤ hi) ∧ (∃ p, K p ∧ f p = lo) ∧ (∃ p, K p ∧ f p = hi)

/-- enclosure and tightness together -/
def AabbSpec (b : Box ℝ) (K : V → Prop) : Prop := Encloses b K ∧ TightOn b K

theorem aabbSpec_of_axes {b : Box ℝ} {K : V → Prop}
    (hx : AxisBounds b.lo0 b.hi0 (·.x) K) (hy : AxisBounds b.lo1 b.hi1 (·.y) K)
    (hz : AxisBounds b.lo2 b.hi2 (·.z) K) : AabbSpec b K :=
  ⟨fun p hp => ⟨(hx.1 p hp).1, (hx.1 p hp).2, (hy.1 p hp).1, (hy.1 p hp).2,
      (hz.1 p hp).1, (hz.1 p hp).2⟩,
    hx.2.1, hx.2.2, hy.2.1, hy.2.2, hz.2.1, hz.2.2⟩

theorem axes_of_aabbSpec {b : Box ℝ} {K : V → Prop} (h : AabbSpec b K) :
    AxisBounds b.lo0 b.hi0 (·.x) K ∧ AxisBounds b.lo1 b.hi1 (·.y) K ∧
    AxisBounds b.lo2 b.hi2 (·.z) K := by
  obtain ⟨he, t1, t2, t3, t4, t5, t6⟩ := h
  exact ⟨⟨fun p hp => ⟨(he p hp).1, (he p hp).2.1⟩, t1, t2⟩,
    ⟨fun p hp => ⟨(he p hp).2.2.1, (he p hp).2.2.2.1⟩, t3, t4⟩,
    ⟨fun p hp => ⟨(he p hp).2.2.2.2.1, (he p hp).2.2.2.2.2⟩, t5, t6⟩⟩

/-- the spec only depends on the set of points -/
theorem AxisBounds.congr {lo hi : ℝ} {f : V → ℝ} {K K' : V → Prop} (h : ∀ p, K p ↔ K' p)
    (hb : AxisBounds lo hi f K) : AxisBounds lo hi f K' := by
  obtain ⟨h1, ⟨p, hp, e1⟩, ⟨q, hq, e2⟩⟩ := hb
  exact ⟨fun x hx => h1 x ((h x).2 hx), ⟨p, (h p).1 hp, e1⟩, ⟨q, (h q).1 hq, e2⟩⟩

@[simp] theorem mkBox_lo0 (a b : V) : (mkBox a b).lo0 = a.x := rfl
@[simp] theorem mkBox_hi0 (a b : V) : (mkBox a b).hi0 = b.x := rfl
@[simp] theorem mkBox_lo1 (a b : V) : (mkBox a b).lo1 = a.y := rfl
@[simp] theorem mkBox_hi1 (a b : V) : (mkBox a b).hi1 = b.y := rfl
@[simp] theorem mkBox_lo2 (a b : V) : (mkBox a b).lo2 = a.z := rfl
@[simp] theorem mkBox_hi2 (a b : V) : (mkBox a b).hi2 = b.z := rfl

/-! ### the point sets -/

/-- solid ball -/
def ballSet (c : V) (r : ℝ) : V → Prop := fun p => V3.normSq (p - c) ≤ r * r

/-- convex hull of a vertex list: the smallest set containing the vertices and closed
under segments -/
inductive hullSet (vs : List V) : V → Prop
  | vertex {v : V} : v ∈ vs → hullSet vs v
  | seg {a b : V} {s : ℝ} : hullSet vs a → hullSet vs b → 0 ≤ s → s ≤ 1 →
      hullSet vs ((1 - s) * a + s * b)

/-- solid box with edge lengths `size`, centred at the origin of its frame -/
def boxLocal (size : V) : V → Prop := fun q =>
  -(size.x / 2) ≤ q.x ∧ q.x ≤ size.x / 2 ∧ -(size.y / 2) ≤ q.y ∧ q.y ≤ size.y / 2 ∧
  -(size.z / 2) ≤ q.z ∧ q.z ≤ size.z / 2

/-- solid cylinder along the local z axis, centred at the origin of its frame -/
def cylinderLocal (r l : ℝ) : V → Prop := fun q =>
  q.x * q.x + q.y * q.y ≤ r * r ∧ -(l / 2) ≤ q.z ∧ q.z ≤ l / 2

/-- capsule: all points within `r` of the segment `[-h/2, h/2]` on the local z axis -/
def capsuleLocal (r h : ℝ) : V → Prop := fun q =>
  ∃ s, -(h / 2) ≤ s ∧ s ≤ h / 2 ∧ q.x * q.x + q.y * q.y + (q.z - s) * (q.z - s) ≤ r * r

/-- flat disk with centre `c`, unit normal `n` -/
def diskSet (c : V) (r : ℝ) (n : V) : V → Prop := fun p =>
  V3.dot (p - c) n = 0 ∧ V3.normSq (p - c) ≤ r * r

/-- solid cone: base disk of radius `r` in the local plane `z = 0`, apex at `(0,0,h)`;
every point is `(1-s)·(base point) + s·apex` -/
def coneLocal (r h : ℝ) : V → Prop := fun q =>
  ∃ s x y, 0 ≤ s ∧ s ≤ 1 ∧ x * x + y * y ≤ r * r ∧ q = ⟨(1 - s) * x, (1 - s) * y, s * h⟩

/-- flat ellipse with centre `c`, axes `a0`, `a1` and radii `r0`, `r1` -/
def ellipseSet (c a0 a1 : V) (r0 r1 : ℝ) : V → Prop := fun p =>
  ∃ u v, u * u + v * v ≤ 1 ∧ p = c + (u * r0) * a0 + (v * r1) * a1

/-- solid ellipsoid: image of the unit ball under `diag(radii)` -/
def ellipsoidLocal (radii : V) : V → Prop := fun q =>
  ∃ u : V, V3.normSq u ≤ 1 ∧ q = ⟨radii.x * u.x, radii.y * u.y, radii.z * u.z⟩

/-- all points within distance `m` of `K` -/
def marginSet (K : V → Prop) (m : ℝ) : V → Prop := fun p =>
  ∃ q, K q ∧ V3.normSq (p - q) ≤ m * m

/-! ### small real lemmas -/

theorem le_of_mul_self_le {u w : ℝ} (hw : 0 ≤ w) (h : u * u ≤ w * w) : u ≤ w := by
  by_contra hc
  have hc := not_le.mp hc
  nlinarith [mul_pos (sub_pos.2 hc) (by linarith : 0 < u + w)]

theorem abs_le_of_mul_self_le {u w : ℝ} (hw : 0 ≤ w) (h : u * u ≤ w * w) : -w ≤ u ∧ u ≤ w := by
  refine ⟨?_, le_of_mul_self_le hw h⟩
  have : -u ≤ w := le_of_mul_self_le hw (by nlinarith)
  linarith

/-! ### `axis_aligned_bounding_box` : fold of `min` / `max` -/

theorem foldl_vmax_ge (ps : List V) : ∀ (p : V),
    (p.x ≤ (ps.foldl vmax p).x ∧ p.y ≤ (ps.foldl vmax p).y ∧ p.z ≤ (ps.foldl vmax p).z) ∧
    ∀ q ∈ ps, q.x ≤ (ps.foldl vmax p).x ∧ q.y ≤ (ps.foldl vmax p).y ∧ q.z ≤ (ps.foldl vmax p).z := by
  induction ps with
  | nil => intro p; simp
  | cons a ps ih =>
    intro p
    obtain ⟨⟨h1, h2, h3⟩, h4⟩ := ih (vmax p a)
    simp only [List.foldl_cons]
    have e1 : (vmax p a).x = max p.x a.x := rfl
    have e2 : (vmax p a).y = max p.y a.y := rfl
    have e3 : (vmax p a).z = max p.z a.z := rfl
    rw [e1] at h1; rw [e2] at h2; rw [e3] at h3
    refine ⟨⟨le_trans (le_max_left _ _) h1, le_trans (le_max_left _ _) h2,
      le_trans (le_max_left _ _) h3⟩, ?_⟩
    intro q hq
    rcases List.mem_cons.1 hq with rfl | hq
    · exact ⟨le_trans (le_max_right _ _) h1, le_trans (le_max_right _ _) h2,
        le_trans (le_max_right _ _) h3⟩
    · exact h4 q hq

theorem foldl_vmin_le (ps : List V) : ∀ (p : V),
    ((ps.foldl vmin p).x ≤ p.x ∧ (ps.foldl vmin p).y ≤ p.y ∧ (ps.foldl vmin p).z ≤ p.z) ∧
    ∀ q ∈ ps, (ps.foldl vmin p).x ≤ q.x ∧ (ps.foldl vmin p).y ≤ q.y ∧ (ps.foldl vmin p).z ≤ q.z := by
  induction ps with
  | nil => intro p; simp
  | cons a ps ih =>
    intro p
    obtain ⟨⟨h1, h2, h3⟩, h4⟩ := ih (vmin p a)
    simp only [List.foldl_cons]
    have e1 : (vmin p a).x = min p.x a.x := rfl
    have e2 : (vmin p a).y = min p.y a.y := rfl
    have e3 : (vmin p a).z = min p.z a.z := rfl
    rw [e1] at h1; rw [e2] at h2; rw [e3] at h3
    refine ⟨⟨le_trans h1 (min_le_left _ _), le_trans h2 (min_le_left _ _),
      le_trans h3 (min_le_left _ _)⟩, ?_⟩
    intro q hq
    rcases List.mem_cons.1 hq with rfl | hq
    · exact ⟨le_trans h1 (min_le_right _ _), le_trans h2 (min_le_right _ _),
        le_trans h3 (min_le_right _ _)⟩
    · exact h4 q hq

theorem foldl_vmax_attained (ps : List V) : ∀ (p : V),
    (∃ q ∈ p :: ps, (ps.foldl vmax p).x = q.x) ∧ (∃ q ∈ p :: ps, (ps.foldl vmax p).y = q.y) ∧
    (∃ q ∈ p :: ps, (ps.foldl vmax p).z = q.z) := by
  induction ps with
  | nil => intro p; simp
  | cons a ps ih =>
    intro p
    obtain ⟨⟨q1, m1, e1⟩, ⟨q2, m2, e2⟩, ⟨q3, m3, e3⟩⟩ := ih (vmax p a)
    simp only [List.foldl_cons]
    have key : ∀ (q : V) (f : V → ℝ), q ∈ vmax p a :: ps → f (vmax p a) = max (f p) (f a) →
        ∃ q' ∈ p :: a :: ps, f q = f q' := by
      intro q f hq hf
      rcases List.mem_cons.1 hq with rfl | hq
      · rcases max_choice (f p) (f a) with h | h
        · exact ⟨p, by simp, by rw [hf, h]⟩
        · exact ⟨a, by simp, by rw [hf, h]⟩
      · exact ⟨q, by simp [hq], rfl⟩
    refine ⟨?_, ?_, ?_⟩
    · obtain ⟨q', hq', e⟩ := key q1 (·.x) m1 rfl
      exact ⟨q', hq', e1.trans e⟩
    · obtain ⟨q', hq', e⟩ := key q2 (·.y) m2 rfl
      exact ⟨q', hq', e2.trans e⟩
    · obtain ⟨q', hq', e⟩ := key q3 (·.z) m3 rfl
      exact ⟨q', hq', e3.trans e⟩

theorem foldl_vmin_attained (ps : List V) : ∀ (p : V),
    (∃ q ∈ p :: ps, (ps.foldl vmin p).x = q.x) ∧ (∃ q ∈ p :: ps, (ps.foldl vmin p).y = q.y) ∧
    (∃ q ∈ p :: ps, (ps.foldl vmin p).z = q.z) := by
  induction ps with
  | nil => intro p; simp
  | cons a ps ih =>
    intro p
    obtain ⟨⟨q1, m1, e1⟩, ⟨q2, m2, e2⟩, ⟨q3, m3, e3⟩⟩ := ih (vmin p a)
    simp only [List.foldl_cons]
    have key : ∀ (q : V) (f : V → ℝ), q ∈ vmin p a :: ps → f (vmin p a) = min (f p) (f a) →
        ∃ q' ∈ p :: a :: ps, f q = f q' := by
      intro q f hq hf
      rcases List.mem_cons.1 hq with rfl | hq
      · rcases min_choice (f p) (f a) with h | h
        · exact ⟨p, by simp, by rw [hf, h]⟩
        · exact ⟨a, by simp, by rw [hf, h]⟩
      · exact ⟨q, by simp [hq], rfl⟩
    refine ⟨?_, ?_, ?_⟩
    · obtain ⟨q', hq', e⟩ := key q1 (·.x) m1 rfl
      exact ⟨q', hq', e1.trans e⟩
    · obtain ⟨q', hq', e⟩ := key q2 (·.y) m2 rfl
      exact ⟨q', hq', e2.trans e⟩
    · obtain ⟨q', hq', e⟩ := key q3 (·.z) m3 rfl
      exact ⟨q', hq', e3.trans e⟩

/-- `axis_aligned_bounding_box` of a non-empty list is the exact per-axis range of the list -/
theorem aabbOfPoints_spec (vs : List V) (hne : vs ≠ []) :
    ∃ b, aabbOfPoints vs = .ok b ∧ AabbSpec b (· ∈ vs) := by
  cases vs with
  | nil => exact absurd rfl hne
  | cons p ps =>
    refine ⟨_, rfl, ?_⟩
    obtain ⟨⟨a1, a2, a3⟩, a4⟩ := foldl_vmax_ge ps p
    obtain ⟨⟨b1, b2, b3⟩, b4⟩ := foldl_vmin_le ps p
    obtain ⟨⟨q1, m1, e1⟩, ⟨q2, m2, e2⟩, ⟨q3, m3, e3⟩⟩ := foldl_vmax_attained ps p
    obtain ⟨⟨r1, n1, f1⟩, ⟨r2, n2, f2⟩, ⟨r3, n3, f3⟩⟩ := foldl_vmin_attained ps p
    refine ⟨?_, ⟨r1, n1, f1.symm⟩, ⟨q1, m1, e1.symm⟩, ⟨r2, n2, f2.symm⟩, ⟨q2, m2, e2.symm⟩,
      ⟨r3, n3, f3.symm⟩, ⟨q3, m3, e3.symm⟩⟩
    intro q hq
    simp only [mkBox_lo0, mkBox_hi0, mkBox_lo1, mkBox_hi1, mkBox_lo2, mkBox_hi2]
    rcases List.mem_cons.1 hq with rfl | hq
    · exact ⟨b1, a1, b2, a2, b3, a3⟩
    · obtain ⟨c1, c2, c3⟩ := a4 q hq
      obtain ⟨d1, d2, d3⟩ := b4 q hq
      exact ⟨d1, c1, d2, c2, d3, c3⟩

theorem aabbOfPoints_nil : aabbOfPoints ([] : List V) = .error .badInput := rfl

/-! ### vertex hull -/

/-- a box enclosing the vertices encloses their convex hull; tightness carries over because
the vertices belong to the hull -/
theorem hull_spec_of_points {b : Box ℝ} {vs : List V} (h : AabbSpec b (· ∈ vs)) :
    AabbSpec b (hullSet vs) := by
  obtain ⟨he, ⟨p1, m1, e1⟩, ⟨p2, m2, e2⟩, ⟨p3, m3, e3⟩, ⟨p4, m4, e4⟩, ⟨p5, m5, e5⟩,
    ⟨p6, m6, e6⟩⟩ := h
  refine ⟨?_, ⟨p1, .vertex m1, e1⟩, ⟨p2, .vertex m2, e2⟩, ⟨p3, .vertex m3, e3⟩,
    ⟨p4, .vertex m4, e4⟩, ⟨p5, .vertex m5, e5⟩, ⟨p6, .vertex m6, e6⟩⟩
  intro p hp
  induction hp with
  | vertex hv => exact he _ hv
  | seg _ _ hs0 hs1 iha ihb =>
    rename_i a c s _ _
    obtain ⟨a1, a2, a3, a4, a5, a6⟩ := iha
    obtain ⟨b1, b2, b3, b4, b5, b6⟩ := ihb
    have h1s : 0 ≤ 1 - s := by linarith
    simp only [V3.add_x, V3.add_y, V3.add_z, V3.smul_x, V3.smul_y, V3.smul_z]
    refine ⟨?_, ?_, ?_, ?_, ?_, ?_⟩ <;>
      nlinarith [mul_le_mul_of_nonneg_left a1 h1s, mul_le_mul_of_nonneg_left a2 h1s,
        mul_le_mul_of_nonneg_left a3 h1s, mul_le_mul_of_nonneg_left a4 h1s,
        mul_le_mul_of_nonneg_left a5 h1s, mul_le_mul_of_nonneg_left a6 h1s,
        mul_le_mul_of_nonneg_left b1 hs0, mul_le_mul_of_nonneg_left b2 hs0,
        mul_le_mul_of_nonneg_left b3 hs0, mul_le_mul_of_nonneg_left b4 hs0,
        mul_le_mul_of_nonneg_left b5 hs0, mul_le_mul_of_nonneg_left b6 hs0]

/-- **vertex hull** (`ConvexHullVertices.aabb`, `axis_aligned_bounding_box`) -/
theorem hullAabb_spec (vs : List V) (hne : vs ≠ []) :
    ∃ b, aabbOfPoints vs = .ok b ∧ AabbSpec b (hullSet vs) := by
  obtain ⟨b, hb, hs⟩ := aabbOfPoints_spec vs hne
  exact ⟨b, hb, hull_spec_of_points hs⟩

/-! ### mesh: hull of the posed vertices -/

theorem meshVertex_eq (A : Pose ℝ) (v : V) : meshVertex A v = A.apply v := by
  apply V3.ext' <;>
    simp only [meshVertex, Pose.apply, M3.mulVec, V3.add_x, V3.add_y, V3.add_z, V3.dot_def] <;> ring

theorem apply_seg (A : Pose ℝ) (a b : V) (s : ℝ) :
    A.apply ((1 - s) * a + s * b) = (1 - s) * A.apply a + s * A.apply b := by
  apply V3.ext' <;>
    simp only [Pose.apply, M3.mulVec, V3.add_x, V3.add_y, V3.add_z, V3.smul_x, V3.smul_y,
      V3.smul_z, V3.dot_def] <;> ring

/-- the image of a hull is inside the hull of the images -/
theorem poseImage_hull_subset (A : Pose ℝ) (vs : List V) (p : V)
    (h : poseImage A (hullSet vs) p) : hullSet (vs.map A.apply) p := by
  obtain ⟨q, hq, rfl⟩ := h
  induction hq with
  | vertex hv => exact .vertex (List.mem_map_of_mem hv)
  | seg _ _ hs0 hs1 iha ihb => rw [apply_seg]; exact .seg iha ihb hs0 hs1

/-- **mesh** (`MeshGraph.aabb`) : for every pose (orthonormal or not) -/
theorem meshAabb_spec (A : Pose ℝ) (vs : List V) (hne : vs ≠ []) :
    ∃ b, meshAabb A vs = .ok b ∧ AabbSpec b (poseImage A (hullSet vs)) := by
  have hmap : vs.map (meshVertex A) = vs.map A.apply :=
    List.map_congr_left fun v _ => meshVertex_eq A v
  obtain ⟨b, hb, hs⟩ := hullAabb_spec (vs.map A.apply) (by simpa using hne)
  refine ⟨b, by rw [meshAabb, hmap]; exact hb, ?_⟩
  obtain ⟨he, ht⟩ := hs
  refine ⟨fun p hp => he p (poseImage_hull_subset A vs p hp), ?_⟩
  -- tightness: the attaining points can be taken among the posed vertices
  obtain ⟨b', hb', hs'⟩ := aabbOfPoints_spec (vs.map A.apply) (by simpa using hne)
  have : b' = b := by rw [hb'] at hb; exact Except.ok.inj hb
  subst this
  obtain ⟨_, ⟨p1, m1, e1⟩, ⟨p2, m2, e2⟩, ⟨p3, m3, e3⟩, ⟨p4, m4, e4⟩, ⟨p5, m5, e5⟩,
    ⟨p6, m6, e6⟩⟩ := hs'
  have lift : ∀ p, p ∈ vs.map A.apply → poseImage A (hullSet vs) p := by
    intro p hp
    obtain ⟨v, hv, rfl⟩ := List.mem_map.1 hp
    exact ⟨v, .vertex hv, rfl⟩
  exact ⟨⟨p1, lift _ m1, e1⟩, ⟨p2, lift _ m2, e2⟩, ⟨p3, lift _ m3, e3⟩, ⟨p4, lift _ m4, e4⟩,
    ⟨p5, lift _ m5, e5⟩, ⟨p6, lift _ m6, e6⟩⟩

/-! ### sphere -/

theorem coord_sq_le_normSq (d : V) :
    d.x * d.x ≤ V3.normSq d ∧ d.y * d.y ≤ V3.normSq d ∧ d.z * d.z ≤ V3.normSq d := by
  rw [V3.normSq_def]
  exact ⟨by nlinarith [mul_self_nonneg d.y, mul_self_nonneg d.z],
    by nlinarith [mul_self_nonneg d.x, mul_self_nonneg d.z],
    by nlinarith [mul_self_nonneg d.x, mul_self_nonneg d.y]⟩

/-- **sphere** (`sphere_aabb`, `Sphere.aabb`) -/
theorem sphereAabb_spec (c : V) (r : ℝ) (hr : 0 ≤ r) : AabbSpec (sphereAabb c r) (ballSet c r) := by
  refine ⟨?_, ?_⟩
  · intro p hp
    unfold ballSet at hp
    obtain ⟨h1, h2, h3⟩ := coord_sq_le_normSq (p - c)
    obtain ⟨a1, a2⟩ := abs_le_of_mul_self_le hr (le_trans h1 hp)
    obtain ⟨b1, b2⟩ := abs_le_of_mul_self_le hr (le_trans h2 hp)
    obtain ⟨c1, c2⟩ := abs_le_of_mul_self_le hr (le_trans h3 hp)
    simp only [V3.sub_x, V3.sub_y, V3.sub_z] at a1 a2 b1 b2 c1 c2
    simp only [sphereAabb, subS, addS, mkBox_lo0, mkBox_hi0, mkBox_lo1, mkBox_hi1, mkBox_lo2,
      mkBox_hi2]
    exact ⟨by linarith, by linarith, by linarith, by linarith, by linarith, by linarith⟩
  · simp only [TightOn, sphereAabb, subS, addS, mkBox_lo0, mkBox_hi0, mkBox_lo1, mkBox_hi1,
      mkBox_lo2, mkBox_hi2, ballSet]
    refine ⟨⟨⟨c.x - r, c.y, c.z⟩, ?_, rfl⟩, ⟨⟨c.x + r, c.y, c.z⟩, ?_, rfl⟩,
      ⟨⟨c.x, c.y - r, c.z⟩, ?_, rfl⟩, ⟨⟨c.x, c.y + r, c.z⟩, ?_, rfl⟩,
      ⟨⟨c.x, c.y, c.z - r⟩, ?_, rfl⟩, ⟨⟨c.x, c.y, c.z + r⟩, ?_, rfl⟩⟩ <;>
    · simp only [V3.normSq_def, V3.sub_x, V3.sub_y, V3.sub_z]; nlinarith

/-! ### transport of per-axis bounds through a pose -/

/-- coordinates of a posed point are the row functionals of the local point -/
theorem apply_x (A : Pose ℝ) (q : V) : (A.apply q).x = V3.dot A.R.r0 q + A.t.x := rfl
theorem apply_y (A : Pose ℝ) (q : V) : (A.apply q).y = V3.dot A.R.r1 q + A.t.y := rfl
theorem apply_z (A : Pose ℝ) (q : V) : (A.apply q).z = V3.dot A.R.r2 q + A.t.z := rfl

theorem axisBounds_poseImage {A : Pose ℝ} {K : V → Prop} {lo hi : ℝ} {f : V → ℝ}
    (h : AxisBounds lo hi (fun q => f (A.apply q)) K) : AxisBounds lo hi f (poseImage A K) := by
  obtain ⟨h1, ⟨p, hp, e1⟩, ⟨q, hq, e2⟩⟩ := h
  refine ⟨?_, ⟨A.apply p, ⟨p, hp, rfl⟩, e1⟩, ⟨A.apply q, ⟨q, hq, rfl⟩, e2⟩⟩
  rintro x ⟨y, hy, rfl⟩
  exact h1 y hy

/-- a set symmetric about the origin on which the linear functional `ρ` is bounded by `e`
and attains `e` has the range `[τ - e, τ + e]` under `q ↦ ⟨ρ, q⟩ + τ` -/
theorem axisBounds_symmetric {K : V → Prop} {ρ : V} {τ e : ℝ} (hsym : ∀ q, K q → K (-q))
    (hle : ∀ q, K q → V3.dot ρ q ≤ e) (hat : ∃ q, K q ∧ V3.dot ρ q = e) :
    AxisBounds (τ - e) (τ + e) (fun q => V3.dot ρ q + τ) K := by
  have hneg : ∀ q : V, V3.dot ρ (-q) = -V3.dot ρ q := by
    intro q; simp only [V3.dot_def, V3.neg_x, V3.neg_y, V3.neg_z]; ring
  obtain ⟨q, hq, he⟩ := hat
  refine ⟨?_, ⟨-q, hsym q hq, ?_⟩, ⟨q, hq, ?_⟩⟩
  · intro p hp
    have h1 := hle p hp
    have h2 := hle (-p) (hsym p hp)
    rw [hneg] at h2
    constructor <;> linarith
  · show V3.dot ρ (-q) + τ = τ - e
    rw [hneg, he]; ring
  · show V3.dot ρ q + τ = τ + e
    rw [he]; ring

/-! ### box -/

theorem boxCoords_real : (boxCoords : List V) =
    [⟨-(1/2), -(1/2), -(1/2)⟩, ⟨-(1/2), -(1/2), 1/2⟩, ⟨-(1/2), 1/2, -(1/2)⟩, ⟨-(1/2), 1/2, 1/2⟩,
     ⟨1/2, -(1/2), -(1/2)⟩, ⟨1/2, -(1/2), 1/2⟩, ⟨1/2, 1/2, -(1/2)⟩, ⟨1/2, 1/2, 1/2⟩] := by
  have h : ((0.5 : ℝ)) = 1 / 2 := by norm_num
  simp only [boxCoords, h]

/-- the local corner belonging to a sign choice -/
def corner (size c : V) : V := ⟨c.x * size.x, c.y * size.y, c.z * size.z⟩

theorem boxVertex_eq (A : Pose ℝ) (size c : V) : boxVertex A size c = A.apply (corner size c) := by
  apply V3.ext' <;>
    simp only [boxVertex, corner, Pose.apply, M3.mulVec, V3.add_x, V3.add_y, V3.add_z,
      V3.dot_def] <;> ring

theorem corner_mem_box (size c : V) (hx : 0 ≤ size.x) (hy : 0 ≤ size.y) (hz : 0 ≤ size.z)
    (hc : c ∈ (boxCoords : List V)) : boxLocal size (corner size c) := by
  rw [boxCoords_real] at hc
  simp only [List.mem_cons, List.not_mem_nil, or_false] at hc
  rcases hc with rfl | rfl | rfl | rfl | rfl | rfl | rfl | rfl <;>
    simp only [boxLocal, corner] <;>
    exact ⟨by linarith, by linarith, by linarith, by linarith, by linarith, by linarith⟩

/-- for every linear functional some corner is at least as high as a given box point -/
theorem corner_dominates (size q ρ : V) (hq : boxLocal size q) :
    ∃ c ∈ (boxCoords : List V), V3.dot ρ q ≤ V3.dot ρ (corner size c) := by
  obtain ⟨h1, h2, h3, h4, h5, h6⟩ := hq
  rw [boxCoords_real]
  refine ⟨⟨if 0 ≤ ρ.x then 1/2 else -(1/2), if 0 ≤ ρ.y then 1/2 else -(1/2),
    if 0 ≤ ρ.z then 1/2 else -(1/2)⟩, ?_, ?_⟩
  · split_ifs <;> simp
  · simp only [V3.dot_def, corner]
    have ex : ρ.x * q.x ≤ ρ.x * ((if 0 ≤ ρ.x then 1/2 else -(1/2)) * size.x) := by
      split_ifs with h
      · nlinarith
      · have h := not_le.mp h; nlinarith
    have ey : ρ.y * q.y ≤ ρ.y * ((if 0 ≤ ρ.y then 1/2 else -(1/2)) * size.y) := by
      split_ifs with h
      · nlinarith
      · have h := not_le.mp h; nlinarith
    have ez : ρ.z * q.z ≤ ρ.z * ((if 0 ≤ ρ.z then 1/2 else -(1/2)) * size.z) := by
      split_ifs with h
      · nlinarith
      · have h := not_le.mp h; nlinarith
    linarith

theorem corner_dominated (size q ρ : V) (hq : boxLocal size q) :
    ∃ c ∈ (boxCoords : List V), V3.dot ρ (corner size c) ≤ V3.dot ρ q := by
  obtain ⟨c, hc, h⟩ := corner_dominates size q (-ρ) hq
  refine ⟨c, hc, ?_⟩
  simp only [V3.dot_def, V3.neg_x, V3.neg_y, V3.neg_z] at h ⊢
  linarith

/-- **box** (`box_aabb`, `Box.aabb`) : for every pose (orthonormal or not), sizes ≥ 0 -/
theorem boxAabb_spec (A : Pose ℝ) (size : V) (hx : 0 ≤ size.x) (hy : 0 ≤ size.y)
    (hz : 0 ≤ size.z) :
    ∃ b, boxAabb A size = .ok b ∧ AabbSpec b (poseImage A (boxLocal size)) := by
  have hne : boxVertices A size ≠ [] := by simp [boxVertices, boxCoords]
  obtain ⟨b, hb, he, ht⟩ := aabbOfPoints_spec (boxVertices A size) hne
  refine ⟨b, hb, ?_, ?_⟩
  · -- enclosure: each coordinate is dominated by a vertex of the list
    rintro p ⟨q, hq, rfl⟩
    have vert : ∀ c ∈ (boxCoords : List V), A.apply (corner size c) ∈ boxVertices A size := by
      intro c hc
      rw [← boxVertex_eq]
      exact List.mem_map_of_mem hc
    obtain ⟨c1, m1, d1⟩ := corner_dominates size q A.R.r0 hq
    obtain ⟨c2, m2, d2⟩ := corner_dominates size q A.R.r1 hq
    obtain ⟨c3, m3, d3⟩ := corner_dominates size q A.R.r2 hq
    obtain ⟨c4, m4, d4⟩ := corner_dominated size q A.R.r0 hq
    obtain ⟨c5, m5, d5⟩ := corner_dominated size q A.R.r1 hq
    obtain ⟨c6, m6, d6⟩ := corner_dominated size q A.R.r2 hq
    have u1 := (he _ (vert c1 m1)).2.1
    have u2 := (he _ (vert c2 m2)).2.2.2.1
    have u3 := (he _ (vert c3 m3)).2.2.2.2.2
    have l1 := (he _ (vert c4 m4)).1
    have l2 := (he _ (vert c5 m5)).2.2.1
    have l3 := (he _ (vert c6 m6)).2.2.2.2.1
    rw [apply_x] at u1 l1; rw [apply_y] at u2 l2; rw [apply_z] at u3 l3
    rw [apply_x, apply_y, apply_z]
    exact ⟨by linarith, by linarith, by linarith, by linarith, by linarith, by linarith⟩
  · -- tightness: the attaining list members are images of corners, which lie in the box
    have lift : ∀ p, p ∈ boxVertices A size → poseImage A (boxLocal size) p := by
      intro p hp
      obtain ⟨c, hc, rfl⟩ := List.mem_map.1 hp
      exact ⟨corner size c, corner_mem_box size c hx hy hz hc, boxVertex_eq A size c⟩
    obtain ⟨⟨p1, m1, e1⟩, ⟨p2, m2, e2⟩, ⟨p3, m3, e3⟩, ⟨p4, m4, e4⟩, ⟨p5, m5, e5⟩,
      ⟨p6, m6, e6⟩⟩ := ht
    exact ⟨⟨p1, lift _ m1, e1⟩, ⟨p2, lift _ m2, e2⟩, ⟨p3, lift _ m3, e3⟩, ⟨p4, lift _ m4, e4⟩,
      ⟨p5, lift _ m5, e5⟩, ⟨p6, lift _ m6, e6⟩⟩

/-! ### margin -/

/-- **margin** (`Margin.aabb`) : inflating by `m` turns the box of `K` into the box of all
points within `m` of `K` -/
theorem inflate_spec {b : Box ℝ} {K : V → Prop} {m : ℝ} (hm : 0 ≤ m) (h : AabbSpec b K) :
    AabbSpec (inflate b m) (marginSet K m) := by
  obtain ⟨he, ⟨p1, k1, e1⟩, ⟨p2, k2, e2⟩, ⟨p3, k3, e3⟩, ⟨p4, k4, e4⟩, ⟨p5, k5, e5⟩,
    ⟨p6, k6, e6⟩⟩ := h
  refine ⟨?_, ?_⟩
  · rintro p ⟨q, hq, hd⟩
    obtain ⟨a1, a2, a3, a4, a5, a6⟩ := he q hq
    obtain ⟨h1, h2, h3⟩ := coord_sq_le_normSq (p - q)
    obtain ⟨x1, x2⟩ := abs_le_of_mul_self_le hm (le_trans h1 hd)
    obtain ⟨y1, y2⟩ := abs_le_of_mul_self_le hm (le_trans h2 hd)
    obtain ⟨z1, z2⟩ := abs_le_of_mul_self_le hm (le_trans h3 hd)
    simp only [V3.sub_x, V3.sub_y, V3.sub_z] at x1 x2 y1 y2 z1 z2
    simp only [inflate]
    exact ⟨by linarith, by linarith, by linarith, by linarith, by linarith, by linarith⟩
  · have mem : ∀ (q d : V), K q → V3.normSq d = m * m → marginSet K m (q + d) := by
      intro q d hq hd
      refine ⟨q, hq, ?_⟩
      have : q + d - q = d := by apply V3.ext' <;> simp
      rw [this, hd]
    have nx : ∀ s : ℝ, s * s = m * m → V3.normSq (⟨s, 0, 0⟩ : V) = m * m := by
      intro s hs; simp only [V3.normSq_def]; linarith
    have ny : ∀ s : ℝ, s * s = m * m → V3.normSq (⟨0, s, 0⟩ : V) = m * m := by
      intro s hs; simp only [V3.normSq_def]; linarith
    have nz : ∀ s : ℝ, s * s = m * m → V3.normSq (⟨0, 0, s⟩ : V) = m * m := by
      intro s hs; simp only [V3.normSq_def]; linarith
    simp only [TightOn, inflate]
    refine ⟨⟨p1 + ⟨-m, 0, 0⟩, mem _ _ k1 (nx _ (by ring)), ?_⟩,
      ⟨p2 + ⟨m, 0, 0⟩, mem _ _ k2 (nx _ rfl), ?_⟩,
      ⟨p3 + ⟨0, -m, 0⟩, mem _ _ k3 (ny _ (by ring)), ?_⟩,
      ⟨p4 + ⟨0, m, 0⟩, mem _ _ k4 (ny _ rfl), ?_⟩,
      ⟨p5 + ⟨0, 0, -m⟩, mem _ _ k5 (nz _ (by ring)), ?_⟩,
      ⟨p6 + ⟨0, 0, m⟩, mem _ _ k6 (nz _ rfl), ?_⟩⟩
    · simp only [V3.add_x]; linarith
    · simp only [V3.add_x]; linarith
    · simp only [V3.add_y]; linarith
    · simp only [V3.add_y]; linarith
    · simp only [V3.add_z]; linarith
    · simp only [V3.add_z]; linarith

/-! ### the broad-phase corollary -/

/-- boxes enclosing two sets that share a point pass the closed-interval overlap test -/
theorem overlap_of_common_point {b1 b2 : Box ℝ} {K1 K2 : V → Prop} (h1 : Encloses b1 K1)
    (h2 : Encloses b2 K2) {p : V} (hp1 : K1 p) (hp2 : K2 p) : Aabb.overlap b1 b2 = true := by
  obtain ⟨a1, a2, a3, a4, a5, a6⟩ := h1 p hp1
  obtain ⟨c1, c2, c3, c4, c5, c6⟩ := h2 p hp2
  simp only [Aabb.overlap, Bool.and_eq_true, decide_eq_true_eq]
  exact ⟨⟨⟨⟨⟨by linarith, by linarith⟩, by linarith⟩, by linarith⟩, by linarith⟩, by linarith⟩

end Containment
end D3
