/-
Swapping the two bodies, at ℝ: under an explicit contract on the narrow phase (rigid-motion
equivariance, antisymmetry under exchanging the two tetrahedra, no contact for tetrahedra with
disjoint boxes) the world-frame forces of `contact_forces(b2, b1)` are exactly the swapped
forces of `contact_forces(b1, b2)`.  The contract itself is a statement about C15 and is NOT
proved here.
-/
import D3.Proofs.HydroForceMotion

set_option linter.unusedSectionVars false
set_option linter.unusedSimpArgs false

namespace D3
namespace HydroForce
open Aabb

/-- apply a point map to the four vertices -/
def Tet.map (f : V → V) (t : Tet ℝ) : Tet ℝ := ⟨f t.p0, f t.p1, f t.p2, f t.p3⟩

theorem Tet.map_map (f g : V → V) (t : Tet ℝ) : (t.map f).map g = t.map (g ∘ f) := rfl

theorem Tet.map_id' (f : V → V) (hf : ∀ v, f v = v) (t : Tet ℝ) : t.map f = t := by
  cases t; simp [Tet.map, hf]

/-- the contract on the narrow phase under which the swap is exact -/
structure PairContract (pairFn : PairFn ℝ) : Prop where
  /-- expressing both tetrahedra in another orthonormal frame moves the contact point with the
  frame change and rotates the force -/
  equivariant : ∀ (h : Pose ℝ), Orthonormal h.R → ∀ t1 e1 t2 e2,
    pairFn (t1.map h.apply) e1 (t2.map h.apply) e2 =
      (pairFn t1 e1 t2 e2).map fun cf => (h.apply cf.1, h.R.mulVec cf.2)
  /-- exchanging the roles of the two tetrahedra keeps the contact point and negates the force -/
  antisymmetric : ∀ t1 e1 t2 e2,
    pairFn t2 e2 t1 e1 = (pairFn t1 e1 t2 e2).map fun cf => (cf.1, -cf.2)
  /-- tetrahedra with disjoint bounding boxes are never reported (the broad phase loses nothing) -/
  conservative : ∀ t1 e1 t2 e2, overlap (tetAabb t1) (tetAabb t2) = false → pairFn t1 e1 t2 e2 = none

/-! ### gather lemmas -/

theorem rdL_map {β γ : Type} (f : β → γ) (l : List β) (i : Nat) :
    rdL (l.map f) i = (rdL l i).map f := by
  unfold rdL
  rw [List.getElem?_map]
  cases l[i]? <;> rfl

theorem gatherTets_map (f : V → V) (verts : List V) :
    ∀ tets, gatherTets (verts.map f) tets = (gatherTets verts tets).map (List.map (Tet.map f))
  | [] => rfl
  | (a, b, c, d) :: rest => by
    simp only [gatherTets, rdL_map, gatherTets_map f verts rest]
    cases rdL verts a <;> cases rdL verts b <;> cases rdL verts c <;> cases rdL verts d <;>
      cases gatherTets verts rest <;> rfl

theorem gatherTets_length (verts : List V) :
    ∀ tets tp, gatherTets verts tets = .ok tp → tp.length = tets.length
  | [], tp, h => by cases h; rfl
  | (a, b, c, d) :: rest, tp, h => by
    simp only [gatherTets] at h
    cases ha : rdL verts a <;> cases hb : rdL verts b <;> cases hc : rdL verts c <;>
      cases hd : rdL verts d <;> cases hr : gatherTets verts rest <;>
      simp [ha, hb, hc, hd, hr, bind, Except.bind, pure, Except.pure] at h
    subst h
    simp [gatherTets_length verts rest _ hr]

theorem gatherEps_length (pots : List ℝ) :
    ∀ tets ep, gatherEps pots tets = .ok ep → ep.length = tets.length
  | [], ep, h => by cases h; rfl
  | (a, b, c, d) :: rest, ep, h => by
    simp only [gatherEps] at h
    cases ha : rdL pots a <;> cases hb : rdL pots b <;> cases hc : rdL pots c <;>
      cases hd : rdL pots d <;> cases hr : gatherEps pots rest <;>
      simp [ha, hb, hc, hd, hr, bind, Except.bind, pure, Except.pure] at h
    subst h
    simp [gatherEps_length pots rest _ hr]

/-- what a successful brute-force `contactsCore` consists of -/
theorem contactsCore_false_ok {pairFn : PairFn ℝ} {v1 v2 : List V}
    {t1 t2 : List (Nat × Nat × Nat × Nat)} {p1 p2 : List ℝ} {cs : List (Contact ℝ)}
    (h : contactsCore pairFn v1 t1 p1 v2 t2 p2 false = .ok cs) :
    ∃ tp1 tp2 ep1 ep2, gatherTets v1 t1 = .ok tp1 ∧ gatherTets v2 t2 = .ok tp2 ∧
      gatherEps p1 t1 = .ok ep1 ∧ gatherEps p2 t2 = .ok ep2 ∧
      narrowPhase pairFn tp1 ep1 tp2 ep2
        (allPairs (tetrahedralMeshAabbs tp1) (tetrahedralMeshAabbs tp2)) = .ok cs := by
  unfold contactsCore broadCore aabbsOf broadBrute at h
  cases h1 : gatherTets v1 t1 with
  | error e => simp [h1, bind, Except.bind] at h
  | ok tp1 =>
    cases h2 : gatherTets v2 t2 with
    | error e => simp [h1, h2, bind, Except.bind, pure, Except.pure] at h
    | ok tp2 =>
      cases h3 : gatherEps p1 t1 with
      | error e => simp [h1, h2, h3, bind, Except.bind, pure, Except.pure] at h
      | ok ep1 =>
        cases h4 : gatherEps p2 t2 with
        | error e => simp [h1, h2, h3, h4, bind, Except.bind, pure, Except.pure] at h
        | ok ep2 =>
          simp only [h1, h2, h3, h4, bind, Except.bind, pure, Except.pure, Bool.false_eq_true, if_false] at h
          exact ⟨tp1, tp2, ep1, ep2, rfl, rfl, rfl, rfl, h⟩

/-! ### sums over the brute-force pair list -/

/-- force of an optional contact, zero if none -/
def optForce (o : Option (Contact ℝ)) : V :=
  match o with
  | some c => c.force
  | none => V3.zero

theorem totalForce21_filterMap (look : Nat × Nat → Option (Contact ℝ)) :
    ∀ ps : List (Nat × Nat),
      totalForce21 (ps.filterMap look) = sumV (ps.map fun p => optForce (look p))
  | [] => rfl
  | p :: ps => by
    have ih := totalForce21_filterMap look ps
    unfold totalForce21 at ih ⊢
    simp only [List.filterMap_cons, List.map_cons, sumV_cons]
    cases h : look p with
    | none => simp only [optForce, V3.zero_add', ih]
    | some c => simp only [optForce, List.map_cons, sumV_cons, ih]

theorem sumV_flatMap_cons {γ : Type} (a : γ → V) (r : γ → List V) :
    ∀ L : List γ, sumV (L.flatMap fun y => a y :: r y) = sumV (L.map a) + sumV (L.flatMap r)
  | [] => by simp [sumV_nil, V3.zero_add']
  | y :: L => by
    simp only [List.flatMap_cons, List.map_cons, sumV_cons, sumV_append, List.cons_append,
      sumV_flatMap_cons a r L]
    apply V3.ext' <;> simp <;> ring

/-- interchange of a finite double sum -/
theorem sumV_flatMap_comm {β γ : Type} (F : β → γ → V) (L2 : List γ) :
    ∀ L1 : List β, sumV (L1.flatMap fun x => L2.map fun y => F x y) =
      sumV (L2.flatMap fun y => L1.map fun x => F x y)
  | [] => by
    have : (L2.flatMap fun _ : γ => ([] : List V)) = [] := by
      induction L2 with
      | nil => rfl
      | cons y L ih => simp [ih]
    simp [this]
  | x :: L1 => by
    simp only [List.flatMap_cons, List.map_cons, sumV_append, sumV_flatMap_comm F L2 L1]
    rw [sumV_flatMap_cons]

/-- an additive map commutes with the sum -/
theorem sumV_map_additive (K : V → V) (h0 : K V3.zero = V3.zero) (hadd : ∀ a b, K (a + b) = K a + K b) :
    ∀ l : List V, sumV (l.map K) = K (sumV l)
  | [] => by simp [sumV_nil, h0]
  | x :: l => by simp only [List.map_cons, sumV_cons, sumV_map_additive K h0 hadd l, hadd]

theorem sum_inner (G : Nat → Nat → V) (b1 : Box ℝ) (i : Nat) :
    ∀ L2 : List (Box ℝ × Nat), (∀ x ∈ L2, overlap b1 x.1 = false → G i x.2 = V3.zero) →
      sumV ((L2.filterMap fun x => if overlap b1 x.1 then some (i, x.2) else none).map
        fun p : Nat × Nat => G p.1 p.2) = sumV (L2.map fun x => G i x.2)
  | [], _ => rfl
  | x :: L2, h => by
    have ih := sum_inner G b1 i L2 (fun y hy => h y (by simp [hy]))
    simp only [List.filterMap_cons, List.map_cons, sumV_cons]
    by_cases ho : overlap b1 x.1 = true
    · simp only [ho, if_true, List.map_cons, sumV_cons, ih]
    · have hf : overlap b1 x.1 = false := by simpa using ho
      simp only [hf, Bool.false_eq_true, if_false, ih, h x (by simp) hf, V3.zero_add']

theorem sum_outer (G : Nat → Nat → V) (L2 : List (Box ℝ × Nat)) :
    ∀ L1 : List (Box ℝ × Nat),
      (∀ x ∈ L1, ∀ y ∈ L2, overlap x.1 y.1 = false → G x.2 y.2 = V3.zero) →
      sumV ((L1.flatMap fun x => L2.filterMap fun y => if overlap x.1 y.1 then some (x.2, y.2) else none).map
        fun p : Nat × Nat => G p.1 p.2) = sumV (L1.flatMap fun x => L2.map fun y => G x.2 y.2)
  | [], _ => rfl
  | x :: L1, h => by
    have ih := sum_outer G L2 L1 (fun a ha => h a (by simp [ha]))
    simp only [List.flatMap_cons, List.map_append, sumV_append, ih]
    rw [sum_inner G x.1 x.2 L2 (fun y hy => h x (by simp) y hy)]

theorem flatMap_zipIdx_range (l : List (Box ℝ)) (g : Nat → List V) :
    (l.zipIdx.flatMap fun x => g x.2) = (List.range l.length).flatMap g := by
  rw [List.range_eq_range', ← List.zipIdx_map_snd 0 l, List.flatMap_map]

theorem map_zipIdx_range (l : List (Box ℝ)) (g : Nat → V) :
    (l.zipIdx.map fun x => g x.2) = (List.range l.length).map g := by
  rw [List.range_eq_range', ← List.zipIdx_map_snd 0 l, List.map_map]; rfl

/-- the sum of `G` over the brute-force pair list is the full double sum when `G` vanishes on
non-overlapping pairs -/
theorem sum_allPairs (a1 a2 : List (Box ℝ)) (G : Nat → Nat → V)
    (hz : ∀ i j b1 b2, a1[i]? = some b1 → a2[j]? = some b2 → overlap b1 b2 = false → G i j = V3.zero) :
    sumV ((allPairs a1 a2).map fun p => G p.1 p.2) =
      sumV ((List.range a1.length).flatMap fun i => (List.range a2.length).map fun j => G i j) := by
  have h := sum_outer G a2.zipIdx a1.zipIdx (by
    rintro ⟨b1, i⟩ hx ⟨b2, j⟩ hy ho
    exact hz i j b1 b2 (List.mem_zipIdx_iff_getElem?.mp hx) (List.mem_zipIdx_iff_getElem?.mp hy) ho)
  have e : allPairs a1 a2 = a1.zipIdx.flatMap fun x => a2.zipIdx.filterMap fun y =>
      if overlap x.1 y.1 then some (x.2, y.2) else none := rfl
  rw [e, h]
  have e2 : (a1.zipIdx.flatMap fun x => a2.zipIdx.map fun y => G x.2 y.2) =
      a1.zipIdx.flatMap fun x => (fun i => (List.range a2.length).map fun j => G i j) x.2 := by
    apply List.flatMap_congr
    intro x _
    exact map_zipIdx_range a2 (fun j => G x.2 j)
  rw [e2, flatMap_zipIdx_range a1 (fun i => (List.range a2.length).map fun j => G i j)]

/-! ### the swap -/

theorem Orthonormal.transpose {R : Mat} (h : Orthonormal R) : Orthonormal R.transpose :=
  ⟨h.c00, h.c11, h.c22, h.c01, h.c02, h.c12, h.r00, h.r11, h.r22, h.r01, h.r02, h.r12⟩

theorem transpose_mulVec (R : Mat) (v : V) : R.transpose.mulVec v = R.tmulVec v := rfl

/-- force part of an optional narrow-phase result -/
def optF (o : Option (V × V)) : V :=
  match o with
  | some cf => cf.2
  | none => V3.zero

theorem optForce_lookPair (pairFn : PairFn ℝ) {tp1 : List (Tet ℝ)} {ep1 : List (Eps ℝ)}
    {tp2 : List (Tet ℝ)} {ep2 : List (Eps ℝ)} {i j : Nat} {t1 : Tet ℝ} {e1 : Eps ℝ} {t2 : Tet ℝ} {e2 : Eps ℝ}
    (h1 : tp1[i]? = some t1) (h2 : ep1[i]? = some e1) (h3 : tp2[j]? = some t2) (h4 : ep2[j]? = some e2) :
    optForce (lookPair pairFn tp1 ep1 tp2 ep2 (i, j)) = optF (pairFn t1 e1 t2 e2) := by
  simp only [lookPair, h1, h2, h3, h4]
  cases pairFn t1 e1 t2 e2 with
  | none => rfl
  | some cf => rfl

theorem optForce_lookPair_disjoint {pairFn : PairFn ℝ} (hc : PairContract pairFn) (tp1 : List (Tet ℝ))
    (ep1 : List (Eps ℝ)) (tp2 : List (Tet ℝ)) (ep2 : List (Eps ℝ)) (i j : Nat) (b1 b2 : Box ℝ)
    (h1 : (tetrahedralMeshAabbs tp1)[i]? = some b1) (h2 : (tetrahedralMeshAabbs tp2)[j]? = some b2)
    (ho : overlap b1 b2 = false) : optForce (lookPair pairFn tp1 ep1 tp2 ep2 (i, j)) = V3.zero := by
  unfold tetrahedralMeshAabbs at h1 h2
  rw [List.getElem?_map] at h1 h2
  cases ht1 : tp1[i]? with
  | none => simp [ht1] at h1
  | some t1 =>
    cases ht2 : tp2[j]? with
    | none => simp [ht2] at h2
    | some t2 =>
      simp only [ht1, ht2, Option.map_some, Option.some.injEq] at h1 h2
      subst h1 h2
      cases he1 : ep1[i]? with
      | none => simp [lookPair, ht1, ht2, he1, optForce]
      | some e1 =>
        cases he2 : ep2[j]? with
        | none => simp [lookPair, ht1, ht2, he1, he2, optForce]
        | some e2 =>
          rw [optForce_lookPair pairFn ht1 he1 ht2 he2, hc.conservative t1 e1 t2 e2 ho]
          rfl

/-- total force of a successful brute-force `contactsCore` as a full double sum -/
theorem totalForce21_contactsCore {pairFn : PairFn ℝ} (hc : PairContract pairFn) {tp1 tp2 : List (Tet ℝ)}
    {ep1 ep2 : List (Eps ℝ)} {cs : List (Contact ℝ)} (hl1 : ep1.length = tp1.length)
    (hl2 : ep2.length = tp2.length)
    (h : narrowPhase pairFn tp1 ep1 tp2 ep2
      (allPairs (tetrahedralMeshAabbs tp1) (tetrahedralMeshAabbs tp2)) = .ok cs) :
    totalForce21 cs = sumV ((List.range tp1.length).flatMap fun i => (List.range tp2.length).map fun j =>
      optForce (lookPair pairFn tp1 ep1 tp2 ep2 (i, j))) := by
  have hv : ∀ p ∈ allPairs (tetrahedralMeshAabbs tp1) (tetrahedralMeshAabbs tp2),
      p.1 < tp1.length ∧ p.1 < ep1.length ∧ p.2 < tp2.length ∧ p.2 < ep2.length := by
    rintro ⟨i, j⟩ hp
    obtain ⟨hi, hj⟩ := allPairs_bounds hp
    simp only [tetrahedralMeshAabbs, List.length_map] at hi hj
    exact ⟨hi, by omega, hj, by omega⟩
  rw [narrowPhase_ok pairFn tp1 ep1 tp2 ep2 _ hv] at h
  cases h
  rw [totalForce21_filterMap]
  have := sum_allPairs (tetrahedralMeshAabbs tp1) (tetrahedralMeshAabbs tp2)
    (fun i j => optForce (lookPair pairFn tp1 ep1 tp2 ep2 (i, j)))
    (fun i j b1 b2 h1 h2 ho => optForce_lookPair_disjoint hc tp1 ep1 tp2 ep2 i j b1 b2 h1 h2 ho)
  simp only [tetrahedralMeshAabbs, List.length_map] at this
  exact this

theorem getElem?_of_lt {β : Type} (l : List β) (i : Nat) (h : i < l.length) : ∃ x, l[i]? = some x :=
  ⟨l[i], List.getElem?_eq_getElem h⟩

/-- **the swap, under the contract**: the force on body 1 in the frame of body 2 (call
`(b1, b2)`) and the force on body 2 in the frame of body 1 (call `(b2, b1)`) are opposite when
both are rotated into the world frame -/
theorem swap_total_force {pairFn : PairFn ℝ} (hc : PairContract pairFn) (b1 b2 : Body ℝ)
    (h1 : Orthonormal b1.pose.R) (h2 : Orthonormal b2.pose.R) (csA csB : List (Contact ℝ))
    (hA : contactsPure pairFn b1 b2 false = .ok csA) (hB : contactsPure pairFn b2 b1 false = .ok csB) :
    b2.pose.R.mulVec (totalForce21 csA) = -(b1.pose.R.mulVec (totalForce21 csB)) := by
  unfold contactsPure at hA hB
  simp only [expressIn_verts, expressIn_tets, expressIn_pots] at hA hB
  obtain ⟨tp1A, tp2A, ep1, ep2, g1A, g2A, ge1, ge2, nA⟩ := contactsCore_false_ok hA
  obtain ⟨tp1B, tp2B, ep2', ep1', g1B, g2B, ge2', ge1', nB⟩ := contactsCore_false_ok hB
  rw [ge1] at ge1'; rw [ge2] at ge2'
  cases ge1'; cases ge2'
  -- the frame change H = P2⁻¹ ∘ P1 as a pose
  let H : Pose ℝ := matMul4 (invertTransform b2.pose) b1.pose
  have hH : Orthonormal H.R := Orthonormal.mul (Orthonormal.transpose h2) h1
  have rA : reexpress b1.pose b2.pose = H.apply :=
    funext fun v => (body2new_apply b1.pose b2.pose v).symm
  have rBA : ∀ v, H.apply (reexpress b2.pose b1.pose v) = v := by
    intro v
    rw [← rA, reexpress_reexpress b2.pose b1.pose b2.pose h1, reexpress_self b2.pose h2]
  -- tetrahedra of the two calls
  rw [gatherTets_map, g2B] at g1A
  rw [gatherTets_map, g2A] at g1B
  simp only [Except.map, Except.ok.injEq] at g1A g1B
  subst g1A g1B
  have l1 : ep1.length = tp2B.length := by
    rw [gatherEps_length _ _ _ ge1, gatherTets_length _ _ _ g2B]
  have l2 : ep2.length = tp2A.length := by
    rw [gatherEps_length _ _ _ ge2, gatherTets_length _ _ _ g2A]
  rw [totalForce21_contactsCore hc (by simpa using l1) l2 nA,
    totalForce21_contactsCore hc (by simpa using l2) l1 nB]
  simp only [List.length_map]
  -- pointwise relation between the summands
  let K : V → V := fun x => -(H.R.mulVec x)
  have hK0 : K V3.zero = V3.zero := by
    apply V3.ext' <;> simp [K, M3.mulVec, V3.dot_def]
  have hKadd : ∀ a b, K (a + b) = K a + K b := by
    intro a b
    simp only [K, mulVec_add]
    apply V3.ext' <;> simp <;> ring
  have hpt : ∀ i ∈ List.range tp2B.length, ∀ j ∈ List.range tp2A.length,
      optForce (lookPair pairFn (List.map (Tet.map (reexpress b1.pose b2.pose)) tp2B) ep1 tp2A ep2 (i, j)) =
      K (optForce (lookPair pairFn (List.map (Tet.map (reexpress b2.pose b1.pose)) tp2A) ep2 tp2B ep1 (j, i))) := by
    intro i hi j hj
    rw [List.mem_range] at hi hj
    obtain ⟨u1, hu1⟩ := getElem?_of_lt tp2B i hi
    obtain ⟨u2, hu2⟩ := getElem?_of_lt tp2A j hj
    obtain ⟨e1, he1⟩ := getElem?_of_lt ep1 i (by omega)
    obtain ⟨e2, he2⟩ := getElem?_of_lt ep2 j (by omega)
    have hA1 : (List.map (Tet.map (reexpress b1.pose b2.pose)) tp2B)[i]? =
        some (u1.map (reexpress b1.pose b2.pose)) := by rw [List.getElem?_map, hu1]; rfl
    have hB1 : (List.map (Tet.map (reexpress b2.pose b1.pose)) tp2A)[j]? =
        some (u2.map (reexpress b2.pose b1.pose)) := by rw [List.getElem?_map, hu2]; rfl
    rw [optForce_lookPair pairFn hA1 he1 hu2 he2, optForce_lookPair pairFn hB1 he2 hu1 he1]
    have hu2' : u2 = (u2.map (reexpress b2.pose b1.pose)).map H.apply := by
      rw [Tet.map_map]
      exact (Tet.map_id' _ (fun v => rBA v) u2).symm
    rw [rA]
    conv_lhs => rw [hu2']
    rw [hc.equivariant H hH, hc.antisymmetric (u2.map (reexpress b2.pose b1.pose)) e2 u1 e1]
    cases pairFn (u2.map (reexpress b2.pose b1.pose)) e2 u1 e1 with
    | none => simp only [Option.map_none, optF, hK0]
    | some cf =>
      simp only [Option.map_some, optF, K, mulVec_neg]
  have hsum : (List.range tp2B.length).flatMap (fun i => (List.range tp2A.length).map fun j =>
        optForce (lookPair pairFn (List.map (Tet.map (reexpress b1.pose b2.pose)) tp2B) ep1 tp2A ep2 (i, j))) =
      (List.range tp2B.length).flatMap (fun i => (List.range tp2A.length).map fun j =>
        K (optForce (lookPair pairFn (List.map (Tet.map (reexpress b2.pose b1.pose)) tp2A) ep2 tp2B ep1 (j, i)))) := by
    apply List.flatMap_congr
    intro i hi
    apply List.map_congr_left
    intro j hj
    exact hpt i hi j hj
  rw [hsum, sumV_flatMap_comm]
  have hmap : ((List.range tp2A.length).flatMap fun j => (List.range tp2B.length).map fun i =>
        K (optForce (lookPair pairFn (List.map (Tet.map (reexpress b2.pose b1.pose)) tp2A) ep2 tp2B ep1 (j, i)))) =
      ((List.range tp2A.length).flatMap fun j => (List.range tp2B.length).map fun i =>
        optForce (lookPair pairFn (List.map (Tet.map (reexpress b2.pose b1.pose)) tp2A) ep2 tp2B ep1 (j, i))).map K := by
    rw [List.map_flatMap]
    apply List.flatMap_congr
    intro j _
    rw [List.map_map]; rfl
  rw [hmap, sumV_map_additive K hK0 hKadd]
  -- R2 (−(R2ᵀ R1) F) = −(R1 F)
  simp only [K, mulVec_neg]
  congr 1
  show b2.pose.R.mulVec ((b2.pose.R.transpose.mul b1.pose.R).mulVec _) = _
  rw [mul_mulVec, transpose_mulVec, h2.mulVec_tmulVec]

/-! ### the intersection flag under the swap -/

theorem lookPair_eq_none_iff (pairFn : PairFn ℝ) {tp1 : List (Tet ℝ)} {ep1 : List (Eps ℝ)}
    {tp2 : List (Tet ℝ)} {ep2 : List (Eps ℝ)} {i j : Nat} {t1 : Tet ℝ} {e1 : Eps ℝ} {t2 : Tet ℝ} {e2 : Eps ℝ}
    (h1 : tp1[i]? = some t1) (h2 : ep1[i]? = some e1) (h3 : tp2[j]? = some t2) (h4 : ep2[j]? = some e2) :
    lookPair pairFn tp1 ep1 tp2 ep2 (i, j) = none ↔ pairFn t1 e1 t2 e2 = none := by
  simp only [lookPair, h1, h2, h3, h4]
  cases pairFn t1 e1 t2 e2 with
  | none => simp
  | some cf => simp

theorem lookPair_none_of_disjoint {pairFn : PairFn ℝ} (hc : PairContract pairFn) (tp1 : List (Tet ℝ))
    (ep1 : List (Eps ℝ)) (tp2 : List (Tet ℝ)) (ep2 : List (Eps ℝ)) (i j : Nat) (b1 b2 : Box ℝ)
    (h1 : (tetrahedralMeshAabbs tp1)[i]? = some b1) (h2 : (tetrahedralMeshAabbs tp2)[j]? = some b2)
    (ho : overlap b1 b2 = false) : lookPair pairFn tp1 ep1 tp2 ep2 (i, j) = none := by
  unfold tetrahedralMeshAabbs at h1 h2
  rw [List.getElem?_map] at h1 h2
  cases ht1 : tp1[i]? with
  | none => simp [ht1] at h1
  | some t1 =>
    cases ht2 : tp2[j]? with
    | none => simp [ht2] at h2
    | some t2 =>
      simp only [ht1, ht2, Option.map_some, Option.some.injEq] at h1 h2
      subst h1 h2
      cases he1 : ep1[i]? with
      | none => simp [lookPair, ht1, ht2, he1]
      | some e1 =>
        cases he2 : ep2[j]? with
        | none => simp [lookPair, ht1, ht2, he1, he2]
        | some e2 =>
          rw [lookPair_eq_none_iff pairFn ht1 he1 ht2 he2]
          exact hc.conservative t1 e1 t2 e2 ho

/-- the contact list is empty iff no index pair at all yields a contact -/
theorem narrow_nil_iff {pairFn : PairFn ℝ} (hc : PairContract pairFn) {tp1 tp2 : List (Tet ℝ)}
    {ep1 ep2 : List (Eps ℝ)} {cs : List (Contact ℝ)} (hl1 : ep1.length = tp1.length)
    (hl2 : ep2.length = tp2.length)
    (h : narrowPhase pairFn tp1 ep1 tp2 ep2
      (allPairs (tetrahedralMeshAabbs tp1) (tetrahedralMeshAabbs tp2)) = .ok cs) :
    cs = [] ↔ ∀ i, i < tp1.length → ∀ j, j < tp2.length → lookPair pairFn tp1 ep1 tp2 ep2 (i, j) = none := by
  have hv : ∀ p ∈ allPairs (tetrahedralMeshAabbs tp1) (tetrahedralMeshAabbs tp2),
      p.1 < tp1.length ∧ p.1 < ep1.length ∧ p.2 < tp2.length ∧ p.2 < ep2.length := by
    rintro ⟨i, j⟩ hp
    obtain ⟨hi, hj⟩ := allPairs_bounds hp
    simp only [tetrahedralMeshAabbs, List.length_map] at hi hj
    exact ⟨hi, by omega, hj, by omega⟩
  rw [narrowPhase_ok pairFn tp1 ep1 tp2 ep2 _ hv] at h
  cases h
  rw [List.filterMap_eq_nil_iff]
  constructor
  · intro hall i hi j hj
    by_cases hm : (i, j) ∈ allPairs (tetrahedralMeshAabbs tp1) (tetrahedralMeshAabbs tp2)
    · exact hall _ hm
    · obtain ⟨b1, hb1⟩ := getElem?_of_lt (tetrahedralMeshAabbs tp1) i (by simpa [tetrahedralMeshAabbs] using hi)
      obtain ⟨b2, hb2⟩ := getElem?_of_lt (tetrahedralMeshAabbs tp2) j (by simpa [tetrahedralMeshAabbs] using hj)
      have ho : overlap b1 b2 = false := by
        cases hov : overlap b1 b2 with
        | false => rfl
        | true => exact absurd ((mem_allPairs _ _ i j).mpr ⟨b1, b2, hb1, hb2, hov⟩) hm
      exact lookPair_none_of_disjoint hc tp1 ep1 tp2 ep2 i j b1 b2 hb1 hb2 ho
  · rintro hall ⟨i, j⟩ hp
    obtain ⟨hi, _, hj, _⟩ := hv _ hp
    exact hall i hi j hj

/-- **the intersection flag under the swap, under the contract** -/
theorem swap_flag {pairFn : PairFn ℝ} (hc : PairContract pairFn) (b1 b2 : Body ℝ)
    (h1 : Orthonormal b1.pose.R) (h2 : Orthonormal b2.pose.R) (csA csB : List (Contact ℝ))
    (hA : contactsPure pairFn b1 b2 false = .ok csA) (hB : contactsPure pairFn b2 b1 false = .ok csB) :
    csA = [] ↔ csB = [] := by
  unfold contactsPure at hA hB
  simp only [expressIn_verts, expressIn_tets, expressIn_pots] at hA hB
  obtain ⟨tp1A, tp2A, ep1, ep2, g1A, g2A, ge1, ge2, nA⟩ := contactsCore_false_ok hA
  obtain ⟨tp1B, tp2B, ep2', ep1', g1B, g2B, ge2', ge1', nB⟩ := contactsCore_false_ok hB
  rw [ge1] at ge1'; rw [ge2] at ge2'
  cases ge1'; cases ge2'
  let H : Pose ℝ := matMul4 (invertTransform b2.pose) b1.pose
  have hH : Orthonormal H.R := Orthonormal.mul (Orthonormal.transpose h2) h1
  have rA : reexpress b1.pose b2.pose = H.apply :=
    funext fun v => (body2new_apply b1.pose b2.pose v).symm
  have rBA : ∀ v, H.apply (reexpress b2.pose b1.pose v) = v := by
    intro v
    rw [← rA, reexpress_reexpress b2.pose b1.pose b2.pose h1, reexpress_self b2.pose h2]
  rw [gatherTets_map, g2B] at g1A
  rw [gatherTets_map, g2A] at g1B
  simp only [Except.map, Except.ok.injEq] at g1A g1B
  subst g1A g1B
  have l1 : ep1.length = tp2B.length := by
    rw [gatherEps_length _ _ _ ge1, gatherTets_length _ _ _ g2B]
  have l2 : ep2.length = tp2A.length := by
    rw [gatherEps_length _ _ _ ge2, gatherTets_length _ _ _ g2A]
  rw [narrow_nil_iff hc (by simpa using l1) l2 nA, narrow_nil_iff hc (by simpa using l2) l1 nB]
  simp only [List.length_map]
  have hpt : ∀ i, i < tp2B.length → ∀ j, j < tp2A.length →
      (lookPair pairFn (List.map (Tet.map (reexpress b1.pose b2.pose)) tp2B) ep1 tp2A ep2 (i, j) = none ↔
       lookPair pairFn (List.map (Tet.map (reexpress b2.pose b1.pose)) tp2A) ep2 tp2B ep1 (j, i) = none) := by
    intro i hi j hj
    obtain ⟨u1, hu1⟩ := getElem?_of_lt tp2B i hi
    obtain ⟨u2, hu2⟩ := getElem?_of_lt tp2A j hj
    obtain ⟨e1, he1⟩ := getElem?_of_lt ep1 i (by omega)
    obtain ⟨e2, he2⟩ := getElem?_of_lt ep2 j (by omega)
    have hA1 : (List.map (Tet.map (reexpress b1.pose b2.pose)) tp2B)[i]? =
        some (u1.map (reexpress b1.pose b2.pose)) := by rw [List.getElem?_map, hu1]; rfl
    have hB1 : (List.map (Tet.map (reexpress b2.pose b1.pose)) tp2A)[j]? =
        some (u2.map (reexpress b2.pose b1.pose)) := by rw [List.getElem?_map, hu2]; rfl
    rw [lookPair_eq_none_iff pairFn hA1 he1 hu2 he2, lookPair_eq_none_iff pairFn hB1 he2 hu1 he1]
    have hu2' : u2 = (u2.map (reexpress b2.pose b1.pose)).map H.apply := by
      rw [Tet.map_map]
      exact (Tet.map_id' _ (fun v => rBA v) u2).symm
    rw [rA]
    conv_lhs => rw [hu2']
    rw [hc.equivariant H hH, hc.antisymmetric (u2.map (reexpress b2.pose b1.pose)) e2 u1 e1]
    cases pairFn (u2.map (reexpress b2.pose b1.pose)) e2 u1 e1 <;> simp
  constructor
  · intro h j hj i hi
    exact (hpt i hi j hj).mp (h i hi j hj)
  · intro h i hi j hj
    exact (hpt i hi j hj).mpr (h j hj i hi)

/-- reading off a successful cache-free `contact_forces` -/
theorem forcesCore_ok {pairFn : PairFn ℝ} {P : Pose ℝ} {v1 v2 : List V}
    {t1 t2 : List (Nat × Nat × Nat × Nat)} {p1 p2 : List ℝ} {r : ForceResult ℝ}
    (h : forcesCore pairFn P v1 t1 p1 v2 t2 p2 = .ok r) :
    ∃ cs, contactsCore pairFn v1 t1 p1 v2 t2 p2 false = .ok cs ∧
      r.wrench21.f = P.R.mulVec (totalForce21 cs) ∧ r.wrench12.f = -(P.R.mulVec (totalForce21 cs)) ∧
      r.intersection = !cs.isEmpty := by
  unfold forcesCore at h
  cases hc : contactsCore pairFn v1 t1 p1 v2 t2 p2 false with
  | error e => simp [hc, bind, Except.bind] at h
  | ok cs =>
    cases h1 : comOf v1 t1 with
    | error e => simp [hc, h1, bind, Except.bind] at h
    | ok com1 =>
      cases h2 : comOf v2 t2 with
      | error e => simp [hc, h1, h2, bind, Except.bind] at h
      | ok com2 =>
        simp only [hc, h1, h2, bind, Except.bind, pure, Except.pure, Except.ok.injEq] at h
        subst h
        refine ⟨cs, rfl, rfl, ?_, rfl⟩
        show P.R.mulVec (-(totalForce21 cs)) = _
        exact mulVec_neg _ _

end HydroForce
end D3
