/-
Exactness of the single-point kernels of `D3.Model.ContainTest` at `α := ℝ`:
each kernel decides membership in the independently defined closed set of
`D3.Proofs.ContainTestSets`.
-/
import D3.Proofs.ContainTestSets

namespace D3
namespace ContainTest

/-! ### small vector identities -/

theorem sub_add_smul (p t a : V) (s : ℝ) : p - (t + s * a) = (p - t) - s * a := by
  apply V3.ext' <;> simp <;> ring

theorem dot_sub_smul (d a : V) (s : ℝ) : V3.dot (d - s * a) a = V3.dot d a - s * V3.dot a a := by
  simp only [V3.dot_def, V3.sub_x, V3.sub_y, V3.sub_z, V3.smul_x, V3.smul_y, V3.smul_z]; ring

theorem dot_sub_right (n q c : V) : V3.dot n (q - c) = V3.dot n q - V3.dot n c := by
  simp only [V3.dot_def, V3.sub_x, V3.sub_y, V3.sub_z]; ring

theorem normSq_eq_dot (d : V) : V3.normSq d = V3.dot d d := rfl

/-- in-plane squared length `|d − ⟨d,a⟩ a|² = |d|² − ⟨d,a⟩²` for unit `a` -/
theorem inPlane_sq (d a : V) (ha : V3.dot a a = 1) :
    V3.dot (d - V3.dot d a * a) (d - V3.dot d a * a) = V3.normSq d - V3.dot d a * V3.dot d a := by
  rw [sub_smul_sq d a _ ha]; ring

/-! ### sphere -/

theorem pointInSphere_iff {A : Pose ℝ} (hA : Orthonormal A.R) {r : ℝ} (hr : 0 ≤ r) (p : V) :
    pointInSphere p A.t r = true ↔ ballSet A r p := by
  unfold ballSet
  rw [poseImage_iff hA]
  unfold ballLocal
  rw [norm_le_iff hr, applyInv_normSq hA]
  simp only [pointInSphere, decide_eq_true_eq, normSq_eq_dot]

/-! ### cylinder and disk -/

theorem cylDist_eq (A : Pose ℝ) (p : V) : cylDistToPlane p A = (A.applyInv p).z := by
  rw [applyInv_z]; rfl

theorem cylSqr_eq {A : Pose ℝ} (hA : Orthonormal A.R) (p : V) :
    cylSqrInPlane p A = (A.applyInv p).x * (A.applyInv p).x + (A.applyInv p).y * (A.applyInv p).y := by
  simp only [cylSqrInPlane]
  rw [inPlane_sq _ _ (col2_unit hA), radialSq_eq hA]

theorem pointInCylinder_iff {A : Pose ℝ} (hA : Orthonormal A.R) {r : ℝ} (hr : 0 ≤ r) (len : ℝ)
    (p : V) : pointInCylinder p A r len = true ↔ cylinderSet A r len p := by
  unfold cylinderSet
  rw [poseImage_iff hA]
  unfold cylinderLocal pointInCylinder
  rw [radial_le_iff hr, cylDist_eq, cylSqr_eq hA, absS_real, half_eq]
  simp only [Bool.and_eq_true, Bool.not_eq_true', decide_eq_false_iff_not, not_lt]
  constructor
  · rintro ⟨h1, h2⟩; exact ⟨by linarith, h2⟩
  · rintro ⟨h1, h2⟩; exact ⟨by linarith, h2⟩

theorem diskSlab_nonneg : (0 : ℝ) ≤ diskSlab := by
  unfold diskSlab D3.Gen.utils__EPSILON; norm_num

theorem diskDist_eq (A : Pose ℝ) (p : V) : diskDistToPlane p A.t A.R.col2 = (A.applyInv p).z := by
  rw [applyInv_z]; rfl

theorem diskSqr_eq {A : Pose ℝ} (hA : Orthonormal A.R) (p : V) :
    diskSqrInPlane p A.t A.R.col2 =
      (A.applyInv p).x * (A.applyInv p).x + (A.applyInv p).y * (A.applyInv p).y := by
  simp only [diskSqrInPlane]
  rw [inPlane_sq _ _ (col2_unit hA), radialSq_eq hA]

/-- centre/normal form, no pose: for a unit normal the predicate is the slab test and the
in-plane radius test -/
theorem pointInDisk_iff_unit (p c n : V) (r : ℝ) (hn : V3.dot n n = 1) :
    pointInDisk p c r n = true ↔
      |V3.dot (p - c) n| ≤ diskSlab ∧
      V3.normSq (p - c) - V3.dot (p - c) n * V3.dot (p - c) n ≤ r * r := by
  unfold pointInDisk
  simp only [diskSqrInPlane, diskDistToPlane, inPlane_sq _ _ hn, absS_real, Bool.and_eq_true,
    Bool.not_eq_true', decide_eq_false_iff_not, not_lt]

theorem pointInDisk_iff {A : Pose ℝ} (hA : Orthonormal A.R) {r : ℝ} (hr : 0 ≤ r) (p : V) :
    pointInDisk p A.t r A.R.col2 = true ↔ diskSlabSet A r diskSlab p := by
  unfold diskSlabSet
  rw [poseImage_iff hA]
  unfold diskSlabLocal pointInDisk
  rw [radial_le_iff hr, diskDist_eq, diskSqr_eq hA, absS_real]
  simp only [Bool.and_eq_true, Bool.not_eq_true', decide_eq_false_iff_not, not_lt]

/-- moving a local point along z moves its image along the third column -/
theorem apply_split (A : Pose ℝ) (q : V) :
    A.apply q = A.apply ⟨q.x, q.y, 0⟩ + q.z * A.R.col2 := by
  apply V3.ext' <;>
    simp only [Pose.apply, M3.mulVec, M3.col2, V3.dot_def, V3.add_x, V3.add_y, V3.add_z,
      V3.smul_x, V3.smul_y, V3.smul_z] <;> ring

/-! ### box and ellipsoid -/

theorem pointInBox_iff {A : Pose ℝ} (hA : Orthonormal A.R) (size : V) (p : V) :
    pointInBox p A size = true ↔ boxSet A size p := by
  unfold boxSet
  rw [poseImage_iff hA]
  unfold boxLocal pointInBox
  simp only [localPoint_eq, absS_real, half_eq, Bool.and_eq_true, decide_eq_true_eq]
  constructor
  · rintro ⟨⟨h1, h2⟩, h3⟩; exact ⟨by linarith, by linarith, by linarith⟩
  · rintro ⟨h1, h2, h3⟩; exact ⟨⟨by linarith, by linarith⟩, by linarith⟩

theorem pointInEllipsoid_iff {A : Pose ℝ} (hA : Orthonormal A.R) {radii : V}
    (hx : radii.x ≠ 0) (hy : radii.y ≠ 0) (hz : radii.z ≠ 0) (p : V) :
    ∃ b, pointInEllipsoid p A radii = .ok b ∧ (b = true ↔ ellipsoidSet A radii p) := by
  unfold ellipsoidSet
  rw [poseImage_iff hA]
  unfold pointInEllipsoid ellipsoidLocal
  simp only [isZero_false hx, isZero_false hy, isZero_false hz, Bool.or_self, Bool.false_eq_true,
    if_false, localPoint_eq]
  refine ⟨_, rfl, ?_⟩
  rw [decide_eq_true_iff]
  simp only [V3.dot_def, pow_two]

/-! ### cone -/

theorem coneDist_eq {A : Pose ℝ} (hA : Orthonormal A.R) (h : ℝ) (p : V) :
    coneDistToCenterPlane p A h = (A.applyInv p).z - h / 2 := by
  simp only [coneDistToCenterPlane]
  rw [sub_add_smul, dot_sub_smul, col2_unit hA, applyInv_z, half_eq]; ring

theorem coneSqr_eq {A : Pose ℝ} (hA : Orthonormal A.R) (h : ℝ) (p : V) :
    coneSqrInPlane p A h =
      (A.applyInv p).x * (A.applyInv p).x + (A.applyInv p).y * (A.applyInv p).y := by
  simp only [coneSqrInPlane]
  rw [sub_add_smul, inPlane_sq _ _ (col2_unit hA), dot_sub_smul, col2_unit hA, normSq_eq_dot,
    sub_smul_sq _ _ _ (col2_unit hA), radialSq_eq hA]
  ring

theorem coneRadius_eq {A : Pose ℝ} (hA : Orthonormal A.R) (r : ℝ) {h : ℝ} (hh : h ≠ 0) (p : V) :
    coneRadiusAt p A r h = r * (1 - (A.applyInv p).z / h) := by
  simp only [coneRadiusAt]
  rw [coneDist_eq hA, half_eq]
  field_simp
  ring

theorem pointInCone_iff {A : Pose ℝ} (hA : Orthonormal A.R) {r h : ℝ} (hr : 0 ≤ r) (hh : 0 < h)
    (p : V) : ∃ b, pointInCone p A r h = .ok b ∧ (b = true ↔ coneSet A r h p) := by
  unfold coneSet
  rw [poseImage_iff hA]
  unfold coneLocal pointInCone
  rw [coneDist_eq hA, absS_real, half_eq]
  by_cases hz : 1 / 2 * h < |(A.applyInv p).z - h / 2|
  · refine ⟨false, by simp only [hz, if_true], ?_⟩
    simp only [Bool.false_eq_true, false_iff, not_and]
    intro h0 h1
    exfalso
    have : |(A.applyInv p).z - h / 2| ≤ h / 2 := abs_le.mpr ⟨by linarith, by linarith⟩
    linarith
  · simp only [hz, if_false, isZero_false (ne_of_gt hh), Bool.false_eq_true]
    refine ⟨_, rfl, ?_⟩
    rw [coneRadius_eq hA r (ne_of_gt hh), coneSqr_eq hA]
    have hz' := abs_le.mp (not_lt.mp hz)
    have hz0 : 0 ≤ (A.applyInv p).z := by linarith [hz'.1]
    have hz1 : (A.applyInv p).z ≤ h := by linarith [hz'.2]
    have hrad : 0 ≤ r * (1 - (A.applyInv p).z / h) := by
      apply mul_nonneg hr
      have : (A.applyInv p).z / h ≤ 1 := (div_le_one hh).mpr hz1
      linarith
    rw [radial_le_iff hrad]
    simp only [Bool.not_eq_true', decide_eq_false_iff_not, not_lt]
    exact ⟨fun hle => ⟨hz0, hz1, hle⟩, fun hle => hle.2.2⟩

/-! ### capsule -/

theorem capsuleDir_eq (A : Pose ℝ) (h : ℝ) : capsuleDir A h = h * A.R.col2 := by
  unfold capsuleDir capsuleEnd capsuleStart
  apply V3.ext' <;> simp [half_eq] <;> ring

theorem capsuleDen_eq {A : Pose ℝ} (hA : Orthonormal A.R) (h : ℝ) :
    V3.dot (capsuleDir A h) (capsuleDir A h) = h * h := by
  rw [capsuleDir_eq]
  have := col2_unit hA
  simp only [V3.dot_def, V3.smul_x, V3.smul_y, V3.smul_z] at *
  linear_combination (h * h) * this

theorem capsuleT_eq {A : Pose ℝ} (hA : Orthonormal A.R) {h : ℝ} (hh : h ≠ 0) (p : V) :
    capsuleT p A h = (A.applyInv p).z / h + 1 / 2 := by
  unfold capsuleT
  rw [capsuleDen_eq hA, capsuleDir_eq, applyInv_z]
  have hc := col2_unit hA
  have : V3.dot (p - capsuleStart A h) (h * A.R.col2) =
      h * V3.dot (p - A.t) A.R.col2 + h * h / 2 := by
    unfold capsuleStart
    simp only [V3.dot_def, V3.sub_x, V3.sub_y, V3.sub_z, V3.smul_x, V3.smul_y, V3.smul_z,
      half_eq] at *
    linear_combination (h * h / 2) * hc
  rw [this]
  field_simp

/-- the vector from the clamped closest point to `p` -/
theorem capsuleDiff_eq (A : Pose ℝ) (h t : ℝ) (p : V) :
    p - (capsuleStart A h + t * capsuleDir A h) = (p - A.t) - (t * h - h / 2) * A.R.col2 := by
  rw [capsuleDir_eq]
  unfold capsuleStart
  apply V3.ext' <;> simp [half_eq] <;> ring

/-- squared distance to the clamped closest point, in the shape frame -/
theorem capsuleSq_eq {A : Pose ℝ} (hA : Orthonormal A.R) (h t : ℝ) (p : V) :
    V3.dot (p - (capsuleStart A h + t * capsuleDir A h))
        (p - (capsuleStart A h + t * capsuleDir A h)) =
      (A.applyInv p).x * (A.applyInv p).x + (A.applyInv p).y * (A.applyInv p).y +
        ((A.applyInv p).z - (t * h - h / 2)) * ((A.applyInv p).z - (t * h - h / 2)) := by
  rw [capsuleDiff_eq, sub_smul_sq _ _ _ (col2_unit hA), radialSq_eq hA, applyInv_z]
  ring

/-- clamping the axial coordinate to the segment gives the nearest axis point -/
theorem clamp_optimal {z h s : ℝ} (hh : 0 < h) (hs : |s| ≤ h / 2) :
    (z - (min (max (z / h + 1 / 2) 0) 1 * h - h / 2)) * (z - (min (max (z / h + 1 / 2) 0) 1 * h - h / 2))
      ≤ (z - s) * (z - s) := by
  obtain ⟨hs1, hs2⟩ := abs_le.mp hs
  rcases le_total (z / h + 1 / 2) 0 with h0 | h0
  · rw [max_eq_right h0, min_eq_left (by norm_num : (0 : ℝ) ≤ 1)]
    have hz : z ≤ -(h / 2) := by
      have : z / h ≤ -(1 / 2) := by linarith
      have := (div_le_iff₀ hh).mp this
      linarith
    nlinarith
  · rw [max_eq_left h0]
    rcases le_total (z / h + 1 / 2) 1 with h1 | h1
    · rw [min_eq_left h1]
      have : (z / h + 1 / 2) * h - h / 2 = z := by field_simp; ring
      rw [this]; nlinarith [mul_self_nonneg (z - s)]
    · rw [min_eq_right h1]
      have hz : h / 2 ≤ z := by
        have : 1 / 2 ≤ z / h := by linarith
        have := (le_div_iff₀ hh).mp this
        linarith
      nlinarith

theorem clamp_mem {z h : ℝ} (hh : 0 < h) :
    |min (max (z / h + 1 / 2) 0) 1 * h - h / 2| ≤ h / 2 := by
  have h0 : 0 ≤ min (max (z / h + 1 / 2) 0) 1 := le_min (le_max_right _ _) (by norm_num)
  have h1 : min (max (z / h + 1 / 2) 0) 1 ≤ 1 := min_le_right _ _
  rw [abs_le]
  constructor <;> nlinarith

theorem pointInCapsule_iff {A : Pose ℝ} (hA : Orthonormal A.R) {r h : ℝ} (hr : 0 ≤ r) (hh : 0 < h)
    (p : V) : ∃ b, pointInCapsule p A r h = .ok b ∧ (b = true ↔ capsuleSet A r h p) := by
  unfold capsuleSet
  rw [poseImage_iff hA]
  unfold capsuleLocal pointInCapsule
  have hden : V3.dot (capsuleDir A h) (capsuleDir A h) ≠ 0 := by
    rw [capsuleDen_eq hA]; exact mul_ne_zero (ne_of_gt hh) (ne_of_gt hh)
  simp only [isZero_false hden, Bool.false_eq_true, if_false]
  refine ⟨_, rfl, ?_⟩
  rw [capsuleSq_eq hA, capsuleT_eq hA (ne_of_gt hh)]
  simp only [decide_eq_true_eq]
  set q := A.applyInv p with hq
  have key : ∀ s : ℝ, V3.normSq (q - ⟨0, 0, s⟩) = q.x * q.x + q.y * q.y + (q.z - s) * (q.z - s) := by
    intro s; simp only [V3.normSq_def, V3.sub_x, V3.sub_y, V3.sub_z]; ring
  constructor
  · intro hle
    refine ⟨_, clamp_mem (z := q.z) hh, ?_⟩
    rw [norm_le_iff hr, key]; exact hle
  · rintro ⟨s, hs, hle⟩
    rw [norm_le_iff hr, key] at hle
    have := clamp_optimal (z := q.z) hh hs
    linarith

/-! ### convex mesh -/

theorem pointInFaces_iff_local (fs : List (Face ℝ)) (A : Pose ℝ) (p : V) :
    pointInFaces fs A p = true ↔ facesLocal fs (A.applyInv p) := by
  unfold pointInFaces facesLocal
  simp only [localPoint_eq, Bool.not_eq_true', List.any_eq_false, decide_eq_true_eq, not_lt,
    faceProj]

theorem pointInFaces_iff {A : Pose ℝ} (hA : Orthonormal A.R) (fs : List (Face ℝ)) (p : V) :
    pointInFaces fs A p = true ↔ facesSet A fs p := by
  unfold facesSet
  rw [poseImage_iff hA, pointInFaces_iff_local]

/-- a linear functional bounded by `k` on every vertex is bounded by `(Σ w) k` on a
non-negative combination -/
theorem combo_dot_le (n : V) (k : ℝ) : ∀ (w : List ℝ) (vs : List V), w.length = vs.length →
    (∀ a ∈ w, 0 ≤ a) → (∀ v ∈ vs, V3.dot n v ≤ k) → V3.dot n (combo w vs) ≤ w.sum * k
  | [], [], _, _, _ => by simp [combo, V3.dot_def]
  | [], _ :: _, hl, _, _ => by simp at hl
  | _ :: _, [], hl, _, _ => by simp at hl
  | a :: w, v :: vs, hl, hw, hv => by
    have ih := combo_dot_le n k w vs (by simpa using hl) (fun x hx => hw x (by simp [hx]))
      (fun x hx => hv x (by simp [hx]))
    have ha : 0 ≤ a := hw a (by simp)
    have hvk : V3.dot n v ≤ k := hv v (by simp)
    have hsplit : V3.dot n (combo (a :: w) (v :: vs)) = a * V3.dot n v + V3.dot n (combo w vs) := by
      simp only [combo, V3.dot_def, V3.add_x, V3.add_y, V3.add_z, V3.smul_x, V3.smul_y, V3.smul_z]
      ring
    rw [hsplit, List.sum_cons]
    nlinarith [mul_le_mul_of_nonneg_left hvk ha]

/-- if every vertex satisfies every face inequality, so does every point of the hull -/
theorem hull_subset_faces (fs : List (Face ℝ)) (vs : List V)
    (hv : ∀ v ∈ vs, facesLocal fs v) (q : V) (hq : hullLocal vs q) : facesLocal fs q := by
  obtain ⟨w, hl, hw, hsum, rfl⟩ := hq
  intro f hf
  rw [dot_sub_right]
  have := combo_dot_le (faceNormal f) (V3.dot (faceNormal f) (faceCenter f)) w vs hl hw
    (fun v hvm => by
      have := hv v hvm f hf
      rw [dot_sub_right] at this
      linarith)
  rw [hsum] at this
  linarith

/-- generic gather lemma -/
theorem mapM_ok {β γ : Type} (f : β → Except Err γ) :
    ∀ l : List β, (∀ x ∈ l, ∃ y, f x = .ok y) →
      ∃ ys, l.mapM f = .ok ys ∧ List.Forall₂ (fun x y => f x = .ok y) l ys
  | [], _ => ⟨[], by simp [pure, Except.pure], List.Forall₂.nil⟩
  | x :: l, h => by
    obtain ⟨y, hy⟩ := h x (by simp)
    obtain ⟨ys, hys, hall⟩ := mapM_ok f l (fun z hz => h z (by simp [hz]))
    refine ⟨y :: ys, ?_, List.Forall₂.cons hy hall⟩
    simp [List.mapM_cons, hy, hys, bind, Except.bind, pure, Except.pure]

/-- a non-negative in-range index reads that vertex -/
theorem getVertex_ok (vs : Array V) (i : Nat) (hi : i < vs.size) :
    getVertex vs (i : Int) = .ok vs[i] := by
  unfold getVertex
  simp [hi]

end ContainTest
end D3
