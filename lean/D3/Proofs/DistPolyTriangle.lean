/-
`point_to_triangle` (Ericson's Voronoi regions): every region returns a point of the triangle
that satisfies the variational inequality at the three vertices, all divisions are by non-zero
numbers in their branches, and the six vertex/edge tests cover everything outside the face
region (so that the barycentric coordinates used in the last branch are non-negative).

Scalar layer: everything is expressed in the Gram numbers
`A = |ab|²`, `B = ⟨ab, ac⟩`, `C = |ac|²`, `d1 = ⟨ab, ap⟩`, `d2 = ⟨ac, ap⟩`
(`d3 = d1 − A`, `d4 = d2 − B`, `d5 = d1 − B`, `d6 = d2 − C`).
-/
import D3.Proofs.DistPolySets

namespace D3
namespace DistPoly

/-! ### scalar layer: the six tests cover the complement of the face region -/

section cover
variable {A B C d1 d2 : ℝ}

/-- the six region tests of `point_to_triangle` in Gram form (`vc`/`vb`/`va` spelled out) -/
def Fires (A B C d1 d2 : ℝ) : Prop :=
    (d1 ≤ 0 ∧ d2 ≤ 0) ∨ (0 ≤ d1 - A ∧ d2 - B ≤ d1 - A) ∨
    (d1 * (d2 - B) - (d1 - A) * d2 ≤ 0 ∧ 0 ≤ d1 ∧ d1 - A ≤ 0) ∨
    (0 ≤ d2 - C ∧ d1 - B ≤ d2 - C) ∨
    ((d1 - B) * d2 - d1 * (d2 - C) ≤ 0 ∧ 0 ≤ d2 ∧ d2 - C ≤ 0) ∨
    ((d1 - A) * (d2 - C) - (d1 - B) * (d2 - B) ≤ 0 ∧ 0 ≤ (d2 - B) - (d1 - A) ∧
      0 ≤ (d1 - B) - (d2 - C))

theorem edge_pos (hA : 0 < A) (hD : 0 < A * C - B * B) : 0 < A - 2 * B + C := by
  have h : 0 < A * (A - 2 * B + C) := by nlinarith [sq_nonneg (A - B)]
  by_contra h'
  rw [not_lt] at h'
  have := mul_nonneg hA.le (neg_nonneg.mpr h')
  linarith

/-- if the barycentric coordinate of `C` is negative one of the six tests fires -/
theorem cover_vc (hA : 0 < A) (_hC : 0 < C) (hD : 0 < A * C - B * B)
    (ht : d1 * (d2 - B) - (d1 - A) * d2 < 0) : Fires A B C d1 d2 := by
  unfold Fires
  have hvc : A * d2 - B * d1 < 0 := by nlinarith
  have hE : 0 < A - 2 * B + C := edge_pos hA hD
  rcases lt_or_ge d1 0 with h1 | h1
  · -- before A along AB
    rcases le_or_gt d2 0 with h2 | h2
    · exact Or.inl ⟨h1.le, h2⟩
    · -- d1 < 0 < d2, vc < 0  ⇒  B < 0 and vb < 0
      have hB : B < 0 := by
        by_contra hB
        rw [not_lt] at hB
        nlinarith [mul_nonneg hB (neg_nonneg.mpr h1.le), mul_pos hA h2]
      have hvb : C * d1 - B * d2 < 0 := by
        have h3 : 0 < B * (A * d2 - B * d1) := mul_pos_of_neg_of_neg hB hvc
        have h4 : (A * C - B * B) * d1 < 0 := mul_neg_of_pos_of_neg hD h1
        have h5 : A * (C * d1 - B * d2) < 0 := by nlinarith
        by_contra h6
        rw [not_lt] at h6
        nlinarith [mul_nonneg hA.le h6]
      rcases le_or_gt (d2 - C) 0 with h6 | h6
      · right; right; right; right; left
        exact ⟨by nlinarith, h2.le, h6⟩
      · right; right; right; left
        refine ⟨h6.le, ?_⟩
        -- (−B)·(d5 − d6) = vc − (A − B)·d6 − D < 0
        have hid : (-B) * ((d1 - B) - (d2 - C)) =
            (A * d2 - B * d1) - (A - B) * (d2 - C) - (A * C - B * B) := by ring
        have h7 : 0 < A * (d2 - C) := mul_pos hA h6
        have h8 : 0 < (-B) * (d2 - C) := mul_pos (neg_pos.mpr hB) h6
        have h9 : (-B) * ((d1 - B) - (d2 - C)) < 0 := by rw [hid]; nlinarith
        by_contra h10
        rw [not_le] at h10
        have : 0 ≤ (-B) * ((d1 - B) - (d2 - C)) :=
          mul_nonneg (neg_nonneg.mpr hB.le) (by linarith)
        linarith
  · rcases le_or_gt (d1 - A) 0 with h3 | h3
    · exact Or.inr (Or.inr (Or.inl ⟨by nlinarith, h1, h3⟩))
    · -- beyond B along AB
      rcases le_or_gt (d2 - B) (d1 - A) with h4 | h4
      · exact Or.inr (Or.inl ⟨h3.le, h4⟩)
      · -- x = d3 > 0, y = d4 − d3 > 0, vc = A y + (A − B) x < 0 ⇒ A < B and va < 0
        have hy : 0 < (d2 - B) - (d1 - A) := by linarith
        have hidc : A * d2 - B * d1 = A * ((d2 - B) - (d1 - A)) + (A - B) * (d1 - A) := by ring
        have hk : A - B < 0 := by
          by_contra hk
          rw [not_lt] at hk
          have := mul_nonneg hk h3.le
          have := mul_pos hA hy
          linarith
        have hida : A * ((d1 - A) * (d2 - C) - (d1 - B) * (d2 - B)) =
            -((A * C - B * B) * (d1 - A)) - (A - B) * (A * d2 - B * d1) := by ring
        have hva : (d1 - A) * (d2 - C) - (d1 - B) * (d2 - B) < 0 := by
          have h5 : 0 < (A * C - B * B) * (d1 - A) := mul_pos hD h3
          have h6 : 0 < (A - B) * (A * d2 - B * d1) := mul_pos_of_neg_of_neg hk hvc
          have h7 : A * ((d1 - A) * (d2 - C) - (d1 - B) * (d2 - B)) < 0 := by rw [hida]; linarith
          by_contra h8
          rw [not_lt] at h8
          have := mul_nonneg hA.le h8
          linarith
        rcases le_or_gt 0 ((d1 - B) - (d2 - C)) with h5 | h5
        · right; right; right; right; right
          exact ⟨hva.le, hy.le, h5⟩
        · right; right; right; left
          refine ⟨?_, by linarith⟩
          -- E·d6 = −va − (C − B)(d5 − d6) > 0
          have hCB : 0 < C - B := by linarith
          have hid6 : (A - 2 * B + C) * (d2 - C) =
              -((d1 - A) * (d2 - C) - (d1 - B) * (d2 - B)) - (C - B) * ((d1 - B) - (d2 - C)) := by
            ring
          have h6 : 0 < (C - B) * (-((d1 - B) - (d2 - C))) := mul_pos hCB (by linarith)
          have h7 : 0 < (A - 2 * B + C) * (d2 - C) := by rw [hid6]; linarith
          by_contra h8
          rw [not_le] at h8
          have := mul_pos hE (neg_pos.mpr h8)
          linarith

/-- same for the coordinate of `B` (the statement is symmetric under `b ↔ c`) -/
theorem cover_vb (hA : 0 < A) (hC : 0 < C) (hD : 0 < A * C - B * B)
    (ht : (d1 - B) * d2 - d1 * (d2 - C) < 0) : Fires A B C d1 d2 := by
  have h := cover_vc (A := C) (B := B) (C := A) (d1 := d2) (d2 := d1) hC hA (by linarith)
    (by linarith)
  unfold Fires at h ⊢
  rcases h with h | h | h | h | h | h
  · exact Or.inl ⟨h.2, h.1⟩
  · exact Or.inr (Or.inr (Or.inr (Or.inl h)))
  · exact Or.inr (Or.inr (Or.inr (Or.inr (Or.inl ⟨by linarith [h.1], h.2.1, h.2.2⟩))))
  · exact Or.inr (Or.inl h)
  · exact Or.inr (Or.inr (Or.inl ⟨by linarith [h.1], h.2.1, h.2.2⟩))
  · exact Or.inr (Or.inr (Or.inr (Or.inr (Or.inr ⟨by linarith [h.1], h.2.2, h.2.1⟩))))

/-- same for the coordinate of `A` (cyclic relabelling `(a, b, c) ↦ (b, c, a)`) -/
theorem cover_va (hA : 0 < A) (_hC : 0 < C) (hD : 0 < A * C - B * B)
    (ht : (d1 - A) * (d2 - C) - (d1 - B) * (d2 - B) < 0) : Fires A B C d1 d2 := by
  have hE : 0 < A - 2 * B + C := edge_pos hA hD
  have h := cover_vc (A := A - 2 * B + C) (B := A - B) (C := A)
    (d1 := (d2 - B) - (d1 - A)) (d2 := A - d1) hE hA (by nlinarith) (by nlinarith)
  unfold Fires at h ⊢
  rcases h with h | h | h | h | h | h
  · -- vertex B
    exact Or.inr (Or.inl ⟨by linarith [h.2], by linarith [h.1]⟩)
  · -- vertex C
    exact Or.inr (Or.inr (Or.inr (Or.inl ⟨by linarith [h.1], by linarith [h.2]⟩)))
  · -- edge BC
    exact Or.inr (Or.inr (Or.inr (Or.inr (Or.inr ⟨by nlinarith [h.1], by linarith [h.2.1],
      by linarith [h.2.2]⟩))))
  · -- vertex A
    exact Or.inl ⟨by linarith [h.1], by linarith [h.2]⟩
  · -- edge AB
    exact Or.inr (Or.inr (Or.inl ⟨by nlinarith [h.1], by linarith [h.2.2], by linarith [h.2.1]⟩))
  · -- edge AC
    exact Or.inr (Or.inr (Or.inr (Or.inr (Or.inl ⟨by nlinarith [h.1], by linarith [h.2.2],
      by linarith [h.2.1]⟩))))

/-- **completeness of the Voronoi case analysis**: when none of the six tests fires the three
(unnormalised) barycentric coordinates are non-negative -/
theorem cover (hA : 0 < A) (hC : 0 < C) (hD : 0 < A * C - B * B) (hn : ¬ Fires A B C d1 d2) :
    0 ≤ (d1 - A) * (d2 - C) - (d1 - B) * (d2 - B) ∧ 0 ≤ (d1 - B) * d2 - d1 * (d2 - C) ∧
    0 ≤ d1 * (d2 - B) - (d1 - A) * d2 := by
  refine ⟨?_, ?_, ?_⟩
  · by_contra h; exact hn (cover_va hA hC hD (not_le.mp h))
  · by_contra h; exact hn (cover_vb hA hC hD (not_le.mp h))
  · by_contra h; exact hn (cover_vc hA hC hD (not_le.mp h))

end cover

/-! ### vector layer -/

/-- what C10 + C11 ask of a point-to-triangle result -/
def GoodTri (p a b c : V) (r : PtRes ℝ) : Prop :=
  triangleSet a b c r.cp ∧ 0 ≤ r.dist ∧ r.dist * r.dist = V3.normSq (p - r.cp) ∧
  ∀ x, triangleSet a b c x → r.dist * r.dist ≤ V3.normSq (p - x)

/-- a point `a + v·ab + w·ac` with admissible `(v, w)` that satisfies the variational
inequality at the three vertices (written in Gram numbers) is a good result -/
theorem tri_branch (p a b c cp : V) (v w : ℝ) (br : Nat)
    (hcp : cp = a + v * (b - a) + w * (c - a)) (hv : 0 ≤ v) (hw : 0 ≤ w) (hvw : v + w ≤ 1)
    (Va : -v * (V3.dot (b - a) (p - a) - v * V3.dot (b - a) (b - a) - w * V3.dot (b - a) (c - a))
        - w * (V3.dot (c - a) (p - a) - v * V3.dot (b - a) (c - a) - w * V3.dot (c - a) (c - a)) ≤ 0)
    (Vb : (1 - v) * (V3.dot (b - a) (p - a) - v * V3.dot (b - a) (b - a) - w * V3.dot (b - a) (c - a))
        - w * (V3.dot (c - a) (p - a) - v * V3.dot (b - a) (c - a) - w * V3.dot (c - a) (c - a)) ≤ 0)
    (Vc : -v * (V3.dot (b - a) (p - a) - v * V3.dot (b - a) (b - a) - w * V3.dot (b - a) (c - a))
        + (1 - w) * (V3.dot (c - a) (p - a) - v * V3.dot (b - a) (c - a) - w * V3.dot (c - a) (c - a)) ≤ 0) :
    GoodTri p a b c (mkRes br p cp) := by
  have hmem : triangleSet a b c cp := by
    refine ⟨1 - v - w, v, w, by linarith, hv, hw, by ring, ?_⟩
    rw [hcp]
    apply V3.ext' <;> simp <;> ring
  have ha : V3.dot (p - cp) (a - cp) ≤ 0 := by
    have : V3.dot (p - cp) (a - cp) =
        -v * (V3.dot (b - a) (p - a) - v * V3.dot (b - a) (b - a) - w * V3.dot (b - a) (c - a))
        - w * (V3.dot (c - a) (p - a) - v * V3.dot (b - a) (c - a) - w * V3.dot (c - a) (c - a)) := by
      rw [hcp]
      simp only [V3.dot_def, V3.sub_x, V3.sub_y, V3.sub_z, V3.add_x, V3.add_y, V3.add_z,
        V3.smul_x, V3.smul_y, V3.smul_z]
      ring
    rw [this]; exact Va
  have hb : V3.dot (p - cp) (b - cp) ≤ 0 := by
    have : V3.dot (p - cp) (b - cp) =
        (1 - v) * (V3.dot (b - a) (p - a) - v * V3.dot (b - a) (b - a) - w * V3.dot (b - a) (c - a))
        - w * (V3.dot (c - a) (p - a) - v * V3.dot (b - a) (c - a) - w * V3.dot (c - a) (c - a)) := by
      rw [hcp]
      simp only [V3.dot_def, V3.sub_x, V3.sub_y, V3.sub_z, V3.add_x, V3.add_y, V3.add_z,
        V3.smul_x, V3.smul_y, V3.smul_z]
      ring
    rw [this]; exact Vb
  have hc : V3.dot (p - cp) (c - cp) ≤ 0 := by
    have : V3.dot (p - cp) (c - cp) =
        -v * (V3.dot (b - a) (p - a) - v * V3.dot (b - a) (b - a) - w * V3.dot (b - a) (c - a))
        + (1 - w) * (V3.dot (c - a) (p - a) - v * V3.dot (b - a) (c - a) - w * V3.dot (c - a) (c - a)) := by
      rw [hcp]
      simp only [V3.dot_def, V3.sub_x, V3.sub_y, V3.sub_z, V3.add_x, V3.add_y, V3.add_z,
        V3.smul_x, V3.smul_y, V3.smul_z]
      ring
    rw [this]; exact Vc
  obtain ⟨h0, h1⟩ := mkRes_dist br p cp
  refine ⟨hmem, h0, h1, fun x hx => ?_⟩
  rw [h1]
  exact vi_min p cp x (vi_triangle p cp a b c ha hb hc x hx)

theorem bary_ext (a b c cp : V) (v w : ℝ)
    (hx : cp.x = a.x + v * (b.x - a.x) + w * (c.x - a.x))
    (hy : cp.y = a.y + v * (b.y - a.y) + w * (c.y - a.y))
    (hz : cp.z = a.z + v * (b.z - a.z) + w * (c.z - a.z)) :
    cp = a + v * (b - a) + w * (c - a) := by
  apply V3.ext' <;> simp only [V3.add_x, V3.add_y, V3.add_z, V3.smul_x, V3.smul_y, V3.smul_z,
    V3.sub_x, V3.sub_y, V3.sub_z] <;> assumption

/-- `tri_branch` with the Gram numbers named -/
theorem tri_branch' (p a b c cp : V) (v w : ℝ) (br : Nat) {A B C d1 d2 : ℝ}
    (hA : V3.dot (b - a) (b - a) = A) (hB : V3.dot (b - a) (c - a) = B)
    (hC : V3.dot (c - a) (c - a) = C) (h1 : V3.dot (b - a) (p - a) = d1)
    (h2 : V3.dot (c - a) (p - a) = d2)
    (hcp : cp = a + v * (b - a) + w * (c - a)) (hv : 0 ≤ v) (hw : 0 ≤ w) (hvw : v + w ≤ 1)
    (Va : -v * (d1 - v * A - w * B) - w * (d2 - v * B - w * C) ≤ 0)
    (Vb : (1 - v) * (d1 - v * A - w * B) - w * (d2 - v * B - w * C) ≤ 0)
    (Vc : -v * (d1 - v * A - w * B) + (1 - w) * (d2 - v * B - w * C) ≤ 0) :
    GoodTri p a b c (mkRes br p cp) := by
  subst hA hB hC h1 h2
  exact tri_branch p a b c cp v w br hcp hv hw hvw Va Vb Vc

/-! ### Gram identities -/

theorem dot_e3 (p a b : V) :
    V3.dot (b - a) (p - b) = V3.dot (b - a) (p - a) - V3.dot (b - a) (b - a) := by
  simp only [V3.dot_def, V3.sub_x, V3.sub_y, V3.sub_z]; ring
theorem dot_e4 (p a b c : V) :
    V3.dot (c - a) (p - b) = V3.dot (c - a) (p - a) - V3.dot (b - a) (c - a) := by
  simp only [V3.dot_def, V3.sub_x, V3.sub_y, V3.sub_z]; ring
theorem dot_e5 (p a b c : V) :
    V3.dot (b - a) (p - c) = V3.dot (b - a) (p - a) - V3.dot (b - a) (c - a) := by
  simp only [V3.dot_def, V3.sub_x, V3.sub_y, V3.sub_z]; ring
theorem dot_e6 (p a c : V) :
    V3.dot (c - a) (p - c) = V3.dot (c - a) (p - a) - V3.dot (c - a) (c - a) := by
  simp only [V3.dot_def, V3.sub_x, V3.sub_y, V3.sub_z]; ring
/-- Lagrange: `|ab × ac|² = |ab|²|ac|² − ⟨ab, ac⟩²` -/
theorem normSq_cross (u v : V) :
    V3.normSq (V3.cross u v) = V3.dot u u * V3.dot v v - V3.dot u v * V3.dot u v := by
  simp only [V3.normSq_def, V3.dot_def, V3.cross]; ring

theorem gram_pos {A B C : ℝ} (hA0 : 0 ≤ A) (hC0 : 0 ≤ C) (hD : 0 < A * C - B * B) :
    0 < A ∧ 0 < C := by
  constructor
  · by_contra h
    have : A = 0 := le_antisymm (not_lt.mp h) hA0
    subst this
    nlinarith [mul_self_nonneg B]
  · by_contra h
    have : C = 0 := le_antisymm (not_lt.mp h) hC0
    subst this
    nlinarith [mul_self_nonneg B]

/-! ### scalar layer: variational inequality per region -/

section regions
variable {A B C d1 d2 : ℝ}

theorem sc_edgeAB (hA : 0 < A) (hvc : d1 * (d2 - B) - (d1 - A) * d2 ≤ 0) (h1 : 0 ≤ d1)
    (h3 : d1 - A ≤ 0) :
    0 ≤ d1 / A ∧ d1 / A ≤ 1 ∧ d1 - d1 / A * A = 0 ∧ d2 - d1 / A * B ≤ 0 := by
  have hv : d1 / A * A = d1 := div_mul_cancel₀ d1 hA.ne'
  refine ⟨div_nonneg h1 hA.le, by rw [div_le_one hA]; linarith, by linarith, ?_⟩
  have h : A * (d2 - d1 / A * B) ≤ 0 := by
    have : A * (d2 - d1 / A * B) = A * d2 - (d1 / A * A) * B := by ring
    rw [this, hv]; linarith
  by_contra h'
  rw [not_le] at h'
  have := mul_pos hA h'
  linarith

theorem sc_edgeBC (hE : 0 < A - 2 * B + C)
    (hva : (d1 - A) * (d2 - C) - (d1 - B) * (d2 - B) ≤ 0) (h43 : 0 ≤ (d2 - B) - (d1 - A))
    (h56 : 0 ≤ (d1 - B) - (d2 - C)) :
    let w := ((d2 - B) - (d1 - A)) / (A - 2 * B + C)
    0 ≤ w ∧ w ≤ 1 ∧ (d1 - (1 - w) * A - w * B = d2 - (1 - w) * B - w * C) ∧
      0 ≤ d1 - (1 - w) * A - w * B := by
  intro w
  have hw : w * (A - 2 * B + C) = (d2 - B) - (d1 - A) := div_mul_cancel₀ _ hE.ne'
  have hg : d1 - (1 - w) * A - w * B = d2 - (1 - w) * B - w * C := by linarith
  refine ⟨div_nonneg h43 hE.le, by rw [div_le_one hE]; linarith, hg, ?_⟩
  have hEg : (A - 2 * B + C) * (d1 - (1 - w) * A - w * B) =
      -((d1 - A) * (d2 - C) - (d1 - B) * (d2 - B)) := by
    have : (A - 2 * B + C) * (d1 - (1 - w) * A - w * B) =
        (A - 2 * B + C) * (d1 - A) + (w * (A - 2 * B + C)) * (A - B) := by ring
    rw [this, hw]; ring
  by_contra h
  rw [not_le] at h
  have := mul_pos hE (neg_pos.mpr h)
  linarith

theorem sc_face (hD : 0 < A * C - B * B)
    (hva : 0 ≤ (d1 - A) * (d2 - C) - (d1 - B) * (d2 - B))
    (hvb : 0 ≤ (d1 - B) * d2 - d1 * (d2 - C)) (hvc : 0 ≤ d1 * (d2 - B) - (d1 - A) * d2) :
    let k := 1 / (A * C - B * B)
    let v := ((d1 - B) * d2 - d1 * (d2 - C)) * k
    let w := (d1 * (d2 - B) - (d1 - A) * d2) * k
    0 ≤ v ∧ 0 ≤ w ∧ v + w ≤ 1 ∧ d1 - v * A - w * B = 0 ∧ d2 - v * B - w * C = 0 := by
  intro k v w
  have hk0 : 0 < k := by positivity
  have hinv : k * (A * C - B * B) = 1 := by
    exact one_div_mul_cancel hD.ne'
  refine ⟨mul_nonneg hvb hk0.le, mul_nonneg hvc hk0.le, ?_, ?_, ?_⟩
  · have : v + w = 1 - ((d1 - A) * (d2 - C) - (d1 - B) * (d2 - B)) * k := by
      have : v + w + ((d1 - A) * (d2 - C) - (d1 - B) * (d2 - B)) * k = k * (A * C - B * B) := by
        show ((d1 - B) * d2 - d1 * (d2 - C)) * k + (d1 * (d2 - B) - (d1 - A) * d2) * k +
          ((d1 - A) * (d2 - C) - (d1 - B) * (d2 - B)) * k = k * (A * C - B * B)
        ring
      linarith
    rw [this]
    have := mul_nonneg hva hk0.le
    linarith
  · have : d1 - v * A - w * B = d1 - d1 * (k * (A * C - B * B)) := by
      show d1 - ((d1 - B) * d2 - d1 * (d2 - C)) * k * A - (d1 * (d2 - B) - (d1 - A) * d2) * k * B =
        d1 - d1 * (k * (A * C - B * B))
      ring
    rw [this, hinv]; ring
  · have : d2 - v * B - w * C = d2 - d2 * (k * (A * C - B * B)) := by
      show d2 - ((d1 - B) * d2 - d1 * (d2 - C)) * k * B - (d1 * (d2 - B) - (d1 - A) * d2) * k * C =
        d2 - d2 * (k * (A * C - B * B))
      ring
    rw [this, hinv]; ring

end regions

/-! ### vector layer, one lemma per region -/

section vregions
variable (p a b c : V)

theorem tri_vertexA (h : V3.dot (b - a) (p - a) ≤ 0 ∧ V3.dot (c - a) (p - a) ≤ 0) :
    GoodTri p a b c (mkRes 0 p a) := by
  refine tri_branch p a b c a 0 0 0 (bary_ext _ _ _ _ _ _ (by ring) (by ring) (by ring))
    le_rfl le_rfl (by norm_num) ?_ ?_ ?_ <;> linarith [h.1, h.2]

theorem tri_vertexB (h : 0 ≤ V3.dot (b - a) (p - b) ∧ V3.dot (c - a) (p - b) ≤ V3.dot (b - a) (p - b)) :
    GoodTri p a b c (mkRes 1 p b) := by
  rw [dot_e3 p a b, dot_e4 p a b c] at h
  refine tri_branch p a b c b 1 0 1 (bary_ext _ _ _ _ _ _ (by ring) (by ring) (by ring))
    (by norm_num) le_rfl (by norm_num) ?_ ?_ ?_ <;> linarith [h.1, h.2]

theorem tri_vertexC (h : 0 ≤ V3.dot (c - a) (p - c) ∧ V3.dot (b - a) (p - c) ≤ V3.dot (c - a) (p - c)) :
    GoodTri p a b c (mkRes 3 p c) := by
  rw [dot_e5 p a b c, dot_e6 p a c] at h
  refine tri_branch p a b c c 0 1 3 (bary_ext _ _ _ _ _ _ (by ring) (by ring) (by ring))
    le_rfl (by norm_num) (by norm_num) ?_ ?_ ?_ <;> linarith [h.1, h.2]

theorem tri_edgeAB (hA : 0 < V3.dot (b - a) (b - a))
    (h : (V3.dot (b - a) (p - a) * V3.dot (c - a) (p - b) -
        V3.dot (b - a) (p - b) * V3.dot (c - a) (p - a) ≤ 0 ∧ 0 ≤ V3.dot (b - a) (p - a)) ∧
        V3.dot (b - a) (p - b) ≤ 0) :
    V3.dot (b - a) (p - a) - V3.dot (b - a) (p - b) ≠ 0 ∧
    GoodTri p a b c (mkRes 2 p (a + (V3.dot (b - a) (p - a) /
      (V3.dot (b - a) (p - a) - V3.dot (b - a) (p - b))) * (b - a))) := by
  rw [dot_e3 p a b, dot_e4 p a b c] at h
  rw [dot_e3 p a b]
  have hden : V3.dot (b - a) (p - a) - (V3.dot (b - a) (p - a) - V3.dot (b - a) (b - a)) =
      V3.dot (b - a) (b - a) := by ring
  rw [hden]
  refine ⟨hA.ne', ?_⟩
  obtain ⟨hv0, hv1, hg1, hg2⟩ := sc_edgeAB hA h.1.1 h.1.2 h.2
  refine tri_branch p a b c _ _ 0 2 (bary_ext _ _ _ _ _ _
    (by simp only [V3.add_x, V3.smul_x, V3.sub_x]; ring)
    (by simp only [V3.add_y, V3.smul_y, V3.sub_y]; ring)
    (by simp only [V3.add_z, V3.smul_z, V3.sub_z]; ring)) hv0 le_rfl (by linarith) ?_ ?_ ?_
  · simp only [zero_mul, sub_zero]; rw [hg1]; simp
  · simp only [zero_mul, sub_zero]; rw [hg1]; simp
  · simp only [zero_mul, sub_zero]; rw [hg1]; linarith

theorem tri_edgeAC (hC : 0 < V3.dot (c - a) (c - a))
    (h : (V3.dot (b - a) (p - c) * V3.dot (c - a) (p - a) -
        V3.dot (b - a) (p - a) * V3.dot (c - a) (p - c) ≤ 0 ∧ 0 ≤ V3.dot (c - a) (p - a)) ∧
        V3.dot (c - a) (p - c) ≤ 0) :
    V3.dot (c - a) (p - a) - V3.dot (c - a) (p - c) ≠ 0 ∧
    GoodTri p a b c (mkRes 4 p (a + (V3.dot (c - a) (p - a) /
      (V3.dot (c - a) (p - a) - V3.dot (c - a) (p - c))) * (c - a))) := by
  rw [dot_e5 p a b c, dot_e6 p a c] at h
  rw [dot_e6 p a c]
  have hden : V3.dot (c - a) (p - a) - (V3.dot (c - a) (p - a) - V3.dot (c - a) (c - a)) =
      V3.dot (c - a) (c - a) := by ring
  rw [hden]
  refine ⟨hC.ne', ?_⟩
  -- the edge-AB lemma with the roles of b and c (d1 ↔ d2, A ↔ C) exchanged
  obtain ⟨hw0, hw1, hg2, hg1⟩ := sc_edgeAB (A := V3.dot (c - a) (c - a)) (B := V3.dot (b - a) (c - a))
    (d1 := V3.dot (c - a) (p - a)) (d2 := V3.dot (b - a) (p - a))
    hC (by linarith [h.1.1]) h.1.2 h.2
  refine tri_branch p a b c _ 0 _ 4 (bary_ext _ _ _ _ _ _
    (by simp only [V3.add_x, V3.smul_x, V3.sub_x]; ring)
    (by simp only [V3.add_y, V3.smul_y, V3.sub_y]; ring)
    (by simp only [V3.add_z, V3.smul_z, V3.sub_z]; ring)) le_rfl hw0 (by linarith) ?_ ?_ ?_
  · simp only [zero_mul, sub_zero]; rw [hg2]; simp
  · simp only [zero_mul, sub_zero]; rw [hg2]; linarith
  · simp only [zero_mul, sub_zero]; rw [hg2]; simp

theorem tri_edgeBC
    (hE : 0 < V3.dot (b - a) (b - a) - 2 * V3.dot (b - a) (c - a) + V3.dot (c - a) (c - a))
    (h : (V3.dot (b - a) (p - b) * V3.dot (c - a) (p - c) -
        V3.dot (b - a) (p - c) * V3.dot (c - a) (p - b) ≤ 0 ∧
        0 ≤ V3.dot (c - a) (p - b) - V3.dot (b - a) (p - b)) ∧
        0 ≤ V3.dot (b - a) (p - c) - V3.dot (c - a) (p - c)) :
    (V3.dot (c - a) (p - b) - V3.dot (b - a) (p - b)) +
      (V3.dot (b - a) (p - c) - V3.dot (c - a) (p - c)) ≠ 0 ∧
    GoodTri p a b c (mkRes 5 p (b + ((V3.dot (c - a) (p - b) - V3.dot (b - a) (p - b)) /
      ((V3.dot (c - a) (p - b) - V3.dot (b - a) (p - b)) +
       (V3.dot (b - a) (p - c) - V3.dot (c - a) (p - c)))) * (c - b))) := by
  rw [dot_e3 p a b, dot_e4 p a b c, dot_e5 p a b c, dot_e6 p a c] at h
  rw [dot_e3 p a b, dot_e4 p a b c, dot_e5 p a b c, dot_e6 p a c]
  generalize hA : V3.dot (b - a) (b - a) = A at *
  generalize hB : V3.dot (b - a) (c - a) = B at *
  generalize hC : V3.dot (c - a) (c - a) = C at *
  generalize h1 : V3.dot (b - a) (p - a) = d1 at *
  generalize h2 : V3.dot (c - a) (p - a) = d2 at *
  have hden : d2 - B - (d1 - A) + (d1 - B - (d2 - C)) = A - 2 * B + C := by ring
  rw [hden]
  refine ⟨hE.ne', ?_⟩
  obtain ⟨hw0, hw1, hg, hg0⟩ := sc_edgeBC hE h.1.1 h.1.2 h.2
  refine tri_branch' p a b c _ (1 - (d2 - B - (d1 - A)) / (A - 2 * B + C))
    ((d2 - B - (d1 - A)) / (A - 2 * B + C)) 5 hA hB hC h1 h2 (bary_ext _ _ _ _ _ _
    (by simp only [V3.add_x, V3.smul_x, V3.sub_x]; ring)
    (by simp only [V3.add_y, V3.smul_y, V3.sub_y]; ring)
    (by simp only [V3.add_z, V3.smul_z, V3.sub_z]; ring)) (by linarith) hw0 (by linarith) ?_ ?_ ?_
  · rw [← hg]; nlinarith
  · rw [← hg]; nlinarith
  · rw [← hg]; nlinarith

theorem tri_face (hD : 0 < V3.normSq (V3.cross (b - a) (c - a)))
    (c0 : ¬ (V3.dot (b - a) (p - a) ≤ 0 ∧ V3.dot (c - a) (p - a) ≤ 0))
    (c1 : ¬ (0 ≤ V3.dot (b - a) (p - b) ∧ V3.dot (c - a) (p - b) ≤ V3.dot (b - a) (p - b)))
    (c2 : ¬ ((V3.dot (b - a) (p - a) * V3.dot (c - a) (p - b) -
        V3.dot (b - a) (p - b) * V3.dot (c - a) (p - a) ≤ 0 ∧ 0 ≤ V3.dot (b - a) (p - a)) ∧
        V3.dot (b - a) (p - b) ≤ 0))
    (c3 : ¬ (0 ≤ V3.dot (c - a) (p - c) ∧ V3.dot (b - a) (p - c) ≤ V3.dot (c - a) (p - c)))
    (c4 : ¬ ((V3.dot (b - a) (p - c) * V3.dot (c - a) (p - a) -
        V3.dot (b - a) (p - a) * V3.dot (c - a) (p - c) ≤ 0 ∧ 0 ≤ V3.dot (c - a) (p - a)) ∧
        V3.dot (c - a) (p - c) ≤ 0))
    (c5 : ¬ ((V3.dot (b - a) (p - b) * V3.dot (c - a) (p - c) -
        V3.dot (b - a) (p - c) * V3.dot (c - a) (p - b) ≤ 0 ∧
        0 ≤ V3.dot (c - a) (p - b) - V3.dot (b - a) (p - b)) ∧
        0 ≤ V3.dot (b - a) (p - c) - V3.dot (c - a) (p - c))) :
    (V3.dot (b - a) (p - b) * V3.dot (c - a) (p - c) - V3.dot (b - a) (p - c) * V3.dot (c - a) (p - b)) +
      (V3.dot (b - a) (p - c) * V3.dot (c - a) (p - a) - V3.dot (b - a) (p - a) * V3.dot (c - a) (p - c)) +
      (V3.dot (b - a) (p - a) * V3.dot (c - a) (p - b) - V3.dot (b - a) (p - b) * V3.dot (c - a) (p - a)) ≠ 0 ∧
    GoodTri p a b c (mkRes 6 p (a +
      ((V3.dot (b - a) (p - c) * V3.dot (c - a) (p - a) - V3.dot (b - a) (p - a) * V3.dot (c - a) (p - c)) *
        (1 / ((V3.dot (b - a) (p - b) * V3.dot (c - a) (p - c) - V3.dot (b - a) (p - c) * V3.dot (c - a) (p - b)) +
          (V3.dot (b - a) (p - c) * V3.dot (c - a) (p - a) - V3.dot (b - a) (p - a) * V3.dot (c - a) (p - c)) +
          (V3.dot (b - a) (p - a) * V3.dot (c - a) (p - b) - V3.dot (b - a) (p - b) * V3.dot (c - a) (p - a))))) * (b - a) +
      ((V3.dot (b - a) (p - a) * V3.dot (c - a) (p - b) - V3.dot (b - a) (p - b) * V3.dot (c - a) (p - a)) *
        (1 / ((V3.dot (b - a) (p - b) * V3.dot (c - a) (p - c) - V3.dot (b - a) (p - c) * V3.dot (c - a) (p - b)) +
          (V3.dot (b - a) (p - c) * V3.dot (c - a) (p - a) - V3.dot (b - a) (p - a) * V3.dot (c - a) (p - c)) +
          (V3.dot (b - a) (p - a) * V3.dot (c - a) (p - b) - V3.dot (b - a) (p - b) * V3.dot (c - a) (p - a))))) * (c - a))) := by
  rw [normSq_cross] at hD
  rw [dot_e3 p a b, dot_e4 p a b c] at c1 c2 c5
  rw [dot_e5 p a b c, dot_e6 p a c] at c3 c4 c5
  rw [dot_e3 p a b, dot_e4 p a b c, dot_e5 p a b c, dot_e6 p a c]
  have hA0 : 0 ≤ V3.dot (b - a) (b - a) := V3.normSq_nonneg _
  have hC0 : 0 ≤ V3.dot (c - a) (c - a) := V3.normSq_nonneg _
  generalize hA : V3.dot (b - a) (b - a) = A at *
  generalize hB : V3.dot (b - a) (c - a) = B at *
  generalize hC : V3.dot (c - a) (c - a) = C at *
  generalize h1 : V3.dot (b - a) (p - a) = d1 at *
  generalize h2 : V3.dot (c - a) (p - a) = d2 at *
  obtain ⟨hApos, hCpos⟩ := gram_pos hA0 hC0 hD
  have hsum : (d1 - A) * (d2 - C) - (d1 - B) * (d2 - B) + ((d1 - B) * d2 - d1 * (d2 - C)) +
      (d1 * (d2 - B) - (d1 - A) * d2) = A * C - B * B := by ring
  rw [hsum]
  refine ⟨hD.ne', ?_⟩
  have hnf : ¬ Fires A B C d1 d2 := by
    unfold Fires
    rintro (h | h | h | h | h | h)
    · exact c0 h
    · exact c1 h
    · exact c2 ⟨⟨h.1, h.2.1⟩, h.2.2⟩
    · exact c3 h
    · exact c4 ⟨⟨h.1, h.2.1⟩, h.2.2⟩
    · exact c5 ⟨⟨h.1, h.2.1⟩, h.2.2⟩
  obtain ⟨hva, hvb, hvc⟩ := cover hApos hCpos hD hnf
  obtain ⟨hv0, hw0, hvw, hg1, hg2⟩ := sc_face hD hva hvb hvc
  refine tri_branch' p a b c _ _ _ 6 hA hB hC h1 h2 rfl hv0 hw0 hvw ?_ ?_ ?_ <;>
    rw [hg1, hg2] <;> simp

end vregions


/-- **`point_to_triangle`, all seven regions**: on a triangle of non-zero area the function
returns `.ok`, the point lies in the triangle, `d ≥ 0`, `d² = |p − cp|²`, and no point of the
triangle is closer. -/
theorem pointToTriangle_spec (p a b c : V) (hnd : 0 < V3.normSq (V3.cross (b - a) (c - a))) :
    ∃ r, pointToTriangle p a b c = .ok r ∧ GoodTri p a b c r := by
  have hD := hnd
  rw [normSq_cross] at hD
  obtain ⟨hApos, hCpos⟩ := gram_pos (V3.normSq_nonneg (b - a)) (V3.normSq_nonneg (c - a)) hD
  have hE := edge_pos hApos hD
  unfold pointToTriangle
  dsimp only
  simp only [isZero_real]
  split_ifs with c0 c1 c2 z2 c3 c4 z4 c5 z5 z6
  · exact ⟨_, rfl, tri_vertexA p a b c c0⟩
  · exact ⟨_, rfl, tri_vertexB p a b c c1⟩
  · exact absurd z2 (tri_edgeAB p a b c hApos c2).1
  · exact ⟨_, rfl, (tri_edgeAB p a b c hApos c2).2⟩
  · exact ⟨_, rfl, tri_vertexC p a b c c3⟩
  · exact absurd z4 (tri_edgeAC p a b c hCpos c4).1
  · exact ⟨_, rfl, (tri_edgeAC p a b c hCpos c4).2⟩
  · exact absurd z5 (tri_edgeBC p a b c hE c5).1
  · exact ⟨_, rfl, (tri_edgeBC p a b c hE c5).2⟩
  · exact absurd z6 (tri_face p a b c hnd c0 c1 c2 c3 c4 c5).1
  · exact ⟨_, rfl, (tri_face p a b c hnd c0 c1 c2 c3 c4 c5).2⟩

end DistPoly
end D3
