/-
Helpers for the converse direction of the convex-mesh containment predicate (C13):
* the accepted set is an intersection of half-spaces, hence convex (`applyInv_lerp`,
  `facesLocal_lerp`);
* for a tetrahedron with outward faces the intersection of the four face half-spaces is
  contained in the hull of the four vertices (`tet_faces_subset_hull`): the barycentric
  coordinate of a vertex is `−faceProj(opposite face)/det`, a non-negative multiple of the
  slack of the opposite face.
ℝ only.
-/
import D3.Proofs.ContainTestExact

namespace D3
namespace ContainTest

/-- the pull-back to the mesh frame is affine (no orthonormality needed) -/
theorem applyInv_lerp (A : Pose ℝ) (p q : V) (s : ℝ) :
    A.applyInv ((1 - s) * p + s * q) = (1 - s) * A.applyInv p + s * A.applyInv q := by
  unfold Pose.applyInv M3.tmulVec
  apply V3.ext' <;>
    simp only [V3.add_x, V3.add_y, V3.add_z, V3.smul_x, V3.smul_y, V3.smul_z, M3.col0, M3.col1,
      M3.col2, V3.dot_def, V3.sub_x, V3.sub_y, V3.sub_z] <;> ring

/-- one face functional is affine in the point -/
theorem faceProj_lerp (f : Face ℝ) (p q : V) (s : ℝ) :
    faceProj f ((1 - s) * p + s * q) = (1 - s) * faceProj f p + s * faceProj f q := by
  unfold faceProj
  simp only [V3.dot_def, V3.add_x, V3.add_y, V3.add_z, V3.smul_x, V3.smul_y, V3.smul_z,
    V3.sub_x, V3.sub_y, V3.sub_z]
  ring

/-- the intersection of the face half-spaces is convex -/
theorem facesLocal_lerp (fs : List (Face ℝ)) (p q : V) (hp : facesLocal fs p)
    (hq : facesLocal fs q) (s : ℝ) (h0 : 0 ≤ s) (h1 : s ≤ 1) :
    facesLocal fs ((1 - s) * p + s * q) := by
  intro f hf
  have e := faceProj_lerp f p q s
  unfold faceProj at e
  rw [e]
  have a := hp f hf
  have b := hq f hf
  have h1' : 0 ≤ 1 - s := by linarith
  nlinarith [mul_nonneg h1' (neg_nonneg.mpr a), mul_nonneg h0 (neg_nonneg.mpr b)]

/-! ### tetrahedron -/

/-- signed volume (×6) of the tetrahedron `a b c d`: `⟨(b−a)×(c−a), d−a⟩` -/
def tetDet (a b c d : V) : ℝ := V3.dot (V3.cross (b - a) (c - a)) (d - a)

/-- the four triangles of the tetrahedron `a b c d`, wound so that the code's normals
`(v₁−v₀)×(v₂−v₀)` point outwards when `tetDet a b c d > 0`; face `i` is opposite to the
vertex `d, c, b, a` respectively -/
def tetFaces (a b c d : V) : List (Face ℝ) := [⟨a, c, b⟩, ⟨a, b, d⟩, ⟨a, d, c⟩, ⟨b, c, d⟩]

/-- swapping two labels flips the orientation -/
theorem tetDet_swap (a b c d : V) : tetDet a c b d = -tetDet a b c d := by
  unfold tetDet V3.cross
  simp only [V3.dot_def, V3.sub_x, V3.sub_y, V3.sub_z]
  ring

/-- the centroid lies in the face plane: the code's functional is `⟨n_f, q − v₀⟩` -/
theorem faceProj_eq_v0 (f : Face ℝ) (q : V) :
    faceProj f q = V3.dot (faceNormal f) (q - f.v0) := by
  unfold faceProj faceNormal faceCenter three V3.sdiv V3.cross
  simp only [V3.dot_def, V3.add_x, V3.add_y, V3.add_z, V3.sub_x, V3.sub_y, V3.sub_z]
  ring

/-- barycentric reconstruction: `det · q = Σ (−faceProj(opposite face)) · vertex` -/
theorem tet_bary_point (a b c d q : V) :
    tetDet a b c d * q =
      (-faceProj ⟨b, c, d⟩ q) * a + ((-faceProj ⟨a, d, c⟩ q) * b +
        ((-faceProj ⟨a, b, d⟩ q) * c + (-faceProj ⟨a, c, b⟩ q) * d)) := by
  simp only [faceProj_eq_v0]
  unfold tetDet faceNormal V3.cross
  apply V3.ext' <;>
    simp only [V3.dot_def, V3.add_x, V3.add_y, V3.add_z, V3.smul_x, V3.smul_y, V3.smul_z,
      V3.sub_x, V3.sub_y, V3.sub_z] <;> ring

/-- the four unnormalised barycentric coordinates sum to `det` -/
theorem tet_bary_sum (a b c d q : V) :
    (-faceProj ⟨b, c, d⟩ q) + ((-faceProj ⟨a, d, c⟩ q) +
        ((-faceProj ⟨a, b, d⟩ q) + (-faceProj ⟨a, c, b⟩ q))) = tetDet a b c d := by
  simp only [faceProj_eq_v0]
  unfold tetDet faceNormal V3.cross
  simp only [V3.dot_def, V3.sub_x, V3.sub_y, V3.sub_z]
  ring

/-- **tetrahedron, half-space intersection ⊆ hull.** For a non-degenerate tetrahedron whose four
faces are wound outwards (`tetDet > 0`), every point satisfying the four face inequalities of
the code is a convex combination of the four vertices. -/
theorem tet_faces_subset_hull (a b c d : V) (hD : 0 < tetDet a b c d) (q : V)
    (h : facesLocal (tetFaces a b c d) q) : hullLocal [a, b, c, d] q := by
  have h0 : faceProj ⟨a, c, b⟩ q ≤ 0 := h _ (by simp [tetFaces])
  have h1 : faceProj ⟨a, b, d⟩ q ≤ 0 := h _ (by simp [tetFaces])
  have h2 : faceProj ⟨a, d, c⟩ q ≤ 0 := h _ (by simp [tetFaces])
  have h3 : faceProj ⟨b, c, d⟩ q ≤ 0 := h _ (by simp [tetFaces])
  have hDne : tetDet a b c d ≠ 0 := ne_of_gt hD
  set D := tetDet a b c d with hDdef
  refine ⟨[-faceProj ⟨b, c, d⟩ q / D, -faceProj ⟨a, d, c⟩ q / D, -faceProj ⟨a, b, d⟩ q / D,
    -faceProj ⟨a, c, b⟩ q / D], rfl, ?_, ?_, ?_⟩
  · intro x hx
    simp only [List.mem_cons, List.not_mem_nil, or_false] at hx
    rcases hx with rfl | rfl | rfl | rfl <;>
      exact div_nonneg (neg_nonneg.mpr (by assumption)) (le_of_lt hD)
  · have := tet_bary_sum a b c d q
    simp only [List.sum_cons, List.sum_nil, add_zero]
    rw [← hDdef] at this
    field_simp
    linarith
  · have hp := tet_bary_point a b c d q
    rw [← hDdef] at hp
    have hx := congrArg V3.x hp
    have hy := congrArg V3.y hp
    have hz := congrArg V3.z hp
    simp only [V3.add_x, V3.add_y, V3.add_z, V3.smul_x, V3.smul_y, V3.smul_z] at hx hy hz
    apply V3.ext' <;>
      simp only [combo, V3.add_x, V3.add_y, V3.add_z, V3.smul_x, V3.smul_y, V3.smul_z] <;>
      field_simp <;> linarith

/-- every vertex of the tetrahedron satisfies every face inequality when `tetDet ≥ 0`
(the functional is `0` on the face's own vertices and `−tetDet` on the opposite vertex) -/
theorem tet_vertices_in_faces (a b c d : V) (hD : 0 ≤ tetDet a b c d) :
    ∀ v ∈ [a, b, c, d], facesLocal (tetFaces a b c d) v := by
  intro v hv f hf
  have hval : ∀ g : Face ℝ, V3.dot (faceNormal g) (v - faceCenter g) = faceProj g v := fun _ => rfl
  rw [hval, faceProj_eq_v0]
  simp only [tetFaces, List.mem_cons, List.not_mem_nil, or_false] at hv hf
  unfold tetDet at hD
  simp only [V3.cross, V3.dot_def, V3.sub_x, V3.sub_y, V3.sub_z] at hD
  rcases hv with rfl | rfl | rfl | rfl <;> rcases hf with rfl | rfl | rfl | rfl <;>
    simp only [faceNormal, V3.cross, V3.dot_def, V3.sub_x, V3.sub_y, V3.sub_z] <;>
    nlinarith [hD]

end ContainTest
end D3
