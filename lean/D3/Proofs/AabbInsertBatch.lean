/-
One call of `AabbTree.insert_aabbs` (model `Tree.insertAabbs` with the repaired order
function): never fails on a well-formed object, keeps the class invariant `TInv`, adds
exactly the batch's boxes as leaves at rows `filledLen + k`, and stores the external data at
the same rows.
-/
import D3.Proofs.AabbInsertOrder

set_option linter.unusedSectionVars false
set_option linter.unusedVariables false

namespace D3
namespace Aabb

/-- arguments of one `insert_aabbs` call: boxes, optional external data, pre-insertion mode,
and the permutation drawn by `np.random.shuffle` (used by mode `shuffle` only) -/
structure Batch where
  boxes : List (Box ℝ)
  ext : Option (List Nat)
  mode : Mode
  perm : List Nat

/-- admissible call: valid boxes (`lo ≤ hi` per axis), external data (if any) of the same
length (the Python code asserts this), and `perm` a permutation of the batch rows -/
def Batch.Ok (b : Batch) : Prop :=
  (∀ x ∈ b.boxes, x.Valid) ∧ (∀ l, b.ext = some l → l.length = b.boxes.length) ∧
  (b.mode = .shuffle → b.perm.Perm (List.range b.boxes.length))

/-- datum supplied with the `k`-th box (`none` = Python `None`) -/
def Batch.datum (b : Batch) (k : Nat) : Option Nat :=
  match b.ext with
  | some l => l[k]?
  | none => none

def osize : Option (T ℝ) → Nat
  | none => 0
  | some t => t.size

def oleaves : Option (T ℝ) → List (Int × Box ℝ)
  | none => []
  | some t => t.leaves

/-- class invariant of `AabbTree` between calls: the arrays encode the abstract state, are
cut to `filled_len`, and every row is a node of the tree -/
structure TInv (tr : Tree ℝ) (ot : Option (T ℝ)) : Prop where
  enc : Enc tr.core ot
  szN : tr.core.nodes.size = tr.core.filledLen
  szA : tr.core.aabbs.size = tr.core.filledLen
  szE : tr.ext.size = tr.core.filledLen
  szT : osize ot = tr.core.filledLen

/-- `filled_len` after a call with `n` boxes -/
def nextFilled (f n : Nat) : Nat :=
  if n = 0 then f else if f = 0 then 2 * n - 1 else f + 2 * n

/-! ### the pieces of `Tree.insertAabbs.go` -/

noncomputable def startNodes (tr : Tree ℝ) (n : Nat) : Array Node :=
  tr.core.nodes ++ Array.replicate (2 * (tr.core.filledLen + n - tr.core.nodes.size)) emptyNode

noncomputable def startCore (tr : Tree ℝ) (boxes : List (Box ℝ)) : Core ℝ :=
  { root := tr.core.root, nodes := startNodes tr boxes.length,
    aabbs := padTo (tr.core.aabbs ++ boxes.toArray) (startNodes tr boxes.length).size zeroBox,
    filledLen := tr.core.filledLen + boxes.length }

def extPadded (tr : Tree ℝ) (ext : Option (List Nat)) (N : Nat) : Array (Option Nat) :=
  padTo (match ext with
    | some l => tr.ext ++ (l.map some).toArray
    | none => tr.ext) N none

noncomputable def finish (tr : Tree ℝ) (boxes : List (Box ℝ)) (ext : Option (List Nat))
    (c : Core ℝ) : Tree ℝ :=
  { core := { c with nodes := c.nodes.extract 0 c.filledLen, aabbs := c.aabbs.extract 0 c.filledLen },
    ext := (extPadded tr ext (startNodes tr boxes.length).size).extract 0 c.filledLen,
    insIdx := (padTo (tr.insIdx ++ ((List.range boxes.length).map fun k => some (tr.insMax + k)).toArray)
      (startNodes tr boxes.length).size none).extract 0 c.filledLen,
    insMax := tr.insMax + boxes.length }

theorem insertAabbs_run (tr : Tree ℝ) (boxes : List (Box ℝ)) (ext : Option (List Nat)) (mode : Mode)
    (perm : List Nat) (hn : boxes.length ≠ 0) (he : ∀ l, ext = some l → l.length = boxes.length)
    (c' : Core ℝ)
    (hrun : insertMany (startCore tr boxes)
      ((orderKs mode boxes perm).map fun k => ((tr.core.filledLen + k : Nat) : Int)) = .ok c') :
    Tree.insertAabbs insertOrderFixed tr boxes ext mode perm = .ok (finish tr boxes ext c') := by
  have : Tree.insertAabbs insertOrderFixed tr boxes ext mode perm
      = Tree.insertAabbs.go insertOrderFixed tr boxes ext mode perm 0 := by
    unfold Tree.insertAabbs
    simp only [hn, if_false]
    cases ext with
    | none => rfl
    | some l =>
      simp only [he l rfl, ne_eq, not_true_eq_false, if_false]
      rfl
  rw [this]
  unfold Tree.insertAabbs.go
  simp only [bind, Except.bind, pure, Except.pure, insertOrderFixed_eq]
  unfold startCore startNodes at hrun
  rw [hrun]
  rfl

theorem insertAabbs_nil (tr : Tree ℝ) (ext : Option (List Nat)) (mode : Mode) (perm : List Nat) :
    Tree.insertAabbs insertOrderFixed tr [] ext mode perm = .ok tr := by
  simp [Tree.insertAabbs]

/-! ### contents of the enlarged arrays -/

section start
variable (tr : Tree ℝ) (boxes : List (Box ℝ))
  (hN : tr.core.nodes.size = tr.core.filledLen) (hA : tr.core.aabbs.size = tr.core.filledLen)
include hN

theorem size_startNodes : (startNodes tr boxes.length).size = tr.core.filledLen + 2 * boxes.length := by
  simp [startNodes, hN]

theorem rd_startNodes_old {i : Int} (hi : i.toNat < tr.core.filledLen) :
    rd (startNodes tr boxes.length) i = rd tr.core.nodes i := by
  unfold startNodes
  exact rd_append_left _ _ (by omega)

theorem rd_startNodes_new {k : Nat} (hk : k < 2 * boxes.length) :
    rd (startNodes tr boxes.length) ((tr.core.filledLen + k : Nat) : Int) = .ok emptyNode := by
  unfold startNodes
  rw [rd_append_right _ _ (by omega) (by omega)]
  apply rd_replicate
  · omega
  · rw [hN]; omega

include hA

theorem size_startAabbs : (startCore tr boxes).aabbs.size = tr.core.filledLen + 2 * boxes.length := by
  simp only [startCore, padTo, size_startNodes tr boxes hN]
  simp [hA]; omega

theorem rd_startAabbs_old {i : Int} (hi : i.toNat < tr.core.filledLen) :
    rd (startCore tr boxes).aabbs i = rd tr.core.aabbs i := by
  simp only [startCore, padTo]
  rw [rd_append_left _ _ (by simp; omega), rd_append_left _ _ (by omega)]

theorem rd_startAabbs_new {k : Nat} {x : Box ℝ} (hk : boxes[k]? = some x) :
    rd (startCore tr boxes).aabbs ((tr.core.filledLen + k : Nat) : Int) = .ok x := by
  have hlt : k < boxes.length := (List.getElem?_eq_some_iff.mp hk).1
  simp only [startCore, padTo]
  rw [rd_append_left _ _ (by simp; omega), rd_append_right _ _ (by omega) (by omega)]
  have : ((tr.core.filledLen + k : Nat) : Int) - (tr.core.aabbs.size : Int) = (k : Int) := by
    rw [hA]; omega
  rw [this]
  exact rd_toArray boxes k x hk

end start

/-! ### the state handed to the jitted loop -/

/-- the pending leaf rows of a batch, in insertion order `ks` -/
noncomputable def batchSlots (f : Nat) (boxes : List (Box ℝ)) (ks : List Nat) : List (Int × Box ℝ) :=
  ks.map fun k => (((f + k : Nat) : Int), boxes.getD k zeroBox)

theorem batchSlots_fst (f : Nat) (boxes : List (Box ℝ)) (ks : List Nat) :
    (batchSlots f boxes ks).map (·.1) = ks.map fun k => ((f + k : Nat) : Int) := by
  simp [batchSlots, List.map_map, Function.comp_def]

theorem batchSlots_perm (f : Nat) (boxes : List (Box ℝ)) (ks : List Nat)
    (hks : ks.Perm (List.range boxes.length)) :
    (batchSlots f boxes ks).Perm (batchLeaves f boxes) := by
  rw [← batchLeaves_eq]
  exact hks.map _

theorem Enc.inR {c : Core ℝ} {t : T ℝ} (h : Enc c (some t)) :
    ∀ i ∈ t.indices, 0 ≤ i ∧ i < (c.filledLen : Int) := by
  intro i hi
  obtain ⟨_, hrep, _, _, _, hlt⟩ := h
  exact ⟨((RepP.inR t _ hrep i hi).1).1, hlt i hi⟩

theorem start_enc (tr : Tree ℝ) (ot : Option (T ℝ)) (hinv : TInv tr ot) (boxes : List (Box ℝ)) :
    Enc (startCore tr boxes) ot := by
  cases ot with
  | none => exact hinv.enc
  | some t =>
    have hr := Enc.inR hinv.enc
    obtain ⟨hidx, hrep, hnd, ht, hv, hlt⟩ := hinv.enc
    refine ⟨hidx, ?_, hnd, ht, hv, ?_⟩
    · refine RepP.congr t _ (fun j hj => ?_) hrep
      have := hr j hj
      exact ⟨rd_startNodes_old tr boxes hinv.szN (by omega),
        rd_startAabbs_old tr boxes hinv.szN hinv.szA (by omega)⟩
    · intro i hi
      have := hlt i hi
      simp only [startCore]
      omega

theorem start_pending (tr : Tree ℝ) (ot : Option (T ℝ)) (hinv : TInv tr ot) (boxes : List (Box ℝ))
    (hv : ∀ x ∈ boxes, x.Valid) (ks : List Nat) (hks : ks.Perm (List.range boxes.length)) :
    Pending (startCore tr boxes) (oIndices ot) (batchSlots tr.core.filledLen boxes ks) := by
  have hklt : ∀ k ∈ ks, k < boxes.length := fun k hk => List.mem_range.mp (hks.subset hk)
  have hlen : (batchSlots tr.core.filledLen boxes ks).length = boxes.length := by
    simp [batchSlots, hks.length_eq]
  refine ⟨?_, ?_, ?_, ?_⟩
  · rw [batchSlots_fst]
    refine List.Nodup.map ?_ (hks.nodup_iff.mpr List.nodup_range)
    intro a b hab
    simp only at hab
    omega
  · intro x hx
    simp only [batchSlots, List.mem_map] at hx
    obtain ⟨k, hk, rfl⟩ := hx
    have hk' := hklt k hk
    have hget : boxes[k]? = some (boxes.getD k zeroBox) := by
      simp [List.getD, hk']
    refine ⟨rd_startNodes_new tr boxes hinv.szN (by omega),
      rd_startAabbs_new tr boxes hinv.szN hinv.szA hget, ?_, ?_, ?_⟩
    · exact hv _ (List.mem_of_getElem? hget)
    · simp only [startCore]; omega
    · cases ot with
      | none => simp [oIndices]
      | some t =>
        intro h
        have := (Enc.inR hinv.enc _ h).2
        omega
  · have := size_startNodes tr boxes hinv.szN
    rw [hlen]; simp only [startCore]; omega
  · have := size_startAabbs tr boxes hinv.szN hinv.szA
    rw [hlen]; simp only [startCore] at this ⊢; omega

/-! ### external data -/

theorem extPadded_size (tr : Tree ℝ) (ext : Option (List Nat)) (N n : Nat)
    (he : ∀ l, ext = some l → l.length = n) (hN : tr.ext.size + n ≤ N) :
    (extPadded tr ext N).size = N := by
  cases ext with
  | none => simp [extPadded, padTo]; omega
  | some l => have := he l rfl; simp [extPadded, padTo]; omega

theorem extPadded_old (tr : Tree ℝ) (ext : Option (List Nat)) (N r : Nat) (hr : r < tr.ext.size) :
    (extPadded tr ext N)[r]? = tr.ext[r]? := by
  cases ext with
  | none =>
    simp only [extPadded, padTo]
    rw [Array.getElem?_append_left hr]
  | some l =>
    simp only [extPadded, padTo]
    rw [Array.getElem?_append_left (by simp; omega), Array.getElem?_append_left hr]

theorem extPadded_new (b : Batch) (tr : Tree ℝ) (N k : Nat)
    (he : ∀ l, b.ext = some l → l.length = b.boxes.length) (hk : k < b.boxes.length)
    (hN : tr.ext.size + b.boxes.length ≤ N) :
    (extPadded tr b.ext N)[tr.ext.size + k]? = some (b.datum k) := by
  unfold Batch.datum
  cases hb : b.ext with
  | none =>
    simp only [extPadded, padTo]
    rw [Array.getElem?_append_right (by omega)]
    have : k < N - tr.ext.size := by omega
    simp [this]
  | some l =>
    have hl := he l hb
    simp only [extPadded, padTo]
    rw [Array.getElem?_append_left (by simp; omega), Array.getElem?_append_right (by omega)]
    have hkl : k < l.length := by omega
    simp [hkl]

/-! ### one call -/

/-- after the loop: cutting the arrays to `filled_len` re-establishes the class invariant -/
theorem finish_inv (tr : Tree ℝ) (b : Batch) (c' : Core ℝ) (t' : T ℝ)
    (hE : tr.ext.size = tr.core.filledLen) (hN : tr.core.nodes.size = tr.core.filledLen)
    (he : ∀ l, b.ext = some l → l.length = b.boxes.length)
    (henc : Enc c' (some t'))
    (hsN : c'.nodes.size = tr.core.filledLen + 2 * b.boxes.length)
    (hsA : c'.aabbs.size = tr.core.filledLen + 2 * b.boxes.length)
    (hF : c'.filledLen ≤ tr.core.filledLen + 2 * b.boxes.length)
    (hT : t'.size = c'.filledLen) :
    TInv (finish tr b.boxes b.ext c') (some t') := by
  have hr := Enc.inR henc
  obtain ⟨hidx, hrep, hnd, ht, hv, hlt⟩ := henc
  refine ⟨⟨hidx, ?_, hnd, ht, hv, hlt⟩, ?_, ?_, ?_, hT⟩
  · refine RepP.congr t' _ (fun j hj => ?_) hrep
    have := hr j hj
    exact ⟨rd_extract _ _ this.2, rd_extract _ _ this.2⟩
  · simp only [finish, Array.size_extract]; omega
  · simp only [finish, Array.size_extract]; omega
  · simp only [finish, Array.size_extract]
    rw [extPadded_size tr b.ext _ b.boxes.length he (by rw [size_startNodes tr b.boxes hN]; omega),
      size_startNodes tr b.boxes hN]
    omega

theorem finish_ext (tr : Tree ℝ) (b : Batch) (c' : Core ℝ) (r : Nat) (hr : r < c'.filledLen) :
    (finish tr b.boxes b.ext c').ext[r]? = (extPadded tr b.ext (startNodes tr b.boxes.length).size)[r]? := by
  simp only [finish, Array.getElem?_extract]
  by_cases h : r < (extPadded tr b.ext (startNodes tr b.boxes.length).size).size
  · rw [if_pos (by omega)]; simp
  · rw [if_neg (by omega)]
    symm
    simp only [Array.getElem?_eq_none_iff]
    omega

/-- **one `insert_aabbs` call** on an object satisfying the class invariant. -/
theorem insertAabbs_step (tr : Tree ℝ) (ot : Option (T ℝ)) (b : Batch) (hinv : TInv tr ot)
    (hb : b.Ok) :
    ∃ tr' ot', Tree.insertAabbs insertOrderFixed tr b.boxes b.ext b.mode b.perm = .ok tr' ∧
      TInv tr' ot' ∧
      tr'.core.filledLen = nextFilled tr.core.filledLen b.boxes.length ∧
      (oleaves ot').Perm (batchLeaves tr.core.filledLen b.boxes ++ oleaves ot) ∧
      (∀ r, r < tr.core.filledLen → tr'.ext[r]? = tr.ext[r]?) ∧
      (∀ k, k < b.boxes.length → tr'.ext[tr.core.filledLen + k]? = some (b.datum k)) := by
  obtain ⟨hvalid, he, hperm⟩ := hb
  by_cases hn : b.boxes.length = 0
  · have hnil : b.boxes = [] := List.length_eq_zero_iff.mp hn
    refine ⟨tr, ot, ?_, hinv, ?_, ?_, fun _ _ => rfl, ?_⟩
    · rw [hnil]; exact insertAabbs_nil tr _ _ _
    · simp [nextFilled, hn]
    · rw [hnil]; simp [batchLeaves]
    · intro k hk; omega
  · have hks := orderKs_perm b.mode b.boxes b.perm hperm
    have hslen : (batchSlots tr.core.filledLen b.boxes (orderKs b.mode b.boxes b.perm)).length
        = b.boxes.length := by
      simp [batchSlots, hks.length_eq]
    have henc₀ := start_enc tr ot hinv b.boxes
    have hpend₀ := start_pending tr ot hinv b.boxes hvalid _ hks
    have hslots := batchSlots_perm tr.core.filledLen b.boxes _ hks
    have hfst := batchSlots_fst tr.core.filledLen b.boxes (orderKs b.mode b.boxes b.perm)
    have hsN₀ := size_startNodes tr b.boxes hinv.szN
    have hsA₀ := size_startAabbs tr b.boxes hinv.szN hinv.szA
    have hext : ∀ (c' : Core ℝ), tr.core.filledLen + b.boxes.length ≤ c'.filledLen →
        (∀ r, r < tr.core.filledLen → (finish tr b.boxes b.ext c').ext[r]? = tr.ext[r]?) ∧
        (∀ k, k < b.boxes.length →
          (finish tr b.boxes b.ext c').ext[tr.core.filledLen + k]? = some (b.datum k)) := by
      intro c' hc'
      constructor
      · intro r hr
        rw [finish_ext tr b c' r (by omega), extPadded_old tr b.ext _ r (by rw [hinv.szE]; exact hr)]
      · intro k hk
        rw [finish_ext tr b c' _ (by omega), ← hinv.szE]
        exact extPadded_new b tr _ k he hk (by rw [hsN₀, hinv.szE]; omega)
    cases ot with
    | some t =>
      obtain ⟨c', t', hrun, henc', _, hleaves, hsize, hf, hsN, hsA, _⟩ :=
        insertMany_refines _ (startCore tr b.boxes) t henc₀ hpend₀
      rw [hfst] at hrun
      rw [hslen] at hsize hf
      have hszT : t.size = tr.core.filledLen := hinv.szT
      have hfl : c'.filledLen = tr.core.filledLen + b.boxes.length + b.boxes.length := hf
      have hfpos : tr.core.filledLen ≠ 0 := by
        have := T.size_pos t; omega
      refine ⟨finish tr b.boxes b.ext c', some t',
        insertAabbs_run tr b.boxes b.ext b.mode b.perm hn he c' hrun, ?_, ?_, ?_,
        (hext c' (by omega)).1, (hext c' (by omega)).2⟩
      · exact finish_inv tr b c' t' hinv.szE hinv.szN he henc' (by rw [hsN, ← hsN₀]; rfl)
          (by rw [hsA, ← hsA₀]) (by omega) (by omega)
      · show c'.filledLen = _
        simp only [nextFilled, hn, hfpos, if_false]; omega
      · refine hleaves.trans ?_
        exact List.Perm.append_right _ ((List.reverse_perm _).trans hslots)
    | none =>
      have hf0 : tr.core.filledLen = 0 := hinv.szT.symm
      cases hsl : batchSlots tr.core.filledLen b.boxes (orderKs b.mode b.boxes b.perm) with
      | nil => rw [hsl] at hslen; simp at hslen; omega
      | cons x rest =>
        rw [hsl] at hpend₀ hslots hfst hslen
        obtain ⟨c', t', hrun, henc', _, hleaves, hsize, hf, hsN, hsA⟩ :=
          insertMany_refines_empty x rest (startCore tr b.boxes) henc₀ hpend₀
        rw [hfst] at hrun
        simp only [List.length_cons] at hslen hsize
        have hfl : c'.filledLen = tr.core.filledLen + b.boxes.length + rest.length := hf
        refine ⟨finish tr b.boxes b.ext c', some t',
          insertAabbs_run tr b.boxes b.ext b.mode b.perm hn he c' hrun, ?_, ?_, ?_,
          (hext c' (by omega)).1, (hext c' (by omega)).2⟩
        · exact finish_inv tr b c' t' hinv.szE hinv.szN he henc' (by rw [hsN, ← hsN₀]; rfl)
            (by rw [hsA, ← hsA₀]) (by omega) (by omega)
        · show c'.filledLen = _
          simp only [nextFilled, hn, hf0, if_false, if_true]; omega
        · simp only [oleaves, List.append_nil]
          exact hleaves.trans ((List.reverse_perm _).trans hslots)

end Aabb
end D3
