/-
C18, Jolt solver, line segment: `closestPointLine` returns the minimum-norm point of the
segment (regular branch) resp. the nearer endpoint (degenerate branch).
-/
import D3.Proofs.SimplexSpec

set_option linter.unusedSectionVars false
set_option linter.unusedVariables false

namespace D3
namespace Simplex

theorem EPS2_pos : (0 : ℝ) < EPS2 := by
  norm_num [EPS2, D3.Gen.gjk__gjk_jolt__EPSILON_SQR]

theorem EPS_pos : (0 : ℝ) < EPS := by
  norm_num [EPS, D3.Gen.utils__EPSILON]

theorem cdiv_ok {x y : ℝ} (hy : y ≠ 0) : cdiv x y = .ok (x / y) := by
  unfold cdiv
  rcases lt_or_gt_of_ne hy with h | h
  · simp [h]
  · simp [h]

theorem cdivV_ok (v : V) {y : ℝ} (hy : y ≠ 0) : cdivV v y = .ok (V3.sdiv v y) := by
  unfold cdivV
  rcases lt_or_gt_of_ne hy with h | h
  · simp [h]
  · simp [h]

/-- the regular branch of `get_barycentric_coordinates_line` -/
theorem baryLine_regular (a b : V) (h : ¬ V3.dot (b - a) (b - a) < EPS2) :
    baryLine a b = .ok (1 - -(V3.dot a (b - a)) / V3.dot (b - a) (b - a),
      -(V3.dot a (b - a)) / V3.dot (b - a) (b - a), 2) := by
  have hpos : 0 < V3.dot (b - a) (b - a) := lt_of_lt_of_le EPS2_pos (not_lt.mp h)
  unfold baryLine
  simp only [h, if_false, cdiv_ok (ne_of_gt hpos)]
  rfl

/-- the degenerate branch of `get_barycentric_coordinates_line` -/
theorem baryLine_degenerate (a b : V) (h : V3.dot (b - a) (b - a) < EPS2) :
    baryLine a b = if V3.dot a a < V3.dot b b then .ok (1, 0, 0) else .ok (0, 1, 1) := by
  unfold baryLine
  simp only [h, if_true]

/-- **line_spec** (regular branch, `|b − a|² ≥ ε²`): the result is the minimum-norm point of
the segment, the set bits are 1, 2 or 3 and name a sub-simplex whose hull contains it. -/
theorem closestPointLine_spec (a b : V) (h : ¬ V3.dot (b - a) (b - a) < EPS2) :
    ∃ r, closestPointLine a b = .ok r ∧ IsMinNorm (hullSet [a, b]) r.pt ∧
      hullSet (selectBits r.set [a, b]) r.pt ∧ (r.set = 1 ∨ r.set = 2 ∨ r.set = 3) ∧
      (r.br = 2 ∨ r.br = 3 ∨ r.br = 4) := by
  have hpos : 0 < V3.dot (b - a) (b - a) := lt_of_lt_of_le EPS2_pos (not_lt.mp h)
  set den := V3.dot (b - a) (b - a) with hden
  set v := -(V3.dot a (b - a)) / den with hv
  have hvden : v * den = -(V3.dot a (b - a)) := by rw [hv]; field_simp
  unfold closestPointLine
  rw [baryLine_regular a b h]
  simp only [bind, Except.bind, ← hden, ← hv]
  by_cases h1 : v ≤ 0
  · -- a
    simp only [h1, if_true]
    refine ⟨_, rfl, ?_, ?_, Or.inl rfl, Or.inl rfl⟩
    · refine isMinNorm_hull_of_vertices (hull_sublist (by simp) _ (hull1_intro a)) ?_
      intro p hp
      simp only [List.mem_cons, List.not_mem_nil, or_false] at hp
      rcases hp with hp | hp <;> rw [hp]
      · have : 0 ≤ V3.dot a (b - a) := by nlinarith
        simp only [V3.dot_def, V3.sub_x, V3.sub_y, V3.sub_z] at *
        nlinarith
    · simpa [selectBits] using hull1_intro a
  · simp only [h1, if_false]
    by_cases h2 : 1 - v ≤ 0
    · -- b
      simp only [h2, if_true]
      refine ⟨_, rfl, ?_, ?_, Or.inr (Or.inl rfl), Or.inr (Or.inl rfl)⟩
      · refine isMinNorm_hull_of_vertices (hull_sublist (by simp) _ (hull1_intro b)) ?_
        intro p hp
        simp only [List.mem_cons, List.not_mem_nil, or_false] at hp
        have hb : V3.dot b (b - a) = (1 - v) * den := by
          have : V3.dot b (b - a) = V3.dot a (b - a) + den := by
            simp only [hden, V3.dot_def, V3.sub_x, V3.sub_y, V3.sub_z]; ring
          rw [this]; linarith
        have hb' : V3.dot b (b - a) ≤ 0 := by rw [hb]; nlinarith
        rcases hp with hp | hp <;> rw [hp]
        · simp only [V3.dot_def, V3.sub_x, V3.sub_y, V3.sub_z] at *
          nlinarith
      · simpa [selectBits] using hull1_intro b
    · -- interior
      simp only [h2, if_false]
      have hv0 : 0 < v := not_le.mp h1
      have hu0 : 0 < 1 - v := not_le.mp h2
      refine ⟨_, rfl, ?_, ?_, Or.inr (Or.inr rfl), Or.inr (Or.inr rfl)⟩
      · refine isMinNorm_hull_of_vertices (hull2_intro a b hu0.le hv0.le (by ring)) ?_
        intro p hp
        simp only [List.mem_cons, List.not_mem_nil, or_false] at hp
        -- x · (b − a) = 0
        have hx : V3.dot ((1 - v) * a + v * b) (b - a) = 0 := by
          have : V3.dot ((1 - v) * a + v * b) (b - a) = V3.dot a (b - a) + v * den := by
            simp only [hden, V3.dot_def, V3.sub_x, V3.sub_y, V3.sub_z, V3.add_x, V3.add_y, V3.add_z,
              V3.smul_x, V3.smul_y, V3.smul_z]; ring
          rw [this]; linarith
        rcases hp with hp | hp <;> rw [hp]
        · have : V3.dot ((1 - v) * a + v * b) ((1 - v) * a + v * b) =
              V3.dot ((1 - v) * a + v * b) a + v * V3.dot ((1 - v) * a + v * b) (b - a) := by
            simp only [V3.dot_def, V3.sub_x, V3.sub_y, V3.sub_z, V3.add_x, V3.add_y, V3.add_z,
              V3.smul_x, V3.smul_y, V3.smul_z]; ring
          rw [this, hx]; linarith
        · have : V3.dot ((1 - v) * a + v * b) ((1 - v) * a + v * b) =
              V3.dot ((1 - v) * a + v * b) b - (1 - v) * V3.dot ((1 - v) * a + v * b) (b - a) := by
            simp only [V3.dot_def, V3.sub_x, V3.sub_y, V3.sub_z, V3.add_x, V3.add_y, V3.add_z,
              V3.smul_x, V3.smul_y, V3.smul_z]; ring
          rw [this, hx]; linarith
      · simpa [selectBits] using hull2_intro a b hu0.le hv0.le (by ring)

/-- **line_spec** (degenerate branch, `|b − a|² < ε²`): the nearer endpoint is returned
(`a` iff `|a|² < |b|²`), so the result is within `|b − a|` of the true minimiser. -/
theorem closestPointLine_degenerate (a b : V) (h : V3.dot (b - a) (b - a) < EPS2) :
    closestPointLine a b =
      if V3.dot a a < V3.dot b b then .ok ⟨a, 1, 0⟩ else .ok ⟨b, 2, 1⟩ := by
  unfold closestPointLine
  rw [baryLine_degenerate a b h]
  by_cases h1 : V3.dot a a < V3.dot b b
  · simp [h1, bind, Except.bind]
  · simp [h1, bind, Except.bind]

/-- when the two endpoints coincide the degenerate branch is exact -/
theorem closestPointLine_same (a : V) :
    ∃ r, closestPointLine a a = .ok r ∧ IsMinNorm (hullSet [a, a]) r.pt ∧
      hullSet (selectBits r.set [a, a]) r.pt := by
  have h0 : V3.dot (a - a) (a - a) < EPS2 := by
    have : V3.dot (a - a) (a - a) = 0 := by
      simp [V3.dot_def]
    rw [this]; exact EPS2_pos
  rw [closestPointLine_degenerate a a h0]
  simp only [lt_irrefl, if_false]
  refine ⟨_, rfl, ?_, by simpa [selectBits] using hull1_intro a⟩
  refine isMinNorm_hull_of_vertices (hull_sublist (by simp) _ (hull1_intro a)) ?_
  intro p hp
  simp only [List.mem_cons, List.not_mem_nil, or_false, or_self] at hp
  rw [hp]

end Simplex
end D3
