/-
Completeness of the run-time well-formedness check `wfCheck` with respect to the strong
representation predicate: a state that satisfies `RepP` (+ tight, distinct indices, sizes)
is accepted by `wfCheck`, which returns exactly the encoded tree.  Hence every theorem
stated for `wfCheck`-accepted states (`C05.query_exact`, …) applies to it.
-/
import D3.Proofs.AabbInsertMany

set_option linter.unusedSectionVars false
set_option linter.unusedVariables false

namespace D3
namespace Aabb

scalar_variables

theorem branch_ne_leaf : ¬ (TYPE_BRANCH = TYPE_LEAF) := by decide

theorem absTree_complete (N : Array Node) (A : Array (Box α)) :
    ∀ (t : T α) (par : Int) (fuel : Nat), RepP N A par t → t.size ≤ fuel →
      absTree N A fuel t.idx = some t
  | .leaf i b, par, fuel, ⟨h1, h2⟩, hf => by
    cases fuel with
    | zero => simp [T.size] at hf
    | succ fuel => simp only [T.idx, absTree, h1, h2, if_true]
  | .node i b l r, par, fuel, ⟨h1, h2, hl, hr⟩, hf => by
    cases fuel with
    | zero => simp [T.size] at hf
    | succ fuel =>
      simp only [T.size] at hf
      show absTree N A (fuel + 1) i = _
      simp only [absTree, h1, h2, branch_ne_leaf, if_false,
        absTree_complete N A l i fuel hl (by omega), absTree_complete N A r i fuel hr (by omega)]

theorem parentsOk_complete (N : Array Node) (A : Array (Box α)) :
    ∀ (t : T α) (par : Int), RepP N A par t → parentsOk N par t = true
  | .leaf i b, par, ⟨h1, h2⟩ => by
    simp [parentsOk, h1]
  | .node i b l r, par, ⟨h1, h2, hl, hr⟩ => by
    simp [parentsOk, h1, parentsOk_complete N A l i hl, parentsOk_complete N A r i hr]

theorem nodupB_complete : ∀ (l : List Int), l.Nodup → nodupB l = true
  | [], _ => rfl
  | x :: xs, h => by
    rw [List.nodup_cons] at h
    simp [nodupB, h.1, nodupB_complete xs h.2]

theorem tightB_complete : ∀ (t : T ℝ), t.Tight → t.tightB = true
  | .leaf _ _, _ => rfl
  | .node _ b l r, ⟨h, hl, hr⟩ => by
    simp [T.tightB, h, tightB_complete l hl, tightB_complete r hr]

/-- **completeness of `wfCheck`** for non-empty states -/
theorem wfCheck_complete (c : Core ℝ) (t : T ℝ) (hidx : t.idx = c.root)
    (hrep : RepP c.nodes c.aabbs INDEX_NONE t) (hnd : t.indices.Nodup) (ht : t.Tight)
    (hsz : t.size = c.filledLen) (hN : c.nodes.size = c.filledLen)
    (hA : c.aabbs.size = c.filledLen) : wfCheck c = some (some t) := by
  have hroot : c.root ≠ INDEX_NONE := hidx ▸ RepP.idx_ne_none hrep
  have habs := absTree_complete c.nodes c.aabbs t INDEX_NONE (c.nodes.size + 1) hrep (by omega)
  rw [hidx] at habs
  unfold wfCheck
  rw [if_neg hroot]
  simp only [habs]
  rw [if_pos]
  simp only [Bool.and_eq_true, decide_eq_true_eq]
  exact ⟨⟨⟨⟨⟨tightB_complete t ht, parentsOk_complete _ _ t _ hrep⟩, nodupB_complete _ hnd⟩, hsz⟩,
    hN⟩, hA⟩

theorem wfCheck_complete_empty (c : Core ℝ) (hroot : c.root = INDEX_NONE)
    (hf : c.filledLen = 0) (hN : c.nodes.size = 0) (hA : c.aabbs.size = 0) :
    wfCheck c = some none := by
  unfold wfCheck
  rw [if_pos hroot, if_pos ⟨hf, hN, hA⟩]

end Aabb
end D3
