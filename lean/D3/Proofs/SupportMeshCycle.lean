/-
C03 / C19 — the defect repaired by e900ae9, as a before/after pair on ONE arithmetic.

`Noisy` is a toy arithmetic with the two features of floating point that matter here: `-`, `*`
and `<` are exact (so the contract `τ < a - b → b < a` of the repaired climb holds), while `+`
is NOT exact — a sum that cancels (`x + y = 0` with `x ≠ 0`) comes out as the "rounding noise"
`2` instead of `0`. On a single triangle whose three vertices have the same exact projection on
`d = (1, 1, 0)`:
* before the repair the computed `d · (v_c − v_b)` is the noise `2 > τ = 1` for EVERY ordered
  pair of distinct vertices — the acceptance relation contains the 3-cycle 0 → 1 → 2 → 0, is
  therefore contained in no strict order, and `hillClimbF_asIs_before_fix` exhausts every fuel;
* after the repair every vertex has one computed projection (0, 2, 2): the climb moves once and
  stops, and `Noisy` is an instance of `hillClimbF_terminates_strictOrder`.
-/
import D3.Proofs.SupportMesh

namespace D3
namespace Support

/-- integers with a non-exact addition -/
structure Noisy where
  v : Int
  deriving DecidableEq, Repr

namespace Noisy
instance : Add Noisy := ⟨fun a b => if a.v + b.v = 0 ∧ a.v ≠ 0 then ⟨2⟩ else ⟨a.v + b.v⟩⟩
instance : Sub Noisy := ⟨fun a b => ⟨a.v - b.v⟩⟩
instance : Mul Noisy := ⟨fun a b => ⟨a.v * b.v⟩⟩
instance : Div Noisy := ⟨fun a b => ⟨a.v / b.v⟩⟩
instance : Neg Noisy := ⟨fun a => ⟨-a.v⟩⟩
instance : LT Noisy := ⟨fun a b => a.v < b.v⟩
instance : LE Noisy := ⟨fun a b => a.v ≤ b.v⟩
instance : DecidableLT Noisy := fun a b => inferInstanceAs (Decidable (a.v < b.v))
instance : DecidableLE Noisy := fun a b => inferInstanceAs (Decidable (a.v ≤ b.v))
instance : OfNat Noisy 0 := ⟨⟨0⟩⟩
instance : OfNat Noisy 1 := ⟨⟨1⟩⟩
instance : OfNat Noisy 2 := ⟨⟨2⟩⟩
instance : OfScientific Noisy := ⟨fun m _ _ => ⟨m⟩⟩
instance : Min Noisy := ⟨fun a b => if a.v ≤ b.v then a else b⟩
instance : Max Noisy := ⟨fun a b => if a.v ≤ b.v then b else a⟩
instance : HasSqrt Noisy := ⟨fun a => a⟩
end Noisy

/-- one triangle; all three vertices project to 0 on `d = (1,1,0)` in exact arithmetic -/
def cycMesh : MeshData Noisy :=
  { verts := #[⟨⟨0⟩, ⟨0⟩, ⟨0⟩⟩, ⟨⟨1⟩, ⟨-1⟩, ⟨0⟩⟩, ⟨⟨2⟩, ⟨-2⟩, ⟨0⟩⟩],
    conn := [(0, [1, 2]), (1, [0, 2]), (2, [0, 1])],
    shortcuts := [2, 0, 0, 0, 2, 0] }

def cycDir : V3 Noisy := ⟨⟨1⟩, ⟨1⟩, ⟨0⟩⟩
def cycTau : Noisy := ⟨1⟩

/-- this is what `MeshHillClimbingSupportFunction.__init__` builds from the triangle `(0,1,2)` -/
theorem cycMesh_is_built :
    MeshData.build cycMesh.verts [(0, 1, 2)] = .ok (cycMesh, 0) := by rfl

theorem cycMesh_wf : MeshWF cycMesh := wfCheck_sound cycMesh (by decide +kernel)

/-- **before the repair: the acceptance relation contains a 3-cycle.** The computed
`d · (v_c − v_b)` exceeds the threshold for 0 → 1, 1 → 2 and 2 → 0 -/
theorem asIs_acceptance_has_3cycle :
    (projLen cycDir cycMesh.verts 1 0 = .ok ⟨2⟩ ∧ cycTau < (⟨2⟩ : Noisy)) ∧
    (projLen cycDir cycMesh.verts 2 1 = .ok ⟨2⟩) ∧
    (projLen cycDir cycMesh.verts 0 2 = .ok ⟨2⟩) := by decide +kernel

/-- hence it is contained in NO strict order on the vertices (whatever relation one picks) -/
theorem asIs_acceptance_in_no_strict_order (R : Nat → Nat → Prop) (hirr : ∀ i, ¬ R i i)
    (htr : ∀ i j k, R i j → R j k → R i k)
    (hacc : ∀ b c pl, projLen cycDir cycMesh.verts c b = .ok pl → cycTau < pl → R b c) : False := by
  obtain ⟨⟨h01, hlt⟩, h12, h20⟩ := asIs_acceptance_has_3cycle
  exact hirr 0 (htr _ _ _ (htr _ _ _ (hacc 0 1 _ h01 hlt) (hacc 1 2 _ h12 hlt)) (hacc 2 0 _ h20 hlt))

/-- every pass of the pre-repair `while` loop moves, from every vertex of the triangle -/
theorem asIs_pass_moves : ∀ b, b < 3 → ∃ nbrs b', connLookup cycMesh.conn b = .ok nbrs ∧
    climbFold_asIs_before_fix cycTau cycDir cycMesh.verts nbrs (b, false) = .ok (b', true) ∧ b' < 3 := by
  intro b hb
  have : b = 0 ∨ b = 1 ∨ b = 2 := by omega
  rcases this with rfl | rfl | rfl
  · exact ⟨[1, 2], 2, by decide +kernel, by decide +kernel, by omega⟩
  · exact ⟨[0, 2], 2, by decide +kernel, by decide +kernel, by omega⟩
  · exact ⟨[0, 1], 1, by decide +kernel, by decide +kernel, by omega⟩

theorem asIs_loop_exhausts_fuel : ∀ (fuel b passes : Nat), b < 3 →
    hillLoop_asIs_before_fix cycTau cycDir cycMesh fuel b passes = .error .fuel := by
  intro fuel
  induction fuel with
  | zero => intro b passes _; rfl
  | succ fuel ih =>
    intro b passes hb
    obtain ⟨nbrs, b', h1, h2, h3⟩ := asIs_pass_moves b hb
    simp only [hillLoop_asIs_before_fix]
    rw [h1]
    dsimp only
    rw [h2]
    dsimp only
    exact ih b' (passes + 1) h3

/-- **before the repair: non-termination.** On this well-formed mesh (a single triangle, built
by the model of `__init__`) the pre-repair climb runs out of EVERY fuel: it goes round the
triangle forever. -/
theorem hillClimb_asIs_before_fix_cycles (fuel : Nat) :
    hillClimbF_asIs_before_fix cycTau cycDir 0 cycMesh fuel = .error .fuel := by
  have h0 : climbFold_asIs_before_fix cycTau cycDir cycMesh.verts cycMesh.shortcuts (0, false)
      = .ok (0, true) := by decide +kernel
  unfold hillClimbF_asIs_before_fix
  rw [h0]
  dsimp only
  rw [asIs_loop_exhausts_fuel fuel 0 0 (by omega)]

/-- `Noisy` satisfies the arithmetic contract of the repaired climb: `<` is a strict order and
`τ < a - b → b < a` (subtraction and comparison are exact; only `+` is noisy) -/
theorem noisy_contract : (∀ a : Noisy, ¬ a < a) ∧ (∀ a b c : Noisy, a < b → b < c → a < c) ∧
    (∀ a b : Noisy, cycTau < a - b → b < a) := by
  refine ⟨fun a => Int.lt_irrefl a.v, fun a b c h1 h2 => Int.lt_trans h1 h2, ?_⟩
  intro a b h
  have h' : (1 : Int) < a.v - b.v := h
  show b.v < a.v
  omega

/-- **after the repair: termination on the same data and the same arithmetic**, by the general
theorem, for every fuel ≥ 3 and every start vertex … -/
theorem hillClimb_fixed_terminates_on_cycle (start : Nat) (hs : start < 3) (fuel : Nat)
    (hfuel : 3 ≤ fuel) :
    ∃ r br moves, hillClimbF cycTau cycDir start cycMesh fuel = .ok (r, br, moves) ∧ moves ≤ 2 := by
  have hv : Valid cycMesh start := by
    have : start = 0 ∨ start = 1 ∨ start = 2 := by omega
    rcases this with rfl | rfl | rfl
    · exact ⟨by decide, [1, 2], rfl⟩
    · exact ⟨by decide, [0, 2], rfl⟩
    · exact ⟨by decide, [0, 1], rfl⟩
  obtain ⟨r, br, mv, h, _, hmv, _⟩ := hillClimbF_terminates_strictOrder cycTau cycDir cycMesh
    cycMesh_wf noisy_contract.1 noisy_contract.2.1 noisy_contract.2.2 start hv fuel hfuel
  have hsz : cycMesh.verts.size = 3 := rfl
  exact ⟨r, br, mv, h, by omega⟩

/-- … and concretely: from vertex 0 it makes one move (computed projections 0, 2, 2), needs two
passes, and stops at vertex 2 -/
theorem hillClimb_fixed_on_cycle_value :
    hillClimbF cycTau cycDir 0 cycMesh 3 = .ok (2, 3, 1) := by decide +kernel

end Support
end D3
