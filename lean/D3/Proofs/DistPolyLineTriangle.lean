/-
`_line_to_triangle` at `α := ℝ` (model `lineToTriangleFull`): feasibility and global optimality.

* `planeBasis_spec`            : `plane_basis_from_normal` of a unit vector `n` succeeds and returns
                                 `u` (unit, ⊥ `n`) and `v = n × u`; hence `(u, v, n)` is a right-handed
                                 orthonormal frame (`frame_complete`, `frame_binet`);
* `pierce_hit` / `pierce_unique`: correctness of the plane-basis intersection test — the numbers
                                 `b0`, `b1` are the barycentric coordinates of the point where the
                                 line meets the plane of the triangle, and they are the only ones;
* `triEdgeLoop_boundary`       : the edge loop is feasible and optimal against the boundary (every input);
* `triEdgeLoop_good`           : … and against the whole triangle when the line misses the triangle
                                 (`line_tri_to_boundary`);
* `lineToTriangleFull_spec`    : the whole function.
-/
import D3.Proofs.DistPolySegment
import D3.Proofs.DistPolyLTGeom
import D3.Proofs.DistPolyLTEdge

set_option linter.unusedSimpArgs false

namespace D3
namespace DistPoly

/-! ### `plane_basis_from_normal` -/

/-- `plane_basis_from_normal(n)` for a unit vector: no division by zero, `u` is a unit vector
orthogonal to `n` and `v = n × u` -/
theorem planeBasis_spec (n : V) (hn : V3.dot n n = 1) :
    ∃ u v, planeBasisFromNormal n = .ok (u, v) ∧ V3.dot u u = 1 ∧ V3.dot u n = 0 ∧
      v = V3.cross n u := by
  unfold planeBasisFromNormal
  rw [absS_real, absS_real]
  rw [V3.dot_def] at hn
  by_cases hc : |n.y| ≤ |n.x|
  · rw [if_pos hc]
    dsimp only
    have hpos : 0 < n.x * n.x + n.z * n.z := by
      have h2 : n.y * n.y ≤ n.x * n.x := by
        have := sq_le_sq.mpr hc
        nlinarith
      nlinarith [mul_self_nonneg n.z]
    have hL : 0 < Real.sqrt (n.x * n.x + n.z * n.z) := Real.sqrt_pos.mpr hpos
    have hLL := Real.mul_self_sqrt hpos.le
    simp only [sqrt_real]
    rw [if_neg (by rw [isZero_real]; exact hL.ne')]
    generalize Real.sqrt _ = L at hL hLL ⊢
    refine ⟨_, _, rfl, ?_, ?_, ?_⟩
    · simp only [V3.dot_def]; field_simp; nlinarith
    · simp only [V3.dot_def]; field_simp; ring
    · apply V3.ext' <;> simp [V3.cross]
  · rw [if_neg hc]
    dsimp only
    have hy : n.y ≠ 0 := by
      intro h0; apply hc; rw [h0]; simp
    have hpos : 0 < n.y * n.y + n.z * n.z := by
      have : 0 < n.y * n.y := mul_self_pos.mpr hy
      nlinarith [mul_self_nonneg n.z]
    have hL : 0 < Real.sqrt (n.y * n.y + n.z * n.z) := Real.sqrt_pos.mpr hpos
    have hLL := Real.mul_self_sqrt hpos.le
    simp only [sqrt_real]
    rw [if_neg (by rw [isZero_real]; exact hL.ne')]
    generalize Real.sqrt _ = L at hL hLL ⊢
    refine ⟨_, _, rfl, ?_, ?_, ?_⟩
    · simp only [V3.dot_def]; field_simp; nlinarith
    · simp only [V3.dot_def]; field_simp; ring
    · apply V3.ext' <;> simp [V3.cross]

/-- completeness of the frame `(u, n × u, n)`: every vector is the sum of its three components -/
theorem frame_complete (u n W : V) (hu : V3.dot u u = 1) (hn : V3.dot n n = 1)
    (hun : V3.dot u n = 0) :
    W = V3.dot u W * u + V3.dot (V3.cross n u) W * (V3.cross n u) + V3.dot n W * n := by
  simp only [V3.dot_def] at hu hn hun
  apply V3.ext' <;>
    simp only [V3.dot_def, V3.cross, V3.add_x, V3.add_y, V3.add_z, V3.smul_x, V3.smul_y, V3.smul_z]
  · linear_combination
      (-W.x * (n.x * n.x + n.y * n.y + n.z * n.z) + (n.x * W.x + n.y * W.y + n.z * W.z) * n.x) * hu +
      (-W.x + (u.x * W.x + u.y * W.y + u.z * W.z) * u.x) * hn +
      (W.x * (u.x * n.x + u.y * n.y + u.z * n.z) - (n.x * W.x + n.y * W.y + n.z * W.z) * u.x -
        (u.x * W.x + u.y * W.y + u.z * W.z) * n.x) * hun
  · linear_combination
      (-W.y * (n.x * n.x + n.y * n.y + n.z * n.z) + (n.x * W.x + n.y * W.y + n.z * W.z) * n.y) * hu +
      (-W.y + (u.x * W.x + u.y * W.y + u.z * W.z) * u.y) * hn +
      (W.y * (u.x * n.x + u.y * n.y + u.z * n.z) - (n.x * W.x + n.y * W.y + n.z * W.z) * u.y -
        (u.x * W.x + u.y * W.y + u.z * W.z) * n.y) * hun
  · linear_combination
      (-W.z * (n.x * n.x + n.y * n.y + n.z * n.z) + (n.x * W.x + n.y * W.y + n.z * W.z) * n.z) * hu +
      (-W.z + (u.x * W.x + u.y * W.y + u.z * W.z) * u.z) * hn +
      (W.z * (u.x * n.x + u.y * n.y + u.z * n.z) - (n.x * W.x + n.y * W.y + n.z * W.z) * u.z -
        (u.x * W.x + u.y * W.y + u.z * W.z) * n.z) * hun

/-- Binet–Cauchy in the frame: the 2×2 determinant of the `(u, v)`-coordinates of `e0`, `e1` is
the component of `e0 × e1` along `n` -/
theorem frame_binet (u n e0 e1 : V) (hu : V3.dot u u = 1) (hun : V3.dot u n = 0) :
    V3.dot e0 u * V3.dot e1 (V3.cross n u) - V3.dot e1 u * V3.dot e0 (V3.cross n u) =
      V3.dot (V3.cross e0 e1) n := by
  simp only [V3.dot_def, V3.cross] at hu hun ⊢
  linear_combination
    ((e0.y * e1.z - e0.z * e1.y) * n.x + (e0.z * e1.x - e0.x * e1.z) * n.y +
      (e0.x * e1.y - e0.y * e1.x) * n.z) * hu -
    ((e0.y * e1.z - e0.z * e1.y) * u.x + (e0.z * e1.x - e0.x * e1.z) * u.y +
      (e0.x * e1.y - e0.y * e1.x) * u.z) * hun

/-! ### the plane-basis intersection test -/

/-- Cramer's rule for the 2×2 system of the test -/
theorem cramer2 (A B C D X Y : ℝ) (h : A * D - B * C ≠ 0) :
    (D * X - B * Y) / (A * D - B * C) * A + (A * Y - C * X) / (A * D - B * C) * B = X ∧
    (D * X - B * Y) / (A * D - B * C) * C + (A * Y - C * X) / (A * D - B * C) * D = Y := by
  constructor <;> rw [div_mul_eq_mul_div, div_mul_eq_mul_div, ← add_div, div_eq_iff h] <;> ring

/-- … and its uniqueness -/
theorem cramer2_unique (A B C D X Y p q : ℝ) (h : A * D - B * C ≠ 0)
    (h1 : p * A + q * B = X) (h2 : p * C + q * D = Y) :
    p = (D * X - B * Y) / (A * D - B * C) ∧ q = (A * Y - C * X) / (A * D - B * C) := by
  subst h1; subst h2
  constructor <;> rw [eq_div_iff h] <;> ring

/-- **the test finds the piercing point**: with `det ≠ 0`, `b0 = b0r/det`, `b1 = b1r/det` as in the
code, the triangle-plane point `a + b0·e0 + b1·e1` is the point `lp + t·ld` of the line, for
the line parameter `t` the code computes -/
theorem pierce_hit (lp ld a e0 e1 u : V) (hu : V3.dot u u = 1) (hn : V3.dot ld ld = 1)
    (hun : V3.dot u ld = 0)
    (hdet : V3.dot e0 u * V3.dot e1 (V3.cross ld u) - V3.dot e1 u * V3.dot e0 (V3.cross ld u) ≠ 0)
    (b0 b1 : ℝ)
    (hb0 : b0 = (V3.dot e1 (V3.cross ld u) * V3.dot u (lp - a) -
        V3.dot e1 u * V3.dot (V3.cross ld u) (lp - a)) /
      (V3.dot e0 u * V3.dot e1 (V3.cross ld u) - V3.dot e1 u * V3.dot e0 (V3.cross ld u)))
    (hb1 : b1 = (V3.dot e0 u * V3.dot (V3.cross ld u) (lp - a) -
        V3.dot e0 (V3.cross ld u) * V3.dot u (lp - a)) /
      (V3.dot e0 u * V3.dot e1 (V3.cross ld u) - V3.dot e1 u * V3.dot e0 (V3.cross ld u))) :
    lp + ((b0 * V3.dot e0 ld + b1 * V3.dot e1 ld) - V3.dot ld (lp - a)) * ld =
      a + (b0 * e0 + b1 * e1) := by
  set v := V3.cross ld u with hv
  set W : V := (a + (b0 * e0 + b1 * e1)) - lp with hW
  have hWu : V3.dot u W = b0 * V3.dot e0 u + b1 * V3.dot e1 u - V3.dot u (lp - a) := by
    rw [hW]; simp only [V3.dot_def, V3.sub_x, V3.sub_y, V3.sub_z, V3.add_x, V3.add_y, V3.add_z,
      V3.smul_x, V3.smul_y, V3.smul_z]; ring
  have hWv : V3.dot v W = b0 * V3.dot e0 v + b1 * V3.dot e1 v - V3.dot v (lp - a) := by
    rw [hW]; simp only [V3.dot_def, V3.sub_x, V3.sub_y, V3.sub_z, V3.add_x, V3.add_y, V3.add_z,
      V3.smul_x, V3.smul_y, V3.smul_z]; ring
  have hWn : V3.dot ld W = (b0 * V3.dot e0 ld + b1 * V3.dot e1 ld) - V3.dot ld (lp - a) := by
    rw [hW]; simp only [V3.dot_def, V3.sub_x, V3.sub_y, V3.sub_z, V3.add_x, V3.add_y, V3.add_z,
      V3.smul_x, V3.smul_y, V3.smul_z]; ring
  obtain ⟨hc1, hc2⟩ := cramer2 (V3.dot e0 u) (V3.dot e1 u) (V3.dot e0 v) (V3.dot e1 v)
    (V3.dot u (lp - a)) (V3.dot v (lp - a)) hdet
  have hu0 : V3.dot u W = 0 := by
    rw [hWu, hb0, hb1]; linarith
  have hv0 : V3.dot v W = 0 := by
    rw [hWv, hb0, hb1]; linarith
  have hc := frame_complete u ld W hu hn hun
  rw [← hv, hu0, hv0] at hc
  rw [← hWn]
  have hx := congrArg V3.x hc
  have hy := congrArg V3.y hc
  have hz := congrArg V3.z hc
  simp only [V3.add_x, V3.add_y, V3.add_z, V3.smul_x, V3.smul_y, V3.smul_z] at hx hy hz
  have hWx : W.x = a.x + (b0 * e0.x + b1 * e1.x) - lp.x := rfl
  have hWy : W.y = a.y + (b0 * e0.y + b1 * e1.y) - lp.y := rfl
  have hWz : W.z = a.z + (b0 * e0.z + b1 * e1.z) - lp.z := rfl
  apply V3.ext' <;> simp only [V3.add_x, V3.add_y, V3.add_z, V3.smul_x, V3.smul_y, V3.smul_z]
  · linarith
  · linarith
  · linarith

/-- **the test misses nothing**: if the line meets the plane of the triangle in the point with
barycentric coordinates `(wa, wb, wc)`, then `wb`, `wc` are the numbers `b0`, `b1` of the code -/
theorem pierce_unique (lp ld a b c u : V) (hun : V3.dot u ld = 0)
    (hdet : V3.dot (b - a) u * V3.dot (c - a) (V3.cross ld u) -
      V3.dot (c - a) u * V3.dot (b - a) (V3.cross ld u) ≠ 0)
    (τ wa wb wc : ℝ) (hs : wa + wb + wc = 1)
    (hmeet : lp + τ * ld = wa * a + wb * b + wc * c) :
    wb = (V3.dot (c - a) (V3.cross ld u) * V3.dot u (lp - a) -
        V3.dot (c - a) u * V3.dot (V3.cross ld u) (lp - a)) /
      (V3.dot (b - a) u * V3.dot (c - a) (V3.cross ld u) -
        V3.dot (c - a) u * V3.dot (b - a) (V3.cross ld u)) ∧
    wc = (V3.dot (b - a) u * V3.dot (V3.cross ld u) (lp - a) -
        V3.dot (b - a) (V3.cross ld u) * V3.dot u (lp - a)) /
      (V3.dot (b - a) u * V3.dot (c - a) (V3.cross ld u) -
        V3.dot (c - a) u * V3.dot (b - a) (V3.cross ld u)) := by
  have hvn : V3.dot (V3.cross ld u) ld = 0 := by
    simp only [V3.dot_def, V3.cross]; ring
  set v := V3.cross ld u with hv
  have hwa : wa = 1 - wb - wc := by linarith
  -- lp − a = wb·e0 + wc·e1 − τ·ld
  have hdiff : lp - a = wb * (b - a) + wc * (c - a) - τ * ld := by
    have hx := congrArg V3.x hmeet
    have hy := congrArg V3.y hmeet
    have hz := congrArg V3.z hmeet
    simp only [V3.add_x, V3.add_y, V3.add_z, V3.smul_x, V3.smul_y, V3.smul_z] at hx hy hz
    subst hwa
    apply V3.ext' <;> simp only [V3.sub_x, V3.sub_y, V3.sub_z, V3.add_x, V3.add_y, V3.add_z,
      V3.smul_x, V3.smul_y, V3.smul_z] <;> linarith
  have h1 : V3.dot u (lp - a) = wb * V3.dot (b - a) u + wc * V3.dot (c - a) u := by
    rw [hdiff]
    have : V3.dot u (wb * (b - a) + wc * (c - a) - τ * ld) =
        wb * V3.dot (b - a) u + wc * V3.dot (c - a) u - τ * V3.dot u ld := by
      simp only [V3.dot_def, V3.sub_x, V3.sub_y, V3.sub_z, V3.add_x, V3.add_y, V3.add_z,
        V3.smul_x, V3.smul_y, V3.smul_z]; ring
    rw [this, hun]; ring
  have h2 : V3.dot v (lp - a) = wb * V3.dot (b - a) v + wc * V3.dot (c - a) v := by
    rw [hdiff]
    have : V3.dot v (wb * (b - a) + wc * (c - a) - τ * ld) =
        wb * V3.dot (b - a) v + wc * V3.dot (c - a) v - τ * V3.dot v ld := by
      simp only [V3.dot_def, V3.sub_x, V3.sub_y, V3.sub_z, V3.add_x, V3.add_y, V3.add_z,
        V3.smul_x, V3.smul_y, V3.smul_z]; ring
    rw [this, hvn]; ring
  exact cramer2_unique _ _ _ _ _ _ wb wc hdet h1.symm h2.symm

/-! ### the edge loop -/

theorem triBoundary_sub (a b c y : V) (h : triBoundary a b c y) : triangleSet a b c y := by
  rcases h with ⟨t, h0, h1, rfl⟩ | ⟨t, h0, h1, rfl⟩ | ⟨t, h0, h1, rfl⟩
  · exact ⟨t, 0, 1 - t, h0, le_refl _, by linarith, by ring, by apply V3.ext' <;> simp <;> ring⟩
  · exact ⟨1 - t, t, 0, by linarith, h0, le_refl _, by ring, by apply V3.ext' <;> simp <;> ring⟩
  · exact ⟨0, 1 - t, t, le_refl _, by linarith, h0, by ring, by apply V3.ext' <;> simp <;> ring⟩

theorem le_norm_of_sq {d : ℝ} {w : V} (h : d * d ≤ V3.normSq w) : d ≤ V3.norm w := by
  by_contra hcon
  push Not at hcon
  have h1 := V3.norm_sq w
  have h2 := V3.norm_nonneg w
  nlinarith [h, h1, h2]

/-- **edge loop, every input** (edges and direction not degenerate for the code's `epsilon`, some
pair (line, boundary) closer than `MAX_FLOAT`): the loop succeeds, the returned points lie on the
line and on the boundary of the triangle, the distance is consistent, and no pair (point of the
line, point of an edge) is closer -/
theorem triEdgeLoop_boundary (lp ld a b c : V) (eps mf : ℝ) (heps : 0 < eps)
    (hld : eps < V3.dot ld ld)
    (hCA : eps ≤ V3.normSq (a - c)) (hAB : eps ≤ V3.normSq (b - a)) (hBC : eps ≤ V3.normSq (c - b))
    (hmf : ∃ (τ : ℝ) (y : V), triBoundary a b c y ∧ V3.norm ((lp + τ * ld) - y) < mf) :
    ∃ r, triEdgeLoop lp ld a b c eps mf = .ok r ∧ r.cpLine = lp + r.t * ld ∧
      triBoundary a b c r.cpPrim ∧ 0 ≤ r.dist ∧
      r.dist * r.dist = V3.normSq (r.cpLine - r.cpPrim) ∧
      ∀ (τ : ℝ) (y : V), triBoundary a b c y → r.dist * r.dist ≤ V3.normSq ((lp + τ * ld) - y) := by
  obtain ⟨r0, h0, g0⟩ := lineToLineSegment_spec lp ld c a eps heps hCA hld
  obtain ⟨r1, h1, g1⟩ := lineToLineSegment_spec lp ld a b eps heps hAB hld
  obtain ⟨r2, h2, g2⟩ := lineToLineSegment_spec lp ld b c eps heps hBC hld
  have hlt : r0.2.1 < mf ∨ r1.2.1 < mf ∨ r2.2.1 < mf := by
    obtain ⟨τ, y, hy, hlt⟩ := hmf
    rcases hy with h | h | h
    · left; exact lt_of_le_of_lt (le_norm_of_sq (g0.2.2.2.2 τ y h)) hlt
    · right; left; exact lt_of_le_of_lt (le_norm_of_sq (g1.2.2.2.2 τ y h)) hlt
    · right; right; exact lt_of_le_of_lt (le_norm_of_sq (g2.2.2.2.2 τ y h)) hlt
  obtain ⟨r, hr, l0, l1, l2, hP⟩ := triEdgeLoop_spec lp ld a b c eps mf r0 r1 r2 h0 h1 h2 hlt
  have hfeas := hP (fun d p q t => p = lp + t * ld ∧ triBoundary a b c q ∧ 0 ≤ d ∧
      d * d = V3.normSq (p - q))
    ⟨g0.1, Or.inl g0.2.1, g0.2.2.1, g0.2.2.2.1⟩
    ⟨g1.1, Or.inr (Or.inl g1.2.1), g1.2.2.1, g1.2.2.2.1⟩
    ⟨g2.1, Or.inr (Or.inr g2.2.1), g2.2.2.1, g2.2.2.2.1⟩
  obtain ⟨f1, f2, f3, f4⟩ := hfeas
  refine ⟨r, hr, f1, f2, f3, f4, ?_⟩
  intro τ y hy
  rcases hy with h | h | h
  · exact le_trans (mul_self_le_mul_self f3 l0) (g0.2.2.2.2 τ y h)
  · exact le_trans (mul_self_le_mul_self f3 l1) (g1.2.2.2.2 τ y h)
  · exact le_trans (mul_self_le_mul_self f3 l2) (g2.2.2.2.2 τ y h)

/-- **edge loop when the line misses the triangle**: the result is feasible and globally optimal
for (line, triangle) -/
theorem triEdgeLoop_good (lp ld a b c : V) (eps mf : ℝ)
    (hnd : 0 < V3.normSq (V3.cross (b - a) (c - a))) (heps : 0 < eps)
    (hld : eps < V3.dot ld ld)
    (hCA : eps ≤ V3.normSq (a - c)) (hAB : eps ≤ V3.normSq (b - a)) (hBC : eps ≤ V3.normSq (c - b))
    (hmf : ∃ (τ : ℝ) (y : V), triangleSet a b c y ∧ V3.norm ((lp + τ * ld) - y) < mf)
    (hmiss : LineMisses lp ld a b c) :
    ∃ r, triEdgeLoop lp ld a b c eps mf = .ok r ∧ LineTriGood lp ld a b c r := by
  have hld0 : 0 < V3.normSq ld := lt_trans heps hld
  have hmf' : ∃ (τ : ℝ) (y : V), triBoundary a b c y ∧ V3.norm ((lp + τ * ld) - y) < mf := by
    obtain ⟨τ, y, hy, hlt⟩ := hmf
    obtain ⟨τ', y', hy', hle⟩ := line_tri_to_boundary lp ld a b c hnd hld0 hmiss τ y hy
    exact ⟨τ', y', hy', lt_of_le_of_lt (Real.sqrt_le_sqrt hle) hlt⟩
  obtain ⟨r, hr, f1, f2, f3, f4, hopt⟩ :=
    triEdgeLoop_boundary lp ld a b c eps mf heps hld hCA hAB hBC hmf'
  refine ⟨r, hr, f1, triBoundary_sub a b c _ f2, f3, f4, ?_⟩
  intro τ y hy
  obtain ⟨τ', y', hy', hle⟩ := line_tri_to_boundary lp ld a b c hnd hld0 hmiss τ y hy
  exact le_trans (hopt τ' y' hy') hle

/-! ### the whole function -/

/-- `norm_vector` of a non-zero vector divides by the norm -/
theorem normVector_dot (N ld : V) (hN : 0 < V3.normSq N) :
    V3.dot (normVector N) ld = V3.dot N ld / V3.norm N := by
  have hL : 0 < V3.norm N := Real.sqrt_pos.mpr hN
  unfold normVector
  dsimp only
  rw [if_neg (by rw [isZero_real]; exact hL.ne')]
  simp only [V3.dot_def, V3.sdiv]
  field_simp

/-- the code's band test `epsilon < |normal·ld|` (with `epsilon ≥ 0`) implies that the line is not
parallel to the plane of the triangle -/
theorem band_nonpar (N ld : V) (eps : ℝ) (hN : 0 < V3.normSq N) (heps : 0 ≤ eps)
    (hb : eps < |V3.dot (normVector N) ld|) : V3.dot N ld ≠ 0 := by
  intro h0
  rw [normVector_dot N ld hN, h0] at hb
  simp at hb
  linarith

/-- **`_line_to_triangle`.** Triangle of non-zero area, unit direction, `0 < epsilon < 1`, every
edge at least `sqrt epsilon` long (otherwise `_line_to_line_segment` treats it as a point), some
pair (line, triangle) closer than `MAX_FLOAT`, and — the tolerance band — either the code runs
its piercing test (`epsilon < |normal·ld|`) or the line does not meet the triangle.  Then the
function succeeds and its result is feasible and globally optimal for (line, triangle). -/
theorem lineToTriangleFull_spec (lp ld a b c : V) (eps mf : ℝ)
    (hnd : 0 < V3.normSq (V3.cross (b - a) (c - a))) (hu : V3.dot ld ld = 1)
    (heps : 0 < eps) (heps1 : eps < 1)
    (hCA : eps ≤ V3.normSq (a - c)) (hAB : eps ≤ V3.normSq (b - a)) (hBC : eps ≤ V3.normSq (c - b))
    (hmf : ∃ (τ : ℝ) (y : V), triangleSet a b c y ∧ V3.norm ((lp + τ * ld) - y) < mf)
    (hband : eps < |V3.dot (normVector (V3.cross (b - a) (c - a))) ld| ∨ LineMisses lp ld a b c) :
    ∃ r, lineToTriangleFull lp ld a b c eps mf = .ok r ∧ LineTriGood lp ld a b c r := by
  have hld : eps < V3.dot ld ld := by rw [hu]; exact heps1
  unfold lineToTriangleFull
  dsimp only
  rw [absS_real]
  by_cases hb : eps < |V3.dot (normVector (V3.cross (b - a) (c - a))) ld|
  · rw [if_pos hb]
    obtain ⟨u, v, hpb, huu, hun, rfl⟩ := planeBasis_spec ld hu
    rw [hpb]
    simp only [bind, Except.bind]
    have hdet : V3.dot (b - a) u * V3.dot (c - a) (V3.cross ld u) -
        V3.dot (c - a) u * V3.dot (b - a) (V3.cross ld u) ≠ 0 := by
      rw [frame_binet u ld (b - a) (c - a) huu hun]
      exact band_nonpar _ ld eps hnd heps.le hb
    have hnz : ¬ isZero (V3.dot (b - a) u * V3.dot (c - a) (V3.cross ld u) -
        V3.dot (c - a) u * V3.dot (b - a) (V3.cross ld u)) := by
      rw [isZero_real]; exact hdet
    simp only [if_pos hnz]
    split_ifs with htest
    · refine ⟨_, rfl, rfl, ?_, le_refl _, ?_, ?_⟩
      · exact ⟨_, _, _, htest.1.1, htest.1.2, htest.2, by ring,
          by apply V3.ext' <;> simp <;> ring⟩
      · dsimp only
        rw [pierce_hit lp ld a (b - a) (c - a) u huu hu hun hdet _ _ rfl rfl]
        simp [V3.normSq_def]
      · intro τ y _
        dsimp only
        simpa using V3.normSq_nonneg _
    · apply triEdgeLoop_good lp ld a b c eps mf hnd heps hld hCA hAB hBC hmf
      rintro τ y ⟨wa, wb, wc, ha, hb', hc, hs, rfl⟩ hmeet
      obtain ⟨e1, e2⟩ := pierce_unique lp ld a b c u hun hdet τ wa wb wc hs hmeet
      apply htest
      rw [← e1, ← e2]
      exact ⟨⟨by linarith, hb'⟩, hc⟩
  · rw [if_neg hb]
    exact triEdgeLoop_good lp ld a b c eps mf hnd heps hld hCA hAB hBC hmf
      (hband.resolve_left hb)

/-- **`_line_to_triangle`, every input, also inside the band** (same well-formedness, no band
hypothesis; `MAX_FLOAT` above the distance from the line point to vertex A): the function
succeeds, the returned points lie on the line and in the triangle, the distance is consistent,
and it is never larger than the distance of any pair (point of the line, point of an edge). -/
theorem lineToTriangleFull_feasible (lp ld a b c : V) (eps mf : ℝ)
    (hnd : 0 < V3.normSq (V3.cross (b - a) (c - a))) (hu : V3.dot ld ld = 1)
    (heps : 0 < eps) (heps1 : eps < 1)
    (hCA : eps ≤ V3.normSq (a - c)) (hAB : eps ≤ V3.normSq (b - a)) (hBC : eps ≤ V3.normSq (c - b))
    (hmf : V3.norm (lp - a) < mf) :
    ∃ r, lineToTriangleFull lp ld a b c eps mf = .ok r ∧ r.cpLine = lp + r.t * ld ∧
      triangleSet a b c r.cpPrim ∧ 0 ≤ r.dist ∧
      r.dist * r.dist = V3.normSq (r.cpLine - r.cpPrim) ∧
      ∀ (τ : ℝ) (y : V), triBoundary a b c y → r.dist * r.dist ≤ V3.normSq ((lp + τ * ld) - y) := by
  have hld : eps < V3.dot ld ld := by rw [hu]; exact heps1
  have hmfB : ∃ (τ : ℝ) (y : V), triBoundary a b c y ∧ V3.norm ((lp + τ * ld) - y) < mf := by
    refine ⟨0, a, Or.inr (Or.inl ⟨0, le_refl _, zero_le_one, by apply V3.ext' <;> simp⟩), ?_⟩
    have : lp + (0 : ℝ) * ld = lp := by apply V3.ext' <;> simp
    rw [this]; exact hmf
  have hloop : ∃ r, triEdgeLoop lp ld a b c eps mf = .ok r ∧ r.cpLine = lp + r.t * ld ∧
      triangleSet a b c r.cpPrim ∧ 0 ≤ r.dist ∧
      r.dist * r.dist = V3.normSq (r.cpLine - r.cpPrim) ∧
      ∀ (τ : ℝ) (y : V), triBoundary a b c y →
        r.dist * r.dist ≤ V3.normSq ((lp + τ * ld) - y) := by
    obtain ⟨r, hr, f1, f2, f3, f4, f5⟩ :=
      triEdgeLoop_boundary lp ld a b c eps mf heps hld hCA hAB hBC hmfB
    exact ⟨r, hr, f1, triBoundary_sub a b c _ f2, f3, f4, f5⟩
  unfold lineToTriangleFull
  dsimp only
  rw [absS_real]
  by_cases hb : eps < |V3.dot (normVector (V3.cross (b - a) (c - a))) ld|
  · rw [if_pos hb]
    obtain ⟨u, v, hpb, huu, hun, rfl⟩ := planeBasis_spec ld hu
    rw [hpb]
    simp only [bind, Except.bind]
    have hdet : V3.dot (b - a) u * V3.dot (c - a) (V3.cross ld u) -
        V3.dot (c - a) u * V3.dot (b - a) (V3.cross ld u) ≠ 0 := by
      rw [frame_binet u ld (b - a) (c - a) huu hun]
      exact band_nonpar _ ld eps hnd heps.le hb
    have hnz : ¬ isZero (V3.dot (b - a) u * V3.dot (c - a) (V3.cross ld u) -
        V3.dot (c - a) u * V3.dot (b - a) (V3.cross ld u)) := by
      rw [isZero_real]; exact hdet
    simp only [if_pos hnz]
    split_ifs with htest
    · refine ⟨_, rfl, rfl, ?_, le_refl _, ?_, ?_⟩
      · exact ⟨_, _, _, htest.1.1, htest.1.2, htest.2, by ring,
          by apply V3.ext' <;> simp <;> ring⟩
      · dsimp only
        rw [pierce_hit lp ld a (b - a) (c - a) u huu hu hun hdet _ _ rfl rfl]
        simp [V3.normSq_def]
      · intro τ y _
        dsimp only
        simpa using V3.normSq_nonneg _
    · exact hloop
  · rw [if_neg hb]
    exact hloop

/-! ### inside the band the error is of the order `epsilon · diameter` -/

theorem band_aux1 (N ld : V) : V3.dot (V3.normSq N * ld - V3.dot N ld * N) N = 0 := by
  simp only [V3.dot_def, V3.normSq_def, V3.sub_x, V3.sub_y, V3.sub_z, V3.smul_x, V3.smul_y,
    V3.smul_z]; ring

theorem band_aux2 (N ld : V) (hu : V3.dot ld ld = 1) :
    V3.normSq (V3.normSq N * ld - V3.dot N ld * N) =
      V3.normSq N * (V3.normSq N - V3.dot N ld * V3.dot N ld) := by
  simp only [V3.dot_def, V3.normSq_def, V3.sub_x, V3.sub_y, V3.sub_z, V3.smul_x, V3.smul_y,
    V3.smul_z] at hu ⊢
  linear_combination ((N.x * N.x + N.y * N.y + N.z * N.z) * (N.x * N.x + N.y * N.y + N.z * N.z)) * hu

theorem normSq_smul (k : ℝ) (w : V) : V3.normSq (k * w) = k * k * V3.normSq w := by
  simp only [V3.normSq_def, V3.smul_x, V3.smul_y, V3.smul_z]; ring

/-- a line that meets the triangle in `z` and is not perpendicular to its plane: walking from `z`
along the in-plane part of the direction reaches an edge point `y'`; the line point above it is
`|N·ld| / sqrt(|N|² − (N·ld)²)` times `|y' − z|` away from it (`N = (b−a) × (c−a)`) -/
theorem band_pair (lp ld a b c z : V) (τ0 : ℝ)
    (hnd : 0 < V3.normSq (V3.cross (b - a) (c - a))) (hu : V3.dot ld ld = 1)
    (hK : V3.dot (V3.cross (b - a) (c - a)) ld * V3.dot (V3.cross (b - a) (c - a)) ld <
      V3.normSq (V3.cross (b - a) (c - a)))
    (hz : triangleSet a b c z) (hmeet : lp + τ0 * ld = z) :
    ∃ (τ' : ℝ) (y' : V), triBoundary a b c y' ∧
      V3.normSq ((lp + τ' * ld) - y') * (V3.normSq (V3.cross (b - a) (c - a)) -
        V3.dot (V3.cross (b - a) (c - a)) ld * V3.dot (V3.cross (b - a) (c - a)) ld) =
      V3.dot (V3.cross (b - a) (c - a)) ld * V3.dot (V3.cross (b - a) (c - a)) ld *
        V3.normSq (y' - z) := by
  generalize hN : V3.cross (b - a) (c - a) = N at hnd hK ⊢
  have hP2 := band_aux2 N ld hu
  obtain ⟨d0, d1, hd⟩ := inPlane_decomp (V3.normSq N * ld - V3.dot N ld * N) (b - a) (c - a)
    (by rw [hN]; exact hnd) (by rw [hN]; exact band_aux1 N ld)
  have hPpos : 0 < V3.normSq (V3.normSq N * ld - V3.dot N ld * N) := by
    rw [hP2]; exact mul_pos hnd (by linarith)
  have hneg : -(d0 + d1) < 0 ∨ d0 < 0 ∨ d1 < 0 := by
    by_contra hcon
    push Not at hcon
    have h0 : d0 = 0 := by linarith [hcon.1, hcon.2.1, hcon.2.2]
    have h1 : d1 = 0 := by linarith [hcon.1, hcon.2.1, hcon.2.2]
    rw [hd, h0, h1] at hPpos
    simp [V3.normSq_def] at hPpos
  obtain ⟨u, v, w, hu0, hv0, hw0, hs, rfl⟩ := hz
  obtain ⟨μ, hμ0, g1, g2, g3, gz⟩ := exit3 u v w (-(d0 + d1)) d0 d1 hu0 hv0 hw0 hneg
  have hx := congrArg V3.x hd
  have hy := congrArg V3.y hd
  have hz' := congrArg V3.z hd
  have mx := congrArg V3.x hmeet
  have my := congrArg V3.y hmeet
  have mz := congrArg V3.z hmeet
  simp only [V3.sub_x, V3.sub_y, V3.sub_z, V3.add_x, V3.add_y, V3.add_z,
    V3.smul_x, V3.smul_y, V3.smul_z] at hx hy hz' mx my mz
  refine ⟨τ0 + μ * V3.normSq N,
    (u + μ * (-(d0 + d1))) * a + (v + μ * d0) * b + (w + μ * d1) * c,
    edge_of_bary a b c _ _ _ g1 g2 g3 (by linear_combination hs) gz, ?_⟩
  have hxy : (lp + (τ0 + μ * V3.normSq N) * ld) -
      ((u + μ * (-(d0 + d1))) * a + (v + μ * d0) * b + (w + μ * d1) * c) =
      (μ * V3.dot N ld) * N := by
    apply V3.ext' <;> simp only [V3.sub_x, V3.sub_y, V3.sub_z, V3.add_x, V3.add_y, V3.add_z,
      V3.smul_x, V3.smul_y, V3.smul_z]
    · linear_combination mx + μ * hx
    · linear_combination my + μ * hy
    · linear_combination mz + μ * hz'
  have hyz : ((u + μ * (-(d0 + d1))) * a + (v + μ * d0) * b + (w + μ * d1) * c) -
      (u * a + v * b + w * c) = μ * (V3.normSq N * ld - V3.dot N ld * N) := by
    apply V3.ext' <;> simp only [V3.sub_x, V3.sub_y, V3.sub_z, V3.add_x, V3.add_y, V3.add_z,
      V3.smul_x, V3.smul_y, V3.smul_z]
    · linear_combination (-μ) * hx
    · linear_combination (-μ) * hy
    · linear_combination (-μ) * hz'
  rw [hxy, hyz, normSq_smul, normSq_smul, hP2]
  ring

/-- **`_line_to_triangle`, every input — the band is closed up to `epsilon · diameter`.** Same
well-formedness as `lineToTriangleFull_feasible`, no band hypothesis: the result is feasible and
either globally optimal, or the line meets the triangle (true distance 0) and the returned
distance `d` satisfies `d²·(1 − ε²) ≤ ε²·|y' − z|²` for two points `y'`, `z` of the triangle. -/
theorem lineToTriangleFull_within (lp ld a b c : V) (eps mf : ℝ)
    (hnd : 0 < V3.normSq (V3.cross (b - a) (c - a))) (hu : V3.dot ld ld = 1)
    (heps : 0 < eps) (heps1 : eps < 1)
    (hCA : eps ≤ V3.normSq (a - c)) (hAB : eps ≤ V3.normSq (b - a)) (hBC : eps ≤ V3.normSq (c - b))
    (hmf : V3.norm (lp - a) < mf) :
    ∃ r, lineToTriangleFull lp ld a b c eps mf = .ok r ∧ r.cpLine = lp + r.t * ld ∧
      triangleSet a b c r.cpPrim ∧ 0 ≤ r.dist ∧
      r.dist * r.dist = V3.normSq (r.cpLine - r.cpPrim) ∧
      ((∀ (τ : ℝ) (y : V), triangleSet a b c y →
          r.dist * r.dist ≤ V3.normSq ((lp + τ * ld) - y)) ∨
        ∃ y' z : V, triangleSet a b c y' ∧ triangleSet a b c z ∧ (∃ τ0 : ℝ, lp + τ0 * ld = z) ∧
          r.dist * r.dist * (1 - eps * eps) ≤ eps * eps * V3.normSq (y' - z)) := by
  by_cases hband : eps < |V3.dot (normVector (V3.cross (b - a) (c - a))) ld| ∨
      LineMisses lp ld a b c
  · obtain ⟨r, hr, f1, f2, f3, f4, f5⟩ := lineToTriangleFull_spec lp ld a b c eps mf hnd hu heps
      heps1 hCA hAB hBC
      ⟨0, a, ⟨1, 0, 0, zero_le_one, le_refl _, le_refl _, by ring, by apply V3.ext' <;> simp⟩, by
        have : lp + (0 : ℝ) * ld = lp := by apply V3.ext' <;> simp
        rw [this]; exact hmf⟩ hband
    exact ⟨r, hr, f1, f2, f3, f4, Or.inl f5⟩
  · push Not at hband
    obtain ⟨hk, hmeets⟩ := hband
    obtain ⟨τ0, z, hz, hmeet⟩ : ∃ (τ0 : ℝ) (z : V), triangleSet a b c z ∧ lp + τ0 * ld = z := by
      unfold LineMisses at hmeets
      push Not at hmeets
      exact hmeets
    obtain ⟨r, hr, f1, f2, f3, f4, f5⟩ := lineToTriangleFull_feasible lp ld a b c eps mf hnd hu
      heps heps1 hCA hAB hBC hmf
    refine ⟨r, hr, f1, f2, f3, f4, Or.inr ?_⟩
    -- k² ≤ ε²·|N|²
    have hL : 0 < V3.norm (V3.cross (b - a) (c - a)) := Real.sqrt_pos.mpr hnd
    have hLL := V3.norm_sq (V3.cross (b - a) (c - a))
    rw [normVector_dot _ _ hnd, abs_div, abs_of_pos hL, div_le_iff₀ hL] at hk
    have hk2 : V3.dot (V3.cross (b - a) (c - a)) ld * V3.dot (V3.cross (b - a) (c - a)) ld ≤
        eps * eps * V3.normSq (V3.cross (b - a) (c - a)) := by
      have h1 := abs_nonneg (V3.dot (V3.cross (b - a) (c - a)) ld)
      have h2 : |V3.dot (V3.cross (b - a) (c - a)) ld| * |V3.dot (V3.cross (b - a) (c - a)) ld| ≤
          (eps * V3.norm (V3.cross (b - a) (c - a))) * (eps * V3.norm (V3.cross (b - a) (c - a))) :=
        mul_self_le_mul_self h1 hk
      rw [abs_mul_abs_self] at h2
      calc _ ≤ _ := h2
        _ = eps * eps * (V3.norm (V3.cross (b - a) (c - a)) * V3.norm (V3.cross (b - a) (c - a))) := by ring
        _ = _ := by rw [hLL]
    have hee : eps * eps < 1 := by nlinarith
    have hK : V3.dot (V3.cross (b - a) (c - a)) ld * V3.dot (V3.cross (b - a) (c - a)) ld <
        V3.normSq (V3.cross (b - a) (c - a)) := by nlinarith
    obtain ⟨τ', y', hy', hpair⟩ := band_pair lp ld a b c z τ0 hnd hu hK hz hmeet
    refine ⟨y', z, triBoundary_sub a b c y' hy', hz, ⟨τ0, hmeet⟩, ?_⟩
    have hd := f5 τ' y' hy'
    have hD0 := V3.normSq_nonneg ((lp + τ' * ld) - y')
    generalize V3.normSq ((lp + τ' * ld) - y') = Dxy at hpair hd hD0
    have hS0 := V3.normSq_nonneg (y' - z)
    generalize V3.normSq (y' - z) = Syz at hpair hS0 ⊢
    generalize V3.dot (V3.cross (b - a) (c - a)) ld * V3.dot (V3.cross (b - a) (c - a)) ld = K
      at hpair hk2 hK
    generalize V3.normSq (V3.cross (b - a) (c - a)) = S at hpair hk2 hK hnd
    generalize r.dist * r.dist = D at hd ⊢
    -- Dxy·(S − K) = K·Syz,  K ≤ ε²S,  D ≤ Dxy
    have h1 : Dxy * (S * (1 - eps * eps)) ≤ Dxy * (S - K) := by
      exact mul_le_mul_of_nonneg_left (by linarith) hD0
    have h2 : K * Syz ≤ eps * eps * S * Syz := mul_le_mul_of_nonneg_right hk2 hS0
    have h3 : Dxy * (1 - eps * eps) ≤ eps * eps * Syz := by
      have : S * (Dxy * (1 - eps * eps)) ≤ S * (eps * eps * Syz) := by nlinarith
      exact le_of_mul_le_mul_left this hnd
    have h4 : D * (1 - eps * eps) ≤ Dxy * (1 - eps * eps) :=
      mul_le_mul_of_nonneg_right hd (by linarith)
    linarith

/-! ### `line_segment_to_triangle`, unconditional -/

theorem unit_sdiv (w : V) (h : 0 < V3.normSq w) :
    V3.dot (V3.sdiv w (V3.norm w)) (V3.sdiv w (V3.norm w)) = 1 := by
  have hL : 0 < V3.norm w := Real.sqrt_pos.mpr h
  have hLL := V3.norm_sq w
  rw [V3.normSq_def] at hLL
  simp only [V3.dot_def, V3.sdiv]
  field_simp
  nlinarith

/-- the carrier line, parametrised by the unit direction or by `e − s`, is the same set -/
theorem lineMisses_sdiv (s e a b c : V) (len : ℝ)
    (h : ∀ (τ : ℝ) (y : V), triangleSet a b c y → s + τ * (e - s) ≠ y) :
    LineMisses s (V3.sdiv (e - s) len) a b c := by
  intro τ y hy hmeet
  apply h (τ / len) y hy
  rw [← hmeet]
  apply V3.ext' <;> simp [V3.sdiv] <;> ring

/-- **`line_segment_to_triangle`.** Same well-formedness as `lineToTriangleFull_spec`, stated for
the segment: the result is feasible and globally optimal for (segment, triangle). -/
theorem lineSegmentToTriangle_spec (s e a b c : V) (eps mf : ℝ)
    (hnd : 0 < V3.normSq (V3.cross (b - a) (c - a))) (hse : 0 < V3.normSq (e - s))
    (heps : 0 < eps) (heps1 : eps < 1)
    (hCA : eps ≤ V3.normSq (a - c)) (hAB : eps ≤ V3.normSq (b - a)) (hBC : eps ≤ V3.normSq (c - b))
    (hmf : ∃ y : V, triangleSet a b c y ∧ V3.norm (s - y) < mf)
    (hband : eps < |V3.dot (normVector (V3.cross (b - a) (c - a)))
        (V3.sdiv (e - s) (V3.norm (e - s)))| ∨
      ∀ (τ : ℝ) (y : V), triangleSet a b c y → s + τ * (e - s) ≠ y) :
    ∃ res, lineSegmentToTriangle s e a b c eps mf = .ok res ∧ SegTriGood s e a b c res := by
  have hconv := convertSegmentToLine_pos s e hse
  have hdir : (convertSegmentToLine s e).1 = V3.sdiv (e - s) (V3.norm (e - s)) := by rw [hconv]
  obtain ⟨r, hr, hg⟩ := lineToTriangleFull_spec s (V3.sdiv (e - s) (V3.norm (e - s))) a b c eps mf
    hnd (unit_sdiv _ hse) heps heps1 hCA hAB hBC
    (by
      obtain ⟨y, hy, hlt⟩ := hmf
      refine ⟨0, y, hy, ?_⟩
      have : s + (0 : ℝ) * V3.sdiv (e - s) (V3.norm (e - s)) = s := by
        apply V3.ext' <;> simp
      rw [this]; exact hlt)
    (hband.imp id (lineMisses_sdiv s e a b c _))
  rw [← hdir] at hr hg
  exact lineSegmentToTriangle_of_line s e a b c eps mf hnd hse r hr hg

/-! ### inside the band: the tolerance artefact -/

/-- unit right triangle in the xy-plane, a unit direction with slope `≈ 1e-6` against that plane
(`m = 2·10⁶`, `ld = ((m²−1)/(m²+1), 0, 2m/(m²+1))`) through the interior point `(1/4, 1/4, 0)`:
the piercing test is skipped (`|normal·ld| ≤ epsilon`), the edge loop runs, and because the line
meets no edge the returned distance is positive although the line meets the triangle.
(The excess is of the order `epsilon·L`, i.e. within the tolerance of property C11.) -/
theorem lineToTriangleFull_band_witness (eps mf : ℝ) (heps : 0 < eps) (heps1 : eps < 1)
    (hmf : 1 < mf)
    (hz : (4000000 : ℝ) / 4000000000001 ≤ eps) :
    ∃ r, lineToTriangleFull (⟨1/4, 1/4, 0⟩ : V) ⟨3999999999999 / 4000000000001, 0, 4000000 / 4000000000001⟩
        ⟨0, 0, 0⟩ ⟨1, 0, 0⟩ ⟨0, 1, 0⟩ eps mf = .ok r ∧ 0 < r.dist := by
  set lp : V := ⟨1/4, 1/4, 0⟩ with hlp
  set ld : V := ⟨3999999999999 / 4000000000001, 0, 4000000 / 4000000000001⟩ with hld
  set a : V := ⟨0, 0, 0⟩ with ha
  set b : V := ⟨1, 0, 0⟩ with hb
  set c : V := ⟨0, 1, 0⟩ with hc
  have hN : V3.cross (b - a) (c - a) = ⟨0, 0, 1⟩ := by
    apply V3.ext' <;> simp [V3.cross, ha, hb, hc]
  have hNn : V3.norm (⟨0, 0, 1⟩ : V) = 1 := by
    rw [V3.norm_def, V3.normSq_def]; norm_num
  have hu : V3.dot ld ld = 1 := by rw [V3.dot_def, hld]; norm_num
  have hnb : ¬ eps < absS (V3.dot (normVector (V3.cross (b - a) (c - a))) ld) := by
    rw [absS_real, hN, normVector_dot _ _ (by rw [V3.normSq_def]; norm_num), hNn, not_lt]
    have : V3.dot (⟨0, 0, 1⟩ : V) ld = 4000000 / 4000000000001 := by
      rw [V3.dot_def, hld]; norm_num
    rw [this, div_one, abs_of_pos (by norm_num)]
    exact hz
  have hCA : eps ≤ V3.normSq (a - c) := by
    have : V3.normSq (a - c) = 1 := by rw [V3.normSq_def, ha, hc]; norm_num
    rw [this]; exact heps1.le
  have hAB : eps ≤ V3.normSq (b - a) := by
    have : V3.normSq (b - a) = 1 := by rw [V3.normSq_def, ha, hb]; norm_num
    rw [this]; exact heps1.le
  have hBC : eps ≤ V3.normSq (c - b) := by
    have : V3.normSq (c - b) = 2 := by rw [V3.normSq_def, hb, hc]; norm_num
    rw [this]; linarith
  have hmfB : ∃ (τ : ℝ) (y : V), triBoundary a b c y ∧ V3.norm ((lp + τ * ld) - y) < mf := by
    refine ⟨0, a, Or.inr (Or.inl ⟨0, le_refl _, zero_le_one, by apply V3.ext' <;> simp⟩), ?_⟩
    have h1 : V3.normSq ((lp + (0 : ℝ) * ld) - a) ≤ 1 := by
      rw [V3.normSq_def, hlp, ha]; norm_num
    have : V3.norm ((lp + (0 : ℝ) * ld) - a) ≤ 1 := by
      rw [V3.norm_def]; exact Real.sqrt_le_one.mpr h1 |>.trans (le_refl _)
    linarith
  obtain ⟨r, hr, f1, f2, f3, f4, -⟩ :=
    triEdgeLoop_boundary lp ld a b c eps mf heps (by rw [hu]; exact heps1) hCA hAB hBC hmfB
  refine ⟨r, ?_, ?_⟩
  · unfold lineToTriangleFull
    dsimp only
    rw [if_neg hnb]
    exact hr
  · rcases eq_or_lt_of_le f3 with h0 | hpos
    · exfalso
      have hzero : V3.normSq (r.cpLine - r.cpPrim) = 0 := by rw [← f4, ← h0]; ring
      have heq := V3.normSq_eq_zero hzero
      have hx := congrArg V3.x heq
      have hy := congrArg V3.y heq
      have hz' := congrArg V3.z heq
      rw [f1] at hx hy hz'
      simp only [V3.sub_x, V3.sub_y, V3.sub_z, V3.add_x, V3.add_y, V3.add_z, V3.smul_x, V3.smul_y,
        V3.smul_z, hlp, hld] at hx hy hz'
      rcases f2 with ⟨σ, _, _, hq⟩ | ⟨σ, _, _, hq⟩ | ⟨σ, _, _, hq⟩ <;>
        rw [hq] at hx hy hz' <;>
        simp only [V3.sub_x, V3.sub_y, V3.sub_z, V3.add_x, V3.add_y, V3.add_z, V3.smul_x, V3.smul_y,
          V3.smul_z, ha, hb, hc] at hx hy hz'
      · have ht : r.t = 0 := by
          have : r.t * (4000000 / 4000000000001) = 0 := by linarith
          rcases mul_eq_zero.mp this with h | h
          · exact h
          · norm_num at h
        rw [ht] at hx; norm_num at hx
      · norm_num at hy
      · have ht : r.t = 0 := by
          have : r.t * (4000000 / 4000000000001) = 0 := by linarith
          rcases mul_eq_zero.mp this with h | h
          · exact h
          · norm_num at h
        rw [ht] at hx; linarith
    · exact hpos

end DistPoly
end D3
