/-
C02 ⟵ C18 — the Jolt boolean GJK (`D3.IsectJolt.intersectionLoop`, `gjkLoop`) with the model of the REAL
simplex solver: the solver hypotheses of `D3/Proofs/IntersectJolt.lean` (`SolverInHull`, `SolverBeatsSegment`)
are *proved* for `Simplex.getClosestPointToOrigin` on `JoltGood` simplices (`Gjk.joltSolver_full`), the loop
invariant is proved through `update_simplex_y`, and the step-level theorems are lifted to every reachable loop
state and to the result of the whole function.

* `step_cases`          : complete inversion of `_intersection_loop` (which tests hold on which exit);
* `solver_facts`        : the contract of the real solver in the vocabulary of C02;
* `Inv`, `step_next_inv`: the loop invariant (four rows; valid prefix ⊆ `A ⊖ B`; `n ≤ 3`; first iteration or
                          `dir = -v`, `prev = |v|² > 0`, `v ∈ hull(valid prefix)`) and its preservation;
* `Reach`, `VisitedGood`, `reach_inv`, `gjkLoop_last_inv` : reachable loop states, the relativisation to the
                          C18 bands, the invariant in every reachable state, the last call of every run;
* `step_ok`, `loop_terminates` : no failure under the invariant, termination.
-/
import D3.Proofs.IntersectJolt
import D3.Proofs.GjkJoltSolver
import D3.Proofs.GjkTerm

namespace D3
namespace IsectJolt
open Isect
open GjkJolt (A4)

abbrev e1 : V := ⟨1, 0, 0⟩

/-! ### complete inversion of one call -/

/-- what `_intersection_loop` can return, with the tests that hold on each path -/
theorem step_cases {p q : V} {Y : Array V} {n : Nat} {tolSq prev : ℝ} {dir : V} {s : Step ℝ}
    (h : intersectionLoop p q Y n tolSq prev dir = .ok s) :
    (V3.dot dir (p - q) < -EPS ∧ s = ⟨.noIntersection, n, prev, Y, dir, 0⟩) ∨
    (¬ V3.dot dir (p - q) < -EPS ∧ n < Y.size ∧
      ∃ r, Simplex.getClosestPointToOrigin (Y.set! n (p - q)) (n + 1) prev = .ok r ∧
        ((r.success = false ∧ s = ⟨.noIntersection, n + 1, prev, Y.set! n (p - q), dir, 1⟩) ∨
         (r.success = true ∧ r.set = 0xf ∧ s = ⟨.intersection, n + 1, prev, Y.set! n (p - q), r.v, 2⟩) ∨
         (r.success = true ∧ r.set ≠ 0xf ∧ r.vLenSq ≤ tolSq ∧
            s = ⟨.intersection, n + 1, prev, Y.set! n (p - q), r.v, 3⟩) ∨
         (r.success = true ∧ r.set ≠ 0xf ∧ tolSq < r.vLenSq ∧
            ∃ m, maxYLengthSquared (Y.set! n (p - q)) (n + 1) = .ok m ∧
              ((r.vLenSq ≤ EPS * m ∧ s = ⟨.intersection, n + 1, prev, Y.set! n (p - q), r.v, 4⟩) ∨
               (EPS * m < r.vLenSq ∧ r.vLenSq ≤ prev ∧
                 ((prev - r.vLenSq ≤ EPS * prev ∧
                    s = ⟨.noIntersection, n + 1, prev, Y.set! n (p - q), -r.v, 5⟩) ∨
                  (EPS * prev < prev - r.vLenSq ∧
                    ∃ Y2 n2, Simplex.updateSimplexY (Y.set! n (p - q)) (n + 1) r.set = .ok (Y2, n2) ∧
                      s = ⟨.unknown, n2, r.vLenSq, Y2, -r.v, 6⟩))))))) := by
  unfold intersectionLoop at h
  simp only at h
  split at h
  · rename_i h0
    left; exact ⟨h0, by cases h; rfl⟩
  rename_i h0
  right
  refine ⟨h0, ?_⟩
  split at h
  · cases h
  rename_i hsz
  refine ⟨not_not.mp hsz, ?_⟩
  split at h
  · cases h
  rename_i r hr
  refine ⟨r, hr, ?_⟩
  split at h
  · rename_i hsucc
    left; exact ⟨by simpa using hsucc, by cases h; rfl⟩
  rename_i hsucc
  have hsucc' : r.success = true := by simpa using hsucc
  right
  split at h
  · rename_i hset
    left; exact ⟨hsucc', hset, by cases h; rfl⟩
  rename_i hset
  right
  split at h
  · rename_i htol
    left; exact ⟨hsucc', hset, htol, by cases h; rfl⟩
  rename_i htol
  right
  refine ⟨hsucc', hset, not_le.mp htol, ?_⟩
  split at h
  · cases h
  rename_i m hm
  refine ⟨m, hm, ?_⟩
  split at h
  · rename_i hrel
    left; exact ⟨hrel, by cases h; rfl⟩
  rename_i hrel
  right
  split at h
  · cases h
  rename_i hass
  refine ⟨not_le.mp hrel, not_not.mp hass, ?_⟩
  split at h
  · rename_i hst
    left; exact ⟨hst, by cases h; rfl⟩
  rename_i hst
  right
  refine ⟨not_le.mp hst, ?_⟩
  split at h
  · cases h
  rename_i Y2 n2 hupd
  exact ⟨Y2, n2, hupd, by cases h; rfl⟩

/-! ### the four rows: `A4` records and the arrays of the model -/

theorem toArray_set {Y Y1 : A4 V} {n : Nat} {w : V} (h : Y.set n w = .ok Y1) :
    Y.toArray.set! n w = Y1.toArray := by
  obtain ⟨y0, y1, y2, y3⟩ := Y
  match n, h with
  | 0, h => cases h; rfl
  | 1, h => cases h; rfl
  | 2, h => cases h; rfl
  | 3, h => cases h; rfl

theorem maxY_toArray (Y : A4 V) (n : Nat) (h1 : 1 ≤ n) (h4 : n ≤ 4) :
    maxYLengthSquared Y.toArray n = GjkJolt.maxYLengthSquared Y n := by
  obtain ⟨y0, y1, y2, y3⟩ := Y
  interval_cases n <;> rfl

/-- `update_simplex_y` on four rows keeps exactly the rows named by the set bits, in order; it cannot fail -/
theorem updateY_spec (Y1 : A4 V) (n : Nat) (h1 : 1 ≤ n) (h4 : n ≤ 4) (s : Nat) (hs : s < 2 ^ n) :
    ∃ (Y2 : A4 V) (k : Nat), Simplex.updateSimplexY Y1.toArray n s = .ok (Y2.toArray, k) ∧
      Y2.pre k = Gjk.keep s 0 (Y1.pre n) ∧ k ≤ n ∧ (s ≠ 15 → k ≤ 3) := by
  obtain ⟨y0, y1, y2, y3⟩ := Y1
  interval_cases n <;> interval_cases s <;>
    exact ⟨⟨_, _, _, _⟩, _, rfl, rfl, by decide, by decide⟩

/-! ### the real solver in the vocabulary of C02 -/

theorem gcp_of_joltSolver {Y : A4 V} {n : Nat} {prev : ℝ} {r : GjkJolt.SolveOut ℝ}
    (h : GjkJolt.joltSolver Y n prev = .ok r) :
    ∃ g, Simplex.getClosestPointToOrigin Y.toArray n prev = .ok g ∧
      r = ⟨g.success, g.v, g.vLenSq, g.set⟩ := by
  rw [Gjk.joltSolver_eq] at h
  cases hg : Simplex.getClosestPointToOrigin #[Y.r0, Y.r1, Y.r2, Y.r3] n prev with
  | error e => rw [hg] at h; cases h
  | ok g =>
    rw [hg] at h
    exact ⟨g, hg, (Except.ok.inj h).symm⟩

/-- **everything C02 uses of one call of the real solver** on a `JoltGood` simplex whose points lie in
`A ⊖ B`: it returns; `v_len_sq = |v|²`; `success ↔ v_len_sq < prev`; `v` is the minimum-norm point of the hull
of the stored points plus the new support point, a strictly positive combination of the points named by
`set`; `0xf` only with `v = 0`; and `v ∈ A ⊖ B` (convexity). -/
theorem solver_facts {A B : V → Prop} (hcA : ConvexSet A) (hcB : ConvexSet B) {Y4 : A4 V} {n : Nat}
    (hrows : ∀ y ∈ Y4.pre n, mdiff A B y) {w : V} (hw : mdiff A B w)
    {Y1 : A4 V} (hY1 : Y4.set n w = .ok Y1) (hgood : Gjk.JoltGood Y1 (n + 1)) (prev : ℝ) :
    ∃ r, Simplex.getClosestPointToOrigin (Y4.toArray.set! n w) (n + 1) prev = .ok r ∧
      r.vLenSq = V3.normSq r.v ∧ (r.success = true ↔ r.vLenSq < prev) ∧ r.set < 2 ^ (n + 1) ∧
      Gjk.IsMinNorm (Gjk.InHull (Y4.pre n ++ [w])) r.v ∧
      Gjk.InRelInt (Gjk.keep r.set 0 (Y4.pre n ++ [w])) r.v ∧ (r.set = 15 → r.v = ⟨0, 0, 0⟩) ∧
      mdiff A B r.v := by
  obtain ⟨hn3, hpre⟩ := Gjk.pre_set Y4 Y1 n w hY1
  obtain ⟨r, hr, hvl, hsucc, hset, hmin, hrel, h15⟩ :=
    Gjk.joltSolver_full Y1 (n + 1) prev (by omega) (by omega) hgood
  obtain ⟨g, hg, rfl⟩ := gcp_of_joltSolver hr
  rw [hpre] at hmin hrel
  refine ⟨g, by rw [toArray_set hY1]; exact hg, hvl, hsucc, hset, hmin, hrel, h15, ?_⟩
  have hK : Gjk.ConvexSet (mdiff A B) := mdiff_convex hcA hcB
  refine Gjk.hull_subset_convex hK ?_ hmin.1
  intro y hy
  rcases List.mem_append.mp hy with h' | h'
  · exact hrows y h'
  · simp at h'; rw [h']; exact hw

/-- **`SolverInHull` holds for the real solver** on `JoltGood` simplices of points of `A ⊖ B` -/
theorem solverInHull_real {A B : V → Prop} (hcA : ConvexSet A) (hcB : ConvexSet B) {Y4 : A4 V} {n : Nat}
    (hrows : ∀ y ∈ Y4.pre n, mdiff A B y) {w : V} (hw : mdiff A B w)
    {Y1 : A4 V} (hY1 : Y4.set n w = .ok Y1) (hgood : Gjk.JoltGood Y1 (n + 1)) (prev : ℝ) :
    ∀ r, Simplex.getClosestPointToOrigin (Y4.toArray.set! n w) (n + 1) prev = .ok r →
      SolverInHull (mdiff A B) r := by
  intro r hr
  obtain ⟨r', hr', hvl, _, _, _, _, h15, hmem⟩ := solver_facts hcA hcB hrows hw hY1 hgood prev
  rw [hr] at hr'
  cases hr'
  exact ⟨hmem, hvl, h15⟩

/-- **`SolverBeatsSegment` holds for the real solver** on `JoltGood` simplices when the previous iterate lies
in the hull of the stored points -/
theorem solverBeatsSegment_real {Y4 : A4 V} {n : Nat} {w vprev : V}
    (hv : Gjk.InHull (Y4.pre n) vprev)
    {Y1 : A4 V} (hY1 : Y4.set n w = .ok Y1) (hgood : Gjk.JoltGood Y1 (n + 1)) :
    ∀ r, Simplex.getClosestPointToOrigin (Y4.toArray.set! n w) (n + 1) (V3.normSq vprev) = .ok r →
      SolverBeatsSegment vprev w r := by
  intro r hr
  obtain ⟨hn3, hpre⟩ := Gjk.pre_set Y4 Y1 n w hY1
  obtain ⟨r', hr', hvl, hsucc, _, hmin, _, _⟩ :=
    Gjk.joltSolver_full Y1 (n + 1) (V3.normSq vprev) (by omega) (by omega) hgood
  obtain ⟨g, hg, rfl⟩ := gcp_of_joltSolver hr'
  rw [toArray_set hY1, hg] at hr
  cases hr
  rw [hpre] at hmin
  refine ⟨?_, ?_⟩
  · simp only at hsucc
    by_cases hlt : r.vLenSq < V3.normSq vprev
    · rw [hsucc.mpr hlt]; simp [hlt]
    · have : r.success = false := by
        cases hs : r.success
        · rfl
        · exact absurd (hsucc.mp hs) hlt
      rw [this]; simp [hlt]
  · intro t ht0 ht1
    simp only at hvl
    rw [hvl]
    exact hmin.2 _ (Gjk.hull_segment hv w t ht0 ht1)

/-! ### the loop invariant -/

/-- **loop invariant** at the head of the `while True` loop of `gjk_intersection_jolt`: at most three points are
stored, all of them points of `A ⊖ B`, and either nothing has happened yet (`n = 0`, `prev = MAX_FLOAT`,
`dir = e_x`) or `dir = -v`, `prev = |v|² > 0` for a point `v` of the hull of the stored points -/
structure Inv (A B : V → Prop) (Y4 : A4 V) (n : Nat) (prev : ℝ) (dir : V) : Prop where
  n3 : n ≤ 3
  rows : ∀ y ∈ Y4.pre n, mdiff A B y
  cur : (n = 0 ∧ prev = MAXF ∧ dir = e1) ∨
    (∃ v, dir = -v ∧ prev = V3.normSq v ∧ 0 < prev ∧ Gjk.InHull (Y4.pre n) v)

theorem inv_init (A B : V → Prop) (Y4 : A4 V) : Inv A B Y4 0 MAXF e1 :=
  ⟨by omega, fun y hy => by simp [A4.pre] at hy, Or.inl ⟨rfl, rfl, rfl⟩⟩

/-- under the invariant the current iterate (if any) is a point of `A ⊖ B` -/
theorem Inv.cur_mem {A B : V → Prop} (hcA : ConvexSet A) (hcB : ConvexSet B) {Y4 : A4 V} {n : Nat}
    {prev : ℝ} {dir : V} (h : Inv A B Y4 n prev dir) {v : V} (hv : Gjk.InHull (Y4.pre n) v) :
    mdiff A B v :=
  Gjk.hull_subset_convex (K := mdiff A B) (mdiff_convex hcA hcB) h.rows hv

/-- **the invariant is preserved** by every call that answers `Unknown` (through `update_simplex_y`, which
keeps the rows named by the solver's set bits), and `prev` shrinks by the factor `1 - EPSILON` while staying
above `tolerance²` -/
theorem step_next_inv {A B : V → Prop} (hcA : ConvexSet A) (hcB : ConvexSet B) {Y4 : A4 V} {n : Nat}
    {prev : ℝ} {dir : V} (hinv : Inv A B Y4 n prev dir) {p q : V} (hp : A p) (hq : B q) {tolSq : ℝ}
    (htol : 0 ≤ tolSq)
    (hgood : ∀ Y1, Y4.set n (p - q) = .ok Y1 → Gjk.JoltGood Y1 (n + 1)) {s : Step ℝ}
    (h : intersectionLoop p q Y4.toArray n tolSq prev dir = .ok s) (hs : s.state = .unknown) :
    ∃ Y4' : A4 V, s.Y = Y4'.toArray ∧ Inv A B Y4' s.nPoints s.prev s.dir ∧
      s.prev < (1 - EPS) * prev ∧ tolSq < s.prev ∧ s.br = 6 := by
  rcases step_cases h with ⟨_, rfl⟩ | ⟨_, _, r, hr, hcase⟩
  · cases hs
  rcases hcase with ⟨_, rfl⟩ | ⟨_, _, rfl⟩ | ⟨_, _, _, rfl⟩ | ⟨hsucc, hset, htl, m, hm, hcase⟩
  · cases hs
  · cases hs
  · cases hs
  rcases hcase with ⟨_, rfl⟩ | ⟨_, hle, hcase⟩
  · cases hs
  rcases hcase with ⟨_, rfl⟩ | ⟨hdec, Y2, n2, hupd, rfl⟩
  · cases hs
  obtain ⟨Y1, hY1⟩ := Gjk.set_ok Y4 n (p - q) hinv.n3
  have hw : mdiff A B (p - q) := ⟨p, q, hp, hq, rfl⟩
  obtain ⟨r', hr', hvl, _, hlt, hmin, hrel, _, _⟩ :=
    solver_facts hcA hcB hinv.rows hw hY1 (hgood Y1 hY1) prev
  rw [hr] at hr'
  cases hr'
  obtain ⟨_, hpre⟩ := Gjk.pre_set Y4 Y1 n _ hY1
  obtain ⟨Y2', k, hupd', hk, _, hk3⟩ :=
    updateY_spec Y1 (n + 1) (by omega) (by have := hinv.n3; omega) r.set hlt
  rw [toArray_set hY1, hupd'] at hupd
  cases hupd
  rw [hpre] at hk
  refine ⟨Y2', rfl, ⟨hk3 hset, ?_, Or.inr ⟨r.v, rfl, hvl, ?_, ?_⟩⟩, ?_, htl, rfl⟩
  · intro y hy
    rw [hk] at hy
    rcases List.mem_append.mp (Gjk.mem_of_mem_keep hy) with h' | h'
    · exact hinv.rows y h'
    · simp at h'; rw [h']; exact hw
  · show 0 < r.vLenSq
    linarith
  · show Gjk.InHull (Y2'.pre _) r.v
    rw [hk]; exact hrel.inHull
  · show r.vLenSq < (1 - EPS) * prev
    linarith [show (1 - EPS) * prev = prev - EPS * prev by ring]

/-! ### reachable loop states -/

/-- the loop-carried variables of `gjk_intersection_jolt` -/
structure LState where
  Y : Array V
  n : Nat
  prev : ℝ
  dir : V

/-- the loop variables after a call that answered `Unknown` -/
def Step.next (s : Step ℝ) : LState := ⟨s.Y, s.nPoints, s.prev, s.dir⟩

/-- the loop variables before the first iteration (`np.empty((4, 3))` is modelled by zeros) -/
def lstate0 : LState := ⟨#[⟨0, 0, 0⟩, ⟨0, 0, 0⟩, ⟨0, 0, 0⟩, ⟨0, 0, 0⟩], 0, MAXF, e1⟩

/-- the support point of `A ⊖ B` that the next iteration computes in state `st` -/
def LState.w (sA sB : V → V) (st : LState) : V := sA st.dir - sB (-st.dir)

/-- the loop states (at the head of the `while True` loop) reachable from `st0`: `st0` itself and the state
left by every call of `_intersection_loop` that answers `Unknown` -/
inductive Reach (sA sB : V → V) (tolSq : ℝ) (st0 : LState) : LState → Prop
  | init : Reach sA sB tolSq st0 st0
  | step {st : LState} {s : Step ℝ} : Reach sA sB tolSq st0 st →
      intersectionLoop (sA st.dir) (sB (-st.dir)) st.Y st.n tolSq st.prev st.dir = .ok s →
      s.state = .unknown → Reach sA sB tolSq st0 s.next

/-- **every simplex handed to the solver is good**: in every loop state reachable from `st0` in which the next
call does not leave through the separating-axis test, the simplex that call hands to
`get_closest_point_to_origin` (the stored rows with the new support point written to row `n`) satisfies
`good` -/
def VisitedGood (good : A4 V → Nat → Prop) (sA sB : V → V) (tolSq : ℝ) (st0 : LState) : Prop :=
  ∀ st, Reach sA sB tolSq st0 st → ¬ V3.dot st.dir (st.w sA sB) < -EPS →
    ∀ Y4 Y1 : A4 V, st.Y = Y4.toArray → Y4.set st.n (st.w sA sB) = .ok Y1 → good Y1 (st.n + 1)

theorem Reach.prepend {sA sB : V → V} {tolSq : ℝ} {st : LState} {s : Step ℝ}
    (hstep : intersectionLoop (sA st.dir) (sB (-st.dir)) st.Y st.n tolSq st.prev st.dir = .ok s)
    (hunk : s.state = .unknown) {t : LState} (h : Reach sA sB tolSq s.next t) :
    Reach sA sB tolSq st t := by
  induction h with
  | init => exact Reach.step Reach.init hstep hunk
  | step _ h2 h3 ih => exact Reach.step ih h2 h3

theorem VisitedGood.here {good : A4 V → Nat → Prop} {sA sB : V → V} {tolSq : ℝ} {st : LState}
    (h : VisitedGood good sA sB tolSq st) : ¬ V3.dot st.dir (st.w sA sB) < -EPS →
    ∀ Y4 Y1 : A4 V, st.Y = Y4.toArray → Y4.set st.n (st.w sA sB) = .ok Y1 → good Y1 (st.n + 1) :=
  h st Reach.init

theorem VisitedGood.next {good : A4 V → Nat → Prop} {sA sB : V → V} {tolSq : ℝ} {st : LState}
    (h : VisitedGood good sA sB tolSq st) {s : Step ℝ}
    (hstep : intersectionLoop (sA st.dir) (sB (-st.dir)) st.Y st.n tolSq st.prev st.dir = .ok s)
    (hunk : s.state = .unknown) : VisitedGood good sA sB tolSq s.next :=
  fun t ht => h t (ht.prepend hstep hunk)

/-- the invariant for a raw loop state -/
def LInv (A B : V → Prop) (st : LState) : Prop :=
  ∃ Y4 : A4 V, st.Y = Y4.toArray ∧ Inv A B Y4 st.n st.prev st.dir

theorem linv_lstate0 (A B : V → Prop) : LInv A B lstate0 :=
  ⟨⟨⟨0, 0, 0⟩, ⟨0, 0, 0⟩, ⟨0, 0, 0⟩, ⟨0, 0, 0⟩⟩, rfl, inv_init A B _⟩

theorem toArray_inj {Y Y' : A4 V} (h : Y.toArray = Y'.toArray) : Y = Y' := by
  obtain ⟨a, b, c, d⟩ := Y
  obtain ⟨a', b', c', d'⟩ := Y'
  simp only [A4.toArray] at h
  have := Array.toList_inj.mpr h
  simp at this
  obtain ⟨rfl, rfl, rfl, rfl⟩ := this
  rfl

/-- one continuing call from a state satisfying the invariant, with the hypothesis `VisitedGood` -/
theorem linv_step {A B : V → Prop} (hcA : ConvexSet A) (hcB : ConvexSet B) {sA sB : V → V}
    (hA : ∀ d, IsSupport A d (sA d)) (hB : ∀ d, IsSupport B d (sB d)) {tolSq : ℝ} (htol : 0 ≤ tolSq)
    {st : LState} (hinv : LInv A B st)
    (hgood : ¬ V3.dot st.dir (st.w sA sB) < -EPS →
      ∀ Y4 Y1 : A4 V, st.Y = Y4.toArray → Y4.set st.n (st.w sA sB) = .ok Y1 → Gjk.JoltGood Y1 (st.n + 1))
    {s : Step ℝ}
    (h : intersectionLoop (sA st.dir) (sB (-st.dir)) st.Y st.n tolSq st.prev st.dir = .ok s)
    (hs : s.state = .unknown) :
    LInv A B s.next ∧ s.next.prev < (1 - EPS) * st.prev ∧ tolSq < s.next.prev := by
  obtain ⟨Y4, hY, hinv4⟩ := hinv
  rw [hY] at h
  have hnot : ¬ V3.dot st.dir (st.w sA sB) < -EPS := by
    rcases step_cases h with ⟨_, rfl⟩ | ⟨h0, _⟩
    · cases hs
    · exact h0
  obtain ⟨Y4', hY', hinv', hdec, htl, _⟩ := step_next_inv hcA hcB hinv4 (hA _).1 (hB _).1 htol
    (fun Y1 hY1 => hgood hnot Y4 Y1 hY hY1) h hs
  exact ⟨⟨Y4', hY', hinv'⟩, hdec, htl⟩

/-- **the loop invariant holds in every reachable state** (hypothesis: `VisitedGood JoltGood`) -/
theorem reach_inv {A B : V → Prop} (hcA : ConvexSet A) (hcB : ConvexSet B) {sA sB : V → V}
    (hA : ∀ d, IsSupport A d (sA d)) (hB : ∀ d, IsSupport B d (sB d)) {tolSq : ℝ} (htol : 0 ≤ tolSq)
    {st0 : LState} (hinv0 : LInv A B st0) (hvis : VisitedGood Gjk.JoltGood sA sB tolSq st0) :
    ∀ st, Reach sA sB tolSq st0 st → LInv A B st := by
  intro st h
  induction h with
  | init => exact hinv0
  | @step st s hreach hstep hunk ih =>
    exact (linv_step hcA hcB hA hB htol ih (hvis st hreach) hstep hunk).1

/-- **discharging `VisitedGood`**: if every simplex of at most four points of `A ⊖ B` is outside the C18
bands, so is every simplex a run hands to the solver -/
theorem visitedGood_of_mdiff {A B : V → Prop} (hcA : ConvexSet A) (hcB : ConvexSet B) {sA sB : V → V}
    (hA : ∀ d, IsSupport A d (sA d)) (hB : ∀ d, IsSupport B d (sB d)) {tolSq : ℝ} (htol : 0 ≤ tolSq)
    (hall : ∀ (Y : A4 V) (n : Nat), n ≤ 4 → (∀ y ∈ Y.pre n, mdiff A B y) → Gjk.JoltGood Y n)
    {st0 : LState} (hinv0 : LInv A B st0) : VisitedGood Gjk.JoltGood sA sB tolSq st0 := by
  have key : ∀ st, LInv A B st → ∀ Y4 Y1 : A4 V, st.Y = Y4.toArray →
      Y4.set st.n (st.w sA sB) = .ok Y1 → Gjk.JoltGood Y1 (st.n + 1) := by
    intro st ⟨Y4', hY', hinv⟩ Y4 Y1 hY hY1
    have : Y4 = Y4' := toArray_inj (by rw [← hY, ← hY'])
    subst this
    obtain ⟨_, hpre⟩ := Gjk.pre_set Y4 Y1 st.n _ hY1
    refine hall Y1 _ (by have := hinv.n3; omega) ?_
    intro y hy
    rw [hpre] at hy
    rcases List.mem_append.mp hy with h' | h'
    · exact hinv.rows y h'
    · simp at h'; rw [h']
      exact ⟨_, _, (hA _).1, (hB _).1, rfl⟩
  have hreach : ∀ st, Reach sA sB tolSq st0 st → LInv A B st := by
    intro st h
    induction h with
    | init => exact hinv0
    | @step st s _ hstep hunk ih =>
      exact (linv_step hcA hcB hA hB htol ih (fun _ => key st ih) hstep hunk).1
  intro st hst _
  exact key st (hreach st hst)

/-! ### no failure, termination -/

theorem MAXF_pos : (0 : ℝ) < MAXF := by
  unfold MAXF D3.Gen.utils__MAX_FLOAT; norm_num

theorem Inv.prev_pos {A B : V → Prop} {Y4 : A4 V} {n : Nat} {prev : ℝ} {dir : V}
    (h : Inv A B Y4 n prev dir) : 0 < prev := by
  rcases h.cur with ⟨_, hp, _⟩ | ⟨_, _, _, hp, _⟩
  · rw [hp]; exact MAXF_pos
  · exact hp

/-- **no failure under the invariant**: on a `JoltGood` simplex `_intersection_loop` returns normally — no
`IndexError`, no `ZeroDivisionError` / `assert False` inside the solver, and `assert prev_v_len_sq >= v_len_sq`
is unreachable (it is only evaluated after `success`, i.e. `v_len_sq < prev_v_len_sq`) -/
theorem step_ok {A B : V → Prop} (hcA : ConvexSet A) (hcB : ConvexSet B) {Y4 : A4 V} {n : Nat}
    {prev : ℝ} {dir : V} (hinv : Inv A B Y4 n prev dir) {p q : V} (hp : A p) (hq : B q) (tolSq : ℝ)
    (hgood : ¬ V3.dot dir (p - q) < -EPS → ∀ Y1, Y4.set n (p - q) = .ok Y1 → Gjk.JoltGood Y1 (n + 1)) :
    ∃ s, intersectionLoop p q Y4.toArray n tolSq prev dir = .ok s := by
  unfold intersectionLoop
  simp only
  split
  · exact ⟨_, rfl⟩
  rename_i hnot
  have hsz : n < Y4.toArray.size := by
    show n < 4
    have := hinv.n3; omega
  rw [if_neg (not_not.mpr hsz)]
  obtain ⟨Y1, hY1⟩ := Gjk.set_ok Y4 n (p - q) hinv.n3
  have hw : mdiff A B (p - q) := ⟨p, q, hp, hq, rfl⟩
  obtain ⟨r, hr, hvl, hsucc, hlt, hmin, hrel, _, _⟩ :=
    solver_facts hcA hcB hinv.rows hw hY1 (hgood hnot Y1 hY1) prev
  rw [hr]
  simp only
  split
  · exact ⟨_, rfl⟩
  rename_i hs
  split
  · exact ⟨_, rfl⟩
  split
  · exact ⟨_, rfl⟩
  rw [toArray_set hY1, maxY_toArray Y1 (n + 1) (by omega) (by have := hinv.n3; omega)]
  obtain ⟨my, hmy, _⟩ := Gjk.maxY_spec Y1 (n + 1) (by omega) (by have := hinv.n3; omega)
  rw [hmy]
  simp only
  split
  · exact ⟨_, rfl⟩
  have hle : r.vLenSq ≤ prev := (hsucc.mp (by simpa using hs)).le
  rw [if_neg (not_not.mpr hle)]
  split
  · exact ⟨_, rfl⟩
  obtain ⟨Y2, k, hupd, _⟩ := updateY_spec Y1 (n + 1) (by omega) (by have := hinv.n3; omega) r.set hlt
  rw [hupd]
  exact ⟨_, rfl⟩

/-- the loop terminates once `(1−ε)ᵏ·prev ≤ tol²` for the fuel `k + 1` -/
theorem loop_terminates_aux {A B : V → Prop} (hcA : ConvexSet A) (hcB : ConvexSet B) {sA sB : V → V}
    (hA : ∀ d, IsSupport A d (sA d)) (hB : ∀ d, IsSupport B d (sB d)) {tolSq : ℝ} (htol : 0 ≤ tolSq) :
    ∀ (fuel k it : Nat) (st : LState), LInv A B st → VisitedGood Gjk.JoltGood sA sB tolSq st →
      (1 - EPS) ^ k * st.prev ≤ tolSq → k + 1 ≤ fuel →
      ∃ res, gjkLoop sA sB tolSq fuel it st.Y st.n st.prev st.dir = .ok res
  | 0, _, _, _, _, _, _, hf => by omega
  | fuel + 1, k, it, st, hinv, hvis, hk, hf => by
    obtain ⟨Y4, hY, hinv4⟩ := hinv
    have hprev := hinv4.prev_pos
    obtain ⟨s, hs⟩ := step_ok hcA hcB hinv4 (hA st.dir).1 (hB (-st.dir)).1 tolSq
      (fun hnot Y1 hY1 => hvis.here hnot Y4 Y1 hY hY1)
    rw [← hY] at hs
    unfold gjkLoop
    rw [hs]
    simp only
    split
    · rename_i hunk
      obtain ⟨hinv', hdec, htl⟩ := linv_step hcA hcB hA hB htol ⟨Y4, hY, hinv4⟩ hvis.here hs hunk
      match k, hk, hf with
      | 0, hk, _ =>
        exfalso
        simp only [pow_zero, one_mul] at hk
        nlinarith [EPS_pos]
      | k + 1, hk, hf =>
        apply loop_terminates_aux hcA hcB hA hB htol fuel k (it + 1) s.next hinv'
          (hvis.next hs hunk) _ (by omega)
        have hpow : 0 ≤ (1 - EPS : ℝ) ^ k := pow_nonneg (by linarith [EPS_lt_one]) k
        calc (1 - EPS) ^ k * s.next.prev ≤ (1 - EPS) ^ k * ((1 - EPS) * st.prev) :=
              mul_le_mul_of_nonneg_left hdec.le hpow
          _ = (1 - EPS) ^ (k + 1) * st.prev := by ring
          _ ≤ tolSq := hk
    · exact ⟨_, rfl⟩
    · exact ⟨_, rfl⟩

/-- **termination**: for `tolerance² > 0` there is a number of iterations `N` such that the `while True` loop
returns normally for every fuel `≥ N` (every continuing iteration multiplies `prev_v_len_sq` by less than
`1 - EPSILON` while it stays above `tolerance²`) -/
theorem loop_terminates {A B : V → Prop} (hcA : ConvexSet A) (hcB : ConvexSet B) {sA sB : V → V}
    (hA : ∀ d, IsSupport A d (sA d)) (hB : ∀ d, IsSupport B d (sB d)) {tolSq : ℝ} (htol : 0 < tolSq)
    {st : LState} (hinv : LInv A B st) (hvis : VisitedGood Gjk.JoltGood sA sB tolSq st) :
    ∃ N, ∀ fuel it, N ≤ fuel → ∃ res, gjkLoop sA sB tolSq fuel it st.Y st.n st.prev st.dir = .ok res := by
  obtain ⟨Y4, hY, hinv4⟩ := hinv
  have hprev := hinv4.prev_pos
  obtain ⟨k, hk⟩ := exists_pow_lt_of_lt_one (div_pos htol hprev)
    (show (1 - EPS : ℝ) < 1 by linarith [EPS_pos])
  refine ⟨k + 1, fun fuel it hf => ?_⟩
  exact loop_terminates_aux hcA hcB hA hB htol.le fuel k it st ⟨Y4, hY, hinv4⟩ hvis
    ((lt_div_iff₀ hprev).mp hk).le hf

/-! ### the last call of a run -/

/-- **every answer of the `while True` driver is the answer of one `_intersection_loop` call from a reachable
state that satisfies the invariant** -/
theorem gjkLoop_last_inv {A B : V → Prop} (hcA : ConvexSet A) (hcB : ConvexSet B) {sA sB : V → V}
    (hA : ∀ d, IsSupport A d (sA d)) (hB : ∀ d, IsSupport B d (sB d)) {tolSq : ℝ} (htol : 0 ≤ tolSq) :
    ∀ (fuel it : Nat) (st : LState) (b : Bool) (its br : Nat),
      LInv A B st → VisitedGood Gjk.JoltGood sA sB tolSq st →
      gjkLoop sA sB tolSq fuel it st.Y st.n st.prev st.dir = .ok (b, its, br) →
      ∃ (st' : LState) (s : Step ℝ), Reach sA sB tolSq st st' ∧ LInv A B st' ∧
        VisitedGood Gjk.JoltGood sA sB tolSq st' ∧
        intersectionLoop (sA st'.dir) (sB (-st'.dir)) st'.Y st'.n tolSq st'.prev st'.dir = .ok s ∧
        s.br = br ∧ (b = true → s.state = .intersection) ∧ (b = false → s.state = .noIntersection)
  | 0, _, _, _, _, _, _, _, h => by simp [gjkLoop] at h
  | fuel + 1, it, st, b, its, br, hinv, hvis, h => by
    unfold gjkLoop at h
    split at h
    · cases h
    rename_i s hs
    split at h
    · rename_i hunk
      obtain ⟨hinv', _, _⟩ := linv_step hcA hcB hA hB htol hinv hvis.here hs hunk
      obtain ⟨st', s', hreach, hrest⟩ := gjkLoop_last_inv hcA hcB hA hB htol fuel (it + 1) s.next b its br
        hinv' (hvis.next hs hunk) h
      exact ⟨st', s', hreach.prepend hs hunk, hrest⟩
    · rename_i hst
      cases h
      exact ⟨st, s, Reach.init, hinv, hvis, hs, rfl, fun _ => hst, fun hb => by simp at hb⟩
    · rename_i hst
      cases h
      exact ⟨st, s, Reach.init, hinv, hvis, hs, rfl, fun hb => by simp at hb, fun _ => hst⟩

/-! ### the exits of a call from a state satisfying the invariant -/

/-- **`true_sound` for the real solver, from the invariant**: an `Intersection` answer exhibits `a ∈ A`,
`b ∈ B` that coincide, or are at squared distance `≤ tolerance²`, or `≤ EPSILON·|y|²` for a point
`y ∈ A ⊖ B` (the longest stored point) -/
theorem step_true_inv {A B : V → Prop} (hcA : ConvexSet A) (hcB : ConvexSet B) {Y4 : A4 V} {n : Nat}
    {prev : ℝ} {dir : V} (hinv : Inv A B Y4 n prev dir) {p q : V} (hp : A p) (hq : B q) {tolSq : ℝ}
    (hgood : ∀ Y1, Y4.set n (p - q) = .ok Y1 → Gjk.JoltGood Y1 (n + 1)) {s : Step ℝ}
    (h : intersectionLoop p q Y4.toArray n tolSq prev dir = .ok s) (hs : s.state = .intersection) :
    ∃ a b, A a ∧ B b ∧
      ((s.br = 2 ∧ a = b) ∨ (s.br = 3 ∧ V3.normSq (a - b) ≤ tolSq) ∨
       (s.br = 4 ∧ ∃ y, mdiff A B y ∧ V3.normSq (a - b) ≤ EPS * V3.normSq y)) := by
  obtain ⟨Y1, hY1⟩ := Gjk.set_ok Y4 n (p - q) hinv.n3
  have hw : mdiff A B (p - q) := ⟨p, q, hp, hq, rfl⟩
  obtain ⟨a, b, ha, hb, hc⟩ := true_sound_step h hs
    (solverInHull_real hcA hcB hinv.rows hw hY1 (hgood Y1 hY1) prev)
  refine ⟨a, b, ha, hb, ?_⟩
  rcases hc with h2 | h3 | ⟨h4, m, hm, hle⟩
  · exact Or.inl h2
  · exact Or.inr (Or.inl h3)
  · refine Or.inr (Or.inr ⟨h4, ?_⟩)
    rw [toArray_set hY1, maxY_toArray Y1 (n + 1) (by omega) (by have := hinv.n3; omega)] at hm
    obtain ⟨my, hmy, _, y, hy, hye⟩ := Gjk.maxY_spec Y1 (n + 1) (by omega) (by have := hinv.n3; omega)
    rw [hm] at hmy
    cases hmy
    obtain ⟨_, hpre⟩ := Gjk.pre_set Y4 Y1 n _ hY1
    rw [hpre] at hy
    refine ⟨y, ?_, by rw [← hye]; exact hle⟩
    rcases List.mem_append.mp hy with h' | h'
    · exact hinv.rows y h'
    · simp at h'; rw [h']; exact hw

/-- **no `NoIntersection` answer on a deep pair, from the invariant** (all three False exits, first iteration
included): if the pair shares a point `δ`-inside both, `EPSILON·diam(A ⊖ B)² < 4δ²` and the first support
point is finite (`|w₀|² < (1-EPSILON)·MAX_FLOAT`), `_intersection_loop` cannot answer `NoIntersection` -/
theorem step_false_not_deep_inv {A B : V → Prop} (hcA : ConvexSet A) (hcB : ConvexSet B) {Y4 : A4 V}
    {n : Nat} {prev : ℝ} {dir : V} (hinv : Inv A B Y4 n prev dir) {p q : V}
    (hp : IsSupport A dir p) (hq : IsSupport B (-dir) q) {tolSq : ℝ}
    (hgood : ¬ V3.dot dir (p - q) < -EPS → ∀ Y1, Y4.set n (p - q) = .ok Y1 → Gjk.JoltGood Y1 (n + 1))
    {s : Step ℝ} (h : intersectionLoop p q Y4.toArray n tolSq prev dir = .ok s)
    (hs : s.state = .noIntersection) {δ : ℝ} (hδ : 0 < δ) (hdeep : SharedDeep A B δ)
    (hdiam : ∀ y y', mdiff A B y → mdiff A B y' → EPS * V3.normSq (y - y') < 4 * δ * δ)
    (hfin : dir = e1 → V3.normSq (p - q) < (1 - EPS) * MAXF) : False := by
  have hw := isSupport_mdiff hp hq
  obtain ⟨hbr0, hbr1, hbr2, hle⟩ := step_state_of_br h
  -- the separating-axis test cannot fire
  have hnot : ¬ V3.dot dir (p - q) < -EPS := by
    obtain ⟨z, hzA, hzB⟩ := hdeep
    have hm := deep_support_margin hδ.le hzA hzB hw
    have : 0 ≤ 2 * δ * V3.norm dir := by have := V3.norm_nonneg dir; positivity
    intro hlt
    linarith [EPS_pos]
  have hbr : s.br = 1 ∨ s.br = 5 := by
    rcases step_cases h with ⟨h0, _⟩ | ⟨_, _, r, _, hcase⟩
    · exact absurd h0 hnot
    rcases hcase with ⟨_, rfl⟩ | ⟨_, _, rfl⟩ | ⟨_, _, _, rfl⟩ | ⟨_, _, _, m, _, hcase⟩
    · exact Or.inl rfl
    · cases hs
    · cases hs
    rcases hcase with ⟨_, rfl⟩ | ⟨_, _, hcase⟩
    · cases hs
    rcases hcase with ⟨_, rfl⟩ | ⟨_, Y2, n2, _, rfl⟩
    · exact Or.inr rfl
    · cases hs
  obtain ⟨Y1, hY1⟩ := Gjk.set_ok Y4 n (p - q) hinv.n3
  have hg := hgood hnot Y1 hY1
  rcases hinv.cur with ⟨hn0, hprev, hdir⟩ | ⟨v, hdir, hprev, hpos, hv⟩
  · -- first iteration: the solver returns the support point itself, far below MAX_FLOAT
    obtain ⟨r, hr, hcase⟩ := step_noprogress h hbr
    obtain ⟨r', hr', hvl, hsucc, _, hmin, _, _, _⟩ :=
      solver_facts hcA hcB hinv.rows hw.1 hY1 hg prev
    rw [hr] at hr'
    cases hr'
    have hle' : r.vLenSq ≤ V3.normSq (p - q) := by
      rw [hvl]; exact hmin.2 _ (Gjk.hull_append_right _)
    have hf := hfin hdir
    have hM := MAXF_pos
    rw [hprev] at hsucc hcase
    rcases hcase with ⟨_, hfalse⟩ | ⟨_, _, hst⟩
    · have : r.vLenSq < MAXF := by nlinarith [EPS_pos]
      rw [hsucc.mpr this] at hfalse
      cases hfalse
    · nlinarith [EPS_pos]
  · subst hdir hprev
    exact false_stall_not_deep_step hδ hp hq h hbr hpos
      (solverBeatsSegment_real hv hY1 hg) hdeep
      (hdiam _ _ (hinv.cur_mem hcA hcB hv) hw.1)

/-! ### tools for discharging `VisitedGood` on a concrete pair -/

/-- `VisitedGood` from a predicate on loop states that holds initially, is preserved by every continuing
call and implies `good` for the simplex of the next call -/
theorem visitedGood_of_closed {good : A4 V → Nat → Prop} {sA sB : V → V} {tolSq : ℝ} {st0 : LState}
    (P : LState → Prop) (h0 : P st0)
    (hstep : ∀ st s, P st →
      intersectionLoop (sA st.dir) (sB (-st.dir)) st.Y st.n tolSq st.prev st.dir = .ok s →
      s.state = .unknown → P s.next)
    (hgood : ∀ st, P st → ∀ Y4 Y1 : A4 V, st.Y = Y4.toArray → Y4.set st.n (st.w sA sB) = .ok Y1 →
      good Y1 (st.n + 1)) : VisitedGood good sA sB tolSq st0 := by
  have hreach : ∀ st, Reach sA sB tolSq st0 st → P st := by
    intro st h
    induction h with
    | init => exact h0
    | @step st s _ hs hunk ih => exact hstep st s ih hs hunk
  intro st hst _ Y4 Y1 hY hY1
  exact hgood st (hreach st hst) Y4 Y1 hY hY1

/-- the first iteration, computed: if the call on the empty simplex answers `Unknown`, the loop continues with
the single stored point `w = p - q`, `dir = -w`, `prev = |w|²` -/
theorem first_step_next {Y4 : A4 V} {p q : V} {tolSq prev : ℝ} {dir : V} {s : Step ℝ}
    (h : intersectionLoop p q Y4.toArray 0 tolSq prev dir = .ok s) (hs : s.state = .unknown) :
    ∃ Y4' : A4 V, s.Y = Y4'.toArray ∧ s.nPoints = 1 ∧ Y4'.r0 = p - q ∧ s.dir = -(p - q) ∧
      s.prev = V3.normSq (p - q) := by
  obtain ⟨y0, y1, y2, y3⟩ := Y4
  have hg : Simplex.getClosestPointToOrigin ((A4.toArray ⟨y0, y1, y2, y3⟩).set! 0 (p - q)) (0 + 1) prev =
      .ok ⟨decide (V3.dot (p - q) (p - q) < prev), p - q, V3.dot (p - q) (p - q), 1, 1000⟩ := rfl
  rcases step_cases h with ⟨_, rfl⟩ | ⟨_, _, r, hr, hcase⟩
  · cases hs
  rw [hg] at hr
  cases hr
  rcases hcase with ⟨_, rfl⟩ | ⟨_, _, rfl⟩ | ⟨_, _, _, rfl⟩ | ⟨_, _, _, m, _, hcase⟩
  · cases hs
  · cases hs
  · cases hs
  rcases hcase with ⟨_, rfl⟩ | ⟨_, _, hcase⟩
  · cases hs
  rcases hcase with ⟨_, rfl⟩ | ⟨_, Y2, n2, hupd, rfl⟩
  · cases hs
  have hu : Simplex.updateSimplexY ((A4.toArray ⟨y0, y1, y2, y3⟩).set! 0 (p - q)) (0 + 1) 1 =
      .ok ((A4.toArray ⟨p - q, y1, y2, y3⟩), 1) := rfl
  simp only at hupd
  rw [hu] at hupd
  cases hupd
  exact ⟨⟨p - q, y1, y2, y3⟩, rfl, rfl, rfl, rfl, rfl⟩

end IsectJolt
end D3
