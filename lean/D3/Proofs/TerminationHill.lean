/-
Hill climbing (mesh support) terminates within #vertices moves — in any arithmetic.
-/
import D3.Spec.Real
import D3.Model.Termination
import Mathlib.Data.Finset.Card
import Mathlib.Data.Finset.Range
import Mathlib.Tactic.Linarith
import Mathlib.Order.Interval.Finset.Nat

set_option linter.unusedSectionVars false

namespace D3
namespace Term

section AnyArith
scalar_variables

open Classical in
/-- vertices (among `0 … n-1`) above vertex `i` in the relation `R` -/
noncomputable def above (R : Nat → Nat → Prop) (n i : Nat) : Finset Nat :=
  (Finset.range n).filter fun j => R i j

open Classical in
theorem above_ssubset (R : Nat → Nat → Prop) (hirr : ∀ i, ¬ R i i)
    (htr : ∀ i j k, R i j → R j k → R i k) (n i j : Nat) (hj : j < n) (h : R i j) :
    above R n j ⊂ above R n i := by
  rw [Finset.ssubset_iff_of_subset]
  · refine ⟨j, ?_, ?_⟩
    · simp [above, hj, h]
    · simp [above, hirr j]
  · intro k hk
    simp only [above, Finset.mem_filter, Finset.mem_range] at hk ⊢
    exact ⟨hk.1, htr _ _ _ h hk.2⟩

open Classical in
theorem above_card_lt (R : Nat → Nat → Prop) (hirr : ∀ i, ¬ R i i) (n i : Nat) (hi : i < n) :
    (above R n i).card < n := by
  have : above R n i ⊂ Finset.range n := by
    unfold above
    rw [Finset.ssubset_iff_of_subset (Finset.filter_subset _ _)]
    exact ⟨i, Finset.mem_range.mpr hi, by simp [hirr i]⟩
  simpa using Finset.card_lt_card this

/-- **hill climbing terminates in ANY arithmetic**: for every scalar type and every `-`, `<` on
it, if the acceptance test `thr < proj j - proj i` is contained in a strict order `R` on the
vertices, then on a graph whose neighbour lists stay inside `0 … n-1`, from every start vertex,
`fuel > #above` suffices, the number of moves is at most the number of vertices above the start
(≤ n − 1), and no neighbour of the result passes the test. -/
theorem hillClimb_terminates_any (proj : Nat → α) (nbrs : Nat → List Nat) (thr : α)
    (R : Nat → Nat → Prop) (hirr : ∀ i, ¬ R i i) (htr : ∀ i j k, R i j → R j k → R i k)
    (n : Nat) (hacc : ∀ i j, i < n → j < n → thr < proj j - proj i → R i j)
    (hn : ∀ i, i < n → ∀ j ∈ nbrs i, j < n) :
    ∀ (fuel i moves : Nat), i < n → (above R n i).card < fuel →
      ∃ r, hillClimb proj nbrs thr fuel i moves = some r ∧
        r.2 ≤ moves + (above R n i).card ∧ r.1 < n ∧
        ∀ j ∈ nbrs r.1, ¬ (thr < proj j - proj r.1) := by
  intro fuel
  induction fuel with
  | zero => intro i moves _ h; omega
  | succ fuel ih =>
    intro i moves hi hc
    simp only [hillClimb]
    cases hf : (nbrs i).find? (fun j => decide (thr < proj j - proj i)) with
    | none =>
      refine ⟨(i, moves), rfl, by simp, hi, ?_⟩
      intro j hj hlt
      have := List.find?_eq_none.mp hf j hj
      simp at this
      exact this hlt
    | some j =>
      have hjm : j ∈ nbrs i := List.mem_of_find?_eq_some hf
      have hjp : thr < proj j - proj i := by
        have := List.find?_some hf
        simpa using this
      have hjn : j < n := hn i hi j hjm
      have hss := Finset.card_lt_card (above_ssubset R hirr htr n i j hjn (hacc i j hi hjn hjp))
      obtain ⟨r, hr, hm, hrn, hloc⟩ := ih j (moves + 1) hjn (by omega)
      exact ⟨r, hr, by omega, hrn, hloc⟩

/-- instance: `<` a strict order on the scalars and `thr < a - b → b < a` (IEEE-754 comparison and
subtraction for `thr ≥ 0` or NaN; with NaN operands every test is false) -/
theorem hillClimb_terminates_strictOrder (proj : Nat → α) (nbrs : Nat → List Nat) (thr : α)
    (lt_irrefl : ∀ a : α, ¬ a < a) (lt_trans : ∀ a b c : α, a < b → b < c → a < c)
    (sub_pos : ∀ a b : α, thr < a - b → b < a)
    (n : Nat) (hn : ∀ i, i < n → ∀ j ∈ nbrs i, j < n) (i : Nat) (hi : i < n) (fuel : Nat)
    (hfuel : n ≤ fuel) :
    ∃ r, hillClimb proj nbrs thr fuel i 0 = some r ∧ r.2 + 1 ≤ n ∧ r.1 < n ∧
      ∀ j ∈ nbrs r.1, ¬ (thr < proj j - proj r.1) := by
  have hc := above_card_lt (fun a b => proj a < proj b) (fun _ => lt_irrefl _) n i hi
  obtain ⟨r, hr, hm, hrn, hloc⟩ :=
    hillClimb_terminates_any proj nbrs thr (fun a b => proj a < proj b) (fun _ => lt_irrefl _)
      (fun _ _ _ h1 h2 => lt_trans _ _ _ h1 h2) n (fun _ _ _ _ h => sub_pos _ _ h) hn fuel i 0 hi
      (by omega)
  exact ⟨r, hr, by omega, hrn, hloc⟩

end AnyArith

/-- vertices (among `0 … n-1`) that project strictly beyond vertex `i` -/
noncomputable def better (proj : Nat → ℝ) (n i : Nat) : Finset Nat :=
  (Finset.range n).filter fun j => proj i < proj j

/-- **hill climbing terminates** (exact reals): with a non-negative threshold, on a graph whose
neighbour lists stay inside `0 … n-1`, from every start vertex, fuel `n` suffices and the number of
moves is at most `n − 1`. -/
theorem hillClimb_terminates (proj : Nat → ℝ) (nbrs : Nat → List Nat) (thr : ℝ) (hthr : 0 ≤ thr)
    (n : Nat) (hn : ∀ i, i < n → ∀ j ∈ nbrs i, j < n) (i : Nat) (hi : i < n) (fuel : Nat)
    (hfuel : n ≤ fuel) :
    ∃ r, hillClimb proj nbrs thr fuel i 0 = some r ∧ r.2 + 1 ≤ n ∧ r.1 < n ∧
      ∀ j ∈ nbrs r.1, ¬ (proj r.1 + thr < proj j) := by
  obtain ⟨r, hr, hm, hrn, hloc⟩ := hillClimb_terminates_strictOrder proj nbrs thr
    (fun a => lt_irrefl a) (fun _ _ _ h1 h2 => lt_trans h1 h2) (fun a b h => by linarith) n hn i hi
    fuel hfuel
  exact ⟨r, hr, hm, hrn, fun j hj hlt => hloc j hj (by linarith)⟩

/-- **the defect before the repair, abstractly**: if the separately computed gains exceed the
threshold around a cycle `0 → 1 → 2 → 0`, the pre-repair climb exhausts every fuel -/
theorem hillClimb_asIs_before_fix_cycles {β : Type} [LT β] [DecidableLT β] (gain : Nat → Nat → β)
    (thr : β) (h01 : thr < gain 0 1) (h12 : thr < gain 1 2) (h20 : thr < gain 2 0) :
    ∀ (fuel i moves : Nat), i < 3 →
      hillClimb_asIs_before_fix gain (fun i => [(i + 1) % 3]) thr fuel i moves = none := by
  intro fuel
  induction fuel with
  | zero => intro i moves _; rfl
  | succ fuel ih =>
    intro i moves hi
    have hg : thr < gain i ((i + 1) % 3) := by
      have : i = 0 ∨ i = 1 ∨ i = 2 := by omega
      rcases this with rfl | rfl | rfl
      · exact h01
      · exact h12
      · exact h20
    simp only [hillClimb_asIs_before_fix, List.find?_cons, decide_eq_true hg]
    exact ih _ _ (Nat.mod_lt _ (by omega))

end Term
end D3
