/-
Hill climbing (mesh support) terminates within #vertices moves.
-/
import D3.Spec.Real
import D3.Model.Termination
import Mathlib.Data.Finset.Card
import Mathlib.Data.Finset.Range
import Mathlib.Tactic.Linarith
import Mathlib.Order.Interval.Finset.Nat

set_option linter.unusedSectionVars false

namespace D3
namespace Term

/-- vertices (among `0 … n-1`) that project strictly beyond vertex `i` -/
noncomputable def better (proj : Nat → ℝ) (n i : Nat) : Finset Nat :=
  (Finset.range n).filter fun j => proj i < proj j

theorem better_ssubset (proj : Nat → ℝ) (n i j : Nat) (hj : j < n) (h : proj i < proj j) :
    better proj n j ⊂ better proj n i := by
  rw [Finset.ssubset_iff_of_subset]
  · refine ⟨j, ?_, ?_⟩
    · simp [better, hj, h]
    · simp [better]
  · intro k hk
    simp only [better, Finset.mem_filter, Finset.mem_range] at hk ⊢
    exact ⟨hk.1, lt_trans h hk.2⟩

/-- **hill climbing terminates**: with a non-negative threshold, on a graph whose neighbour
lists stay inside `0 … n-1`, from every start vertex, `fuel > #better` suffices and the number
of moves is at most the number of vertices that project beyond the start (≤ n). -/
theorem hillClimb_terminates (proj : Nat → ℝ) (nbrs : Nat → List Nat) (thr : ℝ) (hthr : 0 ≤ thr)
    (n : Nat) (hn : ∀ i, i < n → ∀ j ∈ nbrs i, j < n) :
    ∀ (fuel i moves : Nat), i < n → (better proj n i).card < fuel →
      ∃ r, hillClimb proj nbrs thr fuel i moves = some r ∧
        r.2 ≤ moves + (better proj n i).card ∧ r.1 < n ∧
        ∀ j ∈ nbrs r.1, ¬ (proj r.1 + thr < proj j) := by
  intro fuel
  induction fuel with
  | zero => intro i moves _ h; omega
  | succ fuel ih =>
    intro i moves hi hc
    simp only [hillClimb]
    cases hf : (nbrs i).find? (fun j => decide (proj i + thr < proj j)) with
    | none =>
      refine ⟨(i, moves), rfl, by simp, hi, ?_⟩
      intro j hj hlt
      have := List.find?_eq_none.mp hf j hj
      simp at this
      linarith
    | some j =>
      have hjm : j ∈ nbrs i := List.mem_of_find?_eq_some hf
      have hjp : proj i + thr < proj j := by
        have := List.find?_some hf
        simpa using this
      have hjn : j < n := hn i hi j hjm
      have hlt : proj i < proj j := by linarith
      have hss := Finset.card_lt_card (better_ssubset proj n i j hjn hlt)
      obtain ⟨r, hr, hm, hrn, hloc⟩ := ih j (moves + 1) hjn (by omega)
      exact ⟨r, hr, by omega, hrn, hloc⟩

theorem better_card_le (proj : Nat → ℝ) (n i : Nat) : (better proj n i).card ≤ n := by
  calc (better proj n i).card ≤ (Finset.range n).card := Finset.card_filter_le _ _
    _ = n := Finset.card_range n

end Term
end D3
