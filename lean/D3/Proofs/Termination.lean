/-
Termination lemmas for C19.
-/
import D3.Spec.Real
import D3.Model.Termination
import Mathlib.Tactic.Linarith
import Mathlib.Tactic.Positivity
import Mathlib.Tactic.FieldSimp
import Mathlib.Tactic.Ring
import Mathlib.Algebra.Order.Archimedean.Basic

set_option linter.unusedSectionVars false

namespace D3
namespace Term

/-- a capped loop runs its body at most `cap` times -/
theorem runCapped_count_le {σ : Type} (body : σ → σ × Bool) :
    ∀ (cap : Nat) (s : σ) (n : Nat), (runCapped body cap s n).2 ≤ n + cap := by
  intro cap
  induction cap with
  | zero => intro s n; simp [runCapped]
  | succ cap ih =>
    intro s n
    simp only [runCapped]
    split
    · have := ih (body s).1 (n + 1); omega
    · omega

/-- the relation between consecutive squared lengths of a *continuing* Jolt iteration -/
def Continues (eps tolSq prev v : ℝ) : Prop :=
  v < prev ∧ tolSq < v ∧ eps * prev < prev - v

/-- an `Unknown` (go round again) outcome of `_distance_loop` forces the relation, and the
new `prev_v_len_sq` is the new `v_len_sq` -/
theorem distStep_unknown (eps tolSq maxDistSq prev v : ℝ) (s : StepIn ℝ) (prev' v' : ℝ)
    (heps : 0 ≤ eps) (hprev : 0 ≤ prev) (hv : v ≤ prev)
    (h : distStep eps tolSq maxDistSq prev v s = (.unknown, prev', v')) :
    Continues eps tolSq prev v' ∧ prev' = v' := by
  unfold distStep at h
  split_ifs at h with h1 h2 h3 h4 h5
  · cases h
  · cases h
  · cases h
  · cases h
  · cases h
  simp only [Prod.mk.injEq, true_and] at h
  obtain ⟨hp, hvv⟩ := h
  subst hvv
  refine ⟨⟨?_, not_le.mp h3, not_le.mp h5⟩, hp.symm⟩
  by_cases hs : succeeded prev s = true
  · simp only [vAfter, hs, if_true]
    simp only [succeeded, Bool.and_eq_true, decide_eq_true_eq] at hs
    exact hs.2
  · simp only [vAfter, hs, Bool.false_eq_true, if_false] at h5 ⊢
    have : 0 ≤ eps * prev := mul_nonneg heps hprev
    rcases lt_or_eq_of_le hv with hlt | heq
    · exact hlt
    · exfalso; apply h5; rw [heq]; linarith

/-- an `Unknown` outcome of `_intersection_loop` forces the relation -/
theorem interStep_unknown (eps tolSq prev : ℝ) (s : StepIn ℝ) (prev' : ℝ)
    (h : interStep eps tolSq prev s = (.unknown, prev')) :
    Continues eps tolSq prev prev' := by
  unfold interStep at h
  split_ifs at h with h1 h2 h3 h4 h5 h6
  · cases h
  · cases h
  · cases h
  · cases h
  · cases h
  · cases h
  simp only [Prod.mk.injEq, true_and] at h
  subst h
  have hs : succeeded prev s = true := by
    cases hh : succeeded prev s with
    | true => rfl
    | false => simp [hh] at h2
  simp only [succeeded, Bool.and_eq_true, decide_eq_true_eq] at hs
  exact ⟨hs.2, not_le.mp h4, not_le.mp h6⟩

/-- Bernoulli: `(1 - ε)^n ≤ 1 / (1 + n ε)` for `0 ≤ ε ≤ 1` -/
theorem pow_one_sub_le (eps : ℝ) (h0 : 0 ≤ eps) (h1 : eps ≤ 1) (n : ℕ) :
    (1 - eps) ^ n * (1 + n * eps) ≤ 1 := by
  induction n with
  | zero => simp
  | succ n ih =>
    have hb : 0 ≤ 1 - eps := by linarith
    have hn : (0 : ℝ) ≤ n := Nat.cast_nonneg n
    have hp : 0 ≤ (1 - eps) ^ n := pow_nonneg hb n
    have key : (1 - eps) * (1 + (n + 1 : ℝ) * eps) ≤ 1 + n * eps := by
      nlinarith [mul_nonneg hn (mul_nonneg h0 h0), mul_nonneg h0 h0]
    calc (1 - eps) ^ (n + 1) * (1 + ((n + 1 : ℕ) : ℝ) * eps)
        = (1 - eps) ^ n * ((1 - eps) * (1 + (n + 1 : ℝ) * eps)) := by push_cast; ring
      _ ≤ (1 - eps) ^ n * (1 + n * eps) := mul_le_mul_of_nonneg_left key hp
      _ ≤ 1 := ih

/-- along `n` consecutive continuing iterations the squared length contracts geometrically -/
theorem continues_contract (eps tolSq : ℝ) (h0 : 0 < eps) (h1 : eps < 1) (s : ℕ → ℝ) :
    ∀ n, (∀ k, k < n → Continues eps tolSq (s k) (s (k + 1))) → 0 ≤ s 0 →
      s n ≤ (1 - eps) ^ n * s 0 ∧ (0 < n → tolSq < s n) := by
  intro n
  induction n with
  | zero => intro _ _; simp
  | succ n ih =>
    intro h hs0
    obtain ⟨ihc, _⟩ := ih (fun k hk => h k (Nat.lt_succ_of_lt hk)) hs0
    obtain ⟨_, htol, hprog⟩ := h n (Nat.lt_succ_self n)
    have hb : 0 ≤ 1 - eps := by linarith
    refine ⟨?_, fun _ => htol⟩
    calc s (n + 1) ≤ (1 - eps) * s n := by linarith
      _ ≤ (1 - eps) * ((1 - eps) ^ n * s 0) := mul_le_mul_of_nonneg_left ihc hb
      _ = (1 - eps) ^ (n + 1) * s 0 := by ring

/-- **explicit iteration bound**: `n` consecutive continuing iterations from squared length
`s 0` with tolerance `tolSq > 0` satisfy `n · ε < s 0 / tolSq` — in particular there is no
infinite continuing run. -/
theorem continues_bound (eps tolSq : ℝ) (h0 : 0 < eps) (h1 : eps < 1) (htol : 0 < tolSq)
    (s : ℕ → ℝ) (n : ℕ) (hn : 0 < n)
    (h : ∀ k, k < n → Continues eps tolSq (s k) (s (k + 1))) (hs0 : 0 ≤ s 0) :
    (n : ℝ) * eps * tolSq < s 0 := by
  obtain ⟨hc, ht⟩ := continues_contract eps tolSq h0 h1 s n h hs0
  have ht := ht hn
  have hB := pow_one_sub_le eps h0.le h1.le n
  have hpos : 0 < 1 + (n : ℝ) * eps := by positivity
  have hp : 0 ≤ (1 - eps) ^ n := pow_nonneg (by linarith) n
  -- tolSq < s n ≤ (1-ε)^n s0  and (1-ε)^n (1+nε) ≤ 1
  have h2 : tolSq * (1 + n * eps) < (1 - eps) ^ n * s 0 * (1 + n * eps) := by
    have : tolSq < (1 - eps) ^ n * s 0 := lt_of_lt_of_le ht hc
    exact mul_lt_mul_of_pos_right this hpos
  have h3 : (1 - eps) ^ n * s 0 * (1 + n * eps) ≤ s 0 := by
    calc (1 - eps) ^ n * s 0 * (1 + n * eps) = ((1 - eps) ^ n * (1 + n * eps)) * s 0 := by ring
      _ ≤ 1 * s 0 := mul_le_mul_of_nonneg_right hB hs0
      _ = s 0 := one_mul _
  nlinarith [mul_pos htol (mul_pos (Nat.cast_pos.mpr hn : (0:ℝ) < n) h0)]

/-- no infinite continuing run exists -/
theorem no_infinite_run (eps tolSq : ℝ) (h0 : 0 < eps) (h1 : eps < 1) (htol : 0 < tolSq)
    (s : ℕ → ℝ) (hs0 : 0 ≤ s 0) :
    ¬ ∀ k, Continues eps tolSq (s k) (s (k + 1)) := by
  intro hall
  obtain ⟨n, hn⟩ := exists_nat_gt (s 0 / (eps * tolSq))
  have hpos : 0 < eps * tolSq := mul_pos h0 htol
  have hn' : s 0 < n * (eps * tolSq) := by
    rwa [div_lt_iff₀ hpos] at hn
  have hnpos : 0 < n := by
    rcases Nat.eq_zero_or_pos n with h | h
    · subst h; simp at hn'; linarith
    · exact h
  have := continues_bound eps tolSq h0 h1 htol s n hnpos (fun k _ => hall k) hs0
  nlinarith

/-- contraction along a recorded run of `_distance_loop`: if all `steps` iterations continue
(`distRun` reports `unknown` after consuming the whole record) then the final squared length is
above the tolerance and below `(1-ε)^n · prev`. -/
theorem distRun_unknown (eps tolSq maxDistSq : ℝ) (h0 : 0 < eps) (h1 : eps < 1) (htol : 0 ≤ tolSq) :
    ∀ (steps : List (StepIn ℝ)) (prev v : ℝ) (k m : Nat), 0 ≤ prev → v ≤ prev →
      distRun eps tolSq maxDistSq prev v steps k = (.unknown, m) →
      m = k + steps.length ∧
      (steps ≠ [] → ∃ vfin, tolSq < vfin ∧ vfin ≤ (1 - eps) ^ steps.length * prev) := by
  intro steps
  induction steps with
  | nil =>
    intro prev v k m _ _ h
    simp only [distRun, Prod.mk.injEq, true_and] at h
    exact ⟨by simp [h], fun hne => absurd rfl hne⟩
  | cons s ss ih =>
    intro prev v k m hprev hv h
    simp only [distRun] at h
    split at h
    · rename_i prev' v' hstep
      obtain ⟨⟨hlt, htl, hprog⟩, hpv⟩ := distStep_unknown eps tolSq maxDistSq prev v s prev' v' h0.le hprev hv hstep
      subst hpv
      have hv'0 : 0 ≤ prev' := le_trans htol htl.le
      obtain ⟨hm, hfin⟩ := ih prev' prev' (k + 1) m hv'0 (le_refl _) h
      refine ⟨by simp [hm]; omega, fun _ => ?_⟩
      have hstep' : prev' ≤ (1 - eps) * prev := by linarith
      have hb : 0 ≤ 1 - eps := by linarith
      by_cases hss : ss = []
      · subst hss
        exact ⟨prev', htl, by simpa using hstep'⟩
      · obtain ⟨vf, hvf1, hvf2⟩ := hfin hss
        refine ⟨vf, hvf1, le_trans hvf2 ?_⟩
        have hp : 0 ≤ (1 - eps) ^ ss.length := pow_nonneg hb _
        calc (1 - eps) ^ ss.length * prev' ≤ (1 - eps) ^ ss.length * ((1 - eps) * prev) :=
              mul_le_mul_of_nonneg_left hstep' hp
          _ = (1 - eps) ^ (s :: ss).length * prev := by simp [pow_succ]; ring
    · rename_i e p' v' hne hstep
      simp only [Prod.mk.injEq] at h
      exact absurd h.1 hne

/-- **iteration bound for `gjk_distance_jolt`'s loop**: a run whose first `n ≥ 1` iterations
all continue satisfies `n · ε · tol² < prev₀`. With the library's constants this is finite
for every input (no infinite loop), though astronomically larger than 1000. -/
theorem distRun_iterations_bound (eps tolSq maxDistSq : ℝ) (h0 : 0 < eps) (h1 : eps < 1)
    (htol : 0 < tolSq) (steps : List (StepIn ℝ)) (prev v : ℝ) (m : Nat) (hprev : 0 ≤ prev)
    (hv : v ≤ prev) (hne : steps ≠ [])
    (h : distRun eps tolSq maxDistSq prev v steps 0 = (.unknown, m)) :
    (steps.length : ℝ) * eps * tolSq < prev := by
  obtain ⟨_, hfin⟩ := distRun_unknown eps tolSq maxDistSq h0 h1 htol.le steps prev v 0 m hprev hv h
  obtain ⟨vf, hvf1, hvf2⟩ := hfin hne
  have hB := pow_one_sub_le eps h0.le h1.le steps.length
  have hpos : 0 < 1 + (steps.length : ℝ) * eps := by positivity
  have h2 : tolSq * (1 + steps.length * eps) < (1 - eps) ^ steps.length * prev * (1 + steps.length * eps) :=
    mul_lt_mul_of_pos_right (lt_of_lt_of_le hvf1 hvf2) hpos
  have h3 : (1 - eps) ^ steps.length * prev * (1 + steps.length * eps) ≤ prev := by
    calc (1 - eps) ^ steps.length * prev * (1 + steps.length * eps)
        = ((1 - eps) ^ steps.length * (1 + steps.length * eps)) * prev := by ring
      _ ≤ 1 * prev := mul_le_mul_of_nonneg_right hB hprev
      _ = prev := one_mul _
  have hn : (0 : ℝ) < steps.length := by
    cases steps with
    | nil => exact absurd rfl hne
    | cons _ _ => simp; positivity
  nlinarith [mul_pos htol (mul_pos hn h0)]

end Term
end D3


namespace D3
namespace Term

/-- contraction along a recorded run of `_intersection_loop` -/
theorem interRun_unknown (eps tolSq : ℝ) (h0 : 0 < eps) (h1 : eps < 1) (htol : 0 ≤ tolSq) :
    ∀ (steps : List (StepIn ℝ)) (prev : ℝ) (k m : Nat), 0 ≤ prev →
      interRun eps tolSq prev steps k = (.unknown, m) →
      m = k + steps.length ∧
      (steps ≠ [] → ∃ vfin, tolSq < vfin ∧ vfin ≤ (1 - eps) ^ steps.length * prev) := by
  intro steps
  induction steps with
  | nil =>
    intro prev k m _ h
    simp only [interRun, Prod.mk.injEq, true_and] at h
    exact ⟨by simp [h], fun hne => absurd rfl hne⟩
  | cons s ss ih =>
    intro prev k m hprev h
    simp only [interRun] at h
    split at h
    · rename_i prev' hstep
      obtain ⟨hlt, htl, hprog⟩ := interStep_unknown eps tolSq prev s prev' hstep
      have hv'0 : 0 ≤ prev' := le_trans htol htl.le
      obtain ⟨hm, hfin⟩ := ih prev' (k + 1) m hv'0 h
      refine ⟨by simp [hm]; omega, fun _ => ?_⟩
      have hstep' : prev' ≤ (1 - eps) * prev := by linarith
      have hb : 0 ≤ 1 - eps := by linarith
      by_cases hss : ss = []
      · subst hss
        exact ⟨prev', htl, by simpa using hstep'⟩
      · obtain ⟨vf, hvf1, hvf2⟩ := hfin hss
        refine ⟨vf, hvf1, le_trans hvf2 ?_⟩
        have hp : 0 ≤ (1 - eps) ^ ss.length := pow_nonneg hb _
        calc (1 - eps) ^ ss.length * prev' ≤ (1 - eps) ^ ss.length * ((1 - eps) * prev) :=
              mul_le_mul_of_nonneg_left hstep' hp
          _ = (1 - eps) ^ (s :: ss).length * prev := by simp [pow_succ]; ring
    · rename_i e p' hne hstep
      simp only [Prod.mk.injEq] at h
      exact absurd h.1 hne

theorem interRun_iterations_bound (eps tolSq : ℝ) (h0 : 0 < eps) (h1 : eps < 1)
    (htol : 0 < tolSq) (steps : List (StepIn ℝ)) (prev : ℝ) (m : Nat) (hprev : 0 ≤ prev)
    (hne : steps ≠ [])
    (h : interRun eps tolSq prev steps 0 = (.unknown, m)) :
    (steps.length : ℝ) * eps * tolSq < prev := by
  obtain ⟨_, hfin⟩ := interRun_unknown eps tolSq h0 h1 htol.le steps prev 0 m hprev h
  obtain ⟨vf, hvf1, hvf2⟩ := hfin hne
  have hB := pow_one_sub_le eps h0.le h1.le steps.length
  have hpos : 0 < 1 + (steps.length : ℝ) * eps := by positivity
  have h2 : tolSq * (1 + steps.length * eps) < (1 - eps) ^ steps.length * prev * (1 + steps.length * eps) :=
    mul_lt_mul_of_pos_right (lt_of_lt_of_le hvf1 hvf2) hpos
  have h3 : (1 - eps) ^ steps.length * prev * (1 + steps.length * eps) ≤ prev := by
    calc (1 - eps) ^ steps.length * prev * (1 + steps.length * eps)
        = ((1 - eps) ^ steps.length * (1 + steps.length * eps)) * prev := by ring
      _ ≤ 1 * prev := mul_le_mul_of_nonneg_right hB hprev
      _ = prev := one_mul _
  have hn : (0 : ℝ) < steps.length := by
    cases steps with
    | nil => exact absurd rfl hne
    | cons _ _ => simp; positivity
  nlinarith [mul_pos htol (mul_pos hn h0)]

end Term
end D3
