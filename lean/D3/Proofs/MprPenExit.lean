/-
Exit lemmas of the MPR penetration model at ℝ: what `_find_penetration_info` has established when
it leaves its loop, what `_penetration_info` returns, the support-plane bound of the penetration
depth, fuel sufficiency of the capped loop, the rows of the portal are support points.
-/
import D3.Proofs.MprPenBasic

set_option linter.unusedSectionVars false
set_option linter.unusedVariables false

namespace D3
namespace MprPen

/-! ### support plane of the Minkowski difference -/

theorem supportFn_v (sup : Sup ℝ) (d : V) : (supportFn sup d).v = (sup d).1 - (sup d).2 := rfl
theorem supportFn_a (sup : Sup ℝ) (d : V) : (supportFn sup d).a = (sup d).1 := rfl
theorem supportFn_b (sup : Sup ℝ) (d : V) : (supportFn sup d).b = (sup d).2 := rfl

theorem supportFn_in {A B : V → Prop} {sup : Sup ℝ} (h : SupOK A B sup) (d : V) :
    SPIn A B (supportFn sup d) :=
  ⟨(h d).1.1, (h d).2.1, rfl⟩

/-- the point `minkowski.support_function` returns is a support point of `A ⊖ B` -/
theorem support_bound {A B : V → Prop} {sup : Sup ℝ} (h : SupOK A B sup) (n m : V)
    (hm : Mink A B m) : V3.dot m n ≤ V3.dot (supportFn sup n).v n := by
  obtain ⟨a, b, ha, hb, rfl⟩ := hm
  have h1 := (h n).1.2 a ha
  have h2 := (h n).2.2 b hb
  rw [supportFn_v]
  simp only [V3.dot_def, sub_def, neg_def] at *
  linarith

theorem support_mem {A B : V → Prop} {sup : Sup ℝ} (h : SupOK A B sup) (n : V) :
    Mink A B (supportFn sup n).v :=
  ⟨_, _, (h n).1.1, (h n).2.1, rfl⟩

/-- every unit direction's support value bounds the penetration depth from above -/
theorem depth_le_support {M : V → Prop} {n : V} {r hval : ℝ} (hn : V3.normSq n = 1)
    (hd : DepthAtLeast M r) (hs : ∀ m, M m → V3.dot m n ≤ hval) : r ≤ hval := by
  have hx : M (r * n) := by
    apply hd
    simp only [V3.normSq_def, hsmul_def] at *
    nlinarith [hn]
  have := hs _ hx
  simp only [V3.dot_def, V3.normSq_def, hsmul_def] at *
  have e : r * n.x * n.x + r * n.y * n.y + r * n.z * n.z = r := by linear_combination r * hn
  linarith

theorem mink_translate (A B : V → Prop) (τ m : V) :
    Mink A (translate B τ) m ↔ Mink A B (m + τ) := by
  constructor
  · rintro ⟨a, b, ha, hb, rfl⟩
    refine ⟨a, b - τ, ha, hb, ?_⟩
    apply V3.ext' <;> simp only [add_def, sub_def] <;> ring
  · rintro ⟨a, b, ha, hb, h⟩
    refine ⟨a, b + τ, ha, ?_, ?_⟩
    · show B (b + τ - τ)
      have : b + τ - τ = b := by apply V3.ext' <;> simp only [add_def, sub_def] <;> ring
      rw [this]; exact hb
    · have hx := congrArg V3.x h
      have hy := congrArg V3.y h
      have hz := congrArg V3.z h
      simp only [add_def, sub_def] at hx hy hz
      apply V3.ext' <;> simp only [add_def, sub_def] <;> linarith

/-! ### `_penetration_info` and the loop exit -/

/-- the degenerate-portal test of the repaired `_contact_position`: the main weight sum is below
`EPSILON` (fallback entered) and the fallback weight sum is below `EPSILON` in absolute value -/
def ContactDegenerate (P : Portal ℝ) (dir : V) : Prop :=
  sum4 (baryMain P.p0.v P.p1.v P.p2.v P.p3.v) < EPS ∧
    absS (sum4 (baryFallback P.p1.v P.p2.v P.p3.v dir)) < EPS

noncomputable instance (P : Portal ℝ) (dir : V) : Decidable (ContactDegenerate P dir) :=
  Classical.propDecidable _

/-- what the degenerate branch returns: midpoint of the pre-images of the closest portal row -/
noncomputable def degeneratePos (P : Portal ℝ) : V :=
  V3.smul 0.5 ((closestRow P.p1 P.p2 P.p3).1.a + (closestRow P.p1 P.p2 P.p3).1.b)

/-- the repair 045c18e changes `_contact_position` only on degenerate portals -/
theorem contactPosition_split (P : Portal ℝ) (dir : V) :
    contactPosition P dir =
      if ContactDegenerate P dir then .ok (degeneratePos P, 2)
      else contactPosition_asIs_before_fix P dir := by
  unfold contactPosition contactPosition_asIs_before_fix contactWeights contactCombine ContactDegenerate
    degeneratePos
  dsimp only
  by_cases h1 : sum4 (baryMain P.p0.v P.p1.v P.p2.v P.p3.v) < EPS
  · by_cases h2 : absS (sum4 (baryFallback P.p1.v P.p2.v P.p3.v dir)) < EPS
    · simp only [h1, h2, if_true, and_self]
    · simp only [h1, h2, if_true, if_false, and_false]
      split_ifs <;> rfl
  · simp only [h1, if_false, false_and]
    split_ifs <;> rfl

theorem contactPosition_before_fix_ok {P : Portal ℝ} {dir : V} {c : V × ℕ}
    (h : contactPosition_asIs_before_fix P dir = .ok c) :
    ∃ w : (ℝ × ℝ × ℝ × ℝ) × ℕ, contactWeights P.p0.v P.p1.v P.p2.v P.p3.v dir = .ok w ∧
      c = (V3.smul 0.5 (comb4 w.1 P.p0.a P.p1.a P.p2.a P.p3.a + comb4 w.1 P.p0.b P.p1.b P.p2.b P.p3.b),
           w.2) := by
  unfold contactPosition_asIs_before_fix at h
  cases hw : contactWeights P.p0.v P.p1.v P.p2.v P.p3.v dir with
  | error e => rw [hw] at h; cases h
  | ok w =>
    rw [hw] at h
    refine ⟨w, rfl, ?_⟩
    injection h with h
    exact h.symm

/-- a result of `_contact_position`: either the degenerate branch (2) or weights were used -/
theorem contactPosition_ok {P : Portal ℝ} {dir : V} {c : V × ℕ} (h : contactPosition P dir = .ok c) :
    (ContactDegenerate P dir ∧ c = (degeneratePos P, 2)) ∨
    (¬ ContactDegenerate P dir ∧
      ∃ w : (ℝ × ℝ × ℝ × ℝ) × ℕ, contactWeights P.p0.v P.p1.v P.p2.v P.p3.v dir = .ok w ∧
      c = (V3.smul 0.5 (comb4 w.1 P.p0.a P.p1.a P.p2.a P.p3.a + comb4 w.1 P.p0.b P.p1.b P.p2.b P.p3.b),
           w.2)) := by
  rw [contactPosition_split] at h
  by_cases hd : ContactDegenerate P dir
  · rw [if_pos hd] at h
    injection h with h
    exact Or.inl ⟨hd, h.symm⟩
  · rw [if_neg hd] at h
    exact Or.inr ⟨hd, contactPosition_before_fix_ok h⟩

theorem penetrationInfo_ok {P : Portal ℝ} {r : ℝ × V × V × ℕ × ℕ × Bool}
    (h : penetrationInfo P = .ok r) :
    ∃ (t : ℕ × ℝ × V) (c : V × ℕ),
      pointToTriangle V3.zero P.p1.v P.p2.v P.p3.v = .ok t ∧
      contactPosition P (portalDirection P.p1 P.p2 P.p3) = .ok c ∧
      r = (t.2.1, (if absS t.2.1 < EPS then V3.zero else t.2.2), c.1, t.1, c.2,
           decide (absS t.2.1 < EPS)) := by
  unfold penetrationInfo at h
  cases ht : pointToTriangle V3.zero P.p1.v P.p2.v P.p3.v with
  | error e => rw [ht] at h; cases h
  | ok t =>
    rw [ht] at h
    cases hc : contactPosition P (portalDirection P.p1 P.p2 P.p3) with
    | error e =>
      simp only [bind, Except.bind, hc] at h
      cases h
    | ok c =>
      simp only [bind, Except.bind, hc, pure, Except.pure] at h
      refine ⟨t, c, rfl, rfl, ?_⟩
      injection h with h
      rw [← h]
      simp only [decide_eq_true_eq]

theorem finishPenetration_ok {P : Portal ℝ} {e : ℕ} {n : V} {w : SP ℝ} {it : ℕ} {i : PenInfo ℝ}
    (h : finishPenetration P e n w it = .ok i) :
    ∃ r, penetrationInfo P = .ok r ∧
      i = { depth := r.1, dir := normVector r.2.1, pos := r.2.2.1, exit := e, tri := r.2.2.2.1,
            cpos := r.2.2.2.2.1, touch := r.2.2.2.2.2, portal := P, n := n, w := w, iters := it } := by
  unfold finishPenetration at h
  cases hr : penetrationInfo P with
  | error e => rw [hr] at h; cases h
  | ok r =>
    rw [hr] at h
    refine ⟨r, rfl, ?_⟩
    injection h with h
    exact h.symm

/-- everything the theorems need to know about a result of `_find_penetration_info`:
it is `_penetration_info` of the recorded final portal; the recorded direction is that portal's
direction; the recorded support point was queried along it; the tolerance exit means
`_portal_reach_tolerance` fired; rows 1..3 of the final portal are support rows. -/
structure ExitFacts (A B : V → Prop) (sup : Sup ℝ) (tol : ℝ) (p0 : SP ℝ) (i : PenInfo ℝ) : Prop where
  fin : finishPenetration i.portal i.exit i.n i.w i.iters = .ok i
  p0 : i.portal.p0 = p0
  n : i.n = portalDirection i.portal.p1 i.portal.p2 i.portal.p3
  w : i.w = supportFn sup i.n
  reach : i.exit = 0 → portalReachTolerance i.portal.p1 i.portal.p2 i.portal.p3 i.w.v i.n tol = true
  exit01 : i.exit = 0 ∨ i.exit = 1
  rows : SPIn A B i.portal.p1 ∧ SPIn A B i.portal.p2 ∧ SPIn A B i.portal.p3

theorem expandPortal_rows {A B : V → Prop} (p0 p1 p2 p3 p4 : SP ℝ)
    (h1 : SPIn A B p1) (h2 : SPIn A B p2) (h3 : SPIn A B p3) (h4 : SPIn A B p4) :
    SPIn A B (expandPortal p0 p1 p2 p3 p4).1 ∧ SPIn A B (expandPortal p0 p1 p2 p3 p4).2.1 ∧
      SPIn A B (expandPortal p0 p1 p2 p3 p4).2.2.1 := by
  unfold expandPortal
  dsimp only
  split_ifs <;> exact ⟨by assumption, by assumption, by assumption⟩

theorem findPenInfoLoop_exit {A B : V → Prop} {sup : Sup ℝ} (hs : SupOK A B sup) (tol : ℝ)
    (maxIter : ℕ) (p0 : SP ℝ) :
    ∀ (fuel it : ℕ) (p1 p2 p3 : SP ℝ) (i : PenInfo ℝ),
      SPIn A B p1 → SPIn A B p2 → SPIn A B p3 →
      findPenInfoLoop sup tol maxIter p0 fuel it p1 p2 p3 = .ok i → ExitFacts A B sup tol p0 i := by
  intro fuel
  induction fuel with
  | zero => intro it p1 p2 p3 i _ _ _ h; simp [findPenInfoLoop] at h
  | succ fuel ih =>
    intro it p1 p2 p3 i h1 h2 h3 h
    rw [findPenInfoLoop] at h
    dsimp only at h
    generalize he : (if portalReachTolerance p1 p2 p3 (supportFn sup (portalDirection p1 p2 p3)).v
        (portalDirection p1 p2 p3) tol = true then 0 else 1 : ℕ) = e at h
    split_ifs at h with hc
    · -- exit
      obtain ⟨r, hr, hi⟩ := finishPenetration_ok h
      have hport : i.portal = ⟨p0, p1, p2, p3⟩ := by rw [hi]
      have hn : i.n = portalDirection p1 p2 p3 := by rw [hi]
      have hw : i.w = supportFn sup (portalDirection p1 p2 p3) := by rw [hi]
      have hit : i.iters = it := by rw [hi]
      have hex : i.exit = e := by rw [hi]
      refine ⟨?_, ?_, ?_, ?_, ?_, ?_, ?_⟩
      · rw [hport, hn, hw, hit, hex]; exact h
      · rw [hport]
      · rw [hn, hport]
      · rw [hw, hn]
      · intro he0
        rw [hex] at he0
        rw [hport, hw, hn]
        by_contra hne
        rw [if_neg hne] at he
        omega
      · rw [hex, ← he]
        split_ifs
        · exact Or.inl rfl
        · exact Or.inr rfl
      · rw [hport]; exact ⟨h1, h2, h3⟩
    · -- expand and continue
      have h4 : SPIn A B (supportFn sup (portalDirection p1 p2 p3)) := supportFn_in hs _
      obtain ⟨e1, e2, e3⟩ := expandPortal_rows (A := A) (B := B) p0 p1 p2 p3 _ h1 h2 h3 h4
      exact ih _ _ _ _ _ e1 e2 e3 h

/-- `_find_penetration_info` is capped: `iterations > max_iterations` ends it, so the fuel
`maxIter + 2` handed over by `findPenetrationInfo` is never exhausted. -/
theorem findPenInfoLoop_fuel (sup : Sup ℝ) (tol : ℝ) (maxIter : ℕ) (p0 : SP ℝ) :
    ∀ (fuel it : ℕ) (p1 p2 p3 : SP ℝ), maxIter + 2 ≤ it + fuel → it ≤ maxIter + 1 →
      findPenInfoLoop sup tol maxIter p0 fuel it p1 p2 p3 ≠ .error .fuel := by
  intro fuel
  induction fuel with
  | zero => intro it p1 p2 p3 hle hit; omega
  | succ fuel ih =>
    intro it p1 p2 p3 hle hit
    rw [findPenInfoLoop]
    dsimp only
    generalize (if portalReachTolerance p1 p2 p3 (supportFn sup (portalDirection p1 p2 p3)).v
        (portalDirection p1 p2 p3) tol = true then 0 else 1 : ℕ) = e
    split_ifs with hc
    · unfold finishPenetration
      cases hr : penetrationInfo ⟨p0, p1, p2, p3⟩ with
      | ok r => simp [bind, Except.bind, pure, Except.pure]
      | error e =>
        simp only [bind, Except.bind]
        intro hcontra
        injection hcontra with hcontra
        -- `_penetration_info` never reports `fuel`
        revert hr
        unfold penetrationInfo
        cases ht : pointToTriangle V3.zero p1.v p2.v p3.v with
        | error e1 =>
          simp only [bind, Except.bind]
          intro hr; injection hr with hr
          subst hr; subst hcontra
          revert ht
          unfold pointToTriangle ptRes
          simp only [isZero_iff]
          split_ifs <;> intro ht <;> cases ht
        | ok t =>
          simp only [bind, Except.bind]
          cases hcp : contactPosition ⟨p0, p1, p2, p3⟩ (portalDirection p1 p2 p3) with
          | ok c => simp [pure, Except.pure]
          | error e2 =>
            simp only
            intro hr; injection hr with hr
            subst hr; subst hcontra
            revert hcp
            unfold contactPosition contactCombine
            simp only [isZero_iff]
            split_ifs <;> intro hcp <;> cases hcp
    · have hlt : ¬ it > maxIter := by
        intro hgt; apply hc; simp [hgt]
      exact ih _ _ _ _ (by omega) (by omega)

/-- a result of `_find_penetration_info` is always `_penetration_info` of some portal
(no hypothesis on the support oracle) -/
theorem findPenInfoLoop_finish (sup : Sup ℝ) (tol : ℝ) (maxIter : ℕ) (p0 : SP ℝ) :
    ∀ (fuel it : ℕ) (p1 p2 p3 : SP ℝ) (i : PenInfo ℝ),
      findPenInfoLoop sup tol maxIter p0 fuel it p1 p2 p3 = .ok i →
      ∃ (P : Portal ℝ) (e : ℕ) (n : V) (w : SP ℝ) (k : ℕ), finishPenetration P e n w k = .ok i := by
  intro fuel
  induction fuel with
  | zero => intro it p1 p2 p3 i h; simp [findPenInfoLoop] at h
  | succ fuel ih =>
    intro it p1 p2 p3 i h
    rw [findPenInfoLoop] at h
    dsimp only at h
    generalize (if portalReachTolerance p1 p2 p3 (supportFn sup (portalDirection p1 p2 p3)).v
        (portalDirection p1 p2 p3) tol = true then 0 else 1 : ℕ) = e at h
    split_ifs at h with hc
    · exact ⟨_, _, _, _, _, h⟩
    · exact ih _ _ _ _ _ h

end MprPen
end D3
