/-
`_contact_position`, `_find_penetration_touch`, `_find_penetration_segment` at ℝ:
the barycentric weights sum to one; the main-branch weights are Cramer's weights of the origin
in the tetrahedron `v0 v1 v2 v3` (so the two pre-images coincide when every row is `a − b`);
convex combinations stay in a convex set; the midpoint of two points is half their distance from
both; the two special exits.
-/
import D3.Proofs.MprPenGeom

set_option linter.unusedSectionVars false
set_option linter.unusedVariables false

namespace D3
namespace MprPen

/-! ### weights -/

theorem contactWeights_ok {v0 v1 v2 v3 dir : V} {w : (ℝ × ℝ × ℝ × ℝ) × ℕ}
    (h : contactWeights v0 v1 v2 v3 dir = .ok w) :
    ∃ (u : ℝ × ℝ × ℝ × ℝ) (s : ℝ), s ≠ 0 ∧ s = sum4 u ∧
      w.1 = (u.1 / s, u.2.1 / s, u.2.2.1 / s, u.2.2.2 / s) ∧
      ((w.2 = 0 ∧ u = baryMain v0 v1 v2 v3 ∧ ¬ sum4 u < EPS) ∨
       (w.2 = 1 ∧ u = baryFallback v1 v2 v3 dir ∧ sum4 (baryMain v0 v1 v2 v3) < EPS)) := by
  unfold contactWeights at h
  dsimp only at h
  by_cases hlt : sum4 (baryMain v0 v1 v2 v3) < EPS
  · simp only [hlt, if_true, isZero_iff] at h
    split_ifs at h with hz
    injection h with h
    refine ⟨baryFallback v1 v2 v3 dir, _, hz, rfl, ?_, Or.inr ⟨?_, rfl, hlt⟩⟩
    · rw [← h]
    · rw [← h]
  · simp only [hlt, if_false, isZero_iff] at h
    split_ifs at h with hz
    injection h with h
    refine ⟨baryMain v0 v1 v2 v3, _, hz, rfl, ?_, Or.inl ⟨?_, rfl, hlt⟩⟩
    · rw [← h]
    · rw [← h]

/-- **the weights `_contact_position` uses sum to one** (both branches) -/
theorem contactWeights_sum {v0 v1 v2 v3 dir : V} {w : (ℝ × ℝ × ℝ × ℝ) × ℕ}
    (h : contactWeights v0 v1 v2 v3 dir = .ok w) : sum4 w.1 = 1 := by
  obtain ⟨u, s, hs, hsu, hw, _⟩ := contactWeights_ok h
  rw [hw]
  unfold sum4 at *
  simp only
  rw [hsu] at hs ⊢
  field_simp

/-- Cramer: the unnormalised main-branch weights annihilate the four vertices,
`Σ bᵢ vᵢ = 0` — they are the barycentric coordinates of the origin in the tetrahedron -/
theorem cramer (v0 v1 v2 v3 : V) : comb4 (baryMain v0 v1 v2 v3) v0 v1 v2 v3 = V3.zero := by
  unfold comb4 baryMain
  apply V3.ext' <;> simp only [V3.dot_def, cross_def, zero_def] <;> ring

theorem comb4_sub (w : ℝ × ℝ × ℝ × ℝ) (a0 a1 a2 a3 b0 b1 b2 b3 : V) :
    comb4 w (a0 - b0) (a1 - b1) (a2 - b2) (a3 - b3) = comb4 w a0 a1 a2 a3 - comb4 w b0 b1 b2 b3 := by
  unfold comb4
  apply V3.ext' <;> simp only [sub_def] <;> ring

theorem comb4_div (u : ℝ × ℝ × ℝ × ℝ) (s : ℝ) (x0 x1 x2 x3 : V) :
    comb4 (u.1 / s, u.2.1 / s, u.2.2.1 / s, u.2.2.2 / s) x0 x1 x2 x3 =
      V3.sdiv (comb4 u x0 x1 x2 x3) s := by
  unfold comb4
  apply V3.ext' <;> simp only [sdiv_def] <;> ring

/-- main branch, all four rows of the form `a − b`: the two pre-images coincide -/
theorem main_branch_preimages_coincide {P : Portal ℝ} {dir : V} {w : (ℝ × ℝ × ℝ × ℝ) × ℕ}
    (h : contactWeights P.p0.v P.p1.v P.p2.v P.p3.v dir = .ok w) (hbr : w.2 = 0)
    (h0 : P.p0.v = P.p0.a - P.p0.b) (h1 : P.p1.v = P.p1.a - P.p1.b)
    (h2 : P.p2.v = P.p2.a - P.p2.b) (h3 : P.p3.v = P.p3.a - P.p3.b) :
    comb4 w.1 P.p0.a P.p1.a P.p2.a P.p3.a = comb4 w.1 P.p0.b P.p1.b P.p2.b P.p3.b := by
  obtain ⟨u, s, hs, hsu, hw, hcase⟩ := contactWeights_ok h
  rcases hcase with ⟨_, hu, _⟩ | ⟨h1', _, _⟩
  · have hz : comb4 w.1 P.p0.v P.p1.v P.p2.v P.p3.v = V3.zero := by
      rw [hw, comb4_div, hu, cramer]
      apply V3.ext' <;> simp [sdiv_def, zero_def]
    rw [h0, h1, h2, h3, comb4_sub] at hz
    have hx := congrArg V3.x hz
    have hy := congrArg V3.y hz
    have hzz := congrArg V3.z hz
    simp only [sub_def, zero_def] at hx hy hzz
    apply V3.ext' <;> linarith
  · omega

/-! ### convex combinations -/

theorem conv2 {K : V → Prop} (hK : ConvexSet K) {x y : V} (hx : K x) (hy : K y) {s t : ℝ}
    (hs : 0 ≤ s) (ht : 0 ≤ t) (hst : s + t = 1) :
    K ⟨s * x.x + t * y.x, s * x.y + t * y.y, s * x.z + t * y.z⟩ := by
  have := hK x y hx hy s hs (by linarith)
  have e : (s * x + (1 - s) * y : V) = ⟨s * x.x + t * y.x, s * x.y + t * y.y, s * x.z + t * y.z⟩ := by
    have : t = 1 - s := by linarith
    subst this
    apply V3.ext' <;> simp [add_def, hsmul_def]
  rw [← e]; exact this

theorem conv3 {K : V → Prop} (hK : ConvexSet K) {x y z : V} (hx : K x) (hy : K y) (hz : K z)
    {a b c : ℝ} (ha : 0 ≤ a) (hb : 0 ≤ b) (hc : 0 ≤ c) (hs : a + b + c = 1) :
    K ⟨a * x.x + b * y.x + c * z.x, a * x.y + b * y.y + c * z.y, a * x.z + b * y.z + c * z.z⟩ := by
  by_cases hu : b + c = 0
  · have hb0 : b = 0 := by linarith
    have hc0 : c = 0 := by linarith
    have ha1 : a = 1 := by linarith
    subst hb0 hc0 ha1
    have : (⟨1 * x.x + 0 * y.x + 0 * z.x, 1 * x.y + 0 * y.y + 0 * z.y, 1 * x.z + 0 * y.z + 0 * z.z⟩ : V) = x := by
      apply V3.ext' <;> simp
    rw [this]; exact hx
  · have hupos : 0 < b + c := lt_of_le_of_ne (by linarith) (Ne.symm hu)
    have hyz := conv2 hK hy hz (s := b / (b + c)) (t := c / (b + c)) (by positivity) (by positivity)
      (by field_simp)
    have := conv2 hK hx hyz (s := a) (t := b + c) ha (by linarith) (by linarith)
    have e : (⟨a * x.x + b * y.x + c * z.x, a * x.y + b * y.y + c * z.y, a * x.z + b * y.z + c * z.z⟩ : V) =
        ⟨a * x.x + (b + c) * (b / (b + c) * y.x + c / (b + c) * z.x),
         a * x.y + (b + c) * (b / (b + c) * y.y + c / (b + c) * z.y),
         a * x.z + (b + c) * (b / (b + c) * y.z + c / (b + c) * z.z)⟩ := by
      apply V3.ext' <;> simp only <;> field_simp <;> ring
    rw [e]; exact this

/-- a convex set contains every convex combination of four of its points -/
theorem comb4_mem {K : V → Prop} (hK : ConvexSet K) {x0 x1 x2 x3 : V}
    (h0 : K x0) (h1 : K x1) (h2 : K x2) (h3 : K x3) {w : ℝ × ℝ × ℝ × ℝ}
    (w0 : 0 ≤ w.1) (w1 : 0 ≤ w.2.1) (w2 : 0 ≤ w.2.2.1) (w3 : 0 ≤ w.2.2.2) (hs : sum4 w = 1) :
    K (comb4 w x0 x1 x2 x3) := by
  obtain ⟨a, b, c, d⟩ := w
  unfold sum4 at hs
  simp only at w0 w1 w2 w3 hs
  unfold comb4
  simp only
  by_cases hu : b + c + d = 0
  · have hb0 : b = 0 := by linarith
    have hc0 : c = 0 := by linarith
    have hd0 : d = 0 := by linarith
    have ha1 : a = 1 := by linarith
    subst hb0 hc0 hd0 ha1
    have : (⟨1 * x0.x + 0 * x1.x + 0 * x2.x + 0 * x3.x, 1 * x0.y + 0 * x1.y + 0 * x2.y + 0 * x3.y,
        1 * x0.z + 0 * x1.z + 0 * x2.z + 0 * x3.z⟩ : V) = x0 := by
      apply V3.ext' <;> simp
    rw [this]; exact h0
  · have hupos : 0 < b + c + d := lt_of_le_of_ne (by linarith) (Ne.symm hu)
    have h123 := conv3 hK h1 h2 h3 (a := b / (b + c + d)) (b := c / (b + c + d)) (c := d / (b + c + d))
      (by positivity) (by positivity) (by positivity) (by field_simp)
    have := conv2 hK h0 h123 (s := a) (t := b + c + d) w0 (by linarith) (by linarith)
    have e : (⟨a * x0.x + b * x1.x + c * x2.x + d * x3.x, a * x0.y + b * x1.y + c * x2.y + d * x3.y,
        a * x0.z + b * x1.z + c * x2.z + d * x3.z⟩ : V) =
        ⟨a * x0.x + (b + c + d) * (b / (b + c + d) * x1.x + c / (b + c + d) * x2.x + d / (b + c + d) * x3.x),
         a * x0.y + (b + c + d) * (b / (b + c + d) * x1.y + c / (b + c + d) * x2.y + d / (b + c + d) * x3.y),
         a * x0.z + (b + c + d) * (b / (b + c + d) * x1.z + c / (b + c + d) * x2.z + d / (b + c + d) * x3.z)⟩ := by
      apply V3.ext' <;> simp only <;> field_simp <;> ring
    rw [e]; exact this

/-! ### midpoints -/

/-- the midpoint `0.5 * (x + y)` is half of `|x − y|` away from `x` (and from `y`) -/
theorem midpoint_dist (x y : V) :
    V3.norm (V3.smul 0.5 (x + y) - x) = V3.norm (x - y) / 2 ∧
    V3.norm (V3.smul 0.5 (x + y) - y) = V3.norm (x - y) / 2 := by
  have key : ∀ u : V, V3.normSq u = (1 / 2) ^ 2 * V3.normSq (x - y) →
      V3.norm u = V3.norm (x - y) / 2 := by
    intro u hu
    rw [V3.norm_def, V3.norm_def, hu, Real.sqrt_mul (by positivity), Real.sqrt_sq (by norm_num)]
    ring
  constructor <;> apply key <;>
    simp only [V3.normSq_def, smul_def, add_def, sub_def, half_real] <;> ring

/-! ### the two special exits -/

/-- touching exit (`ORIGIN_ON_V1`): the two support points coincide, so the contact position
`0.5 * (a + b)` is that common point — exactly in both colliders -/
theorem touch_contact_exact {A B : V → Prop} {p1 : SP ℝ} (h : SPIn A B p1) (hv : p1.v = V3.zero) :
    A (findPenetrationTouch p1).2.2 ∧ B (findPenetrationTouch p1).2.2 := by
  obtain ⟨ha, hb, hvab⟩ := h
  have hab : p1.a = p1.b := by
    rw [hvab] at hv
    have hx := congrArg V3.x hv
    have hy := congrArg V3.y hv
    have hz := congrArg V3.z hv
    simp only [sub_def, zero_def] at hx hy hz
    apply V3.ext' <;> linarith
  have hpos : (findPenetrationTouch p1).2.2 = p1.a := by
    unfold findPenetrationTouch
    simp only
    rw [← hab]
    apply V3.ext' <;> simp only [smul_def, add_def, half_real] <;> ring
  rw [hpos]
  exact ⟨ha, hab ▸ hb⟩

/-- a support point of `A ⊖ B` along a unit direction that is the origin: depth 0 is the truth -/
theorem touch_depth_zero {A B : V → Prop} {sup : Sup ℝ} (hs : SupOK A B sup) {d : V}
    (hd : V3.normSq d = 1) (hv : (supportFn sup d).v = V3.zero) (r : ℝ)
    (hr : DepthAtLeast (Mink A B) r) : r ≤ 0 := by
  have := depth_le_support hd hr (fun m hm => support_bound hs d m hm)
  rw [hv] at this
  simpa [V3.dot_def, zero_def] using this

/-- segment exit: the reported depth `|v1|` is at least the true depth (v1 is a support point of
`A ⊖ B` along a unit direction; Cauchy–Schwarz) -/
theorem segment_depth_bound {A B : V → Prop} {sup : Sup ℝ} (hs : SupOK A B sup) {d : V}
    (hd : V3.normSq d = 1) (r : ℝ) (hr : DepthAtLeast (Mink A B) r) :
    r ≤ (findPenetrationSegment (supportFn sup d)).1 := by
  have h1 := depth_le_support hd hr (fun m hm => support_bound hs d m hm)
  have h2 := dot_le_norm_of_unit (x := (supportFn sup d).v) hd
  unfold findPenetrationSegment
  simp only
  linarith

/-- segment exit: `depth · direction = v1` is a boundary point of `A ⊖ B`; translating collider 2
by it leaves no overlap at all -/
theorem segment_residual {A B : V → Prop} {sup : Sup ℝ} (hs : SupOK A B sup) {d : V}
    (hd : V3.normSq d = 1) (r : ℝ)
    (hr : DepthAtLeast (Mink A (translate B ((findPenetrationSegment (supportFn sup d)).1 *
      (findPenetrationSegment (supportFn sup d)).2.1))) r) : r ≤ 0 := by
  have htr : (findPenetrationSegment (supportFn sup d)).1 * (findPenetrationSegment (supportFn sup d)).2.1
      = (supportFn sup d).v := by
    unfold findPenetrationSegment
    simp only
    exact norm_smul_normVector _
  rw [htr] at hr
  have := depth_le_support hd hr (hval := 0) (by
    intro m hm
    have hm' := (mink_translate A B _ m).mp hm
    have := support_bound hs d _ hm'
    simp only [V3.dot_def, add_def] at this ⊢
    linarith)
  exact this

/-! ### the degenerate-portal branch of the repaired `_contact_position` (045c18e) -/

theorem closestRow_mem (p1 p2 p3 : SP ℝ) :
    (closestRow p1 p2 p3).1 = p1 ∨ (closestRow p1 p2 p3).1 = p2 ∨ (closestRow p1 p2 p3).1 = p3 := by
  unfold closestRow
  dsimp only
  by_cases h1 : V3.dot p2.v p2.v < V3.dot p1.v p1.v
  · simp only [h1, if_true]; split_ifs <;> simp
  · simp only [h1, if_false]; split_ifs <;> simp

/-- the scan returns a row of smallest `|v|²` -/
theorem closestRow_min (p1 p2 p3 : SP ℝ) :
    V3.normSq (closestRow p1 p2 p3).1.v ≤ V3.normSq p1.v ∧
    V3.normSq (closestRow p1 p2 p3).1.v ≤ V3.normSq p2.v ∧
    V3.normSq (closestRow p1 p2 p3).1.v ≤ V3.normSq p3.v := by
  unfold closestRow
  simp only [← normSq_eq_dot]
  by_cases h1 : V3.normSq p2.v < V3.normSq p1.v
  · simp only [h1, if_true]
    by_cases h2 : V3.normSq p3.v < V3.normSq p2.v
    · simp only [h2, if_true]; refine ⟨?_, ?_, ?_⟩ <;> linarith
    · simp only [h2, if_false]; refine ⟨?_, ?_, ?_⟩ <;> linarith
  · simp only [h1, if_false]
    by_cases h2 : V3.normSq p3.v < V3.normSq p1.v
    · simp only [h2, if_true]; refine ⟨?_, ?_, ?_⟩ <;> linarith
    · simp only [h2, if_false]; refine ⟨?_, ?_, ?_⟩ <;> linarith

/-- the index reported with the row is the row's index; ties go to the first minimum -/
theorem closestRow_index (p1 p2 p3 : SP ℝ) :
    ((closestRow p1 p2 p3).2 = 1 ∧ (closestRow p1 p2 p3).1 = p1) ∨
    ((closestRow p1 p2 p3).2 = 2 ∧ (closestRow p1 p2 p3).1 = p2 ∧ V3.normSq p2.v < V3.normSq p1.v) ∨
    ((closestRow p1 p2 p3).2 = 3 ∧ (closestRow p1 p2 p3).1 = p3 ∧ V3.normSq p3.v < V3.normSq p1.v ∧
      V3.normSq p3.v < V3.normSq p2.v) := by
  by_cases h1 : V3.normSq p2.v < V3.normSq p1.v
  · by_cases h2 : V3.normSq p3.v < V3.normSq p2.v
    · have e : closestRow p1 p2 p3 = (p3, 3) := by
        unfold closestRow; simp only [← normSq_eq_dot, h1, h2, if_true]
      rw [e]; right; right; exact ⟨rfl, rfl, by linarith, h2⟩
    · have e : closestRow p1 p2 p3 = (p2, 2) := by
        unfold closestRow; simp only [← normSq_eq_dot, h1, h2, if_true, if_false]
      rw [e]; right; left; exact ⟨rfl, rfl, h1⟩
  · by_cases h2 : V3.normSq p3.v < V3.normSq p1.v
    · have e : closestRow p1 p2 p3 = (p3, 3) := by
        unfold closestRow; simp only [← normSq_eq_dot, h1, h2, if_true, if_false]
      rw [e]; right; right; exact ⟨rfl, rfl, h2, by linarith⟩
    · have e : closestRow p1 p2 p3 = (p1, 1) := by
        unfold closestRow; simp only [← normSq_eq_dot, h1, h2, if_false]
      rw [e]; left; exact ⟨rfl, rfl⟩

/-- the point returned by the degenerate branch: midpoint of the pre-images `a ∈ A`, `b ∈ B` of one
portal row `p` (a row of smallest `|v|`), `|p.v| / 2` away from both; if that row is the origin
(touching contact) the point is the common point `a = b` of `A` and `B` -/
theorem degeneratePos_spec {A B : V → Prop} {P : Portal ℝ}
    (h1 : SPIn A B P.p1) (h2 : SPIn A B P.p2) (h3 : SPIn A B P.p3) :
    ∃ p : SP ℝ, p = (closestRow P.p1 P.p2 P.p3).1 ∧ (p = P.p1 ∨ p = P.p2 ∨ p = P.p3) ∧
      A p.a ∧ B p.b ∧ p.v = p.a - p.b ∧
      degeneratePos P = V3.smul 0.5 (p.a + p.b) ∧
      V3.norm (degeneratePos P - p.a) = V3.norm p.v / 2 ∧
      V3.norm (degeneratePos P - p.b) = V3.norm p.v / 2 ∧
      V3.normSq p.v ≤ V3.normSq P.p1.v ∧ V3.normSq p.v ≤ V3.normSq P.p2.v ∧
      V3.normSq p.v ≤ V3.normSq P.p3.v ∧
      (p.v = V3.zero → A (degeneratePos P) ∧ B (degeneratePos P)) := by
  have hmem := closestRow_mem P.p1 P.p2 P.p3
  have hmin := closestRow_min P.p1 P.p2 P.p3
  have hin : SPIn A B (closestRow P.p1 P.p2 P.p3).1 := by
    rcases hmem with h | h | h <;> rw [h] <;> assumption
  refine ⟨_, rfl, hmem, hin.1, hin.2.1, hin.2.2, rfl, ?_, ?_, hmin.1, hmin.2.1, hmin.2.2, ?_⟩
  · unfold degeneratePos; rw [(midpoint_dist _ _).1, hin.2.2]
  · unfold degeneratePos; rw [(midpoint_dist _ _).2, hin.2.2]
  · intro hv
    have := touch_contact_exact hin hv
    unfold findPenetrationTouch at this
    exact this

/-- after the repair `_contact_position` cannot divide by zero: it returns for every portal -/
theorem contactPosition_total (P : Portal ℝ) (dir : V) : ∃ c, contactPosition P dir = .ok c := by
  have hE := EPS_pos
  unfold contactPosition contactCombine
  dsimp only
  simp only [isZero_iff]
  split_ifs with h1 h2 hz hz
  · exact ⟨_, rfl⟩
  · exfalso
    apply h2; rw [hz, absS_real, abs_zero]; exact hE
  · exact ⟨_, rfl⟩
  · exfalso; rw [hz] at h1; exact h1 hE
  · exact ⟨_, rfl⟩

/-- before the repair: on a degenerate portal whose fallback weights sum to exactly zero the
weights were divided by zero -/
theorem contactPosition_before_fix_divZero (P : Portal ℝ) (dir : V)
    (h1 : sum4 (baryMain P.p0.v P.p1.v P.p2.v P.p3.v) < EPS)
    (h2 : sum4 (baryFallback P.p1.v P.p2.v P.p3.v dir) = 0) :
    contactPosition_asIs_before_fix P dir = .error .divZero := by
  unfold contactPosition_asIs_before_fix contactWeights
  dsimp only
  simp only [h1, if_true, h2, (isZero_iff 0).mpr rfl]
  rfl

/-- the degenerate branch also returns the midpoint of two weighted pre-images — with the unit
weight on the closest row -/
theorem degeneratePos_as_comb (P : Portal ℝ) :
    ∃ w : ℝ × ℝ × ℝ × ℝ, sum4 w = 1 ∧ 0 ≤ w.1 ∧ 0 ≤ w.2.1 ∧ 0 ≤ w.2.2.1 ∧ 0 ≤ w.2.2.2 ∧
      degeneratePos P = V3.smul 0.5 (comb4 w P.p0.a P.p1.a P.p2.a P.p3.a +
        comb4 w P.p0.b P.p1.b P.p2.b P.p3.b) := by
  unfold degeneratePos
  rcases closestRow_mem P.p1 P.p2 P.p3 with h | h | h <;> rw [h]
  · refine ⟨(0, 1, 0, 0), by simp [sum4], by norm_num, by norm_num, by norm_num, by norm_num, ?_⟩
    congr 2 <;> apply V3.ext' <;> simp [comb4]
  · refine ⟨(0, 0, 1, 0), by simp [sum4], by norm_num, by norm_num, by norm_num, by norm_num, ?_⟩
    congr 2 <;> apply V3.ext' <;> simp [comb4]
  · refine ⟨(0, 0, 0, 1), by simp [sum4], by norm_num, by norm_num, by norm_num, by norm_num, ?_⟩
    congr 2 <;> apply V3.ext' <;> simp [comb4]

end MprPen
end D3
