/-
C02 — exit-branch lemmas for the Jolt boolean GJK (`D3.IsectJolt.intersectionLoop`, `gjkLoop`).
The support mappings are abstract (`IsSupport`); the C18 simplex solver enters only through the
hypotheses named `SolverInHull` / `SolverBeatsSegment` (its specification, property C18).
-/
import D3.Proofs.IntersectSpec
import D3.Model.IntersectJolt

namespace D3
namespace IsectJolt
open Isect

theorem EPS_pos : (0 : ℝ) < EPS := by
  unfold EPS D3.Gen.utils__EPSILON; norm_num

theorem EPS_lt_one : (EPS : ℝ) < 1 := by
  unfold EPS D3.Gen.utils__EPSILON; norm_num

/-! ### shape of a step result, by exit branch -/

/-- the branch id determines the returned state -/
theorem step_state_of_br {p q : V} {Y : Array V} {n : Nat} {tolSq prev : ℝ} {dir : V} {s : Step ℝ}
    (h : intersectionLoop p q Y n tolSq prev dir = .ok s) :
    (s.br = 0 ∨ s.br = 1 ∨ s.br = 5 → s.state = .noIntersection) ∧
    (s.br = 2 ∨ s.br = 3 ∨ s.br = 4 → s.state = .intersection) ∧
    (s.br = 6 → s.state = .unknown) ∧ s.br ≤ 6 := by
  unfold intersectionLoop at h
  simp only at h
  split at h
  · cases h; simp
  split at h
  · cases h
  split at h
  · cases h
  rename_i r hr
  split at h
  · cases h; simp
  split at h
  · cases h; simp
  split at h
  · cases h; simp
  split at h
  · cases h
  rename_i m hm
  split at h
  · cases h; simp
  split at h
  · cases h
  split at h
  · cases h; simp
  split at h
  · cases h
  · cases h; simp

/-- what is known at the separating-axis exit (branch 0) -/
theorem step_br0 {p q : V} {Y : Array V} {n : Nat} {tolSq prev : ℝ} {dir : V} {s : Step ℝ}
    (h : intersectionLoop p q Y n tolSq prev dir = .ok s) (hbr : s.br = 0) :
    V3.dot dir (p - q) < -EPS := by
  unfold intersectionLoop at h
  simp only at h
  split at h
  · assumption
  split at h
  · cases h
  split at h
  · cases h
  split at h
  · cases h; simp at hbr
  split at h
  · cases h; simp at hbr
  split at h
  · cases h; simp at hbr
  split at h
  · cases h
  split at h
  · cases h; simp at hbr
  split at h
  · cases h
  split at h
  · cases h; simp at hbr
  split at h
  · cases h
  · cases h; simp at hbr

/-- what is known at an `Intersection` exit: the solver succeeded on `Y ∪ {w}` and one of the three tests fired -/
theorem step_intersection {p q : V} {Y : Array V} {n : Nat} {tolSq prev : ℝ} {dir : V} {s : Step ℝ}
    (h : intersectionLoop p q Y n tolSq prev dir = .ok s) (hs : s.state = .intersection) :
    ∃ r, Simplex.getClosestPointToOrigin (Y.set! n (p - q)) (n + 1) prev = .ok r ∧ r.success = true ∧
      ((s.br = 2 ∧ r.set = 0xf) ∨ (s.br = 3 ∧ r.vLenSq ≤ tolSq) ∨
       (s.br = 4 ∧ ∃ m, maxYLengthSquared (Y.set! n (p - q)) (n + 1) = .ok m ∧ r.vLenSq ≤ EPS * m)) := by
  unfold intersectionLoop at h
  simp only at h
  split at h
  · cases h; simp at hs
  split at h
  · cases h
  split at h
  · cases h
  rename_i r hr
  split at h
  · cases h; simp at hs
  rename_i hsucc
  have hsucc' : r.success = true := by simpa using hsucc
  split at h
  · rename_i hset; cases h; exact ⟨r, hr, hsucc', Or.inl ⟨rfl, hset⟩⟩
  split at h
  · rename_i htol; cases h; exact ⟨r, hr, hsucc', Or.inr (Or.inl ⟨rfl, htol⟩)⟩
  split at h
  · cases h
  rename_i m hm
  split at h
  · rename_i hrel; cases h; exact ⟨r, hr, hsucc', Or.inr (Or.inr ⟨rfl, m, hm, hrel⟩)⟩
  split at h
  · cases h
  split at h
  · cases h; simp at hs
  split at h
  · cases h
  · cases h; simp at hs

/-- what is known at the two "no progress" exits (branch 1: solver reports no improvement; branch 5: stall) -/
theorem step_noprogress {p q : V} {Y : Array V} {n : Nat} {tolSq prev : ℝ} {dir : V} {s : Step ℝ}
    (h : intersectionLoop p q Y n tolSq prev dir = .ok s) (hbr : s.br = 1 ∨ s.br = 5) :
    ∃ r, Simplex.getClosestPointToOrigin (Y.set! n (p - q)) (n + 1) prev = .ok r ∧
      ((s.br = 1 ∧ r.success = false) ∨ (s.br = 5 ∧ r.success = true ∧ prev - r.vLenSq ≤ EPS * prev)) := by
  unfold intersectionLoop at h
  simp only at h
  split at h
  · cases h; simp at hbr
  split at h
  · cases h
  split at h
  · cases h
  rename_i r hr
  split at h
  · rename_i hsucc; cases h
    exact ⟨r, hr, Or.inl ⟨rfl, by simpa using hsucc⟩⟩
  rename_i hsucc
  split at h
  · cases h; simp at hbr
  split at h
  · cases h; simp at hbr
  split at h
  · cases h
  split at h
  · cases h; simp at hbr
  split at h
  · cases h
  split at h
  · rename_i hst; cases h
    exact ⟨r, hr, Or.inr ⟨rfl, by simpa using hsucc, hst⟩⟩
  split at h
  · cases h
  · cases h; simp at hbr

/-! ### (1a) separating-axis exit ⇒ disjoint -/

/-- **`false_sep_axis` (step level).** If `_intersection_loop` leaves through the separating-axis test then
every point of `A ⊖ B` has `⟨dir, y⟩ < -EPSILON < 0`: the plane through the origin with normal `dir` separates
the colliders; in particular they are disjoint. -/
theorem false_sep_axis_step {A B : V → Prop} {p q : V} {Y : Array V} {n : Nat} {tolSq prev : ℝ} {dir : V}
    {s : Step ℝ} (hA : IsSupport A dir p) (hB : IsSupport B (-dir) q)
    (h : intersectionLoop p q Y n tolSq prev dir = .ok s) (hbr : s.br = 0) :
    s.state = .noIntersection ∧ (∀ y, mdiff A B y → V3.dot dir y < -EPS) ∧ Disjoint' A B := by
  have hlt := step_br0 h hbr
  have hw := isSupport_mdiff hA hB
  have hall : ∀ y, mdiff A B y → V3.dot dir y < -EPS := fun y hy => lt_of_le_of_lt (hw.2 y hy) hlt
  refine ⟨(step_state_of_br h).1 (Or.inl hbr), hall, ?_⟩
  exact disjoint_of_neg_support fun y hy => by have := hall y hy; linarith [EPS_pos]

/-! ### (1b) True exits -/

/-- what C02 uses of the C18 solver specification at a True exit: the returned point lies in the convex set
`K` that contains the simplex points (here `K = A ⊖ B`), its squared norm is what is reported, and the
feature set `0xf` is only reported for the origin itself -/
structure SolverInHull (K : V → Prop) (r : Simplex.Gcp ℝ) : Prop where
  mem : K r.v
  len : r.vLenSq = V3.normSq r.v
  full : r.set = 0xf → r.v = ⟨0, 0, 0⟩

/-- **`true_sound` (step level).** If `_intersection_loop` answers `Intersection` and the solver result obeys
its specification, there are `a ∈ A`, `b ∈ B` with `|a - b|² ≤ max(tolerance², EPSILON · max|Y|²)`, and
`a = b` (a common point) when the exit was `simplex == 0xf`. -/
theorem true_sound_step {A B : V → Prop} {p q : V} {Y : Array V} {n : Nat} {tolSq prev : ℝ} {dir : V}
    {s : Step ℝ} (h : intersectionLoop p q Y n tolSq prev dir = .ok s) (hs : s.state = .intersection)
    (hsolver : ∀ r, Simplex.getClosestPointToOrigin (Y.set! n (p - q)) (n + 1) prev = .ok r →
      SolverInHull (mdiff A B) r) :
    ∃ a b, A a ∧ B b ∧
      ((s.br = 2 ∧ a = b) ∨ (s.br = 3 ∧ V3.normSq (a - b) ≤ tolSq) ∨
       (s.br = 4 ∧ ∃ m, maxYLengthSquared (Y.set! n (p - q)) (n + 1) = .ok m ∧
          V3.normSq (a - b) ≤ EPS * m)) := by
  obtain ⟨r, hr, _, hcase⟩ := step_intersection h hs
  have hsp := hsolver r hr
  obtain ⟨a, b, ha, hb, hab⟩ := hsp.mem
  rcases hcase with ⟨hbr, hset⟩ | ⟨hbr, htol⟩ | ⟨hbr, m, hm, hrel⟩
  · have hz := hsp.full hset
    rw [hz] at hab
    have : mdiff A B ⟨0, 0, 0⟩ := ⟨a, b, ha, hb, hab⟩
    obtain ⟨x, hxa, hxb⟩ := mdiff_zero_iff.mp this
    exact ⟨x, x, hxa, hxb, Or.inl ⟨hbr, rfl⟩⟩
  · refine ⟨a, b, ha, hb, Or.inr (Or.inl ⟨hbr, ?_⟩)⟩
    rw [← hab, ← hsp.len]; exact htol
  · refine ⟨a, b, ha, hb, Or.inr (Or.inr ⟨hbr, m, hm, ?_⟩)⟩
    rw [← hab, ← hsp.len]; exact hrel

/-- consequence for the ground truth of the harness: a True exit is impossible when the colliders are
separated by a slab wider than `max(tolerance, √(EPSILON·m))` -/
theorem true_not_slab {A B : V → Prop} {p q : V} {Y : Array V} {n : Nat} {tolSq prev : ℝ} {dir : V}
    {s : Step ℝ} (h : intersectionLoop p q Y n tolSq prev dir = .ok s) (hs : s.state = .intersection)
    (hsolver : ∀ r, Simplex.getClosestPointToOrigin (Y.set! n (p - q)) (n + 1) prev = .ok r →
      SolverInHull (mdiff A B) r)
    {nrm : V} {δ : ℝ} (hδ : 0 < δ) (hslab : Slab A B nrm δ) (htol : tolSq < δ * δ)
    (hrel : ∀ m, maxYLengthSquared (Y.set! n (p - q)) (n + 1) = .ok m → EPS * m < δ * δ) : False := by
  obtain ⟨a, b, ha, hb, hc⟩ := true_sound_step h hs hsolver
  have hgap := slab_gap (le_of_lt hδ) hslab a b ha hb
  rcases hc with ⟨_, hab⟩ | ⟨_, h3⟩ | ⟨_, m, hm, h4⟩
  · exact slab_disjoint hδ hslab a ⟨ha, hab ▸ hb⟩
  · linarith
  · have := hrel m hm; linarith

/-! ### (1c) the "no progress" exits are impossible for a deep pair -/

/-- `progress_gap` (algebra): on the segment from `v` to `w` there is a point whose squared norm is smaller than
`|v|²` by at least `min(g, g²/|v-w|²)`, `g = ⟨v, v - w⟩ > 0`. Stated without `min`: either branch. -/
theorem progress_gap (v w : V) (hg : 0 < V3.dot v (v - w)) :
    ∃ t : ℝ, 0 ≤ t ∧ t ≤ 1 ∧
      ((V3.normSq (v - w) ≤ V3.dot v (v - w) ∧
          V3.normSq ((1 - t) * v + t * w) ≤ V3.normSq v - V3.dot v (v - w)) ∨
       (V3.dot v (v - w) < V3.normSq (v - w) ∧
          V3.normSq ((1 - t) * v + t * w) * V3.normSq (v - w) =
            V3.normSq v * V3.normSq (v - w) - V3.dot v (v - w) * V3.dot v (v - w))) := by
  set g := V3.dot v (v - w) with hgdef
  set D := V3.normSq (v - w) with hD
  have expand : ∀ t : ℝ, V3.normSq ((1 - t) * v + t * w) = V3.normSq v - 2 * t * g + t * t * D := by
    intro t
    simp only [hgdef, hD, V3.normSq_def, V3.dot_def, V3.add_x, V3.add_y, V3.add_z, V3.sub_x, V3.sub_y,
      V3.sub_z, V3.smul_x, V3.smul_y, V3.smul_z]
    ring
  by_cases hc : D ≤ g
  · exact ⟨1, by norm_num, le_refl _, Or.inl ⟨hc, by rw [expand 1]; nlinarith⟩⟩
  · rw [not_le] at hc
    have hDpos : 0 < D := lt_trans hg hc
    refine ⟨g / D, le_of_lt (div_pos hg hDpos), by rw [div_le_one hDpos]; exact le_of_lt hc,
      Or.inr ⟨hc, ?_⟩⟩
    rw [expand (g / D)]; field_simp; ring

/-- the part of the C18 solver specification used at the no-progress exits: the returned point is at least
as close to the origin as every point of the segment from the previous iterate `vprev` to the new support
point `w` (both lie in the hull of the simplex handed to the solver) -/
def SolverBeatsSegment (vprev w : V) (r : Simplex.Gcp ℝ) : Prop :=
  r.success = decide (r.vLenSq < V3.normSq vprev) ∧
  ∀ t : ℝ, 0 ≤ t → t ≤ 1 → r.vLenSq ≤ V3.normSq ((1 - t) * vprev + t * w)

/-- **`false_stall_not_deep` / `false_noimprove_not_deep` (step level).** From the second iteration on
(`dir = -vprev`, `prev = |vprev|²`, `vprev ≠ 0`), if the pair shares a point `δ`-inside both and
`EPSILON · |vprev - w|² < 4 δ²` (in the domain of the property `|vprev - w| ≤ diam(A ⊖ B) ≤ c·L` while
`2δ/√EPSILON ≈ 1.3e5·L`), the loop can leave neither through the stall test nor through the solver's
"no improvement" answer. -/
theorem false_stall_not_deep_step {A B : V → Prop} {p q vprev : V} {Y : Array V} {n : Nat} {tolSq : ℝ}
    {s : Step ℝ} {δ : ℝ} (hδ : 0 < δ)
    (hA : IsSupport A (-vprev) p) (hB : IsSupport B (-(-vprev)) q)
    (h : intersectionLoop p q Y n tolSq (V3.normSq vprev) (-vprev) = .ok s) (hbr : s.br = 1 ∨ s.br = 5)
    (hv : 0 < V3.normSq vprev)
    (hsolver : ∀ r, Simplex.getClosestPointToOrigin (Y.set! n (p - q)) (n + 1) (V3.normSq vprev) = .ok r →
      SolverBeatsSegment vprev (p - q) r)
    (hdeep : SharedDeep A B δ)
    (hdiam : EPS * V3.normSq (vprev - (p - q)) < 4 * δ * δ) : False := by
  obtain ⟨r, hr, hcase⟩ := step_noprogress h hbr
  obtain ⟨hsucc, hseg⟩ := hsolver r hr
  set w := p - q with hwdef
  have hw := isSupport_mdiff hA hB
  obtain ⟨z, hzA, hzB⟩ := hdeep
  have hm := deep_support_margin (le_of_lt hδ) hzA hzB hw
  -- |−vprev| = |vprev| =: N > 0, and ⟨−vprev, w⟩ ≥ 2 δ N
  have hnn : V3.normSq (-vprev) = V3.normSq vprev := by simp [V3.normSq_def]
  have hN : V3.norm (-vprev) = V3.norm vprev := by rw [V3.norm_def, V3.norm_def, hnn]
  rw [hN] at hm
  have hNsq := V3.norm_sq vprev
  have hNpos : 0 < V3.norm vprev := by
    rcases (V3.norm_nonneg vprev).lt_or_eq with h' | h'
    · exact h'
    · rw [← h'] at hNsq; linarith
  set N := V3.norm vprev with hNdef
  set P := V3.normSq vprev with hP
  -- g = ⟨vprev, vprev − w⟩ = P + ⟨−vprev, w⟩ ≥ P + 2 δ N
  have hg : V3.dot vprev (vprev - w) = P + V3.dot (-vprev) w := by
    simp only [hP, V3.dot_def, V3.normSq_def, V3.sub_x, V3.sub_y, V3.sub_z, V3.neg_x, V3.neg_y, V3.neg_z]; ring
  have hgpos : 0 < V3.dot vprev (vprev - w) := by rw [hg]; nlinarith
  -- in both exits: P − r.vLenSq ≤ EPS · P
  have hstall : P - r.vLenSq ≤ EPS * P := by
    rcases hcase with ⟨_, hf⟩ | ⟨_, _, hst⟩
    · rw [hf] at hsucc
      have : ¬ r.vLenSq < P := by simpa using hsucc.symm
      nlinarith [EPS_pos, not_lt.mp this]
    · exact hst
  obtain ⟨t, ht0, ht1, hc⟩ := progress_gap vprev w hgpos
  have hle := hseg t ht0 ht1
  set D := V3.normSq (vprev - w) with hD
  set g := V3.dot vprev (vprev - w) with hgd
  have hge : P + 2 * δ * N ≤ g := by rw [hg]; linarith
  rcases hc with ⟨_, hx⟩ | ⟨hlt, hx⟩
  · -- progress ≥ g ≥ P > EPS · P
    nlinarith [EPS_lt_one, EPS_pos]
  · -- progress = g²/D, D > 0
    have hDpos : 0 < D := lt_trans hgpos hlt
    -- r.vLenSq · D ≤ P D − g²
    have h1 : r.vLenSq * D ≤ P * D - g * g := by
      calc r.vLenSq * D ≤ V3.normSq ((1 - t) * vprev + t * w) * D :=
            mul_le_mul_of_nonneg_right hle (le_of_lt hDpos)
        _ = _ := hx
    -- g² ≥ (2 δ N)² = 4 δ² P   and   g² ≤ (P − r.vLenSq) D ≤ EPS P D
    have h2 : g * g ≤ EPS * P * D := by nlinarith
    have h3 : 4 * δ * δ * P ≤ g * g := by
      have : 2 * δ * N ≤ g := by nlinarith
      have h4 : 0 ≤ 2 * δ * N := by positivity
      calc 4 * δ * δ * P = (2 * δ * N) * (2 * δ * N) := by rw [← hNsq]; ring
        _ ≤ g * g := mul_self_le_mul_self h4 this
    have : 4 * δ * δ * P ≤ EPS * D * P := by nlinarith
    have : 4 * δ * δ ≤ EPS * D := le_of_mul_le_mul_right (by linarith) hv
    linarith

/-! ### last step of the driver loop -/

/-- every answer of the `while True` driver is the answer of one `_intersection_loop` call on support points
of the current direction -/
theorem gjkLoop_last_step (sA sB : V → V) (tolSq : ℝ) :
    ∀ (fuel it : Nat) (Y : Array V) (n : Nat) (prev : ℝ) (dir : V) (b : Bool) (its br : Nat),
      gjkLoop sA sB tolSq fuel it Y n prev dir = .ok (b, its, br) →
      ∃ Y' n' prev' dir' s, intersectionLoop (sA dir') (sB (-dir')) Y' n' tolSq prev' dir' = .ok s ∧
        s.br = br ∧ (b = true → s.state = .intersection) ∧ (b = false → s.state = .noIntersection)
  | 0, _, _, _, _, _, _, _, _, h => by simp [gjkLoop] at h
  | fuel + 1, it, Y, n, prev, dir, b, its, br, h => by
    unfold gjkLoop at h
    split at h
    · cases h
    rename_i s hs
    split at h
    · exact gjkLoop_last_step sA sB tolSq fuel _ _ _ _ _ _ _ _ h
    · rename_i hst
      cases h
      exact ⟨Y, n, prev, dir, s, hs, rfl, fun _ => hst, fun hb => by simp at hb⟩
    · rename_i hst
      cases h
      exact ⟨Y, n, prev, dir, s, hs, rfl, fun hb => by simp at hb, fun _ => hst⟩

end IsectJolt
end D3
