/-
Facts about the association-list model of Python dicts (`dGet/dSet/dPop/dOfList`) and about
`mapE` used by the BVH model.  Scalar-independent.
-/
import D3.Model.Bvh
import Mathlib.Data.List.Nodup

set_option linter.unusedSectionVars false

namespace D3
namespace Bvh

section Dict
variable {κ β : Type} [DecidableEq κ]

theorem dGet_dSet_eq (d : List (κ × β)) (k : κ) (v : β) : dGet (dSet d k v) k = some v := by
  induction d with
  | nil => simp [dSet, dGet]
  | cons p r ih =>
    obtain ⟨k', v'⟩ := p
    by_cases h : k' = k
    · simp [dSet, dGet, h]
    · simp [dSet, dGet, h, ih]

theorem dGet_dSet_ne (d : List (κ × β)) (k k' : κ) (v : β) (h : k' ≠ k) :
    dGet (dSet d k v) k' = dGet d k' := by
  induction d with
  | nil => simp [dSet, dGet, Ne.symm h]
  | cons p r ih =>
    obtain ⟨k'', v'⟩ := p
    by_cases h2 : k'' = k
    · subst h2
      simp [dSet, dGet, Ne.symm h]
    · by_cases h3 : k'' = k'
      · subst h3
        simp [dSet, dGet, h2]
      · simp [dSet, dGet, h2, h3, ih]

theorem mem_dKeys_dSet (d : List (κ × β)) (k x : κ) (v : β) :
    x ∈ dKeys (dSet d k v) ↔ x = k ∨ x ∈ dKeys d := by
  induction d with
  | nil => simp [dSet, dKeys]
  | cons p r ih =>
    obtain ⟨k', v'⟩ := p
    by_cases h : k' = k
    · subst h
      simp [dSet, dKeys]
    · simp only [dKeys] at ih
      simp only [dSet, h, if_false, dKeys, List.map_cons, List.mem_cons, ih]
      tauto

theorem nodup_dKeys_dSet (d : List (κ × β)) (k : κ) (v : β) (hn : (dKeys d).Nodup) :
    (dKeys (dSet d k v)).Nodup := by
  induction d with
  | nil => simp [dSet, dKeys]
  | cons p r ih =>
    obtain ⟨k', v'⟩ := p
    simp only [dKeys, List.map_cons, List.nodup_cons] at hn
    by_cases h : k' = k
    · subst h
      simpa [dSet, dKeys] using hn
    · simp only [dSet, h, if_false, dKeys, List.map_cons, List.nodup_cons]
      refine ⟨?_, ih hn.2⟩
      intro hm
      have := (mem_dKeys_dSet r k k' v).mp hm
      rcases this with h1 | h1
      · exact h h1
      · exact hn.1 h1

theorem mem_dSet (d : List (κ × β)) (k : κ) (v : β) (p : κ × β) (hp : p ∈ dSet d k v) :
    p = (k, v) ∨ p ∈ d := by
  induction d with
  | nil => simpa [dSet] using hp
  | cons q r ih =>
    obtain ⟨k', v'⟩ := q
    by_cases h : k' = k
    · subst h
      simp only [dSet, if_true, List.mem_cons] at hp
      rcases hp with h1 | h1
      · exact Or.inl h1
      · exact Or.inr (List.mem_cons_of_mem _ h1)
    · simp only [dSet, h, if_false, List.mem_cons] at hp
      rcases hp with h1 | h1
      · exact Or.inr (h1 ▸ List.mem_cons_self)
      · rcases ih h1 with h2 | h2
        · exact Or.inl h2
        · exact Or.inr (List.mem_cons_of_mem _ h2)

theorem dGet_isSome_iff (d : List (κ × β)) (k : κ) : (dGet d k).isSome = true ↔ k ∈ dKeys d := by
  induction d with
  | nil => simp [dGet, dKeys]
  | cons p r ih =>
    obtain ⟨k', v'⟩ := p
    by_cases h : k' = k
    · simp [dGet, dKeys, h]
    · simp only [dKeys] at ih
      simp [dGet, dKeys, h, ih, Ne.symm h]

theorem mem_of_dGet (d : List (κ × β)) (k : κ) (v : β) (h : dGet d k = some v) : (k, v) ∈ d := by
  induction d with
  | nil => simp [dGet] at h
  | cons p r ih =>
    obtain ⟨k', v'⟩ := p
    by_cases h2 : k' = k
    · subst h2
      simp only [dGet, if_true, Option.some.injEq] at h
      subst h
      exact List.mem_cons_self
    · simp only [dGet, h2, if_false] at h
      exact List.mem_cons_of_mem _ (ih h)

theorem mem_dKeys_of_dGet (d : List (κ × β)) (k : κ) (v : β) (h : dGet d k = some v) : k ∈ dKeys d :=
  (dGet_isSome_iff d k).mp (by simp [h])

theorem mem_dKeys_of_mem (d : List (κ × β)) (p : κ × β) (h : p ∈ d) : p.1 ∈ dKeys d :=
  List.mem_map_of_mem h

/-- the fold behind `dict(seq)` -/
theorem fold_dSet_keys (l : List (κ × β)) (acc : List (κ × β)) (x : κ) :
    x ∈ dKeys (l.foldl (fun d kv => dSet d kv.1 kv.2) acc) ↔ x ∈ dKeys acc ∨ x ∈ l.map (·.1) := by
  induction l generalizing acc with
  | nil => simp
  | cons p r ih =>
    simp only [List.foldl_cons, List.map_cons, List.mem_cons]
    rw [ih, mem_dKeys_dSet]
    tauto

theorem fold_dSet_nodup (l : List (κ × β)) (acc : List (κ × β)) (h : (dKeys acc).Nodup) :
    (dKeys (l.foldl (fun d kv => dSet d kv.1 kv.2) acc)).Nodup := by
  induction l generalizing acc with
  | nil => simpa using h
  | cons p r ih =>
    simp only [List.foldl_cons]
    exact ih _ (nodup_dKeys_dSet acc p.1 p.2 h)

theorem fold_dSet_mem (l : List (κ × β)) (acc : List (κ × β)) (p : κ × β)
    (h : p ∈ l.foldl (fun d kv => dSet d kv.1 kv.2) acc) : p ∈ acc ∨ p ∈ l := by
  induction l generalizing acc with
  | nil => exact Or.inl (by simpa using h)
  | cons q r ih =>
    simp only [List.foldl_cons] at h
    rcases ih _ h with h1 | h1
    · rcases mem_dSet acc q.1 q.2 p h1 with h2 | h2
      · exact Or.inr (by rw [h2]; exact List.mem_cons_self)
      · exact Or.inl h2
    · exact Or.inr (List.mem_cons_of_mem _ h1)

theorem mem_dKeys_dOfList (l : List (κ × β)) (x : κ) : x ∈ dKeys (dOfList l) ↔ x ∈ l.map (·.1) := by
  unfold dOfList
  rw [fold_dSet_keys]
  simp [dKeys]

theorem nodup_dKeys_dOfList (l : List (κ × β)) : (dKeys (dOfList l)).Nodup := by
  unfold dOfList
  exact fold_dSet_nodup l [] (by simp [dKeys])

theorem mem_dOfList (l : List (κ × β)) (p : κ × β) (h : p ∈ dOfList l) : p ∈ l := by
  unfold dOfList at h
  rcases fold_dSet_mem l [] p h with h1 | h1
  · cases h1
  · exact h1

/-- popping a list of keys = filtering them out -/
theorem mem_fold_dPop (wl : List κ) (d : List (κ × β)) (p : κ × β) :
    p ∈ wl.foldl dPop d ↔ p ∈ d ∧ p.1 ∉ wl := by
  induction wl generalizing d with
  | nil => simp
  | cons w r ih =>
    simp only [List.foldl_cons, List.mem_cons, not_or]
    rw [ih]
    simp only [dPop, List.mem_filter, decide_eq_true_eq]
    tauto

theorem nodup_fold_dPop (wl : List κ) (d : List (κ × β)) (h : (dKeys d).Nodup) :
    (dKeys (wl.foldl dPop d)).Nodup := by
  induction wl generalizing d with
  | nil => simpa using h
  | cons w r ih =>
    simp only [List.foldl_cons]
    apply ih
    unfold dPop dKeys
    exact List.Nodup.sublist (List.Sublist.map _ List.filter_sublist) h

theorem mem_dKeys_fold_dPop (wl : List κ) (d : List (κ × β)) (x : κ) :
    x ∈ dKeys (wl.foldl dPop d) ↔ x ∈ dKeys d ∧ x ∉ wl := by
  unfold dKeys
  simp only [List.mem_map]
  constructor
  · rintro ⟨p, hp, rfl⟩
    have := (mem_fold_dPop wl d p).mp hp
    exact ⟨⟨p, this.1, rfl⟩, this.2⟩
  · rintro ⟨⟨p, hp, rfl⟩, hx⟩
    exact ⟨p, (mem_fold_dPop wl d p).mpr ⟨hp, hx⟩, rfl⟩

end Dict

/-! ### `mapE` -/

/-- value of a successful computation (`d` otherwise) -/
def okD {γ : Type} (d : γ) : Except Err γ → γ
  | .ok y => y
  | .error _ => d

theorem mapE_okD {β γ : Type} (g : β → Except Err γ) (d : γ) (l : List β)
    (h : ∀ x ∈ l, ∃ y, g x = .ok y) : mapE g l = .ok (l.map fun x => okD d (g x)) := by
  induction l with
  | nil => rfl
  | cons x xs ih =>
    obtain ⟨y, hy⟩ := h x List.mem_cons_self
    have := ih (fun z hz => h z (List.mem_cons_of_mem _ hz))
    simp [mapE, hy, this, okD]

theorem mapE_ok_inv {β γ : Type} (g : β → Except Err γ) (d : γ) (l : List β) (L : List γ)
    (h : mapE g l = .ok L) : (∀ x ∈ l, ∃ y, g x = .ok y) ∧ L = l.map fun x => okD d (g x) := by
  induction l generalizing L with
  | nil =>
    simp only [mapE, Except.ok.injEq] at h
    subst h
    simp
  | cons x xs ih =>
    unfold mapE at h
    cases hx : g x with
    | error e => simp [hx] at h
    | ok y =>
      simp only [hx] at h
      cases hxs : mapE g xs with
      | error e => simp [hxs] at h
      | ok ys =>
        simp only [hxs, Except.ok.injEq] at h
        obtain ⟨h1, h2⟩ := ih ys hxs
        subst h
        refine ⟨?_, ?_⟩
        · intro z hz
          rcases List.mem_cons.mp hz with rfl | hz
          · exact ⟨y, hx⟩
          · exact h1 z hz
        · simp [hx, okD, h2]

end Bvh
end D3
