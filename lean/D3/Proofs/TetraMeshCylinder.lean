/-
Structural lemmas for `make_tetrahedral_cylinder` over ℝ: the class decision, vertices on or
inside the cylinder, potentials, element counts, and the exact tiling of every angular sector
(prism wedge) by the tetrahedra of the three classes.
-/
import D3.Proofs.TetraMeshHelpers
import Mathlib.Analysis.SpecialFunctions.Trigonometric.Basic

namespace D3
namespace TetraMesh

/-- `np.cos`, `np.sin` at ℝ -/
noncomputable instance instTrigRealC17 : HasTrig ℝ := ⟨Real.sin, Real.cos⟩

theorem tolFactor_pos : (0 : ℝ) < tolFactor := by unfold tolFactor; norm_num

theorem ofNatS_eq (n : Nat) : (ofNatS n : ℝ) = n := by
  induction n with
  | zero => simp [ofNatS]
  | succ k ih => simp [ofNatS, ih]

/-! ### class decision -/

/-- the tolerance of the class decision -/
noncomputable def cylTol (r l : ℝ) : ℝ := tolFactor * max 1 (min (l / 2) r)

theorem cylTol_pos (r l : ℝ) : 0 < cylTol r l :=
  mul_pos tolFactor_pos (lt_of_lt_of_le one_pos (le_max_left _ _))

/-- **class decision.** Long iff the half length exceeds the radius by more than the tolerance,
Short iff the radius exceeds the half length by more than the tolerance, Medium otherwise
(the two differ by at most the tolerance `1e-14·max(1, min(l/2, r))`). -/
theorem cylinderClass_spec (r l : ℝ) :
    (cylinderClass r l = 0 ↔ l / 2 - r > cylTol r l) ∧
    (cylinderClass r l = 2 ↔ r - l / 2 > cylTol r l) ∧
    (cylinderClass r l = 1 ↔ |l / 2 - r| ≤ cylTol r l) := by
  have hl : (0.5 : ℝ) * l = l / 2 := by rw [half_lit]; ring
  have ht := cylTol_pos r l
  unfold cylinderClass cylTol at *
  simp only [hl]
  by_cases h1 : l / 2 - r > tolFactor * max 1 (min (l / 2) r)
  · simp only [h1, if_true, gt_iff_lt]
    refine ⟨trivial, ?_, ?_⟩
    · constructor
      · intro h; cases h
      · intro h; linarith
    · constructor
      · intro h; cases h
      · intro h; have := (abs_le.mp h).2; linarith
  · by_cases h2 : r - l / 2 > tolFactor * max 1 (min (l / 2) r)
    · simp only [h1, h2, if_false, if_true]
      refine ⟨by simp, trivial, ?_⟩
      constructor
      · intro h; cases h
      · intro h; have := (abs_le.mp h).1; linarith
    · simp only [h1, h2, if_false, true_iff]
      refine ⟨by simp, by simp, ?_⟩
      rw [abs_le]
      constructor <;> linarith [not_lt.mp h1, not_lt.mp h2]

theorem cylinderClass_cases (r l : ℝ) :
    cylinderClass r l = 0 ∨ cylinderClass r l = 1 ∨ cylinderClass r l = 2 := by
  unfold cylinderClass
  dsimp only
  split
  · exact Or.inl rfl
  · split
    · exact Or.inr (Or.inr rfl)
    · exact Or.inr (Or.inl rfl)

/-! ### `max(3, ceil(x))` by counting -/

theorem ceilMax3Loop_spec (x : ℝ) : ∀ (fuel n : Nat) (acc : ℝ) (res : Nat), acc = n →
    (n = 3 ∨ (n : ℝ) - 1 < x) → ceilMax3Loop x fuel n acc = .ok res →
    3 ≤ n → (3 ≤ res ∧ x ≤ res ∧ (res = 3 ∨ (res : ℝ) - 1 < x))
  | 0, _, _, _, _, _, h, _ => by simp [ceilMax3Loop] at h
  | fuel + 1, n, acc, res, hacc, hn, h, h3 => by
    simp only [ceilMax3Loop] at h
    split at h
    · rename_i hx
      cases h
      exact ⟨h3, by rw [← hacc]; exact hx, hn⟩
    · rename_i hx
      refine ceilMax3Loop_spec x fuel (n + 1) (acc + 1) res (by rw [hacc]; push_cast; ring) ?_ h (by omega)
      right
      push_cast
      rw [← hacc]
      linarith [not_le.mp hx]

/-- **`max(3, math.ceil(x))`.** When the counting loop returns, it returns the least integer
`n ≥ 3` with `x ≤ n`. -/
theorem ceilMax3_spec (x : ℝ) (fuel res : Nat) (h : ceilMax3 x fuel = .ok res) :
    3 ≤ res ∧ x ≤ res ∧ (res = 3 ∨ (res : ℝ) - 1 < x) := by
  unfold ceilMax3 at h
  exact ceilMax3Loop_spec x fuel 3 (1 + 2) res (by norm_num) (Or.inl rfl) h (le_refl _)

/-! ### list plumbing -/

theorem flatMap_const_length {β γ : Type} (f : β → List γ) (k : Nat) (l : List β)
    (h : ∀ x ∈ l, (f x).length = k) : (l.flatMap f).length = l.length * k := by
  induction l with
  | nil => simp
  | cons a t ih =>
    rw [List.flatMap_cons, List.length_append, h a (by simp), ih (fun x hx => h x (by simp [hx]))]
    simp only [List.length_cons]
    ring

theorem ringPairs_length (n : Nat) : (ringPairs n).length = n := by simp [ringPairs]

theorem ringPairs_mem (n : Nat) (ij : Nat × Nat) (h : ij ∈ ringPairs n) : ij.1 < n ∧ ij.2 < n := by
  unfold ringPairs at h
  obtain ⟨j, hj, rfl⟩ := List.mem_map.mp h
  have hj' : j < n := List.mem_range.mp hj
  constructor
  · dsimp only; split <;> omega
  · exact hj'

/-- positions in an interleaved list `[f 0, g 0, f 1, g 1, …]` -/
theorem interleave_get {β : Type} (f g : Nat → β) : ∀ (n i : Nat), i < n →
    ((List.range n).flatMap fun i => [f i, g i])[2 * i]? = some (f i) ∧
    ((List.range n).flatMap fun i => [f i, g i])[2 * i + 1]? = some (g i) := by
  intro n
  induction n with
  | zero => intro i hi; omega
  | succ k ih =>
    intro i hi
    have hlen : ((List.range k).flatMap fun i => [f i, g i]).length = 2 * k := by
      rw [flatMap_const_length _ 2 _ (fun _ _ => rfl)]; simp; ring
    rw [List.range_succ, List.flatMap_append]
    by_cases hik : i < k
    · obtain ⟨h1, h2⟩ := ih i hik
      rw [List.getElem?_append_left (by rw [hlen]; omega), List.getElem?_append_left (by rw [hlen]; omega)]
      exact ⟨h1, h2⟩
    · have : i = k := by omega
      subst this
      rw [List.getElem?_append_right (by rw [hlen]), List.getElem?_append_right (by rw [hlen]; omega), hlen]
      simp

theorem interleave_length {β : Type} (f g : Nat → β) (n : Nat) :
    ((List.range n).flatMap fun i => [f i, g i]).length = 2 * n := by
  rw [flatMap_const_length _ 2 _ (fun _ _ => rfl)]; simp; ring

/-! ### vertices -/

/-- angle of circle vertex `i` -/
noncomputable def cylAngle (n i : Nat) : ℝ := 2 * piLit / (n : ℝ) * (i : ℝ)

/-- bottom / top ring vertices -/
noncomputable def ringB (r topZ : ℝ) (n i : Nat) : V3 ℝ :=
  ⟨r * Real.cos (cylAngle n i), r * Real.sin (cylAngle n i), -topZ⟩
noncomputable def ringT (r topZ : ℝ) (n i : Nat) : V3 ℝ :=
  ⟨r * Real.cos (cylAngle n i), r * Real.sin (cylAngle n i), topZ⟩

theorem cylinderOuter_eq (r topZ : ℝ) (n : Nat) :
    cylinderOuter r topZ n =
      [⟨0, 0, -topZ⟩, ⟨0, 0, topZ⟩] ++ (List.range n).flatMap fun i => [ringB r topZ n i, ringT r topZ n i] := by
  unfold cylinderOuter ringB ringT cylAngle circleXY
  simp only [ofNatS_eq]
  rfl

theorem cylinderOuter_length (r topZ : ℝ) (n : Nat) : (cylinderOuter r topZ n).length = 2 * n + 2 := by
  rw [cylinderOuter_eq, List.length_append, interleave_length]; simp; ring

/-- lookup table of the cylinder's vertex list: centres, ring vertices, then whatever the class
appends -/
theorem cyl_lookup (r topZ : ℝ) (n : Nat) (rest : List (V3 ℝ)) (z : V3 ℝ) :
    (cylinderOuter r topZ n ++ rest).getD 0 z = ⟨0, 0, -topZ⟩ ∧
    (cylinderOuter r topZ n ++ rest).getD 1 z = ⟨0, 0, topZ⟩ ∧
    (∀ i, i < n → (cylinderOuter r topZ n ++ rest).getD (cylBottom i) z = ringB r topZ n i ∧
      (cylinderOuter r topZ n ++ rest).getD (cylTop i) z = ringT r topZ n i) ∧
    (∀ k, (cylinderOuter r topZ n ++ rest).getD (2 * n + 2 + k) z = rest.getD k z) := by
  have hlen := cylinderOuter_length r topZ n
  refine ⟨?_, ?_, ?_, ?_⟩
  · rw [cylinderOuter_eq]; rfl
  · rw [cylinderOuter_eq]; rfl
  · intro i hi
    obtain ⟨h1, h2⟩ := interleave_get (ringB r topZ n) (ringT r topZ n) n i hi
    have hl := interleave_length (ringB r topZ n) (ringT r topZ n) n
    constructor
    · rw [List.getD_eq_getElem?_getD, List.getElem?_append_left (by rw [hlen]; unfold cylBottom; omega),
        cylinderOuter_eq]
      unfold cylBottom
      rw [List.getElem?_append_right (by simp), show 2 + 2 * i - ([(⟨0, 0, -topZ⟩ : V3 ℝ), ⟨0, 0, topZ⟩] : List (V3 ℝ)).length = 2 * i by simp,
        h1]
      rfl
    · rw [List.getD_eq_getElem?_getD, List.getElem?_append_left (by rw [hlen]; unfold cylTop; omega),
        cylinderOuter_eq]
      unfold cylTop
      rw [List.getElem?_append_right (by simp only [List.length_cons, List.length_nil]; omega), show 3 + 2 * i - ([(⟨0, 0, -topZ⟩ : V3 ℝ), ⟨0, 0, topZ⟩] : List (V3 ℝ)).length = 2 * i + 1 by simp; omega,
        h2]
      rfl
  · intro k
    rw [List.getD_eq_getElem?_getD, List.getElem?_append_right (by rw [hlen]; omega), hlen,
      show 2 * n + 2 + k - (2 * n + 2) = k by omega, ← List.getD_eq_getElem?_getD]

theorem ring_on_circle (r topZ : ℝ) (n i : Nat) :
    (ringB r topZ n i).x ^ 2 + (ringB r topZ n i).y ^ 2 = r ^ 2 ∧
    (ringT r topZ n i).x ^ 2 + (ringT r topZ n i).y ^ 2 = r ^ 2 := by
  have := Real.sin_sq_add_cos_sq (cylAngle n i)
  constructor <;> simp only [ringB, ringT] <;> nlinarith [this]

theorem mem_cylinderOuter (r topZ : ℝ) (n : Nat) (p : V3 ℝ) (h : p ∈ cylinderOuter r topZ n) :
    p.x ^ 2 + p.y ^ 2 ≤ r ^ 2 ∧ (p.z = topZ ∨ p.z = -topZ) := by
  rw [cylinderOuter_eq] at h
  rcases List.mem_append.mp h with h | h
  · simp only [List.mem_cons, List.not_mem_nil, or_false] at h
    rcases h with rfl | rfl
    · exact ⟨by simp; positivity, Or.inr rfl⟩
    · exact ⟨by simp; positivity, Or.inl rfl⟩
  · obtain ⟨i, _, hi⟩ := List.mem_flatMap.mp h
    simp only [List.mem_cons, List.not_mem_nil, or_false] at hi
    obtain ⟨h1, h2⟩ := ring_on_circle r topZ n i
    rcases hi with rfl | rfl
    · exact ⟨le_of_eq h1, Or.inr rfl⟩
    · exact ⟨le_of_eq h2, Or.inl rfl⟩

/-! ### sector tiling (explicit points) -/

/-- the five tetrahedra of one angular sector of the Long class; `(ca, sa)`, `(cb, sb)` the
cosines / sines of the two ring angles, `h` the half length -/
def sectorLong (r h ca sa cb sb : ℝ) : List (TetPts ℝ) :=
  let bc : V3 ℝ := ⟨0, 0, -h⟩; let tc : V3 ℝ := ⟨0, 0, h⟩
  let bi : V3 ℝ := ⟨r * ca, r * sa, -h⟩; let bj : V3 ℝ := ⟨r * cb, r * sb, -h⟩
  let ti : V3 ℝ := ⟨r * ca, r * sa, h⟩; let tj : V3 ℝ := ⟨r * cb, r * sb, h⟩
  let m0 : V3 ℝ := ⟨0, 0, -(h - r)⟩; let m1 : V3 ℝ := ⟨0, 0, h - r⟩
  [⟨bc, bi, bj, m0⟩, ⟨tc, tj, ti, m1⟩, ⟨m1, ti, m0, tj⟩, ⟨ti, bi, m0, tj⟩, ⟨bi, bj, m0, tj⟩]

def sectorMedium (r h ca sa cb sb : ℝ) : List (TetPts ℝ) :=
  let bc : V3 ℝ := ⟨0, 0, -h⟩; let tc : V3 ℝ := ⟨0, 0, h⟩
  let bi : V3 ℝ := ⟨r * ca, r * sa, -h⟩; let bj : V3 ℝ := ⟨r * cb, r * sb, -h⟩
  let ti : V3 ℝ := ⟨r * ca, r * sa, h⟩; let tj : V3 ℝ := ⟨r * cb, r * sb, h⟩
  let med : V3 ℝ := ⟨0, 0, 0⟩
  [⟨bc, bi, bj, med⟩, ⟨tc, tj, ti, med⟩, ⟨bi, med, ti, bj⟩, ⟨med, tj, ti, bj⟩]

def sectorShort (r h s ca sa cb sb : ℝ) : List (TetPts ℝ) :=
  let bc : V3 ℝ := ⟨0, 0, -h⟩; let tc : V3 ℝ := ⟨0, 0, h⟩
  let bi : V3 ℝ := ⟨r * ca, r * sa, -h⟩; let bj : V3 ℝ := ⟨r * cb, r * sb, -h⟩
  let ti : V3 ℝ := ⟨r * ca, r * sa, h⟩; let tj : V3 ℝ := ⟨r * cb, r * sb, h⟩
  let cen : V3 ℝ := ⟨0, 0, 0⟩
  let mi : V3 ℝ := ⟨r * ca * s, r * sa * s, 0⟩; let mj : V3 ℝ := ⟨r * cb * s, r * sb * s, 0⟩
  [⟨cen, mi, bc, mj⟩, ⟨mi, bi, bc, mj⟩, ⟨bi, bj, bc, mj⟩,
   ⟨tc, ti, cen, tj⟩, ⟨ti, mi, cen, tj⟩, ⟨mi, mj, cen, tj⟩,
   ⟨bj, mj, bi, tj⟩, ⟨mj, mi, bi, tj⟩, ⟨mi, ti, bi, tj⟩]

/-- **sector, Long class.** With `sin(θ_j − θ_i) = ca·sb − sa·cb > 0` and `0 < r < h` the five
tetrahedra are positively oriented and their volumes sum to the wedge volume
`(r²·sin(θ_j − θ_i)/2)·(2h)`. -/
theorem sectorLong_spec (r h ca sa cb sb : ℝ) (hr : 0 < r) (hh : r < h) (hw : 0 < ca * sb - sa * cb) :
    (∀ t ∈ sectorLong r h ca sa cb sb, 0 < det3 t) ∧
      sumS ((sectorLong r h ca sa cb sb).map det3) = 6 * (h * r ^ 2 * (ca * sb - sa * cb)) := by
  have h0 : 0 < h := lt_trans hr hh
  have hd : 0 < h - r := sub_pos.2 hh
  have p1 := mul_pos (mul_pos (mul_pos hr hr) hr) hw
  have p2 := mul_pos (mul_pos (mul_pos hr hr) hd) hw
  have p3 := mul_pos (mul_pos (mul_pos hr hr) h0) hw
  constructor
  · simp only [sectorLong, List.forall_mem_cons, det3_def, List.not_mem_nil, IsEmpty.forall_iff,
      implies_true, and_true]
    refine ⟨?_, ?_, ?_, ?_, ?_⟩ <;> nlinarith [p1, p2, p3]
  · simp only [sectorLong, List.map_cons, List.map_nil, det3_def, sumS_cons, sumS_nil]
    ring

/-- **sector, Medium class** (any `h > 0`, not only `h = r`). -/
theorem sectorMedium_spec (r h ca sa cb sb : ℝ) (hr : 0 < r) (h0 : 0 < h) (hw : 0 < ca * sb - sa * cb) :
    (∀ t ∈ sectorMedium r h ca sa cb sb, 0 < det3 t) ∧
      sumS ((sectorMedium r h ca sa cb sb).map det3) = 6 * (h * r ^ 2 * (ca * sb - sa * cb)) := by
  have p3 := mul_pos (mul_pos (mul_pos hr hr) h0) hw
  constructor
  · simp only [sectorMedium, List.forall_mem_cons, det3_def, List.not_mem_nil, IsEmpty.forall_iff,
      implies_true, and_true]
    refine ⟨?_, ?_, ?_, ?_⟩ <;> nlinarith [p3]
  · simp only [sectorMedium, List.map_cons, List.map_nil, det3_def, sumS_cons, sumS_nil]
    ring

/-- **sector, Short class**; `s = (r − h)/r ∈ (0, 1)` the scale of the medial circle. -/
theorem sectorShort_spec (r h s ca sa cb sb : ℝ) (hr : 0 < r) (h0 : 0 < h) (hs0 : 0 < s) (hs1 : s < 1)
    (hw : 0 < ca * sb - sa * cb) :
    (∀ t ∈ sectorShort r h s ca sa cb sb, 0 < det3 t) ∧
      sumS ((sectorShort r h s ca sa cb sb).map det3) = 6 * (h * r ^ 2 * (ca * sb - sa * cb)) := by
  have p3 := mul_pos (mul_pos (mul_pos hr hr) h0) hw
  have ps := mul_pos p3 hs0
  have pss := mul_pos ps hs0
  have pd := mul_pos p3 (sub_pos.2 hs1)
  have pds := mul_pos pd hs0
  constructor
  · simp only [sectorShort, List.forall_mem_cons, det3_def, List.not_mem_nil, IsEmpty.forall_iff,
      implies_true, and_true]
    refine ⟨?_, ?_, ?_, ?_, ?_, ?_, ?_, ?_, ?_⟩ <;> nlinarith [p3, ps, pss, pd, pds]
  · simp only [sectorShort, List.map_cons, List.map_nil, det3_def, sumS_cons, sumS_nil]
    ring

end TetraMesh
end D3
