/-
`clamp_convex`: the distance from the points of a line to a convex set is a convex function of
the line parameter, so clamping the parameter of a closest pair of (line, K) to the segment and
re-projecting the end point gives a closest pair of (segment, K).  This is the step
`line_segment_to_triangle` (and `_rectangle`, `_box`) adds on top of the line routine.
Used here for the conditional theorem `lineSegmentToTriangle_of_line`.
-/
import D3.Proofs.DistPolyTriangle

namespace D3
namespace DistPoly

/-- convexity of the squared norm -/
theorem normSq_convex (u v : V) (l : ℝ) (h0 : 0 ≤ l) (h1 : l ≤ 1) :
    V3.normSq (l * u + (1 - l) * v) ≤ l * V3.normSq u + (1 - l) * V3.normSq v := by
  have key : l * V3.normSq u + (1 - l) * V3.normSq v - V3.normSq (l * u + (1 - l) * v) =
      l * (1 - l) * V3.normSq (u - v) := by
    simp only [V3.normSq_def, V3.add_x, V3.add_y, V3.add_z, V3.smul_x, V3.smul_y, V3.smul_z,
      V3.sub_x, V3.sub_y, V3.sub_z]
    ring
  have : 0 ≤ l * (1 - l) * V3.normSq (u - v) :=
    mul_nonneg (mul_nonneg h0 (by linarith)) (V3.normSq_nonneg _)
  linarith

/-- a set closed under convex combinations -/
def ConvexSet (K : V → Prop) : Prop :=
  ∀ x y, K x → K y → ∀ l : ℝ, 0 ≤ l → l ≤ 1 → K (l * x + (1 - l) * y)

theorem triangleSet_convex (a b c : V) : ConvexSet (triangleSet a b c) := by
  rintro x y ⟨u1, v1, w1, hu1, hv1, hw1, hs1, rfl⟩ ⟨u2, v2, w2, hu2, hv2, hw2, hs2, rfl⟩ l h0 h1
  have h1l : 0 ≤ 1 - l := by linarith
  refine ⟨l * u1 + (1 - l) * u2, l * v1 + (1 - l) * v2, l * w1 + (1 - l) * w2,
    add_nonneg (mul_nonneg h0 hu1) (mul_nonneg h1l hu2),
    add_nonneg (mul_nonneg h0 hv1) (mul_nonneg h1l hv2),
    add_nonneg (mul_nonneg h0 hw1) (mul_nonneg h1l hw2), ?_, ?_⟩
  · have : l * u1 + (1 - l) * u2 + (l * v1 + (1 - l) * v2) + (l * w1 + (1 - l) * w2) =
        l * (u1 + v1 + w1) + (1 - l) * (u2 + v2 + w2) := by ring
    rw [this, hs1, hs2]; ring
  · apply V3.ext' <;> simp <;> ring

/-- **clamp_convex.** `K` convex; `(s + t*·d, y*)` a closest pair of (line, K) with `t* ≤ 0`;
`q` a closest point of `K` to the start point `s`.  Then `(s, q)` is a closest pair of
(ray `s + τ d, τ ≥ 0`, K). -/
theorem clamp_convex (K : V → Prop) (hK : ConvexSet K) (s d : V) (tstar : ℝ) (ystar : V)
    (hy : K ystar)
    (hline : ∀ (τ : ℝ) (y : V), K y → V3.normSq ((s + tstar * d) - ystar) ≤ V3.normSq ((s + τ * d) - y))
    (ht : tstar ≤ 0) (q : V) (hq : ∀ y, K y → V3.normSq (s - q) ≤ V3.normSq (s - y)) :
    ∀ (τ : ℝ) (y : V), 0 ≤ τ → K y → V3.normSq (s - q) ≤ V3.normSq ((s + τ * d) - y) := by
  intro τ y hτ hKy
  rcases eq_or_lt_of_le hτ with h0 | hpos
  · have : s + τ * d = s := by rw [← h0]; apply V3.ext' <;> simp
    rw [this]; exact hq y hKy
  · have hden : 0 < τ - tstar := by linarith
    set l := τ / (τ - tstar) with hl
    have hl0 : 0 ≤ l := div_nonneg hτ hden.le
    have hl1 : l ≤ 1 := by rw [hl, div_le_one hden]; linarith
    have hlt : l * (τ - tstar) = τ := div_mul_cancel₀ τ hden.ne'
    have hmem : K (l * ystar + (1 - l) * y) := hK _ _ hy hKy l hl0 hl1
    have hsplit : s - (l * ystar + (1 - l) * y) =
        l * ((s + tstar * d) - ystar) + (1 - l) * ((s + τ * d) - y) := by
      have hz : l * tstar + (1 - l) * τ = 0 := by linarith
      apply V3.ext' <;> simp
      · linear_combination (-d.x) * hz
      · linear_combination (-d.y) * hz
      · linear_combination (-d.z) * hz
    have h1 := hq _ hmem
    rw [hsplit] at h1
    have h2 := normSq_convex ((s + tstar * d) - ystar) ((s + τ * d) - y) l hl0 hl1
    have h3 := hline τ y hKy
    have h4 : l * V3.normSq ((s + tstar * d) - ystar) ≤ l * V3.normSq ((s + τ * d) - y) :=
      mul_le_mul_of_nonneg_left h3 hl0
    linarith

/-! ### `line_segment_to_triangle`, conditional on `_line_to_triangle` -/

/-- what `line_segment_to_triangle` uses of `_line_to_triangle`: the returned parameter belongs to
the returned point of the line, the other point lies in the triangle, `d² = |p₁ − p₂|²`, and no
pair (point of the line, point of the triangle) is closer -/
def LineTriGood (lp ld a b c : V) (r : LnRes ℝ) : Prop :=
  r.cpLine = lp + r.t * ld ∧ triangleSet a b c r.cpPrim ∧ 0 ≤ r.dist ∧
  r.dist * r.dist = V3.normSq (r.cpLine - r.cpPrim) ∧
  ∀ (τ : ℝ) (y : V), triangleSet a b c y → r.dist * r.dist ≤ V3.normSq ((lp + τ * ld) - y)

/-- feasibility + global optimality of a segment-to-triangle result -/
def SegTriGood (s e a b c : V) (r : LnRes ℝ) : Prop :=
  segmentSet s e r.cpLine ∧ triangleSet a b c r.cpPrim ∧ 0 ≤ r.dist ∧
  r.dist * r.dist = V3.normSq (r.cpLine - r.cpPrim) ∧
  ∀ x y, segmentSet s e x → triangleSet a b c y → r.dist * r.dist ≤ V3.normSq (x - y)

theorem smul_sdiv (v : V) (l : ℝ) (hl : l ≠ 0) : l * V3.sdiv v l = v := by
  apply V3.ext' <;> simp [V3.sdiv] <;> field_simp

theorem convertSegmentToLine_pos (s e : V) (h : 0 < V3.normSq (e - s)) :
    convertSegmentToLine s e = (V3.sdiv (e - s) (V3.norm (e - s)), V3.norm (e - s)) := by
  unfold convertSegmentToLine
  have : 0 < V3.norm (e - s) := Real.sqrt_pos.mpr h
  simp [this]

/-- **`line_segment_to_triangle` (conditional).** If `_line_to_triangle` on the carrier line returns
a feasible, globally optimal result `r`, then `line_segment_to_triangle` returns a feasible,
globally optimal result for the segment: clamping the line parameter and re-projecting the end
point is justified by convexity (`clamp_convex`) and `point_to_triangle`'s theorem. -/
theorem lineSegmentToTriangle_of_line (s e a b c : V) (eps mf : ℝ)
    (hnd : 0 < V3.normSq (V3.cross (b - a) (c - a))) (hse : 0 < V3.normSq (e - s))
    (r : LnRes ℝ)
    (hr : lineToTriangleFull s (convertSegmentToLine s e).1 a b c eps mf = .ok r)
    (hg : LineTriGood s (convertSegmentToLine s e).1 a b c r) :
    ∃ res, lineSegmentToTriangle s e a b c eps mf = .ok res ∧ SegTriGood s e a b c res := by
  have hconv := convertSegmentToLine_pos s e hse
  rw [hconv] at hr hg
  dsimp only at hr hg
  have hlen : 0 < V3.norm (e - s) := Real.sqrt_pos.mpr hse
  have hdir := smul_sdiv (e - s) (V3.norm (e - s)) hlen.ne'
  generalize V3.norm (e - s) = len at *
  generalize V3.sdiv (e - s) len = dir at *
  obtain ⟨hcp, hmem, hd0, hd2, hopt⟩ := hg
  have hK := triangleSet_convex a b c
  -- points of the segment are points `s + τ·dir`, `0 ≤ τ ≤ len`
  have hseg : ∀ x, segmentSet s e x → ∃ τ, 0 ≤ τ ∧ τ ≤ len ∧ x = s + τ * dir := by
    rintro x ⟨t, ht0, ht1, rfl⟩
    refine ⟨t * len, mul_nonneg ht0 hlen.le, by nlinarith, ?_⟩
    rw [← hdir]; apply V3.ext' <;> simp <;> ring
  have hline : ∀ (τ : ℝ) (y : V), triangleSet a b c y →
      V3.normSq ((s + r.t * dir) - r.cpPrim) ≤ V3.normSq ((s + τ * dir) - y) := by
    intro τ y hy
    rw [← hcp, ← hd2]; exact hopt τ y hy
  unfold lineSegmentToTriangle
  rw [hconv]
  dsimp only
  rw [hr]
  simp only [bind, Except.bind]
  split_ifs with h1 h2
  · -- clamped to the start point
    obtain ⟨q, hq, hqm, hq0, hq2, hqopt⟩ := pointToTriangle_spec s a b c hnd
    rw [hq]
    refine ⟨_, rfl, ⟨0, le_rfl, zero_le_one, by apply V3.ext' <;> simp⟩, hqm, hq0, hq2, ?_⟩
    intro x y hx hy
    obtain ⟨τ, hτ0, _, rfl⟩ := hseg x hx
    show q.dist * q.dist ≤ _
    rw [hq2]
    exact clamp_convex _ hK s dir r.t r.cpPrim hmem hline h1.le q.cp
      (fun y hy => by rw [← hq2]; exact hqopt y hy) τ y hτ0 hy
  · -- clamped to the end point
    obtain ⟨q, hq, hqm, hq0, hq2, hqopt⟩ := pointToTriangle_spec e a b c hnd
    rw [hq]
    have he : e = s + len * dir := by rw [hdir]; apply V3.ext' <;> simp
    refine ⟨_, rfl, ⟨1, zero_le_one, le_rfl, by apply V3.ext' <;> simp⟩, hqm, hq0, hq2, ?_⟩
    intro x y hx hy
    obtain ⟨τ, _, hτ1, rfl⟩ := hseg x hx
    show q.dist * q.dist ≤ _
    rw [hq2]
    -- walk the line backwards from `e`
    have hback : ∀ (σ : ℝ), e + σ * ((-1 : ℝ) * dir) = s + (len - σ) * dir := by
      intro σ; rw [he]; apply V3.ext' <;> simp <;> ring
    have hline' : ∀ (σ : ℝ) (y : V), triangleSet a b c y →
        V3.normSq ((e + (len - r.t) * ((-1 : ℝ) * dir)) - r.cpPrim) ≤
          V3.normSq ((e + σ * ((-1 : ℝ) * dir)) - y) := by
      intro σ y hy
      rw [hback, hback]
      have : len - (len - r.t) = r.t := by ring
      rw [this]; exact hline _ y hy
    have := clamp_convex _ hK e ((-1 : ℝ) * dir) (len - r.t) r.cpPrim hmem hline' (by linarith) q.cp
      (fun y hy => by rw [← hq2]; exact hqopt y hy) (len - τ) y (by linarith) hy
    rw [hback] at this
    have e2 : len - (len - τ) = τ := by ring
    rw [e2] at this
    exact this
  · -- the closest point of the line lies on the segment
    rw [not_lt] at h1 h2
    refine ⟨_, rfl, ?_, hmem, hd0, hd2, ?_⟩
    · refine ⟨r.t / len, div_nonneg h1 hlen.le, by rw [div_le_one hlen]; exact h2, ?_⟩
      rw [hcp, ← hdir]
      have : r.t / len * len = r.t := div_mul_cancel₀ _ hlen.ne'
      apply V3.ext' <;> simp
      · linear_combination (-dir.x) * this
      · linear_combination (-dir.y) * this
      · linear_combination (-dir.z) * this
    · intro x y hx hy
      obtain ⟨τ, _, _, rfl⟩ := hseg x hx
      exact hopt τ y hy

end DistPoly
end D3
