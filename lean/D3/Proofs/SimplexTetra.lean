/-
C18, Jolt solver, tetrahedron: permutation invariance of hulls, the "first exit" argument
(a segment from the origin to a point of the tetrahedron meets a face whose outer side holds
the origin), and the specification of `closestPointTetrahedron` for consistent plane signs.
-/
import D3.Proofs.SimplexTriangle
import Mathlib.Data.Finset.Max
import Mathlib.Data.Fintype.Basic
import Mathlib.Tactic.FinCases

set_option linter.unusedSectionVars false
set_option linter.unusedVariables false

namespace D3
namespace Simplex

/-! ### first exit of a segment from the origin -/

/-- `p i` are the barycentric coordinates of the origin (some `≤ 0`), `q i ≥ 0` those of a
point of the simplex: somewhere on the segment all coordinates are `≥ 0` and a coordinate
that started `≤ 0` vanishes. -/
theorem crossing {n : Nat} (p q : Fin n → ℝ) (hq : ∀ i, 0 ≤ q i) (hex : ∃ i, p i ≤ 0) :
    ∃ τ : ℝ, 0 ≤ τ ∧ τ ≤ 1 ∧ (∀ i, 0 ≤ (1 - τ) * p i + τ * q i) ∧
      ∃ j, p j ≤ 0 ∧ (1 - τ) * p j + τ * q j = 0 := by
  classical
  let S : Finset (Fin n) := Finset.univ.filter (fun i => p i ≤ 0)
  have hS : S.Nonempty := by
    obtain ⟨i, hi⟩ := hex
    exact ⟨i, by simp [S, hi]⟩
  let T : Fin n → ℝ := fun i => if q i - p i = 0 then 0 else -p i / (q i - p i)
  have hfacts : ∀ i, p i ≤ 0 → 0 ≤ T i ∧ T i ≤ 1 ∧
      ∀ τ, T i ≤ τ → 0 ≤ (1 - τ) * p i + τ * q i ∧ (τ = T i → (1 - τ) * p i + τ * q i = 0) := by
    intro i hi
    have hqi := hq i
    by_cases hδ : q i - p i = 0
    · have hp0 : p i = 0 := by linarith
      have hq0 : q i = 0 := by linarith
      simp only [T, hδ, if_true]
      refine ⟨le_refl _, zero_le_one, fun τ _ => ?_⟩
      rw [hp0, hq0]; simp
    · have hδpos : 0 < q i - p i := lt_of_le_of_ne (by linarith) (Ne.symm hδ)
      simp only [T, hδ, if_false]
      have hT : -p i / (q i - p i) * (q i - p i) = -p i := by field_simp
      refine ⟨div_nonneg (by linarith) hδpos.le, (div_le_one hδpos).mpr (by linarith), fun τ hτ => ?_⟩
      have e : (1 - τ) * p i + τ * q i = (τ - -p i / (q i - p i)) * (q i - p i) := by
        linear_combination hT
      refine ⟨by rw [e]; exact mul_nonneg (by linarith) hδpos.le, fun h => ?_⟩
      rw [e, h]; ring
  obtain ⟨j, hjS, hmax⟩ := Finset.exists_max_image S T hS
  have hj : p j ≤ 0 := by simpa [S] using hjS
  obtain ⟨hj0, hj1, hjτ⟩ := hfacts j hj
  refine ⟨T j, hj0, hj1, ?_, j, hj, (hjτ (T j) (le_refl _)).2 rfl⟩
  intro i
  by_cases hi : p i ≤ 0
  · have hiS : i ∈ S := by simp [S, hi]
    exact ((hfacts i hi).2.2 (T j) (hmax i hiS)).1
  · have hpi : 0 < p i := not_le.mp hi
    have := hq i
    nlinarith [mul_nonneg (sub_nonneg.mpr hj1) hpi.le, mul_nonneg hj0 this]

theorem normSq_smul (τ : ℝ) (y : V) : V3.normSq (τ * y) = τ * τ * V3.normSq y := by
  simp only [V3.normSq_def, V3.smul_x, V3.smul_y, V3.smul_z]; ring

/-- **abstract tetrahedron lemma**: `pa … pd` are barycentric coordinates of the origin with
respect to `a b c d` (they sum to 1 and reproduce 0; they may be negative).  If the origin is
on the outer side of (or on) at least one face, then a point `r` of the tetrahedron that is
no farther from the origin than the minimum-norm point of every such face is the
minimum-norm point of the tetrahedron. -/
theorem tetra_outside_min (a b c d : V) (pa pb pc pd : ℝ)
    (hsum : pa + pb + pc + pd = 1)
    (hzero : pa * a + pb * b + pc * c + pd * d = (⟨0, 0, 0⟩ : V))
    (r ra rb rc rd : V)
    (hra : pa ≤ 0 → IsMinNorm (hullSet [b, d, c]) ra ∧ V3.normSq r ≤ V3.normSq ra)
    (hrb : pb ≤ 0 → IsMinNorm (hullSet [a, c, d]) rb ∧ V3.normSq r ≤ V3.normSq rb)
    (hrc : pc ≤ 0 → IsMinNorm (hullSet [a, d, b]) rc ∧ V3.normSq r ≤ V3.normSq rc)
    (hrd : pd ≤ 0 → IsMinNorm (hullSet [a, b, c]) rd ∧ V3.normSq r ≤ V3.normSq rd)
    (hmem : hullSet [a, b, c, d] r)
    (hex : pa ≤ 0 ∨ pb ≤ 0 ∨ pc ≤ 0 ∨ pd ≤ 0) : IsMinNorm (hullSet [a, b, c, d]) r := by
  refine ⟨hmem, fun y hy => ?_⟩
  obtain ⟨u, v, w, t, hu, hv, hw, ht, hs, rfl⟩ := hull4_elim hy
  obtain ⟨τ, hτ0, hτ1, hall, j, hj, hjz⟩ := crossing ![pa, pb, pc, pd] ![u, v, w, t]
    (by intro i; fin_cases i <;> simp [hu, hv, hw, ht])
    (by
      rcases hex with h | h | h | h
      · exact ⟨0, by simpa using h⟩
      · exact ⟨1, by simpa using h⟩
      · exact ⟨2, by simpa using h⟩
      · exact ⟨3, by simpa using h⟩)
  have ha := hall 0
  have hb := hall 1
  have hc := hall 2
  have hd := hall 3
  simp only [Matrix.cons_val_zero, Matrix.cons_val_one, Matrix.cons_val] at ha hb hc hd
  set fa := (1 - τ) * pa + τ * u with hfa
  set fb := (1 - τ) * pb + τ * v with hfb
  set fc := (1 - τ) * pc + τ * w with hfc
  set fd := (1 - τ) * pd + τ * t with hfd
  have hfsum : fa + fb + fc + fd = 1 := by
    simp only [hfa, hfb, hfc, hfd]
    linear_combination (1 - τ) * hsum + τ * hs
  have hzx := congrArg V3.x hzero
  have hzy := congrArg V3.y hzero
  have hzz := congrArg V3.z hzero
  simp only [V3.add_x, V3.add_y, V3.add_z, V3.smul_x, V3.smul_y, V3.smul_z] at hzx hzy hzz
  set y := u * a + v * b + w * c + t * d with hy'
  have hz : τ * y = fa * a + fb * b + fc * c + fd * d := by
    apply V3.ext' <;> simp only [hy', hfa, hfb, hfc, hfd, V3.add_x, V3.add_y, V3.add_z, V3.smul_x,
      V3.smul_y, V3.smul_z]
    · linear_combination -(1 - τ) * hzx
    · linear_combination -(1 - τ) * hzy
    · linear_combination -(1 - τ) * hzz
  have hnorm : V3.normSq (τ * y) ≤ V3.normSq y := by
    rw [normSq_smul]
    have := V3.normSq_nonneg y
    have : τ * τ ≤ 1 := by nlinarith
    nlinarith
  refine le_trans ?_ hnorm
  fin_cases j
  · -- face opposite a
    have hp : pa ≤ 0 := by simpa using hj
    have hf0 : fa = 0 := by simpa using hjz
    obtain ⟨hmin, hle⟩ := hra hp
    refine le_trans hle (hmin.2 _ ?_)
    have : τ * y = fb * b + fd * d + fc * c := by
      rw [hz, hf0]; apply V3.ext' <;> simp <;> ring
    rw [this]
    exact hull3_intro b d c hb hd hc (by linarith)
  · have hp : pb ≤ 0 := by simpa using hj
    have hf0 : fb = 0 := by simpa using hjz
    obtain ⟨hmin, hle⟩ := hrb hp
    refine le_trans hle (hmin.2 _ ?_)
    have : τ * y = fa * a + fc * c + fd * d := by
      rw [hz, hf0]; apply V3.ext' <;> simp
    rw [this]
    exact hull3_intro a c d ha hc hd (by linarith)
  · have hp : pc ≤ 0 := by simpa using hj
    have hf0 : fc = 0 := by simpa using hjz
    obtain ⟨hmin, hle⟩ := hrc hp
    refine le_trans hle (hmin.2 _ ?_)
    have : τ * y = fa * a + fd * d + fb * b := by
      rw [hz, hf0]; apply V3.ext' <;> simp <;> ring
    rw [this]
    exact hull3_intro a d b ha hd hb (by linarith)
  · have hp : pd ≤ 0 := by simpa using hj
    have hf0 : fd = 0 := by simpa using hjz
    obtain ⟨hmin, hle⟩ := hrd hp
    refine le_trans hle (hmin.2 _ ?_)
    have : τ * y = fa * a + fb * b + fc * c := by
      rw [hz, hf0]; apply V3.ext' <;> simp
    rw [this]
    exact hull3_intro a b c ha hb hc (by linarith)

/-- origin inside (all barycentric coordinates `≥ 0`): the minimum-norm point is the origin -/
theorem tetra_inside_min (a b c d : V) (pa pb pc pd : ℝ)
    (hsum : pa + pb + pc + pd = 1)
    (hzero : pa * a + pb * b + pc * c + pd * d = (⟨0, 0, 0⟩ : V))
    (ha : 0 ≤ pa) (hb : 0 ≤ pb) (hc : 0 ≤ pc) (hd : 0 ≤ pd) :
    IsMinNorm (hullSet [a, b, c, d]) (⟨0, 0, 0⟩ : V) := by
  refine ⟨?_, fun y _ => ?_⟩
  · rw [← hzero]; exact hull4_intro a b c d ha hb hc hd hsum
  · have := V3.normSq_nonneg y
    simpa [V3.normSq_def] using this

/-! ### plane signs of `origin_outside_of_tetrahedron_planes` -/

/-- in exact arithmetic the four `signd` values coincide (they are all `det[ab, ac, ad]`) -/
theorem signd_eq (a b c d : V) :
    V3.dot (b - a) (V3.cross (c - a) (d - a)) = V3.dot (d - a) (V3.cross (b - a) (c - a)) ∧
    V3.dot (c - a) (V3.cross (d - a) (b - a)) = V3.dot (d - a) (V3.cross (b - a) (c - a)) ∧
    -(V3.dot (b - a) (V3.cross (d - b) (c - b))) = V3.dot (d - a) (V3.cross (b - a) (c - a)) := by
  refine ⟨?_, ?_, ?_⟩ <;>
  · simp only [V3.dot_def, cross_x, cross_y, cross_z, V3.sub_x, V3.sub_y, V3.sub_z]; ring

/-- Cramer: the `signp` values are (minus `D` times) the barycentric coordinates of the origin -/
theorem cramer_sum (a b c d : V) :
    V3.dot a (V3.cross (b - a) (c - a)) + V3.dot a (V3.cross (c - a) (d - a)) +
    V3.dot a (V3.cross (d - a) (b - a)) + V3.dot b (V3.cross (d - b) (c - b)) =
    -(V3.dot (d - a) (V3.cross (b - a) (c - a))) := by
  simp only [V3.dot_def, cross_x, cross_y, cross_z, V3.sub_x, V3.sub_y, V3.sub_z]; ring

theorem cramer_vec (a b c d : V) :
    V3.dot b (V3.cross (d - b) (c - b)) * a + V3.dot a (V3.cross (c - a) (d - a)) * b +
    V3.dot a (V3.cross (d - a) (b - a)) * c + V3.dot a (V3.cross (b - a) (c - a)) * d
    = (⟨0, 0, 0⟩ : V) := by
  apply V3.ext' <;>
  · simp only [V3.dot_def, cross_x, cross_y, cross_z, V3.sub_x, V3.sub_y, V3.sub_z, V3.add_x,
      V3.add_y, V3.add_z, V3.smul_x, V3.smul_y, V3.smul_z]; ring

/-- barycentric coordinates of the origin from the plane values (`D ≠ 0`) -/
theorem bary_origin (a b c d : V) (hD : V3.dot (d - a) (V3.cross (b - a) (c - a)) ≠ 0) :
    let D := V3.dot (d - a) (V3.cross (b - a) (c - a))
    let pa := -(V3.dot b (V3.cross (d - b) (c - b))) / D
    let pb := -(V3.dot a (V3.cross (c - a) (d - a))) / D
    let pc := -(V3.dot a (V3.cross (d - a) (b - a))) / D
    let pd := -(V3.dot a (V3.cross (b - a) (c - a))) / D
    pa + pb + pc + pd = 1 ∧ pa * a + pb * b + pc * c + pd * d = (⟨0, 0, 0⟩ : V) := by
  intro D pa pb pc pd
  have hs := cramer_sum a b c d
  have hv := cramer_vec a b c d
  have hvx := congrArg V3.x hv
  have hvy := congrArg V3.y hv
  have hvz := congrArg V3.z hv
  simp only [V3.add_x, V3.add_y, V3.add_z, V3.smul_x, V3.smul_y, V3.smul_z] at hvx hvy hvz
  refine ⟨?_, ?_⟩
  · simp only [pa, pb, pc, pd, D]
    field_simp
    linarith
  · apply V3.ext' <;> simp only [pa, pb, pc, pd, D, V3.add_x, V3.add_y, V3.add_z, V3.smul_x,
      V3.smul_y, V3.smul_z] <;> field_simp <;> linarith

/-! ### the fold of `closest_point_tetrahedron` -/

/-- invariant of the running state after some blocks; `L` lists (flag, candidate, remapped set)
of the blocks processed so far -/
def TInv (L : List (Bool × V × Nat)) (st : TetState ℝ) : Prop :=
  ((∀ e ∈ L, e.1 = false) ∧ st.pt = V3.zero ∧ st.set = 15 ∧ st.best = MAXF) ∨
  ((∃ e ∈ L, e.1 = true ∧ st.pt = e.2.1 ∧ st.set = e.2.2) ∧
    (∀ e ∈ L, e.1 = true → V3.dot st.pt st.pt ≤ V3.dot e.2.1 e.2.1) ∧
    st.best = V3.dot st.pt st.pt)

/-- the same without the clause on `best` (the last block does not update it) -/
def TInvF (L : List (Bool × V × Nat)) (st : TetState ℝ) : Prop :=
  ((∀ e ∈ L, e.1 = false) ∧ st.pt = V3.zero ∧ st.set = 15) ∨
  ((∃ e ∈ L, e.1 = true ∧ st.pt = e.2.1 ∧ st.set = e.2.2) ∧
    (∀ e ∈ L, e.1 = true → V3.dot st.pt st.pt ≤ V3.dot e.2.1 e.2.1))

theorem tetFirst_inv (o : Bool) (a b c : V) (r : CP ℝ) (h : closestPointTriangle a b c = .ok r) :
    ∃ st1, tetFirst o a b c ⟨V3.zero, 0b1111, MAXF, 0⟩ = .ok st1 ∧ TInv [(o, r.pt, r.set)] st1 := by
  cases o
  · refine ⟨_, rfl, Or.inl ⟨by simp, rfl, rfl, rfl⟩⟩
  · refine ⟨⟨r.pt, r.set, V3.dot r.pt r.pt, 1⟩, by simp [tetFirst, h, bind, Except.bind, pure, Except.pure], Or.inr ⟨?_, ?_, rfl⟩⟩
    · exact ⟨(true, r.pt, r.set), by simp, rfl, rfl, rfl⟩
    · intro e he _
      simp only [List.mem_singleton] at he
      rw [he]

theorem tetStep_inv (o : Bool) (p q r : V) (remap : Nat → Nat) (win : Nat) (t : CP ℝ)
    (h : closestPointTriangle p q r = .ok t) (L : List (Bool × V × Nat)) (st : TetState ℝ)
    (hinv : TInv L st) (hb : o = true → V3.dot t.pt t.pt < MAXF) :
    ∃ st', tetStep o p q r remap win true st = .ok st' ∧
      TInv (L ++ [(o, t.pt, remap t.set)]) st' := by
  cases o
  · refine ⟨st, rfl, ?_⟩
    rcases hinv with ⟨hnone, h1, h2, h3⟩ | ⟨⟨e, heL, he⟩, hall, hbest⟩
    · refine Or.inl ⟨?_, h1, h2, h3⟩
      intro e he
      rcases List.mem_append.mp he with he | he
      · exact hnone e he
      · simp only [List.mem_singleton] at he; rw [he]
    · refine Or.inr ⟨⟨e, List.mem_append_left _ heL, he⟩, ?_, hbest⟩
      intro e' he' hf
      rcases List.mem_append.mp he' with he' | he'
      · exact hall e' he' hf
      · simp only [List.mem_singleton] at he'; rw [he'] at hf; cases hf
  · by_cases hlt : V3.dot t.pt t.pt < st.best
    · refine ⟨⟨t.pt, remap t.set, V3.dot t.pt t.pt, win⟩,
        by simp [tetStep, h, hlt, bind, Except.bind, pure, Except.pure], Or.inr ⟨?_, ?_, rfl⟩⟩
      · exact ⟨(true, t.pt, remap t.set), by simp, rfl, rfl, rfl⟩
      · intro e' he' hf
        rcases List.mem_append.mp he' with he' | he'
        · rcases hinv with ⟨hnone, _, _, _⟩ | ⟨_, hall, hbest⟩
          · rw [hnone e' he'] at hf; cases hf
          · have := hall e' he' hf
            show V3.dot t.pt t.pt ≤ _
            rw [hbest] at hlt
            linarith
        · simp only [List.mem_singleton] at he'; rw [he']
    · refine ⟨st, by simp [tetStep, h, hlt, bind, Except.bind, pure, Except.pure], ?_⟩
      rcases hinv with ⟨hnone, h1, h2, h3⟩ | ⟨⟨e, heL, he⟩, hall, hbest⟩
      · exfalso; rw [h3] at hlt; exact hlt (hb rfl)
      · refine Or.inr ⟨⟨e, List.mem_append_left _ heL, he⟩, ?_, hbest⟩
        intro e' he' hf
        rcases List.mem_append.mp he' with he' | he'
        · exact hall e' he' hf
        · simp only [List.mem_singleton] at he'
          rw [he']
          show V3.dot st.pt st.pt ≤ V3.dot t.pt t.pt
          rw [← hbest]; exact not_lt.mp hlt

theorem tetStep_last_inv (o : Bool) (p q r : V) (remap : Nat → Nat) (win : Nat) (t : CP ℝ)
    (h : closestPointTriangle p q r = .ok t) (L : List (Bool × V × Nat)) (st : TetState ℝ)
    (hinv : TInv L st) (hb : o = true → V3.dot t.pt t.pt < MAXF) :
    ∃ st', tetStep o p q r remap win false st = .ok st' ∧
      TInvF (L ++ [(o, t.pt, remap t.set)]) st' := by
  cases o
  · refine ⟨st, rfl, ?_⟩
    rcases hinv with ⟨hnone, h1, h2, h3⟩ | ⟨⟨e, heL, he⟩, hall, hbest⟩
    · refine Or.inl ⟨?_, h1, h2⟩
      intro e he
      rcases List.mem_append.mp he with he | he
      · exact hnone e he
      · simp only [List.mem_singleton] at he; rw [he]
    · refine Or.inr ⟨⟨e, List.mem_append_left _ heL, he⟩, ?_⟩
      intro e' he' hf
      rcases List.mem_append.mp he' with he' | he'
      · exact hall e' he' hf
      · simp only [List.mem_singleton] at he'; rw [he'] at hf; cases hf
  · by_cases hlt : V3.dot t.pt t.pt < st.best
    · refine ⟨⟨t.pt, remap t.set, st.best, win⟩,
        by simp [tetStep, h, hlt, bind, Except.bind, pure, Except.pure], Or.inr ⟨?_, ?_⟩⟩
      · exact ⟨(true, t.pt, remap t.set), by simp, rfl, rfl, rfl⟩
      · intro e' he' hf
        rcases List.mem_append.mp he' with he' | he'
        · rcases hinv with ⟨hnone, _, _, _⟩ | ⟨_, hall, hbest⟩
          · rw [hnone e' he'] at hf; cases hf
          · have := hall e' he' hf
            show V3.dot t.pt t.pt ≤ _
            rw [hbest] at hlt
            linarith
        · simp only [List.mem_singleton] at he'; rw [he']
    · refine ⟨st, by simp [tetStep, h, hlt, bind, Except.bind, pure, Except.pure], ?_⟩
      rcases hinv with ⟨hnone, h1, h2, h3⟩ | ⟨⟨e, heL, he⟩, hall, hbest⟩
      · exfalso; rw [h3] at hlt; exact hlt (hb rfl)
      · refine Or.inr ⟨⟨e, List.mem_append_left _ heL, he⟩, ?_⟩
        intro e' he' hf
        rcases List.mem_append.mp he' with he' | he'
        · exact hall e' he' hf
        · simp only [List.mem_singleton] at he'
          rw [he']
          show V3.dot st.pt st.pt ≤ V3.dot t.pt t.pt
          rw [← hbest]; exact not_lt.mp hlt

/-! ### bit remapping of the faces -/

theorem remapACD_ok {β : Type} (a b c d : β) (s : Nat) (h1 : 1 ≤ s) (h7 : s ≤ 7) :
    selectBits (remapACD s) [a, b, c, d] = selectBits s [a, c, d] := by
  interval_cases s <;> rfl

theorem remapADB_ok {β : Type} (a b c d : β) (s : Nat) (h1 : 1 ≤ s) (h7 : s ≤ 7) :
    (selectBits (remapADB s) [a, b, c, d]).Perm (selectBits s [a, d, b]) := by
  interval_cases s <;>
    first
    | exact List.Perm.refl _
    | exact List.Perm.swap _ _ _
    | exact List.Perm.cons _ (List.Perm.swap _ _ _)

theorem remapBDC_ok {β : Type} (a b c d : β) (s : Nat) (h1 : 1 ≤ s) (h7 : s ≤ 7) :
    (selectBits (remapBDC s) [a, b, c, d]).Perm (selectBits s [b, d, c]) := by
  interval_cases s <;>
    first
    | exact List.Perm.refl _
    | exact List.Perm.swap _ _ _
    | exact List.Perm.cons _ (List.Perm.swap _ _ _)

theorem selectBits_abc {β : Type} (a b c d : β) (s : Nat) (h7 : s ≤ 7) :
    selectBits s [a, b, c, d] = selectBits s [a, b, c] := by
  interval_cases s <;> rfl

/-- **core of `tetra_spec`**: the flags returned by `origin_outside_of_tetrahedron_planes`
agree with the signs of barycentric coordinates `pa … pd` of the origin (face ABC ↔ `pd`,
ACD ↔ `pb`, ADB ↔ `pc`, BDC ↔ `pa`), every face is non-degenerate for the code's test, and
`|a|², |b|² < MAX_FLOAT`.  Then the result is `.ok`, it is the minimum-norm point of the
tetrahedron, and the remapped set bits name a sub-simplex whose hull contains it. -/
theorem tetra_core (a b c d : V) (o0 o1 o2 o3 : Bool) (orient : Nat) (pa pb pc pd : ℝ)
    (hpl : originOutsideOfTetrahedronPlanes a b c d = ((o0, o1, o2, o3), orient))
    (hsum : pa + pb + pc + pd = 1)
    (hzero : pa * a + pb * b + pc * c + pd * d = (⟨0, 0, 0⟩ : V))
    (h0 : o0 = true ↔ pd ≤ 0) (h1 : o1 = true ↔ pb ≤ 0) (h2 : o2 = true ↔ pc ≤ 0)
    (h3 : o3 = true ↔ pa ≤ 0)
    (hf0 : TriRegular a b c)
    (hf1 : TriRegular a c d)
    (hf2 : TriRegular a d b)
    (hf3 : TriRegular b d c)
    (hba : V3.dot a a < MAXF) (hbb : V3.dot b b < MAXF) :
    ∃ r, closestPointTetrahedron a b c d = .ok r ∧ IsMinNorm (hullSet [a, b, c, d]) r.pt ∧
      hullSet (selectBits r.set [a, b, c, d]) r.pt ∧
      r.br % 16 = (if o0 then 1 else 0) + (if o1 then 2 else 0) + (if o2 then 4 else 0)
        + (if o3 then 8 else 0) := by
  obtain ⟨r0, e0, m0, s0, l0, u0, _⟩ := closestPointTriangle_spec a b c hf0
  obtain ⟨r1, e1, m1, s1, l1, u1, _⟩ := closestPointTriangle_spec a c d hf1
  obtain ⟨r2, e2, m2, s2, l2, u2, _⟩ := closestPointTriangle_spec a d b hf2
  obtain ⟨r3, e3, m3, s3, l3, u3, _⟩ := closestPointTriangle_spec b d c hf3
  have b1 : V3.dot r1.pt r1.pt < MAXF :=
    lt_of_le_of_lt (m1.2 a (hull_sublist (by simp) _ (hull1_intro a))) hba
  have b2 : V3.dot r2.pt r2.pt < MAXF :=
    lt_of_le_of_lt (m2.2 a (hull_sublist (by simp) _ (hull1_intro a))) hba
  have b3 : V3.dot r3.pt r3.pt < MAXF :=
    lt_of_le_of_lt (m3.2 b (hull_sublist (by simp) _ (hull1_intro b))) hbb
  obtain ⟨st1, es1, i1⟩ := tetFirst_inv o0 a b c r0 e0
  obtain ⟨st2, es2, i2⟩ := tetStep_inv o1 a c d remapACD 2 r1 e1 _ st1 i1 (fun _ => b1)
  obtain ⟨st3, es3, i3⟩ := tetStep_inv o2 a d b remapADB 3 r2 e2 _ st2 i2 (fun _ => b2)
  obtain ⟨st4, es4, i4⟩ := tetStep_last_inv o3 b d c remapBDC 4 r3 e3 _ st3 i3 (fun _ => b3)
  simp only [List.cons_append, List.nil_append] at i4
  have hres : closestPointTetrahedron a b c d = .ok ⟨st4.pt, st4.set, 64 * st4.win + 16 * orient +
      ((if o0 then 1 else 0) + (if o1 then 2 else 0) + (if o2 then 4 else 0)
        + (if o3 then 8 else 0))⟩ := by
    unfold closestPointTetrahedron
    simp only [hpl, es1, es2, es3, es4, bind, Except.bind]
  -- hull facts of the four candidates, in tetrahedron indices
  have g0 : hullSet (selectBits r0.set [a, b, c, d]) r0.pt := by
    rw [selectBits_abc a b c d _ u0]; exact s0
  have g1 : hullSet (selectBits (remapACD r1.set) [a, b, c, d]) r1.pt := by
    rw [remapACD_ok a b c d _ l1 u1]; exact s1
  have g2 : hullSet (selectBits (remapADB r2.set) [a, b, c, d]) r2.pt :=
    hull_perm (remapADB_ok a b c d _ l2 u2).symm _ s2
  have g3 : hullSet (selectBits (remapBDC r3.set) [a, b, c, d]) r3.pt :=
    hull_perm (remapBDC_ok a b c d _ l3 u3).symm _ s3
  refine ⟨_, hres, ?_, ?_, ?_⟩
  · rcases i4 with ⟨hnone, hpt, hset⟩ | ⟨⟨e, heL, hef, hept, heset⟩, hall⟩
    · -- no face flagged: origin inside
      show IsMinNorm (hullSet [a, b, c, d]) st4.pt
      rw [hpt]
      have f0 : o0 = false := hnone (o0, r0.pt, r0.set) (by simp)
      have f1 : o1 = false := hnone (o1, r1.pt, remapACD r1.set) (by simp)
      have f2 : o2 = false := hnone (o2, r2.pt, remapADB r2.set) (by simp)
      have f3 : o3 = false := hnone (o3, r3.pt, remapBDC r3.set) (by simp)
      have pd0 : 0 ≤ pd := by
        by_contra hh; have := h0.mpr (not_le.mp hh).le; rw [f0] at this; cases this
      have pb0 : 0 ≤ pb := by
        by_contra hh; have := h1.mpr (not_le.mp hh).le; rw [f1] at this; cases this
      have pc0 : 0 ≤ pc := by
        by_contra hh; have := h2.mpr (not_le.mp hh).le; rw [f2] at this; cases this
      have pa0 : 0 ≤ pa := by
        by_contra hh; have := h3.mpr (not_le.mp hh).le; rw [f3] at this; cases this
      exact tetra_inside_min a b c d pa pb pc pd hsum hzero pa0 pb0 pc0 pd0
    · show IsMinNorm (hullSet [a, b, c, d]) st4.pt
      have hmemS : hullSet (selectBits st4.set [a, b, c, d]) st4.pt := by
        simp only [List.mem_cons, List.not_mem_nil, or_false] at heL
        rcases heL with rfl | rfl | rfl | rfl <;> (rw [hept, heset]; assumption)
      refine tetra_outside_min a b c d pa pb pc pd hsum hzero st4.pt r3.pt r1.pt r2.pt r0.pt
        ?_ ?_ ?_ ?_ (hull_selectBits hmemS) ?_
      · intro hp; exact ⟨m3, hall (o3, r3.pt, remapBDC r3.set) (by simp) (h3.mpr hp)⟩
      · intro hp; exact ⟨m1, hall (o1, r1.pt, remapACD r1.set) (by simp) (h1.mpr hp)⟩
      · intro hp; exact ⟨m2, hall (o2, r2.pt, remapADB r2.set) (by simp) (h2.mpr hp)⟩
      · intro hp; exact ⟨m0, hall (o0, r0.pt, r0.set) (by simp) (h0.mpr hp)⟩
      · simp only [List.mem_cons, List.not_mem_nil, or_false] at heL
        rcases heL with rfl | rfl | rfl | rfl
        · exact Or.inr (Or.inr (Or.inr (h0.mp hef)))
        · exact Or.inr (Or.inl (h1.mp hef))
        · exact Or.inr (Or.inr (Or.inl (h2.mp hef)))
        · exact Or.inl (h3.mp hef)
  · rcases i4 with ⟨hnone, hpt, hset⟩ | ⟨⟨e, heL, hef, hept, heset⟩, hall⟩
    · show hullSet (selectBits st4.set [a, b, c, d]) st4.pt
      rw [hset, hpt]
      have f0 : o0 = false := hnone (o0, r0.pt, r0.set) (by simp)
      have f1 : o1 = false := hnone (o1, r1.pt, remapACD r1.set) (by simp)
      have f2 : o2 = false := hnone (o2, r2.pt, remapADB r2.set) (by simp)
      have f3 : o3 = false := hnone (o3, r3.pt, remapBDC r3.set) (by simp)
      have pd0 : 0 ≤ pd := by
        by_contra hh; have := h0.mpr (not_le.mp hh).le; rw [f0] at this; cases this
      have pb0 : 0 ≤ pb := by
        by_contra hh; have := h1.mpr (not_le.mp hh).le; rw [f1] at this; cases this
      have pc0 : 0 ≤ pc := by
        by_contra hh; have := h2.mpr (not_le.mp hh).le; rw [f2] at this; cases this
      have pa0 : 0 ≤ pa := by
        by_contra hh; have := h3.mpr (not_le.mp hh).le; rw [f3] at this; cases this
      exact (tetra_inside_min a b c d pa pb pc pd hsum hzero pa0 pb0 pc0 pd0).1
    · show hullSet (selectBits st4.set [a, b, c, d]) st4.pt
      simp only [List.mem_cons, List.not_mem_nil, or_false] at heL
      rcases heL with rfl | rfl | rfl | rfl <;> (rw [hept, heset]; assumption)
  · show (64 * st4.win + 16 * orient + ((if o0 then 1 else 0) + (if o1 then 2 else 0) +
      (if o2 then 4 else 0) + (if o3 then 8 else 0))) % 16 = _
    cases o0 <;> cases o1 <;> cases o2 <;> cases o3 <;> simp <;> omega

/-! ### instantiation for the two consistent orientations -/

theorem planes_pos (a b c d : V) (hD : 0 < V3.dot (d - a) (V3.cross (b - a) (c - a))) :
    originOutsideOfTetrahedronPlanes a b c d =
      ((decide (-EPS ≤ V3.dot a (V3.cross (b - a) (c - a))),
        decide (-EPS ≤ V3.dot a (V3.cross (c - a) (d - a))),
        decide (-EPS ≤ V3.dot a (V3.cross (d - a) (b - a))),
        decide (-EPS ≤ V3.dot b (V3.cross (d - b) (c - b)))), 0) := by
  obtain ⟨e1, e2, e3⟩ := signd_eq a b c d
  simp only [originOutsideOfTetrahedronPlanes, e1, e2, e3, hD, and_self, if_true]

theorem planes_neg (a b c d : V) (hD : V3.dot (d - a) (V3.cross (b - a) (c - a)) < 0) :
    originOutsideOfTetrahedronPlanes a b c d =
      ((decide (V3.dot a (V3.cross (b - a) (c - a)) ≤ EPS),
        decide (V3.dot a (V3.cross (c - a) (d - a)) ≤ EPS),
        decide (V3.dot a (V3.cross (d - a) (b - a)) ≤ EPS),
        decide (V3.dot b (V3.cross (d - b) (c - b)) ≤ EPS)), 1) := by
  obtain ⟨e1, e2, e3⟩ := signd_eq a b c d
  have hn : ¬ 0 < V3.dot (d - a) (V3.cross (b - a) (c - a)) := not_lt.mpr hD.le
  simp only [originOutsideOfTetrahedronPlanes, e1, e2, e3, hD, hn, and_self, if_true, if_false]

theorem planes_flat (a b c d : V) (hD : V3.dot (d - a) (V3.cross (b - a) (c - a)) = 0) :
    originOutsideOfTetrahedronPlanes a b c d = ((true, true, true, true), 2) := by
  obtain ⟨e1, e2, e3⟩ := signd_eq a b c d
  simp only [originOutsideOfTetrahedronPlanes, e1, e2, e3, hD, lt_irrefl, and_self, if_false]

/-- **tetra_spec, positive orientation** (`D = det[ab, ac, ad] > 0`).  Excluded bands, by name:
`hband` (no plane value in `[−ε, 0)`), `hfaces` (no face with `|n|² < ε²`), `hbound`
(`|a|², |b|² < MAX_FLOAT`). -/
theorem closestPointTetrahedron_spec_pos (a b c d : V)
    (hD : 0 < V3.dot (d - a) (V3.cross (b - a) (c - a)))
    (hband : (-EPS ≤ V3.dot a (V3.cross (b - a) (c - a)) → 0 ≤ V3.dot a (V3.cross (b - a) (c - a))) ∧
      (-EPS ≤ V3.dot a (V3.cross (c - a) (d - a)) → 0 ≤ V3.dot a (V3.cross (c - a) (d - a))) ∧
      (-EPS ≤ V3.dot a (V3.cross (d - a) (b - a)) → 0 ≤ V3.dot a (V3.cross (d - a) (b - a))) ∧
      (-EPS ≤ V3.dot b (V3.cross (d - b) (c - b)) → 0 ≤ V3.dot b (V3.cross (d - b) (c - b))))
    (hfaces : TriRegular a b c ∧
      TriRegular a c d ∧
      TriRegular a d b ∧
      TriRegular b d c)
    (hbound : V3.dot a a < MAXF ∧ V3.dot b b < MAXF) :
    ∃ r, closestPointTetrahedron a b c d = .ok r ∧ IsMinNorm (hullSet [a, b, c, d]) r.pt ∧
      hullSet (selectBits r.set [a, b, c, d]) r.pt := by
  obtain ⟨hsum, hzero⟩ := bary_origin a b c d (ne_of_gt hD)
  have hE := EPS_pos
  obtain ⟨r, h1, h2, h3, _⟩ := tetra_core a b c d _ _ _ _ 0 _ _ _ _ (planes_pos a b c d hD) hsum hzero
    (by
      rw [decide_eq_true_iff, div_le_iff₀ hD]
      constructor
      · intro h; have := hband.1 h; linarith
      · intro h; linarith)
    (by
      rw [decide_eq_true_iff, div_le_iff₀ hD]
      constructor
      · intro h; have := hband.2.1 h; linarith
      · intro h; linarith)
    (by
      rw [decide_eq_true_iff, div_le_iff₀ hD]
      constructor
      · intro h; have := hband.2.2.1 h; linarith
      · intro h; linarith)
    (by
      rw [decide_eq_true_iff, div_le_iff₀ hD]
      constructor
      · intro h; have := hband.2.2.2 h; linarith
      · intro h; linarith)
    hfaces.1 hfaces.2.1 hfaces.2.2.1 hfaces.2.2.2 hbound.1 hbound.2
  exact ⟨r, h1, h2, h3⟩

/-- **tetra_spec, negative orientation** (`D < 0`): bands `(0, ε]` excluded. -/
theorem closestPointTetrahedron_spec_neg (a b c d : V)
    (hD : V3.dot (d - a) (V3.cross (b - a) (c - a)) < 0)
    (hband : (V3.dot a (V3.cross (b - a) (c - a)) ≤ EPS → V3.dot a (V3.cross (b - a) (c - a)) ≤ 0) ∧
      (V3.dot a (V3.cross (c - a) (d - a)) ≤ EPS → V3.dot a (V3.cross (c - a) (d - a)) ≤ 0) ∧
      (V3.dot a (V3.cross (d - a) (b - a)) ≤ EPS → V3.dot a (V3.cross (d - a) (b - a)) ≤ 0) ∧
      (V3.dot b (V3.cross (d - b) (c - b)) ≤ EPS → V3.dot b (V3.cross (d - b) (c - b)) ≤ 0))
    (hfaces : TriRegular a b c ∧
      TriRegular a c d ∧
      TriRegular a d b ∧
      TriRegular b d c)
    (hbound : V3.dot a a < MAXF ∧ V3.dot b b < MAXF) :
    ∃ r, closestPointTetrahedron a b c d = .ok r ∧ IsMinNorm (hullSet [a, b, c, d]) r.pt ∧
      hullSet (selectBits r.set [a, b, c, d]) r.pt := by
  obtain ⟨hsum, hzero⟩ := bary_origin a b c d (ne_of_lt hD)
  have hE := EPS_pos
  obtain ⟨r, h1, h2, h3, _⟩ := tetra_core a b c d _ _ _ _ 1 _ _ _ _ (planes_neg a b c d hD) hsum hzero
    (by
      rw [decide_eq_true_iff, div_le_iff_of_neg hD]
      constructor
      · intro h; have := hband.1 h; linarith
      · intro h; linarith)
    (by
      rw [decide_eq_true_iff, div_le_iff_of_neg hD]
      constructor
      · intro h; have := hband.2.1 h; linarith
      · intro h; linarith)
    (by
      rw [decide_eq_true_iff, div_le_iff_of_neg hD]
      constructor
      · intro h; have := hband.2.2.1 h; linarith
      · intro h; linarith)
    (by
      rw [decide_eq_true_iff, div_le_iff_of_neg hD]
      constructor
      · intro h; have := hband.2.2.2 h; linarith
      · intro h; linarith)
    hfaces.1 hfaces.2.1 hfaces.2.2.1 hfaces.2.2.2 hbound.1 hbound.2
  exact ⟨r, h1, h2, h3⟩

end Simplex
end D3
