/-
EPA, the polytope invariant for the four faces `buildFaces A B C D` (rows as they come) of a
tetrahedron wound outward, the sign of the four face distances for either winding, and the
success exit of `epaWith` for any initial construction with unit normals.
-/
import D3.Proofs.EpaLoop

namespace D3
namespace Epa

/-- for rows wound outward (`orient < 0`), points of a convex set `M`, origin inside: the faces
built from the rows as they come satisfy `EpaInv` -/
theorem buildFaces_inv_of_outward (M : V → Prop) (hM : ConvexSet M) (A B C D : V)
    (hA : M A) (hB : M B) (hC : M C) (hD : M D) (ho : orient A B C D < 0)
    (la lb lc ld : ℝ) (h0 : OriginInside A B C D la lb lc ld)
    (hla : 0 ≤ la) (hlb : 0 ≤ lb) (hlc : 0 ≤ lc) (hld : 0 ≤ ld) :
    EpaInv M (buildFaces A B C D) := by
  have hne : orient A B C D ≠ 0 := ne_of_lt ho
  obtain ⟨p1, p2, p3, p4⟩ := raw_normals_pos hne
  refine ⟨buildFaces_unit hne, ?_, ?_⟩
  · intro g hg
    simp only [buildFaces, List.mem_cons, List.not_mem_nil, or_false] at hg
    rcases hg with rfl | rfl | rfl | rfl
    · rw [faceDist_mkFace p1, raw_dist_ABC h0]
      exact div_nonneg (by nlinarith) (V3.norm_nonneg _)
    · rw [faceDist_mkFace p2, raw_dist_ACD h0]
      exact div_nonneg (by nlinarith) (V3.norm_nonneg _)
    · rw [faceDist_mkFace p3, raw_dist_ADB h0]
      exact div_nonneg (by nlinarith) (V3.norm_nonneg _)
    · rw [faceDist_mkFace p4, raw_dist_BDC h0]
      exact div_nonneg (by nlinarith) (V3.norm_nonneg _)
  · intro x hx
    have i1 := (inner_mkFace_iff p1 x).mp (hx _ (by simp [buildFaces]))
    have i2 := (inner_mkFace_iff p2 x).mp (hx _ (by simp [buildFaces]))
    have i3 := (inner_mkFace_iff p3 x).mp (hx _ (by simp [buildFaces]))
    have i4 := (inner_mkFace_iff p4 x).mp (hx _ (by simp [buildFaces]))
    obtain ⟨bx, by', bz, bs⟩ := barycentric A B C D x
    generalize orient A B C D = Δ at *
    generalize V3.dot (nABC A B C) (x - A) = hd at *
    generalize V3.dot (nABC A C D) (x - A) = hb at *
    generalize V3.dot (nABC A D B) (x - A) = hc at *
    generalize V3.dot (nABC B D C) (x - B) = ha at *
    have key := hM.convex4 A B C D hA hB hC hD (ha / Δ) (hb / Δ) (hc / Δ) (hd / Δ)
      (div_nonneg_of_nonpos i4 ho.le) (div_nonneg_of_nonpos i2 ho.le)
      (div_nonneg_of_nonpos i3 ho.le) (div_nonneg_of_nonpos i1 ho.le)
      (by field_simp; linarith)
    have e : ha / Δ * A + hb / Δ * B + hc / Δ * C + hd / Δ * D = x := by
      apply V3.ext' <;> simp only [V3.add_x, V3.add_y, V3.add_z, V3.smul_x, V3.smul_y, V3.smul_z]
        <;> field_simp <;> linarith
    rw [e] at key; exact key

/-- rows wound inward (`orient > 0`), origin strictly inside: every face built from the rows as
they come has a negative distance (its normal points towards the origin) -/
theorem buildFaces_dist_neg_of_inward (A B C D : V) (ho : 0 < orient A B C D)
    (la lb lc ld : ℝ) (h0 : OriginInside A B C D la lb lc ld)
    (hla : 0 < la) (hlb : 0 < lb) (hlc : 0 < lc) (hld : 0 < ld) :
    ∀ f ∈ buildFaces A B C D, faceDist f < 0 := by
  have hne : orient A B C D ≠ 0 := ne_of_gt ho
  obtain ⟨p1, p2, p3, p4⟩ := raw_normals_pos hne
  intro g hg
  simp only [buildFaces, List.mem_cons, List.not_mem_nil, or_false] at hg
  rcases hg with rfl | rfl | rfl | rfl
  · rw [faceDist_mkFace p1, raw_dist_ABC h0]
    exact div_neg_of_neg_of_pos (by nlinarith) (norm_pos_of_normSq_pos p1)
  · rw [faceDist_mkFace p2, raw_dist_ACD h0]
    exact div_neg_of_neg_of_pos (by nlinarith) (norm_pos_of_normSq_pos p2)
  · rw [faceDist_mkFace p3, raw_dist_ADB h0]
    exact div_neg_of_neg_of_pos (by nlinarith) (norm_pos_of_normSq_pos p3)
  · rw [faceDist_mkFace p4, raw_dist_BDC h0]
    exact div_neg_of_neg_of_pos (by nlinarith) (norm_pos_of_normSq_pos p4)

/-- rows wound outward, origin strictly inside: every face distance is positive -/
theorem buildFaces_dist_pos_of_outward (A B C D : V) (ho : orient A B C D < 0)
    (la lb lc ld : ℝ) (h0 : OriginInside A B C D la lb lc ld)
    (hla : 0 < la) (hlb : 0 < lb) (hlc : 0 < lc) (hld : 0 < ld) :
    ∀ f ∈ buildFaces A B C D, 0 < faceDist f := by
  have hne : orient A B C D ≠ 0 := ne_of_lt ho
  obtain ⟨p1, p2, p3, p4⟩ := raw_normals_pos hne
  intro g hg
  simp only [buildFaces, List.mem_cons, List.not_mem_nil, or_false] at hg
  rcases hg with rfl | rfl | rfl | rfl
  · rw [faceDist_mkFace p1, raw_dist_ABC h0]
    exact div_pos (by nlinarith) (norm_pos_of_normSq_pos p1)
  · rw [faceDist_mkFace p2, raw_dist_ACD h0]
    exact div_pos (by nlinarith) (norm_pos_of_normSq_pos p2)
  · rw [faceDist_mkFace p3, raw_dist_ADB h0]
    exact div_pos (by nlinarith) (norm_pos_of_normSq_pos p3)
  · rw [faceDist_mkFace p4, raw_dist_BDC h0]
    exact div_pos (by nlinarith) (norm_pos_of_normSq_pos p4)

/-- success exit of `epaWith` for any winding repair that keeps or negates normals and any
initial construction whose normals are unit vectors -/
theorem epaWith_success_separates (M : V → Prop) (p : Params ℝ) {fix : Face ℝ → Face ℝ}
    (hfix : FixOk fix) (init : V → V → V → V → List (Face ℝ)) (supp : Nat → V → V)
    (hsupp : ∀ it d, IsSupport M d (supp it d)) (s0 s1 s2 s3 : V)
    (hinit : ∀ g ∈ init s0 s1 s2 s3, IsUnitVec g.n) (r : Result ℝ)
    (h : epaWith p fix init supp s0 s1 s2 s3 = .ok r) (hs : r.success = true) :
    ∃ n w, IsUnitVec n ∧ IsSupport M n w ∧ r.mtv = some (mtvOf n w) ∧
      (∀ x, M x → V3.dot x n ≤ V3.dot w n) ∧
      (∀ y, shifted M (mtvOf n w) y → V3.dot y n ≤ 0) := by
  unfold epaWith at h
  obtain ⟨i, f, j, hc, _, hm⟩ := loop_success _ _ _ _ r h hs
  have hu : IsUnitVec f.n :=
    loop_pred normalPred_isUnit hfix _ _ _ _ r h hinit f (closest_spec hc).2.1
  exact ⟨f.n, supp j f.n, hu, hsupp j f.n, hm, support_plane (hsupp j f.n),
    shifted_below hu (hsupp j f.n)⟩

end Epa
end D3
