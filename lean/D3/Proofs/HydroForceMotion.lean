/-
What `contact_forces` depends on, at ℝ: body 1 enters only through its world-frame vertices
(plus tetrahedra and potentials), which `express_in` preserves for orthonormal frames; a common
rigid motion of both bodies leaves the whole computation in the frame of body 2 unchanged and
rotates the world-frame wrenches.
-/
import D3.Proofs.HydroForceState

set_option linter.unusedSectionVars false
set_option linter.unusedSimpArgs false

namespace D3
namespace HydroForce
open Aabb

/-- world-frame vertices `transform_points(body2origin_, vertices_)` -/
def Body.worldVerts (b : Body ℝ) : List V := b.verts.map b.pose.apply

/-- vertices after `express_in` as a function of the world-frame vertices only -/
theorem expressIn_verts_world (b : Body ℝ) (N : Pose ℝ) :
    (b.expressIn N).verts = b.worldVerts.map N.applyInv := by
  rw [expressIn_verts, Body.worldVerts, List.map_map]
  rfl

/-- **`express_in` keeps the world-frame vertices** (orthonormal new frame) -/
theorem expressIn_worldVerts (b : Body ℝ) (N : Pose ℝ) (hN : Orthonormal N.R) :
    (b.expressIn N).worldVerts = b.worldVerts := by
  unfold Body.worldVerts
  rw [expressIn_verts, List.map_map, expressIn_pose]
  apply List.map_congr_left
  intro v _
  exact reexpress_world b.pose N hN v

/-- any history of re-expressions in orthonormal frames keeps the world-frame vertices,
tetrahedra and potentials -/
theorem history_worldVerts : ∀ (Ns : List (Pose ℝ)) (b : Body ℝ), (∀ N ∈ Ns, Orthonormal N.R) →
    (Ns.foldl Body.expressIn b).worldVerts = b.worldVerts ∧
    (Ns.foldl Body.expressIn b).tets = b.tets ∧ (Ns.foldl Body.expressIn b).pots = b.pots
  | [], _, _ => ⟨rfl, rfl, rfl⟩
  | N :: Ns, b, h => by
    obtain ⟨h1, h2, h3⟩ := history_worldVerts Ns (b.expressIn N) (fun M hM => h M (by simp [hM]))
    simp only [List.foldl_cons]
    exact ⟨h1.trans (expressIn_worldVerts b N (h N (by simp))), h2, h3⟩

/-- `contact_forces` sees body 1 only through its world-frame vertices, tetrahedra and potentials -/
theorem contactForcesPure_congr_world (pairFn : PairFn ℝ) (a a' b2 : Body ℝ)
    (hw : a.worldVerts = a'.worldVerts) (ht : a.tets = a'.tets) (hp : a.pots = a'.pots) :
    contactForcesPure pairFn a b2 = contactForcesPure pairFn a' b2 := by
  unfold contactForcesPure
  simp only [expressIn_verts_world, expressIn_tets, expressIn_pots, hw, ht, hp]

theorem contactsPure_congr_world (pairFn : PairFn ℝ) (a a' b2 : Body ℝ) (u : Bool)
    (hw : a.worldVerts = a'.worldVerts) (ht : a.tets = a'.tets) (hp : a.pots = a'.pots) :
    contactsPure pairFn a b2 u = contactsPure pairFn a' b2 u := by
  unfold contactsPure
  simp only [expressIn_verts_world, expressIn_tets, expressIn_pots, hw, ht, hp]

/-- `contact_forces` sees body 2 only through its data (not its caches) -/
theorem contactForcesPure_congr_right (pairFn : PairFn ℝ) (a b b' : Body ℝ) (h : b'.SameData b) :
    contactForcesPure pairFn a b' = contactForcesPure pairFn a b := by
  unfold contactForcesPure
  simp only [expressIn_verts_world, expressIn_tets, expressIn_pots, h.pose, h.verts, h.tets, h.pots]

/-! ### common rigid motion -/

@[simp] theorem moved_verts (g : Pose ℝ) (b : Body ℝ) : (b.moved g).verts = b.verts := rfl
@[simp] theorem moved_tets (g : Pose ℝ) (b : Body ℝ) : (b.moved g).tets = b.tets := rfl
@[simp] theorem moved_pots (g : Pose ℝ) (b : Body ℝ) : (b.moved g).pots = b.pots := rfl
@[simp] theorem moved_pose (g : Pose ℝ) (b : Body ℝ) : (b.moved g).pose = matMul4 g b.pose := rfl

/-- **the coordinates of body 1 in the frame of body 2 are invariant under a common rigid
motion of both bodies** -/
theorem expressIn_moved_verts (g : Pose ℝ) (hg : Orthonormal g.R) (b1 b2 : Body ℝ) :
    ((b1.moved g).expressIn (b2.moved g).pose).verts = (b1.expressIn b2.pose).verts := by
  rw [expressIn_verts, expressIn_verts, moved_verts, moved_pose, moved_pose]
  apply List.map_congr_left
  intro v _
  exact reexpress_common_motion g b1.pose b2.pose hg v

theorem accumulateWrenchesAt_moved (g P : Pose ℝ) (cs : List (Contact ℝ)) (com1 com2 : V) :
    accumulateWrenchesAt (matMul4 g P) cs com1 com2 =
      ((accumulateWrenchesAt P cs com1 com2).1.rotate g.R, (accumulateWrenchesAt P cs com1 com2).2.rotate g.R) := by
  unfold accumulateWrenchesAt transformWrenches Wrench.rotate
  simp only [matMul4, mul_mulVec]

/-- elimination of `Spec2` -/
theorem Spec2.ok_of_ok {β : Type} {m : Except Err (β × Body ℝ × Body ℝ)} {p : Except Err β}
    {b1 b2 : Body ℝ} (h : Spec2 m p b1 b2) {v : β} {x y : Body ℝ} (hm : m = .ok (v, x, y)) :
    p = .ok v ∧ x.SameData b1 ∧ y.SameData b2 ∧ x.CacheOk ∧ y.CacheOk := by
  cases p with
  | error e =>
    simp only [Spec2] at h
    rw [h] at hm; cases hm
  | ok v' =>
    obtain ⟨b1', b2', hm', s1, s2, o1, o2⟩ := h
    rw [hm'] at hm
    simp only [Except.ok.injEq, Prod.mk.injEq] at hm
    obtain ⟨rfl, rfl, rfl⟩ := hm
    exact ⟨rfl, s1, s2, o1, o2⟩

theorem Spec2.exists_of_ok {β : Type} {m : Except Err (β × Body ℝ × Body ℝ)} {p : Except Err β}
    {b1 b2 : Body ℝ} (h : Spec2 m p b1 b2) {v : β} (hp : p = .ok v) :
    ∃ x y, m = .ok (v, x, y) ∧ x.SameData b1 ∧ y.SameData b2 ∧ x.CacheOk ∧ y.CacheOk := by
  subst hp
  exact h

end HydroForce
end D3
