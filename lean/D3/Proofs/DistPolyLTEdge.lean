/-
The edge loop of `_line_to_triangle` at `α := ℝ`:

* `lineToLineSegment_spec` : DistPoly's faithful copy of `_line_to_line_segment`, for a segment and
  a direction that the code does not treat as degenerate (`eps ≤ |d|²`, `eps < |ld|²`), returns a
  feasible pair that is globally optimal for (line, segment).  The scalar part is C10's
  `DistLine.lsParams_kkt`; the vector part is the variational lemma.
* `triEdgeLoop_spec`       : the three-edge loop with the strict `<` against the running best that
  starts at `MAX_FLOAT` returns one of the three candidates, and its distance is the minimum of
  the three, provided at least one candidate is below `MAX_FLOAT`.
-/
import D3.Proofs.DistPolySets
import D3.Proofs.DistLineSegV

set_option linter.unusedSimpArgs false

namespace D3
namespace DistPoly

/-- the tuple returned by `lineToLineSegment` -/
abbrev LSRes := Nat × ℝ × V × V × ℝ × ℝ

/-- feasibility + global optimality of one `_line_to_line_segment` result `(br, d, p₁, p₂, t, s)`
for (line `lp + τ·ld`, segment `[ss, se]`) -/
def LineSegGood (lp ld ss se : V) (r : LSRes) : Prop :=
  r.2.2.1 = lp + r.2.2.2.2.1 * ld ∧ segmentSet ss se r.2.2.2.1 ∧ 0 ≤ r.2.1 ∧
  r.2.1 * r.2.1 = V3.normSq (r.2.2.1 - r.2.2.2.1) ∧
  ∀ (τ : ℝ) (y : V), segmentSet ss se y → r.2.1 * r.2.1 ≤ V3.normSq ((lp + τ * ld) - y)

/-- vector level: parameters with C10's KKT pattern give a good pair -/
theorem lineSegGood_of_lsParams {lp ld ss se : V} {eps s t : ℝ} {br br' : Nat}
    (hpar : DistLine.lsParams (V3.dot (se - ss) (se - ss)) (V3.dot (se - ss) ld)
      (V3.dot (se - ss) (ss - lp)) (V3.dot ld ld) (V3.dot ld (ss - lp)) eps = .ok (s, t, br))
    (heps : 0 < eps) (ha : eps ≤ V3.dot (se - ss) (se - ss)) (he : eps < V3.dot ld ld) :
    LineSegGood lp ld ss se
      (br', V3.norm ((ss + s * (se - ss)) - (lp + t * ld)), lp + t * ld, ss + s * (se - ss), t, s) := by
  obtain ⟨hte, hk⟩ := DistLine.lsParams_kkt hpar heps ha he (DistLine.cs_le _ _)
    (fun h0 => DistLine.cs_eq (se - ss) ld (ss - lp) h0)
  obtain ⟨hs0, hs1⟩ := DistLine.lsParams_mem hpar
  have hd : V3.norm ((ss + s * (se - ss)) - (lp + t * ld)) *
      V3.norm ((ss + s * (se - ss)) - (lp + t * ld)) =
      V3.normSq ((lp + t * ld) - (ss + s * (se - ss))) := by
    rw [V3.norm_sq, DistLine.normSq_sub_comm]
  refine ⟨rfl, ⟨s, hs0, hs1, rfl⟩, V3.norm_nonneg _, hd, ?_⟩
  intro τ y hy
  have hLB := DistLine.lowerBound_of_variational
    (K₁ := DistLine.lineSet lp ld) (K₂ := DistLine.segmentSet ss se) hd ?_ ?_
  · exact hLB _ ⟨τ, rfl⟩ y hy
  · rintro x ⟨t', rfl⟩
    have e : V3.dot ((lp + t * ld) - (ss + s * (se - ss))) (lp + t' * ld - (lp + t * ld))
        = (t' - t) * (t * V3.dot ld ld - (V3.dot (se - ss) ld * s + V3.dot ld (ss - lp))) := by
      vsimp; ring
    rw [e, hte]; simp
  · rintro y ⟨s', h0, h1, rfl⟩
    have k := hk.kkt01 s' h0 h1
    have e : V3.dot ((lp + t * ld) - (ss + s * (se - ss))) (ss + s' * (se - ss) - (ss + s * (se - ss)))
        = -((V3.dot (se - ss) (ss - lp) + s * V3.dot (se - ss) (se - ss) - t * V3.dot (se - ss) ld)
            * (s' - s)) := by
      vsimp; ring
    rw [e]; linarith

theorem clamp01_eq (q : ℝ) : DistLine.clamp01 q = min (max q 0) 1 := by
  unfold DistLine.clamp01; rw [DistLine.pmin_real, DistLine.pmax_real]

/-- **`_line_to_line_segment` (DistPoly copy), non-degenerate input**: never a division by zero,
and the result is feasible and globally optimal for (line, segment) -/
theorem lineToLineSegment_spec (lp ld ss se : V) (eps : ℝ)
    (heps : 0 < eps) (ha : eps ≤ V3.dot (se - ss) (se - ss)) (he : eps < V3.dot ld ld) :
    ∃ r, lineToLineSegment lp ld ss se eps = .ok r ∧ LineSegGood lp ld ss se r := by
  have he0 : V3.dot ld ld ≠ 0 := by linarith
  unfold lineToLineSegment
  dsimp only
  rw [if_neg (fun hh => by linarith [hh.1]), if_neg (not_lt.mpr ha), if_neg (not_le.mpr he),
    if_neg (by rw [isZero_real]; exact he0)]
  by_cases hden : V3.dot (se - ss) (se - ss) * V3.dot ld ld - V3.dot (se - ss) ld * V3.dot (se - ss) ld = 0
  · rw [if_neg (by rw [not_not, isZero_real]; exact hden)]
    refine ⟨_, rfl, ?_⟩
    apply lineSegGood_of_lsParams (br := 4) _ heps ha he
    unfold DistLine.lsParams
    rw [if_neg (not_lt.mpr ha), if_neg (not_le.mpr he), if_neg (by rw [hden]; simp)]
    simp only [bind, Except.bind, pure, Except.pure]
    rw [DistLine.divC_ok he0]
  · rw [if_pos (by rw [isZero_real]; exact hden)]
    refine ⟨_, rfl, ?_⟩
    apply lineSegGood_of_lsParams (br := 3) _ heps ha he
    unfold DistLine.lsParams
    rw [if_neg (not_lt.mpr ha), if_neg (not_le.mpr he), if_pos (lt_or_gt_of_ne hden)]
    simp only [bind, Except.bind, pure, Except.pure]
    rw [DistLine.divC_ok hden]
    dsimp only
    rw [DistLine.divC_ok he0, clamp01_eq]

/-- **the three-edge loop**: given the three `_line_to_line_segment` results, at least one of them
below `MAX_FLOAT`, the loop returns one of the three candidates (every predicate that holds for
all three holds for the returned one) and its distance is at most each candidate's distance -/
theorem triEdgeLoop_spec (lp ld a b c : V) (eps mf : ℝ) (r0 r1 r2 : LSRes)
    (h0 : lineToLineSegment lp ld c a eps = .ok r0)
    (h1 : lineToLineSegment lp ld a b eps = .ok r1)
    (h2 : lineToLineSegment lp ld b c eps = .ok r2)
    (hmf : r0.2.1 < mf ∨ r1.2.1 < mf ∨ r2.2.1 < mf) :
    ∃ r, triEdgeLoop lp ld a b c eps mf = .ok r ∧
      r.dist ≤ r0.2.1 ∧ r.dist ≤ r1.2.1 ∧ r.dist ≤ r2.2.1 ∧
      ∀ P : ℝ → V → V → ℝ → Prop, P r0.2.1 r0.2.2.1 r0.2.2.2.1 r0.2.2.2.2.1 →
        P r1.2.1 r1.2.2.1 r1.2.2.2.1 r1.2.2.2.2.1 → P r2.2.1 r2.2.2.1 r2.2.2.2.1 r2.2.2.2.2.1 →
        P r.dist r.cpLine r.cpPrim r.t := by
  obtain ⟨k0, d0, p0, q0, t0, s0⟩ := r0
  obtain ⟨k1, d1, p1, q1, t1, s1⟩ := r1
  obtain ⟨k2, d2, p2, q2, t2, s2⟩ := r2
  unfold triEdgeLoop
  rw [h0, h1, h2]
  simp only [bind, Except.bind]
  dsimp only at hmf ⊢
  by_cases c0 : d0 < mf
  · rw [if_pos c0]
    dsimp only
    by_cases c1 : d1 < d0
    · rw [if_pos c1]
      dsimp only
      by_cases c2 : d2 < d1
      · rw [if_pos c2]
        exact ⟨_, rfl, by dsimp only; linarith, by dsimp only; linarith, le_refl _,
          fun P _ _ h => h⟩
      · rw [if_neg c2]
        exact ⟨_, rfl, by dsimp only; linarith, le_refl _, by dsimp only; linarith,
          fun P _ h _ => h⟩
    · rw [if_neg c1]
      dsimp only
      by_cases c2 : d2 < d0
      · rw [if_pos c2]
        exact ⟨_, rfl, by dsimp only; linarith, by dsimp only; linarith, le_refl _,
          fun P _ _ h => h⟩
      · rw [if_neg c2]
        exact ⟨_, rfl, le_refl _, by dsimp only; linarith, by dsimp only; linarith,
          fun P h _ _ => h⟩
  · rw [if_neg c0]
    dsimp only
    by_cases c1 : d1 < mf
    · rw [if_pos c1]
      dsimp only
      by_cases c2 : d2 < d1
      · rw [if_pos c2]
        exact ⟨_, rfl, by dsimp only; linarith, by dsimp only; linarith, le_refl _,
          fun P _ _ h => h⟩
      · rw [if_neg c2]
        exact ⟨_, rfl, by dsimp only; linarith, le_refl _, by dsimp only; linarith,
          fun P _ h _ => h⟩
    · rw [if_neg c1]
      dsimp only
      have c2 : d2 < mf := by
        rcases hmf with h | h | h
        · exact absurd h c0
        · exact absurd h c1
        · exact h
      rw [if_pos c2]
      exact ⟨_, rfl, by dsimp only; linarith, by dsimp only; linarith, le_refl _,
        fun P _ _ h => h⟩

end DistPoly
end D3
