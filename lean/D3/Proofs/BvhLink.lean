/-
Link between C06's BVH state machine and C05's proved array-level insertion
(`D3.Properties.C05Insert`).

`BoundingVolumeHierarchy.add_collider` / `update_collider_poses` fill the array-level AABB
tree by one `insert_aabb` call per collider (`insertPayload`).  Such a call *is* an
`AabbTree.insert_aabbs` call with a one-box batch, the datum `len(external_data_list)` and
mode `none`, so a rebuild is an insertion history in the sense of C05 (`rebuild_eq`).
`C05Insert.history_wf` then gives — by proof, not by a run-time check — that the arrays pass
`wfCheck`, that the leaves are the inserted boxes at the predicted rows and that
`external_data_list` holds the payload index of every box at the row of that box; from this
the decidable `linkCheck` (the hypothesis of every C06 broad-phase theorem) is *derived*
(`linkCheck_of_history`).
-/
import D3.Properties.C05Insert
import D3.Proofs.BvhQuery
import D3.Proofs.BvhUpdate

set_option linter.unusedSectionVars false
set_option linter.unusedVariables false

namespace D3
namespace Bvh
open Aabb

abbrev Item := Frame × Collider ℝ

/-- the `AabbTree.insert_aabbs` call made by `insert_aabb(collider.aabb(), (frame, collider))`
when `external_data_list` already has `k` entries -/
noncomputable def batchOf (k : Nat) (x : Item) : Batch := ⟨[x.2.box], some [k], .none, []⟩

/-- the insertion history of a rebuild that starts with `k` payload entries -/
noncomputable def batchesFrom : Nat → List Item → List Batch
  | _, [] => []
  | k, x :: rest => batchOf k x :: batchesFrom (k + 1) rest

theorem batchOf_ok (k : Nat) (x : Item) (hv : x.2.box.Valid) : (batchOf k x).Ok := by
  refine ⟨?_, ?_, ?_⟩
  · intro b hb
    simp only [batchOf, List.mem_singleton] at hb
    subst hb; exact hv
  · intro l hl
    simp only [batchOf, Option.some.injEq] at hl
    subst hl; rfl
  · intro h; simp [batchOf] at h

theorem batchesFrom_ok : ∀ (l : List Item) (k : Nat), (∀ x ∈ l, x.2.box.Valid) →
    ∀ b ∈ batchesFrom k l, b.Ok
  | [], _, _, b, hb => by simp [batchesFrom] at hb
  | x :: rest, k, hv, b, hb => by
    simp only [batchesFrom, List.mem_cons] at hb
    rcases hb with rfl | hb
    · exact batchOf_ok k x (hv x List.mem_cons_self)
    · exact batchesFrom_ok rest (k + 1) (fun y hy => hv y (List.mem_cons_of_mem _ hy)) b hb

theorem batchesFrom_append : ∀ (l l' : List Item) (k : Nat),
    batchesFrom k (l ++ l') = batchesFrom k l ++ batchesFrom (k + l.length) l'
  | [], l', k => by simp [batchesFrom]
  | x :: rest, l', k => by
    simp only [List.cons_append, batchesFrom, List.length_cons, batchesFrom_append rest l' (k + 1)]
    congr 3
    omega

theorem runHistory_cons (tr : Aabb.Tree ℝ) (b : Batch) (bs : List Batch) :
    runHistory tr (b :: bs) =
      (match Aabb.Tree.insertAabbs insertOrderFixed tr b.boxes b.ext b.mode b.perm with
       | .error e => .error e
       | .ok tr1 => runHistory tr1 bs) := by
  simp only [runHistory, List.foldlM_cons, bind, Except.bind]
  cases Aabb.Tree.insertAabbs insertOrderFixed tr b.boxes b.ext b.mode b.perm <;> rfl

theorem runHistory_append : ∀ (a b : List Batch) (tr : Aabb.Tree ℝ),
    runHistory tr (a ++ b) =
      (match runHistory tr a with
       | .error e => .error e
       | .ok tr1 => runHistory tr1 b)
  | [], b, tr => rfl
  | x :: a, b, tr => by
    simp only [List.cons_append, runHistory_cons]
    cases Aabb.Tree.insertAabbs insertOrderFixed tr x.boxes x.ext x.mode x.perm with
    | error e => rfl
    | ok tr1 => exact runHistory_append a b tr1

/-- `insert_aabb(box, data)` is `insert_aabbs([box], [data])` in mode `none` -/
theorem insertPayload_eq (tree : Aabb.Tree ℝ) (pl : Array Item) (f : Frame) (c : Collider ℝ) :
    insertPayload tree pl f c =
      (match runHistory tree [batchOf pl.size (f, c)] with
       | .error e => .error e
       | .ok tr => .ok (tr, pl.push (f, c))) := by
  rw [runHistory_cons]
  unfold insertPayload
  simp only [batchOf]
  cases Aabb.Tree.insertAabbs insertOrderFixed tree [c.box] (some [pl.size]) Mode.none [] <;> rfl

/-- **a rebuild is a C05 insertion history** -/
theorem rebuild_eq : ∀ (l : List Item) (tree : Aabb.Tree ℝ) (pl : Array Item),
    rebuild tree pl l =
      (match runHistory tree (batchesFrom pl.size l) with
       | .error e => .error e
       | .ok tr => .ok (tr, pl ++ l.toArray))
  | [], tree, pl => by
    simp [rebuild, batchesFrom, runHistory, pure, Except.pure]
  | (f, c) :: rest, tree, pl => by
    unfold rebuild
    rw [insertPayload_eq]
    simp only [batchesFrom]
    rw [runHistory_cons, runHistory_cons]
    cases Aabb.Tree.insertAabbs insertOrderFixed tree (batchOf pl.size (f, c)).boxes
        (batchOf pl.size (f, c)).ext (batchOf pl.size (f, c)).mode (batchOf pl.size (f, c)).perm with
    | error e => rfl
    | ok tr1 =>
      have h0 : runHistory tr1 [] = .ok tr1 := rfl
      simp only [h0]
      rw [rebuild_eq rest tr1 (pl.push (f, c)), Array.size_push]
      cases runHistory tr1 (batchesFrom (pl.size + 1) rest) with
      | error e => rfl
      | ok tr => simp

/-! ### rows and payload indices of a rebuild -/

/-- `(row of the leaf, index into external_data_list, item)` for every `insert_aabb` of a
rebuild that starts at `filled_len = f` with `k` payload entries -/
noncomputable def rowsFrom : Nat → Nat → List Item → List (Nat × Nat × Item)
  | _, _, [] => []
  | f, k, x :: rest => (f, k, x) :: rowsFrom (nextFilled f 1) (k + 1) rest

theorem rowsFrom_items : ∀ (l : List Item) (f k : Nat), (rowsFrom f k l).map (·.2.2) = l
  | [], _, _ => rfl
  | x :: rest, f, k => by simp [rowsFrom, rowsFrom_items rest]

theorem rowsFrom_get : ∀ (l : List Item) (f k : Nat), ∀ r ∈ rowsFrom f k l,
    k ≤ r.2.1 ∧ l[r.2.1 - k]? = some r.2.2
  | [], _, _, r, hr => by simp [rowsFrom] at hr
  | x :: rest, f, k, r, hr => by
    simp only [rowsFrom, List.mem_cons] at hr
    rcases hr with rfl | hr
    · simp
    · obtain ⟨h1, h2⟩ := rowsFrom_get rest _ (k + 1) r hr
      refine ⟨by omega, ?_⟩
      have : r.2.1 - k = (r.2.1 - (k + 1)) + 1 := by omega
      rw [this, List.getElem?_cons_succ]
      exact h2

theorem histLeaves_batchesFrom : ∀ (l : List Item) (f k : Nat),
    histLeaves f (batchesFrom k l) =
      ((rowsFrom f k l).map fun r => ((r.1 : Int), r.2.2.2.box)).reverse
  | [], _, _ => rfl
  | x :: rest, f, k => by
    simp only [batchesFrom, histLeaves, rowsFrom, List.map_cons, List.reverse_cons]
    rw [show (batchOf k x).boxes.length = 1 from rfl, histLeaves_batchesFrom rest]
    rfl

theorem histData_batchesFrom : ∀ (l : List Item) (f k : Nat),
    histData f (batchesFrom k l) = (rowsFrom f k l).map fun r => (r.1, some r.2.1)
  | [], _, _ => rfl
  | x :: rest, f, k => by
    simp only [batchesFrom, histData, rowsFrom, List.map_cons]
    rw [show (batchOf k x).boxes.length = 1 from rfl, histData_batchesFrom rest]
    simp [batchOf, Batch.datum, List.range_succ_eq_map]

/-- row of the `k`-th leaf of a fresh rebuild, as a natural number (`= slotLeaf k`) -/
def rowOf (k : Nat) : Nat := if k = 0 then 0 else 2 * k - 1

theorem rowOf_cast (k : Nat) : ((rowOf k : Nat) : Int) = slotLeaf k := by
  unfold rowOf slotLeaf
  split
  · rfl
  · omega

theorem nextFilled_rowOf (k : Nat) : nextFilled (rowOf k) 1 = rowOf (k + 1) := by
  unfold nextFilled rowOf
  by_cases hk : k = 0
  · subst hk; simp
  · have h1 : ¬ (2 * k - 1 = 0) := by omega
    simp [hk, h1]
    omega

theorem rows_tagFrom : ∀ (l : List Item) (k : Nat),
    ((rowsFrom (rowOf k) k l).map fun r => ((r.1 : Int), r.2.2.2.box)) =
      tagFrom k (l.map fun x => x.2.box)
  | [], _ => rfl
  | x :: rest, k => by
    simp only [rowsFrom, List.map_cons, tagFrom, nextFilled_rowOf, rows_tagFrom rest (k + 1),
      rowOf_cast]

/-! ### `linkCheck` derived from the insertion history -/

theorem size_leaves : ∀ t : T ℝ, t.size + 1 = 2 * t.leaves.length
  | .leaf _ _ => rfl
  | .node _ _ l r => by
    have hl := size_leaves l
    have hr := size_leaves r
    simp only [T.size, T.leaves, List.length_append]
    omega

theorem rd_of_getElem? {β : Type} (a : Array β) (n : Nat) (x : β) (h : a[n]? = some x) :
    rd a (n : Int) = .ok x := by
  unfold rd
  simp [h]

theorem linkCheck_complete (s : State ℝ) (t : T ℝ) (L : List (Frame × Box ℝ))
    (hwf : wfCheck s.tree.core = some (some t)) (hL : leafData s t = .ok L)
    (hperm : L.Perm s.current) (hnd : (dKeys s.colliders).Nodup) :
    linkCheck s = some (some t) := by
  unfold linkCheck
  rw [hwf]
  simp only [hL]
  have h1 : L.isPerm s.current = true := List.isPerm_iff.mpr hperm
  have h2 : (dKeys s.current).Nodup := by rw [dKeys_current]; exact hnd
  simp [h1, h2]

/-- **the link.**  If the tree of a BVH state is the result of the insertion history "one
`insert_aabb` per entry of `colliders_`, in dict order, on a fresh tree" and
`external_data_list`'s payloads are these entries, the current AABBs are valid and the frames
distinct, then the run-time check `linkCheck` succeeds (so it need not be run), and the
encoded tree is tight with the `k`-th collider's current AABB in row `slotLeaf k`. -/
theorem linkCheck_of_history (s : State ℝ)
    (hrun : runHistory Aabb.Tree.empty (batchesFrom 0 s.colliders) = .ok s.tree)
    (hpay : s.payload = s.colliders.toArray)
    (hval : ∀ x ∈ s.colliders, x.2.box.Valid) (hnd : (dKeys s.colliders).Nodup)
    (hne : s.colliders ≠ []) :
    ∃ t, linkCheck s = some (some t) ∧ wfCheck s.tree.core = some (some t) ∧ t.Tight ∧
      t.leaves.Perm (tagFrom 0 (s.current.map (·.2))) ∧ t.size = 2 * s.colliders.length - 1 := by
  obtain ⟨tr, ot, hrun', hinv, hwf, hleaves, hdata⟩ :=
    C05Insert.history_wf (batchesFrom 0 s.colliders) (batchesFrom_ok s.colliders 0 hval)
  rw [hrun] at hrun'
  simp only [Except.ok.injEq] at hrun'
  subst hrun'
  rw [histLeaves_batchesFrom] at hleaves
  rw [histData_batchesFrom] at hdata
  set rows := rowsFrom 0 0 s.colliders with hrows
  have hrowsne : rows ≠ [] := by
    intro h
    have := rowsFrom_items s.colliders 0 0
    rw [← hrows, h] at this
    exact hne this.symm
  cases ot with
  | none =>
    exfalso
    have := hleaves.length_eq
    simp only [oleaves, List.length_nil, List.length_reverse, List.length_map] at this
    exact hrowsne (List.length_eq_zero_iff.mp this.symm)
  | some t =>
    simp only [oleaves] at hleaves
    -- what `leafFn` returns on the leaf of a row
    have hfn : ∀ r ∈ rows, leafFn s ((r.1 : Int), r.2.2.2.box) = .ok (r.2.2.1, r.2.2.2.box) := by
      intro r hr
      have hext : s.tree.ext[r.1]? = some (some r.2.1) :=
        hdata (r.1, some r.2.1) (List.mem_map.mpr ⟨r, hr, rfl⟩)
      obtain ⟨_, hget⟩ := rowsFrom_get s.colliders 0 0 r hr
      have hp : s.payload[r.2.1]? = some r.2.2 := by
        rw [hpay]; simpa using hget
      have hres : s.resolve (r.1 : Int) = .ok r.2.2 := by
        unfold State.resolve State.extAt
        rw [rd_of_getElem? _ _ _ hext]
        simp only [hp]
      unfold leafFn
      rw [hres]
      simp
    have hall : ∀ p ∈ t.leaves, ∃ y, leafFn s p = .ok y := by
      intro p hp
      have := hleaves.subset hp
      rw [List.mem_reverse, List.mem_map] at this
      obtain ⟨r, hr, rfl⟩ := this
      exact ⟨_, hfn r hr⟩
    have hL := mapE_okD (leafFn s) ((0 : Frame), (zeroBox : Box ℝ)) t.leaves hall
    have hperm : (t.leaves.map fun p => okD ((0 : Frame), (zeroBox : Box ℝ)) (leafFn s p)).Perm
        s.current := by
      refine (hleaves.map _).trans ?_
      rw [List.map_reverse]
      refine (List.reverse_perm _).trans ?_
      rw [List.map_map]
      have : List.map ((fun p => okD ((0 : Frame), (zeroBox : Box ℝ)) (leafFn s p)) ∘
          fun r : Nat × Nat × Item => ((r.1 : Int), r.2.2.2.box)) rows
          = rows.map fun r => (r.2.2.1, r.2.2.2.box) := by
        apply List.map_congr_left
        intro r hr
        simp only [Function.comp, hfn r hr, okD]
      rw [this]
      have h2 : (rows.map fun r => (r.2.2.1, r.2.2.2.box))
          = (rows.map (·.2.2)).map fun x : Item => (x.1, x.2.box) := by
        rw [List.map_map]; rfl
      rw [h2, hrows, rowsFrom_items]
      exact List.Perm.refl _
    refine ⟨t, linkCheck_complete s t _ hwf hL hperm hnd, hwf, hinv.enc.2.2.2.1, ?_, ?_⟩
    · refine hleaves.trans ((List.reverse_perm _).trans ?_)
      have := rows_tagFrom s.colliders 0
      simp only [rowOf, if_true] at this
      rw [hrows, this]
      simp [State.current, List.map_map, Function.comp_def]
    · have hsz : t.size = s.tree.core.filledLen := hinv.szT
      have hlen := hleaves.length_eq
      simp only [List.length_reverse, List.length_map] at hlen
      have hrl : rows.length = s.colliders.length := by
        have := congrArg List.length (rowsFrom_items s.colliders 0 0)
        simpa using this
      have := size_leaves t
      omega

/-! ### no call raises: totality of histories -/

/-- `updateLoop` is `rebuild` on the refreshed colliders (also when it fails) -/
theorem updateLoop_eq (getT : Frame → Pose ℝ) :
    ∀ (l done : List Item) (tree : Aabb.Tree ℝ) (pl : Array Item),
      updateLoop getT l done tree pl =
        (match rebuild tree pl (refreshed getT l) with
         | .error e => .error e
         | .ok r => .ok { colliders := done.reverse ++ refreshed getT l, tree := r.1, payload := r.2 })
  | [], done, tree, pl => by simp [updateLoop, refreshed, rebuild]
  | (f, c) :: rest, done, tree, pl => by
    unfold updateLoop
    simp only [refreshed, List.map_cons, rebuild]
    cases hi : insertPayload tree pl f (c.updatePose (getT f)) with
    | error e => rfl
    | ok r =>
      obtain ⟨t1, p1⟩ := r
      simp only
      rw [updateLoop_eq getT rest _ t1 p1]
      simp [refreshed]

theorem insertPayload_total (tree : Aabb.Tree ℝ) (ot : Option (T ℝ)) (hinv : TInv tree ot)
    (pl : Array Item) (f : Frame) (c : Collider ℝ) (hv : c.box.Valid) :
    ∃ tree' ot', insertPayload tree pl f c = .ok (tree', pl.push (f, c)) ∧ TInv tree' ot' := by
  obtain ⟨tr', ot', h1, h2, _⟩ :=
    insertAabbs_step tree ot (batchOf pl.size (f, c)) hinv (batchOf_ok _ _ hv)
  refine ⟨tr', ot', ?_, h2⟩
  rw [insertPayload_eq, runHistory_cons, h1]
  rfl

theorem rebuild_total (tree : Aabb.Tree ℝ) (ot : Option (T ℝ)) (hinv : TInv tree ot)
    (pl : Array Item) (l : List Item) (hv : ∀ x ∈ l, x.2.box.Valid) :
    ∃ tree' ot', rebuild tree pl l = .ok (tree', pl ++ l.toArray) ∧ TInv tree' ot' := by
  obtain ⟨tr', ot', h1, h2, _⟩ :=
    history_from (batchesFrom pl.size l) tree ot hinv (batchesFrom_ok l pl.size hv)
  refine ⟨tr', ot', ?_, h2⟩
  rw [rebuild_eq, h1]

/-- the AABB function of every collider handed to `add_collider` yields `lo ≤ hi` on every
axis at every pose (C04: true for every shape class of the library) -/
def Op.ValidAabb : Op ℝ → Prop
  | .add _ c => ∀ p, (c.aabb p).Valid
  | .update _ => True

/-- state invariant for totality: the tree satisfies C05's class invariant and every stored
collider has a valid AABB function -/
def TotalInv (s : State ℝ) : Prop :=
  (∀ x ∈ s.colliders, ∀ p, (x.2.aabb p).Valid) ∧ ∃ ot, TInv s.tree ot

theorem totalInv_empty : TotalInv (State.empty : State ℝ) :=
  ⟨fun x hx => absurd hx List.not_mem_nil, none, TInv.empty⟩

theorem step_total (s : State ℝ) (hs : TotalInv s) (o : Op ℝ) (ho : Op.ValidAabb o) :
    ∃ s', step s o = .ok s' ∧ TotalInv s' := by
  obtain ⟨hcol, ot, hinv⟩ := hs
  cases o with
  | add f c =>
    obtain ⟨tree', ot', h1, h2⟩ := insertPayload_total s.tree ot hinv s.payload f c (ho c.pose)
    refine ⟨{ colliders := dSet s.colliders f c, tree := tree', payload := s.payload.push (f, c) },
      by simp only [step, addCollider, h1], ?_, ot', h2⟩
    intro x hx p
    rcases mem_dSet _ _ _ _ hx with rfl | hx
    · exact ho p
    · exact hcol x hx p
  | update getT =>
    have hv : ∀ x ∈ refreshed getT s.colliders, x.2.box.Valid := by
      intro x hx
      simp only [refreshed, List.mem_map] at hx
      obtain ⟨y, hy, rfl⟩ := hx
      exact hcol y hy _
    obtain ⟨tree', ot', h1, h2⟩ :=
      rebuild_total Aabb.Tree.empty none TInv.empty #[] (refreshed getT s.colliders) hv
    refine ⟨{ colliders := [].reverse ++ refreshed getT s.colliders, tree := tree'
              payload := #[] ++ (refreshed getT s.colliders).toArray },
      by simp only [step, updateColliderPoses, updateLoop_eq, h1], ?_, ot', h2⟩
    intro x hx p
    simp only [List.reverse_nil, List.nil_append, refreshed, List.mem_map] at hx
    obtain ⟨y, hy, rfl⟩ := hx
    exact hcol y hy p

/-- **no operation of any history raises** (valid AABB functions) -/
theorem run_total : ∀ (ops : List (Op ℝ)) (s : State ℝ), TotalInv s →
    (∀ o ∈ ops, Op.ValidAabb o) → ∃ s', run s ops = .ok s' ∧ TotalInv s'
  | [], s, hs, _ => ⟨s, rfl, hs⟩
  | o :: os, s, hs, ho => by
    obtain ⟨s1, h1, hs1⟩ := step_total s hs o (ho o List.mem_cons_self)
    obtain ⟨s', h', hs'⟩ := run_total os s1 hs1 (fun o' ho' => ho o' (List.mem_cons_of_mem _ ho'))
    exact ⟨s', by simp only [run, h1, h'], hs'⟩

/-! ### the tree is in sync with `colliders_` after every operation with fresh frames -/

/-- tree and payload are the result of inserting the entries of `colliders_` in dict order -/
structure Synced (s : State ℝ) : Prop where
  hist : runHistory Aabb.Tree.empty (batchesFrom 0 s.colliders) = .ok s.tree
  pay : s.payload = s.colliders.toArray
  nodup : (dKeys s.colliders).Nodup

theorem synced_empty : Synced (State.empty : State ℝ) := ⟨rfl, rfl, List.nodup_nil⟩

theorem dSet_fresh {κ β : Type} [DecidableEq κ] : ∀ (d : List (κ × β)) (k : κ) (v : β),
    k ∉ dKeys d → dSet d k v = d ++ [(k, v)]
  | [], _, _, _ => rfl
  | (k', v') :: r, k, v, h => by
    have h1 : k' ≠ k := by
      intro e; apply h; simp [dKeys, e]
    have h2 : k ∉ dKeys r := by
      intro e; apply h; simp only [dKeys, List.map_cons, List.mem_cons]; exact Or.inr e
    simp [dSet, h1, dSet_fresh r k v h2]

/-- `update_collider_poses` always re-synchronises -/
theorem synced_update (getT : Frame → Pose ℝ) (s s' : State ℝ)
    (hn : (dKeys s.colliders).Nodup) (h : updateColliderPoses getT s = .ok s') : Synced s' := by
  obtain ⟨hc, hr, hp⟩ := update_spec getT s s' h
  refine ⟨?_, hp, by rw [hc, dKeys_refreshed]; exact hn⟩
  rw [rebuild_eq] at hr
  cases hh : runHistory Aabb.Tree.empty (batchesFrom (#[] : Array Item).size s'.colliders) with
  | error e => rw [hh] at hr; cases hr
  | ok tr =>
    rw [hh] at hr
    simp only [Except.ok.injEq, Prod.mk.injEq] at hr
    rw [← hr.1]

/-- `add_collider` with a frame that is not yet a key keeps the tree in sync -/
theorem synced_add (s s' : State ℝ) (hs : Synced s) (f : Frame) (c : Collider ℝ)
    (hf : f ∉ dKeys s.colliders) (h : addCollider s f c = .ok s') : Synced s' := by
  have hcol : s'.colliders = s.colliders ++ [(f, c)] := by
    rw [addCollider_colliders s s' f c h, dSet_fresh _ _ _ hf]
  unfold addCollider at h
  rw [insertPayload_eq] at h
  cases hh : runHistory s.tree [batchOf s.payload.size (f, c)] with
  | error e => simp [hh] at h
  | ok tr =>
    simp only [hh, Except.ok.injEq] at h
    have hsize : s.payload.size = s.colliders.length := by rw [hs.pay]; simp
    refine ⟨?_, ?_, ?_⟩
    · rw [hcol, batchesFrom_append, runHistory_append, hs.hist]
      simp only [batchesFrom, Nat.zero_add]
      rw [← hsize, hh, ← h]
    · rw [hcol, ← h, hs.pay]; simp
    · rw [hcol]
      simp only [dKeys, List.map_append, List.map_cons, List.map_nil]
      refine List.Nodup.append hs.nodup (List.nodup_singleton f) ?_
      intro a ha hb
      simp only [List.mem_singleton] at hb
      subst hb
      exact hf ha

theorem run_synced : ∀ (ops : List (Op ℝ)) (s s' : State ℝ), Synced s →
    (addedFrames ops).Nodup → (∀ f ∈ addedFrames ops, f ∉ dKeys s.colliders) →
    run s ops = .ok s' → Synced s'
  | [], s, s', hs, _, _, h => by
    simp only [run, Except.ok.injEq] at h
    subst h; exact hs
  | .add f c :: os, s, s', hs, hnd, hfr, h => by
    simp only [run, step] at h
    cases ha : addCollider s f c with
    | error e => simp [ha] at h
    | ok s1 =>
      simp only [ha] at h
      simp only [addedFrames, List.nodup_cons] at hnd
      have hf : f ∉ dKeys s.colliders := hfr f (by simp [addedFrames])
      have hs1 := synced_add s s1 hs f c hf ha
      refine run_synced os s1 s' hs1 hnd.2 ?_ h
      intro g hg
      rw [addCollider_colliders s s1 f c ha, mem_dKeys_dSet]
      intro e
      rcases e with e | e
      · subst e; exact hnd.1 hg
      · exact hfr g (by simp [addedFrames, hg]) e
  | .update getT :: os, s, s', hs, hnd, hfr, h => by
    simp only [run, step] at h
    cases hu : updateColliderPoses getT s with
    | error e => simp [hu] at h
    | ok s1 =>
      simp only [hu] at h
      have hs1 := synced_update getT s s1 hs.nodup hu
      refine run_synced os s1 s' hs1 hnd ?_ h
      intro g hg
      rw [(update_spec getT s s1 hu).1, dKeys_refreshed]
      exact hfr g hg

/-- a synced state without colliders is the empty BVH -/
theorem linkCheck_of_synced_nil (s : State ℝ) (hs : Synced s) (he : s.colliders = []) :
    linkCheck s = some none := by
  have h := hs.hist
  rw [he] at h
  have ht : s.tree = Aabb.Tree.empty := by
    have : runHistory (Aabb.Tree.empty : Aabb.Tree ℝ) (batchesFrom 0 []) = .ok Aabb.Tree.empty := rfl
    rw [this] at h
    simp only [Except.ok.injEq] at h
    exact h.symm
  unfold linkCheck
  rw [ht, he]
  have : wfCheck (Aabb.Tree.empty : Aabb.Tree ℝ).core = some none :=
    wfCheck_complete_empty _ rfl rfl rfl rfl
  rw [this]
  rfl

/-! ### the array-level tree *is* the tree-layer tree `buildT` -/

/-- the abstract state accepted by `wfCheck` is determined by the class invariant -/
theorem TInv.wfCheck_eq {tr : Aabb.Tree ℝ} {t : T ℝ} (hinv : TInv tr (some t)) :
    wfCheck tr.core = some (some t) := by
  obtain ⟨hidx, hrep, hnd, ht, _, _⟩ := hinv.enc
  exact wfCheck_complete tr.core t hidx hrep hnd ht hinv.szT hinv.szN hinv.szA

theorem single_slots (f : Nat) (b : Box ℝ) :
    batchSlots f [b] (orderKs Mode.none [b] []) = [((f : Int), b)] := by
  simp [batchSlots, orderKs, List.range_succ_eq_map]

/-- one `insert_aabb` on a non-empty tree = `T.insert` with leaf row `filled_len` and parent
row `filled_len + 1` -/
theorem insertAabbs_single (tr : Aabb.Tree ℝ) (t : T ℝ) (hinv : TInv tr (some t)) (k : Nat)
    (x : Item) (hv : x.2.box.Valid) :
    ∃ tr' t', runHistory tr [batchOf k x] = .ok tr' ∧ TInv tr' (some t') ∧
      t.insert (tr.core.filledLen : Int) x.2.box ((tr.core.filledLen + 1 : Nat) : Int) = some t' ∧
      tr'.core.filledLen = tr.core.filledLen + 2 := by
  obtain ⟨hvalid, he, hperm⟩ := batchOf_ok k x hv
  have hn : (batchOf k x).boxes.length ≠ 0 := by simp [batchOf]
  have hks := orderKs_perm (batchOf k x).mode (batchOf k x).boxes (batchOf k x).perm hperm
  have henc₀ := start_enc tr (some t) hinv (batchOf k x).boxes
  have hpend₀ := start_pending tr (some t) hinv (batchOf k x).boxes hvalid _ hks
  have hfst := batchSlots_fst tr.core.filledLen (batchOf k x).boxes
    (orderKs (batchOf k x).mode (batchOf k x).boxes (batchOf k x).perm)
  have hsN₀ := size_startNodes tr (batchOf k x).boxes hinv.szN
  have hsA₀ := size_startAabbs tr (batchOf k x).boxes hinv.szN hinv.szA
  obtain ⟨c', t', hrun, henc', hfold, _, hsize, hf, hsN, hsA, _⟩ :=
    insertMany_refines _ (startCore tr (batchOf k x).boxes) t henc₀ hpend₀
  rw [hfst] at hrun
  have hsl : batchSlots tr.core.filledLen (batchOf k x).boxes
      (orderKs (batchOf k x).mode (batchOf k x).boxes (batchOf k x).perm)
      = [((tr.core.filledLen : Int), x.2.box)] := single_slots _ _
  rw [hsl] at hsize hf hfold
  simp only [List.length_singleton] at hsize hf
  have hszT : t.size = tr.core.filledLen := hinv.szT
  have hfl : c'.filledLen = tr.core.filledLen + 1 + 1 := hf
  have hlen1 : (batchOf k x).boxes.length = 1 := rfl
  refine ⟨finish tr (batchOf k x).boxes (batchOf k x).ext c', t', ?_, ?_, ?_, ?_⟩
  · rw [runHistory_cons,
      insertAabbs_run tr (batchOf k x).boxes (batchOf k x).ext (batchOf k x).mode (batchOf k x).perm
        hn he c' hrun]
    rfl
  · exact finish_inv tr (batchOf k x) c' t' hinv.szE hinv.szN he henc' (by rw [hsN, ← hsN₀]; rfl)
      (by rw [hsA, ← hsA₀]) (by rw [hlen1]; omega) (by omega)
  · have : (startCore tr (batchOf k x).boxes).filledLen = tr.core.filledLen + 1 := rfl
    rw [this] at hfold
    simpa [insList] using hfold
  · show c'.filledLen = _
    omega

/-- the first `insert_aabb` on the empty tree makes row 0 the root leaf -/
theorem insertAabbs_first (k : Nat) (x : Item) (hv : x.2.box.Valid) :
    ∃ tr', runHistory (Aabb.Tree.empty : Aabb.Tree ℝ) [batchOf k x] = .ok tr' ∧
      TInv tr' (some (.leaf 0 x.2.box)) ∧ tr'.core.filledLen = 1 := by
  have hinv : TInv (Aabb.Tree.empty : Aabb.Tree ℝ) none := TInv.empty
  obtain ⟨hvalid, he, hperm⟩ := batchOf_ok k x hv
  have hn : (batchOf k x).boxes.length ≠ 0 := by simp [batchOf]
  have hks := orderKs_perm (batchOf k x).mode (batchOf k x).boxes (batchOf k x).perm hperm
  have henc₀ := start_enc Aabb.Tree.empty none hinv (batchOf k x).boxes
  have hpend₀ := start_pending Aabb.Tree.empty none hinv (batchOf k x).boxes hvalid _ hks
  have hfst := batchSlots_fst (Aabb.Tree.empty : Aabb.Tree ℝ).core.filledLen (batchOf k x).boxes
    (orderKs (batchOf k x).mode (batchOf k x).boxes (batchOf k x).perm)
  have hsN₀ := size_startNodes Aabb.Tree.empty (batchOf k x).boxes hinv.szN
  have hsA₀ := size_startAabbs Aabb.Tree.empty (batchOf k x).boxes hinv.szN hinv.szA
  have hsl : batchSlots (Aabb.Tree.empty : Aabb.Tree ℝ).core.filledLen (batchOf k x).boxes
      (orderKs (batchOf k x).mode (batchOf k x).boxes (batchOf k x).perm)
      = [(((Aabb.Tree.empty : Aabb.Tree ℝ).core.filledLen : Int), x.2.box)] := single_slots _ _
  rw [hsl] at hpend₀ hfst
  obtain ⟨c', t', hrun, henc', hfold, _, hsize, hf, hsN, hsA⟩ :=
    insertMany_refines_empty _ [] (startCore Aabb.Tree.empty (batchOf k x).boxes) henc₀ hpend₀
  rw [hfst] at hrun
  simp only [insList, List.foldlM_nil, pure, Option.some.injEq] at hfold
  have hf0 : (Aabb.Tree.empty : Aabb.Tree ℝ).core.filledLen = 0 := rfl
  have hfl : c'.filledLen = 0 + 1 + 0 := hf
  have hlen1 : (batchOf k x).boxes.length = 1 := rfl
  have ht' : t' = .leaf 0 x.2.box := by rw [← hfold]; rfl
  subst ht'
  refine ⟨finish Aabb.Tree.empty (batchOf k x).boxes (batchOf k x).ext c', ?_, ?_, ?_⟩
  · rw [runHistory_cons,
      insertAabbs_run Aabb.Tree.empty (batchOf k x).boxes (batchOf k x).ext (batchOf k x).mode
        (batchOf k x).perm hn he c' hrun]
    rfl
  · exact finish_inv Aabb.Tree.empty (batchOf k x) c' _ hinv.szE hinv.szN he henc'
      (by rw [hsN, ← hsN₀]; rfl) (by rw [hsA, ← hsA₀]) (by rw [hlen1, hf0]; omega)
      (by simp only [T.size]; omega)
  · show c'.filledLen = _
    omega

/-- the rest of a rebuild, on the tree layer: `insFrom` -/
theorem runHistory_insFrom : ∀ (l : List Item) (j k : Nat) (tr : Aabb.Tree ℝ) (t : T ℝ),
    TInv tr (some t) → tr.core.filledLen = 2 * j - 1 → 1 ≤ j → (∀ x ∈ l, x.2.box.Valid) →
    ∃ tr' t', runHistory tr (batchesFrom k l) = .ok tr' ∧ TInv tr' (some t') ∧
      (insFrom j (l.map fun x => x.2.box)).foldlM (fun t x => t.insert x.1 x.2.1 x.2.2) t = some t'
  | [], j, k, tr, t, hinv, _, _, _ => ⟨tr, t, rfl, hinv, rfl⟩
  | x :: rest, j, k, tr, t, hinv, hf, hj, hv => by
    obtain ⟨tr1, t1, h1, hinv1, hins, hf1⟩ :=
      insertAabbs_single tr t hinv k x (hv x List.mem_cons_self)
    obtain ⟨tr', t', h', hinv', hfold⟩ :=
      runHistory_insFrom rest (j + 1) (k + 1) tr1 t1 hinv1 (by rw [hf1, hf]; omega) (by omega)
        (fun y hy => hv y (List.mem_cons_of_mem _ hy))
    refine ⟨tr', t', ?_, hinv', ?_⟩
    · rw [runHistory_cons] at h1
      simp only [batchesFrom]
      rw [runHistory_cons]
      cases hh : Aabb.Tree.insertAabbs insertOrderFixed tr (batchOf k x).boxes (batchOf k x).ext
          (batchOf k x).mode (batchOf k x).perm with
      | error e => rw [hh] at h1; cases h1
      | ok tr2 =>
        rw [hh] at h1
        have : tr2 = tr1 := by
          have h0 : (Except.ok tr2 : Except Err (Aabb.Tree ℝ)) = .ok tr1 := h1
          simpa using h0
        subst this
        exact h'
    · simp only [List.map_cons, insFrom, List.foldlM_cons]
      have e1 : slotLeaf j = (tr.core.filledLen : Int) := by
        unfold slotLeaf; rw [hf]; split <;> omega
      have e2 : slotParent j = ((tr.core.filledLen + 1 : Nat) : Int) := by
        unfold slotParent; rw [hf]; omega
      rw [e1, e2, hins]
      exact hfold

/-- **the array-level rebuild encodes exactly the tree-layer tree `buildT`** of the current
AABBs (C05's `T.insert` folded over them with the rows `slotLeaf k` / `slotParent k`). -/
theorem runHistory_buildT (l : List Item) (hne : l ≠ []) (hv : ∀ x ∈ l, x.2.box.Valid) :
    ∃ tr t, runHistory Aabb.Tree.empty (batchesFrom 0 l) = .ok tr ∧ TInv tr (some t) ∧
      buildT (l.map fun x => x.2.box) = some t := by
  cases l with
  | nil => exact absurd rfl hne
  | cons x rest =>
    obtain ⟨tr1, h1, hinv1, hf1⟩ := insertAabbs_first 0 x (hv x List.mem_cons_self)
    obtain ⟨tr', t', h', hinv', hfold⟩ :=
      runHistory_insFrom rest 1 1 tr1 _ hinv1 (by rw [hf1]) (le_refl 1)
        (fun y hy => hv y (List.mem_cons_of_mem _ hy))
    refine ⟨tr', t', ?_, hinv', ?_⟩
    · rw [runHistory_cons] at h1
      simp only [batchesFrom]
      rw [runHistory_cons]
      cases hh : Aabb.Tree.insertAabbs insertOrderFixed Aabb.Tree.empty (batchOf 0 x).boxes
          (batchOf 0 x).ext (batchOf 0 x).mode (batchOf 0 x).perm with
      | error e => rw [hh] at h1; cases h1
      | ok tr2 =>
        rw [hh] at h1
        have : tr2 = tr1 := by
          have h0 : (Except.ok tr2 : Except Err (Aabb.Tree ℝ)) = .ok tr1 := h1
          simpa using h0
        subst this
        exact h'
    · simp only [List.map_cons, buildT]
      exact hfold

end Bvh
end D3
