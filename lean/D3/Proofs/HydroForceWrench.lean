/-
`_transform_wrenches` / `accumulate_wrenches` at ℝ: action–reaction after the repair, the closed
form of the pre-repair version (transpose of the twist adjoint applied to (force, torque)) and
why it breaks action–reaction, and that rotating torques about the centres of mass by a proper
rotation gives the world-frame torques about the world-frame centres of mass.
-/
import D3.Proofs.HydroForcePose
import Mathlib.Tactic.NormNum

set_option linter.unusedSectionVars false

namespace D3
namespace HydroForce

@[simp] theorem V3.zero_x : (V3.zero : V).x = 0 := rfl
@[simp] theorem V3.zero_y : (V3.zero : V).y = 0 := rfl
@[simp] theorem V3.zero_z : (V3.zero : V).z = 0 := rfl

theorem V3.neg_neg' (a : V) : -(-a) = a := by apply V3.ext' <;> simp
theorem V3.add_comm' (a b : V) : a + b = b + a := by apply V3.ext' <;> simp [add_comm]
theorem V3.add_assoc' (a b c : V) : a + b + c = a + (b + c) := by apply V3.ext' <;> simp [add_assoc]
theorem V3.zero_add' (a : V) : V3.zero + a = a := by apply V3.ext' <;> simp
theorem V3.add_zero' (a : V) : a + V3.zero = a := by apply V3.ext' <;> simp

/-! ### after the repair -/

/-- components of `_transform_wrenches` -/
theorem transformWrenches_fst (P : Pose ℝ) (f t12 t21 : V) :
    (transformWrenches P f t12 t21).1 = ⟨P.R.mulVec (-f), P.R.mulVec t12⟩ := rfl
theorem transformWrenches_snd (P : Pose ℝ) (f t12 t21 : V) :
    (transformWrenches P f t12 t21).2 = ⟨P.R.mulVec f, P.R.mulVec t21⟩ := rfl

/-- `f12 = −f21` for every matrix `R` (orthonormal or not), every translation and all sums -/
theorem transformWrenches_action_reaction (P : Pose ℝ) (f t12 t21 : V) :
    (transformWrenches P f t12 t21).1.f = -(transformWrenches P f t12 t21).2.f := by
  rw [transformWrenches_fst, transformWrenches_snd]
  exact mulVec_neg _ _

/-! ### before the repair -/

theorem cpm_tmulVec (p v : V) : (crossProductMatrix p).tmulVec v = -(V3.cross p v) := by
  apply V3.ext' <;>
    simp only [crossProductMatrix, M3.tmulVec, M3.col0, M3.col1, M3.col2, V3.dot_def, V3.cross,
      V3.neg_x, V3.neg_y, V3.neg_z] <;> ring

theorem zeroM3_tmulVec (v : V) : (zeroM3 : Mat).tmulVec v = V3.zero := by
  apply V3.ext' <;> simp [zeroM3, M3.tmulVec, M3.col0, M3.col1, M3.col2, V3.dot_def]

theorem tmulVec_neg (R : Mat) (a : V) : R.tmulVec (-a) = -(R.tmulVec a) := by
  apply V3.ext' <;>
    simp only [M3.tmulVec, M3.col0, M3.col1, M3.col2, V3.dot_def, V3.neg_x, V3.neg_y, V3.neg_z] <;> ring

theorem tmulVec_add (R : Mat) (a b : V) : R.tmulVec (a + b) = R.tmulVec a + R.tmulVec b := by
  apply V3.ext' <;>
    simp only [M3.tmulVec, M3.col0, M3.col1, M3.col2, V3.dot_def, V3.add_x, V3.add_y, V3.add_z] <;> ring

theorem cross_add_right (p a b : V) : V3.cross p (a + b) = V3.cross p a + V3.cross p b := by
  apply V3.ext' <;> simp only [V3.cross, V3.add_x, V3.add_y, V3.add_z] <;> ring

/-- closed form of `adjoint_from_transform(T).T.dot((f, τ))` :
`(Rᵀ f − Rᵀ (p × τ),  Rᵀ τ)` -/
theorem adjoint_transpose_wrench (P : Pose ℝ) (w : Wrench ℝ) :
    (adjointFromTransform P).transposeMulWrench w =
      ⟨P.R.tmulVec w.f + -(P.R.tmulVec (V3.cross P.t w.t)), P.R.tmulVec w.t⟩ := by
  unfold adjointFromTransform Adj.transposeMulWrench
  simp only [mul_tmulVec, cpm_tmulVec, zeroM3_tmulVec, tmulVec_neg, V3.zero_add']

/-- before the repair: `f12 + f21 = −Rᵀ (p × (τ12 + τ21))` — action–reaction holds only when
the translation of body 2 is parallel to the torque sum (or one of them vanishes) -/
theorem transformWrenches_asIs_before_fix_sum (P : Pose ℝ) (f t12 t21 : V) :
    (transformWrenches_asIs_before_fix P f t12 t21).1.f +
      (transformWrenches_asIs_before_fix P f t12 t21).2.f
      = -(P.R.tmulVec (V3.cross P.t (t12 + t21))) := by
  unfold transformWrenches_asIs_before_fix
  simp only [adjoint_transpose_wrench, cross_add_right, tmulVec_add, tmulVec_neg]
  apply V3.ext' <;> simp <;> ring

/-- before the repair the force was rotated by `Rᵀ` (and shifted), the torque by `Rᵀ` -/
theorem transformWrenches_asIs_before_fix_snd (P : Pose ℝ) (f t12 t21 : V) :
    (transformWrenches_asIs_before_fix P f t12 t21).2 =
      ⟨P.R.tmulVec f + -(P.R.tmulVec (V3.cross P.t t21)), P.R.tmulVec t21⟩ := by
  unfold transformWrenches_asIs_before_fix
  simp only [adjoint_transpose_wrench]

/-- for the identity pose of body 2 (every upstream fixture) old and new agree -/
theorem transformWrenches_asIs_before_fix_identity (f t12 t21 : V) :
    transformWrenches_asIs_before_fix (Pose.id : Pose ℝ) f t12 t21
      = transformWrenches (Pose.id : Pose ℝ) f t12 t21 := by
  unfold transformWrenches_asIs_before_fix transformWrenches
  simp only [adjoint_transpose_wrench]
  refine Prod.ext ?_ ?_ <;> simp only <;> congr 1 <;> apply V3.ext' <;>
    simp [Pose.id, M3.one, V3.zero, M3.tmulVec, M3.mulVec, M3.col0, M3.col1, M3.col2, V3.dot_def,
      V3.cross]

/-! ### sums -/

theorem sumV_foldl (l : List V) (a : V) : l.foldl (· + ·) a = a + sumV l := by
  induction l generalizing a with
  | nil => simp [sumV, V3.add_zero']
  | cons x xs ih =>
    simp only [sumV, List.foldl_cons]
    rw [ih, ih (V3.zero + x), V3.zero_add', V3.add_assoc']

theorem sumV_nil : sumV ([] : List V) = V3.zero := rfl

theorem sumV_cons (x : V) (xs : List V) : sumV (x :: xs) = x + sumV xs := by
  simp only [sumV, List.foldl_cons]
  rw [sumV_foldl, V3.zero_add']; rfl

theorem sumV_append (l1 l2 : List V) : sumV (l1 ++ l2) = sumV l1 + sumV l2 := by
  induction l1 with
  | nil => simp [sumV_nil, V3.zero_add']
  | cons x xs ih => simp only [List.cons_append, sumV_cons, ih, V3.add_assoc']

/-- the sum does not depend on the order of the contacts -/
theorem sumV_perm {l1 l2 : List V} (h : l1.Perm l2) : sumV l1 = sumV l2 := by
  induction h with
  | nil => rfl
  | cons x _ ih => simp only [sumV_cons, ih]
  | swap x y l =>
    simp only [sumV_cons]
    rw [← V3.add_assoc', ← V3.add_assoc', V3.add_comm' y x]
  | trans _ _ ih1 ih2 => exact ih1.trans ih2

theorem sumV_map_mulVec (R : Mat) (l : List V) : sumV (l.map R.mulVec) = R.mulVec (sumV l) := by
  induction l with
  | nil =>
    simp only [List.map_nil, sumV_nil]
    apply V3.ext' <;> simp [M3.mulVec, V3.dot_def]
  | cons x xs ih => simp only [List.map_cons, sumV_cons, ih, mulVec_add]

/-! ### proper rotations commute with the cross product -/

/-- determinant as the triple product of the rows -/
def det3 (R : Mat) : ℝ := V3.dot R.r0 (V3.cross R.r1 R.r2)

theorem rot_r1_cross_r2 {R : Mat} (h : Orthonormal R) (hd : det3 R = 1) :
    V3.cross R.r1 R.r2 = R.r0 := by
  obtain ⟨_, _, _, _, _, _, c00, c11, c22, c01, c02, c12⟩ := h
  simp only [det3, V3.dot_def, V3.cross, M3.col0, M3.col1, M3.col2] at *
  apply V3.ext' <;> simp only
  · linear_combination (-(R.r1.y * R.r2.z - R.r1.z * R.r2.y)) * c00
      - (R.r1.z * R.r2.x - R.r1.x * R.r2.z) * c01 - (R.r1.x * R.r2.y - R.r1.y * R.r2.x) * c02
      + R.r0.x * hd
  · linear_combination (-(R.r1.y * R.r2.z - R.r1.z * R.r2.y)) * c01
      - (R.r1.z * R.r2.x - R.r1.x * R.r2.z) * c11 - (R.r1.x * R.r2.y - R.r1.y * R.r2.x) * c12
      + R.r0.y * hd
  · linear_combination (-(R.r1.y * R.r2.z - R.r1.z * R.r2.y)) * c02
      - (R.r1.z * R.r2.x - R.r1.x * R.r2.z) * c12 - (R.r1.x * R.r2.y - R.r1.y * R.r2.x) * c22
      + R.r0.z * hd

theorem rot_r2_cross_r0 {R : Mat} (h : Orthonormal R) (hd : det3 R = 1) :
    V3.cross R.r2 R.r0 = R.r1 := by
  obtain ⟨_, _, _, _, _, _, c00, c11, c22, c01, c02, c12⟩ := h
  simp only [det3, V3.dot_def, V3.cross, M3.col0, M3.col1, M3.col2] at *
  apply V3.ext' <;> simp only
  · linear_combination (-(R.r2.y * R.r0.z - R.r2.z * R.r0.y)) * c00
      - (R.r2.z * R.r0.x - R.r2.x * R.r0.z) * c01 - (R.r2.x * R.r0.y - R.r2.y * R.r0.x) * c02
      + R.r1.x * hd
  · linear_combination (-(R.r2.y * R.r0.z - R.r2.z * R.r0.y)) * c01
      - (R.r2.z * R.r0.x - R.r2.x * R.r0.z) * c11 - (R.r2.x * R.r0.y - R.r2.y * R.r0.x) * c12
      + R.r1.y * hd
  · linear_combination (-(R.r2.y * R.r0.z - R.r2.z * R.r0.y)) * c02
      - (R.r2.z * R.r0.x - R.r2.x * R.r0.z) * c12 - (R.r2.x * R.r0.y - R.r2.y * R.r0.x) * c22
      + R.r1.z * hd

theorem rot_r0_cross_r1 {R : Mat} (h : Orthonormal R) (hd : det3 R = 1) :
    V3.cross R.r0 R.r1 = R.r2 := by
  obtain ⟨_, _, _, _, _, _, c00, c11, c22, c01, c02, c12⟩ := h
  simp only [det3, V3.dot_def, V3.cross, M3.col0, M3.col1, M3.col2] at *
  apply V3.ext' <;> simp only
  · linear_combination (-(R.r0.y * R.r1.z - R.r0.z * R.r1.y)) * c00
      - (R.r0.z * R.r1.x - R.r0.x * R.r1.z) * c01 - (R.r0.x * R.r1.y - R.r0.y * R.r1.x) * c02
      + R.r2.x * hd
  · linear_combination (-(R.r0.y * R.r1.z - R.r0.z * R.r1.y)) * c01
      - (R.r0.z * R.r1.x - R.r0.x * R.r1.z) * c11 - (R.r0.x * R.r1.y - R.r0.y * R.r1.x) * c12
      + R.r2.y * hd
  · linear_combination (-(R.r0.y * R.r1.z - R.r0.z * R.r1.y)) * c02
      - (R.r0.z * R.r1.x - R.r0.x * R.r1.z) * c12 - (R.r0.x * R.r1.y - R.r0.y * R.r1.x) * c22
      + R.r2.z * hd

/-- Binet–Cauchy: `(u·a)(v·b) − (v·a)(u·b) = (u×v)·(a×b)` -/
theorem binet_cauchy (u v a b : V) :
    V3.dot u a * V3.dot v b - V3.dot v a * V3.dot u b = V3.dot (V3.cross u v) (V3.cross a b) := by
  simp only [V3.dot_def, V3.cross]; ring

/-- a proper rotation commutes with the cross product: `(R a) × (R b) = R (a × b)` -/
theorem cross_mulVec {R : Mat} (h : Orthonormal R) (hd : det3 R = 1) (a b : V) :
    V3.cross (R.mulVec a) (R.mulVec b) = R.mulVec (V3.cross a b) := by
  have e0 := rot_r1_cross_r2 h hd
  have e1 := rot_r2_cross_r0 h hd
  have e2 := rot_r0_cross_r1 h hd
  apply V3.ext'
  · show V3.dot R.r1 a * V3.dot R.r2 b - V3.dot R.r2 a * V3.dot R.r1 b = V3.dot R.r0 (V3.cross a b)
    rw [binet_cauchy, e0]
  · show V3.dot R.r2 a * V3.dot R.r0 b - V3.dot R.r0 a * V3.dot R.r2 b = V3.dot R.r1 (V3.cross a b)
    rw [binet_cauchy, e1]
  · show V3.dot R.r0 a * V3.dot R.r1 b - V3.dot R.r1 a * V3.dot R.r0 b = V3.dot R.r2 (V3.cross a b)
    rw [binet_cauchy, e2]

theorem apply_sub_apply (P : Pose ℝ) (a b : V) : P.apply a - P.apply b = P.R.mulVec (a - b) := by
  rw [mulVec_sub]
  apply V3.ext' <;> simp [Pose.apply]

end HydroForce
end D3
