/-
Intermediate lemmas towards identifying the index / midpoint-cache subdivision `icoTopology` with
the position-triangle subdivision `geoIco` (the "glue" of C17 `icosphere_defined`):

* the midpoint pass `icoMidpoints` only appends rows (earlier rows are stable), splits over an
  appended parent list, and row `|vs| + i` is the midpoint of the rows of the `i`-th parent pair;
* cache invariant `CacheOK`: every cache entry `(key, idx)` has `key = cantorKey a b` for the parent
  pair `(a, b)` recorded for vertex `idx`; preserved by `addMidPoint` (hit and miss), and the index
  returned by `addMidPoint a b` always has parent pair `(a, b)` or `(b, a)`;
* consequently in any successful midpoint pass over a parent list extending the state's, the row
  returned for edge `(a, b)` is `0.5 * (row a + row b)`.

The lift through `subdivideTriangle`, the fold and `Nat.repeat` is not done here.
-/
import D3.Proofs.TetraMeshIcosphere

namespace D3
namespace TetraMesh

/-! ### the midpoint pass only appends -/

theorem icoMidpoints_prefix : ∀ (ps : List (Nat × Nat)) (vs ws : List (V3 ℝ)),
    icoMidpoints vs ps = .ok ws → ∃ tl, ws = vs ++ tl ∧ tl.length = ps.length
  | [], vs, ws, h => by
    simp only [icoMidpoints] at h
    cases h
    exact ⟨[], by simp, rfl⟩
  | (a, b) :: r, vs, ws, h => by
    unfold icoMidpoints at h
    cases ha : getV vs a with
    | error e => rw [ha] at h; cases h
    | ok pa =>
      cases hb : getV vs b with
      | error e => rw [ha, hb] at h; cases h
      | ok pb =>
        rw [ha, hb] at h
        obtain ⟨tl, e, hl⟩ := icoMidpoints_prefix r _ ws h
        exact ⟨(0.5 : ℝ) * (pa + pb) :: tl, by rw [e]; simp, by simp [hl]⟩

/-- rows written earlier are not changed by later appends -/
theorem icoMidpoints_stable (ps : List (Nat × Nat)) (vs ws : List (V3 ℝ))
    (h : icoMidpoints vs ps = .ok ws) (i : Nat) (p : V3 ℝ) (hi : vs[i]? = some p) :
    ws[i]? = some p := by
  obtain ⟨tl, e, _⟩ := icoMidpoints_prefix ps vs ws h
  have hlt : i < vs.length := by
    by_contra hc
    rw [List.getElem?_eq_none (by omega)] at hi
    cases hi
  rw [e, List.getElem?_append_left hlt]
  exact hi

theorem icoMidpoints_cons (vs : List (V3 ℝ)) (a b : Nat) (r : List (Nat × Nat)) :
    icoMidpoints vs ((a, b) :: r) =
      (getV vs a >>= fun pa => getV vs b >>= fun pb =>
        icoMidpoints (vs ++ [(0.5 : ℝ) * (pa + pb)]) r) := rfl

/-- the pass over an extended parent list is the pass over the first part followed by the pass over
the extension -/
theorem icoMidpoints_append : ∀ (ps qs : List (Nat × Nat)) (vs : List (V3 ℝ)),
    icoMidpoints vs (ps ++ qs) =
      match icoMidpoints vs ps with
      | .error e => .error e
      | .ok ws => icoMidpoints ws qs
  | [], qs, vs => by simp [icoMidpoints]
  | (a, b) :: r, qs, vs => by
    rw [List.cons_append, icoMidpoints_cons, icoMidpoints_cons]
    cases ha : getV vs a with
    | error e => rfl
    | ok pa =>
      cases hb : getV vs b with
      | error e => rfl
      | ok pb => exact icoMidpoints_append r qs _

/-- **row characterisation**: in a successful pass, the row created for the `i`-th parent pair
`(a, b)` is `0.5 * (row a + row b)` of the *final* array -/
theorem icoMidpoints_row : ∀ (ps : List (Nat × Nat)) (vs ws : List (V3 ℝ)),
    icoMidpoints vs ps = .ok ws → ∀ (i a b : Nat), ps[i]? = some (a, b) →
      ∃ pa pb, ws[a]? = some pa ∧ ws[b]? = some pb ∧ ws[vs.length + i]? = some (geoMid pa pb)
  | [], _, _, _, i, a, b, hi => by simp at hi
  | (a', b') :: r, vs, ws, h, i, a, b, hi => by
    have h0 := h
    unfold icoMidpoints at h
    cases ha : getV vs a' with
    | error e => rw [ha] at h; cases h
    | ok pa =>
      cases hb : getV vs b' with
      | error e => rw [ha, hb] at h; cases h
      | ok pb =>
        rw [ha, hb] at h
        cases i with
        | zero =>
          simp only [List.getElem?_cons_zero, Option.some.injEq, Prod.mk.injEq] at hi
          obtain ⟨rfl, rfl⟩ := hi
          refine ⟨pa, pb, icoMidpoints_stable _ _ _ h0 _ _ (getV_ok ha),
            icoMidpoints_stable _ _ _ h0 _ _ (getV_ok hb), ?_⟩
          apply icoMidpoints_stable _ _ _ h
          rw [Nat.add_zero, List.getElem?_append_right (le_refl _)]
          simp [geoMid]
        | succ j =>
          rw [List.getElem?_cons_succ] at hi
          obtain ⟨qa, qb, e1, e2, e3⟩ := icoMidpoints_row r _ ws h j a b hi
          refine ⟨qa, qb, e1, e2, ?_⟩
          rw [← e3]
          congr 1
          simp only [List.length_append, List.length_cons, List.length_nil]
          omega

/-! ### cache invariant -/

/-- every cache entry `(key, idx)` is the key of the parent pair recorded for vertex `idx` -/
def CacheOK (st : IcoState) : Prop :=
  ∀ kv ∈ st.cache, 12 ≤ kv.2 ∧ ∃ a b, kv.1 = cantorKey a b ∧ st.parents[kv.2 - 12]? = some (a, b)

theorem lookup_mem (k : Nat) : ∀ (l : List (Nat × Nat)) (i : Nat), l.lookup k = some i →
    (k, i) ∈ l
  | [], i, h => by simp at h
  | (k', v) :: l, i, h => by
    rw [List.lookup_cons] at h
    split at h
    · rename_i hk
      cases h
      have : k = k' := by simpa using hk
      subst this
      simp
    · exact List.mem_cons_of_mem _ (lookup_mem k l i h)

/-- **`add_mid_point` and the cache**: the cache invariant is preserved (hit and miss), the parent
list only grows at the end, and the returned vertex index has parent pair `(a, b)` or `(b, a)` -/
theorem addMidPoint_cacheOK (a b : Nat) (st : IcoState) (h : StOK st) (hc : CacheOK st) :
    CacheOK (addMidPoint a b st).2 ∧
      (∃ ext, (addMidPoint a b st).2.parents = st.parents ++ ext) ∧
      12 ≤ (addMidPoint a b st).1 ∧
      ((addMidPoint a b st).2.parents[(addMidPoint a b st).1 - 12]? = some (a, b) ∨
        (addMidPoint a b st).2.parents[(addMidPoint a b st).1 - 12]? = some (b, a)) := by
  simp only [addMidPoint]
  cases hl : st.cache.lookup (cantorKey a b) with
  | some i =>
    have hm := lookup_mem _ _ _ hl
    obtain ⟨h12, a', b', hk, hp⟩ := hc _ hm
    simp only at h12 hk hp
    refine ⟨?_, ⟨[], by simp⟩, h12, ?_⟩
    · intro kv hkv
      exact hc kv (List.mem_filter.mp hkv).1
    · simp only
      rcases cantorKey_inj a b a' b' hk with ⟨rfl, rfl⟩ | ⟨rfl, rfl⟩
      · exact Or.inl hp
      · exact Or.inr hp
  | none =>
    have hv := h.veq
    refine ⟨?_, ⟨[(a, b)], rfl⟩, by simp only; omega, Or.inl ?_⟩
    · intro kv hkv
      simp only [List.mem_cons] at hkv
      rcases hkv with rfl | hkv
      · refine ⟨by simp only; omega, a, b, rfl, ?_⟩
        simp only
        have e : st.v - 12 = st.parents.length := by omega
        rw [e, List.getElem?_append_right (le_refl _)]
        simp
      · obtain ⟨h12, a', b', hk, hp⟩ := hc kv hkv
        refine ⟨h12, a', b', hk, ?_⟩
        simp only
        have hlt : kv.2 - 12 < st.parents.length := by
          by_contra hcn
          rw [List.getElem?_eq_none (by omega)] at hp
          cases hp
        rw [List.getElem?_append_left hlt]
        exact hp
    · simp only
      have e : st.v - 12 = st.parents.length := by omega
      rw [e, List.getElem?_append_right (le_refl _)]
      simp

theorem geoMid_comm (p q : V3 ℝ) : geoMid p q = geoMid q p := by
  unfold geoMid
  have e : p + q = q + p := by
    cases p; cases q
    show V3.add _ _ = V3.add _ _
    simp only [V3.add]
    congr 1 <;> ring
  rw [e]

/-- **the row of a requested edge is its midpoint**: for any successful midpoint pass over a
parent list that extends the parents of the state after `add_mid_point(a, b)`, the row at the
returned index is `0.5 * (row a + row b)` -/
theorem addMidPoint_row (a b : Nat) (st : IcoState) (h : StOK st) (hc : CacheOK st)
    (ext : List (Nat × Nat)) (ws : List (V3 ℝ))
    (hm : icoMidpoints (icoVertices0 : List (V3 ℝ)) ((addMidPoint a b st).2.parents ++ ext) = .ok ws) :
    ∃ pa pb, ws[a]? = some pa ∧ ws[b]? = some pb ∧
      ws[(addMidPoint a b st).1]? = some (geoMid pa pb) := by
  obtain ⟨_, _, h12, hp⟩ := addMidPoint_cacheOK a b st h hc
  have h12len : (icoVertices0 : List (V3 ℝ)).length = 12 := rfl
  have key : ∀ x y, (addMidPoint a b st).2.parents[(addMidPoint a b st).1 - 12]? = some (x, y) →
      ∃ px py, ws[x]? = some px ∧ ws[y]? = some py ∧
        ws[(addMidPoint a b st).1]? = some (geoMid px py) := by
    intro x y hxy
    have hlt : (addMidPoint a b st).1 - 12 < (addMidPoint a b st).2.parents.length := by
      by_contra hcn
      rw [List.getElem?_eq_none (by omega)] at hxy
      cases hxy
    have hxy' : ((addMidPoint a b st).2.parents ++ ext)[(addMidPoint a b st).1 - 12]? = some (x, y) := by
      rw [List.getElem?_append_left hlt]; exact hxy
    obtain ⟨px, py, e1, e2, e3⟩ := icoMidpoints_row _ _ ws hm _ x y hxy'
    refine ⟨px, py, e1, e2, ?_⟩
    rw [← e3, h12len]
    congr 1
    omega
  rcases hp with hp | hp
  · exact key a b hp
  · obtain ⟨pb, pa, e1, e2, e3⟩ := key b a hp
    exact ⟨pa, pb, e2, e1, by rw [e3, geoMid_comm]⟩

/-! ### lifting through `subdivideTriangle`, the fold and `Nat.repeat` -/

/-- the position triangle of an index triangle, rows looked up in the array `ws` -/
def posTri (ws : List (V3 ℝ)) (t : Nat × Nat × Nat) : GeoTri :=
  (ws.getD t.1 V3.zero, ws.getD t.2.1 V3.zero, ws.getD t.2.2 V3.zero)

theorem getD_of_getElem? {ws : List (V3 ℝ)} {i : Nat} {p : V3 ℝ} (h : ws[i]? = some p) :
    ws.getD i V3.zero = p := by
  rw [List.getD_eq_getElem?_getD, h]; rfl

/-- bookkeeping and cache invariant together -/
def Inv (st : IcoState) : Prop := StOK st ∧ CacheOK st

/-- what a later midpoint pass sees at the index returned for edge `(a, b)` -/
def RowIsMid (st : IcoState) (i a b : Nat) : Prop :=
  ∀ (ext : List (Nat × Nat)) (ws : List (V3 ℝ)),
    icoMidpoints (icoVertices0 : List (V3 ℝ)) (st.parents ++ ext) = .ok ws →
      ws.getD i V3.zero = geoMid (ws.getD a V3.zero) (ws.getD b V3.zero)

theorem RowIsMid.mono {st st' : IcoState} {i a b : Nat} (h : RowIsMid st i a b)
    (e : ∃ e, st'.parents = st.parents ++ e) : RowIsMid st' i a b := by
  obtain ⟨e, he⟩ := e
  intro ext ws hm
  rw [he, List.append_assoc] at hm
  exact h _ ws hm

theorem addMidPoint_glue (a b : Nat) (st : IcoState) (h : Inv st) (ha : a < st.v) (hb : b < st.v) :
    Inv (addMidPoint a b st).2 ∧ st.v ≤ (addMidPoint a b st).2.v ∧
      (addMidPoint a b st).1 < (addMidPoint a b st).2.v ∧
      (∃ e, (addMidPoint a b st).2.parents = st.parents ++ e) ∧
      RowIsMid (addMidPoint a b st).2 (addMidPoint a b st).1 a b := by
  obtain ⟨k, hi, hle⟩ := addMidPoint_ok a b st h.1 ha hb
  obtain ⟨c, e, _, _⟩ := addMidPoint_cacheOK a b st h.1 h.2
  refine ⟨⟨k, c⟩, hle, hi, e, ?_⟩
  intro ext ws hm
  obtain ⟨pa, pb, e1, e2, e3⟩ := addMidPoint_row a b st h.1 h.2 ext ws hm
  rw [getD_of_getElem? e1, getD_of_getElem? e2, getD_of_getElem? e3]

theorem subdivideTriangle_glue (tris : List (Nat × Nat × Nat)) (st : IcoState) (t : Nat × Nat × Nat)
    (h : Inv st) (ht : TriLt st.v t) (hs : ∀ s ∈ tris, TriLt st.v s) :
    Inv (subdivideTriangle (tris, st) t).2 ∧ st.v ≤ (subdivideTriangle (tris, st) t).2.v ∧
      (∀ s ∈ (subdivideTriangle (tris, st) t).1, TriLt (subdivideTriangle (tris, st) t).2.v s) ∧
      (∃ e, (subdivideTriangle (tris, st) t).2.parents = st.parents ++ e) ∧
      ∀ (ext : List (Nat × Nat)) (ws : List (V3 ℝ)),
        icoMidpoints (icoVertices0 : List (V3 ℝ))
            ((subdivideTriangle (tris, st) t).2.parents ++ ext) = .ok ws →
          (subdivideTriangle (tris, st) t).1.map (posTri ws) =
            tris.map (posTri ws) ++ geoSubdivide (posTri ws t) := by
  obtain ⟨_, hle, htl⟩ := subdivideTriangle_ok tris st t h.1 ht hs
  obtain ⟨v1, v2, v3⟩ := t
  obtain ⟨h1, h2, h3⟩ := ht
  simp only at h1 h2 h3
  obtain ⟨ka, la, _, ea, ra⟩ := addMidPoint_glue v1 v2 st h h1 h2
  obtain ⟨kb, lb, _, eb, rb⟩ := addMidPoint_glue v2 v3 (addMidPoint v1 v2 st).2 ka (by omega) (by omega)
  obtain ⟨kc, lc, _, ec, rc⟩ := addMidPoint_glue v3 v1 (addMidPoint v2 v3 (addMidPoint v1 v2 st).2).2 kb
    (by omega) (by omega)
  have ebc : ∃ e, (addMidPoint v3 v1 (addMidPoint v2 v3 (addMidPoint v1 v2 st).2).2).2.parents =
      (addMidPoint v1 v2 st).2.parents ++ e := by
    obtain ⟨e2, he2⟩ := eb
    obtain ⟨e3, he3⟩ := ec
    exact ⟨e2 ++ e3, by rw [he3, he2, List.append_assoc]⟩
  have eall : ∃ e, (addMidPoint v3 v1 (addMidPoint v2 v3 (addMidPoint v1 v2 st).2).2).2.parents =
      st.parents ++ e := by
    obtain ⟨e1, he1⟩ := ea
    obtain ⟨e2, he2⟩ := ebc
    exact ⟨e1 ++ e2, by rw [he2, he1, List.append_assoc]⟩
  have ra' := ra.mono ebc
  have rb' := rb.mono ec
  refine ⟨kc, hle, htl, eall, ?_⟩
  intro ext ws hm
  have qa := ra' ext ws hm
  have qb := rb' ext ws hm
  have qc := rc ext ws hm
  simp only [subdivideTriangle, List.map_append, List.map_cons, List.map_nil, posTri, geoSubdivide,
    qa, qb, qc]

theorem subdivideFold_glue : ∀ (l tris : List (Nat × Nat × Nat)) (st : IcoState), Inv st →
    (∀ t ∈ l, TriLt st.v t) → (∀ s ∈ tris, TriLt st.v s) →
    Inv (l.foldl subdivideTriangle (tris, st)).2 ∧
      (∀ s ∈ (l.foldl subdivideTriangle (tris, st)).1,
        TriLt (l.foldl subdivideTriangle (tris, st)).2.v s) ∧
      (∃ e, (l.foldl subdivideTriangle (tris, st)).2.parents = st.parents ++ e) ∧
      ∀ (ext : List (Nat × Nat)) (ws : List (V3 ℝ)),
        icoMidpoints (icoVertices0 : List (V3 ℝ))
            ((l.foldl subdivideTriangle (tris, st)).2.parents ++ ext) = .ok ws →
          (l.foldl subdivideTriangle (tris, st)).1.map (posTri ws) =
            tris.map (posTri ws) ++ (l.map (posTri ws)).flatMap geoSubdivide
  | [], tris, st, h, _, hs => ⟨h, hs, ⟨[], by simp⟩, fun _ _ _ => by simp⟩
  | t :: l, tris, st, h, hl, hs => by
    obtain ⟨k, le, hs', e1, g1⟩ := subdivideTriangle_glue tris st t h (hl t (by simp)) hs
    rw [List.foldl_cons]
    generalize subdivideTriangle (tris, st) t = r at k le hs' e1 g1 ⊢
    obtain ⟨tris', st'⟩ := r
    obtain ⟨k2, hs2, e2, g2⟩ := subdivideFold_glue l tris' st' k
      (fun t' ht' => TriLt.mono le (hl t' (by simp [ht']))) hs'
    obtain ⟨x1, hx1⟩ := e1
    obtain ⟨x2, hx2⟩ := e2
    simp only at hx1
    refine ⟨k2, hs2, ⟨x1 ++ x2, by rw [hx2, hx1, List.append_assoc]⟩, ?_⟩
    intro ext ws hm
    have hm' : icoMidpoints (icoVertices0 : List (V3 ℝ)) (st'.parents ++ (x2 ++ ext)) = .ok ws := by
      rw [← List.append_assoc, ← hx2]; exact hm
    rw [g2 ext ws hm, g1 (x2 ++ ext) ws hm']
    simp [List.flatMap_cons, List.append_assoc]

theorem icoTopology_succ (order : Nat) : icoTopology (order + 1) =
    (icoTopology order).1.foldl subdivideTriangle ([], (icoTopology order).2) := rfl

/-- **glue, all orders**: the cache invariant holds, and in every successful midpoint pass over the
created parents (possibly followed by more), the position triangles of the index triangles of
`icoTopology order` are exactly the triangles of `geoIco order`, in order -/
theorem icoTopology_glue : ∀ order, Inv (icoTopology order).2 ∧
    ∀ (ext : List (Nat × Nat)) (ws : List (V3 ℝ)),
      icoMidpoints (icoVertices0 : List (V3 ℝ)) ((icoTopology order).2.parents ++ ext) = .ok ws →
        (icoTopology order).1.map (posTri ws) = geoIco order
  | 0 => by
    have e : icoTopology 0 = (icoTriangles0, ⟨[], 12, []⟩) := rfl
    rw [e]
    refine ⟨⟨(icoTopology_ok 0).1, fun kv hkv => by cases hkv⟩, ?_⟩
    intro ext ws hm
    obtain ⟨tl, hw, _⟩ := icoMidpoints_prefix _ _ ws hm
    have hlt : ∀ t ∈ icoTriangles0, TriLt 12 t := by decide
    rw [show geoIco 0 = geoIco0 from rfl]
    unfold geoIco0
    show icoTriangles0.map (posTri ws) = _
    apply List.map_congr_left
    intro t ht
    obtain ⟨a1, a2, a3⟩ := hlt t ht
    have h12 : (icoVertices0 : List (V3 ℝ)).length = 12 := rfl
    simp only [posTri, hw]
    have gd : ∀ i, i < 12 → (icoVertices0 ++ tl : List (V3 ℝ)).getD i V3.zero =
        (icoVertices0 : List (V3 ℝ)).getD i V3.zero := by
      intro i hi
      rw [List.getD_eq_getElem?_getD, List.getD_eq_getElem?_getD,
        List.getElem?_append_left (by omega)]
    rw [gd _ a1, gd _ a2, gd _ a3]
  | order + 1 => by
    obtain ⟨hi, hg⟩ := icoTopology_glue order
    obtain ⟨_, ht⟩ := icoTopology_ok order
    obtain ⟨k, _, ⟨x, hx⟩, g⟩ := subdivideFold_glue (icoTopology order).1 [] (icoTopology order).2 hi ht
      (fun s hs => (by cases hs))
    rw [icoTopology_succ]
    refine ⟨k, ?_⟩
    intro ext ws hm
    rw [g ext ws hm]
    have hm' : icoMidpoints (icoVertices0 : List (V3 ℝ))
        ((icoTopology order).2.parents ++ (x ++ ext)) = .ok ws := by
      rw [← List.append_assoc, ← hx]; exact hm
    rw [hg (x ++ ext) ws hm']
    rfl

/-! ### every vertex index is a corner of a triangle of the current level -/

/-- `i` is a corner of the index triangle `t` -/
def InTri (i : Nat) (t : Nat × Nat × Nat) : Prop := i = t.1 ∨ i = t.2.1 ∨ i = t.2.2

instance (i : Nat) (t : Nat × Nat × Nat) : Decidable (InTri i t) := by unfold InTri; infer_instance

theorem addMidPoint_v (a b : Nat) (st : IcoState) :
    (addMidPoint a b st).2.v = st.v ∨
      ((addMidPoint a b st).1 = st.v ∧ (addMidPoint a b st).2.v = st.v + 1) := by
  simp only [addMidPoint]
  cases hl : st.cache.lookup (cantorKey a b) with
  | some i => exact Or.inl rfl
  | none => exact Or.inr ⟨rfl, rfl⟩

theorem subdivideTriangle_cover (tris : List (Nat × Nat × Nat)) (st : IcoState)
    (t : Nat × Nat × Nat) :
    (∀ s ∈ tris, s ∈ (subdivideTriangle (tris, st) t).1) ∧
      ∀ i, i < (subdivideTriangle (tris, st) t).2.v → (InTri i t ∨ st.v ≤ i) →
        ∃ s ∈ (subdivideTriangle (tris, st) t).1, InTri i s := by
  obtain ⟨v1, v2, v3⟩ := t
  have d1 := addMidPoint_v v1 v2 st
  have d2 := addMidPoint_v v2 v3 (addMidPoint v1 v2 st).2
  have d3 := addMidPoint_v v3 v1 (addMidPoint v2 v3 (addMidPoint v1 v2 st).2).2
  simp only [subdivideTriangle]
  generalize addMidPoint v1 v2 st = r1 at *
  generalize addMidPoint v2 v3 r1.2 = r2 at *
  generalize addMidPoint v3 v1 r2.2 = r3 at *
  refine ⟨fun s hs => by simp [hs], ?_⟩
  intro i hi hc
  simp only [InTri] at hc
  have hcase : i = v1 ∨ i = v2 ∨ i = v3 ∨ i = r1.1 ∨ i = r2.1 ∨ i = r3.1 := by omega
  rcases hcase with h | h | h | h | h | h
  · exact ⟨(v1, r1.1, r3.1), by simp, Or.inl h⟩
  · exact ⟨(v2, r2.1, r1.1), by simp, Or.inl h⟩
  · exact ⟨(v3, r3.1, r2.1), by simp, Or.inl h⟩
  · exact ⟨(r1.1, r2.1, r3.1), by simp, Or.inl h⟩
  · exact ⟨(r1.1, r2.1, r3.1), by simp, Or.inr (Or.inl h)⟩
  · exact ⟨(r1.1, r2.1, r3.1), by simp, Or.inr (Or.inr h)⟩

theorem subdivideFold_cover : ∀ (l tris : List (Nat × Nat × Nat)) (st : IcoState),
    (∀ i, i < st.v → (∃ s ∈ tris, InTri i s) ∨ (∃ t ∈ l, InTri i t)) →
    ∀ i, i < (l.foldl subdivideTriangle (tris, st)).2.v →
      ∃ s ∈ (l.foldl subdivideTriangle (tris, st)).1, InTri i s
  | [], tris, st, h => by
    intro i hi
    rcases h i hi with h | ⟨t, ht, _⟩
    · exact h
    · cases ht
  | t :: l, tris, st, h => by
    obtain ⟨sub, cov⟩ := subdivideTriangle_cover tris st t
    rw [List.foldl_cons]
    generalize subdivideTriangle (tris, st) t = r at sub cov ⊢
    obtain ⟨tris', st'⟩ := r
    apply subdivideFold_cover l tris' st'
    intro i hi
    by_cases hlt : i < st.v
    · rcases h i hlt with ⟨s, hs, his⟩ | ⟨t', ht', hit'⟩
      · exact Or.inl ⟨s, sub s hs, his⟩
      · rcases List.mem_cons.mp ht' with rfl | hl
        · exact Or.inl (cov i hi (Or.inl hit'))
        · exact Or.inr ⟨t', hl, hit'⟩
    · exact Or.inl (cov i hi (Or.inr (by omega)))

/-- every created vertex index is a corner of a triangle of the final level, all orders -/
theorem icoTopology_cover : ∀ order, ∀ i, i < (icoTopology order).2.v →
    ∃ s ∈ (icoTopology order).1, InTri i s
  | 0 => by
    have e : icoTopology 0 = (icoTriangles0, ⟨[], 12, []⟩) := rfl
    rw [e]
    show ∀ i, i < 12 → ∃ s ∈ icoTriangles0, InTri i s
    decide
  | order + 1 => by
    rw [icoTopology_succ]
    apply subdivideFold_cover
    intro i hi
    exact Or.inr (icoTopology_cover order i hi)

theorem normSq_pos_of_dot_pos (a b : V3 ℝ) (h : 0 < V3.dot a b) : 0 < V3.normSq a := by
  have e : V3.normSq a = V3.dot a a := rfl
  rw [e]
  rcases lt_or_eq_of_le (dot_self_nonneg' a) with hp | hz
  · exact hp
  · exfalso
    simp only [V3.dot_def] at h hz
    have hx : a.x * a.x = 0 := by nlinarith [mul_self_nonneg a.x, mul_self_nonneg a.y, mul_self_nonneg a.z]
    have hy : a.y * a.y = 0 := by nlinarith [mul_self_nonneg a.x, mul_self_nonneg a.y, mul_self_nonneg a.z]
    have hz' : a.z * a.z = 0 := by nlinarith [mul_self_nonneg a.x, mul_self_nonneg a.y, mul_self_nonneg a.z]
    rw [mul_self_eq_zero.mp hx, mul_self_eq_zero.mp hy, mul_self_eq_zero.mp hz'] at h
    simp at h

/-- **all rows of the midpoint pass are non-zero, all orders** -/
theorem icoRows_nonzero (order : Nat) (ws : List (V3 ℝ))
    (hm : icoMidpoints (icoVertices0 : List (V3 ℝ)) (icoTopology order).2.parents = .ok ws) :
    ∀ p ∈ ws, 0 < V3.normSq p := by
  intro p hp
  obtain ⟨ws', hm', hlen⟩ := icoMidpoints_defined_all_orders order
  rw [hm] at hm'
  cases hm'
  obtain ⟨i, hi, rfl⟩ := List.getElem_of_mem hp
  obtain ⟨t, ht, hit⟩ := icoTopology_cover order i (by omega)
  have hg := (icoTopology_glue order).2 [] ws (by rw [List.append_nil]; exact hm)
  have hmem : posTri ws t ∈ geoIco order := by
    rw [← hg]; exact List.mem_map_of_mem ht
  obtain ⟨d1, d2, d3⟩ := geoIco_posDots order _ hmem
  have hrow : ws[i] = ws.getD i V3.zero := by
    rw [List.getD_eq_getElem?_getD, List.getElem?_eq_getElem hi]; rfl
  rw [hrow]
  simp only [posTri] at d1 d2 d3
  rcases hit with h | h | h
  · rw [h]; exact normSq_pos_of_dot_pos _ _ d1
  · rw [h]; exact normSq_pos_of_dot_pos _ _ d2
  · rw [h]; exact normSq_pos_of_dot_pos _ _ d3

/-- vertex count produced by the midpoint cache at order 3, by kernel evaluation (this is an
evaluation of one order, not the all-orders count) -/
theorem icosphere_count_3 :
    (icoTopology 3).2.v = icoVertexCount 3 ∧ (icoTopology 3).2.cache = [] := by
  decide +kernel

end TetraMesh
end D3
