/-
Lemmas for the MPR portal-refinement loops (C19).
-/
import D3.Spec.Vec
import D3.Model.TerminationMpr
import Mathlib.Tactic.Linarith
import Mathlib.Tactic.Ring
import Mathlib.Tactic.NormNum
import Mathlib.Order.Lattice

set_option linter.unusedSectionVars false

namespace D3
namespace Term

/-- what a continuing pass of `_refine_portal` has established -/
theorem refineStep_unknown (eps tol : ℝ) (o : PortalObs ℝ) (h : refineStep eps tol o = .unknown) :
    o.d1 ≤ -(10.0 * eps) ∧ -(10.0 * eps) < o.d4 ∧
      tol + eps ≤ o.d4 - o.d1 ∧ tol + eps ≤ o.d4 - o.d2 ∧ tol + eps ≤ o.d4 - o.d3 := by
  unfold refineStep at h
  split_ifs at h with h1 h2
  push_neg at h2
  obtain ⟨h4, hmin⟩ := h2
  have ha := le_min_iff.mp hmin
  have hb := le_min_iff.mp ha.1
  exact ⟨not_lt.mp h1, h4, hb.1, hb.2, ha.2⟩

/-- the capped loop: at most `maxIter + 2` bodies when started with `iterations ≤ maxIter + 1` -/
theorem penInfoRun_count_le (eps tol : ℝ) (maxIter : Nat) :
    ∀ (l : List (PortalObs ℝ)) (it : Nat), it ≤ maxIter + 1 →
      (penInfoRun eps tol maxIter l it).2 ≤ maxIter + 2 := by
  intro l
  induction l with
  | nil => intro it h; simp only [penInfoRun]; omega
  | cons o os ih =>
    intro it h
    simp only [penInfoRun]
    split_ifs with hc
    · simp only; omega
    · push_neg at hc
      exact ih (it + 1) (by omega)

/-- **the monotone quantity of portal refinement.** `n` = current portal direction, `h` = offset
of the current portal plane (`a·n = b·n = h` for the two portal vertices that are kept), the
origin ray `t ↦ t·v0` crosses the current plane at `s·v0` and the new portal triangle
`(a, b, v4)` at `s'·v0 = l1·a + l2·b + l3·v4` (barycentric weights ≥ 0, sum 1).  If the new
support point is beyond the current plane by at least `gap` then the crossing parameter moves
towards (and past) the origin by at least `l3·gap` in units of `v0·n`. -/
theorem portal_crossing_progress (n v0 a b v4 : V) (h s s' l1 l2 l3 gap : ℝ)
    (ha : V3.dot a n = h) (hb : V3.dot b n = h) (h4 : h + gap ≤ V3.dot v4 n)
    (hs : V3.dot (s * v0) n = h)
    (hs' : s' * v0 = l1 * a + l2 * b + l3 * v4)
    (hsum : l1 + l2 + l3 = 1) (hl3 : 0 ≤ l3) :
    l3 * gap ≤ (s' - s) * V3.dot v0 n := by
  have hx : s' * v0.x = l1 * a.x + l2 * b.x + l3 * v4.x := by
    have := congrArg V3.x hs'; simpa using this
  have hy : s' * v0.y = l1 * a.y + l2 * b.y + l3 * v4.y := by
    have := congrArg V3.y hs'; simpa using this
  have hz : s' * v0.z = l1 * a.z + l2 * b.z + l3 * v4.z := by
    have := congrArg V3.z hs'; simpa using this
  simp only [V3.dot_def, V3.smul_x, V3.smul_y, V3.smul_z] at ha hb h4 hs ⊢
  have key : (s' - s) * (v0.x * n.x + v0.y * n.y + v0.z * n.z) =
      l3 * ((v4.x * n.x + v4.y * n.y + v4.z * n.z) - h) := by
    have e : s' * (v0.x * n.x + v0.y * n.y + v0.z * n.z) =
        l1 * h + l2 * h + l3 * (v4.x * n.x + v4.y * n.y + v4.z * n.z) := by
      linear_combination n.x * hx + n.y * hy + n.z * hz + l1 * ha + l2 * hb
    have e1 : l1 = 1 - l2 - l3 := by linarith
    rw [e1] at e
    linear_combination e - hs
  rw [key]
  exact mul_le_mul_of_nonneg_left (by linarith) hl3

/-- one continuing pass moves the crossing parameter by at least `c / D` -/
theorem refine_progress_step (c D d0 sk sk1 : ℝ) (hc : 0 < c) (hd0 : d0 < 0) (hD : -D ≤ d0)
    (hp : c ≤ (sk1 - sk) * d0) : c ≤ (sk - sk1) * D := by
  have hlt : sk1 < sk := by
    by_contra hge
    push_neg at hge
    have : (sk1 - sk) * d0 ≤ 0 := mul_nonpos_of_nonneg_of_nonpos (by linarith) hd0.le
    linarith
  have : (sk - sk1) * (-d0) ≤ (sk - sk1) * D :=
    mul_le_mul_of_nonneg_left (by linarith) (by linarith)
  nlinarith

/-- conditional iteration bound of `_refine_portal` (see `C19.refine_portal_terminates_conditional`) -/
theorem refine_iterations_bound (eps tol lam D : ℝ) (heps : 0 ≤ eps) (htol : 0 < tol + eps)
    (hlam : 0 < lam) (obs : ℕ → PortalObs ℝ) (s d0 : ℕ → ℝ) (N : ℕ)
    (hcont : ∀ k, k < N → refineStep eps tol (obs k) = .unknown)
    (hd0 : ∀ k, k < N → d0 k < 0 ∧ -D ≤ d0 k)
    (hplane : ∀ k, k < N → s k * d0 k = (obs k).d1)
    (hprog : ∀ k, k < N → lam * ((obs k).d4 - (obs k).d1) ≤ (s (k + 1) - s k) * d0 k) :
    ∀ k, k < N → (k : ℝ) * (lam * (tol + eps)) ≤ s 0 * D := by
  have hc : 0 < lam * (tol + eps) := mul_pos hlam htol
  have hstep : ∀ k, k < N → lam * (tol + eps) ≤ (s k - s (k + 1)) * D := by
    intro k hk
    obtain ⟨_, _, hgap, _, _⟩ := refineStep_unknown eps tol (obs k) (hcont k hk)
    have h1 : lam * (tol + eps) ≤ lam * ((obs k).d4 - (obs k).d1) :=
      mul_le_mul_of_nonneg_left hgap hlam.le
    exact refine_progress_step _ D (d0 k) (s k) (s (k + 1)) hc (hd0 k hk).1 (hd0 k hk).2
      (le_trans h1 (hprog k hk))
  have hsum : ∀ k, k < N → (k : ℝ) * (lam * (tol + eps)) ≤ (s 0 - s k) * D := by
    intro k
    induction k with
    | zero => intro _; simp
    | succ k ih =>
      intro hk
      have h1 := ih (by omega)
      have h2 := hstep k (by omega)
      push_cast
      linarith
  intro k hk
  have hsk : 0 ≤ s k * D := by
    obtain ⟨hd1, _⟩ := refineStep_unknown eps tol (obs k) (hcont k hk)
    have hneg : (obs k).d1 ≤ 0 := by
      have : (0:ℝ) ≤ 10.0 * eps := mul_nonneg (by norm_num) heps
      linarith
    have hd := hd0 k hk
    have hs0 : 0 ≤ s k := by
      by_contra hlt
      push_neg at hlt
      have : 0 < s k * d0 k := mul_pos_of_neg_of_neg hlt hd.1
      have := hplane k hk
      linarith
    exact mul_nonneg hs0 (by linarith)
  have := hsum k hk
  linarith

end Term
end D3
