/-
Broad-phase facts of the BVH model at ℝ: soundness of the run-time `linkCheck`, and the
three query methods on a linked state, from C05's `query_exact` / `query_tree_exact`.
-/
import D3.Properties.C05
import D3.Proofs.BvhDetect

set_option linter.unusedSectionVars false
set_option linter.unusedVariables false

namespace D3
namespace Bvh
open Aabb

/-- What a successful `linkCheck` establishes between `colliders_`, the tree and its
`external_data_list`: distinct frames; every leaf carries a `(frame, collider)` whose own
AABB is the leaf box and is the current AABB of that frame; every collider sits behind a
leaf; distinct leaves carry distinct frames. -/
structure Linked (s : State ℝ) (t : T ℝ) : Prop where
  keysNodup : (dKeys s.colliders).Nodup
  leaf : ∀ i b, (i, b) ∈ t.leaves → ∃ f c c', s.resolve i = .ok (f, c) ∧ c.box = b ∧
    (f, c') ∈ s.colliders ∧ c'.box = b
  col : ∀ f c, (f, c) ∈ s.colliders → ∃ i c', (i, c.box) ∈ t.leaves ∧ s.resolve i = .ok (f, c')
  inj : ∀ i j bi bj f ci cj, (i, bi) ∈ t.leaves → (j, bj) ∈ t.leaves →
    s.resolve i = .ok (f, ci) → s.resolve j = .ok (f, cj) → i = j

theorem leafData_eq (s : State ℝ) (t : T ℝ) : leafData s t = mapE (leafFn s) t.leaves := rfl

theorem leafFn_ok (s : State ℝ) (p : Int × Box ℝ) (y : Frame × Box ℝ) (h : leafFn s p = .ok y) :
    ∃ c, s.resolve p.1 = .ok (y.1, c) ∧ c.box = p.2 ∧ y.2 = p.2 := by
  unfold leafFn at h
  cases hr : s.resolve p.1 with
  | error e => simp [hr] at h
  | ok fc =>
    obtain ⟨f, c⟩ := fc
    simp only [hr] at h
    by_cases hb : c.box = p.2
    · simp only [hb, if_true, Except.ok.injEq] at h
      subst h
      exact ⟨c, rfl, hb, rfl⟩
    · simp [hb] at h

theorem mem_current (s : State ℝ) (f : Frame) (b : Box ℝ) :
    (f, b) ∈ s.current ↔ ∃ c, (f, c) ∈ s.colliders ∧ c.box = b := by
  unfold State.current
  simp only [List.mem_map, Prod.mk.injEq]
  constructor
  · rintro ⟨p, hp, rfl, rfl⟩
    exact ⟨p.2, hp, rfl⟩
  · rintro ⟨c, hc, rfl⟩
    exact ⟨(f, c), hc, rfl, rfl⟩

theorem dKeys_current (s : State ℝ) : dKeys s.current = dKeys s.colliders := by
  unfold State.current dKeys
  simp [List.map_map, Function.comp_def]

/-- **soundness of the run-time link check** -/
theorem linkCheck_sound (s : State ℝ) (t : T ℝ) (h : linkCheck s = some (some t)) :
    wfCheck s.tree.core = some (some t) ∧ Linked s t := by
  unfold linkCheck at h
  split at h
  · cases h
  · split at h <;> cases h
  · rename_i t' hwf
    split at h
    · cases h
    · rename_i L hL
      split at h
      · rename_i hc
        simp only [Option.some.injEq] at h
        subst h
        simp only [Bool.and_eq_true, decide_eq_true_eq] at hc
        obtain ⟨hperm, hnd⟩ := hc
        have hperm : L.Perm s.current := List.isPerm_iff.mp hperm
        rw [leafData_eq] at hL
        obtain ⟨hall, hLeq⟩ := mapE_ok_inv (leafFn s) (0, zeroBox) t'.leaves L hL
        -- value of the mapped function on a leaf
        have hval : ∀ p ∈ t'.leaves, leafFn s p = .ok (okD (0, zeroBox) (leafFn s p)) := by
          intro p hp
          obtain ⟨y, hy⟩ := hall p hp
          rw [hy]; rfl
        have hLkeys : (dKeys L).Nodup := by
          have : (dKeys L).Perm (dKeys s.current) := List.Perm.map _ hperm
          exact this.nodup_iff.mpr hnd
        refine ⟨hwf, ⟨?_, ?_, ?_, ?_⟩⟩
        · rw [← dKeys_current]; exact hnd
        · intro i b hib
          obtain ⟨c, hr, hb, hy2⟩ := leafFn_ok s (i, b) _ (hval (i, b) hib)
          have hmemL : okD (0, zeroBox) (leafFn s (i, b)) ∈ L := by
            rw [hLeq]; exact List.mem_map_of_mem hib
          have hcur := hperm.mem_iff.mp hmemL
          set y := okD (0, zeroBox) (leafFn s (i, b)) with hy
          have : (y.1, b) ∈ s.current := by
            have e : y = (y.1, b) := by
              ext
              · rfl
              · exact hy2
            rw [← e]; exact hcur
          obtain ⟨c', hc', hb'⟩ := (mem_current s y.1 b).mp this
          exact ⟨y.1, c, c', hr, hb, hc', hb'⟩
        · intro f c hfc
          have hcur : (f, c.box) ∈ s.current := (mem_current s f c.box).mpr ⟨c, hfc, rfl⟩
          have hmemL := hperm.mem_iff.mpr hcur
          rw [hLeq, List.mem_map] at hmemL
          obtain ⟨p, hp, hpe⟩ := hmemL
          obtain ⟨c', hr, hb, hy2⟩ := leafFn_ok s p _ (hval p hp)
          rw [hpe] at hr hy2
          simp only at hr hy2
          refine ⟨p.1, c', ?_, hr⟩
          have : p = (p.1, c.box) := by
            ext
            · rfl
            · exact hy2.symm
          rw [← this]; exact hp
        · intro i j bi bj f ci cj hi hj hri hrj
          -- both leaves are mapped to an entry with key `f`; keys of `L` are distinct
          have hfi : (okD (0, zeroBox) (leafFn s (i, bi))).1 = f := by
            obtain ⟨c, hr, _, _⟩ := leafFn_ok s (i, bi) _ (hval (i, bi) hi)
            rw [hri] at hr
            simp only [Except.ok.injEq, Prod.mk.injEq] at hr
            exact hr.1.symm
          have hfj : (okD (0, zeroBox) (leafFn s (j, bj))).1 = f := by
            obtain ⟨c, hr, _, _⟩ := leafFn_ok s (j, bj) _ (hval (j, bj) hj)
            rw [hrj] at hr
            simp only [Except.ok.injEq, Prod.mk.injEq] at hr
            exact hr.1.symm
          have hmapnd : (t'.leaves.map fun p => (okD ((0 : Frame), (zeroBox : Box ℝ)) (leafFn s p)).1).Nodup := by
            have : dKeys L = t'.leaves.map fun p => (okD ((0 : Frame), (zeroBox : Box ℝ)) (leafFn s p)).1 := by
              rw [hLeq]; simp [dKeys, List.map_map, Function.comp_def]
            rw [← this]; exact hLkeys
          have := List.inj_on_of_nodup_map hmapnd hi hj (by rw [hfi, hfj])
          exact congrArg Prod.fst this
      · cases h

theorem resolve_extAt (s : State ℝ) (i : Int) (x : Frame × Collider ℝ) (h : s.resolve i = .ok x) :
    s.extAt i = .ok (some x) := by
  unfold State.resolve at h
  cases he : s.extAt i with
  | error e => simp [he] at h
  | ok o =>
    cases o with
    | none => simp [he] at h
    | some y =>
      simp only [he, Except.ok.injEq] at h
      rw [h]

/-- default payload used to name `resolve`'s value -/
noncomputable def dflt : Frame × Collider ℝ := (0, ⟨default, fun _ => default⟩)

/-- frame / collider stored behind leaf `i` -/
noncomputable def payloadOf (s : State ℝ) (i : Int) : Frame × Collider ℝ := okD dflt (s.resolve i)

theorem resolve_leaf (s : State ℝ) (t : T ℝ) (hl : Linked s t) (i : Int) (b : Box ℝ)
    (h : (i, b) ∈ t.leaves) : s.resolve i = .ok (payloadOf s i) := by
  obtain ⟨f, c, c', hr, _, _, _⟩ := hl.leaf i b h
  unfold payloadOf
  rw [hr]; rfl

/-- the leaf behind which frame `f` sits overlaps `q` iff `f`'s current AABB does -/
theorem leaf_frame_iff (s : State ℝ) (t : T ℝ) (hl : Linked s t) (f : Frame) (P : Box ℝ → Prop) :
    (∃ i b, (i, b) ∈ t.leaves ∧ P b ∧ (payloadOf s i).1 = f) ↔
      ∃ c, (f, c) ∈ s.colliders ∧ P c.box := by
  constructor
  · rintro ⟨i, b, hib, hP, hf⟩
    obtain ⟨f', c, c', hr, hb, hc', hb'⟩ := hl.leaf i b hib
    have : (payloadOf s i) = (f', c) := by unfold payloadOf; rw [hr]; rfl
    rw [this] at hf
    simp only at hf
    subst hf
    exact ⟨c', hc', hb' ▸ hP⟩
  · rintro ⟨c, hc, hP⟩
    obtain ⟨i, c', hi, hr⟩ := hl.col f c hc
    refine ⟨i, c.box, hi, hP, ?_⟩
    unfold payloadOf
    rw [hr]; rfl

/-- **`aabb_overlapping_colliders` on a linked state**: no error; the result is a dict
(distinct keys) whose key set is exactly the frames whose current AABB passes the
closed-interval test against the query AABB, minus the whitelist; each returned collider has
the current AABB of its frame. -/
theorem overlapping_colliders_linked (s : State ℝ) (t : T ℝ)
    (hwf : wfCheck s.tree.core = some (some t)) (hl : Linked s t) (qc : Collider ℝ)
    (whitelist : List Frame) :
    ∃ res, aabbOverlappingColliders s qc whitelist = .ok res ∧ (dKeys res).Nodup ∧
      (∀ f, f ∈ dKeys res ↔
        (∃ c, (f, c) ∈ s.colliders ∧ overlap c.box qc.box = true) ∧ f ∉ whitelist) ∧
      (∀ f c, (f, c) ∈ res → ∃ c', (f, c') ∈ s.colliders ∧ c'.box = c.box) := by
  obtain ⟨ov, hq, hnd, hmem⟩ := C05.query_exact s.tree.core t hwf qc.box
  have hres : ∀ i ∈ ov, ∃ y, s.resolve i = .ok y := by
    intro i hi
    obtain ⟨b, hb, _⟩ := (hmem i).mp hi
    exact ⟨_, resolve_leaf s t hl i b hb⟩
  have hmap := mapE_okD s.resolve dflt ov hres
  refine ⟨whitelist.foldl dPop (dOfList (ov.map fun x => okD dflt (s.resolve x))),
    by simp only [aabbOverlappingColliders, hq, hmap], ?_, ?_, ?_⟩
  · exact nodup_fold_dPop _ _ (nodup_dKeys_dOfList _)
  · intro f
    rw [mem_dKeys_fold_dPop, mem_dKeys_dOfList]
    have : f ∈ (ov.map fun x => okD dflt (s.resolve x)).map (·.1) ↔
        ∃ i b, (i, b) ∈ t.leaves ∧ overlap b qc.box = true ∧ (payloadOf s i).1 = f := by
      simp only [List.mem_map]
      constructor
      · rintro ⟨p, ⟨i, hi, rfl⟩, rfl⟩
        obtain ⟨b, hb, ho⟩ := (hmem i).mp hi
        exact ⟨i, b, hb, ho, rfl⟩
      · rintro ⟨i, b, hb, ho, hf⟩
        exact ⟨payloadOf s i, ⟨i, (hmem i).mpr ⟨b, hb, ho⟩, rfl⟩, hf⟩
    rw [this, leaf_frame_iff s t hl f (fun b => overlap b qc.box = true)]
  · intro f c hfc
    have h1 := ((mem_fold_dPop whitelist _ (f, c)).mp hfc).1
    have h2 := mem_dOfList _ _ h1
    rw [List.mem_map] at h2
    obtain ⟨i, hi, hie⟩ := h2
    obtain ⟨b, hb, _⟩ := (hmem i).mp hi
    obtain ⟨f', c1, c', hr, hb1, hc', hb'⟩ := hl.leaf i b hb
    rw [hr] at hie
    simp only [okD, Prod.mk.injEq] at hie
    obtain ⟨rfl, rfl⟩ := hie
    exact ⟨c', hc', by rw [hb', hb1]⟩

/-- pairs of payloads behind a list of leaf-index pairs -/
theorem mapE_pairs (s o : State ℝ) (t1 t2 : T ℝ) (h1 : Linked s t1) (h2 : Linked o t2)
    (pairs : List (Int × Int))
    (hp : ∀ p ∈ pairs, (∃ b, (p.1, b) ∈ t1.leaves) ∧ ∃ b, (p.2, b) ∈ t2.leaves) :
    mapE (pairData s o) pairs
      = .ok (pairs.map fun p => (some (payloadOf s p.1), some (payloadOf o p.2))) := by
  induction pairs with
  | nil => rfl
  | cons p r ih =>
    obtain ⟨⟨b1, hb1⟩, ⟨b2, hb2⟩⟩ := hp p List.mem_cons_self
    have e1 := resolve_extAt s p.1 _ (resolve_leaf s t1 h1 p.1 b1 hb1)
    have e2 := resolve_extAt o p.2 _ (resolve_leaf o t2 h2 p.2 b2 hb2)
    have := ih (fun q hq => hp q (List.mem_cons_of_mem _ hq))
    simp only [mapE, pairData, e1, e2, this, List.map_cons]

/-- frame pair of a leaf-index pair is injective on leaves -/
theorem framePair_inj (s o : State ℝ) (t1 t2 : T ℝ) (h1 : Linked s t1) (h2 : Linked o t2)
    (p q : Int × Int) (hp : (∃ b, (p.1, b) ∈ t1.leaves) ∧ ∃ b, (p.2, b) ∈ t2.leaves)
    (hq : (∃ b, (q.1, b) ∈ t1.leaves) ∧ ∃ b, (q.2, b) ∈ t2.leaves)
    (he : ((payloadOf s p.1).1, (payloadOf o p.2).1) = ((payloadOf s q.1).1, (payloadOf o q.2).1)) :
    p = q := by
  obtain ⟨⟨bp1, hp1⟩, ⟨bp2, hp2⟩⟩ := hp
  obtain ⟨⟨bq1, hq1⟩, ⟨bq2, hq2⟩⟩ := hq
  simp only [Prod.mk.injEq] at he
  have r1 := resolve_leaf s t1 h1 p.1 bp1 hp1
  have r2 := resolve_leaf s t1 h1 q.1 bq1 hq1
  have r3 := resolve_leaf o t2 h2 p.2 bp2 hp2
  have r4 := resolve_leaf o t2 h2 q.2 bq2 hq2
  have e1 : p.1 = q.1 := by
    apply h1.inj p.1 q.1 bp1 bq1 (payloadOf s p.1).1 (payloadOf s p.1).2 (payloadOf s q.1).2 hp1 hq1
    · exact r1
    · rw [r2, he.1]
  have e2 : p.2 = q.2 := by
    apply h2.inj p.2 q.2 bp2 bq2 (payloadOf o p.2).1 (payloadOf o p.2).2 (payloadOf o q.2).2 hp2 hq2
    · exact r3
    · rw [r4, he.2]
  exact Prod.ext e1 e2

/-- **`aabb_overlapping_with_other_bvh` on linked states.** -/
theorem other_bvh_linked (s o : State ℝ) (t1 t2 : T ℝ)
    (hwf1 : wfCheck s.tree.core = some (some t1)) (h1 : Linked s t1)
    (hwf2 : wfCheck o.tree.core = some (some t2)) (h2 : Linked o t2) :
    ∃ res : List ((Frame × Collider ℝ) × (Frame × Collider ℝ)),
      aabbOverlappingWithOtherBvh s o = .ok (res.map fun p => (some p.1, some p.2)) ∧
      (res.map fun p => (p.1.1, p.2.1)).Nodup ∧
      (∀ f g, (f, g) ∈ (res.map fun p => (p.1.1, p.2.1)) ↔
        ∃ c d, (f, c) ∈ s.colliders ∧ (g, d) ∈ o.colliders ∧ overlap c.box d.box = true) ∧
      (∀ p ∈ res, ∃ c d, (p.1.1, c) ∈ s.colliders ∧ (p.2.1, d) ∈ o.colliders ∧
        c.box = p.1.2.box ∧ d.box = p.2.2.box) := by
  obtain ⟨pairs, hq, hnd, hmem⟩ := C05.query_tree_exact s.tree.core o.tree.core t1 t2 hwf1 hwf2
  have hleaf : ∀ p ∈ pairs, (∃ b, (p.1, b) ∈ t1.leaves) ∧ ∃ b, (p.2, b) ∈ t2.leaves := by
    intro p hp
    obtain ⟨bi, bj, hi, hj, _⟩ := (hmem p.1 p.2).mp hp
    exact ⟨⟨bi, hi⟩, ⟨bj, hj⟩⟩
  refine ⟨pairs.map fun p => (payloadOf s p.1, payloadOf o p.2), ?_, ?_, ?_, ?_⟩
  · simp only [aabbOverlappingWithOtherBvh, hq]
    rw [mapE_pairs s o t1 t2 h1 h2 pairs hleaf]
    simp [List.map_map, Function.comp_def]
  · rw [List.map_map]
    apply List.Nodup.map_on _ hnd
    intro p hp q hq' he
    exact framePair_inj s o t1 t2 h1 h2 p q (hleaf p hp) (hleaf q hq') he
  · intro f g
    simp only [List.map_map, List.mem_map, Function.comp_def, Prod.mk.injEq]
    constructor
    · rintro ⟨p, hp, hf, hg⟩
      obtain ⟨bi, bj, hi, hj, ho⟩ := (hmem p.1 p.2).mp hp
      obtain ⟨f1, c1, c1', hr1, hb1, hc1, hb1'⟩ := h1.leaf p.1 bi hi
      obtain ⟨f2, c2, c2', hr2, hb2, hc2, hb2'⟩ := h2.leaf p.2 bj hj
      have e1 : payloadOf s p.1 = (f1, c1) := by unfold payloadOf; rw [hr1]; rfl
      have e2 : payloadOf o p.2 = (f2, c2) := by unfold payloadOf; rw [hr2]; rfl
      rw [e1] at hf; rw [e2] at hg
      simp only at hf hg
      subst hf; subst hg
      exact ⟨c1', c2', hc1, hc2, by rw [hb1', hb2']; exact ho⟩
    · rintro ⟨c, d, hc, hd, ho⟩
      obtain ⟨i, c', hi, hri⟩ := h1.col f c hc
      obtain ⟨j, d', hj, hrj⟩ := h2.col g d hd
      refine ⟨(i, j), (hmem i j).mpr ⟨c.box, d.box, hi, hj, ho⟩, ?_, ?_⟩
      · unfold payloadOf; rw [hri]; rfl
      · unfold payloadOf; rw [hrj]; rfl
  · intro p hp
    rw [List.mem_map] at hp
    obtain ⟨q, hq', rfl⟩ := hp
    obtain ⟨bi, bj, hi, hj, ho⟩ := (hmem q.1 q.2).mp hq'
    obtain ⟨f1, c1, c1', hr1, hb1, hc1, hb1'⟩ := h1.leaf q.1 bi hi
    obtain ⟨f2, c2, c2', hr2, hb2, hc2, hb2'⟩ := h2.leaf q.2 bj hj
    have e1 : payloadOf s q.1 = (f1, c1) := by unfold payloadOf; rw [hr1]; rfl
    have e2 : payloadOf o q.2 = (f2, c2) := by unfold payloadOf; rw [hr2]; rfl
    simp only [e1, e2]
    exact ⟨c1', c2', hc1, hc2, by rw [hb1', hb1], by rw [hb2', hb2]⟩

/-- **`aabb_overlapping_with_self` on a linked state.** -/
theorem self_linked (s : State ℝ) (t : T ℝ)
    (hwf : wfCheck s.tree.core = some (some t)) (hl : Linked s t) :
    ∃ res : List ((Frame × Collider ℝ) × (Frame × Collider ℝ)),
      aabbOverlappingWithSelf s = .ok (res.map fun p => (some p.1, some p.2)) ∧
      (res.map fun p => (p.1.1, p.2.1)).Nodup ∧
      (∀ f g, (f, g) ∈ (res.map fun p => (p.1.1, p.2.1)) ↔
        f ≠ g ∧ ∃ c d, (f, c) ∈ s.colliders ∧ (g, d) ∈ s.colliders ∧ overlap c.box d.box = true) ∧
      (∀ p ∈ res, ∃ c d, (p.1.1, c) ∈ s.colliders ∧ (p.2.1, d) ∈ s.colliders ∧
        c.box = p.1.2.box ∧ d.box = p.2.2.box) := by
  obtain ⟨pairs, hq, hnd, hmem⟩ := C05.query_tree_exact s.tree.core s.tree.core t t hwf hwf
  set fp := pairs.filter fun p => !(p.1 == p.2) with hfp
  have hsub : ∀ p ∈ fp, p ∈ pairs := fun p hp => (List.mem_filter.mp hp).1
  have hleaf : ∀ p ∈ fp, (∃ b, (p.1, b) ∈ t.leaves) ∧ ∃ b, (p.2, b) ∈ t.leaves := by
    intro p hp
    obtain ⟨bi, bj, hi, hj, _⟩ := (hmem p.1 p.2).mp (hsub p hp)
    exact ⟨⟨bi, hi⟩, ⟨bj, hj⟩⟩
  have hne : ∀ p, p ∈ fp ↔ p ∈ pairs ∧ p.1 ≠ p.2 := by
    intro p
    rw [hfp, List.mem_filter]
    simp
  refine ⟨fp.map fun p => (payloadOf s p.1, payloadOf s p.2), ?_, ?_, ?_, ?_⟩
  · simp only [aabbOverlappingWithSelf, hq]
    rw [← hfp, mapE_pairs s s t t hl hl fp hleaf]
    simp [List.map_map, Function.comp_def]
  · rw [List.map_map]
    apply List.Nodup.map_on _ (List.Nodup.sublist List.filter_sublist hnd)
    intro p hp q hq' he
    exact framePair_inj s s t t hl hl p q (hleaf p hp) (hleaf q hq') he
  · intro f g
    simp only [List.map_map, List.mem_map, Function.comp_def, Prod.mk.injEq]
    constructor
    · rintro ⟨p, hp, hf, hg⟩
      obtain ⟨hpp, hpne⟩ := (hne p).mp hp
      obtain ⟨bi, bj, hi, hj, ho⟩ := (hmem p.1 p.2).mp hpp
      obtain ⟨f1, c1, c1', hr1, hb1, hc1, hb1'⟩ := hl.leaf p.1 bi hi
      obtain ⟨f2, c2, c2', hr2, hb2, hc2, hb2'⟩ := hl.leaf p.2 bj hj
      have e1 : payloadOf s p.1 = (f1, c1) := by unfold payloadOf; rw [hr1]; rfl
      have e2 : payloadOf s p.2 = (f2, c2) := by unfold payloadOf; rw [hr2]; rfl
      rw [e1] at hf; rw [e2] at hg
      simp only at hf hg
      subst hf; subst hg
      refine ⟨?_, c1', c2', hc1, hc2, by rw [hb1', hb2']; exact ho⟩
      intro hfg
      subst hfg
      exact hpne (hl.inj p.1 p.2 bi bj f1 c1 c2 hi hj hr1 hr2)
    · rintro ⟨hfg, c, d, hc, hd, ho⟩
      obtain ⟨i, c', hi, hri⟩ := hl.col f c hc
      obtain ⟨j, d', hj, hrj⟩ := hl.col g d hd
      have hij : i ≠ j := by
        intro h
        subst h
        rw [hri] at hrj
        simp only [Except.ok.injEq, Prod.mk.injEq] at hrj
        exact hfg hrj.1
      refine ⟨(i, j), (hne (i, j)).mpr ⟨(hmem i j).mpr ⟨c.box, d.box, hi, hj, ho⟩, hij⟩, ?_, ?_⟩
      · unfold payloadOf; rw [hri]; rfl
      · unfold payloadOf; rw [hrj]; rfl
  · intro p hp
    rw [List.mem_map] at hp
    obtain ⟨q, hq', rfl⟩ := hp
    obtain ⟨bi, bj, hi, hj, ho⟩ := (hmem q.1 q.2).mp (hsub q hq')
    obtain ⟨f1, c1, c1', hr1, hb1, hc1, hb1'⟩ := hl.leaf q.1 bi hi
    obtain ⟨f2, c2, c2', hr2, hb2, hc2, hb2'⟩ := hl.leaf q.2 bj hj
    have e1 : payloadOf s q.1 = (f1, c1) := by unfold payloadOf; rw [hr1]; rfl
    have e2 : payloadOf s q.2 = (f2, c2) := by unfold payloadOf; rw [hr2]; rfl
    simp only [e1, e2]
    exact ⟨c1', c2', hc1, hc2, by rw [hb1', hb1], by rw [hb2', hb2]⟩

/-! ### the broad phase as the candidate function of `detect` -/

/-- `g` is a candidate of `f`: both are collider frames, `g`'s current AABB overlaps `f`'s,
and `g` is not in `f`'s whitelist -/
def Cand (s : State ℝ) (wl : Whitelists) (f g : Frame) : Prop :=
  ∃ w cf cg, wl f = some w ∧ (f, cf) ∈ s.colliders ∧ (g, cg) ∈ s.colliders ∧
    overlap cg.box cf.box = true ∧ g ∉ w

theorem mem_unique (s : State ℝ) (hn : (dKeys s.colliders).Nodup) (f : Frame) (c c' : Collider ℝ)
    (h : (f, c) ∈ s.colliders) (h' : (f, c') ∈ s.colliders) : c = c' := by
  have := List.inj_on_of_nodup_map (f := fun p : Frame × Collider ℝ => p.1) hn h h' rfl
  exact congrArg Prod.snd this

theorem candSpec (s : State ℝ) (t : T ℝ) (hwf : wfCheck s.tree.core = some (some t))
    (hl : Linked s t) (wl : Whitelists) (hwl : ∀ f ∈ dKeys s.colliders, ∃ w, wl f = some w) :
    CandSpec (candidates s wl) (Cand s wl) s.colliders := by
  intro p hp
  obtain ⟨w, hw⟩ := hwl p.1 (mem_dKeys_of_mem _ p hp)
  obtain ⟨res, hres, _, hmem, _⟩ := overlapping_colliders_linked s t hwf hl p.2 w
  refine ⟨res, by simp only [candidates, hw, hres], ?_⟩
  intro g
  rw [hmem g]
  constructor
  · rintro ⟨⟨cg, hcg, ho⟩, hgw⟩
    exact ⟨w, p.2, cg, hw, hp, hcg, ho, hgw⟩
  · rintro ⟨w', cf, cg, hw', hcf, hcg, ho, hgw⟩
    rw [hw] at hw'
    simp only [Option.some.injEq] at hw'
    subst hw'
    have : cf = p.2 := mem_unique s hl.keysNodup p.1 cf p.2 hcf hp
    subst this
    exact ⟨⟨cg, hcg, ho⟩, hgw⟩

end Bvh
end D3
