/-
C02 — the iteration-cap exit of `_discover_portal` (discover branch 6) of the boolean MPR test.

When the `while portal.n_points < 4` loop is left by `it >= max_iterations` right after a pass in which
`_iterate_discover_portal` replaced a vertex (`v[2] = v[3]` or `v[1] = v[3]`), the portal that is declared
"built" has a repeated vertex.  `_portal_direction` of such a portal is `norm_vector(0) = 0`, the first test of
`_refine_portal` is `v1·0 = 0 > -10·EPSILON`, so `mpr_intersection` answers True at once — whatever the
colliders are.
-/
import D3.Proofs.IntersectMpr

namespace D3
namespace IsectMpr
open Isect

/-- the portal triangle has a repeated vertex: `v3` equals `v2` or `v1` -/
def Dup (P : Portal ℝ) : Prop := P.v2 = P.v3 ∨ P.v1 = P.v3

theorem normVector_zero : normVector (⟨0, 0, 0⟩ : V) = ⟨0, 0, 0⟩ := by
  rcases normVector_unit_or_zero (⟨0, 0, 0⟩ : V) with h | ⟨_, h⟩
  · exfalso
    obtain ⟨c, _, hc⟩ := normVector_smul (⟨0, 0, 0⟩ : V)
    rw [hc] at h
    simp [V3.normSq_def] at h
  · exact h

/-- `_portal_direction` of a portal with a repeated vertex is the zero vector -/
theorem portalDirection_dup {P : Portal ℝ} (h : Dup P) : portalDirection P = ⟨0, 0, 0⟩ := by
  unfold portalDirection
  have : V3.cross (P.v2 - P.v1) (P.v3 - P.v1) = (⟨0, 0, 0⟩ : V) := by
    rcases h with h | h
    · rw [h]; apply V3.ext' <;> simp [V3.cross] <;> ring
    · rw [h]; apply V3.ext' <;> simp [V3.cross]
  rw [this, normVector_zero]

/-- `_refine_portal` answers True in its first pass on a portal with a repeated vertex -/
theorem refineStep_dup (sup : V → V) (tol : ℝ) {P : Portal ℝ} (h : Dup P) :
    refineStep sup tol P = (some (true, 0), P) := by
  unfold refineStep
  simp only
  have henc : encapsulatesOrigin P.v1 (portalDirection P) = true := by
    rw [encapsulatesOrigin_iff, portalDirection_dup h]
    have := ten_eps_pos
    simp only [V3.dot_def]
    linarith
  rw [if_pos henc]

theorem refinePortal_dup (sup : V → V) (tol : ℝ) (fuel it : Nat) {P : Portal ℝ} (h : Dup P) :
    refinePortal sup tol (fuel + 1) it P = .ok (true, it, 0) := by
  unfold refinePortal
  rw [refineStep_dup sup tol h]

/-- a pass of `_iterate_discover_portal` that does not complete the portal leaves a repeated vertex -/
theorem iterate_dup (P : Portal ℝ) (dir : V) (h : (iterateDiscoverPortal P dir 3).2.2.1 ≠ 4) :
    Dup (iterateDiscoverPortal P dir 3).1 := by
  unfold iterateDiscoverPortal at h ⊢
  split
  · exact Or.inl rfl
  · split
    · exact Or.inr rfl
    · rename_i h1 h2
      rw [if_neg h1, if_neg h2] at h
      exact absurd rfl h

/-- the discover loop: branch 6 is a "built" portal with a repeated vertex -/
theorem discoverLoop_cap (sup : V → V) :
    ∀ (k it : Nat) (P : Portal ℝ) (dir : V), (discoverLoop sup k it P dir).br = 6 →
      (discoverLoop sup k it P dir).state = .portalWasBuilt ∧ Dup (discoverLoop sup k it P dir).P
  | 0, it, P, dir, h => by
    unfold discoverLoop at h ⊢
    simp only at h ⊢
    split
    · rename_i hlt
      rw [if_pos hlt] at h
      simp at h
    · rename_i hlt
      rw [if_neg hlt] at h
      refine ⟨rfl, iterate_dup _ _ ?_⟩
      intro h4
      simp only [h4, if_true] at h
      omega
  | k + 1, it, P, dir, h => by
    unfold discoverLoop at h ⊢
    simp only at h ⊢
    split
    · rename_i hlt
      rw [if_pos hlt] at h
      simp at h
    · rename_i hlt
      rw [if_neg hlt] at h
      split
      · rename_i hlt4
        rw [if_pos hlt4] at h
        exact discoverLoop_cap sup k _ _ _ h
      · rename_i hlt4
        rw [if_neg hlt4] at h
        simp at h

/-- `_discover_portal`: branch 6 is a "built" portal with a repeated vertex -/
theorem discoverPortal_cap (c1 c2 : V) (sup : V → V) (maxIt : Nat)
    (h : (discoverPortal c1 c2 sup maxIt).br = 6) :
    (discoverPortal c1 c2 sup maxIt).state = .portalWasBuilt ∧ Dup (discoverPortal c1 c2 sup maxIt).P := by
  unfold discoverPortal at h ⊢
  simp only at h ⊢
  split
  · rename_i h0
    rw [if_pos h0] at h
    simp at h
  · rename_i h0
    rw [if_neg h0] at h
    split
    · rename_i h1
      rw [if_pos h1] at h
      split at h <;> simp at h
    · rename_i h1
      rw [if_neg h1] at h
      split
      · rename_i h2
        rw [if_pos h2] at h
        simp at h
      · rename_i h2
        rw [if_neg h2] at h
        exact discoverLoop_cap sup _ _ _ _ h

/-- **the iteration-cap exit answers True by fiat** -/
theorem mprIntersection_cap (c1 c2 : V) (sA sB : V → V) (tol : ℝ) (maxIt fuel : Nat)
    (h : (discoverPortal c1 c2 (supMD sA sB) maxIt).br = 6) :
    mprIntersection c1 c2 sA sB tol maxIt (fuel + 1) = .ok (true, 6, 0) := by
  obtain ⟨hst, hdup⟩ := discoverPortal_cap c1 c2 (supMD sA sB) maxIt h
  unfold mprIntersection
  simp only
  rw [hst]
  simp only
  rw [refinePortal_dup _ _ _ _ hdup, h]

/-- `norm_vector` of a vector of length `r > 0` -/
theorem normVector_of_sq (v : V) (r : ℝ) (hr : 0 < r) (h : V3.normSq v = r * r) :
    normVector v = ⟨v.x / r, v.y / r, v.z / r⟩ := by
  have hn : V3.norm v = r := by rw [V3.norm_def, h]; exact Real.sqrt_mul_self hr.le
  unfold normVector
  simp only
  rw [hn, if_neg (by rw [isZero_iff]; exact hr.ne'), sdiv_def]

end IsectMpr
end D3
