/-
EPA on a degenerate simplex, as the code behaves: a zero-area initial face gets the zero
"normal" (`norm_vector` returns the zero vector unchanged), distance 0, search direction 0,
and the convergence test `⟨w,0⟩ − 0 < ε` passes at once.
-/
import D3.Proofs.EpaLoop
import Mathlib.Tactic.NormNum

namespace D3
namespace Epa

theorem normVector_zero : normVector (⟨0, 0, 0⟩ : V) = ⟨0, 0, 0⟩ := by
  unfold normVector; rw [if_pos norm_zero_vec]

/-- a face with zero stored normal that is found closest ends the loop with `mtv = 0`,
`success = true`, whatever the support point is -/
theorem stepWith_zero_normal {p : Params ℝ} {fix : Face ℝ → Face ℝ} {faces : List (Face ℝ)}
    {f : Face ℝ} (w : V) (hn : f.n = ⟨0, 0, 0⟩) (he : 0 < p.eps) :
    stepWith p fix faces 0 f w = .ok (.done ⟨0, 0, 0⟩) := by
  unfold stepWith
  have hc : converged p.eps 0 f.n w = true := by
    simp only [converged, decide_eq_true_eq, hn, V3.dot_def]
    simpa using he
  rw [if_pos hc, hn]
  simp [mtvOf, V3.smul, V3.dot_def]

/-- the simplex gjk hands over for two unit cubes offset by 1/2 along x: two valid rows
`(1/2,0,0)`, `(−3/2,0,0)`, the other two rows zero -/
theorem closest_degenerate :
    closest (initFaces (⟨1 / 2, 0, 0⟩ : V) ⟨-3 / 2, 0, 0⟩ ⟨0, 0, 0⟩ ⟨0, 0, 0⟩) =
      .ok (0, 0, ⟨⟨1 / 2, 0, 0⟩, ⟨-3 / 2, 0, 0⟩, ⟨0, 0, 0⟩, ⟨0, 0, 0⟩⟩) := by
  have c1 : computeNormal (⟨1 / 2, 0, 0⟩ : V) ⟨-3 / 2, 0, 0⟩ ⟨0, 0, 0⟩ = ⟨0, 0, 0⟩ := by
    unfold computeNormal
    have : V3.cross ((⟨-3 / 2, 0, 0⟩ : V) - ⟨1 / 2, 0, 0⟩) ((⟨0, 0, 0⟩ : V) - ⟨1 / 2, 0, 0⟩)
        = ⟨0, 0, 0⟩ := by
      apply V3.ext' <;> simp [V3.cross]
    rw [this, normVector_zero]
  have c2 : computeNormal (⟨1 / 2, 0, 0⟩ : V) ⟨0, 0, 0⟩ ⟨0, 0, 0⟩ = ⟨0, 0, 0⟩ := by
    unfold computeNormal
    have : V3.cross ((⟨0, 0, 0⟩ : V) - ⟨1 / 2, 0, 0⟩) ((⟨0, 0, 0⟩ : V) - ⟨1 / 2, 0, 0⟩)
        = ⟨0, 0, 0⟩ := by
      apply V3.ext' <;> simp [V3.cross]
    rw [this, normVector_zero]
  have c3 : computeNormal (⟨1 / 2, 0, 0⟩ : V) ⟨0, 0, 0⟩ ⟨-3 / 2, 0, 0⟩ = ⟨0, 0, 0⟩ := by
    unfold computeNormal
    have : V3.cross ((⟨0, 0, 0⟩ : V) - ⟨1 / 2, 0, 0⟩) ((⟨-3 / 2, 0, 0⟩ : V) - ⟨1 / 2, 0, 0⟩)
        = ⟨0, 0, 0⟩ := by
      apply V3.ext' <;> simp [V3.cross]
    rw [this, normVector_zero]
  have c4 : computeNormal (⟨-3 / 2, 0, 0⟩ : V) ⟨0, 0, 0⟩ ⟨0, 0, 0⟩ = ⟨0, 0, 0⟩ := by
    unfold computeNormal
    have : V3.cross ((⟨0, 0, 0⟩ : V) - ⟨-3 / 2, 0, 0⟩) ((⟨0, 0, 0⟩ : V) - ⟨-3 / 2, 0, 0⟩)
        = ⟨0, 0, 0⟩ := by
      apply V3.ext' <;> simp [V3.cross]
    rw [this, normVector_zero]
  have ho : ¬ 0 < orient (⟨1 / 2, 0, 0⟩ : V) ⟨-3 / 2, 0, 0⟩ ⟨0, 0, 0⟩ ⟨0, 0, 0⟩ := by
    norm_num [orient, V3.cross, V3.dot_def]
  rw [initFaces_of_not_pos ho]
  simp only [buildFaces, mkFace, c1, c2, c3, c4, closest, List.map, faceDist, V3.dot_def,
    argmin, argminGo]
  simp

end Epa
end D3
