/-
C03 — closed-form support mappings of geometry.py are support points of their shapes (ℝ).

Pattern: every `fooLocalS/N` of the model takes the square root it needs as an argument `s`;
the core lemma is proved for every `s ≥ 0` with `s² = …`, the public lemma instantiates it with
the model's `sqrt` and lifts it through the pose with `IsSupport.poseImage` (valid for every
matrix `R`, orthonormal or not).
-/
import D3.Proofs.SupportSets
import Mathlib.Tactic.SplitIfs

namespace D3
namespace Support

/-! sphere -/
theorem supportSphereN_isSupport (d c : V) (r : ℝ) (hr : 0 ≤ r) (n : ℝ) (hn0 : 0 ≤ n)
    (hnn : n * n = V3.normSq d) :
    IsSupport (ballSet c r) d (supportSphereN d c r n).2 := by
  unfold supportSphereN
  by_cases hz : isZero n
  · rw [if_pos hz]
    have hn : n = 0 := (isZero_iff _).1 hz
    have hd : d = ⟨0, 0, 0⟩ := V3.normSq_eq_zero (by rw [← hnn, hn]; ring)
    apply isSupport_of_dir_zero _ hd
    simp only [ballSet, V3.normSq_def, V3.add_x, V3.add_y, V3.add_z, V3.sub_x, V3.sub_y, V3.sub_z]
    nlinarith
  · rw [if_neg hz]
    have hne : n ≠ 0 := fun h => hz ((isZero_iff _).2 h)
    have hnn' : n * n = d.x * d.x + d.y * d.y + d.z * d.z := by rw [hnn, V3.normSq_def]
    constructor
    · simp only [ballSet, V3.normSq_def, V3.add_x, V3.add_y, V3.add_z, V3.sub_x, V3.sub_y, V3.sub_z]
      have : (c.x + d.x / n * r - c.x) * (c.x + d.x / n * r - c.x) +
          (c.y + d.y / n * r - c.y) * (c.y + d.y / n * r - c.y) +
          (c.z + d.z / n * r - c.z) * (c.z + d.z / n * r - c.z) = r * r := by
        field_simp
        linear_combination (-(r ^ 2)) * hnn'
      linarith
    · intro x hx
      have h := cs3 hn0 hnn hr hx
      simp only [V3.dot_def, V3.sub_x, V3.sub_y, V3.sub_z, V3.add_x, V3.add_y, V3.add_z] at h ⊢
      have e : d.x * (d.x / n * r) + d.y * (d.y / n * r) + d.z * (d.z / n * r) = n * r := by
        field_simp
        linear_combination (-r) * hnn'
      nlinarith

theorem supportSphere_isSupport (d c : V) (r : ℝ) (hr : 0 ≤ r) :
    IsSupport (ballSet c r) d (supportSphere d c r).2 :=
  supportSphereN_isSupport d c r hr (V3.norm d) (V3.norm_nonneg d) (V3.norm_sq d)

/-! box (geometry.support_function_box) -/
theorem signS_real (x : ℝ) : signS x = if x < 0 then -1 else if 0 < x then 1 else 0 := rfl

theorem sign_mul_mem {l h : ℝ} (hh : 0 ≤ h) : -h ≤ signS l * h ∧ signS l * h ≤ h := by
  rw [signS_real]; split_ifs <;> constructor <;> linarith

theorem sign_mul_max {l q h : ℝ} (h1 : -h ≤ q) (h2 : q ≤ h) : l * q ≤ l * (signS l * h) := by
  rw [signS_real]; split_ifs with a b
  · nlinarith
  · nlinarith
  · have : l = 0 := le_antisymm (not_lt.mp b) (not_lt.mp a)
    rw [this]; simp

theorem boxLocal_isSupport (ld half : V) (hx : 0 ≤ half.x) (hy : 0 ≤ half.y) (hz : 0 ≤ half.z) :
    IsSupport (boxLocalSet half) ld (boxLocal ld half).2 := by
  unfold boxLocal
  refine ⟨⟨sign_mul_mem hx, sign_mul_mem hy, sign_mul_mem hz⟩, ?_⟩
  rintro q ⟨⟨a1, a2⟩, ⟨b1, b2⟩, ⟨c1, c2⟩⟩
  simp only [V3.dot_def]
  have := sign_mul_max (l := ld.x) a1 a2
  have := sign_mul_max (l := ld.y) b1 b2
  have := sign_mul_max (l := ld.z) c1 c2
  linarith

/-! cylinder -/
theorem cylinderLocalS_isSupport (ld : V) (r l : ℝ) (hr : 0 ≤ r) (hl : 0 ≤ l) (s : ℝ) (hs0 : 0 ≤ s)
    (hss : s * s = ld.x * ld.x + ld.y * ld.y) :
    IsSupport (cylinderLocalSet r l) ld (cylinderLocalS ld r l s).2 := by
  unfold cylinderLocalS
  simp only [half_real]
  by_cases hz : isZero s
  · rw [if_pos hz]
    have hs : s = 0 := (isZero_iff _).1 hz
    obtain ⟨hx, hy⟩ := sq2_eq_zero (a := ld.x) (b := ld.y) (by rw [← hss, hs]; ring)
    by_cases hneg : ld.z < 0
    · rw [if_pos hneg]
      refine ⟨⟨by nlinarith, by linarith, by linarith⟩, ?_⟩
      rintro q ⟨_, q1, q2⟩
      simp only [V3.dot_def, hx, hy]
      nlinarith
    · rw [if_neg hneg]
      refine ⟨⟨by nlinarith, by linarith, by linarith⟩, ?_⟩
      rintro q ⟨_, q1, q2⟩
      simp only [V3.dot_def, hx, hy]
      nlinarith [not_lt.mp hneg]
  · rw [if_neg hz]
    have hne : s ≠ 0 := fun h => hz ((isZero_iff _).2 h)
    have hmem : ld.x * (r / s) * (ld.x * (r / s)) + ld.y * (r / s) * (ld.y * (r / s)) = r * r := by
      field_simp
      linear_combination (-(r ^ 2)) * hss
    have hval : ld.x * (ld.x * (r / s)) + ld.y * (ld.y * (r / s)) = s * r := by
      field_simp
      linear_combination (-r) * hss
    by_cases hneg : ld.z < 0
    · rw [if_pos hneg]
      refine ⟨⟨le_of_eq hmem, by linarith, by linarith⟩, ?_⟩
      rintro q ⟨q0, q1, q2⟩
      have h := cs2 hs0 hss hr q0
      simp only [V3.dot_def]
      nlinarith
    · rw [if_neg hneg]
      refine ⟨⟨le_of_eq hmem, by linarith, by linarith⟩, ?_⟩
      rintro q ⟨q0, q1, q2⟩
      have h := cs2 hs0 hss hr q0
      simp only [V3.dot_def]
      nlinarith [not_lt.mp hneg]

/-! capsule -/
theorem capsuleLocalS_isSupport (ld : V) (r h : ℝ) (hr : 0 ≤ r) (hh : 0 ≤ h) (s : ℝ) (hs0 : 0 ≤ s)
    (hss : s * s = ld.x * ld.x + ld.y * ld.y + ld.z * ld.z) :
    IsSupport (capsuleLocalSet r h) ld (capsuleLocalS ld r h s).2 := by
  unfold capsuleLocalS
  simp only [half_real]
  by_cases hz : isZero s
  · rw [if_pos hz]
    have hs : s = 0 := (isZero_iff _).1 hz
    obtain ⟨hx, hy, hzz⟩ := sq3_eq_zero (a := ld.x) (b := ld.y) (c := ld.z) (by rw [← hss, hs]; ring)
    have hnp : ¬ (0 < ld.z) := by rw [hzz]; exact lt_irrefl 0
    rw [if_neg hnp]
    refine ⟨⟨-(h / 2), le_refl _, by linarith, ?_⟩, ?_⟩
    · show r * r + 0 * 0 + (0 - 1 / 2 * h - -(h / 2)) * (0 - 1 / 2 * h - -(h / 2)) ≤ r * r
      nlinarith
    · intro q _
      simp only [V3.dot_def, hx, hy, hzz]; linarith
  · rw [if_neg hz]
    have hne : s ≠ 0 := fun h => hz ((isZero_iff _).2 h)
    have hmem : ld.x * (r / s) * (ld.x * (r / s)) + ld.y * (r / s) * (ld.y * (r / s))
        + ld.z * (r / s) * (ld.z * (r / s)) = r * r := by
      field_simp
      linear_combination (-(r ^ 2)) * hss
    have hval : ld.x * (ld.x * (r / s)) + ld.y * (ld.y * (r / s)) + ld.z * (ld.z * (r / s))
        = s * r := by
      field_simp
      linear_combination (-r) * hss
    have hnsq : s * s = V3.normSq ld := by rw [V3.normSq_def]; exact hss
    by_cases hpos : 0 < ld.z
    · rw [if_pos hpos]
      refine ⟨⟨h / 2, by linarith, le_refl _, ?_⟩, ?_⟩
      · show ld.x * (r / s) * (ld.x * (r / s)) + ld.y * (r / s) * (ld.y * (r / s))
          + (ld.z * (r / s) + 1 / 2 * h - h / 2) * (ld.z * (r / s) + 1 / 2 * h - h / 2) ≤ r * r
        have : ld.z * (r / s) + 1 / 2 * h - h / 2 = ld.z * (r / s) := by ring
        rw [this]; exact le_of_eq hmem
      · rintro q ⟨σ, σ1, σ2, hq⟩
        have hc := cs3 (d := ld) (u := ⟨q.x, q.y, q.z - σ⟩) hs0 hnsq hr
          (by rw [V3.normSq_def]; exact hq)
        simp only [V3.dot_def] at hc ⊢
        nlinarith
    · rw [if_neg hpos]
      refine ⟨⟨-(h / 2), le_refl _, by linarith, ?_⟩, ?_⟩
      · show ld.x * (r / s) * (ld.x * (r / s)) + ld.y * (r / s) * (ld.y * (r / s))
          + (ld.z * (r / s) - 1 / 2 * h - -(h / 2)) * (ld.z * (r / s) - 1 / 2 * h - -(h / 2)) ≤ r * r
        have : ld.z * (r / s) - 1 / 2 * h - -(h / 2) = ld.z * (r / s) := by ring
        rw [this]; exact le_of_eq hmem
      · rintro q ⟨σ, σ1, σ2, hq⟩
        have hc := cs3 (d := ld) (u := ⟨q.x, q.y, q.z - σ⟩) hs0 hnsq hr
          (by rw [V3.normSq_def]; exact hq)
        simp only [V3.dot_def] at hc ⊢
        nlinarith [not_lt.mp hpos]

/-! ellipsoid -/
theorem ellipsoidLocalN_isSupport (ld radii : V) (ha : 0 < radii.x) (hb : 0 < radii.y)
    (hc : 0 < radii.z) (n : ℝ) (hn0 : 0 ≤ n)
    (hnn : n * n = V3.normSq ⟨ld.x * radii.x, ld.y * radii.y, ld.z * radii.z⟩) :
    IsSupport (ellipsoidLocalSet radii) ld
      (ellipsoidLocalN ⟨ld.x * radii.x, ld.y * radii.y, ld.z * radii.z⟩ radii n).2 := by
  unfold ellipsoidLocalN normVectorN
  obtain ⟨a, b, c⟩ := radii
  simp only at ha hb hc hnn ⊢
  rw [V3.normSq_def] at hnn
  simp only at hnn
  by_cases hz : isZero n
  · rw [if_pos hz]
    have hn : n = 0 := (isZero_iff _).1 hz
    obtain ⟨h1, h2, h3⟩ := sq3_eq_zero (a := ld.x * a) (b := ld.y * b) (c := ld.z * c)
      (by rw [← hnn, hn]; ring)
    have hx : ld.x = 0 := by rcases mul_eq_zero.mp h1 with h | h; exact h; linarith
    have hy : ld.y = 0 := by rcases mul_eq_zero.mp h2 with h | h; exact h; linarith
    have hzz : ld.z = 0 := by rcases mul_eq_zero.mp h3 with h | h; exact h; linarith
    refine ⟨?_, ?_⟩
    · simp only [ellipsoidLocalSet, hx, hy, hzz]; norm_num
    · intro q _; simp only [V3.dot_def, hx, hy, hzz]; linarith
  · rw [if_neg hz]
    have hne : n ≠ 0 := fun h => hz ((isZero_iff _).2 h)
    simp only [V3.sdiv]
    refine ⟨?_, ?_⟩
    · simp only [ellipsoidLocalSet]
      have : ld.x * a / n * a / a * (ld.x * a / n * a / a) + ld.y * b / n * b / b * (ld.y * b / n * b / b)
          + ld.z * c / n * c / c * (ld.z * c / n * c / c) = 1 := by
        field_simp
        linear_combination (-1 : ℝ) * hnn
      exact le_of_eq this
    · intro q hq
      simp only [ellipsoidLocalSet] at hq
      have hcs := cs3 (d := ⟨ld.x * a, ld.y * b, ld.z * c⟩) (u := ⟨q.x / a, q.y / b, q.z / c⟩)
        hn0 (by rw [V3.normSq_def]; exact hnn) (zero_le_one) (by rw [V3.normSq_def]; simpa using hq)
      simp only [V3.dot_def] at hcs ⊢
      have e1 : ld.x * a * (q.x / a) + ld.y * b * (q.y / b) + ld.z * c * (q.z / c)
          = ld.x * q.x + ld.y * q.y + ld.z * q.z := by field_simp
      have e2 : ld.x * (ld.x * a / n * a) + ld.y * (ld.y * b / n * b) + ld.z * (ld.z * c / n * c) = n := by
        field_simp
        linear_combination (-1 : ℝ) * hnn
      linarith

/-! ellipse -/
theorem supportEllipseN_isSupport (d c a0 a1 : V) (r0 r1 : ℝ) (h0 : 0 < r0) (h1 : 0 < r1)
    (n : ℝ) (hn0 : 0 ≤ n)
    (hnn : n * n = r0 * V3.dot a0 d * (r0 * V3.dot a0 d) + r1 * V3.dot a1 d * (r1 * V3.dot a1 d)) :
    IsSupport (ellipseSet c a0 a1 r0 r1) d (supportEllipseN d c a0 a1 r0 r1 n).2 := by
  unfold supportEllipseN
  dsimp only
  have hl0 : d.x * a0.x + d.y * a0.y + d.z * a0.z = V3.dot a0 d := by rw [V3.dot_def]; ring
  have hl1 : d.x * a1.x + d.y * a1.y + d.z * a1.z = V3.dot a1 d := by rw [V3.dot_def]; ring
  generalize V3.dot a0 d = l0 at *
  generalize V3.dot a1 d = l1 at *
  -- value of d on a point of the ellipse plane
  have hval : ∀ a b : ℝ, V3.dot d (c + (a * a0 + b * a1)) = V3.dot d c + (a * l0 + b * l1) := by
    intro a b
    simp only [V3.dot_def, V3.add_x, V3.add_y, V3.add_z, V3.smul_x, V3.smul_y, V3.smul_z]
    linear_combination a * hl0 + b * hl1
  by_cases hz : isZero n
  · rw [if_pos hz]
    have hn : n = 0 := (isZero_iff _).1 hz
    obtain ⟨e0, e1⟩ := sq2_eq_zero (a := r0 * l0) (b := r1 * l1) (by rw [← hnn, hn]; ring)
    have hl0z : l0 = 0 := by rcases mul_eq_zero.mp e0 with h | h; linarith; exact h
    have hl1z : l1 = 0 := by rcases mul_eq_zero.mp e1 with h | h; linarith; exact h
    refine ⟨⟨r0 * l0 * r0, r1 * l1 * r1, ?_, ?_⟩, ?_⟩
    · rw [hl0z, hl1z]; norm_num
    · apply V3.ext' <;> simp
    · rintro q ⟨a, b, _, rfl⟩
      have e : (c + (⟨r0 * l0 * r0 * a0.x + r1 * l1 * r1 * a1.x, r0 * l0 * r0 * a0.y + r1 * l1 * r1 * a1.y,
          r0 * l0 * r0 * a0.z + r1 * l1 * r1 * a1.z⟩ : V)) = c + ((r0 * l0 * r0) * a0 + (r1 * l1 * r1) * a1) := by
        apply V3.ext' <;> simp
      show V3.dot d _ ≤ V3.dot d (c + (⟨_, _, _⟩ : V))
      rw [e, hval, hval, hl0z, hl1z]; simp
  · rw [if_neg hz]
    have hne : n ≠ 0 := fun h => hz ((isZero_iff _).2 h)
    refine ⟨⟨r0 * l0 / n * r0, r1 * l1 / n * r1, ?_, ?_⟩, ?_⟩
    · have : r0 * l0 / n * r0 / r0 * (r0 * l0 / n * r0 / r0) + r1 * l1 / n * r1 / r1 * (r1 * l1 / n * r1 / r1) = 1 := by
        field_simp
        linear_combination (-1 : ℝ) * hnn
      exact le_of_eq this
    · apply V3.ext' <;> simp
    · rintro q ⟨a, b, hab, rfl⟩
      have e : (c + (⟨r0 * l0 / n * r0 * a0.x + r1 * l1 / n * r1 * a1.x, r0 * l0 / n * r0 * a0.y + r1 * l1 / n * r1 * a1.y,
          r0 * l0 / n * r0 * a0.z + r1 * l1 / n * r1 * a1.z⟩ : V)) = c + ((r0 * l0 / n * r0) * a0 + (r1 * l1 / n * r1) * a1) := by
        apply V3.ext' <;> simp
      show V3.dot d _ ≤ V3.dot d (c + (⟨_, _, _⟩ : V))
      rw [e, hval, hval]
      have hcs := cs2 (a := r0 * l0) (b := r1 * l1) (x := a / r0) (y := b / r1) hn0 hnn zero_le_one
        (by simpa using hab)
      have e1 : r0 * l0 * (a / r0) + r1 * l1 * (b / r1) = a * l0 + b * l1 := by field_simp
      have e2 : r0 * l0 / n * r0 * l0 + r1 * l1 / n * r1 * l1 = n := by
        field_simp
        linear_combination (-1 : ℝ) * hnn
      linarith

/-! cone -/
theorem coneLocalN_isSupport (ld : V) (r h : ℝ) (hr : 0 ≤ r) (hh : 0 < h) (n : ℝ) (hn0 : 0 ≤ n)
    (hnn : n * n = V3.normSq ⟨ld.x, ld.y, 0⟩) :
    IsSupport (coneLocalSet r h) ld (coneLocalN ld r h n).2 := by
  unfold coneLocalN
  dsimp only
  rw [V3.normSq_def] at hnn
  simp only [mul_zero, add_zero] at hnn
  -- every point of the cone projects below the convex combination of rim value and apex value
  have key : ∀ q : V, coneLocalSet r h q →
      h * (ld.x * q.x + ld.y * q.y + ld.z * q.z) ≤ (h - q.z) * (n * r) + q.z * (ld.z * h) := by
    rintro q ⟨q0, q1, q2⟩
    have hρ : 0 ≤ r * (h - q.z) / h := div_nonneg (mul_nonneg hr (by linarith)) hh.le
    have hq : q.x * q.x + q.y * q.y ≤ r * (h - q.z) / h * (r * (h - q.z) / h) := by
      rw [div_mul_div_comm, le_div_iff₀ (by positivity)]
      nlinarith
    have hcs := cs2 hn0 hnn hρ hq
    have : h * (n * (r * (h - q.z) / h)) = (h - q.z) * (n * r) := by field_simp
    nlinarith
  by_cases hz : isZero n
  · rw [if_pos hz]
    have hn : n = 0 := (isZero_iff _).1 hz
    by_cases hcmp : ld.z * h ≤ V3.dot ld (⟨0, 0, 0⟩ : V)
    · rw [if_pos hcmp]
      simp only [V3.dot_def, mul_zero, add_zero] at hcmp
      refine ⟨⟨le_refl _, hh.le, ?_⟩, ?_⟩
      · show h * h * (0 * 0 + 0 * 0) ≤ r * r * ((h - 0) * (h - 0)); nlinarith [mul_nonneg hr hr, mul_nonneg hh.le hh.le, mul_nonneg (mul_nonneg hr hr) (mul_nonneg hh.le hh.le)]
      · intro q hq
        have k := key q hq
        obtain ⟨q0, q1, _⟩ := hq
        simp only [V3.dot_def, mul_zero, add_zero]
        rw [hn] at k
        nlinarith
    · rw [if_neg hcmp]
      simp only [V3.dot_def, mul_zero, add_zero] at hcmp
      refine ⟨⟨hh.le, le_refl _, ?_⟩, ?_⟩
      · show h * h * (0 * 0 + 0 * 0) ≤ r * r * ((h - h) * (h - h)); nlinarith
      · intro q hq
        have k := key q hq
        obtain ⟨q0, q1, _⟩ := hq
        simp only [V3.dot_def, mul_zero, add_zero, zero_add]
        rw [hn] at k
        nlinarith [not_le.mp hcmp]
  · rw [if_neg hz]
    have hne : n ≠ 0 := fun h => hz ((isZero_iff _).2 h)
    have hval : ld.x * (ld.x * (r / n)) + ld.y * (ld.y * (r / n)) = n * r := by
      field_simp
      linear_combination (-r) * hnn
    have hmem : ld.x * (r / n) * (ld.x * (r / n)) + ld.y * (r / n) * (ld.y * (r / n)) = r * r := by
      field_simp
      linear_combination (-(r ^ 2)) * hnn
    by_cases hcmp : ld.z * h ≤ V3.dot ld (⟨ld.x * (r / n), ld.y * (r / n), 0 * (r / n)⟩ : V)
    · rw [if_pos hcmp]
      simp only [V3.dot_def, zero_mul, mul_zero, add_zero] at hcmp
      refine ⟨⟨by simp, by simpa using hh.le, ?_⟩, ?_⟩
      · show h * h * (ld.x * (r / n) * (ld.x * (r / n)) + ld.y * (r / n) * (ld.y * (r / n)))
          ≤ r * r * ((h - 0 * (r / n)) * (h - 0 * (r / n)))
        rw [hmem]; nlinarith
      · intro q hq
        have k := key q hq
        obtain ⟨q0, q1, _⟩ := hq
        simp only [V3.dot_def, zero_mul, mul_zero, add_zero]
        rw [hval] at hcmp ⊢
        nlinarith
    · rw [if_neg hcmp]
      simp only [V3.dot_def, zero_mul, mul_zero, add_zero] at hcmp
      refine ⟨⟨hh.le, le_refl _, ?_⟩, ?_⟩
      · show h * h * (0 * 0 + 0 * 0) ≤ r * r * ((h - h) * (h - h)); nlinarith
      · intro q hq
        have k := key q hq
        obtain ⟨q0, q1, _⟩ := hq
        simp only [V3.dot_def, mul_zero, add_zero, zero_add]
        rw [hval] at hcmp
        nlinarith [not_le.mp hcmp]

theorem basisA_orth (p q L ny : ℝ) (hpq : p * p + q * q = 1) (hu : L * L + ny * ny = 1) :
    Orthonormal (columnStack (⟨-q, 0, p⟩ : V) ⟨ny * p, (q * L) * (-q) - (p * L) * p, -ny * (-q)⟩
      ⟨p * L, ny, q * L⟩) := by
  constructor <;> simp only [columnStack, V3.dot_def, M3.col0, M3.col1, M3.col2]
  · linear_combination hpq + p * p * hu
  · linear_combination (L * L) * (p * p + q * q + 1) * hpq + hu
  · linear_combination hpq + q * q * hu
  · linear_combination (-(L * p * ny)) * hpq
  · linear_combination (p * q) * hu
  · linear_combination (-(L * q * ny)) * hpq
  · linear_combination hpq
  · linear_combination (ny * ny + L * L * (p * p + q * q + 1)) * hpq + hu
  · linear_combination (L * L) * hpq + hu
  · ring
  · ring
  · ring

theorem basisB_orth (p q L nx : ℝ) (hpq : p * p + q * q = 1) (hu : nx * nx + L * L = 1) :
    Orthonormal (columnStack (⟨0, q, -p⟩ : V) ⟨(p * L) * (-p) - (q * L) * q, -nx * (-p), nx * q⟩
      ⟨nx, p * L, q * L⟩) := by
  constructor <;> simp only [columnStack, V3.dot_def, M3.col0, M3.col1, M3.col2]
  · linear_combination (L * L) * (p * p + q * q + 1) * hpq + hu
  · linear_combination hpq + p * p * hu
  · linear_combination hpq + q * q * hu
  · linear_combination (-(L * p * nx)) * hpq
  · linear_combination (-(L * q * nx)) * hpq
  · linear_combination (p * q) * hu
  · linear_combination hpq
  · linear_combination (nx * nx + L * L * (p * p + q * q + 1)) * hpq + hu
  · linear_combination (L * L) * hpq + hu
  · ring
  · ring
  · ring


theorem absS_real' (x : ℝ) : absS x = |x| := absS_real x

/-- `plane_basis_from_normal` on a unit normal never divides by zero and returns `x, y` such
that `(x, y, n)` is an orthonormal frame -/
theorem planeBasis_orthonormal (n : V) (hn : V3.normSq n = 1) :
    ∃ b x y, planeBasisFromNormal n = .ok (b, x, y) ∧ Orthonormal (columnStack x y n) := by
  rw [V3.normSq_def] at hn
  unfold planeBasisFromNormal
  by_cases hc : absS n.y ≤ absS n.x
  · rw [if_pos hc]
    rw [absS_real, absS_real] at hc
    have hL0 : 0 ≤ n.x * n.x + n.z * n.z := by nlinarith [mul_self_nonneg n.x, mul_self_nonneg n.z]
    have hLL : HasSqrt.sqrt (n.x * n.x + n.z * n.z) * HasSqrt.sqrt (n.x * n.x + n.z * n.z)
        = n.x * n.x + n.z * n.z := Real.mul_self_sqrt hL0
    generalize HasSqrt.sqrt (n.x * n.x + n.z * n.z) = L at hLL ⊢
    have hLne : L ≠ 0 := by
      intro h
      rw [h] at hLL
      obtain ⟨hx, hz⟩ := sq2_eq_zero (a := n.x) (b := n.z) (by linarith)
      rw [hx, abs_zero] at hc
      have hy : n.y = 0 := abs_eq_zero.mp (le_antisymm hc (abs_nonneg _))
      rw [hx, hy, hz] at hn; norm_num at hn
    unfold planeBasisA
    rw [if_neg (fun h => hLne ((isZero_iff _).1 h))]
    refine ⟨_, _, _, rfl, ?_⟩
    have hp : n.x = n.x / L * L := by field_simp
    have hq : n.z = n.z / L * L := by field_simp
    have hpq : n.x / L * (n.x / L) + n.z / L * (n.z / L) = 1 := by
      field_simp; linarith
    have := basisA_orth (n.x / L) (n.z / L) L n.y hpq (by linarith)
    rw [← hp, ← hq] at this
    have e : (n : V) = ⟨n.x, n.y, n.z⟩ := rfl
    rw [e]
    simp only [neg_div] at this ⊢
    exact this
  · rw [if_neg hc]
    rw [absS_real, absS_real] at hc
    have hL0 : 0 ≤ n.y * n.y + n.z * n.z := by nlinarith [mul_self_nonneg n.y, mul_self_nonneg n.z]
    have hLL : HasSqrt.sqrt (n.y * n.y + n.z * n.z) * HasSqrt.sqrt (n.y * n.y + n.z * n.z)
        = n.y * n.y + n.z * n.z := Real.mul_self_sqrt hL0
    generalize HasSqrt.sqrt (n.y * n.y + n.z * n.z) = L at hLL ⊢
    have hLne : L ≠ 0 := by
      intro h
      rw [h] at hLL
      obtain ⟨hy, hz⟩ := sq2_eq_zero (a := n.y) (b := n.z) (by linarith)
      rw [hy, abs_zero] at hc
      exact hc (abs_nonneg _)
    unfold planeBasisB
    rw [if_neg (fun h => hLne ((isZero_iff _).1 h))]
    refine ⟨_, _, _, rfl, ?_⟩
    have hp : n.y = n.y / L * L := by field_simp
    have hq : n.z = n.z / L * L := by field_simp
    have hpq : n.y / L * (n.y / L) + n.z / L * (n.z / L) = 1 := by
      field_simp; linarith
    have := basisB_orth (n.y / L) (n.z / L) L n.x hpq (by linarith)
    rw [← hp, ← hq] at this
    have e : (n : V) = ⟨n.x, n.y, n.z⟩ := rfl
    rw [e]
    simp only [neg_div] at this ⊢
    exact this


theorem dot_add_sub (d c q : V) : V3.dot d q = V3.dot d c + V3.dot d (q - c) := by
  simp only [V3.dot_def, V3.sub_x, V3.sub_y, V3.sub_z]; ring

theorem mulVec_ez (R : Mat) : R.mulVec ⟨0, 0, 1⟩ = R.col2 := by
  apply V3.ext' <;> simp [M3.mulVec, M3.col2, V3.dot_def]

theorem mulVec_dot_col2 {R : Mat} (hR : Orthonormal R) (v : V) :
    V3.dot (R.mulVec v) R.col2 = v.z := by
  rw [← mulVec_ez, hR.dot_mulVec]; simp [V3.dot_def]

theorem tmulVec_z (R : Mat) (u : V) : (R.tmulVec u).z = V3.dot R.col2 u := rfl

theorem diskN_isSupport (d c : V) (r : ℝ) (hr : 0 ≤ r) (R : Mat) (hR : Orthonormal R) (n : ℝ)
    (hn0 : 0 ≤ n) (hnn : n * n = V3.normSq ⟨(R.tmulVec d).x, (R.tmulVec d).y, 0⟩) :
    IsSupport (diskSet c r R.col2) d (diskN d c r R n).2 := by
  unfold diskN
  dsimp only
  rw [V3.normSq_def] at hnn
  simp only [mul_zero, add_zero] at hnn
  -- every point of the disk projects at most `n r` beyond the centre
  have key : ∀ q : V, diskSet c r R.col2 q → V3.dot d q ≤ V3.dot d c + n * r := by
    rintro q ⟨q1, q2⟩
    rw [dot_add_sub d c q]
    have e1 : V3.dot d (q - c) = V3.dot (R.tmulVec d) (R.tmulVec (q - c)) := (hR.dot_tmulVec _ _).symm
    have e2 : (R.tmulVec (q - c)).z = 0 := by rw [tmulVec_z, V3.dot_comm]; exact q1
    have e3 : V3.normSq (R.tmulVec (q - c)) = V3.normSq (q - c) := hR.dot_tmulVec _ _
    rw [V3.normSq_def, e2] at e3
    have hcs := cs2 (x := (R.tmulVec (q - c)).x) (y := (R.tmulVec (q - c)).y) hn0 hnn hr
      (by linarith)
    have e4 : V3.dot (R.tmulVec d) (R.tmulVec (q - c)) = (R.tmulVec d).x * (R.tmulVec (q - c)).x
        + (R.tmulVec d).y * (R.tmulVec (q - c)).y := by rw [V3.dot_def, e2]; ring
    rw [e1, e4]
    linarith
  by_cases hz : isZero n
  · rw [if_pos hz]
    have hn : n = 0 := (isZero_iff _).1 hz
    refine ⟨⟨?_, ?_⟩, ?_⟩
    · simp [V3.dot_def]
    · simp only [V3.normSq_def, V3.sub_x, V3.sub_y, V3.sub_z]; nlinarith
    · intro q hq
      have := key q hq
      rw [hn] at this; linarith
  · rw [if_neg hz]
    have hne : n ≠ 0 := fun h => hz ((isZero_iff _).2 h)
    have hsub : ∀ X : V, c + X - c = X := by intro X; apply V3.ext' <;> simp
    refine ⟨⟨?_, ?_⟩, ?_⟩
    · show V3.dot (c + _ - c) R.col2 = 0
      rw [hsub, mulVec_dot_col2 hR]; simp
    · show V3.normSq (c + _ - c) ≤ r * r
      rw [hsub]
      have : V3.normSq (R.mulVec ⟨(R.tmulVec d).x * (r / n), (R.tmulVec d).y * (r / n), 0 * (r / n)⟩)
          = V3.normSq (⟨(R.tmulVec d).x * (r / n), (R.tmulVec d).y * (r / n), 0 * (r / n)⟩ : V) :=
        hR.dot_mulVec _ _
      rw [this, V3.normSq_def]
      simp only [zero_mul, mul_zero, add_zero]
      have : (R.tmulVec d).x * (r / n) * ((R.tmulVec d).x * (r / n))
          + (R.tmulVec d).y * (r / n) * ((R.tmulVec d).y * (r / n)) = r * r := by
        field_simp
        linear_combination (-(r ^ 2)) * hnn
      exact le_of_eq this
    · intro q hq
      have k := key q hq
      have e : V3.dot d (c + R.mulVec ⟨(R.tmulVec d).x * (r / n), (R.tmulVec d).y * (r / n), 0 * (r / n)⟩)
          = V3.dot d c + n * r := by
        rw [dot_add_sub d c, hsub, M3.dot_mulVec, V3.dot_def (R.tmulVec d)]
        simp only [zero_mul, mul_zero, add_zero]
        have : (R.tmulVec d).x * ((R.tmulVec d).x * (r / n)) + (R.tmulVec d).y * ((R.tmulVec d).y * (r / n))
            = n * r := by
          field_simp
          linear_combination (-r) * hnn
        linarith
      show V3.dot d q ≤ V3.dot d (c + R.mulVec ⟨_, _, _⟩)
      rw [e]; exact k

theorem columnStack_col2 (x y n : V) : (columnStack x y n).col2 = n := rfl

/-- `support_function_disk` for a unit normal -/
theorem supportDisk_isSupport (d c : V) (r : ℝ) (hr : 0 ≤ r) (n : V) (hn : V3.normSq n = 1) :
    ∃ b p, supportDisk d c r n = .ok (b, p) ∧ IsSupport (diskSet c r n) d p := by
  obtain ⟨b, x, y, hb, hO⟩ := planeBasis_orthonormal n hn
  unfold supportDisk
  rw [hb]
  refine ⟨_, _, rfl, ?_⟩
  have := diskN_isSupport d c r hr (columnStack x y n) hO
    (V3.norm ⟨((columnStack x y n).tmulVec d).x, ((columnStack x y n).tmulVec d).y, 0⟩)
    (V3.norm_nonneg _) (V3.norm_sq _)
  rw [columnStack_col2] at this
  exact this

/-! ### lifting through the pose -/

theorem sqrt_sq2 (a b : ℝ) : HasSqrt.sqrt (a * a + b * b) * HasSqrt.sqrt (a * a + b * b) = a * a + b * b :=
  Real.mul_self_sqrt (add_nonneg (mul_self_nonneg a) (mul_self_nonneg b))

theorem sqrt_sq3 (a b c : ℝ) : HasSqrt.sqrt (a * a + b * b + c * c) * HasSqrt.sqrt (a * a + b * b + c * c)
    = a * a + b * b + c * c :=
  Real.mul_self_sqrt (add_nonneg (add_nonneg (mul_self_nonneg a) (mul_self_nonneg b)) (mul_self_nonneg c))

theorem sqrt_nonneg' (x : ℝ) : 0 ≤ HasSqrt.sqrt x := Real.sqrt_nonneg x

theorem cylinderLocal_isSupport (ld : V) (r l : ℝ) (hr : 0 ≤ r) (hl : 0 ≤ l) :
    IsSupport (cylinderLocalSet r l) ld (cylinderLocal ld r l).2 :=
  cylinderLocalS_isSupport ld r l hr hl _ (sqrt_nonneg' _) (sqrt_sq2 _ _)

theorem supportCylinder_isSupport (d : V) (A : Pose ℝ) (r l : ℝ) (hr : 0 ≤ r) (hl : 0 ≤ l) :
    IsSupport (poseImage A (cylinderLocalSet r l)) d (supportCylinder d A r l).2 :=
  isSupport_transformPoint (cylinderLocal_isSupport _ r l hr hl)

theorem capsuleLocal_isSupport (ld : V) (r h : ℝ) (hr : 0 ≤ r) (hh : 0 ≤ h) :
    IsSupport (capsuleLocalSet r h) ld (capsuleLocal ld r h).2 :=
  capsuleLocalS_isSupport ld r h hr hh _ (sqrt_nonneg' _) (sqrt_sq3 _ _ _)

theorem supportCapsule_isSupport (d : V) (A : Pose ℝ) (r h : ℝ) (hr : 0 ≤ r) (hh : 0 ≤ h) :
    IsSupport (poseImage A (capsuleLocalSet r h)) d (supportCapsule d A r h).2 :=
  isSupport_transformPoint (capsuleLocal_isSupport _ r h hr hh)

theorem ellipsoidLocal_isSupport (ld radii : V) (ha : 0 < radii.x) (hb : 0 < radii.y)
    (hc : 0 < radii.z) : IsSupport (ellipsoidLocalSet radii) ld (ellipsoidLocal ld radii).2 :=
  ellipsoidLocalN_isSupport ld radii ha hb hc _ (V3.norm_nonneg _) (V3.norm_sq _)

theorem supportEllipsoid_isSupport (d : V) (A : Pose ℝ) (radii : V) (ha : 0 < radii.x)
    (hb : 0 < radii.y) (hc : 0 < radii.z) :
    IsSupport (poseImage A (ellipsoidLocalSet radii)) d (supportEllipsoid d A radii).2 :=
  isSupport_transformPoint (ellipsoidLocal_isSupport _ radii ha hb hc)

theorem supportBoxFn_isSupport (d : V) (A : Pose ℝ) (half : V) (hx : 0 ≤ half.x) (hy : 0 ≤ half.y)
    (hz : 0 ≤ half.z) : IsSupport (poseImage A (boxLocalSet half)) d (supportBoxFn d A half).2 :=
  isSupport_transformPoint (boxLocal_isSupport _ half hx hy hz)

theorem coneLocal_isSupport (ld : V) (r h : ℝ) (hr : 0 ≤ r) (hh : 0 < h) :
    IsSupport (coneLocalSet r h) ld (coneLocal ld r h).2 :=
  coneLocalN_isSupport ld r h hr hh _ (V3.norm_nonneg _) (V3.norm_sq _)

theorem supportCone_isSupport (d : V) (A : Pose ℝ) (r h : ℝ) (hr : 0 ≤ r) (hh : 0 < h) :
    IsSupport (poseImage A (coneLocalSet r h)) d (supportCone d A r h).2 :=
  isSupport_transformPoint (coneLocal_isSupport _ r h hr hh)

theorem supportEllipse_isSupport (d c a0 a1 : V) (r0 r1 : ℝ) (h0 : 0 < r0) (h1 : 0 < r1) :
    IsSupport (ellipseSet c a0 a1 r0 r1) d (supportEllipse d c a0 a1 r0 r1).2 :=
  supportEllipseN_isSupport d c a0 a1 r0 r1 h0 h1 _ (sqrt_nonneg' _) (sqrt_sq2 _ _)

end Support
end D3
