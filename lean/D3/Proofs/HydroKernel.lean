/-
C15 helper lemmas, part 1: the 2-D kernels of `_halfplanes.py` at `α := ℝ`.

* `intersectTwo_some`            : a returned intersection point lies on both boundary lines and the
                                   lines were not flagged parallel;
* `validPoint_iff`               : what the innermost loop decides;
* `intersectHalfplanesWith_spec` / `intersectHalfplanes_spec` : every returned point comes from a pair
                                   `i < j`, is their intersection and passed the validity loop; fewer
                                   points than buffer rows;
* `pairIdx_length`               : the double loop visits `n (n-1) / 2` pairs;
* `intersectHalfplanes_total`    : with the `n (n-1) / 2 + 1` row buffer neither the checked write nor
                                   the assertion can fail, for every list of half-planes (also the empty one);
* before the repair (`3 n` rows): `intersectHalfplanes_before_fix_ok_of_le_six`,
  `concurrent_overflow_before_fix` / `concurrent_assert_before_fix` / `empty_assert_before_fix`
  (half-planes through one point with pairwise non-parallel lines make every pair valid: 28 > 24
  rows: `indexOOB`; 21 = 21 rows: `assertFail`; the empty list: `0 < 0` fails) and their repaired
  counterparts `concurrent_fixed`, `empty_fixed`.
-/
import D3.Spec.Vec
import D3.Model.Hydro

namespace D3
namespace Hydro

theorem eps_pos : (0 : ℝ) < (eps : ℝ) := by norm_num [eps, D3.Gen.utils__EPSILON]

theorem eps_le_one : (eps : ℝ) ≤ 1 := by norm_num [eps, D3.Gen.utils__EPSILON]

/-! ### `Except` plumbing -/

theorem except_bind_ok {ε β γ : Type} {x : Except ε β} {f : β → Except ε γ} {c : γ}
    (h : (x >>= f) = .ok c) : ∃ b, x = .ok b ∧ f b = .ok c := by
  cases x with
  | error e => simp [bind, Except.bind] at h
  | ok b => exact ⟨b, rfl, h⟩

/-- invariant rule for `foldlM` in `Except` -/
theorem foldlM_inv {β γ : Type} (f : β → γ → Except Err β) (P : β → Prop) (Q : γ → Prop)
    (hstep : ∀ b c b', Q c → P b → f b c = .ok b' → P b') :
    ∀ (l : List γ) (b b' : β), (∀ c ∈ l, Q c) → P b → l.foldlM f b = .ok b' → P b'
  | [], b, b', _, hb, h => by
    simp only [List.foldlM_nil, pure, Except.pure] at h
    cases h; exact hb
  | c :: l, b, b', hq, hb, h => by
    rw [List.foldlM_cons] at h
    obtain ⟨b1, h1, h2⟩ := except_bind_ok h
    exact foldlM_inv f P Q hstep l b1 b' (fun x hx => hq x (List.mem_cons_of_mem _ hx))
      (hstep b c b1 (hq c List.mem_cons_self) hb h1) h2

/-! ### the kernels -/

theorem cross2d_def (a b : V2 ℝ) : cross2d a b = a.x * b.y - a.y * b.x := rfl

theorem hpSide_def (h : HP ℝ) (q : V2 ℝ) :
    hpSide h q = h.d.x * (q.y - h.p.y) - h.d.y * (q.x - h.p.x) := rfl

theorem pointOutside_iff (h : HP ℝ) (q : V2 ℝ) :
    pointOutsideOfHalfplane h q = true ↔ hpSide h q < -(eps : ℝ) := by
  simp [pointOutsideOfHalfplane]

/-- `intersect_two_halfplanes`: the point is on both lines, and `EPSILON ≤ |denom|` -/
theorem intersectTwo_some {h1 h2 : HP ℝ} {p : V2 ℝ} (h : intersectTwoHalfplanes h1 h2 = some p) :
    (eps : ℝ) ≤ |cross2d h1.d h2.d| ∧ hpSide h1 p = 0 ∧ hpSide h2 p = 0 := by
  unfold intersectTwoHalfplanes at h
  simp only [absS_real] at h
  split at h
  · cases h
  · rename_i hd
    have hd' : (eps : ℝ) ≤ |cross2d h1.d h2.d| := not_lt.mp hd
    have hne : cross2d h1.d h2.d ≠ 0 := by
      intro h0; rw [h0, abs_zero] at hd'; exact absurd hd' (not_le.mpr eps_pos)
    simp only [Option.some.injEq] at h
    subst h
    refine ⟨hd', ?_, ?_⟩
    · simp only [hpSide_def]; ring
    · simp only [hpSide_def, cross2d_def, V2.sub] at hne ⊢
      have ht : ((h2.p.x - h1.p.x) * h2.d.y - (h2.p.y - h1.p.y) * h2.d.x) /
          (h1.d.x * h2.d.y - h1.d.y * h2.d.x) * (h1.d.x * h2.d.y - h1.d.y * h2.d.x) =
          (h2.p.x - h1.p.x) * h2.d.y - (h2.p.y - h1.p.y) * h2.d.x := div_mul_cancel₀ _ hne
      linear_combination (-1 : ℝ) * ht

/-- `intersect_two_halfplanes` returns "empty" exactly when `|denom| < EPSILON` -/
theorem intersectTwo_none_iff (h1 h2 : HP ℝ) :
    intersectTwoHalfplanes h1 h2 = none ↔ |cross2d h1.d h2.d| < (eps : ℝ) := by
  unfold intersectTwoHalfplanes
  simp only [absS_real]
  split <;> simp_all

theorem validPoint_iff (hps : List (HP ℝ)) (i j : Nat) (p : V2 ℝ) :
    validPoint hps i j p = true ↔
      ∀ k hk, hps[k]? = some hk → k ≠ i → k ≠ j → -(eps : ℝ) ≤ hpSide hk p := by
  unfold validPoint
  rw [List.all_eq_true]
  constructor
  · intro h k hk hget hki hkj
    have := h (hk, k) (List.mem_zipIdx_iff_getElem?.mpr hget)
    simp only [Bool.or_eq_true, beq_iff_eq, Bool.not_eq_true', hki, hkj, false_or] at this
    have hno : ¬ (hpSide hk p < -(eps : ℝ)) := by
      intro hlt
      rw [(pointOutside_iff hk p).mpr hlt] at this
      exact Bool.noConfusion this
    exact not_lt.mp hno
  · intro h x hx
    have hget := List.mem_zipIdx_iff_getElem?.mp hx
    by_cases hi : x.2 = i
    · simp [hi]
    · by_cases hj : x.2 = j
      · simp [hj]
      · have := h x.2 x.1 hget hi hj
        have hno : pointOutsideOfHalfplane x.1 p = false := by
          rw [Bool.eq_false_iff]
          intro ht
          exact absurd ((pointOutside_iff x.1 p).mp ht) (not_lt.mpr this)
        simp [hno]

theorem mem_pairIdx {n : Nat} {ij : Nat × Nat} (h : ij ∈ pairIdx n) : ij.1 < ij.2 ∧ ij.2 < n := by
  unfold pairIdx at h
  rw [List.mem_flatMap] at h
  obtain ⟨i, _, hj⟩ := h
  rw [List.mem_filterMap] at hj
  obtain ⟨j, hjn, hij⟩ := hj
  split at hij
  · simp only [Option.some.injEq] at hij
    subst hij
    exact ⟨by assumption, List.mem_range.mp hjn⟩
  · cases hij

/-- a point written to the buffer -/
def FromPair (hps : List (HP ℝ)) (p : V2 ℝ) : Prop :=
  ∃ i j hi hj, i < j ∧ hps[i]? = some hi ∧ hps[j]? = some hj ∧
    intersectTwoHalfplanes hi hj = some p ∧ validPoint hps i j p = true

theorem ihStep_inv (hps : List (HP ℝ)) (cap : Nat) (acc : List (V2 ℝ)) (ij : Nat × Nat)
    (acc' : List (V2 ℝ)) (hij : ij.1 < ij.2)
    (hacc : (∀ p ∈ acc, FromPair hps p) ∧ acc.length ≤ cap)
    (h : ihStep hps cap acc ij = .ok acc') :
    (∀ p ∈ acc', FromPair hps p) ∧ acc'.length ≤ cap := by
  unfold ihStep at h
  split at h
  · rename_i hi hj hgi hgj
    split at h
    · cases h; exact hacc
    · rename_i p hp
      split at h
      · rename_i hv
        split at h
        · rename_i hlt
          cases h
          refine ⟨?_, by simp; omega⟩
          intro q hq
          rcases List.mem_append.mp hq with hq | hq
          · exact hacc.1 q hq
          · simp only [List.mem_singleton] at hq
            subst hq
            exact ⟨ij.1, ij.2, hi, hj, hij, hgi, hgj, hp, hv⟩
        · cases h
      · cases h; exact hacc
  · cases h

theorem intersectHalfplanesWith_unfold (rows : Nat → Nat) (hps : List (HP ℝ)) (res : List (V2 ℝ))
    (h : intersectHalfplanesWith rows hps = .ok res) :
    (pairIdx hps.length).foldlM (ihStep hps (rows hps.length)) [] = .ok res ∧
      res.length < rows hps.length := by
  unfold intersectHalfplanesWith at h
  obtain ⟨acc, h1, h2⟩ := except_bind_ok h
  split at h2
  · cases h2; exact ⟨h1, by assumption⟩
  · cases h2

/-- `intersect_halfplanes` (any buffer size): every returned point is the intersection of two of
the boundary lines (`i < j`, not flagged parallel) and passed the validity loop; fewer points
than buffer rows -/
theorem intersectHalfplanesWith_spec (rows : Nat → Nat) (hps : List (HP ℝ)) (res : List (V2 ℝ))
    (h : intersectHalfplanesWith rows hps = .ok res) :
    (∀ p ∈ res, FromPair hps p) ∧ res.length < rows hps.length := by
  obtain ⟨h1, h2⟩ := intersectHalfplanesWith_unfold rows hps res h
  refine ⟨?_, h2⟩
  have := foldlM_inv (ihStep hps (rows hps.length))
    (fun acc => (∀ p ∈ acc, FromPair hps p) ∧ acc.length ≤ rows hps.length)
    (fun ij => ij.1 < ij.2)
    (fun b c b' hq hp hs => ihStep_inv hps _ b c b' hq hp hs)
    (pairIdx hps.length) [] res (fun c hc => (mem_pairIdx hc).1) ⟨by simp, by simp⟩ h1
  exact this.1

/-- `intersect_halfplanes` as it is now: at most one point per pair `i < j` -/
theorem intersectHalfplanes_spec (hps : List (HP ℝ)) (res : List (V2 ℝ))
    (h : intersectHalfplanes hps = .ok res) :
    (∀ p ∈ res, FromPair hps p) ∧ res.length ≤ hps.length * (hps.length - 1) / 2 := by
  obtain ⟨h1, h2⟩ := intersectHalfplanesWith_spec bufferRows hps res h
  exact ⟨h1, Nat.lt_succ_iff.mp h2⟩

/-- the same before the repair: fewer than `3 n` points -/
theorem intersectHalfplanes_before_fix_spec (hps : List (HP ℝ)) (res : List (V2 ℝ))
    (h : intersectHalfplanes_asIs_before_fix hps = .ok res) :
    (∀ p ∈ res, FromPair hps p) ∧ res.length < 3 * hps.length :=
  intersectHalfplanesWith_spec bufferRows_asIs_before_fix hps res h

/-! ### the buffer: when it suffices, when it overflows -/

/-- one step never fails while there is room, and writes at most one row -/
theorem ihStep_progress (hps : List (HP ℝ)) (cap : Nat) (acc : List (V2 ℝ)) (ij : Nat × Nat)
    (hi : ij.1 < hps.length) (hj : ij.2 < hps.length) (hroom : acc.length < cap) :
    ∃ acc', ihStep hps cap acc ij = .ok acc' ∧ acc'.length ≤ acc.length + 1 := by
  unfold ihStep
  rw [List.getElem?_eq_getElem hi, List.getElem?_eq_getElem hj]
  simp only
  split
  · exact ⟨acc, rfl, by omega⟩
  · split
    · exact ⟨_, rfl, by simp⟩
    · exact ⟨acc, rfl, by omega⟩

theorem foldl_progress (hps : List (HP ℝ)) (cap : Nat) :
    ∀ (l : List (Nat × Nat)) (acc : List (V2 ℝ)),
      (∀ ij ∈ l, ij.1 < hps.length ∧ ij.2 < hps.length) → acc.length + l.length ≤ cap →
      ∃ res, l.foldlM (ihStep hps cap) acc = .ok res ∧ res.length ≤ acc.length + l.length
  | [], acc, _, _ => ⟨acc, rfl, by simp⟩
  | ij :: l, acc, hq, hlen => by
    simp only [List.length_cons] at hlen
    obtain ⟨acc1, h1, hl1⟩ := ihStep_progress hps cap acc ij (hq ij List.mem_cons_self).1
      (hq ij List.mem_cons_self).2 (by omega)
    obtain ⟨res, h2, hl2⟩ := foldl_progress hps cap l acc1
      (fun x hx => hq x (List.mem_cons_of_mem _ hx)) (by omega)
    refine ⟨res, ?_, by simp only [List.length_cons]; omega⟩
    rw [List.foldlM_cons, h1]
    exact h2

/-- whenever the buffer has more rows than there are pairs, neither the checked write nor the
assertion can fail -/
theorem intersectHalfplanesWith_ok (rows : Nat → Nat) (hps : List (HP ℝ))
    (hrows : (pairIdx hps.length).length < rows hps.length) :
    ∃ res, intersectHalfplanesWith rows hps = .ok res ∧ res.length ≤ (pairIdx hps.length).length := by
  obtain ⟨res, hres, hl⟩ := foldl_progress hps (rows hps.length) (pairIdx hps.length) []
    (fun ij hij => by
      have := mem_pairIdx hij
      exact ⟨by omega, this.2⟩)
    (by simp only [List.length_nil]; omega)
  simp only [List.length_nil, Nat.zero_add] at hl
  refine ⟨res, ?_, hl⟩
  unfold intersectHalfplanesWith
  simp only [hres]
  have : res.length < rows hps.length := by omega
  simp [bind, Except.bind, this]

/-! #### the number of pairs -/

theorem countP_lt_range (i : Nat) : ∀ n, ((List.range n).filter fun j => decide (i < j)).length = n - (i + 1)
  | 0 => by simp
  | n + 1 => by
    rw [List.range_succ, List.filter_append, List.length_append, countP_lt_range i n]
    by_cases h : i < n
    · simp [h]; omega
    · simp [h]; omega

theorem innerPairs_length (n i : Nat) :
    ((List.range n).filterMap fun j => if i < j then some (i, j) else none).length = n - (i + 1) := by
  rw [← countP_lt_range i n]
  generalize List.range n = L
  induction L with
  | nil => rfl
  | cons j L ih =>
    by_cases h : i < j <;> simp [h, ih]

/-- twice the number of pairs visited with first index below `m`, for `m ≤ n` -/
theorem pairPrefix_length (n : Nat) : ∀ m, m ≤ n →
    2 * ((List.range m).flatMap fun i =>
      (List.range n).filterMap fun j => if i < j then some (i, j) else none).length + m * (m + 1) =
      2 * n * m
  | 0, _ => by simp
  | m + 1, hm => by
    have ih := pairPrefix_length n m (by omega)
    rw [List.range_succ, List.flatMap_append, List.length_append]
    simp only [List.flatMap_cons, List.flatMap_nil, List.append_nil, innerPairs_length]
    have e1 : (m + 1) * (m + 1 + 1) = m * (m + 1) + 2 * (m + 1) := by ring
    have e2 : 2 * n * (m + 1) = 2 * n * m + 2 * n := by ring
    rw [e1, e2]
    omega

/-- the double loop `for i in range(n): for j in range(i + 1, n)` visits `n (n-1) / 2` pairs -/
theorem pairIdx_length (n : Nat) : (pairIdx n).length = n * (n - 1) / 2 := by
  have h := pairPrefix_length n n (le_refl n)
  unfold pairIdx
  have e : n * (n - 1) + n = n * n := by
    cases n with
    | zero => rfl
    | succ k => simp only [Nat.add_sub_cancel]; ring
  have e2 : 2 * n * n = 2 * (n * n) := by ring
  have e3 : n * (n + 1) = n * n + n := by ring
  rw [e2, e3] at h
  omega

/-- **the buffer suffices, unconditionally.**  With `n (n-1) / 2 + 1` rows the store
`points[n_intersections] = p` is always in range and the assertion
`n_intersections < len(points)` always holds: `intersect_halfplanes` returns normally for
every list of half-planes (the empty one included), with at most one point per pair `i < j`. -/
theorem intersectHalfplanes_total (hps : List (HP ℝ)) :
    ∃ res, intersectHalfplanes hps = .ok res ∧ res.length ≤ hps.length * (hps.length - 1) / 2 := by
  obtain ⟨res, h, hl⟩ := intersectHalfplanesWith_ok bufferRows hps
    (by rw [pairIdx_length]; simp [bufferRows])
  rw [pairIdx_length] at hl
  exact ⟨res, h, hl⟩

/-! #### before the repair: `3 n` rows -/

theorem pairIdx_length_small : ∀ n, 1 ≤ n → n ≤ 6 → (pairIdx n).length < 3 * n := by
  intro n h1 h6
  have : n = 1 ∨ n = 2 ∨ n = 3 ∨ n = 4 ∨ n = 5 ∨ n = 6 := by omega
  rcases this with rfl | rfl | rfl | rfl | rfl | rfl <;> decide

/-- before the repair: with `1 ≤ n ≤ 6` half-planes there are at most `n (n-1) / 2 < 3 n` pairs:
neither the write nor the assertion could fail -/
theorem intersectHalfplanes_before_fix_ok_of_le_six (hps : List (HP ℝ)) (h1 : 1 ≤ hps.length)
    (h6 : hps.length ≤ 6) : ∃ res, intersectHalfplanes_asIs_before_fix hps = .ok res := by
  obtain ⟨res, h, _⟩ := intersectHalfplanesWith_ok bufferRows_asIs_before_fix hps
    (pairIdx_length_small hps.length h1 h6)
  exact ⟨res, h⟩

/-- all half-planes pass through the origin of the plane coordinates -/
def ThroughOrigin (hps : List (HP ℝ)) : Prop := ∀ h ∈ hps, h.p = ⟨0, 0⟩

/-- no two boundary lines are flagged parallel -/
def PairwiseCrossing (hps : List (HP ℝ)) : Prop :=
  ∀ (i j : Nat) (hi hj : HP ℝ), i < j → hps[i]? = some hi → hps[j]? = some hj →
    (eps : ℝ) ≤ |cross2d hi.d hj.d|

theorem intersectTwo_origin {h1 h2 : HP ℝ} (hp1 : h1.p = ⟨0, 0⟩) (hp2 : h2.p = ⟨0, 0⟩)
    (hc : (eps : ℝ) ≤ |cross2d h1.d h2.d|) : intersectTwoHalfplanes h1 h2 = some ⟨0, 0⟩ := by
  unfold intersectTwoHalfplanes
  simp only [absS_real]
  rw [if_neg (not_lt.mpr hc)]
  simp [hp1, hp2, V2.sub, cross2d_def]

theorem validPoint_origin (hps : List (HP ℝ)) (ho : ThroughOrigin hps) (i j : Nat) :
    validPoint hps i j ⟨0, 0⟩ = true := by
  rw [validPoint_iff]
  intro k hk hget _ _
  have hm : hk ∈ hps := List.mem_of_getElem? hget
  have := ho hk hm
  rw [hpSide_def, this]
  simp only [sub_zero, mul_zero, neg_nonpos]
  exact le_of_lt eps_pos

/-- concurrent, pairwise crossing lines: every pair writes the common point -/
theorem ihStep_concurrent (hps : List (HP ℝ)) (ho : ThroughOrigin hps) (hc : PairwiseCrossing hps)
    (cap : Nat) (acc : List (V2 ℝ)) (ij : Nat × Nat) (hij : ij.1 < ij.2) (hj : ij.2 < hps.length) :
    ihStep hps cap acc ij =
      if acc.length < cap then .ok (acc ++ [⟨0, 0⟩]) else .error .indexOOB := by
  have hi : ij.1 < hps.length := by omega
  unfold ihStep
  rw [List.getElem?_eq_getElem hi, List.getElem?_eq_getElem hj]
  simp only
  have h2 := intersectTwo_origin (ho _ (List.getElem_mem hi)) (ho _ (List.getElem_mem hj))
    (hc ij.1 ij.2 _ _ hij (List.getElem?_eq_getElem hi) (List.getElem?_eq_getElem hj))
  rw [h2]
  simp only [validPoint_origin hps ho, if_true]

theorem foldl_concurrent (hps : List (HP ℝ)) (ho : ThroughOrigin hps) (hc : PairwiseCrossing hps)
    (cap : Nat) :
    ∀ (l : List (Nat × Nat)) (acc : List (V2 ℝ)), acc.length ≤ cap →
      (∀ ij ∈ l, ij.1 < ij.2 ∧ ij.2 < hps.length) →
      l.foldlM (ihStep hps cap) acc =
        if acc.length + l.length ≤ cap then .ok (acc ++ List.replicate l.length ⟨0, 0⟩)
        else .error .indexOOB
  | [], acc, hacc, _ => by simp [pure, Except.pure, hacc]
  | ij :: l, acc, hacc, hq => by
    rw [List.foldlM_cons, ihStep_concurrent hps ho hc cap acc ij (hq ij List.mem_cons_self).1
      (hq ij List.mem_cons_self).2]
    by_cases hroom : acc.length < cap
    · rw [if_pos hroom]
      simp only [bind, Except.bind]
      have hl : (acc ++ [(⟨0, 0⟩ : V2 ℝ)]).length = acc.length + 1 := by simp
      rw [foldl_concurrent hps ho hc cap l _ (by rw [hl]; omega)
        (fun x hx => hq x (List.mem_cons_of_mem _ hx)), hl, List.length_cons]
      by_cases h2 : acc.length + (l.length + 1) ≤ cap
      · rw [if_pos h2, if_pos (by omega)]
        simp [List.replicate_succ]
      · rw [if_neg h2, if_neg (by omega)]
    · rw [if_neg hroom]
      simp only [bind, Except.bind, List.length_cons]
      rw [if_neg (by omega)]

/-- **buffer overflow before the repair**: half-planes through one point whose lines cross pairwise
produce `n (n-1) / 2` valid intersections; if that exceeds `3 n` the checked write fails -/
theorem concurrent_overflow_before_fix (hps : List (HP ℝ)) (ho : ThroughOrigin hps)
    (hc : PairwiseCrossing hps) (hbig : 3 * hps.length < (pairIdx hps.length).length) :
    intersectHalfplanes_asIs_before_fix hps = .error .indexOOB := by
  unfold intersectHalfplanes_asIs_before_fix intersectHalfplanesWith
  simp only
  rw [foldl_concurrent hps ho hc _ _ [] (by simp) (fun ij hij => mem_pairIdx hij)]
  simp only [List.length_nil, Nat.zero_add, bufferRows_asIs_before_fix]
  rw [if_neg (by omega)]
  rfl

/-- before the repair: with exactly `3 n` valid intersections every write succeeds and the strict
assertion fails -/
theorem concurrent_assert_before_fix (hps : List (HP ℝ)) (ho : ThroughOrigin hps)
    (hc : PairwiseCrossing hps) (hbig : 3 * hps.length = (pairIdx hps.length).length) :
    intersectHalfplanes_asIs_before_fix hps = .error .assertFail := by
  unfold intersectHalfplanes_asIs_before_fix intersectHalfplanesWith
  simp only
  rw [foldl_concurrent hps ho hc _ _ [] (by simp) (fun ij hij => mem_pairIdx hij)]
  simp only [List.length_nil, Nat.zero_add, bufferRows_asIs_before_fix]
  rw [if_pos (by omega)]
  simp [bind, Except.bind, hbig]

theorem empty_assert_before_fix :
    intersectHalfplanes_asIs_before_fix ([] : List (HP ℝ)) = .error .assertFail := by
  simp [intersectHalfplanes_asIs_before_fix, intersectHalfplanesWith, pairIdx,
    bufferRows_asIs_before_fix, bind, Except.bind, pure, Except.pure]

/-- **after the repair** the same inputs return every pairwise intersection: one copy of the
common point per pair -/
theorem concurrent_fixed (hps : List (HP ℝ)) (ho : ThroughOrigin hps) (hc : PairwiseCrossing hps) :
    intersectHalfplanes hps = .ok (List.replicate (pairIdx hps.length).length ⟨0, 0⟩) := by
  unfold intersectHalfplanes intersectHalfplanesWith
  simp only
  rw [foldl_concurrent hps ho hc _ _ [] (by simp) (fun ij hij => mem_pairIdx hij)]
  have hlt : (pairIdx hps.length).length < bufferRows hps.length := by
    rw [pairIdx_length]; simp [bufferRows]
  simp only [List.length_nil, Nat.zero_add, List.nil_append]
  rw [if_pos (by omega)]
  simp [bind, Except.bind, hlt]

theorem empty_fixed : intersectHalfplanes ([] : List (HP ℝ)) = .ok [] := by
  simp [intersectHalfplanes, intersectHalfplanesWith, pairIdx, bufferRows, bind, Except.bind, pure,
    Except.pure]

end Hydro
end D3
