/-
Helper lemmas for C14 (update_pose ≡ fresh construction).  Everything here is structural
(no arithmetic), so it is proved for an arbitrary scalar `α`; `D3/Properties/C14.lean`
instantiates at `ℝ`.
-/
import D3.Model.ColliderState

namespace D3
namespace CS

set_option linter.unusedSectionVars false

scalar_variables

/-- a pose array the engine's typed kernels accept: anything when interpreted, C-contiguous
under the JIT -/
def PoseOk (e : Engine) (p : Arr (M4 α)) : Prop := e = .interp ∨ p.layout = .c

/-- every pose handed to `update_pose` during the history is acceptable -/
def Admissible (e : Engine) (ops : List (Op α)) : Prop := ∀ p ∈ posesOf ops, PoseOk e p

/-- the pose of the last `update_pose` (or the construction pose) -/
def lastPose : Arr (M4 α) → List (Op α) → Arr (M4 α)
  | p, [] => p
  | _, .updatePose p :: ops => lastPose p ops
  | p0, .query _ :: ops => lastPose p0 ops

def Collider.hasMesh : Collider α → Bool
  | .mesh _ => true
  | .margin c _ => c.hasMesh
  | _ => false

/-! ### typed calls -/

@[simp] theorem typedCall_interp {β : Type} (args : List Layout) (r : β) :
    typedCall .interp args r = .ok r := rfl

theorem typedCall_jit_ok {β : Type} (args : List Layout) (r : β)
    (h : ∀ l ∈ args, l = Layout.c) : typedCall .jit args r = .ok r := by
  have : args.all (fun l => l == Layout.c) = true := by
    rw [List.all_eq_true]; intro l hl; simp [h l hl]
  simp [typedCall, this]

theorem typedCall_jit_err {β : Type} (args : List Layout) (r : β)
    (h : ∃ l ∈ args, l ≠ Layout.c) : typedCall .jit args r = .error .typeErr := by
  have : args.all (fun l => l == Layout.c) = false := by
    rw [List.all_eq_false]
    obtain ⟨l, hl, hne⟩ := h
    exact ⟨l, hl, by simpa using hne⟩
  simp [typedCall, this]

theorem typedCall_ok_val {β : Type} {e : Engine} {args : List Layout} {r r' : β}
    (h : typedCall e args r = .ok r') : r' = r := by
  cases e
  · simp [typedCall] at h; exact h.symm
  · simp only [typedCall] at h
    split at h
    · injection h with h; exact h.symm
    · cases h

theorem typedCall_ok_layouts {β : Type} {args : List Layout} {r r' : β}
    (h : typedCall .jit args r = .ok r') : ∀ l ∈ args, l = Layout.c := by
  simp only [typedCall] at h
  split at h
  · rename_i hall
    rw [List.all_eq_true] at hall
    intro l hl; simpa using hall l hl
  · cases h

theorem typedCall_ne_typeErr_of_ok {β : Type} {e : Engine} {args : List Layout} (r : β)
    (h : e = .jit → ∀ l ∈ args, l = Layout.c) : typedCall e args r = .ok r := by
  cases e
  · rfl
  · exact typedCall_jit_ok args r (h rfl)

/-! ### the start index -/

@[simp] theorem setFirstIdx_setFirstIdx (c : Collider α) (i j : Nat) :
    (c.setFirstIdx i).setFirstIdx j = c.setFirstIdx j := by
  induction c with
  | margin c m ih => simp [Collider.setFirstIdx, ih]
  | _ => rfl

@[simp] theorem setFirstIdx_firstIdx (c : Collider α) : c.setFirstIdx c.firstIdx = c := by
  induction c with
  | margin c m ih => simp [Collider.setFirstIdx, Collider.firstIdx, ih]
  | _ => rfl

theorem setFirstIdx_of_noMesh (c : Collider α) (h : c.hasMesh = false) (i : Nat) :
    c.setFirstIdx i = c := by
  induction c with
  | margin c m ih =>
    simp only [Collider.hasMesh] at h
    simp [Collider.setFirstIdx, ih h]
  | mesh s => simp [Collider.hasMesh] at h
  | _ => rfl

theorem atPose_hasMesh (e : Engine) (K : Kernels α) :
    ∀ (shape : Shape α) (p : Arr (M4 α)) (f : Collider α),
      atPose e K shape p = .ok f → f.hasMesh = shape.hasMesh := by
  intro shape
  induction shape with
  | margin s m ih =>
    intro p f h
    simp only [atPose, bind, Except.bind] at h
    split at h
    · cases h
    · rename_i c hc
      simp only [pure, Except.pure] at h
      injection h with h; subst h
      simp [Collider.hasMesh, Shape.hasMesh, ih p c hc]
  | box size =>
    intro p f h
    simp only [atPose, bind, Except.bind] at h
    split at h
    · cases h
    · simp only [pure, Except.pure] at h
      injection h with h; subst h; rfl
  | mesh verts tris =>
    intro p f h
    simp only [atPose, bind, Except.bind] at h
    split at h
    · cases h
    · split at h
      · cases h
      · simp only [pure, Except.pure] at h
        injection h with h; subst h; rfl
  | _ =>
    intro p f h
    simp only [atPose, pure, Except.pure] at h
    injection h with h; subst h; rfl

/-! ### queries touch nothing but the start index -/

theorem query_state (e : Engine) (K : Kernels α) (c : Collider α) (q : Query α) :
    (c.query e K q).1 = c.setFirstIdx (c.query e K q).1.firstIdx := by
  induction c with
  | margin c m ih =>
    cases q <;> simp only [Collider.query, Collider.setFirstIdx, Collider.firstIdx] <;>
      exact congrArg (fun x => Collider.margin x m) ih
  | mesh s =>
    cases q with
    | support d =>
      simp only [Collider.query, MeshC.support]
      split
      · rfl
      · split <;> rfl
    | _ => rfl
  | _ => cases q <;> rfl

/-- a query other than `support_function` leaves the whole state alone -/
theorem query_state_nonSupport (e : Engine) (K : Kernels α) (c : Collider α) (q : Query α)
    (hq : ∀ d, q ≠ .support d) : (c.query e K q).1 = c := by
  induction c with
  | margin c m ih =>
    cases q with
    | support d => exact absurd rfl (hq d)
    | _ => simp only [Collider.query]; exact congrArg (fun x => Collider.margin x m) ih
  | mesh s =>
    cases q with
    | support d => exact absurd rfl (hq d)
    | _ => rfl
  | _ => cases q <;> rfl

/-- observations other than `support_function` do not depend on the start index -/
theorem query_out_firstIdx_irrelevant (e : Engine) (K : Kernels α) (c : Collider α) (q : Query α)
    (hq : ∀ d, q ≠ .support d) (i : Nat) :
    ((c.setFirstIdx i).query e K q).2 = (c.query e K q).2 := by
  induction c with
  | margin c m ih =>
    cases q with
    | support d => exact absurd rfl (hq d)
    | _ => simp only [Collider.query, Collider.setFirstIdx, ih]
  | mesh s =>
    cases q with
    | support d => exact absurd rfl (hq d)
    | _ => rfl
  | _ => rfl

/-- if hill climbing does not depend on its start vertex, no observation depends on the
start index -/
theorem query_out_of_startIndependent (e : Engine) (K : Kernels α)
    (hK : ∀ d i j vs cn sc, K.hillClimb d i vs cn sc = K.hillClimb d j vs cn sc)
    (c : Collider α) (q : Query α) (i : Nat) :
    ((c.setFirstIdx i).query e K q).2 = (c.query e K q).2 := by
  induction c with
  | margin c m ih =>
    cases q <;> simp only [Collider.query, Collider.setFirstIdx, ih]
  | mesh s =>
    cases q with
    | support d =>
      simp only [Collider.query, Collider.setFirstIdx, MeshC.support]
      rw [hK _ i s.sf.firstIdx]
      split
      · rfl
      · split <;> rfl
    | _ => rfl
  | _ => rfl

/-! ### update_pose re-derives every cache -/

/-- **the invariant step**: on a collider that equals a fresh one at `last` (up to the start
index), `update_pose p` with an acceptable pose raises nothing and yields the collider a fresh
construction at `p` yields (same start index) -/
theorem update_atPose (e : Engine) (K : Kernels α) :
    ∀ (shape : Shape α) (last p : Arr (M4 α)) (f : Collider α) (i : Nat),
      atPose e K shape last = .ok f → PoseOk e p →
      ∃ f', atPose e K shape p = .ok f' ∧
        (f.setFirstIdx i).updatePose e p = (f'.setFirstIdx i, none) := by
  intro shape
  induction shape with
  | margin s m ih =>
    intro last p f i h hp
    simp only [atPose, bind, Except.bind] at h
    split at h
    · cases h
    · rename_i c hc
      simp only [pure, Except.pure] at h
      injection h with h; subst h
      obtain ⟨c', hc', hu⟩ := ih last p c i hc hp
      refine ⟨.margin c' m, ?_, ?_⟩
      · simp [atPose, bind, Except.bind, hc', pure, Except.pure]
      · simp only [Collider.updatePose] at hu
        simp [Collider.updatePose, Collider.updatePoseV, Collider.setFirstIdx, hu]
  | box size =>
    intro last p f i h hp
    simp only [atPose, bind, Except.bind] at h
    split at h
    · cases h
    · rename_i v hv
      simp only [pure, Except.pure] at h
      injection h with h; subst h
      have hcall : typedCall e [p.layout, size.layout] (convertBox p.val.P size.val)
          = .ok (convertBox p.val.P size.val) := by
        apply typedCall_ne_typeErr_of_ok
        intro he; subst he
        have hl := typedCall_ok_layouts hv
        rcases hp with hp | hp
        · cases hp
        · intro l hl'
          simp only [List.mem_cons, List.not_mem_nil, or_false] at hl'
          rcases hl' with rfl | rfl
          · exact hp
          · exact hl _ (by simp)
      refine ⟨.box ⟨p, size, convertBox p.val.P size.val⟩, ?_, ?_⟩
      · simp [atPose, bind, Except.bind, hcall, pure, Except.pure]
      · simp [Collider.updatePose, Collider.updatePoseV, Collider.setFirstIdx, BoxC.updatePose, hcall]
  | mesh verts tris =>
    intro last p f i h hp
    simp only [atPose, bind, Except.bind] at h
    split at h
    · cases h
    · rename_i first hfirst
      split at h
      · cases h
      · rename_i hne
        simp only [pure, Except.pure] at h
        injection h with h; subst h
        refine ⟨.mesh ⟨p, verts, tris, ⟨p, verts, first, K.connections tris, K.shortcuts verts⟩⟩, ?_, ?_⟩
        · simp [atPose, bind, Except.bind, hfirst, hne, pure, Except.pure]
        · simp [Collider.updatePose, Collider.updatePoseV, Collider.setFirstIdx, MeshC.updatePose]
  | sphere r =>
    intro last p f i h hp
    simp only [atPose, pure, Except.pure] at h
    injection h with h; subst h
    exact ⟨_, rfl, rfl⟩
  | capsule r hh =>
    intro last p f i h hp
    simp only [atPose, pure, Except.pure] at h
    injection h with h; subst h
    exact ⟨_, rfl, rfl⟩
  | ellipsoid radii =>
    intro last p f i h hp
    simp only [atPose, pure, Except.pure] at h
    injection h with h; subst h
    exact ⟨_, rfl, rfl⟩
  | cylinder r l =>
    intro last p f i h hp
    simp only [atPose, pure, Except.pure] at h
    injection h with h; subst h
    exact ⟨_, rfl, rfl⟩
  | disk r =>
    intro last p f i h hp
    simp only [atPose, pure, Except.pure] at h
    injection h with h; subst h
    exact ⟨_, rfl, rfl⟩
  | ellipse radii =>
    intro last p f i h hp
    simp only [atPose, pure, Except.pure] at h
    injection h with h; subst h
    exact ⟨_, rfl, rfl⟩
  | cone r hh =>
    intro last p f i h hp
    simp only [atPose, pure, Except.pure] at h
    injection h with h; subst h
    exact ⟨_, rfl, rfl⟩

/-! ### histories -/

theorem admissible_cons_update {e : Engine} {p : Arr (M4 α)} {ops : List (Op α)}
    (h : Admissible e (.updatePose p :: ops)) : PoseOk e p ∧ Admissible e ops :=
  ⟨h p (by simp [posesOf]), fun q hq => h q (by simp [posesOf, hq])⟩

theorem admissible_cons_query {e : Engine} {q : Query α} {ops : List (Op α)}
    (h : Admissible e (.query q :: ops)) : Admissible e ops :=
  fun p hp => h p (by simpa [posesOf] using hp)

/-- history induction: a collider that is "fresh at `last` up to the start index" produces the
outputs of the fresh-construction semantics -/
theorem run_eq_runFresh (e : Engine) (K : Kernels α) (shape : Shape α) :
    ∀ (ops : List (Op α)) (last : Arr (M4 α)) (idx : Nat) (f : Collider α),
      atPose e K shape last = .ok f → Admissible e ops →
      run e K (f.setFirstIdx idx) ops = runFresh e K shape last idx ops := by
  intro ops
  induction ops with
  | nil => intro last idx f _ _; rfl
  | cons op ops ih =>
    intro last idx f hf hadm
    cases op with
    | updatePose p =>
      obtain ⟨hp, hadm'⟩ := admissible_cons_update hadm
      obtain ⟨f', hf', hu⟩ := update_atPose e K shape last p f idx hf hp
      simp only [Collider.updatePose] at hu
      simp only [run, runV, stepV, runFresh, hf', hu, updOut]
      exact congrArg _ (ih p idx f' hf' hadm')
    | query q =>
      have hadm' := admissible_cons_query hadm
      have hst := query_state e K (f.setFirstIdx idx) q
      rw [setFirstIdx_setFirstIdx] at hst
      simp only [run, runV, stepV, runFresh, hf]
      refine congrArg _ ?_
      have := ih last ((f.setFirstIdx idx).query e K q).1.firstIdx f hf hadm'
      rw [← hst] at this
      exact this

/-- the state after a history is the freshly constructed collider at the last pose, up to
the start index (the cache invariant) -/
theorem finalState_eq (e : Engine) (K : Kernels α) (shape : Shape α) :
    ∀ (ops : List (Op α)) (last : Arr (M4 α)) (idx : Nat) (f : Collider α),
      atPose e K shape last = .ok f → Admissible e ops →
      ∃ f' idx', atPose e K shape (lastPose last ops) = .ok f' ∧
        finalState e K (f.setFirstIdx idx) ops = f'.setFirstIdx idx' := by
  intro ops
  induction ops with
  | nil => intro last idx f hf _; exact ⟨f, idx, hf, rfl⟩
  | cons op ops ih =>
    intro last idx f hf hadm
    cases op with
    | updatePose p =>
      obtain ⟨hp, hadm'⟩ := admissible_cons_update hadm
      obtain ⟨f', hf', hu⟩ := update_atPose e K shape last p f idx hf hp
      simp only [Collider.updatePose] at hu
      simp only [finalState, step, stepV, lastPose, hu]
      exact ih p idx f' hf' hadm'
    | query q =>
      have hadm' := admissible_cons_query hadm
      have hst := query_state e K (f.setFirstIdx idx) q
      rw [setFirstIdx_setFirstIdx] at hst
      simp only [finalState, step, stepV, lastPose]
      rw [hst]
      exact ih last _ f hf hadm'

/-- without a mesh nothing is carried over at all -/
theorem runFresh_eq_plain_of_noMesh (e : Engine) (K : Kernels α) (shape : Shape α)
    (hm : shape.hasMesh = false) :
    ∀ (ops : List (Op α)) (last : Arr (M4 α)) (idx : Nat),
      runFresh e K shape last idx ops = runFreshPlain e K shape last ops := by
  intro ops
  induction ops with
  | nil => intro last idx; rfl
  | cons op ops ih =>
    intro last idx
    cases op with
    | updatePose p => simp only [runFresh, runFreshPlain, ih]
    | query q =>
      simp only [runFresh, runFreshPlain]
      cases hf : atPose e K shape last with
      | error err => simp only [ih]
      | ok f =>
        have hno : f.hasMesh = false := by rw [atPose_hasMesh e K shape last f hf, hm]
        simp only [setFirstIdx_of_noMesh f hno, ih]

/-- with a start-independent hill climb nothing that is carried over can be observed -/
theorem runFresh_eq_plain_of_startIndependent (e : Engine) (K : Kernels α) (shape : Shape α)
    (hK : ∀ d i j vs cn sc, K.hillClimb d i vs cn sc = K.hillClimb d j vs cn sc) :
    ∀ (ops : List (Op α)) (last : Arr (M4 α)) (idx : Nat),
      runFresh e K shape last idx ops = runFreshPlain e K shape last ops := by
  intro ops
  induction ops with
  | nil => intro last idx; rfl
  | cons op ops ih =>
    intro last idx
    cases op with
    | updatePose p => simp only [runFresh, runFreshPlain, ih]
    | query q =>
      simp only [runFresh, runFreshPlain]
      cases hf : atPose e K shape last with
      | error err => simp only [ih]
      | ok f => simp only [query_out_of_startIndependent e K hK f q idx, ih]

end CS
end D3
