/-
C15 helper lemmas, part 5: in general position `intersect_halfplanes` writes at most `2 n` rows.

`GeneralPosition hps`: no intersection point of a boundary line `i` with a later line `a` lies
within the `EPSILON` band of a third later line `b` (in the un-normalised measure
`cross2d(dir_b, p - q_b)` the code itself uses).  Then for every first index `i` at most two
partners `j > i` give a valid point (the three validity tests put each of three crossing
parameters on the same side of the other two — impossible on a line), hence at most `2 n` rows are
written.  Before the repair this was the condition under which the `3 n` row buffer sufficed
(`intersectHalfplanes_before_fix_ok_general_position`); for the code as it is now
(`n (n-1) / 2 + 1` rows, never too small: `intersectHalfplanes_total`) it is a sharper bound on the
number of returned points (`intersectHalfplanes_general_position_count`).
-/
import D3.Proofs.HydroKernel

namespace D3
namespace Hydro

/-- does the pair `(i, j)` write a row? -/
noncomputable def pairValid (hps : List (HP ℝ)) (ij : Nat × Nat) : Bool :=
  match hps[ij.1]?, hps[ij.2]? with
  | some hi, some hj =>
    match intersectTwoHalfplanes hi hj with
    | some p => validPoint hps ij.1 ij.2 p
    | none => false
  | _, _ => false

theorem ihStep_eq (hps : List (HP ℝ)) (cap : Nat) (acc : List (V2 ℝ)) (ij : Nat × Nat)
    (hi : ij.1 < hps.length) (hj : ij.2 < hps.length) :
    (pairValid hps ij = false → ihStep hps cap acc ij = .ok acc) ∧
    (pairValid hps ij = true → acc.length < cap →
      ∃ p, ihStep hps cap acc ij = .ok (acc ++ [p])) := by
  unfold ihStep pairValid
  rw [List.getElem?_eq_getElem hi, List.getElem?_eq_getElem hj]
  simp only
  cases h2 : intersectTwoHalfplanes hps[ij.1] hps[ij.2] with
  | none => simp
  | some p =>
    simp only
    constructor
    · intro hv; rw [hv]; simp
    · intro hv hroom; rw [hv]; simp [hroom]

theorem foldl_count (hps : List (HP ℝ)) (cap : Nat) :
    ∀ (l : List (Nat × Nat)) (acc : List (V2 ℝ)),
      (∀ ij ∈ l, ij.1 < hps.length ∧ ij.2 < hps.length) →
      acc.length + (l.filter (pairValid hps)).length ≤ cap →
      ∃ res, l.foldlM (ihStep hps cap) acc = .ok res ∧
        res.length = acc.length + (l.filter (pairValid hps)).length
  | [], acc, _, _ => ⟨acc, rfl, by simp⟩
  | ij :: l, acc, hq, hlen => by
    obtain ⟨hf, ht⟩ := ihStep_eq hps cap acc ij (hq ij List.mem_cons_self).1 (hq ij List.mem_cons_self).2
    cases hv : pairValid hps ij with
    | false =>
      simp only [List.filter_cons, hv, Bool.false_eq_true, if_false] at hlen ⊢
      obtain ⟨res, h2, hl2⟩ := foldl_count hps cap l acc
        (fun x hx => hq x (List.mem_cons_of_mem _ hx)) hlen
      exact ⟨res, by rw [List.foldlM_cons, hf hv]; exact h2, hl2⟩
    | true =>
      simp only [List.filter_cons, hv, if_true, List.length_cons] at hlen ⊢
      obtain ⟨p, hp⟩ := ht hv (by omega)
      obtain ⟨res, h2, hl2⟩ := foldl_count hps cap l (acc ++ [p])
        (fun x hx => hq x (List.mem_cons_of_mem _ hx)) (by simp; omega)
      refine ⟨res, by rw [List.foldlM_cons, hp]; exact h2, ?_⟩
      rw [hl2]; simp; omega

/-! ### counting per first index -/

/-- the inner loop `for j in range(i + 1, n)` -/
def innerIdx (n i : Nat) : List (Nat × Nat) :=
  (List.range n).filterMap fun j => if i < j then some (i, j) else none

theorem pairIdx_eq (n : Nat) : pairIdx n = (List.range n).flatMap (innerIdx n) := rfl

theorem length_filter_flatMap_le {β γ : Type} (f : β → List γ) (p : γ → Bool) (c : Nat) :
    ∀ l : List β, (∀ a ∈ l, ((f a).filter p).length ≤ c) →
      ((l.flatMap f).filter p).length ≤ c * l.length
  | [], _ => by simp
  | a :: l, h => by
    simp only [List.flatMap_cons, List.filter_append, List.length_append, List.length_cons]
    have h1 := h a List.mem_cons_self
    have h2 := length_filter_flatMap_le f p c l (fun x hx => h x (List.mem_cons_of_mem _ hx))
    have : c * (l.length + 1) = c * l.length + c := by ring
    omega

theorem inner_filter_length (hps : List (HP ℝ)) (i : Nat) :
    ∀ L : List Nat,
      ((L.filterMap fun j => if i < j then some (i, j) else none).filter (pairValid hps)).length =
        (L.filter fun j => decide (i < j) && pairValid hps (i, j)).length
  | [] => rfl
  | j :: L => by
    have ih := inner_filter_length hps i L
    by_cases hij : i < j
    · cases hv : pairValid hps (i, j) <;> simp [hij, hv, ih]
    · simp [hij, ih]

theorem three_of_nodup {β : Type} : ∀ (M : List β), M.Nodup → 3 ≤ M.length →
    ∃ a b c, a ∈ M ∧ b ∈ M ∧ c ∈ M ∧ a ≠ b ∧ a ≠ c ∧ b ≠ c
  | a :: b :: c :: _, hn, _ => by
    simp only [List.nodup_cons, List.mem_cons, not_or] at hn
    exact ⟨a, b, c, by simp, by simp, by simp, hn.1.1, hn.1.2.1, hn.2.1.1⟩
  | [], _, h => by simp at h
  | [_], _, h => by simp at h
  | [_, _], _, h => by simp at h

/-! ### the geometric core -/

/-- no intersection of line `i` with a later line `a` lies in the `EPSILON` band of a third later
line `b` -/
def GeneralPosition (hps : List (HP ℝ)) : Prop :=
  ∀ (i a b : Nat) (hi ha hb : HP ℝ) (p : V2 ℝ), hps[i]? = some hi → hps[a]? = some ha →
    hps[b]? = some hb → i < a → i < b → a ≠ b → intersectTwoHalfplanes hi ha = some p →
    (eps : ℝ) < |hpSide hb p|

theorem intersectTwo_param {h1 h2 : HP ℝ} {p : V2 ℝ} (h : intersectTwoHalfplanes h1 h2 = some p) :
    ∃ t : ℝ, p = ⟨h1.p.x + h1.d.x * t, h1.p.y + h1.d.y * t⟩ := by
  unfold intersectTwoHalfplanes at h
  simp only at h
  split at h
  · cases h
  · simp only [Option.some.injEq] at h
    exact ⟨_, h.symm⟩

theorem hpSide_along (hb : HP ℝ) (P d : V2 ℝ) (s t : ℝ) :
    hpSide hb ⟨P.x + d.x * s, P.y + d.y * s⟩ =
      hpSide hb ⟨P.x + d.x * t, P.y + d.y * t⟩ + (s - t) * cross2d hb.d d := by
  simp only [hpSide_def, cross2d_def]; ring

theorem pairValid_unfold {hps : List (HP ℝ)} {i j : Nat} (h : pairValid hps (i, j) = true) :
    ∃ hi hj p, hps[i]? = some hi ∧ hps[j]? = some hj ∧ intersectTwoHalfplanes hi hj = some p ∧
      validPoint hps i j p = true := by
  unfold pairValid at h
  simp only at h
  split at h
  · rename_i hi hj hgi hgj
    split at h
    · rename_i p hp
      exact ⟨hi, hj, p, hgi, hgj, hp, h⟩
    · cases h
  · cases h

theorem same_side {x y z k : ℝ} (h1 : 0 < (x - y) * k) (h2 : 0 < (z - y) * k) :
    0 < (x - y) * (z - y) := by
  by_contra hc
  have hc' : (x - y) * (z - y) ≤ 0 := not_lt.mp hc
  have : ((x - y) * k) * ((z - y) * k) = ((x - y) * (z - y)) * (k * k) := by ring
  have hp := mul_pos h1 h2
  rw [this] at hp
  nlinarith [mul_self_nonneg k]

theorem no_middle {x y z : ℝ} (h1 : 0 < (x - y) * (z - y)) (h2 : 0 < (y - x) * (z - x))
    (h3 : 0 < (x - z) * (y - z)) : False := by
  have hp := mul_pos (mul_pos h1 h2) h3
  have : (x - y) * (z - y) * ((y - x) * (z - x)) * ((x - z) * (y - z)) =
      -(((x - y) * (y - z) * (z - x)) * ((x - y) * (y - z) * (z - x))) := by ring
  rw [this] at hp
  nlinarith [mul_self_nonneg ((x - y) * (y - z) * (z - x))]

/-- on one line, three later lines cannot all cross at valid points -/
theorem three_valid_false (hps : List (HP ℝ)) (gp : GeneralPosition hps) (i a b c : Nat)
    (hia : i < a) (hib : i < b) (hic : i < c) (hab : a ≠ b) (hac : a ≠ c) (hbc : b ≠ c)
    (va : pairValid hps (i, a) = true) (vb : pairValid hps (i, b) = true)
    (vc : pairValid hps (i, c) = true) : False := by
  obtain ⟨hi, ha, pa, hgi, hga, h2a, hva⟩ := pairValid_unfold va
  obtain ⟨hi', hb, pb, hgi', hgb, h2b, hvb⟩ := pairValid_unfold vb
  obtain ⟨hi'', hc, pc, hgi'', hgc, h2c, hvc⟩ := pairValid_unfold vc
  rw [hgi] at hgi' hgi''
  cases hgi'; cases hgi''
  obtain ⟨ta, rfl⟩ := intersectTwo_param h2a
  obtain ⟨tb, rfl⟩ := intersectTwo_param h2b
  obtain ⟨tc, rfl⟩ := intersectTwo_param h2c
  have oa := (intersectTwo_some h2a).2.2
  have ob := (intersectTwo_some h2b).2.2
  have oc := (intersectTwo_some h2c).2.2
  -- value of line `y` at the crossing with line `x`: strictly positive
  have pos : ∀ (x y : Nat) (hx hy : HP ℝ) (tx : ℝ), hps[x]? = some hx → hps[y]? = some hy →
      i < x → i < y → x ≠ y →
      intersectTwoHalfplanes hi hx = some ⟨hi.p.x + hi.d.x * tx, hi.p.y + hi.d.y * tx⟩ →
      validPoint hps i x ⟨hi.p.x + hi.d.x * tx, hi.p.y + hi.d.y * tx⟩ = true →
      0 < hpSide hy ⟨hi.p.x + hi.d.x * tx, hi.p.y + hi.d.y * tx⟩ := by
    intro x y hx hy tx hgx hgy hix hiy hxy h2 hv
    have hge := (validPoint_iff hps i x _).mp hv y hy hgy (by omega) (fun h => hxy h.symm)
    have hgp := gp i x y hi hx hy _ hgi hgx hgy hix hiy hxy h2
    by_contra hneg
    have hle := not_lt.mp hneg
    rw [abs_of_nonpos hle] at hgp
    linarith
  have pab := pos a b ha hb ta hga hgb hia hib hab h2a hva
  have pcb := pos c b hc hb tc hgc hgb hic hib (fun h => hbc h.symm) h2c hvc
  have pba := pos b a hb ha tb hgb hga hib hia (fun h => hab h.symm) h2b hvb
  have pca := pos c a hc ha tc hgc hga hic hia (fun h => hac h.symm) h2c hvc
  have pac := pos a c ha hc ta hga hgc hia hic hac h2a hva
  have pbc := pos b c hb hc tb hgb hgc hib hic hbc h2b hvb
  rw [hpSide_along hb hi.p hi.d ta tb, ob, zero_add] at pab
  rw [hpSide_along hb hi.p hi.d tc tb, ob, zero_add] at pcb
  rw [hpSide_along ha hi.p hi.d tb ta, oa, zero_add] at pba
  rw [hpSide_along ha hi.p hi.d tc ta, oa, zero_add] at pca
  rw [hpSide_along hc hi.p hi.d ta tc, oc, zero_add] at pac
  rw [hpSide_along hc hi.p hi.d tb tc, oc, zero_add] at pbc
  exact no_middle (same_side pab pcb) (same_side pba pca) (same_side pac pbc)

theorem inner_count_le_two (hps : List (HP ℝ)) (gp : GeneralPosition hps) (i : Nat) :
    ((innerIdx hps.length i).filter (pairValid hps)).length ≤ 2 := by
  unfold innerIdx
  rw [inner_filter_length]
  by_contra hgt
  have h3 : 3 ≤ ((List.range hps.length).filter
      fun j => decide (i < j) && pairValid hps (i, j)).length := by omega
  have hnd : ((List.range hps.length).filter
      fun j => decide (i < j) && pairValid hps (i, j)).Nodup := List.nodup_range.filter _
  obtain ⟨a, b, c, ha, hb, hc, hab, hac, hbc⟩ := three_of_nodup _ hnd h3
  simp only [List.mem_filter, Bool.and_eq_true, decide_eq_true_eq] at ha hb hc
  exact three_valid_false hps gp i a b c ha.2.1 hb.2.1 hc.2.1 hab hac hbc ha.2.2 hb.2.2 hc.2.2

/-- in general position at most `2 n` rows are written; any buffer with more rows than
`min (2 n) (number of pairs)` suffices -/
theorem intersectHalfplanesWith_general_position (rows : Nat → Nat) (hps : List (HP ℝ))
    (gp : GeneralPosition hps)
    (hrows : min (2 * hps.length) (pairIdx hps.length).length < rows hps.length) :
    ∃ res, intersectHalfplanesWith rows hps = .ok res ∧ res.length ≤ 2 * hps.length := by
  have hcount : ((pairIdx hps.length).filter (pairValid hps)).length ≤ 2 * hps.length := by
    rw [pairIdx_eq]
    have := length_filter_flatMap_le (innerIdx hps.length) (pairValid hps) 2
      (List.range hps.length) (fun i _ => inner_count_le_two hps gp i)
    simpa using this
  have hcount2 : ((pairIdx hps.length).filter (pairValid hps)).length ≤ (pairIdx hps.length).length :=
    List.length_filter_le _ _
  obtain ⟨res, hres, hl⟩ := foldl_count hps (rows hps.length) (pairIdx hps.length) []
    (fun ij hij => by
      have := mem_pairIdx hij
      exact ⟨by omega, this.2⟩)
    (by simp only [List.length_nil]; omega)
  simp only [List.length_nil, Nat.zero_add] at hl
  refine ⟨res, ?_, by omega⟩
  unfold intersectHalfplanesWith
  simp only [hres]
  have : res.length < rows hps.length := by omega
  simp [bind, Except.bind, this]

/-- **before the repair, the `3 n` row buffer sufficed in general position** -/
theorem intersectHalfplanes_before_fix_ok_general_position (hps : List (HP ℝ)) (h1 : 1 ≤ hps.length)
    (gp : GeneralPosition hps) :
    ∃ res, intersectHalfplanes_asIs_before_fix hps = .ok res ∧ res.length ≤ 2 * hps.length :=
  intersectHalfplanesWith_general_position bufferRows_asIs_before_fix hps gp
    (by simp only [bufferRows_asIs_before_fix]; omega)

/-- the code as it is now, in general position: at most `2 n` points are returned -/
theorem intersectHalfplanes_general_position_count (hps : List (HP ℝ)) (gp : GeneralPosition hps) :
    ∃ res, intersectHalfplanes hps = .ok res ∧ res.length ≤ 2 * hps.length :=
  intersectHalfplanesWith_general_position bufferRows hps gp
    (by rw [pairIdx_length]; simp only [bufferRows]; omega)

/-! ### a concrete list in general position (non-vacuity) -/

/-- `x ≥ 0`, `y ≥ 0`, `x + y ≤ 1` -/
def triR : List (HP ℝ) := [⟨⟨0, 0⟩, ⟨0, -1⟩⟩, ⟨⟨0, 0⟩, ⟨1, 0⟩⟩, ⟨⟨1, 0⟩, ⟨-1, 1⟩⟩]

theorem triR_gp : GeneralPosition triR := by
  intro i a b hi ha hb p hgi hga hgb hia hib hab h2
  have ha3 : a < 3 := by
    obtain ⟨h, _⟩ := List.getElem?_eq_some_iff.mp hga; simpa [triR] using h
  have hb3 : b < 3 := by
    obtain ⟨h, _⟩ := List.getElem?_eq_some_iff.mp hgb; simpa [triR] using h
  have hi0 : i = 0 := by omega
  subst hi0
  have hcases : (a = 1 ∧ b = 2) ∨ (a = 2 ∧ b = 1) := by omega
  rcases hcases with ⟨rfl, rfl⟩ | ⟨rfl, rfl⟩
  · simp only [triR, List.getElem?_cons_zero, List.getElem?_cons_succ, Option.some.injEq] at hgi hga hgb
    subst hgi hga hgb
    unfold intersectTwoHalfplanes at h2
    norm_num [cross2d_def, V2.sub, absS_real, eps, D3.Gen.utils__EPSILON] at h2
    subst h2
    norm_num [hpSide_def, eps, D3.Gen.utils__EPSILON]
  · simp only [triR, List.getElem?_cons_zero, List.getElem?_cons_succ, Option.some.injEq] at hgi hga hgb
    subst hgi hga hgb
    unfold intersectTwoHalfplanes at h2
    norm_num [cross2d_def, V2.sub, absS_real, eps, D3.Gen.utils__EPSILON] at h2
    subst h2
    norm_num [hpSide_def, eps, D3.Gen.utils__EPSILON]

end Hydro
end D3
