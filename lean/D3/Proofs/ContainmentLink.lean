/-
Helper lemmas for `D3/Properties/C04Link.lean`: the point sets of C04
(`D3.Containment.*`, D3/Proofs/ContainmentBasic.lean) and of C03 (`D3.Support.*`,
D3/Proofs/SupportSets.lean, SupportHull.lean, SupportMesh.lean) are the same sets, and an AABB
that encloses a set and is tight on it has, as its six bounds, the coordinates of any support
points of that set along `±x, ±y, ±z`.

Vocabulary defined here (no model function is re-defined):
* `ExtentsEq b sup`   : the six bounds of `b` are the coordinates of `sup (±eᵢ)` (total `sup`);
* `ExtentsMatch b S`  : same for a support *relation* `S d s` (functions that return `Except`):
                        for each of the six directions some `s` with `S (±eᵢ) s` exists and has
                        the bound as its coordinate;
* `ofSupport`         : forgets what C04's `aabb()` does not read — turns C03's collider value
                        (`Support.Collider`) into C04's (`Containment.Collider`): same
                        constructor arguments, a mesh keeps only its vertex list.
-/
import D3.Proofs.ContainmentCollider
import D3.Proofs.SupportCollider

namespace D3
namespace ContainmentLink
open Aabb (Box)
open Containment (Encloses TightOn)

/-! ### generic -/

theorem poseImage_congr {A : Pose ℝ} {K K' : V → Prop} (h : ∀ q, K q ↔ K' q) (p : V) :
    poseImage A K p ↔ poseImage A K' p := by
  constructor
  · rintro ⟨q, hq, rfl⟩; exact ⟨q, (h q).mp hq, rfl⟩
  · rintro ⟨q, hq, rfl⟩; exact ⟨q, (h q).mpr hq, rfl⟩

theorem encloses_congr {b : Box ℝ} {K K' : V → Prop} (h : ∀ p, K p ↔ K' p) (he : Encloses b K) :
    Encloses b K' := fun p hp => he p ((h p).mpr hp)

theorem tightOn_congr {b : Box ℝ} {K K' : V → Prop} (h : ∀ p, K p ↔ K' p) (ht : TightOn b K) :
    TightOn b K' := by
  obtain ⟨⟨p1, k1, e1⟩, ⟨p2, k2, e2⟩, ⟨p3, k3, e3⟩, ⟨p4, k4, e4⟩, ⟨p5, k5, e5⟩, ⟨p6, k6, e6⟩⟩ := ht
  exact ⟨⟨p1, (h _).mp k1, e1⟩, ⟨p2, (h _).mp k2, e2⟩, ⟨p3, (h _).mp k3, e3⟩,
    ⟨p4, (h _).mp k4, e4⟩, ⟨p5, (h _).mp k5, e5⟩, ⟨p6, (h _).mp k6, e6⟩⟩

/-! ### local / world sets: C04's definition ↔ C03's definition -/

/-- the two inductive convex hulls (`seg` / `segment`) generate the same set -/
theorem hullSet_iff (vs : List V) (p : V) : Containment.hullSet vs p ↔ Support.hullSet vs p := by
  constructor
  · intro h
    induction h with
    | vertex hv => exact .vertex hv
    | seg _ _ h0 h1 iha ihb => exact .segment iha ihb h0 h1
  · intro h
    induction h with
    | vertex hv => exact .vertex hv
    | segment _ _ h0 h1 iha ihb => exact .seg iha ihb h0 h1

/-- box: both sides take the *full* edge lengths -/
theorem boxLocal_iff (size q : V) : Containment.boxLocal size q ↔ Support.boxSizeSet size q := by
  constructor
  · rintro ⟨a, b, c, d, e, f⟩; exact ⟨⟨a, b⟩, ⟨c, d⟩, ⟨e, f⟩⟩
  · rintro ⟨⟨a, b⟩, ⟨c, d⟩, ⟨e, f⟩⟩; exact ⟨a, b, c, d, e, f⟩

/-- ellipsoid: image of the unit ball under `diag(radii)` vs `Σ (qᵢ/rᵢ)² ≤ 1`; needs non-zero
radii (for a zero radius C04's set is a flat ellipse while C03's inequality divides by zero) -/
theorem ellipsoidLocal_iff {radii : V} (hx : radii.x ≠ 0) (hy : radii.y ≠ 0) (hz : radii.z ≠ 0)
    (q : V) : Containment.ellipsoidLocal radii q ↔ Support.ellipsoidLocalSet radii q := by
  unfold Containment.ellipsoidLocal Support.ellipsoidLocalSet
  constructor
  · rintro ⟨u, hu, rfl⟩
    have e1 : radii.x * u.x / radii.x = u.x := by field_simp
    have e2 : radii.y * u.y / radii.y = u.y := by field_simp
    have e3 : radii.z * u.z / radii.z = u.z := by field_simp
    simp only [e1, e2, e3]
    exact hu
  · intro h
    refine ⟨⟨q.x / radii.x, q.y / radii.y, q.z / radii.z⟩, h, ?_⟩
    apply V3.ext' <;> simp only <;> field_simp

/-- ellipse: `(u·r0)·a0 + (v·r1)·a1` with `u² + v² ≤ 1` vs `a·a0 + b·a1` with
`(a/r0)² + (b/r1)² ≤ 1`; needs non-zero radii -/
theorem ellipseSet_iff (c a0 a1 : V) {r0 r1 : ℝ} (h0 : r0 ≠ 0) (h1 : r1 ≠ 0) (p : V) :
    Containment.ellipseSet c a0 a1 r0 r1 p ↔ Support.ellipseSet c a0 a1 r0 r1 p := by
  unfold Containment.ellipseSet Support.ellipseSet
  constructor
  · rintro ⟨u, v, huv, rfl⟩
    refine ⟨u * r0, v * r1, ?_, ?_⟩
    · have e1 : u * r0 / r0 = u := by field_simp
      have e2 : v * r1 / r1 = v := by field_simp
      rw [e1, e2]; exact huv
    · apply V3.ext' <;> simp only [V3.add_x, V3.add_y, V3.add_z, V3.smul_x, V3.smul_y, V3.smul_z] <;>
        ring
  · rintro ⟨a, b, hab, rfl⟩
    refine ⟨a / r0, b / r1, hab, ?_⟩
    have e1 : a / r0 * r0 = a := by field_simp
    have e2 : b / r1 * r1 = b := by field_simp
    rw [e1, e2]
    apply V3.ext' <;> simp only [V3.add_x, V3.add_y, V3.add_z, V3.smul_x, V3.smul_y, V3.smul_z] <;>
      ring

/-- cone: C04 describes the points as `(1−s)·(base point) + s·apex`, C03 by the inequality of the
shrinking cross-section; both have the base disk at `z = 0` and the apex at `(0,0,h)` -/
theorem coneLocal_iff (r : ℝ) {h : ℝ} (hh : 0 < h) (q : V) :
    Containment.coneLocal r h q ↔ Support.coneLocalSet r h q := by
  unfold Containment.coneLocal Support.coneLocalSet
  have hh2 : 0 < h * h := mul_pos hh hh
  constructor
  · rintro ⟨s, x, y, hs0, hs1, hxy, rfl⟩
    refine ⟨mul_nonneg hs0 hh.le, by nlinarith, ?_⟩
    have key : r * r * ((h - s * h) * (h - s * h)) -
        h * h * ((1 - s) * x * ((1 - s) * x) + (1 - s) * y * ((1 - s) * y)) =
        (h * (1 - s)) * (h * (1 - s)) * (r * r - (x * x + y * y)) := by ring
    have := mul_nonneg (mul_self_nonneg (h * (1 - s))) (sub_nonneg.mpr hxy)
    linarith
  · rintro ⟨hz0, hz1, hle⟩
    rcases eq_or_lt_of_le hz1 with hz | hz
    · -- the apex plane: only the apex itself
      rw [hz, sub_self, mul_zero, mul_zero] at hle
      have hs : q.x * q.x + q.y * q.y ≤ 0 := by
        by_contra hc
        have := mul_pos hh2 (not_le.mp hc)
        linarith
      have hx : q.x = 0 := by nlinarith [mul_self_nonneg q.x, mul_self_nonneg q.y]
      have hy : q.y = 0 := by nlinarith [mul_self_nonneg q.x, mul_self_nonneg q.y]
      refine ⟨1, 0, 0, zero_le_one, le_refl _, by nlinarith [mul_self_nonneg r], ?_⟩
      apply V3.ext' <;> simp [hx, hy, hz]
    · have ht : 0 < 1 - q.z / h := sub_pos.mpr ((div_lt_one hh).mpr hz)
      have htz : h * (1 - q.z / h) = h - q.z := by field_simp
      refine ⟨q.z / h, q.x / (1 - q.z / h), q.y / (1 - q.z / h), div_nonneg hz0 hh.le,
        (div_le_one hh).mpr hz1, ?_, ?_⟩
      · rw [div_mul_div_comm, div_mul_div_comm, ← add_div, div_le_iff₀ (mul_pos ht ht)]
        have e : r * r * ((h - q.z) * (h - q.z)) =
            h * h * (r * r * ((1 - q.z / h) * (1 - q.z / h))) := by rw [← htz]; ring
        rw [e] at hle
        exact le_of_mul_le_mul_left hle hh2
      · apply V3.ext' <;> simp only <;> field_simp

theorem sub_add_cancel_vec (p q : V) : p = q + (p - q) := by
  apply V3.ext' <;> simp

theorem add_sub_cancel_vec (x u : V) : x + u - x = u := by
  apply V3.ext' <;> simp

/-- margin: "within `m` of `K`" vs "Minkowski sum of `K` with the closed `m`-ball" -/
theorem marginSet_iff {K K' : V → Prop} (hK : ∀ q, K q ↔ K' q) (m : ℝ) (p : V) :
    Containment.marginSet K m p ↔ Support.marginSet K' m p := by
  unfold Containment.marginSet Support.marginSet
  constructor
  · rintro ⟨q, hq, hd⟩
    exact ⟨q, p - q, (hK q).mp hq, hd, sub_add_cancel_vec p q⟩
  · rintro ⟨x, u, hx, hu, rfl⟩
    exact ⟨x, (hK x).mpr hx, by rw [add_sub_cancel_vec]; exact hu⟩

/-! ### an enclosing, tight AABB reads off the support extents -/

section extents
variable {b : Box ℝ} {K : V → Prop} (he : Encloses b K) (ht : TightOn b K) {s : V}
include he ht

theorem hi0_eq (hs : IsSupport K ⟨1, 0, 0⟩ s) : b.hi0 = s.x := by
  obtain ⟨p, hp, e⟩ := ht.2.1
  have h1 := (he s hs.1).2.1
  have h2 := hs.2 p hp
  simp only [V3.dot_def] at h2
  linarith

theorem lo0_eq (hs : IsSupport K ⟨-1, 0, 0⟩ s) : b.lo0 = s.x := by
  obtain ⟨p, hp, e⟩ := ht.1
  have h1 := (he s hs.1).1
  have h2 := hs.2 p hp
  simp only [V3.dot_def] at h2
  linarith

theorem hi1_eq (hs : IsSupport K ⟨0, 1, 0⟩ s) : b.hi1 = s.y := by
  obtain ⟨p, hp, e⟩ := ht.2.2.2.1
  have h1 := (he s hs.1).2.2.2.1
  have h2 := hs.2 p hp
  simp only [V3.dot_def] at h2
  linarith

theorem lo1_eq (hs : IsSupport K ⟨0, -1, 0⟩ s) : b.lo1 = s.y := by
  obtain ⟨p, hp, e⟩ := ht.2.2.1
  have h1 := (he s hs.1).2.2.1
  have h2 := hs.2 p hp
  simp only [V3.dot_def] at h2
  linarith

theorem hi2_eq (hs : IsSupport K ⟨0, 0, 1⟩ s) : b.hi2 = s.z := by
  obtain ⟨p, hp, e⟩ := ht.2.2.2.2.2
  have h1 := (he s hs.1).2.2.2.2.2
  have h2 := hs.2 p hp
  simp only [V3.dot_def] at h2
  linarith

theorem lo2_eq (hs : IsSupport K ⟨0, 0, -1⟩ s) : b.lo2 = s.z := by
  obtain ⟨p, hp, e⟩ := ht.2.2.2.2.1
  have h1 := (he s hs.1).2.2.2.2.1
  have h2 := hs.2 p hp
  simp only [V3.dot_def] at h2
  linarith

end extents

/-- the six bounds of `b` are the coordinates of the support points `sup (±eᵢ)` -/
def ExtentsEq (b : Box ℝ) (sup : V → V) : Prop :=
  b.hi0 = (sup ⟨1, 0, 0⟩).x ∧ b.lo0 = (sup ⟨-1, 0, 0⟩).x ∧
  b.hi1 = (sup ⟨0, 1, 0⟩).y ∧ b.lo1 = (sup ⟨0, -1, 0⟩).y ∧
  b.hi2 = (sup ⟨0, 0, 1⟩).z ∧ b.lo2 = (sup ⟨0, 0, -1⟩).z

/-- the same for a support relation `S d s` ("the call with direction `d` returns `s`"): for each
of the six directions an answer exists and its coordinate is the bound -/
def ExtentsMatch (b : Box ℝ) (S : V → V → Prop) : Prop :=
  (∃ s, S ⟨1, 0, 0⟩ s ∧ b.hi0 = s.x) ∧ (∃ s, S ⟨-1, 0, 0⟩ s ∧ b.lo0 = s.x) ∧
  (∃ s, S ⟨0, 1, 0⟩ s ∧ b.hi1 = s.y) ∧ (∃ s, S ⟨0, -1, 0⟩ s ∧ b.lo1 = s.y) ∧
  (∃ s, S ⟨0, 0, 1⟩ s ∧ b.hi2 = s.z) ∧ (∃ s, S ⟨0, 0, -1⟩ s ∧ b.lo2 = s.z)

theorem extentsEq_of_support {b : Box ℝ} {K : V → Prop} (he : Encloses b K) (ht : TightOn b K)
    (sup : V → V) (h : ∀ d, IsSupport K d (sup d)) : ExtentsEq b sup :=
  ⟨hi0_eq he ht (h _), lo0_eq he ht (h _), hi1_eq he ht (h _), lo1_eq he ht (h _),
    hi2_eq he ht (h _), lo2_eq he ht (h _)⟩

theorem extentsMatch_of_support {b : Box ℝ} {K : V → Prop} (he : Encloses b K) (ht : TightOn b K)
    (S : V → V → Prop) (h : ∀ d, ∃ s, S d s ∧ IsSupport K d s) : ExtentsMatch b S := by
  refine ⟨?_, ?_, ?_, ?_, ?_, ?_⟩
  · obtain ⟨s, h1, h2⟩ := h ⟨1, 0, 0⟩; exact ⟨s, h1, hi0_eq he ht h2⟩
  · obtain ⟨s, h1, h2⟩ := h ⟨-1, 0, 0⟩; exact ⟨s, h1, lo0_eq he ht h2⟩
  · obtain ⟨s, h1, h2⟩ := h ⟨0, 1, 0⟩; exact ⟨s, h1, hi1_eq he ht h2⟩
  · obtain ⟨s, h1, h2⟩ := h ⟨0, -1, 0⟩; exact ⟨s, h1, lo1_eq he ht h2⟩
  · obtain ⟨s, h1, h2⟩ := h ⟨0, 0, 1⟩; exact ⟨s, h1, hi2_eq he ht h2⟩
  · obtain ⟨s, h1, h2⟩ := h ⟨0, 0, -1⟩; exact ⟨s, h1, lo2_eq he ht h2⟩

/-! ### the collider sum types -/

/-- C03's collider value as C04's: same constructor arguments; `MeshGraph` keeps its pose and
vertex list (its `aabb()` reads nothing else) -/
def ofSupport : Support.Collider ℝ → Containment.Collider ℝ
  | .sphere c r => .sphere c r
  | .capsule A r h => .capsule A r h
  | .ellipsoid A radii => .ellipsoid A radii
  | .cylinder A r l => .cylinder A r l
  | .disk c r n => .disk c r n
  | .ellipse c a0 a1 r0 r1 => .ellipse c a0 a1 r0 r1
  | .cone A r h => .cone A r h
  | .box A size => .box A size
  | .hull vs => .hull vs
  | .mesh A m _ => .mesh A m.verts.toList
  | .margin c m => .margin (ofSupport c) m

/-- under C04's well-formedness the two point sets of a collider coincide -/
theorem pts_iff : ∀ c : Support.Collider ℝ, (ofSupport c).WF → ∀ p, (ofSupport c).pts p ↔ c.pointSet p
  | .sphere _ _, _, _ => Iff.rfl
  | .capsule _ _ _, _, _ => Iff.rfl
  | .ellipsoid _ _, h, p =>
    poseImage_congr (ellipsoidLocal_iff (ne_of_gt h.2.1) (ne_of_gt h.2.2.1) (ne_of_gt h.2.2.2)) p
  | .cylinder _ _ _, _, _ => Iff.rfl
  | .disk _ _ _, _, _ => Iff.rfl
  | .ellipse c a0 a1 _ _, h, p => ellipseSet_iff c a0 a1 (ne_of_gt h.1) (ne_of_gt h.2.1) p
  | .cone _ r _, h, p => poseImage_congr (coneLocal_iff r h.2.2) p
  | .box _ size, _, p => poseImage_congr (boxLocal_iff size) p
  | .hull vs, _, p => hullSet_iff vs p
  | .mesh _ m _, _, p => poseImage_congr (hullSet_iff m.verts.toList) p
  | .margin c m, h, p => marginSet_iff (pts_iff c h.1) m p

/-- C04's well-formedness implies C03's on colliders without a mesh (C03 asks less: no
orthonormality, no unit ellipse axes) -/
theorem wf_of_wf : ∀ c : Support.Collider ℝ, (ofSupport c).WF → c.meshFree → c.WF
  | .sphere _ _, h, _ => h
  | .capsule _ _ _, h, _ => h.2
  | .ellipsoid _ _, h, _ => h.2
  | .cylinder _ _ _, h, _ => h.2
  | .disk _ _ _, h, _ => h
  | .ellipse _ _ _ _ _, h, _ => ⟨h.1, h.2.1⟩
  | .cone _ _ _, h, _ => h.2
  | .box _ _, h, _ => h.2
  | .hull _, h, _ => h
  | .mesh _ _ _, _, hf => absurd hf (by simp [Support.Collider.meshFree])
  | .margin c _, h, hf => ⟨wf_of_wf c h.1 hf, h.2⟩

end ContainmentLink
end D3
