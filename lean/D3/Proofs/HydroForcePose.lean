/-
Pose algebra behind `express_in` at ℝ: what the re-expressed vertices are, that the
world-frame vertices are invariant, that re-expressing composes, and that a common rigid
motion of both bodies leaves the coordinates in the frame of body 2 unchanged.
-/
import D3.Spec.Vec
import D3.Model.HydroForce

set_option linter.unusedSectionVars false

namespace D3
namespace HydroForce

theorem invertTransform_eq_inv (A : Pose ℝ) : invertTransform A = A.inv := rfl
theorem matMul4_eq_comp (A B : Pose ℝ) : matMul4 A B = A.comp B := rfl

/-- the 4×4 product acts as the composition of the two maps (pure algebra, any matrices) -/
theorem matMul4_apply (A B : Pose ℝ) (v : V) : (matMul4 A B).apply v = A.apply (B.apply v) := by
  apply V3.ext' <;>
    simp only [matMul4, Pose.apply, M3.mul, M3.transpose, M3.mulVec, M3.col0, M3.col1, M3.col2,
      V3.dot_def, V3.add_x, V3.add_y, V3.add_z] <;> ring

/-- `invert_transform(A)` applied to a point is `Rᵀ (p − t)` (pure algebra) -/
theorem invertTransform_apply (A : Pose ℝ) (v : V) : (invertTransform A).apply v = A.applyInv v := by
  apply V3.ext' <;>
    simp only [invertTransform, Pose.apply, Pose.applyInv, M3.transpose, M3.mulVec, M3.tmulVec,
      M3.col0, M3.col1, M3.col2, V3.dot_def, V3.add_x, V3.add_y, V3.add_z, V3.sub_x, V3.sub_y,
      V3.sub_z, V3.neg_x, V3.neg_y, V3.neg_z] <;> ring

/-- the map `express_in` applies to every vertex: `new⁻¹ ∘ pose` -/
def reexpress (pose newPose : Pose ℝ) (v : V) : V := newPose.applyInv (pose.apply v)

theorem body2new_apply (pose newPose : Pose ℝ) (v : V) :
    (matMul4 (invertTransform newPose) pose).apply v = reexpress pose newPose v := by
  rw [matMul4_apply, invertTransform_apply]; rfl

theorem transformPoints_eq_map (A : Pose ℝ) (ps : List V) : transformPoints A ps = ps.map A.apply := rfl

/-- vertices after `express_in` (any matrices, no orthonormality needed) -/
theorem expressIn_verts (b : Body ℝ) (N : Pose ℝ) :
    (b.expressIn N).verts = b.verts.map (reexpress b.pose N) := by
  simp only [Body.expressIn, transformPoints_eq_map]
  apply List.map_congr_left
  intro v _
  exact body2new_apply b.pose N v

@[simp] theorem expressIn_pose (b : Body ℝ) (N : Pose ℝ) : (b.expressIn N).pose = N := rfl
@[simp] theorem expressIn_tets (b : Body ℝ) (N : Pose ℝ) : (b.expressIn N).tets = b.tets := rfl
@[simp] theorem expressIn_pots (b : Body ℝ) (N : Pose ℝ) : (b.expressIn N).pots = b.pots := rfl
@[simp] theorem expressIn_cTetPts (b : Body ℝ) (N : Pose ℝ) : (b.expressIn N).cTetPts = none := rfl
@[simp] theorem expressIn_cCom (b : Body ℝ) (N : Pose ℝ) : (b.expressIn N).cCom = none := rfl
@[simp] theorem expressIn_cAabbs (b : Body ℝ) (N : Pose ℝ) : (b.expressIn N).cAabbs = none := rfl
@[simp] theorem expressIn_cTree (b : Body ℝ) (N : Pose ℝ) : (b.expressIn N).cTree = none := rfl

/-- two bodies are equal when all fields are -/
theorem Body.ext' {a b : Body ℝ} (h1 : a.pose = b.pose) (h2 : a.verts = b.verts) (h3 : a.tets = b.tets)
    (h4 : a.pots = b.pots) (h5 : a.cTetPts = b.cTetPts) (h6 : a.cCom = b.cCom)
    (h7 : a.cAabbs = b.cAabbs) (h8 : a.cTree = b.cTree) : a = b := by
  cases a; cases b; simp_all

/-- world-frame position of a re-expressed vertex = world-frame position of the original
(orthonormal new frame) -/
theorem reexpress_world (pose N : Pose ℝ) (hN : Orthonormal N.R) (v : V) :
    N.apply (reexpress pose N v) = pose.apply v :=
  Pose.apply_applyInv hN _

/-- re-expressing twice = re-expressing once in the last frame (orthonormal intermediate frame) -/
theorem reexpress_reexpress (pose A B : Pose ℝ) (hA : Orthonormal A.R) (v : V) :
    reexpress A B (reexpress pose A v) = reexpress pose B v := by
  unfold reexpress
  rw [Pose.apply_applyInv hA]

/-- re-expressing in the frame the body is already in changes nothing (orthonormal frame) -/
theorem reexpress_self (A : Pose ℝ) (hA : Orthonormal A.R) (v : V) : reexpress A A v = v :=
  Pose.applyInv_apply hA v

theorem mulVec_sub (R : Mat) (a b : V) : R.mulVec (a - b) = R.mulVec a - R.mulVec b := by
  apply V3.ext' <;> simp only [M3.mulVec, V3.dot_def, V3.sub_x, V3.sub_y, V3.sub_z] <;> ring

theorem mulVec_add (R : Mat) (a b : V) : R.mulVec (a + b) = R.mulVec a + R.mulVec b := by
  apply V3.ext' <;> simp only [M3.mulVec, V3.dot_def, V3.add_x, V3.add_y, V3.add_z] <;> ring

theorem mulVec_neg (R : Mat) (a : V) : R.mulVec (-a) = -(R.mulVec a) := by
  apply V3.ext' <;> simp only [M3.mulVec, V3.dot_def, V3.neg_x, V3.neg_y, V3.neg_z] <;> ring

theorem mul_mulVec (A B : Mat) (v : V) : (A.mul B).mulVec v = A.mulVec (B.mulVec v) := by
  apply V3.ext' <;>
    simp only [M3.mul, M3.transpose, M3.mulVec, M3.col0, M3.col1, M3.col2, V3.dot_def] <;> ring

theorem mul_tmulVec (A B : Mat) (v : V) : (A.mul B).tmulVec v = B.tmulVec (A.tmulVec v) := by
  apply V3.ext' <;>
    simp only [M3.mul, M3.transpose, M3.tmulVec, M3.col0, M3.col1, M3.col2, V3.dot_def] <;> ring

/-- `(g ∘ N)⁻¹ (g u) = N⁻¹ u` for an orthonormal `g` -/
theorem comp_applyInv_apply (g N : Pose ℝ) (hg : Orthonormal g.R) (u : V) :
    (matMul4 g N).applyInv (g.apply u) = N.applyInv u := by
  have e : g.apply u - (matMul4 g N).t = g.R.mulVec (u - N.t) := by
    rw [mulVec_sub]
    apply V3.ext' <;>
      simp only [matMul4, Pose.apply, V3.add_x, V3.add_y, V3.add_z, V3.sub_x, V3.sub_y, V3.sub_z] <;> ring
  unfold Pose.applyInv
  rw [e]
  show (g.R.mul N.R).tmulVec _ = _
  rw [mul_tmulVec, hg.tmulVec_mulVec]

/-- **frame-2 coordinates are invariant under a common rigid motion**: moving both poses by
the same orthonormal `g` leaves the vertex coordinates of body 1 in the frame of body 2
unchanged -/
theorem reexpress_common_motion (g P1 P2 : Pose ℝ) (hg : Orthonormal g.R) (v : V) :
    reexpress (matMul4 g P1) (matMul4 g P2) v = reexpress P1 P2 v := by
  unfold reexpress
  rw [matMul4_apply, comp_applyInv_apply g P2 hg]

/-- the product of two orthonormal matrices is orthonormal -/
theorem Orthonormal.mul {A B : Mat} (hA : Orthonormal A) (hB : Orthonormal B) :
    Orthonormal (A.mul B) := by
  have key : ∀ a b : V, V3.dot ((A.mul B).mulVec a) ((A.mul B).mulVec b) = V3.dot a b := by
    intro a b; rw [mul_mulVec, mul_mulVec, hA.dot_mulVec, hB.dot_mulVec]
  have keyT : ∀ a b : V, V3.dot ((A.mul B).tmulVec a) ((A.mul B).tmulVec b) = V3.dot a b := by
    intro a b; rw [mul_tmulVec, mul_tmulVec, hB.dot_tmulVec, hA.dot_tmulVec]
  -- columns are images of the unit vectors under mulVec, rows under tmulVec
  have c0 : (A.mul B).mulVec ⟨1, 0, 0⟩ = (A.mul B).col0 := by
    apply V3.ext' <;> simp [M3.mulVec, M3.col0, V3.dot_def]
  have c1 : (A.mul B).mulVec ⟨0, 1, 0⟩ = (A.mul B).col1 := by
    apply V3.ext' <;> simp [M3.mulVec, M3.col1, V3.dot_def]
  have c2 : (A.mul B).mulVec ⟨0, 0, 1⟩ = (A.mul B).col2 := by
    apply V3.ext' <;> simp [M3.mulVec, M3.col2, V3.dot_def]
  have r0 : (A.mul B).tmulVec ⟨1, 0, 0⟩ = (A.mul B).r0 := by
    apply V3.ext' <;> simp [M3.tmulVec, M3.col0, M3.col1, M3.col2, V3.dot_def]
  have r1 : (A.mul B).tmulVec ⟨0, 1, 0⟩ = (A.mul B).r1 := by
    apply V3.ext' <;> simp [M3.tmulVec, M3.col0, M3.col1, M3.col2, V3.dot_def]
  have r2 : (A.mul B).tmulVec ⟨0, 0, 1⟩ = (A.mul B).r2 := by
    apply V3.ext' <;> simp [M3.tmulVec, M3.col0, M3.col1, M3.col2, V3.dot_def]
  refine ⟨?_, ?_, ?_, ?_, ?_, ?_, ?_, ?_, ?_, ?_, ?_, ?_⟩
  · rw [← r0, keyT]; simp [V3.dot_def]
  · rw [← r1, keyT]; simp [V3.dot_def]
  · rw [← r2, keyT]; simp [V3.dot_def]
  · rw [← r0, ← r1, keyT]; simp [V3.dot_def]
  · rw [← r0, ← r2, keyT]; simp [V3.dot_def]
  · rw [← r1, ← r2, keyT]; simp [V3.dot_def]
  · rw [← c0, key]; simp [V3.dot_def]
  · rw [← c1, key]; simp [V3.dot_def]
  · rw [← c2, key]; simp [V3.dot_def]
  · rw [← c0, ← c1, key]; simp [V3.dot_def]
  · rw [← c0, ← c2, key]; simp [V3.dot_def]
  · rw [← c1, ← c2, key]; simp [V3.dot_def]

end HydroForce
end D3
