/-
C02 — exit-branch lemmas for the boolean MPR test (`D3.IsectMpr`).
`sup` is the support mapping of `A ⊖ B` (`IsSupport (mdiff A B) d (sup d)` for every `d`).
-/
import D3.Proofs.IntersectSpec
import D3.Model.IntersectMpr

namespace D3
namespace IsectMpr
open Isect

theorem EPS_pos : (0 : ℝ) < EPS := by
  unfold EPS D3.Gen.utils__EPSILON; norm_num

theorem MPR_TOL_val : (MPR_TOL : ℝ) = 0.0001 := rfl

theorem isZero_iff (x : ℝ) : isZero x ↔ x = 0 := by
  unfold isZero; constructor
  · rintro ⟨h1, h2⟩; linarith
  · rintro rfl; simp

theorem sdiv_def (v : V) (s : ℝ) : V3.sdiv v s = ⟨v.x / s, v.y / s, v.z / s⟩ := rfl

/-- `norm_vector` returns a unit vector, or the zero vector for the zero vector -/
theorem normVector_unit_or_zero (v : V) :
    V3.normSq (normVector v) = 1 ∨ (v = ⟨0, 0, 0⟩ ∧ normVector v = ⟨0, 0, 0⟩) := by
  unfold normVector
  simp only
  by_cases h : isZero (V3.norm v)
  · rw [if_pos h]
    rw [isZero_iff] at h
    have : V3.normSq v = 0 := by rw [← V3.norm_sq, h]; ring
    have hv := V3.normSq_eq_zero this
    exact Or.inr ⟨hv, hv⟩
  · rw [if_neg h]
    rw [isZero_iff] at h
    left
    have hsq := V3.norm_sq v
    rw [sdiv_def, V3.normSq_def]
    simp only
    have : V3.norm v * V3.norm v ≠ 0 := mul_ne_zero h h
    rw [V3.normSq_def] at hsq
    field_simp
    nlinarith

/-- `norm_vector v` is a non-negative multiple of `v` -/
theorem normVector_smul (v : V) : ∃ c : ℝ, 0 ≤ c ∧ normVector v = c * v := by
  unfold normVector
  simp only
  by_cases h : isZero (V3.norm v)
  · rw [if_pos h]; exact ⟨1, by norm_num, by apply V3.ext' <;> simp⟩
  · rw [if_neg h]
    rw [isZero_iff] at h
    have hpos : 0 < V3.norm v := lt_of_le_of_ne (V3.norm_nonneg v) (Ne.symm h)
    refine ⟨1 / V3.norm v, by positivity, ?_⟩
    rw [sdiv_def]; apply V3.ext' <;> simp <;> ring

/-! ### (2a) ORIGIN_OUTSIDE exits -/

/-- an exit of `_discover_portal` through one of its three `v·d < EPSILON` tests exhibits the tested
direction: it is a `norm_vector` output (unit, or zero only in the degenerate case) and the support value of
`A ⊖ B` along it is below `EPSILON` -/
def OutsideWitness (sup : V → V) : Prop :=
  ∃ dir : V, (V3.normSq dir = 1 ∨ dir = ⟨0, 0, 0⟩) ∧ V3.dot (sup dir) dir < EPS

theorem normSq_neg (v : V) : V3.normSq (-v) = V3.normSq v := by simp [V3.normSq_def]

theorem unit_or_zero_normVector (v : V) :
    V3.normSq (normVector v) = 1 ∨ normVector v = ⟨0, 0, 0⟩ := by
  rcases normVector_unit_or_zero v with h | ⟨_, h⟩
  · exact Or.inl h
  · exact Or.inr h

theorem unit_or_zero_neg {d : V} (h : V3.normSq d = 1 ∨ d = ⟨0, 0, 0⟩) :
    V3.normSq (-d) = 1 ∨ -d = (⟨0, 0, 0⟩ : V) := by
  rcases h with h | h
  · left; rw [normSq_neg]; exact h
  · right; rw [h]; apply V3.ext' <;> simp

/-- directions produced by `_iterate_discover_portal` are unit or zero when the incoming one is -/
theorem iterate_dir (P : Portal ℝ) (dir : V) (size : Nat)
    (h : V3.normSq dir = 1 ∨ dir = ⟨0, 0, 0⟩) :
    V3.normSq (iterateDiscoverPortal P dir size).2.1 = 1 ∨
      (iterateDiscoverPortal P dir size).2.1 = ⟨0, 0, 0⟩ := by
  unfold iterateDiscoverPortal
  split
  · exact unit_or_zero_normVector _
  · split
    · exact unit_or_zero_normVector _
    · exact h

/-- the discover loop: an `ORIGIN_OUTSIDE` result exhibits a witness direction -/
theorem discoverLoop_outside (sup : V → V) :
    ∀ (k it : Nat) (P : Portal ℝ) (dir : V), (V3.normSq dir = 1 ∨ dir = ⟨0, 0, 0⟩) →
      (discoverLoop sup k it P dir).state = .originOutsidePortal → OutsideWitness sup
  | 0, it, P, dir, hd, h => by
    unfold discoverLoop at h
    simp only at h
    split at h
    · rename_i hlt; exact ⟨dir, hd, hlt⟩
    · simp at h
  | k + 1, it, P, dir, hd, h => by
    unfold discoverLoop at h
    simp only at h
    split at h
    · rename_i hlt; exact ⟨dir, hd, hlt⟩
    · split at h
      · exact discoverLoop_outside sup k _ _ _ (iterate_dir _ _ _ hd) h
      · simp at h

/-- **`outside_exit_witness`.** Every `ORIGIN_OUTSIDE_PORTAL` result of `_discover_portal` (all three tests)
comes with a direction (unit, or zero in the degenerate collinear case) along which the support value of
`A ⊖ B` is `< EPSILON`. -/
theorem outside_exit_witness (c1 c2 : V) (sup : V → V) (maxIt : Nat)
    (h : (discoverPortal c1 c2 sup maxIt).state = .originOutsidePortal) : OutsideWitness sup := by
  unfold discoverPortal at h
  simp only at h
  split at h
  · rename_i h0
    exact ⟨_, unit_or_zero_normVector _, h0.2⟩
  · split at h
    · split at h <;> simp at h
    · split at h
      · rename_i h3
        exact ⟨_, unit_or_zero_normVector _, h3⟩
      · refine discoverLoop_outside sup _ _ _ _ ?_ h
        unfold searchDirectionPerpV012
        simp only
        split
        · exact unit_or_zero_neg (unit_or_zero_normVector _)
        · exact unit_or_zero_normVector _

/-- **`outside_portal_sound`.** With a true support mapping of `A ⊖ B`, a *unit* direction whose support value
is `< EPSILON` excludes a shared point `δ`-inside both colliders for every `δ ≥ EPSILON / 2`
(in particular for `δ = 1e-3·L ≥ 1e-3`). -/
theorem outside_portal_sound {A B : V → Prop} {sup : V → V}
    (hsup : ∀ d, IsSupport (mdiff A B) d (sup d)) {dir : V} (hd : V3.normSq dir = 1)
    (hlt : V3.dot (sup dir) dir < EPS) {δ : ℝ} (hδ : EPS ≤ 2 * δ) : ¬ SharedDeep A B δ := by
  have hδ0 : 0 ≤ δ := by linarith [EPS_pos]
  refine not_deep_of_small_support hδ0 hd (hsup dir) ?_
  rw [V3.dot_comm]; linarith

/-- combined form: an `ORIGIN_OUTSIDE_PORTAL` answer on a `δ`-deep pair can only come from the degenerate
zero search direction (`partial`: that case is not excluded) -/
theorem outside_portal_sound_nonzero_dir {A B : V → Prop} {sup : V → V} (c1 c2 : V) (maxIt : Nat)
    (hsup : ∀ d, IsSupport (mdiff A B) d (sup d)) {δ : ℝ} (hδ : EPS ≤ 2 * δ) (hdeep : SharedDeep A B δ)
    (h : (discoverPortal c1 c2 sup maxIt).state = .originOutsidePortal) :
    ∃ dir : V, dir = ⟨0, 0, 0⟩ ∧ V3.dot (sup dir) dir < EPS := by
  obtain ⟨dir, hd, hlt⟩ := outside_exit_witness c1 c2 sup maxIt h
  rcases hd with hd | hd
  · exact absurd hdeep (outside_portal_sound hsup hd hlt hδ)
  · exact ⟨dir, hd, hlt⟩

/-! ### (2b) False exits of `_refine_portal` -/

theorem encapsulatesOrigin_iff (v dir : V) :
    encapsulatesOrigin v dir = true ↔ -10.0 * EPS < V3.dot v dir := by
  unfold encapsulatesOrigin; simp

theorem ten_eps_pos : (0 : ℝ) < 10.0 * EPS := mul_pos (by norm_num) EPS_pos

/-- **`refine_false_sound` (support point not past the origin).** If `_refine_portal` answers False because
the new support point does not pass the origin along the portal normal, then every point of `A ⊖ B` has
`⟨dir, y⟩ ≤ -10·EPSILON < 0`: a separating plane, the colliders are disjoint. -/
theorem refine_false_sound {A B : V → Prop} {sup : V → V} (hsup : ∀ d, IsSupport (mdiff A B) d (sup d))
    {tol : ℝ} {P P' : Portal ℝ} (h : refineStep sup tol P = (some (false, 1), P')) :
    (∀ y, mdiff A B y → V3.dot (portalDirection P) y ≤ -10.0 * EPS) ∧ Disjoint' A B := by
  unfold refineStep at h
  simp only at h
  split at h
  · simp at h
  split at h
  · rename_i hne
    have hle : V3.dot (sup (portalDirection P)) (portalDirection P) ≤ -10.0 * EPS := by
      rw [encapsulatesOrigin_iff] at hne; exact not_lt.mp hne
    have hall : ∀ y, mdiff A B y → V3.dot (portalDirection P) y ≤ -10.0 * EPS := fun y hy => by
      have := (hsup (portalDirection P)).2 y hy
      rw [V3.dot_comm] at hle; linarith
    refine ⟨hall, disjoint_of_neg_support (d := portalDirection P) fun y hy => ?_⟩
    have := hall y hy
    have h10 := ten_eps_pos
    linarith
  split at h <;> simp at h

/-- the portal normal is orthogonal to the portal's edges: `v1, v2, v3` have the same dot product with it -/
theorem portalDirection_orth (P : Portal ℝ) :
    V3.dot P.v2 (portalDirection P) = V3.dot P.v1 (portalDirection P) ∧
    V3.dot P.v3 (portalDirection P) = V3.dot P.v1 (portalDirection P) := by
  obtain ⟨c, _, hc⟩ := normVector_smul (V3.cross (P.v2 - P.v1) (P.v3 - P.v1))
  unfold portalDirection
  rw [hc]
  simp only [V3.dot_def, V3.cross, V3.smul_x, V3.smul_y, V3.smul_z, V3.sub_x, V3.sub_y, V3.sub_z]
  constructor <;> ring

/-- **`refine_false_tolerance_sound` (tolerance exit).** If `_refine_portal` answers False through
`_portal_reach_tolerance`, the support value of `A ⊖ B` along the (unit) portal normal is below
`mpr_tolerance - 9·EPSILON`; hence the pair shares no point `δ`-inside both for `2δ ≥ mpr_tolerance`
("not deeper than mpr_tolerance"). -/
theorem refine_false_tolerance_sound {A B : V → Prop} {sup : V → V}
    (hsup : ∀ d, IsSupport (mdiff A B) d (sup d)) {tol : ℝ} {P P' : Portal ℝ}
    (h : refineStep sup tol P = (some (false, 2), P')) :
    V3.dot (sup (portalDirection P)) (portalDirection P) < tol - 9.0 * EPS ∧
    (∀ δ : ℝ, tol ≤ 2 * δ → ¬ SharedDeep A B δ) := by
  unfold refineStep at h
  simp only at h
  split at h
  · simp at h
  rename_i hne1
  split at h
  · simp at h
  split at h
  swap
  · simp at h
  rename_i hreach
  -- v1·dir ≤ -10 EPS
  have h1 : V3.dot P.v1 (portalDirection P) ≤ -10.0 * EPS := by
    rw [encapsulatesOrigin_iff] at hne1; exact not_lt.mp hne1
  obtain ⟨o2, o3⟩ := portalDirection_orth P
  have hmin : V3.dot (sup (portalDirection P)) (portalDirection P) - V3.dot P.v1 (portalDirection P)
      < tol + EPS := by
    unfold portalReachTolerance at hreach
    simp only [decide_eq_true_eq] at hreach
    rw [o2, o3, min_self, min_self] at hreach
    exact hreach
  have hval : V3.dot (sup (portalDirection P)) (portalDirection P) < tol - 9.0 * EPS := by
    have := EPS_pos
    nlinarith
  refine ⟨hval, fun δ hδ hdeep => ?_⟩
  -- the direction is unit: otherwise it is zero and v1·dir = 0 > -10 EPS
  have hunit : V3.normSq (portalDirection P) = 1 := by
    rcases unit_or_zero_normVector (V3.cross (P.v2 - P.v1) (P.v3 - P.v1)) with hu | hz
    · exact hu
    · exfalso
      have : V3.dot P.v1 (portalDirection P) = 0 := by
        unfold portalDirection; rw [hz]; simp [V3.dot_def]
      have h10 := ten_eps_pos
      linarith
  have hδ0 : 0 ≤ δ := by
    obtain ⟨z, hA, hB⟩ := hdeep
    -- from the margin lemma with the unit direction: 2δ ≤ support value < tol - 9 EPS ≤ 2δ unless δ < 0
    by_contra hneg
    rw [not_le] at hneg
    -- a negative δ still satisfies DeepIn for radius |δ|; use -δ
    have hA' : DeepIn A z (-δ) := fun x hx => hA x (by nlinarith)
    have hB' : DeepIn B z (-δ) := fun x hx => hB x (by nlinarith)
    have := deep_support_margin_unit (by linarith) ⟨z, hA', hB'⟩ hunit (hsup (portalDirection P))
    rw [V3.dot_comm] at this
    have hE := EPS_pos
    -- 2(-δ) ≤ h < tol - 9 EPS ≤ 2δ - 9 EPS < 0 contradiction with -δ > 0
    linarith
  have := deep_support_margin_unit hδ0 hdeep hunit (hsup (portalDirection P))
  rw [V3.dot_comm] at this
  have hE := EPS_pos
  linarith

/-! ### (2c) True exit of `_refine_portal` under the portal invariant -/

/-- the portal invariant of MPR: the origin ray from the interior point `v0` passes through the portal
triangle (`-v0` is a non-negative combination of the edge vectors `vi - v0`), and the portal faces away
from `v0` (`⟨n, vi - v0⟩ > 0` for the portal normal `n`).  libccd maintains it in exact arithmetic for
non-degenerate portals; the code under test does **not** always (view swap, `< EPSILON` ties): it is a
hypothesis here, and `refine_true_flat_portal_asIs_counterexample` shows it cannot be dropped. -/
structure PortalInv (P : Portal ℝ) (n : V) : Prop where
  ray : ∃ l1 l2 l3 : ℝ, 0 ≤ l1 ∧ 0 ≤ l2 ∧ 0 ≤ l3 ∧
    (⟨0, 0, 0⟩ : V) - P.v0 = l1 * (P.v1 - P.v0) + l2 * (P.v2 - P.v0) + l3 * (P.v3 - P.v0)
  facing : 0 < V3.dot n (P.v1 - P.v0)
  plane2 : V3.dot n P.v2 = V3.dot n P.v1
  plane3 : V3.dot n P.v3 = V3.dot n P.v1

/-- **`refine_true_sound` (exact form).** Under the portal invariant, if `⟨n, v1⟩ ≥ 0` (the origin is on the
`v0` side of the portal plane) the origin lies in the tetrahedron `hull{v0, v1, v2, v3}`; with
`v0..v3 ∈ A ⊖ B` convex this is a common point of the colliders. -/
theorem refine_true_sound {P : Portal ℝ} {n : V} (hinv : PortalInv P n) (h : 0 ≤ V3.dot n P.v1) :
    Hull4 P.v0 P.v1 P.v2 P.v3 ⟨0, 0, 0⟩ := by
  obtain ⟨⟨l1, l2, l3, h1, h2, h3, hray⟩, hface, hp2, hp3⟩ := hinv
  obtain ⟨c, hc⟩ : ∃ c, c = V3.dot n (P.v1 - P.v0) := ⟨_, rfl⟩
  rw [← hc] at hface
  -- ⟨n, -v0⟩ = (l1 + l2 + l3) c
  have hx := congrArg V3.x hray
  have hy := congrArg V3.y hray
  have hz := congrArg V3.z hray
  simp only [V3.sub_x, V3.sub_y, V3.sub_z, V3.add_x, V3.add_y, V3.add_z, V3.smul_x, V3.smul_y,
    V3.smul_z] at hx hy hz
  simp only [V3.dot_def, V3.sub_x, V3.sub_y, V3.sub_z] at hc hp2 hp3 h
  have e2 : n.x * (P.v2.x - P.v0.x) + n.y * (P.v2.y - P.v0.y) + n.z * (P.v2.z - P.v0.z) = c := by
    rw [hc]; linarith
  have e3 : n.x * (P.v3.x - P.v0.x) + n.y * (P.v3.y - P.v0.y) + n.z * (P.v3.z - P.v0.z) = c := by
    rw [hc]; linarith
  have e0 : -(n.x * P.v0.x + n.y * P.v0.y + n.z * P.v0.z) = l1 * c + l2 * c + l3 * c := by
    linear_combination n.x * hx + n.y * hy + n.z * hz - l1 * hc + l2 * e2 + l3 * e3
  have hsum : (l1 + l2 + l3) * c = c - (n.x * P.v1.x + n.y * P.v1.y + n.z * P.v1.z) := by
    rw [hc] at e0 ⊢
    linarith
  have hs1 : l1 + l2 + l3 ≤ 1 := by
    by_contra hgt
    rw [not_le] at hgt
    have : c < (l1 + l2 + l3) * c := by nlinarith
    linarith
  refine ⟨1 - (l1 + l2 + l3), l1, l2, l3, by linarith, h1, h2, h3, by ring, ?_⟩
  apply V3.ext' <;> simp only [V3.add_x, V3.add_y, V3.add_z, V3.smul_x, V3.smul_y, V3.smul_z] <;> linarith

/-- **`refine_true_sound_tol` (as coded, with the `-10·EPSILON` slack).** Under the portal invariant the True
exit of `_refine_portal` (`⟨v1, dir⟩ > -10·EPSILON`) yields a point `κ·v0` of the tetrahedron
`hull{v0..v3}` on the origin ray with `0 ≤ κ` and `κ·⟨n, -v0⟩ < 10·EPSILON`: the tetrahedron reaches the
origin up to `10·EPSILON` measured along the portal normal. -/
theorem refine_true_sound_tol {P : Portal ℝ} (hinv : PortalInv P (portalDirection P))
    (h : encapsulatesOrigin P.v1 (portalDirection P) = true) :
    ∃ κ : ℝ, 0 ≤ κ ∧ κ * V3.dot (portalDirection P) (⟨0, 0, 0⟩ - P.v0) < 10.0 * EPS ∧
      Hull4 P.v0 P.v1 P.v2 P.v3 (κ * P.v0) := by
  rw [encapsulatesOrigin_iff] at h
  set n := portalDirection P with hn
  by_cases h0 : 0 ≤ V3.dot n P.v1
  · refine ⟨0, le_refl _, by have := ten_eps_pos; simpa using this, ?_⟩
    have := refine_true_sound hinv h0
    have e : (0 : ℝ) * P.v0 = ⟨0, 0, 0⟩ := by apply V3.ext' <;> simp
    rw [e]; exact this
  · rw [not_le] at h0
    obtain ⟨⟨l1, l2, l3, h1, h2, h3, hray⟩, hface, hp2, hp3⟩ := hinv
    obtain ⟨c, hc⟩ : ∃ c, c = V3.dot n (P.v1 - P.v0) := ⟨_, rfl⟩
    rw [← hc] at hface
    have hx := congrArg V3.x hray
    have hy := congrArg V3.y hray
    have hz := congrArg V3.z hray
    simp only [V3.sub_x, V3.sub_y, V3.sub_z, V3.add_x, V3.add_y, V3.add_z, V3.smul_x, V3.smul_y,
      V3.smul_z] at hx hy hz
    rw [V3.dot_comm] at h
    simp only [V3.dot_def, V3.sub_x, V3.sub_y, V3.sub_z] at hc hp2 hp3 h h0 ⊢
    obtain ⟨s, hs⟩ : ∃ s, s = l1 + l2 + l3 := ⟨_, rfl⟩
    have e2 : n.x * (P.v2.x - P.v0.x) + n.y * (P.v2.y - P.v0.y) + n.z * (P.v2.z - P.v0.z) = c := by
      rw [hc]; linarith
    have e3 : n.x * (P.v3.x - P.v0.x) + n.y * (P.v3.y - P.v0.y) + n.z * (P.v3.z - P.v0.z) = c := by
      rw [hc]; linarith
    have e0 : -(n.x * P.v0.x + n.y * P.v0.y + n.z * P.v0.z) = s * c := by
      rw [hs]
      linear_combination n.x * hx + n.y * hy + n.z * hz - l1 * hc + l2 * e2 + l3 * e3
    -- n·v1 = c + n·v0 = c - s c < 0  ⇒  s > 1
    have hnv1 : n.x * P.v1.x + n.y * P.v1.y + n.z * P.v1.z = c - s * c := by linarith
    have hs1 : 1 < s := by
      by_contra hle
      rw [not_lt] at hle
      nlinarith
    have hspos : 0 < s := by linarith
    -- κ = 1 - 1/s ; the point κ v0 = v0 + (1/s)(-v0) lies on the portal triangle
    refine ⟨1 - 1 / s, by rw [sub_nonneg, div_le_one hspos]; exact le_of_lt hs1, ?_, ?_⟩
    · have : (1 - 1 / s) * (n.x * (0 - P.v0.x) + n.y * (0 - P.v0.y) + n.z * (0 - P.v0.z))
          = (s - 1) * c := by
        have : n.x * (0 - P.v0.x) + n.y * (0 - P.v0.y) + n.z * (0 - P.v0.z) = s * c := by linarith
        rw [this]; field_simp
      rw [this]
      -- (s-1) c = -(n·v1) < 10 EPS
      have hh : -10.0 * EPS < c - s * c := by rw [← hnv1]; exact h
      linarith
    · refine ⟨0, l1 / s, l2 / s, l3 / s, le_refl _, div_nonneg h1 (le_of_lt hspos),
        div_nonneg h2 (le_of_lt hspos), div_nonneg h3 (le_of_lt hspos), ?_, ?_⟩
      · have hsne : s ≠ 0 := ne_of_gt hspos
        have : l1 / s + l2 / s + l3 / s = (l1 + l2 + l3) / s := by ring
        rw [zero_add, this, ← hs]; exact div_self hsne
      · have hsne : s ≠ 0 := ne_of_gt hspos
        apply V3.ext' <;>
          simp only [V3.add_x, V3.add_y, V3.add_z, V3.smul_x, V3.smul_y, V3.smul_z] <;>
          field_simp <;> rw [hs] <;> linarith

/-! ### the True exit is *not* sound without the invariant: counterexample on the faithful model -/

/-- a flat portal: `v0..v3` in the plane `y = 0`, all with `z ≤ -1` -/
def flatPortal : Portal ℝ := ⟨⟨0, 0, -4⟩, ⟨1, 0, -1⟩, ⟨-1, 0, -1⟩, ⟨0, 0, -2⟩⟩

theorem flatPortal_dir : portalDirection flatPortal = ⟨0, -1, 0⟩ := by
  unfold portalDirection flatPortal normVector
  have hc : V3.cross ((⟨-1, 0, -1⟩ : V) - ⟨1, 0, -1⟩) ((⟨0, 0, -2⟩ : V) - ⟨1, 0, -1⟩) = ⟨0, -2, 0⟩ := by
    apply V3.ext' <;> simp [V3.cross] <;> norm_num
  simp only [hc]
  have hn : V3.norm (⟨0, -2, 0⟩ : V) = 2 := by
    rw [V3.norm_def, V3.normSq_def]
    rw [show ((0 : ℝ) * 0 + -2 * -2 + 0 * 0) = 2 * 2 by norm_num]
    exact Real.sqrt_mul_self (by norm_num)
  rw [hn]
  have : ¬ isZero (2 : ℝ) := by rw [isZero_iff]; norm_num
  rw [if_neg this, sdiv_def]
  apply V3.ext' <;> norm_num

/-- **`refine_true_flat_portal_asIs_counterexample`.** On the faithful model, `_refine_portal` answers True from
the flat portal `flatPortal` (for every support mapping and tolerance) although every point of
`hull{v0..v3}` has `z ≤ -1`, i.e. the tetrahedron stays at distance `≥ 1` from the origin: without the
non-degeneracy part of the portal invariant the True exit proves nothing.  (Finding
F-mpr-origin-on-portal-side-plane; concrete collider scenes in known_findings.d/C02.json.) -/
theorem refine_true_flat_portal_asIs_counterexample (sup : V → V) (tol : ℝ) :
    refineStep sup tol flatPortal = (some (true, 0), flatPortal) ∧
    ∀ x, Hull4 flatPortal.v0 flatPortal.v1 flatPortal.v2 flatPortal.v3 x → x.z ≤ -1 := by
  constructor
  · unfold refineStep
    simp only
    have : encapsulatesOrigin flatPortal.v1 (portalDirection flatPortal) = true := by
      rw [encapsulatesOrigin_iff, flatPortal_dir]
      have := ten_eps_pos
      simp [flatPortal, V3.dot_def]
      linarith
    rw [if_pos this]
  · rintro x ⟨a, b, c, d, ha, hb, hc, hd, hsum, rfl⟩
    simp only [flatPortal, V3.add_z, V3.smul_z]
    nlinarith

/-! ### last pass of the refinement loop, and the function-level forms -/

/-- every answer of `_refine_portal` is the answer of one pass of its `while True` body -/
theorem refinePortal_last_step (sup : V → V) (tol : ℝ) :
    ∀ (fuel it : Nat) (P : Portal ℝ) (b : Bool) (its br : Nat),
      refinePortal sup tol fuel it P = .ok (b, its, br) →
      ∃ P0 P', refineStep sup tol P0 = (some (b, br), P')
  | 0, _, _, _, _, _, h => by simp [refinePortal] at h
  | fuel + 1, it, P, b, its, br, h => by
    unfold refinePortal at h
    split at h
    · rename_i b' br' P' heq
      simp only [Except.ok.injEq, Prod.mk.injEq] at h
      obtain ⟨rfl, _, rfl⟩ := h
      exact ⟨P, P', heq⟩
    · exact refinePortal_last_step sup tol fuel _ _ _ _ _ h

/-- shape of the answers of `mpr_intersection` -/
theorem mprIntersection_cases {c1 c2 : V} {sA sB : V → V} {tol : ℝ} {maxIt fuel : Nat} {b : Bool}
    {dbr rbr : Nat} (h : mprIntersection c1 c2 sA sB tol maxIt fuel = .ok (b, dbr, rbr)) :
    (rbr = 99 ∧ b = false ∧ (discoverPortal c1 c2 (supMD sA sB) maxIt).state = .originOutsidePortal) ∨
    (∃ its, refinePortal (supMD sA sB) tol fuel 0 (discoverPortal c1 c2 (supMD sA sB) maxIt).P
        = .ok (b, its, rbr)) ∨
    (rbr = 99 ∧ b = true) := by
  unfold mprIntersection at h
  simp only at h
  split at h
  · rename_i hst
    simp only [Except.ok.injEq, Prod.mk.injEq] at h
    exact Or.inl ⟨h.2.2.symm, h.1.symm, hst⟩
  · split at h
    · rename_i b' its br' heq
      simp only [Except.ok.injEq, Prod.mk.injEq] at h
      obtain ⟨rfl, _, rfl⟩ := h
      exact Or.inr (Or.inl ⟨its, heq⟩)
    · cases h
  · simp only [Except.ok.injEq, Prod.mk.injEq] at h
    exact Or.inr (Or.inr ⟨h.2.2.symm, h.1.symm⟩)

/-- `supMD sA sB` is a support mapping of `A ⊖ B` -/
theorem supMD_isSupport {A B : V → Prop} {sA sB : V → V} (hA : ∀ d, IsSupport A d (sA d))
    (hB : ∀ d, IsSupport B d (sB d)) (d : V) : IsSupport (mdiff A B) d (supMD sA sB d) :=
  isSupport_mdiff (hA d) (hB (-d))

end IsectMpr
end D3
