/-
Control-flow theorems for `self_collision.detect` / `detect_any`, by induction over the
iteration order of `bvh.colliders_`, for an abstract candidate function (the broad phase)
and an abstract narrow phase `hit`.  Scalar-independent.
-/
import D3.Proofs.BvhDict

set_option linter.unusedSectionVars false
set_option linter.unusedVariables false

namespace D3
namespace Bvh

variable {α : Type}

theorem dGet_dSet_true (c : List (Frame × Bool)) (k x : Frame) (h : dGet c x = some true) :
    dGet (dSet c k true) x = some true := by
  by_cases hx : x = k
  · subst hx; exact dGet_dSet_eq c x true
  · rw [dGet_dSet_ne c k x true hx]; exact h

theorem dGet_dSet_true_false (c : List (Frame × Bool)) (k x : Frame)
    (h : dGet (dSet c k true) x = some false) : dGet c x = some false := by
  by_cases hx : x = k
  · subst hx
    rw [dGet_dSet_eq] at h
    cases h
  · rwa [dGet_dSet_ne c k x true hx] at h

theorem dGet_dSet_isSome (c : List (Frame × Bool)) (k x : Frame) (v : Bool)
    (h : (dGet c x).isSome = true) : (dGet (dSet c k v) x).isSome = true := by
  rw [dGet_isSome_iff] at *
  exact (mem_dKeys_dSet c k x v).mpr (Or.inr h)

/-! ### inner loop -/

theorem scan_true_mono (hit : Frame → Frame → Bool) (f : Frame) (gs : List (Frame × Collider α))
    (c : List (Frame × Bool)) (x : Frame) (h : dGet c x = some true) :
    dGet (scan hit f gs c) x = some true := by
  induction gs with
  | nil => exact h
  | cons p rest ih =>
    obtain ⟨g, cg⟩ := p
    by_cases hg : hit f g = true
    · simp only [scan, hg, if_true]
      exact dGet_dSet_true _ _ _ (dGet_dSet_true _ _ _ h)
    · simp only [scan, hg]
      exact ih

theorem scan_false (hit : Frame → Frame → Bool) (f : Frame) (gs : List (Frame × Collider α))
    (c : List (Frame × Bool)) (x : Frame) (h : dGet (scan hit f gs c) x = some false) :
    dGet c x = some false := by
  induction gs with
  | nil => exact h
  | cons p rest ih =>
    obtain ⟨g, cg⟩ := p
    by_cases hg : hit f g = true
    · simp only [scan, hg, if_true] at h
      exact dGet_dSet_true_false _ _ _ (dGet_dSet_true_false _ _ _ h)
    · simp only [scan, hg] at h
      exact ih h

theorem scan_isSome (hit : Frame → Frame → Bool) (f : Frame) (gs : List (Frame × Collider α))
    (c : List (Frame × Bool)) (x : Frame) (h : (dGet c x).isSome = true) :
    (dGet (scan hit f gs c) x).isSome = true := by
  induction gs with
  | nil => exact h
  | cons p rest ih =>
    obtain ⟨g, cg⟩ := p
    by_cases hg : hit f g = true
    · simp only [scan, hg, if_true]
      exact dGet_dSet_isSome _ _ _ _ (dGet_dSet_isSome _ _ _ _ h)
    · simp only [scan, hg]
      exact ih

/-- a hitting candidate marks the frame itself -/
theorem scan_hit (hit : Frame → Frame → Bool) (f : Frame) (gs : List (Frame × Collider α))
    (c : List (Frame × Bool)) (h : ∃ g, g ∈ dKeys gs ∧ hit f g = true) :
    dGet (scan hit f gs c) f = some true := by
  induction gs with
  | nil =>
    obtain ⟨g, hg, _⟩ := h
    simp [dKeys] at hg
  | cons p rest ih =>
    obtain ⟨g, cg⟩ := p
    by_cases hg : hit f g = true
    · simp only [scan, hg, if_true]
      exact dGet_dSet_true _ _ _ (dGet_dSet_eq _ _ _)
    · simp only [scan, hg]
      apply ih
      obtain ⟨g', hg', hh⟩ := h
      simp only [dKeys, List.map_cons, List.mem_cons] at hg'
      rcases hg' with rfl | hg'
      · exact absurd hh hg
      · exact ⟨g', hg', hh⟩

/-- only the frame itself (if some candidate hits) and a hitting candidate are marked -/
theorem scan_sound (hit : Frame → Frame → Bool) (f : Frame) (gs : List (Frame × Collider α))
    (c : List (Frame × Bool)) (x : Frame) (h : dGet (scan hit f gs c) x = some true) :
    dGet c x = some true ∨ (x = f ∧ ∃ g, g ∈ dKeys gs ∧ hit f g = true) ∨
      (x ∈ dKeys gs ∧ hit f x = true) := by
  induction gs with
  | nil => exact Or.inl h
  | cons p rest ih =>
    obtain ⟨g, cg⟩ := p
    by_cases hg : hit f g = true
    · simp only [scan, hg, if_true] at h
      by_cases hxg : x = g
      · subst hxg
        exact Or.inr (Or.inr ⟨by simp [dKeys], hg⟩)
      · rw [dGet_dSet_ne _ _ _ _ hxg] at h
        by_cases hxf : x = f
        · exact Or.inr (Or.inl ⟨hxf, g, by simp [dKeys], hg⟩)
        · rw [dGet_dSet_ne _ _ _ _ hxf] at h
          exact Or.inl h
    · simp only [scan, hg] at h
      rcases ih h with h1 | ⟨h1, g', hg', hh⟩ | ⟨h1, hh⟩
      · exact Or.inl h1
      · exact Or.inr (Or.inl ⟨h1, g', by simp only [dKeys, List.map_cons, List.mem_cons]; exact Or.inr hg', hh⟩)
      · exact Or.inr (Or.inr ⟨by simp only [dKeys, List.map_cons, List.mem_cons]; exact Or.inr h1, hh⟩)

/-! ### outer loops -/

/-- the broad phase answers, for every frame of the iteration, with a dict whose key set is
`{g | C f g}` -/
def CandSpec (cand : Frame → Collider α → Except Err (List (Frame × Collider α)))
    (C : Frame → Frame → Prop) (L : List (Frame × Collider α)) : Prop :=
  ∀ p ∈ L, ∃ gs, cand p.1 p.2 = .ok gs ∧ ∀ g, g ∈ dKeys gs ↔ C p.1 g

theorem CandSpec.tail {cand : Frame → Collider α → Except Err (List (Frame × Collider α))}
    {C : Frame → Frame → Prop} {p : Frame × Collider α} {L : List (Frame × Collider α)}
    (h : CandSpec cand C (p :: L)) : CandSpec cand C L :=
  fun q hq => h q (List.mem_cons_of_mem _ hq)

/-- **completeness of the `detect` loop.**  Started from a `contacts` dict whose `False`
entries are not revisited, the loop terminates normally, never un-marks a frame, gives every
visited frame an entry, and marks every visited frame that has a hitting candidate — the
early `continue` only skips frames that are already marked. -/
theorem detectLoop_complete (cand : Frame → Collider α → Except Err (List (Frame × Collider α)))
    (hit : Frame → Frame → Bool) (C : Frame → Frame → Prop) :
    ∀ (L : List (Frame × Collider α)) (c : List (Frame × Bool)),
      CandSpec cand C L → (dKeys L).Nodup → (∀ x, dGet c x = some false → x ∉ dKeys L) →
      ∃ c', detectLoop cand hit L c = .ok c' ∧
        (∀ x, dGet c x = some true → dGet c' x = some true) ∧
        (∀ x, (dGet c x).isSome = true → (dGet c' x).isSome = true) ∧
        (∀ p ∈ L, (dGet c' p.1).isSome = true) ∧
        (∀ p ∈ L, (∃ g, C p.1 g ∧ hit p.1 g = true) → dGet c' p.1 = some true)
  | [], c, _, _, _ => ⟨c, rfl, fun _ h => h, fun _ h => h, by simp, by simp⟩
  | (f, col) :: rest, c, hs, hn, hinv => by
    simp only [dKeys, List.map_cons, List.nodup_cons] at hn
    have hinv' : ∀ x, dGet c x = some false → x ∉ dKeys rest := by
      intro x hx hm
      exact hinv x hx (by simp only [dKeys, List.map_cons, List.mem_cons]; exact Or.inr hm)
    by_cases hsome : (dGet c f).isSome = true
    · -- `continue`
      obtain ⟨c', hc', hmono, hkeep, hkeys, hmark⟩ :=
        detectLoop_complete cand hit C rest c hs.tail hn.2 hinv'
      have hf : dGet c f = some true := by
        cases hv : dGet c f with
        | none => simp [hv] at hsome
        | some v =>
          cases v with
          | true => rfl
          | false => exact absurd (by simp [dKeys]) (hinv f hv)
      refine ⟨c', by simp only [detectLoop, hsome, if_true]; exact hc', hmono, hkeep, ?_, ?_⟩
      · intro p hp
        rcases List.mem_cons.mp hp with rfl | hp
        · exact hkeep f hsome
        · exact hkeys p hp
      · intro p hp hex
        rcases List.mem_cons.mp hp with rfl | hp
        · exact hmono f hf
        · exact hmark p hp hex
    · obtain ⟨gs, hgs, hmem⟩ := hs (f, col) List.mem_cons_self
      have hnone : dGet c f = none := by
        cases hv : dGet c f with
        | none => rfl
        | some v => simp [hv] at hsome
      have hinv1 : ∀ x, dGet (scan hit f gs (dSet c f false)) x = some false → x ∉ dKeys rest := by
        intro x hx
        have h1 := scan_false hit f gs _ x hx
        by_cases hxf : x = f
        · subst hxf; exact hn.1
        · rw [dGet_dSet_ne _ _ _ _ hxf] at h1
          exact hinv' x h1
      obtain ⟨c', hc', hmono, hkeep, hkeys, hmark⟩ :=
        detectLoop_complete cand hit C rest (scan hit f gs (dSet c f false)) hs.tail hn.2 hinv1
      refine ⟨c', by simp only [detectLoop, hsome, hgs]; exact hc', ?_, ?_, ?_, ?_⟩
      · intro x hx
        have hxf : x ≠ f := by
          intro h; subst h; rw [hnone] at hx; cases hx
        apply hmono
        apply scan_true_mono
        rwa [dGet_dSet_ne _ _ _ _ hxf]
      · intro x hx
        exact hkeep x (scan_isSome _ _ _ _ _ (dGet_dSet_isSome _ _ _ _ hx))
      · intro p hp
        rcases List.mem_cons.mp hp with rfl | hp
        · apply hkeep
          apply scan_isSome
          simp [dGet_dSet_eq]
        · exact hkeys p hp
      · intro p hp hex
        rcases List.mem_cons.mp hp with rfl | hp
        · apply hmono
          apply scan_hit
          obtain ⟨g, hg, hh⟩ := hex
          exact ⟨g, (hmem g).mpr hg, hh⟩
        · exact hmark p hp hex

/-- **soundness of the `detect` loop.**  A frame is marked only if it was marked before, or it
was visited and one of its candidates hits, or it is a hitting candidate of a visited frame. -/
theorem detectLoop_sound (cand : Frame → Collider α → Except Err (List (Frame × Collider α)))
    (hit : Frame → Frame → Bool) (C : Frame → Frame → Prop) :
    ∀ (L : List (Frame × Collider α)) (c : List (Frame × Bool)), CandSpec cand C L →
      ∀ c', detectLoop cand hit L c = .ok c' → ∀ x, dGet c' x = some true →
        dGet c x = some true ∨
        ∃ p ∈ L, (x = p.1 ∧ ∃ g, C x g ∧ hit x g = true) ∨ (C p.1 x ∧ hit p.1 x = true)
  | [], c, _, c', h, x, hx => by
    simp only [detectLoop, Except.ok.injEq] at h
    subst h
    exact Or.inl hx
  | (f, col) :: rest, c, hs, c', h, x, hx => by
    by_cases hsome : (dGet c f).isSome = true
    · simp only [detectLoop, hsome, if_true] at h
      rcases detectLoop_sound cand hit C rest c hs.tail c' h x hx with h1 | ⟨p, hp, h1⟩
      · exact Or.inl h1
      · exact Or.inr ⟨p, List.mem_cons_of_mem _ hp, h1⟩
    · obtain ⟨gs, hgs, hmem⟩ := hs (f, col) List.mem_cons_self
      simp only [detectLoop, hsome, hgs] at h
      rcases detectLoop_sound cand hit C rest _ hs.tail c' h x hx with h1 | ⟨p, hp, h1⟩
      · rcases scan_sound hit f gs _ x h1 with h2 | ⟨h2, g, hg, hh⟩ | ⟨h2, hh⟩
        · by_cases hxf : x = f
          · subst hxf
            rw [dGet_dSet_eq] at h2
            cases h2
          · rw [dGet_dSet_ne _ _ _ _ hxf] at h2
            exact Or.inl h2
        · subst h2
          exact Or.inr ⟨(x, col), List.mem_cons_self, Or.inl ⟨rfl, g, (hmem g).mp hg, hh⟩⟩
        · exact Or.inr ⟨(f, col), List.mem_cons_self, Or.inr ⟨(hmem x).mp h2, hh⟩⟩
      · exact Or.inr ⟨p, List.mem_cons_of_mem _ hp, h1⟩

/-- **`detect_any` loop**: terminates normally and answers `True` exactly when some visited
frame has a hitting candidate. -/
theorem detectAnyLoop_iff (cand : Frame → Collider α → Except Err (List (Frame × Collider α)))
    (hit : Frame → Frame → Bool) (C : Frame → Frame → Prop) :
    ∀ (L : List (Frame × Collider α)), CandSpec cand C L →
      ∃ b, detectAnyLoop cand hit L = .ok b ∧
        (b = true ↔ ∃ p ∈ L, ∃ g, C p.1 g ∧ hit p.1 g = true)
  | [], _ => ⟨false, rfl, by simp⟩
  | (f, col) :: rest, hs => by
    obtain ⟨gs, hgs, hmem⟩ := hs (f, col) List.mem_cons_self
    by_cases hany : gs.any (fun g => hit f g.1) = true
    · refine ⟨true, by simp only [detectAnyLoop, hgs, hany, if_true], ?_⟩
      simp only [true_iff]
      rw [List.any_eq_true] at hany
      obtain ⟨g, hg, hh⟩ := hany
      exact ⟨(f, col), List.mem_cons_self, g.1, (hmem g.1).mp (mem_dKeys_of_mem gs g hg), hh⟩
    · obtain ⟨b, hb, hiff⟩ := detectAnyLoop_iff cand hit C rest hs.tail
      refine ⟨b, by simp only [detectAnyLoop, hgs, hany]; exact hb, ?_⟩
      rw [hiff]
      constructor
      · rintro ⟨p, hp, h1⟩
        exact ⟨p, List.mem_cons_of_mem _ hp, h1⟩
      · rintro ⟨p, hp, g, hg, hh⟩
        rcases List.mem_cons.mp hp with rfl | hp
        · exfalso
          apply hany
          rw [List.any_eq_true]
          have := (hmem g).mpr hg
          simp only [dKeys, List.mem_map] at this
          obtain ⟨q, hq, rfl⟩ := this
          exact ⟨q, hq, hh⟩
        · exact ⟨p, hp, g, hg, hh⟩

end Bvh
end D3
