/-
C04 — ellipsoid.  `ellipsoidAabb_fixed` (row norms of `R·diag(radii)`) is correct for every
pose; `ellipsoidAabb_asIs` (the code) reduces, for an orthonormal pose, to
`extent_k = max_i Σ_j R_ij R_kj r_j`, which is too small for rotated poses (explicit witness)
and correct for signed permutation matrices.
-/
import D3.Proofs.ContainmentRound

set_option linter.unusedSectionVars false
set_option linter.unusedVariables false

namespace D3
namespace Containment
open Aabb (Box)

/-- `row ∘ radii` : one row of `R·diag(radii)` -/
def scaleRow (row radii : V) : V := ⟨row.x * radii.x, row.y * radii.y, row.z * radii.z⟩

/-! ### repaired variant -/

theorem ellipsoidFixedExtent1_ok (row radii : V) :
    ellipsoidFixedExtent1 row radii = .ok (V3.norm (scaleRow row radii)) := by
  have h : ellipsoidFixedExtent1 row radii = sqrtChecked (V3.normSq (scaleRow row radii)) := rfl
  rw [h, sqrtChecked_ok (V3.normSq_nonneg _)]
  rfl

theorem ellipsoid_axis (ρ radii : V) (τ : ℝ) :
    AxisBounds (τ - V3.norm (scaleRow ρ radii)) (τ + V3.norm (scaleRow ρ radii))
      (fun q => V3.dot ρ q + τ) (ellipsoidLocal radii) := by
  have hb : AxisBounds (τ - V3.norm (scaleRow ρ radii)) (τ + V3.norm (scaleRow ρ radii))
      (fun u => V3.dot (scaleRow ρ radii) u + τ) (fun u => V3.normSq u ≤ 1) := by
    simpa only [one_mul, mul_one] using ball_axis (scaleRow ρ radii) zero_le_one τ
  have hf : (fun u : V => V3.dot (scaleRow ρ radii) u + τ)
      = fun u => V3.dot ρ (⟨radii.x * u.x, radii.y * u.y, radii.z * u.z⟩ : V) + τ := by
    funext u; simp only [V3.dot_def, scaleRow]; ring
  rw [hf] at hb
  exact axisBounds_image (g := fun u : V => (⟨radii.x * u.x, radii.y * u.y, radii.z * u.z⟩ : V)) hb

/-- **ellipsoid, repaired** : enclosure and tightness for every pose and all radii -/
theorem ellipsoidAabb_fixed_spec (A : Pose ℝ) (radii : V) :
    ∃ b, ellipsoidAabb_fixed A radii = .ok b ∧ AabbSpec b (poseImage A (ellipsoidLocal radii)) := by
  refine ⟨_, by simp only [ellipsoidAabb_fixed, ellipsoidFixedExtent1_ok]; rfl, ?_⟩
  apply aabbSpec_of_axes
  · exact axisBounds_poseImage (ellipsoid_axis A.R.r0 radii A.t.x)
  · exact axisBounds_poseImage (ellipsoid_axis A.R.r1 radii A.t.y)
  · exact axisBounds_poseImage (ellipsoid_axis A.R.r2 radii A.t.z)

/-- the box the repaired function returns -/
theorem ellipsoidAabb_fixed_eq (A : Pose ℝ) (radii : V) :
    ellipsoidAabb_fixed A radii = .ok (mkBox
      (A.t - ⟨V3.norm (scaleRow A.R.r0 radii), V3.norm (scaleRow A.R.r1 radii), V3.norm (scaleRow A.R.r2 radii)⟩)
      (A.t + ⟨V3.norm (scaleRow A.R.r0 radii), V3.norm (scaleRow A.R.r1 radii), V3.norm (scaleRow A.R.r2 radii)⟩)) := by
  simp only [ellipsoidAabb_fixed, ellipsoidFixedExtent1_ok]; rfl

/-! ### the code as it is -/

/-- for a unit column and a positive radius the normalise-and-rescale statements are the
identity on `col * r`; neither `sqrtNeg` nor `divZero` can occur -/
theorem ellipsoidColumn_ok {col : V} (h : V3.dot col col = 1) {r : ℝ} (hr : 0 < r) :
    ellipsoidColumn col r = .ok ⟨col.x * r, col.y * r, col.z * r⟩ := by
  have hs : col.x * r * (col.x * r) + col.y * r * (col.y * r) + col.z * r * (col.z * r) = r * r := by
    rw [V3.dot_def] at h
    linear_combination (r * r) * h
  unfold ellipsoidColumn
  simp only [hs, sqrtChecked_ok (mul_self_nonneg r), Real.sqrt_mul_self hr.le, divChecked_ok hr.ne',
    bind, Except.bind, pure, Except.pure]
  congr 1
  apply V3.ext' <;> simp only <;> field_simp

/-- extents the code returns for an orthonormal pose: `max_i Σ_j R_ij R_kj r_j` -/
def asIsExtent (R : Mat) (radii : V) : V :=
  let M := ellipsoidProduct R ⟨scaleRow R.r0 radii, scaleRow R.r1 radii, scaleRow R.r2 radii⟩
  ⟨max3 M.r0, max3 M.r1, max3 M.r2⟩

/-- closed form of `ellipsoid_aabb` as coded, for orthonormal poses and positive radii -/
theorem ellipsoidAabb_asIs_eq (A : Pose ℝ) (hR : Orthonormal A.R) (radii : V)
    (hx : 0 < radii.x) (hy : 0 < radii.y) (hz : 0 < radii.z) :
    ellipsoidAabb_asIs A radii =
      .ok (mkBox (A.t - asIsExtent A.R radii) (A.t + asIsExtent A.R radii)) := by
  simp only [ellipsoidAabb_asIs, ellipsoidM, ellipsoidColumn_ok hR.c00 hx, ellipsoidColumn_ok hR.c11 hy,
    ellipsoidColumn_ok hR.c22 hz]
  rfl

/-! ### counterexample: rotation by the 3-4-5 angle about z, radii (2,1,1) -/

/-- rotation about z with cos = 3/5, sin = 4/5 -/
noncomputable def rot345 : Mat := ⟨⟨3/5, -(4/5), 0⟩, ⟨4/5, 3/5, 0⟩, ⟨0, 0, 1⟩⟩

theorem rot345_orthonormal : Orthonormal rot345 := by
  constructor <;> norm_num [rot345, V3.dot_def, M3.col0, M3.col1, M3.col2]

theorem asIsExtent_rot345_x : (asIsExtent rot345 ⟨2, 1, 1⟩).x = 34 / 25 := by
  simp only [asIsExtent, ellipsoidProduct, scaleRow, max3, rot345, V3.dot_def]
  norm_num

/-- **the code violates the property**: for the pose `rot345` (an exactly orthonormal rational
rotation) and radii (2,1,1) `ellipsoid_aabb` returns the x-bound 34/25 = 1.36, but the
surface point `R·(8/5, -3/5, 0) = (36/25, 23/25, 0)` of the ellipsoid has x = 1.44. -/
theorem ellipsoidAabb_asIs_counterexample :
    ∃ b, ellipsoidAabb_asIs ⟨rot345, ⟨0, 0, 0⟩⟩ ⟨2, 1, 1⟩ = .ok b ∧ b.hi0 = 34 / 25 ∧
      poseImage ⟨rot345, ⟨0, 0, 0⟩⟩ (ellipsoidLocal ⟨2, 1, 1⟩) ⟨36 / 25, 23 / 25, 0⟩ ∧
      b.hi0 < (⟨36 / 25, 23 / 25, 0⟩ : V).x := by
  refine ⟨_, ellipsoidAabb_asIs_eq ⟨rot345, ⟨0, 0, 0⟩⟩ rot345_orthonormal ⟨2, 1, 1⟩ (by norm_num)
    (by norm_num) (by norm_num), ?_, ?_, ?_⟩
  · show (0 : ℝ) + (asIsExtent rot345 ⟨2, 1, 1⟩).x = 34 / 25
    rw [asIsExtent_rot345_x]; norm_num
  · refine ⟨⟨8 / 5, -(3 / 5), 0⟩, ⟨⟨4 / 5, -(3 / 5), 0⟩, ?_, ?_⟩, ?_⟩
    · norm_num [V3.normSq_def]
    · apply V3.ext' <;> norm_num
    · apply V3.ext' <;> norm_num [Pose.apply, M3.mulVec, rot345, V3.dot_def]
  · show (0 : ℝ) + (asIsExtent rot345 ⟨2, 1, 1⟩).x < 36 / 25
    rw [asIsExtent_rot345_x]; norm_num

/-- consequently the returned box does not enclose the ellipsoid -/
theorem ellipsoidAabb_asIs_not_enclosing_rot345 :
    ∃ b, ellipsoidAabb_asIs ⟨rot345, ⟨0, 0, 0⟩⟩ ⟨2, 1, 1⟩ = .ok b ∧
      ¬ Encloses b (poseImage ⟨rot345, ⟨0, 0, 0⟩⟩ (ellipsoidLocal ⟨2, 1, 1⟩)) := by
  obtain ⟨b, hb, _, hp, hlt⟩ := ellipsoidAabb_asIs_counterexample
  refine ⟨b, hb, fun he => ?_⟩
  have := (he _ hp).2.1
  linarith

/-! ### axis-aligned poses (signed permutation matrices) -/

/-- entry is 0, 1 or -1 -/
def Trit (x : ℝ) : Prop := x = 0 ∨ x = 1 ∨ x = -1

/-- orthonormal with all entries in {0, 1, -1} -/
structure SignedPerm (R : Mat) : Prop where
  orth : Orthonormal R
  e00 : Trit R.r0.x
  e01 : Trit R.r0.y
  e02 : Trit R.r0.z
  e10 : Trit R.r1.x
  e11 : Trit R.r1.y
  e12 : Trit R.r1.z
  e20 : Trit R.r2.x
  e21 : Trit R.r2.y
  e22 : Trit R.r2.z

/-- three trits whose squares sum to 1: exactly one is non-zero -/
theorem trit_products {x y z : ℝ} (hx : Trit x) (hy : Trit y) (hz : Trit z)
    (h : x * x + y * y + z * z = 1) : x * y = 0 ∧ x * z = 0 ∧ y * z = 0 := by
  rcases hx with rfl | rfl | rfl <;> rcases hy with rfl | rfl | rfl <;>
    rcases hz with rfl | rfl | rfl <;> (try norm_num at h) <;> norm_num

theorem trit_sq {x : ℝ} (hx : Trit x) : x * x * (x * x) = x * x := by
  rcases hx with rfl | rfl | rfl <;> norm_num

/-- diagonal entry `Σ_j ρ_j² r_j` equals the row norm of `ρ ∘ r` for a trit unit row -/
theorem diag_eq_norm {ρ : V} (hx : Trit ρ.x) (hy : Trit ρ.y) (hz : Trit ρ.z) (h : V3.dot ρ ρ = 1)
    (r : V) (rx : 0 < r.x) (ry : 0 < r.y) (rz : 0 < r.z) :
    V3.dot ρ (scaleRow ρ r) = V3.norm (scaleRow ρ r) ∧ 0 ≤ V3.dot ρ (scaleRow ρ r) := by
  rw [V3.dot_def] at h
  obtain ⟨p1, p2, p3⟩ := trit_products hx hy hz h
  have s1 := trit_sq hx
  have s2 := trit_sq hy
  have s3 := trit_sq hz
  have hnn : 0 ≤ V3.dot ρ (scaleRow ρ r) := by
    simp only [V3.dot_def, scaleRow]
    nlinarith [mul_nonneg (mul_self_nonneg ρ.x) rx.le, mul_nonneg (mul_self_nonneg ρ.y) ry.le,
      mul_nonneg (mul_self_nonneg ρ.z) rz.le]
  refine ⟨?_, hnn⟩
  have hsq : V3.normSq (scaleRow ρ r) = V3.dot ρ (scaleRow ρ r) * V3.dot ρ (scaleRow ρ r) := by
    simp only [V3.normSq_def, V3.dot_def, scaleRow]
    linear_combination (-(r.x * r.x)) * s1 - (r.y * r.y) * s2 - (r.z * r.z) * s3
      - (2 * r.x * r.y * ρ.x * ρ.y) * p1 - (2 * r.x * r.z * ρ.x * ρ.z) * p2
      - (2 * r.y * r.z * ρ.y * ρ.z) * p3
  rw [V3.norm_def, hsq, Real.sqrt_mul_self hnn]

theorem offdiag_zero {ρ σ r : V} (hx : σ.x * ρ.x = 0) (hy : σ.y * ρ.y = 0) (hz : σ.z * ρ.z = 0) :
    V3.dot σ (scaleRow ρ r) = 0 := by
  simp only [V3.dot_def, scaleRow]
  linear_combination r.x * hx + r.y * hy + r.z * hz

/-- on signed permutation matrices the code's extents are the row norms -/
theorem asIsExtent_signedPerm {R : Mat} (h : SignedPerm R) (r : V) (rx : 0 < r.x) (ry : 0 < r.y)
    (rz : 0 < r.z) :
    asIsExtent R r = ⟨V3.norm (scaleRow R.r0 r), V3.norm (scaleRow R.r1 r), V3.norm (scaleRow R.r2 r)⟩ := by
  have o := h.orth
  have c0 := o.c00; have c1 := o.c11; have c2 := o.c22
  simp only [V3.dot_def, M3.col0, M3.col1, M3.col2] at c0 c1 c2
  obtain ⟨x01, x02, x12⟩ := trit_products h.e00 h.e10 h.e20 c0
  obtain ⟨y01, y02, y12⟩ := trit_products h.e01 h.e11 h.e21 c1
  obtain ⟨z01, z02, z12⟩ := trit_products h.e02 h.e12 h.e22 c2
  obtain ⟨d0, n0⟩ := diag_eq_norm h.e00 h.e01 h.e02 o.r00 r rx ry rz
  obtain ⟨d1, n1⟩ := diag_eq_norm h.e10 h.e11 h.e12 o.r11 r rx ry rz
  obtain ⟨d2, n2⟩ := diag_eq_norm h.e20 h.e21 h.e22 o.r22 r rx ry rz
  have m10 : V3.dot R.r1 (scaleRow R.r0 r) = 0 :=
    offdiag_zero (by linarith [mul_comm R.r1.x R.r0.x]) (by linarith [mul_comm R.r1.y R.r0.y])
      (by linarith [mul_comm R.r1.z R.r0.z])
  have m20 : V3.dot R.r2 (scaleRow R.r0 r) = 0 :=
    offdiag_zero (by linarith [mul_comm R.r2.x R.r0.x]) (by linarith [mul_comm R.r2.y R.r0.y])
      (by linarith [mul_comm R.r2.z R.r0.z])
  have m01 : V3.dot R.r0 (scaleRow R.r1 r) = 0 := offdiag_zero x01 y01 z01
  have m21 : V3.dot R.r2 (scaleRow R.r1 r) = 0 :=
    offdiag_zero (by linarith [mul_comm R.r2.x R.r1.x]) (by linarith [mul_comm R.r2.y R.r1.y])
      (by linarith [mul_comm R.r2.z R.r1.z])
  have m02 : V3.dot R.r0 (scaleRow R.r2 r) = 0 := offdiag_zero x02 y02 z02
  have m12 : V3.dot R.r1 (scaleRow R.r2 r) = 0 := offdiag_zero x12 y12 z12
  simp only [asIsExtent, ellipsoidProduct, max3, m10, m20, m01, m21, m02, m12]
  rw [d0] at n0; rw [d1] at n1; rw [d2] at n2
  rw [d0, d1, d2]
  apply V3.ext' <;> simp only
  · rw [max_eq_left n0, max_eq_left n0]
  · rw [max_eq_right n1, max_eq_left n1]
  · rw [max_eq_left (le_refl (0 : ℝ)), max_eq_right n2]

/-- **ellipsoid as coded, axis-aligned poses only** (partial: signed permutation matrices) -/
theorem ellipsoidAabb_asIs_axis_aligned_spec (A : Pose ℝ) (hR : SignedPerm A.R) (radii : V)
    (hx : 0 < radii.x) (hy : 0 < radii.y) (hz : 0 < radii.z) :
    ∃ b, ellipsoidAabb_asIs A radii = .ok b ∧ AabbSpec b (poseImage A (ellipsoidLocal radii)) := by
  obtain ⟨b, hb, hs⟩ := ellipsoidAabb_fixed_spec A radii
  refine ⟨b, ?_, hs⟩
  rw [ellipsoidAabb_asIs_eq A hR.orth radii hx hy hz, asIsExtent_signedPerm hR radii hx hy hz,
    ← ellipsoidAabb_fixed_eq]
  exact hb

end Containment
end D3
