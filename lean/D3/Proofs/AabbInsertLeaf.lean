/-
Step (5): the array-level `insertLeaf` implements the tree-level `T.insert`.

`insertLeaf_refines_struct` is structural (any scalar, given that `T.insert` succeeds);
`insertLeaf_refines` is the ℝ statement where success of `T.insert` (the cost assertion never
fires), tightness and validity come from `insert_spec`.
-/
import D3.Proofs.AabbInsertRelink

set_option linter.unusedSectionVars false
set_option linter.unusedVariables false

namespace D3
namespace Aabb

scalar_variables

theorem rd_none {β : Type} (a : Array β) : rd a INDEX_NONE = .error .indexOOB := by
  simp [rd, INDEX_NONE]

/-- the parent of the reached leaf is never the reached leaf itself -/
theorem T.targetPar_ne_target (lb : Box α) : ∀ (t : T α) (par : Int), t.indices.Nodup →
    par ∉ t.indices → t.targetPar lb par ≠ t.target lb
  | .leaf i b, par, _, hp => by
    simp only [T.targetPar, T.target]
    intro h; apply hp; simp [T.indices, h]
  | .node i b l r, par, hnd, _ => by
    simp only [T.indices, List.nodup_cons, List.mem_append, not_or, List.nodup_append] at hnd
    obtain ⟨⟨hil, hir⟩, hndl, hndr, _⟩ := hnd
    simp only [T.targetPar, T.target]
    split
    · exact T.targetPar_ne_target lb l i hndl hil
    · exact T.targetPar_ne_target lb r i hndr hir

/-- **`insertLeaf` refines `T.insert`** (structural form).  The core state encodes `t`
(strong predicate, root parent `INDEX_NONE`, distinct indices); `leaf` is a blank row outside
the tree holding the box `lb`; `p = filledLen` is a fresh row.  If `T.insert` succeeds with
`t'`, then `insertLeaf` succeeds, the new state encodes `t'`, `filledLen` grows by one, array
sizes are kept and every row outside `t.indices ∪ {leaf, p}` is unchanged. -/
theorem insertLeaf_refines_struct (c : Core α) (t t' : T α) (leaf : Int) (nl : Node) (lb : Box α)
    (hrep : RepP c.nodes c.aabbs INDEX_NONE t) (hidx : t.idx = c.root) (hnd : t.indices.Nodup)
    (hnl : rd c.nodes leaf = .ok nl) (hnll : nl.left = INDEX_NONE) (hnlr : nl.right = INDEX_NONE)
    (hlb : rd c.aabbs leaf = .ok lb) (hleaf : leaf ∉ t.indices)
    (hpN : InR c.nodes c.filledLen) (hpA : InR c.aabbs c.filledLen)
    (hpl : (c.filledLen : Int) ≠ leaf) (hp : (c.filledLen : Int) ∉ t.indices)
    (hins : t.insert leaf lb c.filledLen = some t') :
    ∃ c', insertLeaf c leaf = .ok c' ∧ c'.root = t'.idx ∧
      RepP c'.nodes c'.aabbs INDEX_NONE t' ∧ c'.filledLen = c.filledLen + 1 ∧
      c'.nodes.size = c.nodes.size ∧ c'.aabbs.size = c.aabbs.size ∧
      (∀ j, j ∉ t.indices → j ≠ leaf → j ≠ c.filledLen →
        rd c'.nodes j = rd c.nodes j ∧ rd c'.aabbs j = rd c.aabbs j) := by
  have hleafR : InR c.nodes leaf := rd_ok_inR hnl
  have hinR := RepP.inR t INDEX_NONE hrep
  have hnoneNot : INDEX_NONE ∉ t.indices := by
    intro h
    have := (hinR _ h).1.1
    simp [INDEX_NONE] at this
  have hroot : c.root ≠ INDEX_NONE := hidx ▸ RepP.idx_ne_none hrep
  -- descent
  have hrep₁ : RepP (upd c.nodes leaf ⟨nl.parent, nl.left, nl.right, TYPE_LEAF⟩) c.aabbs INDEX_NONE t := by
    refine RepP.congr t _ (fun j hj => ⟨?_, rfl⟩) hrep
    exact rd_upd_ne hleafR _ (fun h => hleaf (h ▸ hj))
  have hsz : t.size ≤ c.nodes.size := RepP.size_le hrep hnd
  have hpl' := T.pathLen_le_size lb t
  have hdesc := descend_eq _ c.aabbs leaf lb c.filledLen t t' INDEX_NONE (c.nodes.size + 1)
    hrep₁ hins (by omega)
  rw [hidx] at hdesc
  obtain ⟨hns, hsb⟩ := RepP.target_row lb t INDEX_NONE hrep
  have hsibm : t.target lb ∈ t.indices := T.target_mem lb t
  have h1 : t.target lb ≠ leaf := fun h => hleaf (h ▸ hsibm)
  have h3 : t.target lb ≠ c.filledLen := fun h => hp (h ▸ hsibm)
  have hopm : t.targetPar lb INDEX_NONE ≠ INDEX_NONE → t.targetPar lb INDEX_NONE ∈ t.indices := by
    intro hne
    rcases T.targetPar_mem lb t INDEX_NONE with ⟨_, _, _, e⟩ | e
    · exact absurd e hne
    · exact e
  obtain ⟨np, hnp⟩ : ∃ np, t.targetPar lb INDEX_NONE ≠ INDEX_NONE →
      rd c.nodes (t.targetPar lb INDEX_NONE) = .ok np := by
    by_cases hne : t.targetPar lb INDEX_NONE = INDEX_NONE
    · exact ⟨default, fun h => absurd hne h⟩
    · obtain ⟨np, hnp⟩ := inR_rd (hinR _ (hopm hne)).1
      exact ⟨np, fun _ => hnp⟩
  have hop : t.targetPar lb INDEX_NONE ≠ INDEX_NONE →
      rd c.nodes (t.targetPar lb INDEX_NONE) = .ok np ∧ t.targetPar lb INDEX_NONE ≠ leaf ∧
      t.targetPar lb INDEX_NONE ≠ c.filledLen ∧ t.targetPar lb INDEX_NONE ≠ t.target lb := by
    intro hne
    have hm := hopm hne
    exact ⟨hnp hne, fun h => hleaf (h ▸ hm), fun h => hp (h ▸ hm),
      T.targetPar_ne_target lb t INDEX_NONE hnd hnoneNot⟩
  -- relinking
  have hrel := relink5_relinked c.nodes nl np leaf (t.target lb) c.filledLen
    (t.targetPar lb INDEX_NONE) hnl hnll hnlr (hinR _ hsibm).1 hpN h1 hpl h3 hop
  have hAleaf : rd (upd c.aabbs c.filledLen (merge lb (t.targetBox lb))) leaf = .ok lb := by
    rw [rd_upd_ne hpA _ (Ne.symm hpl)]; exact hlb
  have hgraft := graft_rep c.nodes (relink5 c.nodes nl np leaf (t.target lb) c.filledLen
      (t.targetPar lb INDEX_NONE)) c.aabbs (upd c.aabbs c.filledLen (merge lb (t.targetBox lb)))
    leaf c.filledLen lb hAleaf (fun j hj => rd_upd_ne hpA _ hj) t INDEX_NONE hrep hnd hleaf hp hrel
    (rd_upd_eq hpA _)
  -- refit
  have hperm := T.graft_indices_perm leaf lb c.filledLen t
  have hndg : (t.graft leaf lb c.filledLen).indices.Nodup := by
    refine hperm.nodup_iff.mpr ?_
    refine List.nodup_cons.mpr ⟨?_, List.nodup_cons.mpr ⟨hleaf, hnd⟩⟩
    simp only [List.mem_cons, not_or]
    exact ⟨hpl, hp⟩
  obtain ⟨A', hfix, hrep', hsz', hframe'⟩ := fixUpward_graft _ leaf lb c.filledLen t t' INDEX_NONE _
    hgraft hndg hins
  have hfix' := hfix (c.nodes.size + 1 - t.pathLen lb)
  rw [show c.nodes.size + 1 - t.pathLen lb + t.pathLen lb = c.nodes.size + 1 by omega,
    fixUpward_none] at hfix'
  have hexec := insertLeaf_exec c leaf nl np lb (t.targetBox lb) (t.target lb)
    (t.targetPar lb INDEX_NONE) hnl hroot hlb hdesc hns hsb hpN hpA h1 hpl h3 hop A' hfix'
  refine ⟨_, hexec, ?_, hrep', rfl, size_relink5 _ _ _ _ _ _ _, by simp [hsz'], ?_⟩
  · show (if t.targetPar lb INDEX_NONE = INDEX_NONE then (c.filledLen : Int) else c.root) = t'.idx
    rw [← T.graft_idx leaf lb c.filledLen t t' hins]
    rcases T.graft_idx_cases leaf lb c.filledLen t INDEX_NONE with ⟨e1, _, e3⟩ | ⟨e1, e3⟩
    · rw [if_pos e3, e1]
    · have : t.targetPar lb INDEX_NONE ≠ INDEX_NONE := fun h => hnoneNot (h ▸ e3)
      rw [if_neg this, e1, hidx]
  · intro j hj jl jp
    constructor
    · show rd (relink5 _ _ _ _ _ _ _) j = _
      by_cases hjo : j = t.targetPar lb INDEX_NONE
      · by_cases hne : t.targetPar lb INDEX_NONE = INDEX_NONE
        · rw [hjo, hne, rd_none, rd_none]
        · exact absurd (hjo ▸ hopm hne) hj
      · exact hrel.hframe j jl jp (fun h => hj (h ▸ hsibm)) hjo
    · show rd A' j = _
      rw [hframe' j, rd_upd_ne hpA _ jp]
      rw [T.graft_indices leaf lb c.filledLen t t' hins]
      intro h
      have := hperm.subset h
      simp only [List.mem_cons] at this
      rcases this with h | h | h
      · exact jp h
      · exact jl h
      · exact hj h

/-- inserting into the empty tree: the blank leaf row becomes the root -/
theorem insertLeaf_empty_struct (c : Core α) (leaf : Int) (nl : Node) (lb : Box α)
    (hroot : c.root = INDEX_NONE)
    (hnl : rd c.nodes leaf = .ok nl) (hnlp : nl.parent = INDEX_NONE) (hnll : nl.left = INDEX_NONE)
    (hnlr : nl.right = INDEX_NONE) (hlb : rd c.aabbs leaf = .ok lb) :
    ∃ c', insertLeaf c leaf = .ok c' ∧ c'.root = leaf ∧
      RepP c'.nodes c'.aabbs INDEX_NONE (.leaf leaf lb) ∧ c'.filledLen = c.filledLen ∧
      c'.nodes.size = c.nodes.size ∧ c'.aabbs = c.aabbs ∧
      (∀ j, j ≠ leaf → rd c'.nodes j = rd c.nodes j) := by
  have hleafR : InR c.nodes leaf := rd_ok_inR hnl
  refine ⟨{ c with root := leaf, nodes := upd c.nodes leaf ⟨nl.parent, nl.left, nl.right, TYPE_LEAF⟩ },
    ?_, rfl, ?_, rfl, by simp, rfl, ?_⟩
  · unfold insertLeaf
    simp only [bind, Except.bind, pure, Except.pure, hnl, wr_ok hleafR, hroot, if_true]
  · refine ⟨?_, hlb⟩
    show rd (upd c.nodes leaf _) leaf = _
    rw [rd_upd_eq hleafR, hnlp, hnll, hnlr]
  · intro j hj
    exact rd_upd_ne hleafR _ hj

/-! ### the ℝ statement -/

/-- **`insertLeaf` refines `T.insert`** at ℝ: on a state encoding a tight tree of valid boxes
with distinct indices, inserting a valid box from a blank row outside the tree never fails (no
`indexOOB`, no `assertFail`, no `fuel`), and the result encodes `T.insert`'s result, which is
again tight/valid with distinct indices; leaves = old leaves + the new one. -/
theorem insertLeaf_refines (c : Core ℝ) (t : T ℝ) (leaf : Int) (nl : Node) (lb : Box ℝ)
    (hrep : RepP c.nodes c.aabbs INDEX_NONE t) (hidx : t.idx = c.root) (hnd : t.indices.Nodup)
    (htight : t.Tight) (hvalid : t.AllValid)
    (hnl : rd c.nodes leaf = .ok nl) (hnll : nl.left = INDEX_NONE) (hnlr : nl.right = INDEX_NONE)
    (hlb : rd c.aabbs leaf = .ok lb) (hlbv : lb.Valid) (hleaf : leaf ∉ t.indices)
    (hpN : InR c.nodes c.filledLen) (hpA : InR c.aabbs c.filledLen)
    (hpl : (c.filledLen : Int) ≠ leaf) (hp : (c.filledLen : Int) ∉ t.indices) :
    ∃ c' t', insertLeaf c leaf = .ok c' ∧ t.insert leaf lb c.filledLen = some t' ∧
      t'.idx = c'.root ∧ RepP c'.nodes c'.aabbs INDEX_NONE t' ∧ t'.indices.Nodup ∧
      t'.Tight ∧ t'.AllValid ∧
      t'.leaves.Perm ((leaf, lb) :: t.leaves) ∧
      t'.indices.Perm ((c.filledLen : Int) :: leaf :: t.indices) ∧ t'.size = t.size + 2 ∧
      c'.filledLen = c.filledLen + 1 ∧
      c'.nodes.size = c.nodes.size ∧ c'.aabbs.size = c.aabbs.size ∧
      (∀ j, j ∉ t.indices → j ≠ leaf → j ≠ c.filledLen →
        rd c'.nodes j = rd c.nodes j ∧ rd c'.aabbs j = rd c.aabbs j) := by
  obtain ⟨t', hins, ht', hv', hleaves, hinds, _, hsize⟩ :=
    insert_spec leaf lb hlbv c.filledLen t htight hvalid
  obtain ⟨c', hc', hr, hrep', hf, hs1, hs2, hframe⟩ :=
    insertLeaf_refines_struct c t t' leaf nl lb hrep hidx hnd hnl hnll hnlr hlb hleaf hpN hpA hpl hp hins
  refine ⟨c', t', hc', hins, hr.symm, hrep', ?_, ht', hv', hleaves, hinds, hsize, hf, hs1, hs2, hframe⟩
  refine hinds.nodup_iff.mpr ?_
  refine List.nodup_cons.mpr ⟨?_, List.nodup_cons.mpr ⟨hleaf, hnd⟩⟩
  simp only [List.mem_cons, not_or]
  exact ⟨hpl, hp⟩

end Aabb
end D3
