/-
Step (2) and (4) of the insertion refinement: the descent loop follows the path of
`T.insert`, and `fixUpward` started at the new parent turns the grafted tree (stale boxes
on the path) into exactly the tree `T.insert` returns.  Structural, any scalar.
-/
import D3.Proofs.AabbInsertRep

set_option linter.unusedSectionVars false
set_option linter.unusedVariables false

namespace D3
namespace Aabb

scalar_variables

theorem leaf_ne_branch : ¬ (TYPE_LEAF = TYPE_BRANCH) := by decide

/-- **descent = path of `T.insert`**: on an encoded subtree on which `T.insert` succeeds (the
cost assertion does not fire), the loop returns the index of the leaf that `T.insert`
splits; fuel `pathLen` is enough. -/
theorem descend_eq (N : Array Node) (A : Array (Box α)) (li : Int) (lb : Box α) (p : Int) :
    ∀ (s s' : T α) (par : Int) (fuel : Nat), RepP N A par s → s.insert li lb p = some s' →
      s.pathLen lb ≤ fuel → descend N A lb fuel s.idx = .ok (s.target lb)
  | .leaf i b, s', par, fuel, ⟨h1, h2⟩, _, hf => by
    cases fuel with
    | zero => simp [T.pathLen] at hf
    | succ fuel =>
      simp only [T.idx, T.target, descend, h1, bind, Except.bind, leaf_ne_branch, if_false]
  | .node i b l r, s', par, fuel, ⟨h1, h2, hl, hr⟩, hins, hf => by
    cases fuel with
    | zero => simp [T.pathLen] at hf
    | succ fuel =>
      simp only [T.insert] at hins
      simp only [T.pathLen] at hf
      show descend N A lb (fuel + 1) i = _
      simp only [T.target, descend, h1, h2, bind, Except.bind, if_true,
        RepP.rd_box hl, RepP.rd_box hr]
      split at hins
      · cases hins
      · rename_i hna
        rw [if_neg hna]
        split at hins
        · rename_i hc
          rw [if_pos hc] at hf
          rw [if_pos hc, if_pos hc]
          split at hins
          · rename_i l' hl'
            exact descend_eq N A li lb p l l' i fuel hl hl' (by omega)
          · cases hins
        · rename_i hc
          rw [if_neg hc] at hf
          rw [if_neg hc, if_neg hc]
          split at hins
          · rename_i r' hr'
            exact descend_eq N A li lb p r r' i fuel hr hr' (by omega)
          · cases hins

theorem fixUpward_none (N : Array Node) (fuel : Nat) (A : Array (Box α)) :
    fixUpward N fuel INDEX_NONE A = .ok A := by
  cases fuel <;> simp [fixUpward]

theorem RepP.idx_ne_none {N : Array Node} {A : Array (Box α)} {t : T α} {par : Int}
    (h : RepP N A par t) : t.idx ≠ INDEX_NONE :=
  rd_idx_ne_none (RepP.rd_box h)

/-- **upward refit = boxes of `T.insert`**: started at the new parent `p` inside the grafted
subtree `s.graft`, `fixUpward` spends `pathLen` iterations, arrives at the parent `par` of
the subtree, and leaves `aabbs` encoding `T.insert`'s result; rows outside the subtree are
untouched. -/
theorem fixUpward_graft (N : Array Node) (li : Int) (lb : Box α) (p : Int) :
    ∀ (s s' : T α) (par : Int) (A : Array (Box α)),
      RepP N A par (s.graft li lb p) → (s.graft li lb p).indices.Nodup →
      s.insert li lb p = some s' →
      ∃ A' : Array (Box α),
        (∀ fuel, fixUpward N (fuel + s.pathLen lb) p A = fixUpward N fuel par A') ∧
        RepP N A' par s' ∧ A'.size = A.size ∧
        (∀ j, j ∉ s'.indices → rd A' j = rd A j)
  | .leaf i b, s', par, A, hrep, hnd, hins => by
    simp only [T.insert, Option.some.injEq] at hins
    subst hins
    simp only [T.graft] at hrep hnd
    obtain ⟨h1, h2, ⟨hl1, hl2⟩, ⟨hr1, hr2⟩⟩ := hrep
    have hp : InR A p := rd_ok_inR h2
    have hpi : p ≠ i := by
      simp only [T.indices, List.nodup_cons, List.mem_append, List.mem_cons] at hnd
      intro h; exact hnd.1 (Or.inl (Or.inl h))
    have hpl : p ≠ li := by
      simp only [T.indices, List.nodup_cons, List.mem_append, List.mem_cons] at hnd
      intro h; exact hnd.1 (Or.inr (Or.inl h))
    refine ⟨upd A p (merge b lb), ?_, ?_, by simp, ?_⟩
    · intro fuel
      have hpn : ¬ (p = INDEX_NONE) := rd_idx_ne_none h1
      have hin : ¬ (i = INDEX_NONE) := rd_idx_ne_none hl1
      have hln : ¬ (li = INDEX_NONE) := rd_idx_ne_none hr1
      simp only [T.pathLen, fixUpward, hpn, if_false, h1, bind, Except.bind, T.idx, hin, hln,
        false_or, hl2, hr2, wr_ok hp]
    · refine ⟨h1, rd_upd_eq hp _, ⟨hl1, ?_⟩, ⟨hr1, ?_⟩⟩
      · rw [rd_upd_ne hp _ (Ne.symm hpi)]; exact hl2
      · rw [rd_upd_ne hp _ (Ne.symm hpl)]; exact hr2
    · intro j hj
      have : j ≠ p := by
        intro h; apply hj; simp [T.indices, h]
      exact rd_upd_ne hp _ this
  | .node i b l r, s', par, A, hrep, hnd, hins => by
    simp only [T.insert] at hins
    split at hins
    · cases hins
    · split at hins
      · rename_i hc
        simp only [T.graft, if_pos hc] at hrep hnd
        simp only [T.pathLen, if_pos hc]
        split at hins
        · rename_i l' hl'
          cases hins
          obtain ⟨h1, h2, hl, hr⟩ := hrep
          simp only [T.indices, List.nodup_cons, List.mem_append, not_or, List.nodup_append] at hnd
          obtain ⟨⟨hil, hir⟩, hndl, hndr, hdisj⟩ := hnd
          obtain ⟨A₁, hfix, hrep₁, hsz₁, hframe₁⟩ :=
            fixUpward_graft N li lb p l l' i A hl hndl hl'
          have hidx : (l.graft li lb p).idx = l'.idx := T.graft_idx li lb p l l' hl'
          have hinds : l'.indices = (l.graft li lb p).indices := T.graft_indices li lb p l l' hl'
          have hi : InR A₁ i := by
            have := rd_ok_inR h2
            exact ⟨this.1, hsz₁ ▸ this.2⟩
          have hrr : ∀ j ∈ r.indices, j ∉ l'.indices := by
            intro j hj hj'
            rw [hinds] at hj'
            exact hdisj j hj' j hj rfl
          have hri : ∀ j ∈ r.indices, j ≠ i := by
            intro j hj h; exact hir (h ▸ hj)
          have hli : ∀ j ∈ l'.indices, j ≠ i := by
            intro j hj h; rw [hinds] at hj; exact hil (h ▸ hj)
          refine ⟨upd A₁ i (merge l'.box r.box), ?_, ?_, by simp [hsz₁], ?_⟩
          · intro fuel
            have := hfix (fuel + 1)
            rw [show fuel + (l.pathLen lb + 1) = fuel + 1 + l.pathLen lb by omega, this]
            have hin : ¬ (i = INDEX_NONE) := rd_idx_ne_none h1
            have hln : ¬ ((l.graft li lb p).idx = INDEX_NONE) := RepP.idx_ne_none hl
            have hrn : ¬ (r.idx = INDEX_NONE) := RepP.idx_ne_none hr
            have hbl : rd A₁ (l.graft li lb p).idx = .ok l'.box := hidx ▸ RepP.rd_box hrep₁
            have hbr : rd A₁ r.idx = .ok r.box := by
              rw [hframe₁ _ (hrr _ (T.idx_mem_indices r))]; exact RepP.rd_box hr
            simp only [fixUpward, hin, if_false, h1, bind, Except.bind, hln, hrn, false_or, hbl,
              hbr, wr_ok hi]
          · refine ⟨hidx ▸ h1, rd_upd_eq hi _, ?_, ?_⟩
            · refine RepP.congr l' i (fun j hj => ⟨rfl, ?_⟩) hrep₁
              exact rd_upd_ne hi _ (hli j hj)
            · refine RepP.congr r i (fun j hj => ⟨rfl, ?_⟩) hr
              rw [rd_upd_ne hi _ (hri j hj)]
              exact hframe₁ j (hrr j hj)
          · intro j hj
            simp only [T.indices, List.mem_cons, List.mem_append, not_or] at hj
            rw [rd_upd_ne hi _ hj.1]
            exact hframe₁ j hj.2.1
        · cases hins
      · rename_i hc
        simp only [T.graft, if_neg hc] at hrep hnd
        simp only [T.pathLen, if_neg hc]
        split at hins
        · rename_i r' hr'
          cases hins
          obtain ⟨h1, h2, hl, hr⟩ := hrep
          simp only [T.indices, List.nodup_cons, List.mem_append, not_or, List.nodup_append] at hnd
          obtain ⟨⟨hil, hir⟩, hndl, hndr, hdisj⟩ := hnd
          obtain ⟨A₁, hfix, hrep₁, hsz₁, hframe₁⟩ :=
            fixUpward_graft N li lb p r r' i A hr hndr hr'
          have hidx : (r.graft li lb p).idx = r'.idx := T.graft_idx li lb p r r' hr'
          have hinds : r'.indices = (r.graft li lb p).indices := T.graft_indices li lb p r r' hr'
          have hi : InR A₁ i := by
            have := rd_ok_inR h2
            exact ⟨this.1, hsz₁ ▸ this.2⟩
          have hll : ∀ j ∈ l.indices, j ∉ r'.indices := by
            intro j hj hj'
            rw [hinds] at hj'
            exact hdisj j hj j hj' rfl
          have hli : ∀ j ∈ l.indices, j ≠ i := by
            intro j hj h; exact hil (h ▸ hj)
          have hri : ∀ j ∈ r'.indices, j ≠ i := by
            intro j hj h; rw [hinds] at hj; exact hir (h ▸ hj)
          refine ⟨upd A₁ i (merge l.box r'.box), ?_, ?_, by simp [hsz₁], ?_⟩
          · intro fuel
            have := hfix (fuel + 1)
            rw [show fuel + (r.pathLen lb + 1) = fuel + 1 + r.pathLen lb by omega, this]
            have hin : ¬ (i = INDEX_NONE) := rd_idx_ne_none h1
            have hln : ¬ (l.idx = INDEX_NONE) := RepP.idx_ne_none hl
            have hrn : ¬ ((r.graft li lb p).idx = INDEX_NONE) := RepP.idx_ne_none hr
            have hbr : rd A₁ (r.graft li lb p).idx = .ok r'.box := hidx ▸ RepP.rd_box hrep₁
            have hbl : rd A₁ l.idx = .ok l.box := by
              rw [hframe₁ _ (hll _ (T.idx_mem_indices l))]; exact RepP.rd_box hl
            simp only [fixUpward, hin, if_false, h1, bind, Except.bind, hln, hrn, false_or, hbl,
              hbr, wr_ok hi]
          · refine ⟨hidx ▸ h1, rd_upd_eq hi _, ?_, ?_⟩
            · refine RepP.congr l i (fun j hj => ⟨rfl, ?_⟩) hl
              rw [rd_upd_ne hi _ (hli j hj)]
              exact hframe₁ j (hll j hj)
            · refine RepP.congr r' i (fun j hj => ⟨rfl, ?_⟩) hrep₁
              exact rd_upd_ne hi _ (hri j hj)
          · intro j hj
            simp only [T.indices, List.mem_cons, List.mem_append, not_or] at hj
            rw [rd_upd_ne hi _ hj.1]
            exact hframe₁ j hj.2.2
        · cases hins

end Aabb
end D3
