/-
Point sets of the eight shapes of `containment_test.py`, defined independently of the code
as images of closed local sets under the shape's pose (`D3.poseImage`), plus the basic
frame lemmas used by the exactness proofs.  ℝ only.
-/
import D3.Spec.Vec
import D3.Model.ContainTest
import Mathlib.Tactic.NormNum.OfScientific

namespace D3
namespace ContainTest

/-! ### local sets (shape frame) -/

/-- distance of a local point from the local z axis -/
noncomputable def radial (q : V) : ℝ := Real.sqrt (q.x * q.x + q.y * q.y)

/-- closed ball of radius `r` about the origin: `|q| ≤ r` -/
def ballLocal (r : ℝ) (q : V) : Prop := V3.norm q ≤ r

/-- capsule: some point of the axis segment `{(0,0,s) | |s| ≤ h/2}` is within `r` of `q` -/
def capsuleLocal (r h : ℝ) (q : V) : Prop := ∃ s : ℝ, |s| ≤ h / 2 ∧ V3.norm (q - ⟨0, 0, s⟩) ≤ r

/-- ellipsoid with semi-axes `radii` -/
def ellipsoidLocal (radii : V) (q : V) : Prop :=
  (q.x / radii.x) ^ 2 + (q.y / radii.y) ^ 2 + (q.z / radii.z) ^ 2 ≤ 1

/-- flat disk in the plane `z = 0` -/
def diskLocal (r : ℝ) (q : V) : Prop := q.z = 0 ∧ radial q ≤ r

/-- disk thickened to the slab `|z| ≤ δ` -/
def diskSlabLocal (r δ : ℝ) (q : V) : Prop := |q.z| ≤ δ ∧ radial q ≤ r

/-- cone as `points_in_cone` and the `Cone` collider place it: base disk of radius `r` in the
plane `z = 0`, apex at `(0, 0, h)`; the radius shrinks linearly with `z` -/
def coneLocal (r h : ℝ) (q : V) : Prop := 0 ≤ q.z ∧ q.z ≤ h ∧ radial q ≤ r * (1 - q.z / h)

/-- cylinder centred at the origin, axis z -/
def cylinderLocal (r len : ℝ) (q : V) : Prop := |q.z| ≤ len / 2 ∧ radial q ≤ r

/-- box centred at the origin with edge lengths `size` -/
def boxLocal (size : V) (q : V) : Prop :=
  |q.x| ≤ size.x / 2 ∧ |q.y| ≤ size.y / 2 ∧ |q.z| ≤ size.z / 2

/-- convex combination `Σ wᵢ vᵢ` (lists zipped; extra entries ignored) -/
def combo : List ℝ → List V → V
  | a :: w, v :: vs => a * v + combo w vs
  | _, _ => ⟨0, 0, 0⟩

/-- convex hull of a list of points -/
def hullLocal (vs : List V) (q : V) : Prop :=
  ∃ w : List ℝ, w.length = vs.length ∧ (∀ a ∈ w, 0 ≤ a) ∧ w.sum = 1 ∧ q = combo w vs

/-- intersection of the face half-spaces `⟨n_f, q − centroid_f⟩ ≤ 0` with normals and reference
points as the code computes them -/
def facesLocal (fs : List (Face ℝ)) (q : V) : Prop :=
  ∀ f ∈ fs, V3.dot (faceNormal f) (q - faceCenter f) ≤ 0

/-! ### posed sets (world frame) -/

def ballSet (A : Pose ℝ) (r : ℝ) : V → Prop := poseImage A (ballLocal r)
def capsuleSet (A : Pose ℝ) (r h : ℝ) : V → Prop := poseImage A (capsuleLocal r h)
def ellipsoidSet (A : Pose ℝ) (radii : V) : V → Prop := poseImage A (ellipsoidLocal radii)
def diskSet (A : Pose ℝ) (r : ℝ) : V → Prop := poseImage A (diskLocal r)
def diskSlabSet (A : Pose ℝ) (r δ : ℝ) : V → Prop := poseImage A (diskSlabLocal r δ)
def coneSet (A : Pose ℝ) (r h : ℝ) : V → Prop := poseImage A (coneLocal r h)
def cylinderSet (A : Pose ℝ) (r len : ℝ) : V → Prop := poseImage A (cylinderLocal r len)
def boxSet (A : Pose ℝ) (size : V) : V → Prop := poseImage A (boxLocal size)
def hullSet (A : Pose ℝ) (vs : List V) : V → Prop := poseImage A (hullLocal vs)
def facesSet (A : Pose ℝ) (fs : List (Face ℝ)) : V → Prop := poseImage A (facesLocal fs)

/-- `slab K n δ`: points of `K` moved by at most `δ` along `±n` -/
def slab (K : V → Prop) (n : V) (δ : ℝ) : V → Prop :=
  fun p => ∃ q s, K q ∧ |s| ≤ δ ∧ p = q + s * n

/-! ### frame lemmas -/

theorem half_eq : (0.5 : ℝ) = 1 / 2 := by norm_num

theorem isZero_iff (x : ℝ) : isZero x = true ↔ x = 0 := by
  unfold isZero
  simp only [Bool.and_eq_true, decide_eq_true_eq]
  constructor
  · rintro ⟨h1, h2⟩; exact le_antisymm h1 h2
  · rintro rfl; exact ⟨le_refl _, le_refl _⟩

theorem isZero_false {x : ℝ} (h : x ≠ 0) : isZero x = false := by
  cases hx : isZero x
  · rfl
  · exact absurd ((isZero_iff x).mp hx) h

/-- the code's way of going to the shape frame is `Rᵀ (p − t)` (no orthonormality needed) -/
theorem localPoint_eq (A : Pose ℝ) (p : V) : localPoint A p = A.applyInv p := by
  unfold localPoint Pose.inv Pose.applyInv
  apply V3.ext' <;>
    simp only [V3.add_x, V3.add_y, V3.add_z, V3.neg_x, V3.neg_y, V3.neg_z, M3.mulVec, M3.tmulVec,
      M3.transpose, M3.col0, M3.col1, M3.col2, V3.dot_def, V3.sub_x, V3.sub_y, V3.sub_z] <;> ring

/-- membership in a posed set is membership of the pulled-back point in the local set -/
theorem poseImage_iff {A : Pose ℝ} (hA : Orthonormal A.R) (K : V → Prop) (p : V) :
    poseImage A K p ↔ K (A.applyInv p) := by
  constructor
  · rintro ⟨q, hq, rfl⟩
    rw [Pose.applyInv_apply hA]; exact hq
  · intro h
    exact ⟨A.applyInv p, h, (Pose.apply_applyInv hA p).symm⟩

/-- the local z coordinate is the projection of `p − t` on the third column -/
theorem applyInv_z (A : Pose ℝ) (p : V) : (A.applyInv p).z = V3.dot (p - A.t) A.R.col2 := by
  unfold Pose.applyInv M3.tmulVec
  exact V3.dot_comm _ _

theorem applyInv_normSq {A : Pose ℝ} (hA : Orthonormal A.R) (p : V) :
    V3.normSq (A.applyInv p) = V3.normSq (p - A.t) := by
  unfold Pose.applyInv V3.normSq
  exact hA.dot_tmulVec _ _

theorem col2_unit {A : Pose ℝ} (hA : Orthonormal A.R) : V3.dot A.R.col2 A.R.col2 = 1 := hA.c22

/-- `|d − s a|² = |d|² − 2 s ⟨d,a⟩ + s²` for a unit vector `a` -/
theorem sub_smul_sq (d a : V) (s : ℝ) (ha : V3.dot a a = 1) :
    V3.dot (d - s * a) (d - s * a) = V3.normSq d - 2 * s * V3.dot d a + s * s := by
  simp only [V3.dot_def, V3.normSq_def, V3.sub_x, V3.sub_y, V3.sub_z, V3.smul_x, V3.smul_y,
    V3.smul_z] at *
  linear_combination (s * s) * ha

/-- squared radial distance in the shape frame, from world-frame quantities -/
theorem radialSq_eq {A : Pose ℝ} (hA : Orthonormal A.R) (p : V) :
    (A.applyInv p).x * (A.applyInv p).x + (A.applyInv p).y * (A.applyInv p).y =
      V3.normSq (p - A.t) - V3.dot (p - A.t) A.R.col2 * V3.dot (p - A.t) A.R.col2 := by
  have h1 := applyInv_normSq hA p
  have h2 := applyInv_z A p
  rw [V3.normSq_def] at h1
  rw [← h1, ← h2]; ring

theorem radial_nonneg (q : V) : 0 ≤ radial q := Real.sqrt_nonneg _

theorem radial_le_iff {r : ℝ} (hr : 0 ≤ r) (q : V) :
    radial q ≤ r ↔ q.x * q.x + q.y * q.y ≤ r * r := by
  unfold radial
  rw [Real.sqrt_le_left hr, pow_two]

theorem norm_le_iff {r : ℝ} (hr : 0 ≤ r) (q : V) : V3.norm q ≤ r ↔ V3.normSq q ≤ r * r := by
  rw [V3.norm_def, Real.sqrt_le_left hr, pow_two]

/-- generic batch lemma for the kernels that can fail: if every point evaluates to a Boolean
that decides `K`, the batch evaluates and decides `K` element-wise -/
theorem mapM_exact (f : V → Except Err Bool) (K : V → Prop)
    (h : ∀ p, ∃ b, f p = .ok b ∧ (b = true ↔ K p)) :
    ∀ ps : List V, ∃ bs, ps.mapM f = .ok bs ∧ List.Forall₂ (fun p b => b = true ↔ K p) ps bs
  | [] => ⟨[], by simp [pure, Except.pure], List.Forall₂.nil⟩
  | p :: ps => by
    obtain ⟨b, hb, hbk⟩ := h p
    obtain ⟨bs, hbs, hall⟩ := mapM_exact f K h ps
    refine ⟨b :: bs, ?_, List.Forall₂.cons hbk hall⟩
    simp [List.mapM_cons, hb, hbs, bind, Except.bind, pure, Except.pure]

/-- batch lemma for the total kernels -/
theorem map_exact (f : V → Bool) (K : V → Prop) (h : ∀ p, f p = true ↔ K p) :
    ∀ ps : List V, List.Forall₂ (fun p b => b = true ↔ K p) ps (ps.map f)
  | [] => List.Forall₂.nil
  | p :: ps => List.Forall₂.cons (h p) (map_exact f K h ps)

end ContainTest
end D3
