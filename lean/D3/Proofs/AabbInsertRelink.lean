/-
Step (3) of the insertion refinement: the relinking writes of `insert_leaf`.

* `insertLeaf_exec`: all reads/writes of `insertLeaf` before the final `fixUpward` succeed
  and produce the explicit array `relink5`;
* `Relinked`: pointwise description of `relink5`;
* `graft_rep`: an array that is `Relinked` encodes the grafted tree `T.graft`.
Structural, any scalar.
-/
import D3.Proofs.AabbInsertDescend

set_option linter.unusedSectionVars false
set_option linter.unusedVariables false

namespace D3
namespace Aabb

scalar_variables

/-- `nodes` after the four unconditional relinking writes of `insert_leaf` -/
def relink4 (N₀ : Array Node) (nl : Node) (leaf sib p op : Int) : Array Node :=
  upd (upd (upd (upd N₀ leaf ⟨nl.parent, nl.left, nl.right, TYPE_LEAF⟩) p ⟨op, sib, leaf, TYPE_BRANCH⟩)
    leaf ⟨p, nl.left, nl.right, TYPE_LEAF⟩) sib ⟨p, INDEX_NONE, INDEX_NONE, TYPE_LEAF⟩

/-- `nodes` after all relinking writes (the old parent's child pointer is redirected) -/
def relink5 (N₀ : Array Node) (nl np : Node) (leaf sib p op : Int) : Array Node :=
  if op = INDEX_NONE then relink4 N₀ nl leaf sib p op
  else upd (relink4 N₀ nl leaf sib p op) op
    (if np.left = sib then ⟨np.parent, p, np.right, np.typ⟩ else ⟨np.parent, np.left, p, np.typ⟩)

theorem rd_relink4 (N₀ : Array Node) (nl : Node) (leaf sib p op : Int)
    (hl : InR N₀ leaf) (hs : InR N₀ sib) (hp : InR N₀ p) (j : Int) :
    rd (relink4 N₀ nl leaf sib p op) j =
      if j = sib then .ok ⟨p, INDEX_NONE, INDEX_NONE, TYPE_LEAF⟩
      else if j = leaf then .ok ⟨p, nl.left, nl.right, TYPE_LEAF⟩
      else if j = p then .ok ⟨op, sib, leaf, TYPE_BRANCH⟩
      else rd N₀ j := by
  unfold relink4
  have w1 : InR (upd N₀ leaf ⟨nl.parent, nl.left, nl.right, TYPE_LEAF⟩) p := InR_upd.mpr hp
  have w2 : InR (upd (upd N₀ leaf ⟨nl.parent, nl.left, nl.right, TYPE_LEAF⟩) p
      ⟨op, sib, leaf, TYPE_BRANCH⟩) leaf := InR_upd.mpr (InR_upd.mpr hl)
  have w3 : InR (upd (upd (upd N₀ leaf ⟨nl.parent, nl.left, nl.right, TYPE_LEAF⟩) p
      ⟨op, sib, leaf, TYPE_BRANCH⟩) leaf ⟨p, nl.left, nl.right, TYPE_LEAF⟩) sib :=
    InR_upd.mpr (InR_upd.mpr (InR_upd.mpr hs))
  rw [rd_upd w3, rd_upd w2, rd_upd w1, rd_upd hl]
  by_cases h1 : j = sib
  · simp only [h1, if_true]
  · by_cases h2 : j = leaf
    · simp only [h2, if_true]
    · simp only [h1, h2, if_false]

theorem size_relink4 (N₀ : Array Node) (nl : Node) (leaf sib p op : Int) :
    (relink4 N₀ nl leaf sib p op).size = N₀.size := by
  simp [relink4]

theorem size_relink5 (N₀ : Array Node) (nl np : Node) (leaf sib p op : Int) :
    (relink5 N₀ nl np leaf sib p op).size = N₀.size := by
  unfold relink5
  split <;> simp [size_relink4]

/-- **execution of `insert_leaf`** on a non-empty tree, reduced to the outcome of the final
`fix_upward_tree` call: all reads and writes before it succeed and produce `relink5`. -/
theorem insertLeaf_exec (c : Core α) (leaf : Int) (nl np : Node) (lb sb : Box α) (sib op : Int)
    (hnl : rd c.nodes leaf = .ok nl) (hroot : c.root ≠ INDEX_NONE)
    (hlb : rd c.aabbs leaf = .ok lb)
    (hdesc : descend (upd c.nodes leaf ⟨nl.parent, nl.left, nl.right, TYPE_LEAF⟩) c.aabbs lb
      (c.nodes.size + 1) c.root = .ok sib)
    (hns : rd c.nodes sib = .ok ⟨op, INDEX_NONE, INDEX_NONE, TYPE_LEAF⟩)
    (hsb : rd c.aabbs sib = .ok sb)
    (hpN : InR c.nodes c.filledLen) (hpA : InR c.aabbs c.filledLen)
    (h1 : sib ≠ leaf) (h2 : (c.filledLen : Int) ≠ leaf) (h3 : sib ≠ c.filledLen)
    (hop : op ≠ INDEX_NONE → rd c.nodes op = .ok np ∧ op ≠ leaf ∧ op ≠ c.filledLen ∧ op ≠ sib)
    (A' : Array (Box α))
    (hfix : fixUpward (relink5 c.nodes nl np leaf sib c.filledLen op) (c.nodes.size + 1)
      c.filledLen (upd c.aabbs c.filledLen (merge lb sb)) = .ok A') :
    insertLeaf c leaf = .ok ⟨if op = INDEX_NONE then c.filledLen else c.root,
      relink5 c.nodes nl np leaf sib c.filledLen op, A', c.filledLen + 1⟩ := by
  have hleafR : InR c.nodes leaf := rd_ok_inR hnl
  have hsibR : InR c.nodes sib := rd_ok_inR hns
  unfold insertLeaf
  simp only [bind, Except.bind, pure, Except.pure, hnl, wr_ok hleafR, hroot, if_false, hlb, size_upd,
    hdesc]
  have r1 : rd (upd c.nodes leaf ⟨nl.parent, nl.left, nl.right, TYPE_LEAF⟩) sib
      = .ok ⟨op, INDEX_NONE, INDEX_NONE, TYPE_LEAF⟩ := by
    rw [rd_upd_ne hleafR _ h1]; exact hns
  simp only [r1, hsb]
  have w2 : InR (upd c.nodes leaf ⟨nl.parent, nl.left, nl.right, TYPE_LEAF⟩) c.filledLen :=
    InR_upd.mpr hpN
  simp only [wr_ok w2, wr_ok hpA]
  have r2 : rd (upd (upd c.nodes leaf ⟨nl.parent, nl.left, nl.right, TYPE_LEAF⟩) c.filledLen
      ⟨op, sib, leaf, TYPE_BRANCH⟩) leaf = .ok ⟨nl.parent, nl.left, nl.right, TYPE_LEAF⟩ := by
    rw [rd_upd_ne w2 _ (Ne.symm h2), rd_upd_eq hleafR]
  have w3 : InR (upd (upd c.nodes leaf ⟨nl.parent, nl.left, nl.right, TYPE_LEAF⟩) c.filledLen
      ⟨op, sib, leaf, TYPE_BRANCH⟩) leaf := InR_upd.mpr (InR_upd.mpr hleafR)
  simp only [r2, wr_ok w3]
  have r3 : rd (upd (upd (upd c.nodes leaf ⟨nl.parent, nl.left, nl.right, TYPE_LEAF⟩) c.filledLen
      ⟨op, sib, leaf, TYPE_BRANCH⟩) leaf ⟨c.filledLen, nl.left, nl.right, TYPE_LEAF⟩) sib
      = .ok ⟨op, INDEX_NONE, INDEX_NONE, TYPE_LEAF⟩ := by
    rw [rd_upd_ne w3 _ h1, rd_upd_ne w2 _ h3]; exact r1
  have w4 : InR (upd (upd (upd c.nodes leaf ⟨nl.parent, nl.left, nl.right, TYPE_LEAF⟩) c.filledLen
      ⟨op, sib, leaf, TYPE_BRANCH⟩) leaf ⟨c.filledLen, nl.left, nl.right, TYPE_LEAF⟩) sib :=
    InR_upd.mpr (InR_upd.mpr (InR_upd.mpr hsibR))
  simp only [r3, wr_ok w4]
  have e4 : (upd (upd (upd (upd c.nodes leaf ⟨nl.parent, nl.left, nl.right, TYPE_LEAF⟩) c.filledLen
      ⟨op, sib, leaf, TYPE_BRANCH⟩) leaf ⟨c.filledLen, nl.left, nl.right, TYPE_LEAF⟩) sib
      ⟨c.filledLen, INDEX_NONE, INDEX_NONE, TYPE_LEAF⟩) = relink4 c.nodes nl leaf sib c.filledLen op := rfl
  rw [e4]
  have r4 : ∀ j, rd (relink4 c.nodes nl leaf sib c.filledLen op) j = _ :=
    rd_relink4 c.nodes nl leaf sib c.filledLen op hleafR hsibR hpN
  by_cases hopn : op = INDEX_NONE
  · subst hopn
    have e5 : relink5 c.nodes nl np leaf sib c.filledLen INDEX_NONE
        = relink4 c.nodes nl leaf sib c.filledLen INDEX_NONE := by
      unfold relink5; rw [if_pos rfl]
    rw [e5] at hfix ⊢
    have r5 : rd (relink4 c.nodes nl leaf sib c.filledLen INDEX_NONE) leaf
        = .ok ⟨c.filledLen, nl.left, nl.right, TYPE_LEAF⟩ := by
      rw [r4, if_neg (Ne.symm h1), if_pos rfl]
    simp only [if_true, r5, size_relink4, hfix]
  · obtain ⟨hnp, o1, o2, o3⟩ := hop hopn
    have r5 : rd (relink4 c.nodes nl leaf sib c.filledLen op) op = .ok np := by
      rw [r4, if_neg o3, if_neg o1, if_neg o2]; exact hnp
    have w5 : InR (relink4 c.nodes nl leaf sib c.filledLen op) op := rd_ok_inR r5
    have e5 : relink5 c.nodes nl np leaf sib c.filledLen op
        = upd (relink4 c.nodes nl leaf sib c.filledLen op) op
          (if np.left = sib then ⟨np.parent, c.filledLen, np.right, np.typ⟩
            else ⟨np.parent, np.left, c.filledLen, np.typ⟩) := by
      unfold relink5; rw [if_neg hopn]
    rw [e5] at hfix ⊢
    simp only [hopn, if_false, r5, wr_ok w5]
    by_cases hl : np.left = sib
    · simp only [hl, if_true] at hfix ⊢
      have r6 : rd (upd (relink4 c.nodes nl leaf sib c.filledLen op) op
          ⟨np.parent, c.filledLen, np.right, np.typ⟩) leaf
          = .ok ⟨c.filledLen, nl.left, nl.right, TYPE_LEAF⟩ := by
        rw [rd_upd_ne w5 _ (Ne.symm o1), r4, if_neg (Ne.symm h1), if_pos rfl]
      simp only [r6, size_upd, size_relink4, hfix]
    · simp only [hl, if_false] at hfix ⊢
      have r6 : rd (upd (relink4 c.nodes nl leaf sib c.filledLen op) op
          ⟨np.parent, np.left, c.filledLen, np.typ⟩) leaf
          = .ok ⟨c.filledLen, nl.left, nl.right, TYPE_LEAF⟩ := by
        rw [rd_upd_ne w5 _ (Ne.symm o1), r4, if_neg (Ne.symm h1), if_pos rfl]
      simp only [r6, size_upd, size_relink4, hfix]

/-- pointwise description of `nodes` after the relinking writes -/
structure Relinked (N₀ N : Array Node) (leaf sib p op : Int) : Prop where
  hleaf : rd N leaf = .ok ⟨p, INDEX_NONE, INDEX_NONE, TYPE_LEAF⟩
  hp : rd N p = .ok ⟨op, sib, leaf, TYPE_BRANCH⟩
  hsib : rd N sib = .ok ⟨p, INDEX_NONE, INDEX_NONE, TYPE_LEAF⟩
  hop : op ≠ INDEX_NONE → ∃ np, rd N₀ op = .ok np ∧
      rd N op = .ok (if np.left = sib then ⟨np.parent, p, np.right, np.typ⟩
        else ⟨np.parent, np.left, p, np.typ⟩)
  hframe : ∀ j, j ≠ leaf → j ≠ p → j ≠ sib → j ≠ op → rd N j = rd N₀ j

theorem relink5_relinked (N₀ : Array Node) (nl np : Node) (leaf sib p op : Int)
    (hnl : rd N₀ leaf = .ok nl) (hl : nl.left = INDEX_NONE) (hr : nl.right = INDEX_NONE)
    (hs : InR N₀ sib) (hp : InR N₀ p)
    (h1 : sib ≠ leaf) (h2 : p ≠ leaf) (h3 : sib ≠ p)
    (hop : op ≠ INDEX_NONE → rd N₀ op = .ok np ∧ op ≠ leaf ∧ op ≠ p ∧ op ≠ sib) :
    Relinked N₀ (relink5 N₀ nl np leaf sib p op) leaf sib p op := by
  have hleafR : InR N₀ leaf := rd_ok_inR hnl
  have r4 : ∀ j, rd (relink4 N₀ nl leaf sib p op) j = _ := rd_relink4 N₀ nl leaf sib p op hleafR hs hp
  by_cases hopn : op = INDEX_NONE
  · have e5 : relink5 N₀ nl np leaf sib p op = relink4 N₀ nl leaf sib p op := by
      unfold relink5; rw [if_pos hopn]
    rw [e5]
    refine ⟨?_, ?_, ?_, fun h => absurd hopn h, ?_⟩
    · rw [r4, if_neg (Ne.symm h1), if_pos rfl, hl, hr]
    · rw [r4, if_neg (Ne.symm h3), if_neg h2, if_pos rfl]
    · rw [r4, if_pos rfl]
    · intro j j1 j2 j3 _
      rw [r4, if_neg j3, if_neg j1, if_neg j2]
  · obtain ⟨hnp, o1, o2, o3⟩ := hop hopn
    have r5 : rd (relink4 N₀ nl leaf sib p op) op = .ok np := by
      rw [r4, if_neg o3, if_neg o1, if_neg o2]; exact hnp
    have w5 : InR (relink4 N₀ nl leaf sib p op) op := rd_ok_inR r5
    have e5 : relink5 N₀ nl np leaf sib p op
        = upd (relink4 N₀ nl leaf sib p op) op
          (if np.left = sib then ⟨np.parent, p, np.right, np.typ⟩
            else ⟨np.parent, np.left, p, np.typ⟩) := by
      unfold relink5; rw [if_neg hopn]
    rw [e5]
    refine ⟨?_, ?_, ?_, fun _ => ⟨np, hnp, rd_upd_eq w5 _⟩, ?_⟩
    · rw [rd_upd_ne w5 _ (Ne.symm o1), r4, if_neg (Ne.symm h1), if_pos rfl, hl, hr]
    · rw [rd_upd_ne w5 _ (Ne.symm o2), r4, if_neg (Ne.symm h3), if_neg h2, if_pos rfl]
    · rw [rd_upd_ne w5 _ (Ne.symm o3), r4, if_pos rfl]
    · intro j j1 j2 j3 j4
      rw [rd_upd_ne w5 _ j4, r4, if_neg j3, if_neg j1, if_neg j2]

/-- index of the grafted subtree: `p` if the subtree was a leaf (then the reached leaf is the
subtree itself and its parent is `par`), unchanged otherwise (then the reached leaf's parent
lies inside the subtree). -/
theorem T.graft_idx_cases (li : Int) (lb : Box α) (p : Int) (t : T α) (par : Int) :
    ((t.graft li lb p).idx = p ∧ t.target lb = t.idx ∧ t.targetPar lb par = par) ∨
    ((t.graft li lb p).idx = t.idx ∧ t.targetPar lb par ∈ t.indices) := by
  cases t with
  | leaf i b => left; exact ⟨rfl, rfl, rfl⟩
  | node i b l r =>
    right
    constructor
    · simp only [T.graft]; split <;> rfl
    · rcases T.targetPar_mem lb (.node i b l r) par with ⟨_, _, h, _⟩ | h
      · cases h
      · exact h

/-- **relinking produces the grafted tree**: if `N` is `Relinked` w.r.t. the reached leaf of
the subtree `s` and `A` differs from `A₀` only at `p` (holding the merged box there), then
`N, A` encode `s.graft`. -/
theorem graft_rep (N₀ N : Array Node) (A₀ A : Array (Box α)) (leaf p : Int) (lb : Box α)
    (hAleaf : rd A leaf = .ok lb) (hAframe : ∀ j, j ≠ p → rd A j = rd A₀ j) :
    ∀ (s : T α) (par : Int), RepP N₀ A₀ par s → s.indices.Nodup → leaf ∉ s.indices →
      p ∉ s.indices → Relinked N₀ N leaf (s.target lb) p (s.targetPar lb par) →
      rd A p = .ok (merge lb (s.targetBox lb)) →
      RepP N A par (s.graft leaf lb p)
  | .leaf i b, par, ⟨h1, h2⟩, hnd, hleaf, hp, hrel, hAp => by
    simp only [T.target, T.targetPar, T.targetBox] at hrel hAp
    have hip : i ≠ p := by
      intro h; apply hp; simp [T.indices, h]
    refine ⟨hrel.hp, hAp, ⟨hrel.hsib, ?_⟩, ⟨hrel.hleaf, hAleaf⟩⟩
    rw [hAframe i hip]; exact h2
  | .node i b l r, par, ⟨h1, h2, hl, hr⟩, hnd, hleaf, hp, hrel, hAp => by
    simp only [T.indices, List.nodup_cons, List.mem_append, not_or, List.nodup_append] at hnd
    obtain ⟨⟨hil, hir⟩, hndl, hndr, hdisj⟩ := hnd
    simp only [T.indices, List.mem_cons, List.mem_append, not_or] at hleaf hp
    have hiN : i ≠ INDEX_NONE := rd_idx_ne_none h1
    by_cases hc : volume (merge lb l.box) < volume (merge lb r.box)
    · simp only [T.target, T.targetPar, T.targetBox, if_pos hc] at hrel hAp
      simp only [T.graft, if_pos hc]
      have hsibl : l.target lb ∈ l.indices := T.target_mem lb l
      have hrow : rd N i = .ok ⟨par, (l.graft leaf lb p).idx, r.idx, TYPE_BRANCH⟩ := by
        rcases T.graft_idx_cases leaf lb p l i with ⟨e1, e2, e3⟩ | ⟨e1, e3⟩
        · rw [e3] at hrel
          obtain ⟨np, hnp, hN⟩ := hrel.hop hiN
          rw [h1] at hnp
          cases hnp
          rw [hN, e1, e2]
          simp only [if_true]
        · rw [e1, hrel.hframe i (Ne.symm hleaf.1) (Ne.symm hp.1)
            (fun h => hil (h ▸ hsibl)) (fun h => hil (h ▸ e3))]
          exact h1
      refine ⟨hrow, ?_, ?_, ?_⟩
      · rw [hAframe i (Ne.symm hp.1)]; exact h2
      · exact graft_rep N₀ N A₀ A leaf p lb hAleaf hAframe l i hl hndl hleaf.2.1 hp.2.1 hrel hAp
      · refine RepP.congr r i (fun j hj => ⟨?_, ?_⟩) hr
        · have hjl : j ∉ l.indices := fun h => hdisj j h j hj rfl
          refine hrel.hframe j (fun h => hleaf.2.2 (h ▸ hj)) (fun h => hp.2.2 (h ▸ hj))
            (fun h => hjl (h ▸ hsibl)) ?_
          intro h
          rcases T.targetPar_mem lb l i with ⟨_, _, _, e⟩ | e
          · rw [e] at h; exact hir (h ▸ hj)
          · exact hjl (h ▸ e)
        · exact hAframe j (fun h => hp.2.2 (h ▸ hj))
    · simp only [T.target, T.targetPar, T.targetBox, if_neg hc] at hrel hAp
      simp only [T.graft, if_neg hc]
      have hsibr : r.target lb ∈ r.indices := T.target_mem lb r
      have hrow : rd N i = .ok ⟨par, l.idx, (r.graft leaf lb p).idx, TYPE_BRANCH⟩ := by
        rcases T.graft_idx_cases leaf lb p r i with ⟨e1, e2, e3⟩ | ⟨e1, e3⟩
        · rw [e3] at hrel
          obtain ⟨np, hnp, hN⟩ := hrel.hop hiN
          rw [h1] at hnp
          cases hnp
          rw [hN, e1, e2]
          have : ¬ (l.idx = r.idx) := fun h =>
            hdisj _ (T.idx_mem_indices l) _ (T.idx_mem_indices r) h
          simp only [this, if_false]
        · rw [e1, hrel.hframe i (Ne.symm hleaf.1) (Ne.symm hp.1)
            (fun h => hir (h ▸ hsibr)) (fun h => hir (h ▸ e3))]
          exact h1
      refine ⟨hrow, ?_, ?_, ?_⟩
      · rw [hAframe i (Ne.symm hp.1)]; exact h2
      · refine RepP.congr l i (fun j hj => ⟨?_, ?_⟩) hl
        · have hjr : j ∉ r.indices := fun h => hdisj j hj j h rfl
          refine hrel.hframe j (fun h => hleaf.2.1 (h ▸ hj)) (fun h => hp.2.1 (h ▸ hj))
            (fun h => hjr (h ▸ hsibr)) ?_
          intro h
          rcases T.targetPar_mem lb r i with ⟨_, _, _, e⟩ | e
          · rw [e] at h; exact hil (h ▸ hj)
          · exact hjr (h ▸ e)
        · exact hAframe j (fun h => hp.2.1 (h ▸ hj))
      · exact graft_rep N₀ N A₀ A leaf p lb hAleaf hAframe r i hr hndr hleaf.2.2 hp.2.2 hrel hAp

end Aabb
end D3
