/-
Tree-against-tree query loop = recursive traversal (structural, any scalar).
-/
import D3.Proofs.AabbQuery

set_option linter.unusedSectionVars false

namespace D3
namespace Aabb

scalar_variables

/-- inner nodes of the encoded tree carry `TYPE_BRANCH` (the tree–tree loop tests for it) -/
def AllBranch (nodes : Array Node) : T α → Prop
  | .leaf _ _ => True
  | .node i _ l r => (∃ nd, rd nodes i = .ok nd ∧ nd.typ = TYPE_BRANCH) ∧
      AllBranch nodes l ∧ AllBranch nodes r

/-- recursive counterpart of `query_overlap_of_other_tree` -/
def T.collectTree (t1 : T α) : T α → List (Int × Int)
  | .leaf j b => (t1.collect b).map fun i => (i, j)
  | .node _ b l r =>
    if ((t1.collect b).take 1).length ≥ 1 then t1.collectTree r ++ t1.collectTree l else []

theorem queryTreeLoop_eq' (nodes1 : Array Node) (aabbs1 : Array (Box α)) (t1 : T α) (root1 : Int)
    (hq : ∀ b, queryOverlap b root1 nodes1 aabbs1 = .ok (t1.collect b))
    (hqb : ∀ b, queryOverlap b root1 nodes1 aabbs1 true = .ok ((t1.collect b).take 1))
    (nodes2 : Array Node) (aabbs2 : Array (Box α)) :
    ∀ (fuel : Nat) (ts : List (T α)) (acc : List (Int × Int)),
      (∀ t ∈ ts, Rep nodes2 aabbs2 t ∧ AllBranch nodes2 t) → sizeSum ts < fuel →
      queryTreeLoop root1 nodes1 aabbs1 nodes2 aabbs2 fuel (ts.map T.idx) acc
        = .ok (acc.reverse ++ ts.flatMap (T.collectTree t1)) := by
  intro fuel
  induction fuel with
  | zero => intro ts acc _ h; omega
  | succ fuel ih =>
    intro ts acc hrep hfuel
    cases ts with
    | nil => simp [queryTreeLoop]
    | cons t ts =>
      obtain ⟨ht, hbr⟩ := hrep t (by simp)
      have hts : ∀ t' ∈ ts, Rep nodes2 aabbs2 t' ∧ AllBranch nodes2 t' :=
        fun t' h => hrep t' (by simp [h])
      cases ht with
      | leaf j b nd hnd htyp hb =>
        have hnb : ¬ (TYPE_LEAF = TYPE_BRANCH) := by decide
        have hne : ¬ (j = INDEX_NONE) := by
          have := rd_ok_nonneg _ _ _ hnd; simp only [INDEX_NONE]; omega
        simp only [List.map_cons, T.idx, queryTreeLoop, hne, hb, hnd, bind, Except.bind, htyp, hnb,
          if_false, if_true, hq b]
        simp only [sizeSum, T.size] at hfuel
        rw [ih ts _ hts (by omega)]
        simp [T.collectTree]
      | node j b nd l r hnd htyp hl hr hb hrl hrr =>
        obtain ⟨⟨nd', hnd', htyp'⟩, hbl, hbrr⟩ := hbr
        rw [hnd] at hnd'
        cases hnd'
        have hne : ¬ (j = INDEX_NONE) := by
          have := rd_ok_nonneg _ _ _ hnd; simp only [INDEX_NONE]; omega
        simp only [List.map_cons, T.idx, queryTreeLoop, hne, hb, hnd, bind, Except.bind, htyp',
          if_true, hqb b]
        simp only [sizeSum, T.size] at hfuel
        by_cases hh : ((t1.collect b).take 1).length ≥ 1
        · simp only [hh, if_true]
          have := ih (r :: l :: ts) acc (by
            intro t' ht'
            simp at ht'
            rcases ht' with h | h | h
            · exact h ▸ ⟨hrr, hbrr⟩
            · exact h ▸ ⟨hrl, hbl⟩
            · exact hts t' h) (by simp [sizeSum]; omega)
          simp only [List.map_cons] at this
          rw [hl, hr, this]
          simp only [List.length_take] at hh
          simp [T.collectTree, hh]
        · simp only [hh, if_false]
          rw [ih ts acc hts (by omega)]
          simp only [List.length_take] at hh
          simp [T.collectTree, hh]

theorem queryTreeLoop_eq (nodes1 : Array Node) (aabbs1 : Array (Box α)) (t1 : T α)
    (hrep1 : Rep nodes1 aabbs1 t1) (hsz1 : t1.size ≤ 2 * nodes1.size + 1)
    (nodes2 : Array Node) (aabbs2 : Array (Box α))
    (fuel : Nat) (ts : List (T α)) (acc : List (Int × Int))
    (h : ∀ t ∈ ts, Rep nodes2 aabbs2 t ∧ AllBranch nodes2 t) (hf : sizeSum ts < fuel) :
    queryTreeLoop t1.idx nodes1 aabbs1 nodes2 aabbs2 fuel (ts.map T.idx) acc
      = .ok (acc.reverse ++ ts.flatMap (T.collectTree t1)) :=
  queryTreeLoop_eq' nodes1 aabbs1 t1 t1.idx
    (fun b => queryOverlap_eq b nodes1 aabbs1 t1 hrep1 hsz1)
    (fun b => queryOverlap_break_eq b nodes1 aabbs1 t1 hrep1 hsz1) nodes2 aabbs2 fuel ts acc h hf

end Aabb
end D3
