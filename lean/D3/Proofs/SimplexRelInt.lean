/-
C18 → C01 link, solver side: the feature set reported by the Jolt simplex solver names exactly
the vertices that carry the returned point with STRICTLY positive weights (`relSet`), for every
input the C18 theorems treat exactly (`EdgeOK`, `FaceOK`, consistent plane signs outside the
`hband` bands, exactly flat tetrahedra).  At a Voronoi tie the region cascade always reports the
lower-dimensional feature (vertex tests come before the edge tests, edge tests use `vc ≤ 0`),
so no reported vertex has weight zero.
-/
import D3.Proofs.SimplexTetraFlat

set_option linter.unusedSectionVars false
set_option linter.unusedVariables false

namespace D3
namespace Simplex

/-- convex combinations of `pts` with strictly positive weight on every point -/
def relSet (pts : List V) : V → Prop := fun v =>
  ∃ w : List ℝ, w.length = pts.length ∧ (∀ x ∈ w, 0 < x) ∧ w.sum = 1 ∧ lincomb w pts = v

theorem relSet.hull {pts : List V} {v : V} (h : relSet pts v) : hullSet pts v := by
  obtain ⟨w, hl, hp, hs, he⟩ := h
  exact ⟨w, hl, fun x hx => (hp x hx).le, hs, he⟩

theorem rel1_intro (a : V) : relSet [a] a := by
  refine ⟨[1], rfl, by simp, by simp, ?_⟩
  apply V3.ext' <;> simp [lincomb]

theorem rel2_intro (a b : V) {u v : ℝ} (hu : 0 < u) (hv : 0 < v) (hs : u + v = 1) :
    relSet [a, b] (u * a + v * b) := by
  refine ⟨[u, v], rfl, by simp [hu, hv], by simp [hs], ?_⟩
  apply V3.ext' <;> simp [lincomb]

theorem rel3_intro (a b c : V) {u v w : ℝ} (hu : 0 < u) (hv : 0 < v) (hw : 0 < w)
    (hs : u + v + w = 1) : relSet [a, b, c] (u * a + v * b + w * c) := by
  refine ⟨[u, v, w], rfl, by simp [hu, hv, hw], by simp [← hs, add_assoc], ?_⟩
  apply V3.ext' <;> simp [lincomb, add_assoc]

theorem rel4_intro (a b c d : V) {u v w x : ℝ} (hu : 0 < u) (hv : 0 < v) (hw : 0 < w)
    (hx : 0 < x) (hs : u + v + w + x = 1) :
    relSet [a, b, c, d] (u * a + v * b + w * c + x * d) := by
  refine ⟨[u, v, w, x], rfl, by simp [hu, hv, hw, hx], by simp [← hs, add_assoc], ?_⟩
  apply V3.ext' <;> simp [lincomb, add_assoc]

/-- strictly positive weights can be carried along a permutation of the points -/
theorem lincomb_perm_pos {l₁ l₂ : List V} (h : l₁.Perm l₂) : ∀ w : List ℝ, w.length = l₁.length →
    (∀ x ∈ w, 0 < x) → ∃ w' : List ℝ, w'.length = l₂.length ∧ (∀ x ∈ w', 0 < x) ∧
      w'.sum = w.sum ∧ lincomb w' l₂ = lincomb w l₁ := by
  induction h with
  | nil => intro w hl hw; exact ⟨w, hl, hw, rfl, rfl⟩
  | cons p _ ih =>
    intro w hl hw
    match w, hl with
    | w0 :: ws, hl =>
      obtain ⟨w', hl', hw', hs', hx'⟩ := ih ws (by simpa using hl)
        (fun y hy => hw y (List.mem_cons_of_mem _ hy))
      refine ⟨w0 :: w', by simp [hl'], ?_, by simp [hs'], ?_⟩
      · intro y hy
        rcases List.mem_cons.mp hy with rfl | hy
        · exact hw _ (by simp)
        · exact hw' y hy
      · simp only [lincomb, hx']
  | swap p q l =>
    intro w hl hw
    match w, hl with
    | w0 :: w1 :: ws, hl =>
      refine ⟨w1 :: w0 :: ws, by simpa using hl, ?_, by simp only [List.sum_cons]; ring, ?_⟩
      · intro y hy
        simp only [List.mem_cons] at hy
        rcases hy with rfl | rfl | hy
        · exact hw _ (by simp)
        · exact hw _ (by simp)
        · exact hw y (by simp [hy])
      · apply V3.ext' <;> simp [lincomb] <;> ring
  | trans _ _ ih1 ih2 =>
    intro w hl hw
    obtain ⟨w1, hl1, hw1, hs1, hx1⟩ := ih1 w hl hw
    obtain ⟨w2, hl2, hw2, hs2, hx2⟩ := ih2 w1 hl1 hw1
    exact ⟨w2, hl2, hw2, by rw [hs2, hs1], by rw [hx2, hx1]⟩

theorem relSet_perm {l₁ l₂ : List V} (h : l₁.Perm l₂) : ∀ x, relSet l₁ x → relSet l₂ x := by
  rintro x ⟨w, hl, hw, hs, rfl⟩
  obtain ⟨w', hl', hw', hs', hx'⟩ := lincomb_perm_pos h w hl hw
  exact ⟨w', hl', hw', by rw [hs', hs], hx'⟩

/-! ### line segment -/

/-- **line: strict feature set.**  On an edge the line routine treats exactly, the returned
point has strictly positive weights on exactly the vertices named by the set bits. -/
theorem closestPointLine_rel (a b : V) (h : EdgeOK a b) {r : CP ℝ}
    (hr : closestPointLine a b = .ok r) : relSet (selectBits r.set [a, b]) r.pt := by
  rcases h with h | h
  · have hpos : 0 < V3.dot (b - a) (b - a) := lt_of_lt_of_le EPS2_pos (not_lt.mp h)
    unfold closestPointLine at hr
    rw [baryLine_regular a b h] at hr
    simp only [bind, Except.bind] at hr
    split_ifs at hr with h1 h2
    · cases hr; simpa [selectBits] using rel1_intro a
    · cases hr; simpa [selectBits] using rel1_intro b
    · cases hr
      simpa [selectBits] using rel2_intro a b (not_le.mp h2) (not_le.mp h1) (by ring)
  · subst h
    have h0 : V3.dot (a - a) (a - a) < EPS2 := by
      have : V3.dot (a - a) (a - a) = 0 := by simp [V3.dot_def]
      rw [this]; exact EPS2_pos
    rw [closestPointLine_degenerate a a h0] at hr
    simp only [lt_irrefl, if_false] at hr
    cases hr
    simpa [selectBits] using rel1_intro a

/-! ### triangle: region cascade -/

theorem rel_edge (p q : V) (t : ℝ) (h0 : 0 < t) (h1 : t < 1) :
    relSet [p, q] (p + t * (q - p)) := by
  have : p + t * (q - p) = (1 - t) * p + t * q := by
    apply V3.ext' <;> simp <;> ring
  rw [this]
  exact rel2_intro p q (by linarith) h0 (by ring)

/-- an edge region is entered only with the projection strictly inside the edge: at either end
the preceding vertex test would have fired (`e1 = |pq|²`, `d1 = pq·(−p)`, `d2 = pr·(−p)`,
`g = pq·pr`) -/
theorem edge_strict (d1 d2 e1 g : ℝ) (he1 : 0 < e1)
    (hA : ¬ (d1 ≤ 0 ∧ d2 ≤ 0)) (hB : ¬ (0 ≤ d1 - e1 ∧ d2 - g ≤ d1 - e1))
    (hvc : e1 * d2 - g * d1 ≤ 0) (h1 : 0 ≤ d1) (h3 : d1 - e1 ≤ 0) : 0 < d1 ∧ d1 < e1 := by
  constructor
  · rcases h1.lt_or_eq with h | h
    · exact h
    · exfalso
      apply hA
      refine ⟨h.symm.le, ?_⟩
      by_contra hh
      have := mul_pos he1 (not_le.mp hh)
      rw [← h] at hvc
      linarith
  · by_contra hh
    have he : d1 = e1 := le_antisymm (by linarith) (not_lt.mp hh)
    apply hB
    rw [he] at hvc ⊢
    refine ⟨by linarith, ?_⟩
    by_contra h'
    have h'' : 0 < d2 - g := by linarith [not_le.mp h']
    have := mul_pos he1 h''
    linarith

theorem edgeBC_strict (d3 d4 d5 d6 : ℝ) (hsum : 0 < (d4 - d3) + (d5 - d6))
    (hB : ¬ (0 ≤ d3 ∧ d4 ≤ d3)) (hC : ¬ (0 ≤ d6 ∧ d5 ≤ d6))
    (hva : d3 * d6 - d5 * d4 ≤ 0) (h43 : 0 ≤ d4 - d3) (h56 : 0 ≤ d5 - d6) :
    0 < d4 - d3 ∧ 0 < d5 - d6 := by
  constructor
  · rcases h43.lt_or_eq with h | h
    · exact h
    · exfalso
      have h4 : d4 = d3 := by linarith
      have hp : 0 < d5 - d6 := by linarith
      apply hB
      refine ⟨?_, h4.le⟩
      by_contra hh
      have := mul_pos (neg_pos.mpr (not_le.mp hh)) hp
      rw [h4] at hva
      linarith
  · rcases h56.lt_or_eq with h | h
    · exact h
    · exfalso
      have h5 : d5 = d6 := by linarith
      have hp : 0 < d4 - d3 := by linarith
      apply hC
      refine ⟨?_, h5.le⟩
      by_contra hh
      have := mul_pos (neg_pos.mpr (not_le.mp hh)) hp
      rw [h5] at hva
      linarith

/-- the face-region formula in barycentric form (`va, vb, vc` = the code's unnormalised
coordinates, `va + vb + vc = |n|²`) -/
theorem face_bary (a b c : V)
    (hN : 0 < V3.dot (V3.cross (b - a) (c - a)) (V3.cross (b - a) (c - a))) :
    V3.sdiv (V3.dot (a + b + c) (V3.cross (b - a) (c - a)) * V3.cross (b - a) (c - a))
        (3 * V3.dot (V3.cross (b - a) (c - a)) (V3.cross (b - a) (c - a))) =
      ((V3.dot (b - a) (-b) * V3.dot (c - a) (-c) - V3.dot (b - a) (-c) * V3.dot (c - a) (-b)) /
          V3.dot (V3.cross (b - a) (c - a)) (V3.cross (b - a) (c - a))) * a +
      ((V3.dot (b - a) (-c) * V3.dot (c - a) (-a) - V3.dot (b - a) (-a) * V3.dot (c - a) (-c)) /
          V3.dot (V3.cross (b - a) (c - a)) (V3.cross (b - a) (c - a))) * b +
      ((V3.dot (b - a) (-a) * V3.dot (c - a) (-b) - V3.dot (b - a) (-b) * V3.dot (c - a) (-a)) /
          V3.dot (V3.cross (b - a) (c - a)) (V3.cross (b - a) (c - a))) * c ∧
    (V3.dot (b - a) (-b) * V3.dot (c - a) (-c) - V3.dot (b - a) (-c) * V3.dot (c - a) (-b)) +
      (V3.dot (b - a) (-c) * V3.dot (c - a) (-a) - V3.dot (b - a) (-a) * V3.dot (c - a) (-c)) +
      (V3.dot (b - a) (-a) * V3.dot (c - a) (-b) - V3.dot (b - a) (-b) * V3.dot (c - a) (-a)) =
      V3.dot (V3.cross (b - a) (c - a)) (V3.cross (b - a) (c - a)) := by
  set n := V3.cross (b - a) (c - a) with hn
  set N := V3.dot n n with hNdef
  set va := V3.dot (b - a) (-b) * V3.dot (c - a) (-c) - V3.dot (b - a) (-c) * V3.dot (c - a) (-b) with hvadef
  set vb := V3.dot (b - a) (-c) * V3.dot (c - a) (-a) - V3.dot (b - a) (-a) * V3.dot (c - a) (-c) with hvbdef
  set vc := V3.dot (b - a) (-a) * V3.dot (c - a) (-b) - V3.dot (b - a) (-b) * V3.dot (c - a) (-a) with hvcdef
  have hNne : N ≠ 0 := ne_of_gt hN
  have hsum : va + vb + vc = N := by
    simp only [hvadef, hvbdef, hvcdef, hNdef, hn, V3.dot_def, cross_x, cross_y, cross_z, V3.sub_x,
      V3.sub_y, V3.sub_z, V3.neg_x, V3.neg_y, V3.neg_z]; ring
  refine ⟨?_, hsum⟩
  have kx : V3.dot (a + b + c) n * n.x = 3 * (va * a.x + vb * b.x + vc * c.x) := by
    simp only [hvadef, hvbdef, hvcdef, hn, V3.dot_def, cross_x, cross_y, cross_z, V3.sub_x,
      V3.sub_y, V3.sub_z, V3.neg_x, V3.neg_y, V3.neg_z, V3.add_x, V3.add_y, V3.add_z]; ring
  have ky : V3.dot (a + b + c) n * n.y = 3 * (va * a.y + vb * b.y + vc * c.y) := by
    simp only [hvadef, hvbdef, hvcdef, hn, V3.dot_def, cross_x, cross_y, cross_z, V3.sub_x,
      V3.sub_y, V3.sub_z, V3.neg_x, V3.neg_y, V3.neg_z, V3.add_x, V3.add_y, V3.add_z]; ring
  have kz : V3.dot (a + b + c) n * n.z = 3 * (va * a.z + vb * b.z + vc * c.z) := by
    simp only [hvadef, hvbdef, hvcdef, hn, V3.dot_def, cross_x, cross_y, cross_z, V3.sub_x,
      V3.sub_y, V3.sub_z, V3.neg_x, V3.neg_y, V3.neg_z, V3.add_x, V3.add_y, V3.add_z]; ring
  apply V3.ext'
  · show V3.dot (a + b + c) n * n.x / (3 * N) = va / N * a.x + vb / N * b.x + vc / N * c.x
    rw [kx]; field_simp
  · show V3.dot (a + b + c) n * n.y / (3 * N) = va / N * a.y + vb / N * b.y + vc / N * c.y
    rw [ky]; field_simp
  · show V3.dot (a + b + c) n * n.z / (3 * N) = va / N * a.z + vb / N * b.z + vc / N * c.z
    rw [kz]; field_simp

/-- **triangle, region cascade: strict feature set.** -/
theorem closestPointTriangleRegions_rel (a b c : V)
    (hN : 0 < V3.dot (V3.cross (b - a) (c - a)) (V3.cross (b - a) (c - a))) {r : CP ℝ}
    (hr : closestPointTriangleRegions a b c (triNormal a b c) = .ok r) :
    relSet (selectBits r.set [a, b, c]) r.pt := by
  obtain ⟨he1, he2, he3⟩ := tri_edges_pos a b c hN
  simp only [closestPointTriangleRegions] at hr
  split_ifs at hr with hA hB hAB hC hAC hBC
  · cases hr; simpa [selectBits] using rel1_intro a
  · cases hr; simpa [selectBits] using rel1_intro b
  · -- edge AB
    have hden : V3.dot (b - a) (-a) - V3.dot (b - a) (-b) = V3.dot (b - a) (b - a) := by
      rw [tri_d3]; ring
    rw [cdiv_ok (by rw [hden]; exact ne_of_gt he1), hden] at hr
    simp only [bind, Except.bind] at hr
    cases hr
    have hB' := hB
    have hAB' := hAB
    rw [tri_d3 a b, tri_d4 a b c] at hB' hAB'
    obtain ⟨s0, s1⟩ := edge_strict (V3.dot (b - a) (-a)) (V3.dot (c - a) (-a))
      (V3.dot (b - a) (b - a)) (V3.dot (b - a) (c - a)) he1 hA hB' (by linarith [hAB'.1])
      hAB'.2.1 hAB'.2.2
    simpa [selectBits] using rel_edge a b _ (div_pos s0 he1) ((div_lt_one he1).mpr s1)
  · cases hr; simpa [selectBits] using rel1_intro c
  · -- edge AC
    have hden : V3.dot (c - a) (-a) - V3.dot (c - a) (-c) = V3.dot (c - a) (c - a) := by
      rw [tri_d6]; ring
    rw [cdiv_ok (by rw [hden]; exact ne_of_gt he2), hden] at hr
    simp only [bind, Except.bind] at hr
    cases hr
    have hC' := hC
    have hAC' := hAC
    rw [tri_d5 a b c, tri_d6 a c] at hC' hAC'
    obtain ⟨s0, s1⟩ := edge_strict (V3.dot (c - a) (-a)) (V3.dot (b - a) (-a))
      (V3.dot (c - a) (c - a)) (V3.dot (b - a) (c - a)) he2 (fun h => hA ⟨h.2, h.1⟩) hC'
      (by linarith [hAC'.1]) hAC'.2.1 hAC'.2.2
    simpa [selectBits] using rel_edge a c _ (div_pos s0 he2) ((div_lt_one he2).mpr s1)
  · -- edge BC
    have hden : (V3.dot (c - a) (-b) - V3.dot (b - a) (-b)) +
        (V3.dot (b - a) (-c) - V3.dot (c - a) (-c)) = V3.dot (c - b) (c - b) := by
      simp only [V3.dot_def, V3.sub_x, V3.sub_y, V3.sub_z, V3.neg_x, V3.neg_y, V3.neg_z]; ring
    rw [cdiv_ok (by rw [hden]; exact ne_of_gt he3)] at hr
    simp only [bind, Except.bind] at hr
    cases hr
    obtain ⟨s0, s1⟩ := edgeBC_strict (V3.dot (b - a) (-b)) (V3.dot (c - a) (-b))
      (V3.dot (b - a) (-c)) (V3.dot (c - a) (-c)) (by rw [hden]; exact he3) hB hC hBC.1 hBC.2.1
      hBC.2.2
    have hlt : (V3.dot (c - a) (-b) - V3.dot (b - a) (-b)) /
        ((V3.dot (c - a) (-b) - V3.dot (b - a) (-b)) +
          (V3.dot (b - a) (-c) - V3.dot (c - a) (-c))) < 1 := by
      rw [div_lt_one (by linarith)]; linarith
    simpa [selectBits] using rel_edge b c _ (div_pos s0 (by linarith)) hlt
  · -- face
    have hN' := hN
    rw [lagrange] at hN'
    obtain ⟨hva, hvb, hvc, _⟩ := tri_exhaustive_scalar
      (V3.dot (b - a) (-a)) (V3.dot (c - a) (-a)) (V3.dot (b - a) (-b)) (V3.dot (c - a) (-b))
      (V3.dot (b - a) (-c)) (V3.dot (c - a) (-c))
      (V3.dot (b - a) (b - a)) (V3.dot (c - a) (c - a)) (V3.dot (b - a) (c - a))
      (tri_d3 a b) (tri_d4 a b c) (tri_d5 a b c) (tri_d6 a c) he1 he2 hN' hA hB hAB hC hAC hBC
    obtain ⟨hbary, hsum⟩ := face_bary a b c hN
    rw [triNormal_eq, three_real, cdivV_ok _ (mul_ne_zero (by norm_num) (ne_of_gt hN))] at hr
    simp only [bind, Except.bind] at hr
    cases hr
    show relSet (selectBits 7 [a, b, c]) _
    rw [hbary]
    have : selectBits 7 [a, b, c] = [a, b, c] := rfl
    rw [this]
    exact rel3_intro a b c (div_pos hva hN) (div_pos hvb hN) (div_pos hvc hN)
      (by rw [← add_div, ← add_div, hsum]; exact div_self (ne_of_gt hN))

/-! ### triangle: collinear fallback and the full routine -/

theorem closestPointLine_set (p q : V) {r : CP ℝ} (hr : closestPointLine p q = .ok r) :
    r.set = 1 ∨ r.set = 2 ∨ r.set = 3 := by
  unfold closestPointLine at hr
  cases hb : baryLine p q with
  | error e => rw [hb] at hr; cases hr
  | ok uvb =>
    obtain ⟨u, v, br⟩ := uvb
    rw [hb] at hr
    simp only [bind, Except.bind] at hr
    split_ifs at hr <;> cases hr <;> simp

/-- **triangle, fallback: strict feature set** (whatever the shape; exact edges) -/
theorem closestPointTriangleDegenerate_rel (a b c : V)
    (hab : EdgeOK a b) (hac : EdgeOK a c) (hbc : EdgeOK b c) {r : CP ℝ}
    (hr : closestPointTriangleDegenerate a b c = .ok r) :
    relSet (selectBits r.set [a, b, c]) r.pt := by
  obtain ⟨r1, e1, _, _, b1⟩ := closestPointLine_edgeOK a b hab
  obtain ⟨r2, e2, _, _, b2⟩ := closestPointLine_edgeOK a c hac
  obtain ⟨r3, e3, _, _, b3⟩ := closestPointLine_edgeOK b c hbc
  have g1 : relSet (selectBits r1.set [a, b, c]) r1.pt := by
    rw [sel_ab a b c _ b1]; exact closestPointLine_rel a b hab e1
  have g2 : relSet (selectBits ((r2.set &&& 0b0001) + ((r2.set &&& 0b0010) <<< 1)) [a, b, c])
      r2.pt := by
    rw [sel_ac a b c _ b2]; exact closestPointLine_rel a c hac e2
  have g3 : relSet (selectBits (r3.set <<< 1) [a, b, c]) r3.pt := by
    rw [sel_bc a b c _ b3]; exact closestPointLine_rel b c hbc e3
  unfold closestPointTriangleDegenerate at hr
  simp only [e1, e2, e3, bind, Except.bind] at hr
  by_cases c2 : V3.dot r2.pt r2.pt < V3.dot r1.pt r1.pt
  · simp only [c2, if_true] at hr
    by_cases c3 : V3.dot r3.pt r3.pt < V3.dot r2.pt r2.pt
    · simp only [c3, if_true] at hr; cases hr; exact g3
    · simp only [c3, if_false] at hr; cases hr; exact g2
  · simp only [c2, if_false] at hr
    by_cases c3 : V3.dot r3.pt r3.pt < V3.dot r1.pt r1.pt
    · simp only [c3, if_true] at hr; cases hr; exact g3
    · simp only [c3, if_false] at hr; cases hr; exact g1

/-- **triangle: strict feature set** on every face the routine treats exactly -/
theorem closestPointTriangle_rel (p q r : V) (h : FaceOK p q r) {t : CP ℝ}
    (ht : closestPointTriangle p q r = .ok t) : relSet (selectBits t.set [p, q, r]) t.pt := by
  rcases h with h | ⟨hc, h1, h2, h3⟩
  · have e : closestPointTriangle p q r = closestPointTriangleRegions p q r (triNormal p q r) := by
      unfold TriRegular at h
      simp only [closestPointTriangle, h, if_false]
    rw [e] at ht
    exact closestPointTriangleRegions_rel p q r h.normal_pos ht
  · have hdeg : V3.dot (triNormal p q r) (triNormal p q r) ≤
        EPS * maxEdgeLenSq p q r * maxEdgeLenSq p q r := by
      rw [triNormal_eq, hc]
      have h0 : V3.dot (⟨0, 0, 0⟩ : V) ⟨0, 0, 0⟩ = 0 := by simp [V3.dot_def]
      rw [h0]
      have := mul_self_nonneg (maxEdgeLenSq p q r)
      have hE : (0 : ℝ) < EPS := EPS_pos
      nlinarith
    have e : closestPointTriangle p q r = closestPointTriangleDegenerate p q r := by
      simp only [closestPointTriangle, hdeg, if_true]
    rw [e] at ht
    exact closestPointTriangleDegenerate_rel p q r h1 h2 h3 ht

/-! ### tetrahedron -/

/-- what `closest_point_tetrahedron` returns in terms of the four face results: the origin with
set `0xf` when no face is flagged, otherwise the result of a flagged face with the remapped set -/
theorem tetra_cases (a b c d : V) (o0 o1 o2 o3 : Bool) (orient : Nat)
    (hpl : originOutsideOfTetrahedronPlanes a b c d = ((o0, o1, o2, o3), orient))
    (r0 r1 r2 r3 : CP ℝ)
    (e0 : closestPointTriangle a b c = .ok r0) (e1 : closestPointTriangle a c d = .ok r1)
    (e2 : closestPointTriangle a d b = .ok r2) (e3 : closestPointTriangle b d c = .ok r3)
    (b1 : V3.dot r1.pt r1.pt < MAXF) (b2 : V3.dot r2.pt r2.pt < MAXF)
    (b3 : V3.dot r3.pt r3.pt < MAXF) :
    ∃ r, closestPointTetrahedron a b c d = .ok r ∧
      ((o0 = false ∧ o1 = false ∧ o2 = false ∧ o3 = false ∧ r.pt = V3.zero ∧ r.set = 15) ∨
       (o0 = true ∧ r.pt = r0.pt ∧ r.set = r0.set) ∨
       (o1 = true ∧ r.pt = r1.pt ∧ r.set = remapACD r1.set) ∨
       (o2 = true ∧ r.pt = r2.pt ∧ r.set = remapADB r2.set) ∨
       (o3 = true ∧ r.pt = r3.pt ∧ r.set = remapBDC r3.set)) := by
  obtain ⟨st1, es1, i1⟩ := tetFirst_inv o0 a b c r0 e0
  obtain ⟨st2, es2, i2⟩ := tetStep_inv o1 a c d remapACD 2 r1 e1 _ st1 i1 (fun _ => b1)
  obtain ⟨st3, es3, i3⟩ := tetStep_inv o2 a d b remapADB 3 r2 e2 _ st2 i2 (fun _ => b2)
  obtain ⟨st4, es4, i4⟩ := tetStep_last_inv o3 b d c remapBDC 4 r3 e3 _ st3 i3 (fun _ => b3)
  simp only [List.cons_append, List.nil_append] at i4
  have hres : closestPointTetrahedron a b c d = .ok ⟨st4.pt, st4.set, 64 * st4.win + 16 * orient +
      ((if o0 then 1 else 0) + (if o1 then 2 else 0) + (if o2 then 4 else 0)
        + (if o3 then 8 else 0))⟩ := by
    unfold closestPointTetrahedron
    simp only [hpl, es1, es2, es3, es4, bind, Except.bind]
  refine ⟨_, hres, ?_⟩
  rcases i4 with ⟨hnone, hpt, hset⟩ | ⟨⟨e, heL, hef, hept, heset⟩, _⟩
  · exact Or.inl ⟨hnone (o0, r0.pt, r0.set) (by simp), hnone (o1, r1.pt, remapACD r1.set) (by simp),
      hnone (o2, r2.pt, remapADB r2.set) (by simp), hnone (o3, r3.pt, remapBDC r3.set) (by simp),
      hpt, hset⟩
  · simp only [List.mem_cons, List.not_mem_nil, or_false] at heL
    rcases heL with rfl | rfl | rfl | rfl
    · exact Or.inr (Or.inl ⟨hef, hept, heset⟩)
    · exact Or.inr (Or.inr (Or.inl ⟨hef, hept, heset⟩))
    · exact Or.inr (Or.inr (Or.inr (Or.inl ⟨hef, hept, heset⟩)))
    · exact Or.inr (Or.inr (Or.inr (Or.inr ⟨hef, hept, heset⟩)))

theorem remap_lt (s : Nat) (h1 : 1 ≤ s) (h7 : s ≤ 7) :
    remapACD s < 15 ∧ remapADB s < 15 ∧ remapBDC s < 15 := by
  interval_cases s <;> decide

/-- strict feature set of the tetrahedron routine, given that the origin has strictly positive
barycentric coordinates whenever no face is flagged -/
theorem tetra_rel_core (a b c d : V) (o0 o1 o2 o3 : Bool) (orient : Nat)
    (hpl : originOutsideOfTetrahedronPlanes a b c d = ((o0, o1, o2, o3), orient))
    (hf0 : FaceOK a b c) (hf1 : FaceOK a c d) (hf2 : FaceOK a d b) (hf3 : FaceOK b d c)
    (hba : V3.dot a a < MAXF) (hbb : V3.dot b b < MAXF)
    (hin : o0 = false → o1 = false → o2 = false → o3 = false →
      relSet [a, b, c, d] (⟨0, 0, 0⟩ : V)) :
    ∃ r, closestPointTetrahedron a b c d = .ok r ∧
      relSet (selectBits r.set [a, b, c, d]) r.pt ∧ r.set < 16 ∧
      (r.set = 15 → r.pt = (⟨0, 0, 0⟩ : V)) := by
  obtain ⟨r0, e0, m0, s0, l0, u0⟩ := closestPointTriangle_faceOK a b c hf0
  obtain ⟨r1, e1, m1, s1, l1, u1⟩ := closestPointTriangle_faceOK a c d hf1
  obtain ⟨r2, e2, m2, s2, l2, u2⟩ := closestPointTriangle_faceOK a d b hf2
  obtain ⟨r3, e3, m3, s3, l3, u3⟩ := closestPointTriangle_faceOK b d c hf3
  have b1 : V3.dot r1.pt r1.pt < MAXF :=
    lt_of_le_of_lt (m1.2 a (hull_sublist (by simp) _ (hull1_intro a))) hba
  have b2 : V3.dot r2.pt r2.pt < MAXF :=
    lt_of_le_of_lt (m2.2 a (hull_sublist (by simp) _ (hull1_intro a))) hba
  have b3 : V3.dot r3.pt r3.pt < MAXF :=
    lt_of_le_of_lt (m3.2 b (hull_sublist (by simp) _ (hull1_intro b))) hbb
  have g0 : relSet (selectBits r0.set [a, b, c, d]) r0.pt := by
    rw [selectBits_abc a b c d _ u0]; exact closestPointTriangle_rel a b c hf0 e0
  have g1 : relSet (selectBits (remapACD r1.set) [a, b, c, d]) r1.pt := by
    rw [remapACD_ok a b c d _ l1 u1]; exact closestPointTriangle_rel a c d hf1 e1
  have g2 : relSet (selectBits (remapADB r2.set) [a, b, c, d]) r2.pt :=
    relSet_perm (remapADB_ok a b c d _ l2 u2).symm _ (closestPointTriangle_rel a d b hf2 e2)
  have g3 : relSet (selectBits (remapBDC r3.set) [a, b, c, d]) r3.pt :=
    relSet_perm (remapBDC_ok a b c d _ l3 u3).symm _ (closestPointTriangle_rel b d c hf3 e3)
  obtain ⟨k1, k2, _⟩ := remap_lt r1.set l1 u1
  obtain ⟨_, k3, _⟩ := remap_lt r2.set l2 u2
  obtain ⟨_, _, k4⟩ := remap_lt r3.set l3 u3
  obtain ⟨r, hr, hcase⟩ := tetra_cases a b c d o0 o1 o2 o3 orient hpl r0 r1 r2 r3 e0 e1 e2 e3 b1 b2 b3
  refine ⟨r, hr, ?_⟩
  rcases hcase with ⟨f0, f1, f2, f3, hpt, hset⟩ | ⟨_, hpt, hset⟩ | ⟨_, hpt, hset⟩ |
    ⟨_, hpt, hset⟩ | ⟨_, hpt, hset⟩
  · rw [hpt, hset]
    exact ⟨hin f0 f1 f2 f3, by norm_num, fun _ => rfl⟩
  · rw [hpt, hset]
    exact ⟨g0, by omega, fun h => by omega⟩
  · rw [hpt, hset]
    exact ⟨g1, by omega, fun h => by omega⟩
  · rw [hpt, hset]
    exact ⟨g2, by omega, fun h => by omega⟩
  · rw [hpt, hset]
    exact ⟨g3, by omega, fun h => by omega⟩

/-- a tetrahedron `closest_point_tetrahedron` treats exactly: `|a|², |b|² < MAX_FLOAT` and either
consistent plane signs with no plane value in the `EPSILON` band and four regular faces
(hypotheses of `tetra_spec_pos` / `tetra_spec_neg`), or exactly flat with four exact faces
(hypotheses of `tetra_spec_flat`) -/
def TetraOK (a b c d : V) : Prop :=
  (V3.dot a a < MAXF ∧ V3.dot b b < MAXF) ∧
  ((0 < V3.dot (d - a) (V3.cross (b - a) (c - a)) ∧
      ((-EPS ≤ V3.dot a (V3.cross (b - a) (c - a)) → 0 ≤ V3.dot a (V3.cross (b - a) (c - a))) ∧
       (-EPS ≤ V3.dot a (V3.cross (c - a) (d - a)) → 0 ≤ V3.dot a (V3.cross (c - a) (d - a))) ∧
       (-EPS ≤ V3.dot a (V3.cross (d - a) (b - a)) → 0 ≤ V3.dot a (V3.cross (d - a) (b - a))) ∧
       (-EPS ≤ V3.dot b (V3.cross (d - b) (c - b)) → 0 ≤ V3.dot b (V3.cross (d - b) (c - b)))) ∧
      (TriRegular a b c ∧ TriRegular a c d ∧ TriRegular a d b ∧ TriRegular b d c)) ∨
   (V3.dot (d - a) (V3.cross (b - a) (c - a)) < 0 ∧
      ((V3.dot a (V3.cross (b - a) (c - a)) ≤ EPS → V3.dot a (V3.cross (b - a) (c - a)) ≤ 0) ∧
       (V3.dot a (V3.cross (c - a) (d - a)) ≤ EPS → V3.dot a (V3.cross (c - a) (d - a)) ≤ 0) ∧
       (V3.dot a (V3.cross (d - a) (b - a)) ≤ EPS → V3.dot a (V3.cross (d - a) (b - a)) ≤ 0) ∧
       (V3.dot b (V3.cross (d - b) (c - b)) ≤ EPS → V3.dot b (V3.cross (d - b) (c - b)) ≤ 0)) ∧
      (TriRegular a b c ∧ TriRegular a c d ∧ TriRegular a d b ∧ TriRegular b d c)) ∨
   (V3.dot (d - a) (V3.cross (b - a) (c - a)) = 0 ∧
      FaceOK a b c ∧ FaceOK a c d ∧ FaceOK a d b ∧ FaceOK b d c))

/-- **tetrahedron: minimum-norm point with strict feature set** on every `TetraOK` input:
the routine returns, the point is the minimum-norm point of the hull, it has strictly positive
weights on exactly the vertices named by the (remapped) set bits, and `0xf` is only reported
together with the origin. -/
theorem closestPointTetrahedron_full (a b c d : V) (h : TetraOK a b c d) :
    ∃ r, closestPointTetrahedron a b c d = .ok r ∧ IsMinNorm (hullSet [a, b, c, d]) r.pt ∧
      relSet (selectBits r.set [a, b, c, d]) r.pt ∧ r.set < 16 ∧
      (r.set = 15 → r.pt = (⟨0, 0, 0⟩ : V)) := by
  obtain ⟨⟨hba, hbb⟩, hcase⟩ := h
  have hE := EPS_pos
  rcases hcase with ⟨hD, hband, hfaces⟩ | ⟨hD, hband, hfaces⟩ | ⟨hD, hf0, hf1, hf2, hf3⟩
  · obtain ⟨r', hr', hmin, _⟩ := closestPointTetrahedron_spec_pos a b c d hD hband hfaces ⟨hba, hbb⟩
    obtain ⟨r, hr, hrel, hlt, h15⟩ := tetra_rel_core a b c d _ _ _ _ 0 (planes_pos a b c d hD)
      (Or.inl hfaces.1) (Or.inl hfaces.2.1) (Or.inl hfaces.2.2.1) (Or.inl hfaces.2.2.2) hba hbb
      (by
        intro f0 f1 f2 f3
        rw [decide_eq_false_iff_not, not_le] at f0 f1 f2 f3
        obtain ⟨hsum, hzero⟩ := bary_origin a b c d (ne_of_gt hD)
        rw [← hzero]
        exact rel4_intro a b c d (div_pos (by linarith) hD) (div_pos (by linarith) hD)
          (div_pos (by linarith) hD) (div_pos (by linarith) hD) hsum)
    have hrr : r' = r := by rw [hr] at hr'; exact (Except.ok.inj hr').symm
    rw [hrr] at hmin
    exact ⟨r, hr, hmin, hrel, hlt, h15⟩
  · obtain ⟨r', hr', hmin, _⟩ := closestPointTetrahedron_spec_neg a b c d hD hband hfaces ⟨hba, hbb⟩
    obtain ⟨r, hr, hrel, hlt, h15⟩ := tetra_rel_core a b c d _ _ _ _ 1 (planes_neg a b c d hD)
      (Or.inl hfaces.1) (Or.inl hfaces.2.1) (Or.inl hfaces.2.2.1) (Or.inl hfaces.2.2.2) hba hbb
      (by
        intro f0 f1 f2 f3
        rw [decide_eq_false_iff_not, not_le] at f0 f1 f2 f3
        obtain ⟨hsum, hzero⟩ := bary_origin a b c d (ne_of_lt hD)
        rw [← hzero]
        exact rel4_intro a b c d (div_pos_of_neg_of_neg (by linarith) hD)
          (div_pos_of_neg_of_neg (by linarith) hD) (div_pos_of_neg_of_neg (by linarith) hD)
          (div_pos_of_neg_of_neg (by linarith) hD) hsum)
    have hrr : r' = r := by rw [hr] at hr'; exact (Except.ok.inj hr').symm
    rw [hrr] at hmin
    exact ⟨r, hr, hmin, hrel, hlt, h15⟩
  · obtain ⟨r', hr', hmin, _⟩ := closestPointTetrahedron_spec_flat a b c d hD hf0 hf1 hf2 hf3 hba hbb
    obtain ⟨r, hr, hrel, hlt, h15⟩ := tetra_rel_core a b c d _ _ _ _ 2 (planes_flat a b c d hD)
      hf0 hf1 hf2 hf3 hba hbb (by intro f0; cases f0)
    have hrr : r' = r := by rw [hr] at hr'; exact (Except.ok.inj hr').symm
    rw [hrr] at hmin
    exact ⟨r, hr, hmin, hrel, hlt, h15⟩

/-! ### the three routines and `get_closest_point_to_origin`, full statements -/

/-- **line: minimum-norm point with strict feature set** -/
theorem closestPointLine_full (a b : V) (h : EdgeOK a b) :
    ∃ r, closestPointLine a b = .ok r ∧ IsMinNorm (hullSet [a, b]) r.pt ∧
      relSet (selectBits r.set [a, b]) r.pt ∧ 1 ≤ r.set ∧ r.set < 4 := by
  obtain ⟨r, hr, hmin, _, hset⟩ := closestPointLine_edgeOK a b h
  exact ⟨r, hr, hmin, closestPointLine_rel a b h hr, by rcases hset with h | h | h <;> omega,
    by rcases hset with h | h | h <;> omega⟩

/-- **triangle: minimum-norm point with strict feature set** -/
theorem closestPointTriangle_full (p q r : V) (h : FaceOK p q r) :
    ∃ t, closestPointTriangle p q r = .ok t ∧ IsMinNorm (hullSet [p, q, r]) t.pt ∧
      relSet (selectBits t.set [p, q, r]) t.pt ∧ 1 ≤ t.set ∧ t.set < 8 := by
  obtain ⟨t, ht, hmin, _, h1, h7⟩ := closestPointTriangle_faceOK p q r h
  exact ⟨t, ht, hmin, closestPointTriangle_rel p q r h ht, h1, by omega⟩

/-- the simplices `get_closest_point_to_origin` treats exactly: the conjunction of the band
exclusions of C18 (`line_spec`/`line_same`, `triangle_spec`/`triangle_collinear_spec`,
`tetra_spec_pos`/`_neg`/`_flat`) for the `n` points that are read -/
def SimplexOK (y0 y1 y2 y3 : V) (n : Nat) : Prop :=
  (n = 2 → EdgeOK y0 y1) ∧ (n = 3 → FaceOK y0 y1 y2) ∧ (n = 4 → TetraOK y0 y1 y2 y3)

/-- **`get_closest_point_to_origin`, full contract** on `SimplexOK` inputs: it returns; `v_len_sq`
is `|v|²`; the success flag is `|v|² < prev`; the set bits are `< 2ⁿ`; `v` is the minimum-norm
point of the hull of the first `n` points and has strictly positive weights on exactly the
points named by the set bits; `0xf` is only reported with `v = 0`. -/
theorem gcp_full (y0 y1 y2 y3 : V) (n : Nat) (h1 : 1 ≤ n) (h4 : n ≤ 4)
    (hok : SimplexOK y0 y1 y2 y3 n) (prev : ℝ) :
    ∃ g, getClosestPointToOrigin #[y0, y1, y2, y3] n prev = .ok g ∧
      g.vLenSq = V3.dot g.v g.v ∧ (g.success = true ↔ g.vLenSq < prev) ∧ g.set < 2 ^ n ∧
      IsMinNorm (hullSet ([y0, y1, y2, y3].take n)) g.v ∧
      relSet (selectBits g.set ([y0, y1, y2, y3].take n)) g.v ∧
      (g.set = 15 → g.v = (⟨0, 0, 0⟩ : V)) := by
  obtain ⟨hk2, hk3, hk4⟩ := hok
  interval_cases n
  · refine ⟨⟨decide (V3.dot y0 y0 < prev), y0, V3.dot y0 y0, 1, 1000⟩, rfl, rfl, by simp,
      by norm_num, ?_, by simpa [selectBits] using rel1_intro y0, by simp⟩
    refine isMinNorm_hull_of_vertices (hull1_intro y0) ?_
    intro p hp
    simp only [List.take, List.mem_cons, List.not_mem_nil, or_false] at hp
    rw [hp]
  · obtain ⟨r, hr, hmin, hrel, hs1, hs4⟩ := closestPointLine_full y0 y1 (hk2 rfl)
    refine ⟨⟨decide (V3.dot r.pt r.pt < prev), r.pt, V3.dot r.pt r.pt, r.set, 2000 + r.br⟩,
      ?_, rfl, by simp, hs4, hmin, hrel, fun h => by simp only at h; omega⟩
    show (closestPointLine y0 y1).bind _ = _
    rw [hr]; rfl
  · obtain ⟨r, hr, hmin, hrel, hs1, hs8⟩ := closestPointTriangle_full y0 y1 y2 (hk3 rfl)
    refine ⟨⟨decide (V3.dot r.pt r.pt < prev), r.pt, V3.dot r.pt r.pt, r.set, 3000 + r.br⟩,
      ?_, rfl, by simp, hs8, hmin, hrel, fun h => by simp only at h; omega⟩
    show (closestPointTriangle y0 y1 y2).bind _ = _
    rw [hr]; rfl
  · obtain ⟨r, hr, hmin, hrel, hs16, h15⟩ := closestPointTetrahedron_full y0 y1 y2 y3 (hk4 rfl)
    refine ⟨⟨decide (V3.dot r.pt r.pt < prev), r.pt, V3.dot r.pt r.pt, r.set, 4000 + r.br⟩,
      ?_, rfl, by simp, hs16, hmin, hrel, h15⟩
    show (closestPointTetrahedron y0 y1 y2 y3).bind _ = _
    rw [hr]; rfl

end Simplex
end D3
