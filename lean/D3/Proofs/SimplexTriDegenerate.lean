/-
C18, Jolt solver: the collinear fallback of `closest_point_triangle` ("best of the three
edges") returns the minimum-norm point of the hull of three exactly collinear points, provided
every edge is either exactly zero or not below the code's length threshold.
-/
import D3.Proofs.SimplexTriangle

set_option linter.unusedSectionVars false
set_option linter.unusedVariables false

namespace D3
namespace Simplex

/-- an edge the line routine treats exactly: regular (`|q − p|² ≥ ε²`) or of zero length -/
def EdgeOK (p q : V) : Prop := ¬ V3.dot (q - p) (q - p) < EPS2 ∨ p = q

theorem closestPointLine_edgeOK (p q : V) (h : EdgeOK p q) :
    ∃ r, closestPointLine p q = .ok r ∧ IsMinNorm (hullSet [p, q]) r.pt ∧
      hullSet (selectBits r.set [p, q]) r.pt ∧ (r.set = 1 ∨ r.set = 2 ∨ r.set = 3) := by
  rcases h with h | h
  · obtain ⟨r, h1, h2, h3, h4, _⟩ := closestPointLine_spec p q h
    exact ⟨r, h1, h2, h3, h4⟩
  · subst h
    have h0 : V3.dot (p - p) (p - p) < EPS2 := by
      have : V3.dot (p - p) (p - p) = 0 := by simp [V3.dot_def]
      rw [this]; exact EPS2_pos
    rw [closestPointLine_degenerate p p h0]
    simp only [lt_irrefl, if_false]
    refine ⟨_, rfl, ?_, by simpa [selectBits] using hull1_intro p, Or.inr (Or.inl rfl)⟩
    refine isMinNorm_hull_of_vertices (hull_sublist (by simp) _ (hull1_intro p)) ?_
    intro x hx
    simp only [List.mem_cons, List.not_mem_nil, or_false, or_self] at hx
    rw [hx]

/-- the hull of three collinear points is covered by the three segments -/
theorem collinear_hull_cover (a b c : V) (hcol : V3.cross (b - a) (c - a) = ⟨0, 0, 0⟩) (x : V)
    (hx : hullSet [a, b, c] x) : hullSet [a, b] x ∨ hullSet [a, c] x ∨ hullSet [b, c] x := by
  obtain ⟨u, v, w, hu, hv, hw, hs, rfl⟩ := hull3_elim hx
  have hnx := congrArg V3.x hcol
  have hny := congrArg V3.y hcol
  have hnz := congrArg V3.z hcol
  simp only [cross_x, cross_y, cross_z, V3.sub_x, V3.sub_y, V3.sub_z] at hnx hny hnz
  by_cases hab0 : V3.dot (b - a) (b - a) = 0
  · -- a = b
    have hz := V3.normSq_eq_zero (a := b - a) hab0
    have ex : b.x = a.x := by have := congrArg V3.x hz; simp at this; linarith
    have ey : b.y = a.y := by have := congrArg V3.y hz; simp at this; linarith
    have ez : b.z = a.z := by have := congrArg V3.z hz; simp at this; linarith
    right; left
    have : u * a + v * b + w * c = (u + v) * a + w * c := by
      apply V3.ext' <;> simp [ex, ey, ez] <;> ring
    rw [this]
    exact hull2_intro a c (by linarith) hw (by linarith)
  · have he1 : 0 < V3.dot (b - a) (b - a) :=
      lt_of_le_of_ne (V3.normSq_nonneg _) (Ne.symm hab0)
    set e1 := V3.dot (b - a) (b - a) with he1def
    set g := V3.dot (b - a) (c - a) with hgdef
    set lam := g / e1 with hlam
    have hlam' : lam * e1 = g := by rw [hlam]; field_simp
    -- c − a = lam (b − a)
    have cx : c.x - a.x = lam * (b.x - a.x) := by
      have : e1 * (c.x - a.x) = g * (b.x - a.x) := by
        simp only [he1def, hgdef, V3.dot_def, V3.sub_x, V3.sub_y, V3.sub_z]
        linear_combination (b.z - a.z) * hny - (b.y - a.y) * hnz
      have h2 : e1 * (c.x - a.x) = e1 * (lam * (b.x - a.x)) := by rw [this, ← hlam']; ring
      exact mul_left_cancel₀ (ne_of_gt he1) h2
    have cy : c.y - a.y = lam * (b.y - a.y) := by
      have : e1 * (c.y - a.y) = g * (b.y - a.y) := by
        simp only [he1def, hgdef, V3.dot_def, V3.sub_x, V3.sub_y, V3.sub_z]
        linear_combination (b.x - a.x) * hnz - (b.z - a.z) * hnx
      have h2 : e1 * (c.y - a.y) = e1 * (lam * (b.y - a.y)) := by rw [this, ← hlam']; ring
      exact mul_left_cancel₀ (ne_of_gt he1) h2
    have cz : c.z - a.z = lam * (b.z - a.z) := by
      have : e1 * (c.z - a.z) = g * (b.z - a.z) := by
        simp only [he1def, hgdef, V3.dot_def, V3.sub_x, V3.sub_y, V3.sub_z]
        linear_combination (b.y - a.y) * hnx - (b.x - a.x) * hny
      have h2 : e1 * (c.z - a.z) = e1 * (lam * (b.z - a.z)) := by rw [this, ← hlam']; ring
      exact mul_left_cancel₀ (ne_of_gt he1) h2
    set τ := v + w * lam with hτ
    have hu' : u = 1 - v - w := by linarith
    by_cases h0 : τ < 0
    · -- segment [a, c]
      have hlneg : lam < 0 := by
        by_contra hh
        have : 0 ≤ w * lam := mul_nonneg hw (not_lt.mp hh)
        linarith
      right; left
      set σ := τ / lam with hσ
      have hlne : lam ≠ 0 := ne_of_lt hlneg
      have hσl : σ * lam = τ := by rw [hσ]; field_simp
      have hσ0 : 0 ≤ σ := by rw [hσ]; exact div_nonneg_of_nonpos h0.le hlneg.le
      have hw1 : w ≤ 1 := by linarith
      have hσ1 : σ ≤ 1 := by
        rw [hσ, div_le_one_of_neg hlneg]
        nlinarith
      have : u * a + v * b + w * c = (1 - σ) * a + σ * c := by
        apply V3.ext' <;> simp only [V3.add_x, V3.add_y, V3.add_z, V3.smul_x, V3.smul_y, V3.smul_z]
        · have : c.x = a.x + lam * (b.x - a.x) := by linarith
          rw [this, hu']; linear_combination (-(b.x - a.x)) * hσl + (b.x - a.x) * hτ
        · have : c.y = a.y + lam * (b.y - a.y) := by linarith
          rw [this, hu']; linear_combination (-(b.y - a.y)) * hσl + (b.y - a.y) * hτ
        · have : c.z = a.z + lam * (b.z - a.z) := by linarith
          rw [this, hu']; linear_combination (-(b.z - a.z)) * hσl + (b.z - a.z) * hτ
      rw [this]
      exact hull2_intro a c (by linarith) hσ0 (by ring)
    · by_cases h1 : τ ≤ 1
      · -- segment [a, b]
        left
        have : u * a + v * b + w * c = (1 - τ) * a + τ * b := by
          apply V3.ext' <;> simp only [V3.add_x, V3.add_y, V3.add_z, V3.smul_x, V3.smul_y, V3.smul_z]
          · have : c.x = a.x + lam * (b.x - a.x) := by linarith
            rw [this, hu', hτ]; ring
          · have : c.y = a.y + lam * (b.y - a.y) := by linarith
            rw [this, hu', hτ]; ring
          · have : c.z = a.z + lam * (b.z - a.z) := by linarith
            rw [this, hu', hτ]; ring
        rw [this]
        exact hull2_intro a b (by linarith) (not_lt.mp h0) (by ring)
      · -- segment [b, c]
        have h1' : 1 < τ := not_le.mp h1
        have hl1 : 1 < lam := by
          by_contra hh
          have : w * lam ≤ w * 1 := mul_le_mul_of_nonneg_left (not_lt.mp hh) hw
          linarith
        right; right
        set σ := (τ - 1) / (lam - 1) with hσ
        have hlm : 0 < lam - 1 := by linarith
        have hσl : σ * (lam - 1) = τ - 1 := by rw [hσ]; field_simp
        have hσ0 : 0 ≤ σ := by rw [hσ]; exact div_nonneg (by linarith) hlm.le
        have hσ1 : σ ≤ 1 := by
          rw [hσ, div_le_one hlm]
          have hw1 : w ≤ 1 := by linarith
          nlinarith
        have : u * a + v * b + w * c = (1 - σ) * b + σ * c := by
          apply V3.ext' <;> simp only [V3.add_x, V3.add_y, V3.add_z, V3.smul_x, V3.smul_y, V3.smul_z]
          · have : c.x = a.x + lam * (b.x - a.x) := by linarith
            rw [this, hu']; linear_combination (-(b.x - a.x)) * hσl + (b.x - a.x) * hτ
          · have : c.y = a.y + lam * (b.y - a.y) := by linarith
            rw [this, hu']; linear_combination (-(b.y - a.y)) * hσl + (b.y - a.y) * hτ
          · have : c.z = a.z + lam * (b.z - a.z) := by linarith
            rw [this, hu']; linear_combination (-(b.z - a.z)) * hσl + (b.z - a.z) * hτ
        rw [this]
        exact hull2_intro b c (by linarith) hσ0 (by ring)

theorem sel_ab {β : Type} (a b c : β) (s : Nat) (h : s = 1 ∨ s = 2 ∨ s = 3) :
    selectBits s [a, b, c] = selectBits s [a, b] := by
  rcases h with rfl | rfl | rfl <;> rfl

theorem sel_ac {β : Type} (a b c : β) (s : Nat) (h : s = 1 ∨ s = 2 ∨ s = 3) :
    selectBits ((s &&& 0b0001) + ((s &&& 0b0010) <<< 1)) [a, b, c] = selectBits s [a, c] := by
  rcases h with rfl | rfl | rfl <;> rfl

theorem sel_bc {β : Type} (a b c : β) (s : Nat) (h : s = 1 ∨ s = 2 ∨ s = 3) :
    selectBits (s <<< 1) [a, b, c] = selectBits s [b, c] := by
  rcases h with rfl | rfl | rfl <;> rfl

/-- **the fallback is the minimiser over the three edges** (no collinearity needed): with exact
edges, `closestPointTriangleDegenerate` returns a point of an edge, with correct set bits,
that is no farther from the origin than any point of any of the three edges. -/
theorem closestPointTriangleDegenerate_edges (a b c : V)
    (hab : EdgeOK a b) (hac : EdgeOK a c) (hbc : EdgeOK b c) :
    ∃ r, closestPointTriangleDegenerate a b c = .ok r ∧
      hullSet (selectBits r.set [a, b, c]) r.pt ∧ 1 ≤ r.set ∧ r.set ≤ 7 ∧
      ∀ y, (hullSet [a, b] y ∨ hullSet [a, c] y ∨ hullSet [b, c] y) →
        V3.normSq r.pt ≤ V3.normSq y := by
  obtain ⟨r1, e1, m1, s1, b1⟩ := closestPointLine_edgeOK a b hab
  obtain ⟨r2, e2, m2, s2, b2⟩ := closestPointLine_edgeOK a c hac
  obtain ⟨r3, e3, m3, s3, b3⟩ := closestPointLine_edgeOK b c hbc
  have g1 : hullSet (selectBits r1.set [a, b, c]) r1.pt := by rw [sel_ab a b c _ b1]; exact s1
  have g2 : hullSet (selectBits ((r2.set &&& 0b0001) + ((r2.set &&& 0b0010) <<< 1)) [a, b, c]) r2.pt := by
    rw [sel_ac a b c _ b2]; exact s2
  have g3 : hullSet (selectBits (r3.set <<< 1) [a, b, c]) r3.pt := by
    rw [sel_bc a b c _ b3]; exact s3
  have key : ∀ (p : V) (s : Nat), hullSet (selectBits s [a, b, c]) p →
      V3.dot p p ≤ V3.dot r1.pt r1.pt → V3.dot p p ≤ V3.dot r2.pt r2.pt →
      V3.dot p p ≤ V3.dot r3.pt r3.pt → 1 ≤ s ∧ s ≤ 7 →
      hullSet (selectBits s [a, b, c]) p ∧ 1 ≤ s ∧ s ≤ 7 ∧
      ∀ y, (hullSet [a, b] y ∨ hullSet [a, c] y ∨ hullSet [b, c] y) →
        V3.normSq p ≤ V3.normSq y := by
    intro p s hp l1 l2 l3 hb
    refine ⟨hp, hb.1, hb.2, fun y hy => ?_⟩
    rcases hy with h | h | h
    · exact le_trans l1 (m1.2 y h)
    · exact le_trans l2 (m2.2 y h)
    · exact le_trans l3 (m3.2 y h)
  have k1 : 1 ≤ r1.set ∧ r1.set ≤ 7 := by rcases b1 with h | h | h <;> rw [h] <;> decide
  have k2 : 1 ≤ (r2.set &&& 0b0001) + ((r2.set &&& 0b0010) <<< 1) ∧
      (r2.set &&& 0b0001) + ((r2.set &&& 0b0010) <<< 1) ≤ 7 := by
    rcases b2 with h | h | h <;> rw [h] <;> decide
  have k3 : 1 ≤ r3.set <<< 1 ∧ r3.set <<< 1 ≤ 7 := by
    rcases b3 with h | h | h <;> rw [h] <;> decide
  unfold closestPointTriangleDegenerate
  simp only [e1, e2, e3, bind, Except.bind]
  by_cases c2 : V3.dot r2.pt r2.pt < V3.dot r1.pt r1.pt
  · simp only [c2, if_true]
    by_cases c3 : V3.dot r3.pt r3.pt < V3.dot r2.pt r2.pt
    · simp only [c3, if_true]
      exact ⟨_, rfl, key r3.pt _ g3 (by linarith) c3.le (le_refl _) k3⟩
    · simp only [c3, if_false]
      exact ⟨_, rfl, key r2.pt _ g2 c2.le (le_refl _) (not_lt.mp c3) k2⟩
  · simp only [c2, if_false]
    by_cases c3 : V3.dot r3.pt r3.pt < V3.dot r1.pt r1.pt
    · simp only [c3, if_true]
      exact ⟨_, rfl, key r3.pt _ g3 c3.le (by linarith [not_lt.mp c2]) (le_refl _) k3⟩
    · simp only [c3, if_false]
      exact ⟨_, rfl, key r1.pt _ g1 (le_refl _) (not_lt.mp c2) (not_lt.mp c3) k1⟩

/-- **triangle_spec, collinear fallback.** -/
theorem closestPointTriangleDegenerate_spec (a b c : V)
    (hcol : V3.cross (b - a) (c - a) = ⟨0, 0, 0⟩)
    (hab : EdgeOK a b) (hac : EdgeOK a c) (hbc : EdgeOK b c) :
    ∃ r, closestPointTriangleDegenerate a b c = .ok r ∧ IsMinNorm (hullSet [a, b, c]) r.pt ∧
      hullSet (selectBits r.set [a, b, c]) r.pt ∧ 1 ≤ r.set ∧ r.set ≤ 7 := by
  obtain ⟨r, h1, h2, h3, h4, h5⟩ := closestPointTriangleDegenerate_edges a b c hab hac hbc
  exact ⟨r, h1, ⟨hull_selectBits h2, fun x hx => h5 x (collinear_hull_cover a b c hcol x hx)⟩,
    h2, h3, h4⟩

/-! ### slivers: every point of the triangle is within the altitude of the longest edge -/

/-- if `pq` is a longest edge, every point `x` of the triangle has a point `y` of the segment
`pq` with `|x − y|² · |pq|² ≤ |n|²` (i.e. within the altitude over `pq`) -/
theorem sliver_near_edge (p q r x : V) (hx : hullSet [p, q, r] x)
    (hL1 : V3.dot (r - p) (r - p) ≤ V3.dot (q - p) (q - p))
    (hL2 : V3.dot (r - q) (r - q) ≤ V3.dot (q - p) (q - p)) :
    ∃ y, hullSet [p, q] y ∧
      V3.normSq (x - y) * V3.dot (q - p) (q - p) ≤
        V3.dot (V3.cross (q - p) (r - p)) (V3.cross (q - p) (r - p)) := by
  obtain ⟨u, v, w, hu, hv, hw, hs, rfl⟩ := hull3_elim hx
  have hN : 0 ≤ V3.dot (V3.cross (q - p) (r - p)) (V3.cross (q - p) (r - p)) := V3.normSq_nonneg _
  by_cases he0 : V3.dot (q - p) (q - p) = 0
  · refine ⟨p, hull_sublist (by simp) _ (hull1_intro p), ?_⟩
    rw [he0, mul_zero]; exact hN
  · have he : 0 < V3.dot (q - p) (q - p) := lt_of_le_of_ne (V3.normSq_nonneg _) (Ne.symm he0)
    set e := V3.dot (q - p) (q - p) with hedef
    set g := V3.dot (q - p) (r - p) with hgdef
    set f := V3.dot (r - p) (r - p) with hfdef
    have hqr : V3.dot (r - q) (r - q) = e + f - 2 * g := by
      simp only [hedef, hgdef, hfdef, V3.dot_def, V3.sub_x, V3.sub_y, V3.sub_z]; ring
    have hf0 : 0 ≤ f := V3.normSq_nonneg _
    have hqr0 : 0 ≤ V3.dot (r - q) (r - q) := V3.normSq_nonneg _
    have hg0 : 0 ≤ g := by linarith
    have hge : g ≤ e := by linarith
    set t := g / e with ht
    have hte : t * e = g := by rw [ht]; field_simp
    have ht0 : 0 ≤ t := div_nonneg hg0 he.le
    have ht1 : t ≤ 1 := (div_le_one he).mpr hge
    have hw1 : w ≤ 1 := by linarith
    refine ⟨(u + w * (1 - t)) * p + (v + w * t) * q,
      hull2_intro p q (by nlinarith [mul_nonneg hw (sub_nonneg.mpr ht1)]) (by nlinarith [mul_nonneg hw ht0])
        (by linarith), ?_⟩
    have hlag : V3.dot (V3.cross (q - p) (r - p)) (V3.cross (q - p) (r - p)) = e * f - g * g :=
      lagrange (q - p) (r - p)
    rw [hlag]
    have hexp : V3.normSq (u * p + v * q + w * r - ((u + w * (1 - t)) * p + (v + w * t) * q)) =
        w * w * (f - 2 * t * g + t * t * e) := by
      simp only [hedef, hgdef, hfdef, V3.normSq_def, V3.dot_def, V3.sub_x, V3.sub_y, V3.sub_z,
        V3.add_x, V3.add_y, V3.add_z, V3.smul_x, V3.smul_y, V3.smul_z]
      ring
    rw [hexp]
    have hk : (f - 2 * t * g + t * t * e) * e = e * f - g * g := by
      linear_combination (t * e - g) * hte
    have hN' : 0 ≤ e * f - g * g := by rw [← hlag]; exact hN
    have hww : w * w ≤ 1 := by nlinarith
    calc w * w * (f - 2 * t * g + t * t * e) * e = w * w * ((f - 2 * t * g + t * t * e) * e) := by ring
      _ = w * w * (e * f - g * g) := by rw [hk]
      _ ≤ 1 * (e * f - g * g) := mul_le_mul_of_nonneg_right hww hN'
      _ = e * f - g * g := one_mul _

theorem cross_normSq_perm (a b c : V) :
    V3.dot (V3.cross (c - a) (b - a)) (V3.cross (c - a) (b - a)) =
      V3.dot (V3.cross (b - a) (c - a)) (V3.cross (b - a) (c - a)) ∧
    V3.dot (V3.cross (c - b) (a - b)) (V3.cross (c - b) (a - b)) =
      V3.dot (V3.cross (b - a) (c - a)) (V3.cross (b - a) (c - a)) := by
  constructor <;>
  · simp only [V3.dot_def, cross_x, cross_y, cross_z, V3.sub_x, V3.sub_y, V3.sub_z]; ring

theorem dot_sub_swap (p q : V) : V3.dot (p - q) (p - q) = V3.dot (q - p) (q - p) := by
  simp only [V3.dot_def, V3.sub_x, V3.sub_y, V3.sub_z]; ring

/-- every point of a triangle is within the altitude over the longest edge of some edge:
`|x − y|² · L² ≤ |n|²`, `L² = maxEdgeLenSq`, `n = ab × ac` -/
theorem sliver_near_boundary (a b c x : V) (hx : hullSet [a, b, c] x) :
    ∃ y, (hullSet [a, b] y ∨ hullSet [a, c] y ∨ hullSet [b, c] y) ∧
      V3.normSq (x - y) * maxEdgeLenSq a b c ≤
        V3.dot (V3.cross (b - a) (c - a)) (V3.cross (b - a) (c - a)) := by
  obtain ⟨l1, l2, l3⟩ := le_maxEdgeLenSq a b c
  have hmax : maxEdgeLenSq a b c = V3.dot (b - a) (b - a) ∨
      maxEdgeLenSq a b c = V3.dot (c - a) (c - a) ∨ maxEdgeLenSq a b c = V3.dot (c - b) (c - b) := by
    unfold maxEdgeLenSq
    rcases max_choice (V3.dot (b - a) (b - a)) (max (V3.dot (c - a) (c - a)) (V3.dot (c - b) (c - b)))
      with h | h
    · exact Or.inl h
    · rcases max_choice (V3.dot (c - a) (c - a)) (V3.dot (c - b) (c - b)) with h' | h'
      · exact Or.inr (Or.inl (by rw [h, h']))
      · exact Or.inr (Or.inr (by rw [h, h']))
  rcases hmax with h | h | h
  · -- ab longest
    obtain ⟨y, hy, hb⟩ := sliver_near_edge a b c x hx (by rw [← h]; exact l2) (by rw [← h]; exact l3)
    exact ⟨y, Or.inl hy, by rw [h]; exact hb⟩
  · -- ac longest: triangle (a, c, b)
    have hx' : hullSet [a, c, b] x := hull_perm (List.Perm.cons a (List.Perm.swap c b [])) x hx
    obtain ⟨y, hy, hb⟩ := sliver_near_edge a c b x hx' (by rw [← h]; exact l1)
      (by rw [dot_sub_swap b c, ← h]; exact l3)
    exact ⟨y, Or.inr (Or.inl hy), by rw [h, ← (cross_normSq_perm a b c).1]; exact hb⟩
  · -- bc longest: triangle (b, c, a)
    have hx' : hullSet [b, c, a] x :=
      hull_perm ((List.Perm.swap b a [c]).trans (List.Perm.cons b (List.Perm.swap c a []))) x hx
    obtain ⟨y, hy, hb⟩ := sliver_near_edge b c a x hx' (by rw [dot_sub_swap a b, ← h]; exact l1)
      (by rw [dot_sub_swap a c, ← h]; exact l2)
    exact ⟨y, Or.inr (Or.inr hy), by rw [h, ← (cross_normSq_perm a b c).2]; exact hb⟩

/-- a face the triangle routine treats exactly: regular for the code's (repaired) test, or
exactly collinear with exact edges -/
def FaceOK (p q r : V) : Prop :=
  TriRegular p q r ∨
  (V3.cross (q - p) (r - p) = ⟨0, 0, 0⟩ ∧ EdgeOK p q ∧ EdgeOK p r ∧ EdgeOK q r)

theorem closestPointTriangle_faceOK (p q r : V) (h : FaceOK p q r) :
    ∃ t, closestPointTriangle p q r = .ok t ∧ IsMinNorm (hullSet [p, q, r]) t.pt ∧
      hullSet (selectBits t.set [p, q, r]) t.pt ∧ 1 ≤ t.set ∧ t.set ≤ 7 := by
  rcases h with h | ⟨hc, h1, h2, h3⟩
  · obtain ⟨t, a1, a2, a3, a4, a5, _⟩ := closestPointTriangle_spec p q r h
    exact ⟨t, a1, a2, a3, a4, a5⟩
  · have hdeg : V3.dot (triNormal p q r) (triNormal p q r) ≤
        EPS * maxEdgeLenSq p q r * maxEdgeLenSq p q r := by
      rw [triNormal_eq, hc]
      have h0 : V3.dot (⟨0, 0, 0⟩ : V) ⟨0, 0, 0⟩ = 0 := by simp [V3.dot_def]
      rw [h0]
      have := mul_self_nonneg (maxEdgeLenSq p q r)
      have hE : (0 : ℝ) < EPS := EPS_pos
      nlinarith
    have : closestPointTriangle p q r = closestPointTriangleDegenerate p q r := by
      simp only [closestPointTriangle, hdeg, if_true]
    rw [this]
    exact closestPointTriangleDegenerate_spec p q r hc h1 h2 h3

/-- triangle inequality in the form needed here: `|y| ≤ |x| + |x − y|` -/
theorem norm_le_add_dist (x y : V) : V3.norm y ≤ V3.norm x + V3.norm (x - y) := by
  have hx := V3.norm_nonneg x
  have hd := V3.norm_nonneg (x - y)
  have hy := V3.norm_nonneg y
  have hcs := V3.dot_le_norm_mul (-x) (x - y)
  have hnx : V3.norm (-x) = V3.norm x := by
    simp only [V3.norm_def, V3.normSq_def, V3.neg_x, V3.neg_y, V3.neg_z]; ring_nf
  rw [hnx] at hcs
  have e : V3.normSq y = V3.normSq x + 2 * V3.dot (-x) (x - y) + V3.normSq (x - y) := by
    simp only [V3.normSq_def, V3.dot_def, V3.neg_x, V3.neg_y, V3.neg_z, V3.sub_x, V3.sub_y, V3.sub_z]
    ring
  have h1 := V3.norm_sq y
  have h2 := V3.norm_sq x
  have h3 := V3.norm_sq (x - y)
  nlinarith [mul_nonneg hx hd]

/-- **triangle, degenerate band of the repaired test** (`|n|² ≤ ε·L⁴`, any shape — sliver,
near-duplicate or exactly collinear — with exact edges): the fallback returns a point of an
edge (correct set bits) whose norm exceeds that of no point `x` of the triangle by more than
`sqrt(ε·L²)` (= `sqrt(EPSILON)` × longest edge): in particular it is within that bound of the
minimum norm over the triangle. -/
theorem closestPointTriangle_sliver_bound (a b c : V)
    (hdeg : V3.dot (triNormal a b c) (triNormal a b c) ≤
      EPS * maxEdgeLenSq a b c * maxEdgeLenSq a b c)
    (hab : EdgeOK a b) (hac : EdgeOK a c) (hbc : EdgeOK b c) :
    ∃ r, closestPointTriangle a b c = .ok r ∧
      hullSet (selectBits r.set [a, b, c]) r.pt ∧ 1 ≤ r.set ∧ r.set ≤ 7 ∧ 7 ≤ r.br ∧
      (∀ y, (hullSet [a, b] y ∨ hullSet [a, c] y ∨ hullSet [b, c] y) →
        V3.normSq r.pt ≤ V3.normSq y) ∧
      ∀ x, hullSet [a, b, c] x →
        V3.norm r.pt ≤ V3.norm x + Real.sqrt (EPS * maxEdgeLenSq a b c) := by
  have e : closestPointTriangle a b c = closestPointTriangleDegenerate a b c := by
    simp only [closestPointTriangle, hdeg, if_true]
  obtain ⟨r, h1, h2, h3, h4, h5⟩ := closestPointTriangleDegenerate_edges a b c hab hac hbc
  have hbr : 7 ≤ r.br := by
    unfold closestPointTriangleDegenerate at h1
    obtain ⟨r1, e1, _⟩ := closestPointLine_edgeOK a b hab
    obtain ⟨r2, e2, _⟩ := closestPointLine_edgeOK a c hac
    obtain ⟨r3, e3, _⟩ := closestPointLine_edgeOK b c hbc
    simp only [e1, e2, e3, bind, Except.bind] at h1
    split_ifs at h1 <;> (cases h1; show (7 : Nat) ≤ _; norm_num)
  rw [e]
  refine ⟨r, h1, h2, h3, h4, hbr, h5, fun x hx => ?_⟩
  set L2 := maxEdgeLenSq a b c with hL2
  have hL0 : 0 ≤ L2 := maxEdgeLenSq_nonneg a b c
  have hE : (0 : ℝ) < EPS := EPS_pos
  obtain ⟨y, hy, hb⟩ := sliver_near_boundary a b c x hx
  rw [← triNormal_eq] at hb
  have hd2 : V3.normSq (x - y) ≤ EPS * L2 := by
    by_cases h0 : L2 = 0
    · -- all three points coincide, so N = 0 and … use hb with L2 = 0 is useless: argue directly
      obtain ⟨l1, l2, _⟩ := le_maxEdgeLenSq a b c
      rw [← hL2, h0] at l1 l2
      have zb := V3.normSq_eq_zero (a := b - a) (le_antisymm l1 (V3.normSq_nonneg _))
      have zc := V3.normSq_eq_zero (a := c - a) (le_antisymm l2 (V3.normSq_nonneg _))
      have bx : b.x = a.x := by have := congrArg V3.x zb; simp at this; linarith
      have by' : b.y = a.y := by have := congrArg V3.y zb; simp at this; linarith
      have bz : b.z = a.z := by have := congrArg V3.z zb; simp at this; linarith
      have cx : c.x = a.x := by have := congrArg V3.x zc; simp at this; linarith
      have cy : c.y = a.y := by have := congrArg V3.y zc; simp at this; linarith
      have cz : c.z = a.z := by have := congrArg V3.z zc; simp at this; linarith
      -- x = a and y = a
      have hxa : ∀ z, hullSet [a, b, c] z → z = a := by
        intro z hz
        obtain ⟨u, v, w, _, _, _, hs, rfl⟩ := hull3_elim hz
        have hu : u = 1 - v - w := by linarith
        apply V3.ext' <;> simp [bx, by', bz, cx, cy, cz, hu] <;> ring
      have hya : y = a := by
        rcases hy with h | h | h
        · exact hxa y (hull_sublist (by simp) _ h)
        · exact hxa y (hull_sublist (by simp) _ h)
        · exact hxa y (hull_sublist (by simp) _ h)
      rw [hxa x hx, hya, h0]
      simp [V3.normSq_def]
    · have hLpos : 0 < L2 := lt_of_le_of_ne hL0 (Ne.symm h0)
      have : V3.normSq (x - y) * L2 ≤ EPS * L2 * L2 := le_trans hb hdeg
      have h' : V3.normSq (x - y) * L2 ≤ (EPS * L2) * L2 := this
      exact le_of_mul_le_mul_right h' hLpos
  have hry : V3.norm r.pt ≤ V3.norm y := by
    rw [V3.norm_def, V3.norm_def]; exact Real.sqrt_le_sqrt (h5 y hy)
  have hyx := norm_le_add_dist x y
  have hdn : V3.norm (x - y) ≤ Real.sqrt (EPS * L2) := by
    rw [V3.norm_def]; exact Real.sqrt_le_sqrt hd2
  linarith

end Simplex
end D3
