/-
C18, Jolt solver: the collinear fallback of `closest_point_triangle` ("best of the three
edges") returns the minimum-norm point of the hull of three exactly collinear points, provided
every edge is either exactly zero or not below the code's length threshold.
-/
import D3.Proofs.SimplexTriangle

set_option linter.unusedSectionVars false
set_option linter.unusedVariables false

namespace D3
namespace Simplex

/-- an edge the line routine treats exactly: regular (`|q − p|² ≥ ε²`) or of zero length -/
def EdgeOK (p q : V) : Prop := ¬ V3.dot (q - p) (q - p) < EPS2 ∨ p = q

theorem closestPointLine_edgeOK (p q : V) (h : EdgeOK p q) :
    ∃ r, closestPointLine p q = .ok r ∧ IsMinNorm (hullSet [p, q]) r.pt ∧
      hullSet (selectBits r.set [p, q]) r.pt ∧ (r.set = 1 ∨ r.set = 2 ∨ r.set = 3) := by
  rcases h with h | h
  · obtain ⟨r, h1, h2, h3, h4, _⟩ := closestPointLine_spec p q h
    exact ⟨r, h1, h2, h3, h4⟩
  · subst h
    have h0 : V3.dot (p - p) (p - p) < EPS2 := by
      have : V3.dot (p - p) (p - p) = 0 := by simp [V3.dot_def]
      rw [this]; exact EPS2_pos
    rw [closestPointLine_degenerate p p h0]
    simp only [lt_irrefl, if_false]
    refine ⟨_, rfl, ?_, by simpa [selectBits] using hull1_intro p, Or.inr (Or.inl rfl)⟩
    refine isMinNorm_hull_of_vertices (hull_sublist (by simp) _ (hull1_intro p)) ?_
    intro x hx
    simp only [List.mem_cons, List.not_mem_nil, or_false, or_self] at hx
    rw [hx]

/-- the hull of three collinear points is covered by the three segments -/
theorem collinear_hull_cover (a b c : V) (hcol : V3.cross (b - a) (c - a) = ⟨0, 0, 0⟩) (x : V)
    (hx : hullSet [a, b, c] x) : hullSet [a, b] x ∨ hullSet [a, c] x ∨ hullSet [b, c] x := by
  obtain ⟨u, v, w, hu, hv, hw, hs, rfl⟩ := hull3_elim hx
  have hnx := congrArg V3.x hcol
  have hny := congrArg V3.y hcol
  have hnz := congrArg V3.z hcol
  simp only [cross_x, cross_y, cross_z, V3.sub_x, V3.sub_y, V3.sub_z] at hnx hny hnz
  by_cases hab0 : V3.dot (b - a) (b - a) = 0
  · -- a = b
    have hz := V3.normSq_eq_zero (a := b - a) hab0
    have ex : b.x = a.x := by have := congrArg V3.x hz; simp at this; linarith
    have ey : b.y = a.y := by have := congrArg V3.y hz; simp at this; linarith
    have ez : b.z = a.z := by have := congrArg V3.z hz; simp at this; linarith
    right; left
    have : u * a + v * b + w * c = (u + v) * a + w * c := by
      apply V3.ext' <;> simp [ex, ey, ez] <;> ring
    rw [this]
    exact hull2_intro a c (by linarith) hw (by linarith)
  · have he1 : 0 < V3.dot (b - a) (b - a) :=
      lt_of_le_of_ne (V3.normSq_nonneg _) (Ne.symm hab0)
    set e1 := V3.dot (b - a) (b - a) with he1def
    set g := V3.dot (b - a) (c - a) with hgdef
    set lam := g / e1 with hlam
    have hlam' : lam * e1 = g := by rw [hlam]; field_simp
    -- c − a = lam (b − a)
    have cx : c.x - a.x = lam * (b.x - a.x) := by
      have : e1 * (c.x - a.x) = g * (b.x - a.x) := by
        simp only [he1def, hgdef, V3.dot_def, V3.sub_x, V3.sub_y, V3.sub_z]
        linear_combination (b.z - a.z) * hny - (b.y - a.y) * hnz
      have h2 : e1 * (c.x - a.x) = e1 * (lam * (b.x - a.x)) := by rw [this, ← hlam']; ring
      exact mul_left_cancel₀ (ne_of_gt he1) h2
    have cy : c.y - a.y = lam * (b.y - a.y) := by
      have : e1 * (c.y - a.y) = g * (b.y - a.y) := by
        simp only [he1def, hgdef, V3.dot_def, V3.sub_x, V3.sub_y, V3.sub_z]
        linear_combination (b.x - a.x) * hnz - (b.z - a.z) * hnx
      have h2 : e1 * (c.y - a.y) = e1 * (lam * (b.y - a.y)) := by rw [this, ← hlam']; ring
      exact mul_left_cancel₀ (ne_of_gt he1) h2
    have cz : c.z - a.z = lam * (b.z - a.z) := by
      have : e1 * (c.z - a.z) = g * (b.z - a.z) := by
        simp only [he1def, hgdef, V3.dot_def, V3.sub_x, V3.sub_y, V3.sub_z]
        linear_combination (b.y - a.y) * hnx - (b.x - a.x) * hny
      have h2 : e1 * (c.z - a.z) = e1 * (lam * (b.z - a.z)) := by rw [this, ← hlam']; ring
      exact mul_left_cancel₀ (ne_of_gt he1) h2
    set τ := v + w * lam with hτ
    have hu' : u = 1 - v - w := by linarith
    by_cases h0 : τ < 0
    · -- segment [a, c]
      have hlneg : lam < 0 := by
        by_contra hh
        have : 0 ≤ w * lam := mul_nonneg hw (not_lt.mp hh)
        linarith
      right; left
      set σ := τ / lam with hσ
      have hlne : lam ≠ 0 := ne_of_lt hlneg
      have hσl : σ * lam = τ := by rw [hσ]; field_simp
      have hσ0 : 0 ≤ σ := by rw [hσ]; exact div_nonneg_of_nonpos h0.le hlneg.le
      have hw1 : w ≤ 1 := by linarith
      have hσ1 : σ ≤ 1 := by
        rw [hσ, div_le_one_of_neg hlneg]
        nlinarith
      have : u * a + v * b + w * c = (1 - σ) * a + σ * c := by
        apply V3.ext' <;> simp only [V3.add_x, V3.add_y, V3.add_z, V3.smul_x, V3.smul_y, V3.smul_z]
        · have : c.x = a.x + lam * (b.x - a.x) := by linarith
          rw [this, hu']; linear_combination (-(b.x - a.x)) * hσl + (b.x - a.x) * hτ
        · have : c.y = a.y + lam * (b.y - a.y) := by linarith
          rw [this, hu']; linear_combination (-(b.y - a.y)) * hσl + (b.y - a.y) * hτ
        · have : c.z = a.z + lam * (b.z - a.z) := by linarith
          rw [this, hu']; linear_combination (-(b.z - a.z)) * hσl + (b.z - a.z) * hτ
      rw [this]
      exact hull2_intro a c (by linarith) hσ0 (by ring)
    · by_cases h1 : τ ≤ 1
      · -- segment [a, b]
        left
        have : u * a + v * b + w * c = (1 - τ) * a + τ * b := by
          apply V3.ext' <;> simp only [V3.add_x, V3.add_y, V3.add_z, V3.smul_x, V3.smul_y, V3.smul_z]
          · have : c.x = a.x + lam * (b.x - a.x) := by linarith
            rw [this, hu', hτ]; ring
          · have : c.y = a.y + lam * (b.y - a.y) := by linarith
            rw [this, hu', hτ]; ring
          · have : c.z = a.z + lam * (b.z - a.z) := by linarith
            rw [this, hu', hτ]; ring
        rw [this]
        exact hull2_intro a b (by linarith) (not_lt.mp h0) (by ring)
      · -- segment [b, c]
        have h1' : 1 < τ := not_le.mp h1
        have hl1 : 1 < lam := by
          by_contra hh
          have : w * lam ≤ w * 1 := mul_le_mul_of_nonneg_left (not_lt.mp hh) hw
          linarith
        right; right
        set σ := (τ - 1) / (lam - 1) with hσ
        have hlm : 0 < lam - 1 := by linarith
        have hσl : σ * (lam - 1) = τ - 1 := by rw [hσ]; field_simp
        have hσ0 : 0 ≤ σ := by rw [hσ]; exact div_nonneg (by linarith) hlm.le
        have hσ1 : σ ≤ 1 := by
          rw [hσ, div_le_one hlm]
          have hw1 : w ≤ 1 := by linarith
          nlinarith
        have : u * a + v * b + w * c = (1 - σ) * b + σ * c := by
          apply V3.ext' <;> simp only [V3.add_x, V3.add_y, V3.add_z, V3.smul_x, V3.smul_y, V3.smul_z]
          · have : c.x = a.x + lam * (b.x - a.x) := by linarith
            rw [this, hu']; linear_combination (-(b.x - a.x)) * hσl + (b.x - a.x) * hτ
          · have : c.y = a.y + lam * (b.y - a.y) := by linarith
            rw [this, hu']; linear_combination (-(b.y - a.y)) * hσl + (b.y - a.y) * hτ
          · have : c.z = a.z + lam * (b.z - a.z) := by linarith
            rw [this, hu']; linear_combination (-(b.z - a.z)) * hσl + (b.z - a.z) * hτ
        rw [this]
        exact hull2_intro b c (by linarith) hσ0 (by ring)

theorem sel_ab {β : Type} (a b c : β) (s : Nat) (h : s = 1 ∨ s = 2 ∨ s = 3) :
    selectBits s [a, b, c] = selectBits s [a, b] := by
  rcases h with rfl | rfl | rfl <;> rfl

theorem sel_ac {β : Type} (a b c : β) (s : Nat) (h : s = 1 ∨ s = 2 ∨ s = 3) :
    selectBits ((s &&& 0b0001) + ((s &&& 0b0010) <<< 1)) [a, b, c] = selectBits s [a, c] := by
  rcases h with rfl | rfl | rfl <;> rfl

theorem sel_bc {β : Type} (a b c : β) (s : Nat) (h : s = 1 ∨ s = 2 ∨ s = 3) :
    selectBits (s <<< 1) [a, b, c] = selectBits s [b, c] := by
  rcases h with rfl | rfl | rfl <;> rfl

/-- **triangle_spec, collinear fallback.** -/
theorem closestPointTriangleDegenerate_spec (a b c : V)
    (hcol : V3.cross (b - a) (c - a) = ⟨0, 0, 0⟩)
    (hab : EdgeOK a b) (hac : EdgeOK a c) (hbc : EdgeOK b c) :
    ∃ r, closestPointTriangleDegenerate a b c = .ok r ∧ IsMinNorm (hullSet [a, b, c]) r.pt ∧
      hullSet (selectBits r.set [a, b, c]) r.pt ∧ 1 ≤ r.set ∧ r.set ≤ 7 := by
  obtain ⟨r1, e1, m1, s1, b1⟩ := closestPointLine_edgeOK a b hab
  obtain ⟨r2, e2, m2, s2, b2⟩ := closestPointLine_edgeOK a c hac
  obtain ⟨r3, e3, m3, s3, b3⟩ := closestPointLine_edgeOK b c hbc
  have g1 : hullSet (selectBits r1.set [a, b, c]) r1.pt := by rw [sel_ab a b c _ b1]; exact s1
  have g2 : hullSet (selectBits ((r2.set &&& 0b0001) + ((r2.set &&& 0b0010) <<< 1)) [a, b, c]) r2.pt := by
    rw [sel_ac a b c _ b2]; exact s2
  have g3 : hullSet (selectBits (r3.set <<< 1) [a, b, c]) r3.pt := by
    rw [sel_bc a b c _ b3]; exact s3
  -- generic conclusion from "member with the smallest norm"
  have key : ∀ (p : V) (s : Nat), hullSet (selectBits s [a, b, c]) p →
      V3.dot p p ≤ V3.dot r1.pt r1.pt → V3.dot p p ≤ V3.dot r2.pt r2.pt →
      V3.dot p p ≤ V3.dot r3.pt r3.pt →
      1 ≤ s ∧ s ≤ 7 →
      IsMinNorm (hullSet [a, b, c]) p ∧ hullSet (selectBits s [a, b, c]) p ∧ 1 ≤ s ∧ s ≤ 7 := by
    intro p s hp l1 l2 l3 hb
    refine ⟨⟨hull_selectBits hp, fun x hx => ?_⟩, hp, hb⟩
    rcases collinear_hull_cover a b c hcol x hx with h | h | h
    · exact le_trans l1 (m1.2 x h)
    · exact le_trans l2 (m2.2 x h)
    · exact le_trans l3 (m3.2 x h)
  have k1 : 1 ≤ r1.set ∧ r1.set ≤ 7 := by rcases b1 with h | h | h <;> rw [h] <;> decide
  have k2 : 1 ≤ (r2.set &&& 0b0001) + ((r2.set &&& 0b0010) <<< 1) ∧
      (r2.set &&& 0b0001) + ((r2.set &&& 0b0010) <<< 1) ≤ 7 := by
    rcases b2 with h | h | h <;> rw [h] <;> decide
  have k3 : 1 ≤ r3.set <<< 1 ∧ r3.set <<< 1 ≤ 7 := by
    rcases b3 with h | h | h <;> rw [h] <;> decide
  unfold closestPointTriangleDegenerate
  simp only [e1, e2, e3, bind, Except.bind]
  by_cases c2 : V3.dot r2.pt r2.pt < V3.dot r1.pt r1.pt
  · simp only [c2, if_true]
    by_cases c3 : V3.dot r3.pt r3.pt < V3.dot r2.pt r2.pt
    · simp only [c3, if_true]
      exact ⟨_, rfl, key r3.pt _ g3 (by linarith) c3.le (le_refl _) k3⟩
    · simp only [c3, if_false]
      exact ⟨_, rfl, key r2.pt _ g2 c2.le (le_refl _) (not_lt.mp c3) k2⟩
  · simp only [c2, if_false]
    by_cases c3 : V3.dot r3.pt r3.pt < V3.dot r1.pt r1.pt
    · simp only [c3, if_true]
      exact ⟨_, rfl, key r3.pt _ g3 c3.le (by linarith [not_lt.mp c2]) (le_refl _) k3⟩
    · simp only [c3, if_false]
      exact ⟨_, rfl, key r1.pt _ g1 (le_refl _) (not_lt.mp c2) (not_lt.mp c3) k1⟩

/-- a face the triangle routine treats exactly: non-degenerate for the code's test, or exactly
collinear with exact edges -/
def FaceOK (p q r : V) : Prop :=
  ¬ V3.dot (triNormal p q r) (triNormal p q r) < EPS2 ∨
  (V3.cross (q - p) (r - p) = ⟨0, 0, 0⟩ ∧ EdgeOK p q ∧ EdgeOK p r ∧ EdgeOK q r)

theorem closestPointTriangle_faceOK (p q r : V) (h : FaceOK p q r) :
    ∃ t, closestPointTriangle p q r = .ok t ∧ IsMinNorm (hullSet [p, q, r]) t.pt ∧
      hullSet (selectBits t.set [p, q, r]) t.pt ∧ 1 ≤ t.set ∧ t.set ≤ 7 := by
  rcases h with h | ⟨hc, h1, h2, h3⟩
  · obtain ⟨t, a1, a2, a3, a4, a5, _⟩ := closestPointTriangle_spec p q r h
    exact ⟨t, a1, a2, a3, a4, a5⟩
  · have hdeg : V3.dot (triNormal p q r) (triNormal p q r) < EPS2 := by
      rw [triNormal_eq, hc]
      have : V3.dot (⟨0, 0, 0⟩ : V) ⟨0, 0, 0⟩ = 0 := by simp [V3.dot_def]
      rw [this]; exact EPS2_pos
    have : closestPointTriangle p q r = closestPointTriangleDegenerate p q r := by
      simp only [closestPointTriangle, hdeg, if_true]
    rw [this]
    exact closestPointTriangleDegenerate_spec p q r hc h1 h2 h3

end Simplex
end D3
