/-
C12 helper lemmas, part 2: specification-level invariance.

`IsDist K₁ K₂ d` — `d` is the attained minimum distance between two arbitrary point sets — is
invariant under a common rigid motion, symmetric under swapping the sets, homogeneous under a
common positive scaling, and determines `d` uniquely.  Same for the closest pair (where unique)
and for the penetration depth `IsPenDepth` (attained minimum over unit directions of the support
value of the Minkowski difference).  No convexity, compactness or shape-specific reasoning is used.
-/
import D3.Proofs.PoseAlgBasic

namespace D3
namespace PoseAlg

/-- `s • K` -/
def scaleSet (s : ℝ) (K : V → Prop) : V → Prop := fun p => ∃ q, K q ∧ p = s * q

/-- `d` is the minimum distance of the two sets, attained by some pair -/
def IsDist (K₁ K₂ : V → Prop) (d : ℝ) : Prop :=
  (∃ x, K₁ x ∧ ∃ y, K₂ y ∧ V3.norm (x - y) = d) ∧
    ∀ x, K₁ x → ∀ y, K₂ y → d ≤ V3.norm (x - y)

/-- `(x, y)` is a closest pair of the two sets -/
def IsClosestPair (K₁ K₂ : V → Prop) (x y : V) : Prop :=
  K₁ x ∧ K₂ y ∧ ∀ x', K₁ x' → ∀ y', K₂ y' → V3.norm (x - y) ≤ V3.norm (x' - y')

theorem isDist_unique {K₁ K₂ : V → Prop} {d d' : ℝ} (h : IsDist K₁ K₂ d) (h' : IsDist K₁ K₂ d') :
    d = d' := by
  obtain ⟨⟨x, hx, y, hy, hxy⟩, hlb⟩ := h
  obtain ⟨⟨x', hx', y', hy', hxy'⟩, hlb'⟩ := h'
  have h1 := hlb x' hx' y' hy'
  have h2 := hlb' x hx y hy
  linarith

theorem IsClosestPair.isDist {K₁ K₂ : V → Prop} {x y : V} (h : IsClosestPair K₁ K₂ x y) :
    IsDist K₁ K₂ (V3.norm (x - y)) :=
  ⟨⟨x, h.1, y, h.2.1, rfl⟩, h.2.2⟩

/-! ### rigid motion -/

theorem isDist_rigid {g : Pose ℝ} (hg : Orthonormal g.R) (K₁ K₂ : V → Prop) (d : ℝ) :
    IsDist (poseImage g K₁) (poseImage g K₂) d ↔ IsDist K₁ K₂ d := by
  constructor
  · rintro ⟨⟨x', ⟨x, hx, rfl⟩, y', ⟨y, hy, rfl⟩, hxy⟩, hlb⟩
    refine ⟨⟨x, hx, y, hy, by rw [← dist_rigid hg]; exact hxy⟩, ?_⟩
    intro a ha b hb
    have := hlb (g.apply a) ⟨a, ha, rfl⟩ (g.apply b) ⟨b, hb, rfl⟩
    rwa [dist_rigid hg] at this
  · rintro ⟨⟨x, hx, y, hy, hxy⟩, hlb⟩
    refine ⟨⟨g.apply x, ⟨x, hx, rfl⟩, g.apply y, ⟨y, hy, rfl⟩, by rw [dist_rigid hg]; exact hxy⟩, ?_⟩
    rintro a' ⟨a, ha, rfl⟩ b' ⟨b, hb, rfl⟩
    rw [dist_rigid hg]
    exact hlb a ha b hb

theorem isClosestPair_rigid {g : Pose ℝ} (hg : Orthonormal g.R) (K₁ K₂ : V → Prop) (x y : V) :
    IsClosestPair (poseImage g K₁) (poseImage g K₂) (g.apply x) (g.apply y) ↔
      IsClosestPair K₁ K₂ x y := by
  have inj : ∀ a b : V, g.apply a = g.apply b → a = b := by
    intro a b hab
    have := congrArg g.applyInv hab
    rwa [Pose.applyInv_apply hg, Pose.applyInv_apply hg] at this
  constructor
  · rintro ⟨⟨a, ha, hxa⟩, ⟨b, hb, hyb⟩, hmin⟩
    have ea := inj _ _ hxa
    have eb := inj _ _ hyb
    subst ea; subst eb
    refine ⟨ha, hb, ?_⟩
    intro x' hx' y' hy'
    have := hmin (g.apply x') ⟨x', hx', rfl⟩ (g.apply y') ⟨y', hy', rfl⟩
    rwa [dist_rigid hg, dist_rigid hg] at this
  · rintro ⟨hx, hy, hmin⟩
    refine ⟨⟨x, hx, rfl⟩, ⟨y, hy, rfl⟩, ?_⟩
    rintro a' ⟨a, ha, rfl⟩ b' ⟨b, hb, rfl⟩
    rw [dist_rigid hg, dist_rigid hg]
    exact hmin a ha b hb

/-- where the optimum of the original scene is unique, every closest pair of the moved scene is
the moved closest pair -/
theorem closestPair_rigid_of_unique {g : Pose ℝ} (hg : Orthonormal g.R) {K₁ K₂ : V → Prop} {x y : V}
    (huniq : ∀ a b, IsClosestPair K₁ K₂ a b → a = x ∧ b = y)
    {x' y' : V} (h' : IsClosestPair (poseImage g K₁) (poseImage g K₂) x' y') :
    x' = g.apply x ∧ y' = g.apply y := by
  obtain ⟨a, _, rfl⟩ := h'.1
  obtain ⟨b, _, rfl⟩ := h'.2.1
  have := huniq a b ((isClosestPair_rigid hg K₁ K₂ a b).mp h')
  rw [this.1, this.2]; exact ⟨rfl, rfl⟩

/-! ### swap -/

theorem isDist_swap (K₁ K₂ : V → Prop) (d : ℝ) : IsDist K₂ K₁ d ↔ IsDist K₁ K₂ d := by
  have key : ∀ A B : V → Prop, IsDist A B d → IsDist B A d := by
    rintro A B ⟨⟨x, hx, y, hy, hxy⟩, hlb⟩
    refine ⟨⟨y, hy, x, hx, by rw [norm_sub_comm]; exact hxy⟩, ?_⟩
    intro a ha b hb
    rw [norm_sub_comm]; exact hlb b hb a ha
  exact ⟨key _ _, key _ _⟩

theorem isClosestPair_swap (K₁ K₂ : V → Prop) (x y : V) :
    IsClosestPair K₂ K₁ y x ↔ IsClosestPair K₁ K₂ x y := by
  have key : ∀ (A B : V → Prop) (a b : V), IsClosestPair A B a b → IsClosestPair B A b a := by
    rintro A B a b ⟨ha, hb, hmin⟩
    refine ⟨hb, ha, ?_⟩
    intro b' hb' a' ha'
    rw [norm_sub_comm b a, norm_sub_comm b' a']; exact hmin a' ha' b' hb'
  exact ⟨key _ _ _ _, key _ _ _ _⟩

/-! ### uniform scaling -/

theorem smul_sub_smul (s : ℝ) (a b : V) : s * a - s * b = s * (a - b) := (smul_sub s a b).symm

theorem isDist_scale {s : ℝ} (hs : 0 < s) (K₁ K₂ : V → Prop) (d : ℝ) :
    IsDist (scaleSet s K₁) (scaleSet s K₂) (s * d) ↔ IsDist K₁ K₂ d := by
  constructor
  · rintro ⟨⟨x', ⟨x, hx, rfl⟩, y', ⟨y, hy, rfl⟩, hxy⟩, hlb⟩
    rw [smul_sub_smul, norm_smul s hs.le] at hxy
    refine ⟨⟨x, hx, y, hy, mul_left_cancel₀ hs.ne' hxy⟩, ?_⟩
    intro a ha b hb
    have := hlb (s * a) ⟨a, ha, rfl⟩ (s * b) ⟨b, hb, rfl⟩
    rw [smul_sub_smul, norm_smul s hs.le] at this
    exact le_of_mul_le_mul_left this hs
  · rintro ⟨⟨x, hx, y, hy, hxy⟩, hlb⟩
    refine ⟨⟨s * x, ⟨x, hx, rfl⟩, s * y, ⟨y, hy, rfl⟩, ?_⟩, ?_⟩
    · rw [smul_sub_smul, norm_smul s hs.le, hxy]
    · rintro a' ⟨a, ha, rfl⟩ b' ⟨b, hb, rfl⟩
      rw [smul_sub_smul, norm_smul s hs.le]
      exact mul_le_mul_of_nonneg_left (hlb a ha b hb) hs.le

theorem isClosestPair_scale {s : ℝ} (hs : 0 < s) (K₁ K₂ : V → Prop) (x y : V)
    (h : IsClosestPair K₁ K₂ x y) :
    IsClosestPair (scaleSet s K₁) (scaleSet s K₂) (s * x) (s * y) := by
  obtain ⟨hx, hy, hmin⟩ := h
  refine ⟨⟨x, hx, rfl⟩, ⟨y, hy, rfl⟩, ?_⟩
  rintro a' ⟨a, ha, rfl⟩ b' ⟨b, hb, rfl⟩
  rw [smul_sub_smul, smul_sub_smul, norm_smul s hs.le, norm_smul s hs.le]
  exact mul_le_mul_of_nonneg_left (hmin a ha b hb) hs.le

/-! ### penetration depth -/

/-- Minkowski difference `K₁ ⊖ K₂` -/
def mdiff (K₁ K₂ : V → Prop) : V → Prop := fun z => ∃ x y, K₁ x ∧ K₂ y ∧ z = x - y

/-- `h` is the (attained) support value of `M` in direction `n` -/
def IsSupportVal (M : V → Prop) (n : V) (h : ℝ) : Prop :=
  (∃ z, M z ∧ V3.dot n z = h) ∧ ∀ z, M z → V3.dot n z ≤ h

def IsUnitV (n : V) : Prop := V3.dot n n = 1

/-- `δ` is the penetration depth: the minimum over all unit directions (in which the support value
of `K₁ ⊖ K₂` is attained) of that support value, attained by some direction.
For compact sets every direction has an attained support value. -/
def IsPenDepth (K₁ K₂ : V → Prop) (δ : ℝ) : Prop :=
  (∃ n, IsUnitV n ∧ IsSupportVal (mdiff K₁ K₂) n δ) ∧
    ∀ n h, IsUnitV n → IsSupportVal (mdiff K₁ K₂) n h → δ ≤ h

theorem isPenDepth_unique {K₁ K₂ : V → Prop} {δ δ' : ℝ} (h : IsPenDepth K₁ K₂ δ)
    (h' : IsPenDepth K₁ K₂ δ') : δ = δ' := by
  obtain ⟨⟨n, hn, hs⟩, hmin⟩ := h
  obtain ⟨⟨n', hn', hs'⟩, hmin'⟩ := h'
  have := hmin n' δ' hn' hs'
  have := hmin' n δ hn hs
  linarith

theorem supportVal_rigid {g : Pose ℝ} (hg : Orthonormal g.R) (K₁ K₂ : V → Prop) (n : V) (h : ℝ) :
    IsSupportVal (mdiff (poseImage g K₁) (poseImage g K₂)) (g.R.mulVec n) h ↔
      IsSupportVal (mdiff K₁ K₂) n h := by
  constructor
  · rintro ⟨⟨z, ⟨x', y', ⟨x, hx, rfl⟩, ⟨y, hy, rfl⟩, rfl⟩, hz⟩, hub⟩
    rw [dot_dir_rigid hg] at hz
    refine ⟨⟨x - y, ⟨x, y, hx, hy, rfl⟩, hz⟩, ?_⟩
    rintro z ⟨a, b, ha, hb, rfl⟩
    have := hub (g.apply a - g.apply b) ⟨_, _, ⟨a, ha, rfl⟩, ⟨b, hb, rfl⟩, rfl⟩
    rwa [dot_dir_rigid hg] at this
  · rintro ⟨⟨z, ⟨x, y, hx, hy, rfl⟩, hz⟩, hub⟩
    refine ⟨⟨g.apply x - g.apply y, ⟨_, _, ⟨x, hx, rfl⟩, ⟨y, hy, rfl⟩, rfl⟩, ?_⟩, ?_⟩
    · rw [dot_dir_rigid hg]; exact hz
    · rintro z ⟨a', b', ⟨a, ha, rfl⟩, ⟨b, hb, rfl⟩, rfl⟩
      rw [dot_dir_rigid hg]
      exact hub (a - b) ⟨a, b, ha, hb, rfl⟩

theorem isUnitV_mulVec {R : Mat} (hR : Orthonormal R) (n : V) : IsUnitV (R.mulVec n) ↔ IsUnitV n := by
  unfold IsUnitV; rw [hR.dot_mulVec]

theorem isUnitV_tmulVec {R : Mat} (hR : Orthonormal R) (n : V) : IsUnitV (R.tmulVec n) ↔ IsUnitV n := by
  unfold IsUnitV; rw [hR.dot_tmulVec]

theorem isPenDepth_rigid {g : Pose ℝ} (hg : Orthonormal g.R) (K₁ K₂ : V → Prop) (δ : ℝ) :
    IsPenDepth (poseImage g K₁) (poseImage g K₂) δ ↔ IsPenDepth K₁ K₂ δ := by
  constructor
  · rintro ⟨⟨n', hn', hs'⟩, hmin⟩
    have e : g.R.mulVec (g.R.tmulVec n') = n' := hg.mulVec_tmulVec n'
    refine ⟨⟨g.R.tmulVec n', (isUnitV_tmulVec hg n').mpr hn', ?_⟩, ?_⟩
    · rw [← supportVal_rigid hg, e]; exact hs'
    · intro n h hn hs
      exact hmin (g.R.mulVec n) h ((isUnitV_mulVec hg n).mpr hn) ((supportVal_rigid hg K₁ K₂ n h).mpr hs)
  · rintro ⟨⟨n, hn, hs⟩, hmin⟩
    refine ⟨⟨g.R.mulVec n, (isUnitV_mulVec hg n).mpr hn, (supportVal_rigid hg K₁ K₂ n δ).mpr hs⟩, ?_⟩
    intro n' h hn' hs'
    have e : g.R.mulVec (g.R.tmulVec n') = n' := hg.mulVec_tmulVec n'
    refine hmin (g.R.tmulVec n') h ((isUnitV_tmulVec hg n').mpr hn') ?_
    rw [← supportVal_rigid hg, e]; exact hs'

theorem dot_neg_left (a b : V) : V3.dot (-a) b = -V3.dot a b := by
  simp only [V3.dot_def, V3.neg_x, V3.neg_y, V3.neg_z]; ring

theorem supportVal_swap (K₁ K₂ : V → Prop) (n : V) (h : ℝ) :
    IsSupportVal (mdiff K₂ K₁) (-n) h ↔ IsSupportVal (mdiff K₁ K₂) n h := by
  have e : ∀ x y : V, V3.dot (-n) (y - x) = V3.dot n (x - y) := by
    intro x y; rw [← neg_sub' x y, dot_neg_neg]
  constructor
  · rintro ⟨⟨z, ⟨y, x, hy, hx, rfl⟩, hz⟩, hub⟩
    rw [e] at hz
    refine ⟨⟨x - y, ⟨x, y, hx, hy, rfl⟩, hz⟩, ?_⟩
    rintro z ⟨a, b, ha, hb, rfl⟩
    have := hub (b - a) ⟨b, a, hb, ha, rfl⟩
    rwa [e] at this
  · rintro ⟨⟨z, ⟨x, y, hx, hy, rfl⟩, hz⟩, hub⟩
    refine ⟨⟨y - x, ⟨y, x, hy, hx, rfl⟩, by rw [e]; exact hz⟩, ?_⟩
    rintro z ⟨b, a, hb, ha, rfl⟩
    rw [e]; exact hub (a - b) ⟨a, b, ha, hb, rfl⟩

theorem neg_neg' (a : V) : -(-a) = a := by apply V3.ext' <;> simp

theorem isUnitV_neg (n : V) : IsUnitV (-n) ↔ IsUnitV n := by
  unfold IsUnitV; rw [dot_neg_neg]

/-- the depth does not depend on the order of the arguments (the direction flips) -/
theorem isPenDepth_swap (K₁ K₂ : V → Prop) (δ : ℝ) : IsPenDepth K₂ K₁ δ ↔ IsPenDepth K₁ K₂ δ := by
  have key : ∀ A B : V → Prop, IsPenDepth A B δ → IsPenDepth B A δ := by
    rintro A B ⟨⟨n, hn, hs⟩, hmin⟩
    refine ⟨⟨-n, (isUnitV_neg n).mpr hn, (supportVal_swap A B n δ).mpr hs⟩, ?_⟩
    intro n' h hn' hs'
    refine hmin (-n') h ((isUnitV_neg n').mpr hn') ?_
    have := (supportVal_swap B A n' h).mpr hs'
    exact this
  exact ⟨key _ _, key _ _⟩

theorem supportVal_scale {s : ℝ} (hs : 0 < s) (K₁ K₂ : V → Prop) (n : V) (h : ℝ) :
    IsSupportVal (mdiff (scaleSet s K₁) (scaleSet s K₂)) n (s * h) ↔
      IsSupportVal (mdiff K₁ K₂) n h := by
  have e : ∀ x y : V, V3.dot n (s * x - s * y) = s * V3.dot n (x - y) := by
    intro x y; rw [smul_sub_smul, dot_smul_right]
  constructor
  · rintro ⟨⟨z, ⟨x', y', ⟨x, hx, rfl⟩, ⟨y, hy, rfl⟩, rfl⟩, hz⟩, hub⟩
    rw [e] at hz
    refine ⟨⟨x - y, ⟨x, y, hx, hy, rfl⟩, mul_left_cancel₀ hs.ne' hz⟩, ?_⟩
    rintro z ⟨a, b, ha, hb, rfl⟩
    have := hub (s * a - s * b) ⟨_, _, ⟨a, ha, rfl⟩, ⟨b, hb, rfl⟩, rfl⟩
    rw [e] at this
    exact le_of_mul_le_mul_left this hs
  · rintro ⟨⟨z, ⟨x, y, hx, hy, rfl⟩, hz⟩, hub⟩
    refine ⟨⟨s * x - s * y, ⟨_, _, ⟨x, hx, rfl⟩, ⟨y, hy, rfl⟩, rfl⟩, by rw [e, hz]⟩, ?_⟩
    rintro z ⟨a', b', ⟨a, ha, rfl⟩, ⟨b, hb, rfl⟩, rfl⟩
    rw [e]
    exact mul_le_mul_of_nonneg_left (hub (a - b) ⟨a, b, ha, hb, rfl⟩) hs.le

theorem isPenDepth_scale {s : ℝ} (hs : 0 < s) (K₁ K₂ : V → Prop) (δ : ℝ) :
    IsPenDepth (scaleSet s K₁) (scaleSet s K₂) (s * δ) ↔ IsPenDepth K₁ K₂ δ := by
  constructor
  · rintro ⟨⟨n, hn, hsv⟩, hmin⟩
    refine ⟨⟨n, hn, (supportVal_scale hs K₁ K₂ n δ).mp hsv⟩, ?_⟩
    intro n' h hn' hs'
    have := hmin n' (s * h) hn' ((supportVal_scale hs K₁ K₂ n' h).mpr hs')
    exact le_of_mul_le_mul_left this hs
  · rintro ⟨⟨n, hn, hsv⟩, hmin⟩
    refine ⟨⟨n, hn, (supportVal_scale hs K₁ K₂ n δ).mpr hsv⟩, ?_⟩
    intro n' h' hn' hs'
    have hh : h' = s * (h' / s) := by field_simp
    rw [hh] at hs' ⊢
    exact mul_le_mul_of_nonneg_left
      (hmin n' (h' / s) hn' ((supportVal_scale hs K₁ K₂ n' (h' / s)).mp hs')) hs.le

end PoseAlg
end D3
