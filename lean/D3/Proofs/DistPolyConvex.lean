/-
`point_to_rectangle`, `point_to_box` (clamping per local axis under an orthonormal frame),
`point_to_disk`, `point_to_cylinder` (radial projection + axial clamp): feasibility and global
optimality by the variational inequality.
-/
import D3.Proofs.DistPolySets

namespace D3
namespace DistPoly

/-! ### rectangle -/

theorem rect_vi_id (ax0 ax1 d : V) (s0 s1 s t : ℝ)
    (h00 : V3.dot ax0 ax0 = 1) (h11 : V3.dot ax1 ax1 = 1) (h01 : V3.dot ax0 ax1 = 0) :
    V3.dot (d - (s0 * ax0 + s1 * ax1)) ((s * ax0 + t * ax1) - (s0 * ax0 + s1 * ax1)) =
      (V3.dot ax0 d - s0) * (s - s0) + (V3.dot ax1 d - s1) * (t - s1) := by
  simp only [V3.dot_def, V3.sub_x, V3.sub_y, V3.sub_z, V3.add_x, V3.add_y, V3.add_z,
    V3.smul_x, V3.smul_y, V3.smul_z] at *
  linear_combination (-(s - s0) * s0) * h00 + (-(s - s0) * s1 - (t - s1) * s0) * h01 +
    (-(t - s1) * s1) * h11

/-- **`point_to_rectangle`** for unit orthogonal axes and non-negative side lengths -/
theorem pointToRectangle_spec (p c ax0 ax1 : V) (l0 l1 : ℝ)
    (h00 : V3.dot ax0 ax0 = 1) (h11 : V3.dot ax1 ax1 = 1) (h01 : V3.dot ax0 ax1 = 0)
    (hl0 : 0 ≤ l0) (hl1 : 0 ≤ l1) :
    ∃ r, pointToRectangle p c ax0 ax1 l0 l1 = .ok r ∧ GoodPt (rectSet c ax0 ax1 l0 l1) p r := by
  unfold pointToRectangle
  dsimp only
  have e0 : (0.5 : ℝ) * l0 = l0 / 2 := by rw [half_real]; ring
  have e1 : (0.5 : ℝ) * l1 = l1 / 2 := by rw [half_real]; ring
  rw [e0, e1]
  have b0 := clip_mem (x := V3.dot ax0 (p - c)) (lo := -(l0 / 2)) (hi := l0 / 2) (by linarith)
  have b1 := clip_mem (x := V3.dot ax1 (p - c)) (lo := -(l1 / 2)) (hi := l1 / 2) (by linarith)
  have v0 : ∀ s, -(l0 / 2) ≤ s → s ≤ l0 / 2 → _ := fun s h1 h2 =>
    clip_vi (x := V3.dot ax0 (p - c)) (lo := -(l0 / 2)) (hi := l0 / 2) (s := s) (by linarith) h1 h2
  have v1 : ∀ s, -(l1 / 2) ≤ s → s ≤ l1 / 2 → _ := fun s h1 h2 =>
    clip_vi (x := V3.dot ax1 (p - c)) (lo := -(l1 / 2)) (hi := l1 / 2) (s := s) (by linarith) h1 h2
  generalize clip (V3.dot ax0 (p - c)) (-(l0 / 2)) (l0 / 2) = s0 at *
  generalize clip (V3.dot ax1 (p - c)) (-(l1 / 2)) (l1 / 2) = s1 at *
  refine ⟨_, rfl, goodPt_of_vi _ _ _ _ ⟨s0, s1, b0.1, b0.2, b1.1, b1.2, rfl⟩ ?_⟩
  rintro x ⟨s, t, hs1, hs2, ht1, ht2, rfl⟩
  have hp : p - (c + (s0 * ax0 + s1 * ax1)) = (p - c) - (s0 * ax0 + s1 * ax1) := by
    apply V3.ext' <;> simp <;> ring
  have hx : c + (s * ax0 + t * ax1) - (c + (s0 * ax0 + s1 * ax1)) =
      (s * ax0 + t * ax1) - (s0 * ax0 + s1 * ax1) := by
    apply V3.ext' <;> simp
  rw [hp, hx, rect_vi_id ax0 ax1 (p - c) s0 s1 s t h00 h11 h01]
  have := v0 s hs1 hs2
  have := v1 t ht1 ht2
  linarith

/-! ### box -/

theorem tmulVec_sub (R : Mat) (u v : V) : R.tmulVec (u - v) = R.tmulVec u - R.tmulVec v := by
  apply V3.ext' <;> simp [M3.tmulVec, V3.dot_def] <;> ring

theorem mulVec_sub (R : Mat) (u v : V) : R.mulVec (u - v) = R.mulVec u - R.mulVec v := by
  apply V3.ext' <;> simp [M3.mulVec, V3.dot_def] <;> ring

/-- **`point_to_box`** for an orthonormal pose and non-negative sizes -/
theorem pointToBox_spec (p : V) (A : Pose ℝ) (size : V) (hR : Orthonormal A.R)
    (hx : 0 ≤ size.x) (hy : 0 ≤ size.y) (hz : 0 ≤ size.z) :
    ∃ r, pointToBox p A size = .ok r ∧ GoodPt (boxSet A size) p r := by
  unfold pointToBox inverseTransformPoint
  dsimp only
  have ex : (0.5 : ℝ) * size.x = size.x / 2 := by rw [half_real]; ring
  have ey : (0.5 : ℝ) * size.y = size.y / 2 := by rw [half_real]; ring
  have ez : (0.5 : ℝ) * size.z = size.z / 2 := by rw [half_real]; ring
  rw [ex, ey, ez, ← tmulVec_sub]
  generalize hq : A.R.tmulVec (p - A.t) = q
  have bx := clip_mem (x := q.x) (lo := -(size.x / 2)) (hi := size.x / 2) (by linarith)
  have by' := clip_mem (x := q.y) (lo := -(size.y / 2)) (hi := size.y / 2) (by linarith)
  have bz := clip_mem (x := q.z) (lo := -(size.z / 2)) (hi := size.z / 2) (by linarith)
  have vx : ∀ s, -(size.x / 2) ≤ s → s ≤ size.x / 2 → _ := fun s h1 h2 =>
    clip_vi (x := q.x) (lo := -(size.x / 2)) (hi := size.x / 2) (s := s) (by linarith) h1 h2
  have vy : ∀ s, -(size.y / 2) ≤ s → s ≤ size.y / 2 → _ := fun s h1 h2 =>
    clip_vi (x := q.y) (lo := -(size.y / 2)) (hi := size.y / 2) (s := s) (by linarith) h1 h2
  have vz : ∀ s, -(size.z / 2) ≤ s → s ≤ size.z / 2 → _ := fun s h1 h2 =>
    clip_vi (x := q.z) (lo := -(size.z / 2)) (hi := size.z / 2) (s := s) (by linarith) h1 h2
  generalize clip q.x (-(size.x / 2)) (size.x / 2) = cx at *
  generalize clip q.y (-(size.y / 2)) (size.y / 2) = cy at *
  generalize clip q.z (-(size.z / 2)) (size.z / 2) = cz at *
  have hcp : A.t + A.R.mulVec ⟨cx, cy, cz⟩ = A.apply ⟨cx, cy, cz⟩ := by
    unfold Pose.apply; apply V3.ext' <;> simp <;> ring
  rw [hcp]
  refine ⟨_, rfl, goodPt_of_vi _ _ _ _ ⟨⟨cx, cy, cz⟩, ⟨abs_le.mpr bx, abs_le.mpr by', abs_le.mpr bz⟩, rfl⟩ ?_⟩
  rintro x ⟨y, ⟨hyx, hyy, hyz⟩, rfl⟩
  have hxd : A.apply y - A.apply ⟨cx, cy, cz⟩ = A.R.mulVec (y - ⟨cx, cy, cz⟩) := by
    rw [mulVec_sub]; unfold Pose.apply; apply V3.ext' <;> simp
  have hpd : A.R.tmulVec (p - A.apply ⟨cx, cy, cz⟩) = q - ⟨cx, cy, cz⟩ := by
    have : p - A.apply ⟨cx, cy, cz⟩ = (p - A.t) - A.R.mulVec ⟨cx, cy, cz⟩ := by
      unfold Pose.apply; apply V3.ext' <;> simp <;> ring
    rw [this, tmulVec_sub, hq, hR.tmulVec_mulVec]
  rw [hxd, M3.dot_mulVec, hpd]
  rw [abs_le] at hyx hyy hyz
  have := vx y.x hyx.1 hyx.2
  have := vy y.y hyy.1 hyy.2
  have := vz y.z hyz.1 hyz.2
  simp only [V3.dot_def, V3.sub_x, V3.sub_y, V3.sub_z]
  linarith

/-! ### disk -/

/-- the factor `min(1, t)` of `point_to_disk` / `point_to_cylinder` -/
theorem radial_factor (r len : ℝ) (hr : 0 ≤ r) (hlen : 0 ≤ len) :
    0 ≤ min 1 (if isZero len then r else r / len) ∧
    min 1 (if isZero len then r else r / len) * len ≤ r ∧
    (1 - min 1 (if isZero len then r else r / len)) * len *
      (r - min 1 (if isZero len then r else r / len) * len) = 0 ∧
    min 1 (if isZero len then r else r / len) ≤ 1 := by
  simp only [isZero_real]
  split_ifs with h
  · subst h
    refine ⟨le_min zero_le_one hr, by simp [hr], by simp, min_le_left _ _⟩
  · have hpos : 0 < len := lt_of_le_of_ne hlen (Ne.symm h)
    have ht : r / len * len = r := div_mul_cancel₀ r h
    have ht0 : 0 ≤ r / len := div_nonneg hr hlen
    rcases le_total 1 (r / len) with h1 | h1
    · rw [min_eq_left h1]
      have : len ≤ r := by
        have := mul_le_mul_of_nonneg_right h1 hlen
        linarith
      refine ⟨zero_le_one, by linarith, by simp, le_rfl⟩
    · rw [min_eq_right h1]
      refine ⟨ht0, by linarith, by rw [ht]; simp, h1⟩

theorem radial_vi_id (dip n y : V) (dtp m : ℝ) (hdn : V3.dot dip n = 0) (hyn : V3.dot y n = 0) :
    V3.dot ((dip + dtp * n) - m * dip) (y - m * dip) =
      (1 - m) * (V3.dot dip y - m * V3.dot dip dip) := by
  simp only [V3.dot_def, V3.sub_x, V3.sub_y, V3.sub_z, V3.add_x, V3.add_y, V3.add_z,
    V3.smul_x, V3.smul_y, V3.smul_z] at *
  linear_combination dtp * hyn - m * dtp * hdn

theorem reject_decomp (d n : V) : d = (d - V3.dot d n * n) + V3.dot d n * n := by
  apply V3.ext' <;> simp

/-- **`point_to_disk`** for a unit normal and a non-negative radius -/
theorem pointToDisk_spec (p c : V) (r : ℝ) (n : V) (hn : V3.dot n n = 1) (hr : 0 ≤ r) :
    ∃ res, pointToDisk p c r n = .ok res ∧ GoodPt (diskSet c r n) p res := by
  unfold pointToDisk
  dsimp only
  have hdn := dot_reject (p - c) n hn
  have hdec := reject_decomp (p - c) n
  generalize hdtp : V3.dot (p - c) n = dtp at *
  generalize hdip : (p - c) - dtp * n = dip at *
  have hlen0 : 0 ≤ sqrt (V3.dot dip dip) := Real.sqrt_nonneg _
  have hlen2 : sqrt (V3.dot dip dip) * sqrt (V3.dot dip dip) = V3.dot dip dip :=
    Real.mul_self_sqrt (V3.normSq_nonneg dip)
  obtain ⟨hm0, hmr, hmz, hm1⟩ := radial_factor r _ hr hlen0
  generalize sqrt (V3.dot dip dip) = len at *
  generalize min 1 (if isZero len then r else r / len) = m at *
  refine ⟨_, rfl, goodPt_of_vi _ _ _ _ ⟨?_, ?_⟩ ?_⟩
  · -- in the plane
    have : c + m * dip - c = m * dip := by apply V3.ext' <;> simp
    rw [this]
    simp only [V3.dot_def, V3.smul_x, V3.smul_y, V3.smul_z] at hdn ⊢
    linear_combination m * hdn
  · -- within the radius
    have : c + m * dip - c = m * dip := by apply V3.ext' <;> simp
    rw [this]
    have : V3.normSq (m * dip) = (m * len) * (m * len) := by
      have : V3.normSq (m * dip) = m * m * V3.dot dip dip := by
        simp only [V3.normSq_def, V3.dot_def, V3.smul_x, V3.smul_y, V3.smul_z]; ring
      rw [this, ← hlen2]; ring
    rw [this]
    exact mul_self_le_mul_self (mul_nonneg hm0 hlen0) hmr
  · rintro x ⟨hx1, hx2⟩
    have hp : p - (c + m * dip) = (dip + dtp * n) - m * dip := by
      have h1 : p - (c + m * dip) = (p - c) - m * dip := by apply V3.ext' <;> simp <;> ring
      rw [h1]; rw [← hdec]
    have hxx : x - (c + m * dip) = (x - c) - m * dip := by apply V3.ext' <;> simp <;> ring
    rw [hp, hxx, radial_vi_id dip n (x - c) dtp m hdn hx1]
    have hcs : V3.dot dip (x - c) ≤ len * r :=
      dot_le_of_normSq hlen0 hr (by rw [V3.normSq]; exact hlen2.symm) hx2
    rw [← hlen2]
    have h1m : 0 ≤ 1 - m := by linarith
    have : (1 - m) * (V3.dot dip (x - c) - m * (len * len)) ≤ (1 - m) * (len * r - m * (len * len)) :=
      mul_le_mul_of_nonneg_left (by linarith) h1m
    have e : (1 - m) * (len * r - m * (len * len)) = (1 - m) * len * (r - m * len) := by ring
    linarith

/-! ### cylinder -/

/-- the cylinder described by its axis: `|⟨x − t, n⟩| ≤ l/2` and the part of `x − t`
orthogonal to `n` is at most `r` long -/
def axisCylSet (t n : V) (r l : ℝ) : V → Prop := fun x =>
  |V3.dot (x - t) n| ≤ l / 2 ∧ V3.normSq ((x - t) - V3.dot (x - t) n * n) ≤ r * r

theorem cyl_vi_id (dip n y : V) (dtp m cl : ℝ) (hdn : V3.dot dip n = 0) (hnn : V3.dot n n = 1) :
    V3.dot ((dip + dtp * n) - (m * dip + cl * n)) (y - (m * dip + cl * n)) =
      (1 - m) * (V3.dot dip (y - V3.dot y n * n) - m * V3.dot dip dip) +
        (dtp - cl) * (V3.dot y n - cl) := by
  simp only [V3.dot_def, V3.sub_x, V3.sub_y, V3.sub_z, V3.add_x, V3.add_y, V3.add_z,
    V3.smul_x, V3.smul_y, V3.smul_z] at *
  linear_combination (-(1 - m) * cl - (dtp - cl) * m + (1 - m) * (y.x * n.x + y.y * n.y + y.z * n.z)) * hdn
    - ((dtp - cl) * cl) * hnn

/-- `point_to_cylinder` against the axis description of the cylinder (needs only a unit axis) -/
theorem pointToCylinder_axis (p : V) (A : Pose ℝ) (r l : ℝ)
    (hn : V3.dot A.R.col2 A.R.col2 = 1) (hr : 0 ≤ r) (hl : 0 ≤ l) :
    ∃ res, pointToCylinder p A r l = .ok res ∧ GoodPt (axisCylSet A.t A.R.col2 r l) p res := by
  unfold pointToCylinder
  dsimp only
  have el : (0.5 : ℝ) * l = l / 2 := by rw [half_real]; ring
  rw [el]
  generalize A.R.col2 = n at *
  generalize A.t = c at *
  have hdn := dot_reject (p - c) n hn
  have hdec := reject_decomp (p - c) n
  generalize hdtp : V3.dot (p - c) n = dtp at *
  generalize hdip : (p - c) - dtp * n = dip at *
  have hlen0 : 0 ≤ sqrt (V3.dot dip dip) := Real.sqrt_nonneg _
  have hlen2 : sqrt (V3.dot dip dip) * sqrt (V3.dot dip dip) = V3.dot dip dip :=
    Real.mul_self_sqrt (V3.normSq_nonneg dip)
  obtain ⟨hm0, hmr, hmz, hm1⟩ := radial_factor r _ hr hlen0
  generalize sqrt (V3.dot dip dip) = len at *
  generalize min 1 (if isZero len then r else r / len) = m at *
  have bc := clip_mem (x := dtp) (lo := -(l / 2)) (hi := l / 2) (by linarith)
  have vc : ∀ s, -(l / 2) ≤ s → s ≤ l / 2 → _ := fun s h1 h2 =>
    clip_vi (x := dtp) (lo := -(l / 2)) (hi := l / 2) (s := s) (by linarith) h1 h2
  generalize clip dtp (-(l / 2)) (l / 2) = cl at *
  have hcpc : c + m * dip + cl * n - c = m * dip + cl * n := by apply V3.ext' <;> simp <;> ring
  have hax : V3.dot (m * dip + cl * n) n = cl := by
    simp only [V3.dot_def, V3.add_x, V3.add_y, V3.add_z, V3.smul_x, V3.smul_y, V3.smul_z] at hdn hn ⊢
    linear_combination m * hdn + cl * hn
  refine ⟨_, rfl, goodPt_of_vi _ _ _ _ ⟨?_, ?_⟩ ?_⟩
  · rw [hcpc, hax]; exact abs_le.mpr bc
  · rw [hcpc, hax]
    have : m * dip + cl * n - cl * n = m * dip := by apply V3.ext' <;> simp
    rw [this]
    have : V3.normSq (m * dip) = (m * len) * (m * len) := by
      have : V3.normSq (m * dip) = m * m * V3.dot dip dip := by
        simp only [V3.normSq_def, V3.dot_def, V3.smul_x, V3.smul_y, V3.smul_z]; ring
      rw [this, ← hlen2]; ring
    rw [this]
    exact mul_self_le_mul_self (mul_nonneg hm0 hlen0) hmr
  · rintro x ⟨hx1, hx2⟩
    have hp : p - (c + m * dip + cl * n) = (dip + dtp * n) - (m * dip + cl * n) := by
      have h1 : p - (c + m * dip + cl * n) = (p - c) - (m * dip + cl * n) := by
        apply V3.ext' <;> simp <;> ring
      rw [h1]; rw [← hdec]
    have hxx : x - (c + m * dip + cl * n) = (x - c) - (m * dip + cl * n) := by
      apply V3.ext' <;> simp <;> ring
    rw [hp, hxx, cyl_vi_id dip n (x - c) dtp m cl hdn hn]
    have hcs : V3.dot dip ((x - c) - V3.dot (x - c) n * n) ≤ len * r :=
      dot_le_of_normSq hlen0 hr (by rw [V3.normSq]; exact hlen2.symm) hx2
    rw [abs_le] at hx1
    have hax2 := vc _ hx1.1 hx1.2
    rw [← hlen2]
    have h1m : 0 ≤ 1 - m := by linarith
    have : (1 - m) * (V3.dot dip ((x - c) - V3.dot (x - c) n * n) - m * (len * len)) ≤
        (1 - m) * (len * r - m * (len * len)) :=
      mul_le_mul_of_nonneg_left (by linarith) h1m
    have e : (1 - m) * (len * r - m * (len * len)) = (1 - m) * len * (r - m * len) := by ring
    linarith

/-- `R (q.x, q.y, 0) = R q − q.z · col2` -/
theorem mulVec_drop_z (R : Mat) (q : V) :
    R.mulVec q - q.z * R.col2 = R.mulVec ⟨q.x, q.y, 0⟩ := by
  apply V3.ext' <;> simp [M3.mulVec, M3.col2, V3.dot_def] <;> ring

theorem dot_mulVec_col2 {R : Mat} (h : Orthonormal R) (q : V) :
    V3.dot (R.mulVec q) R.col2 = q.z := by
  obtain ⟨_, _, _, _, _, _, _, _, c22, _, c02, c12⟩ := h
  simp only [V3.dot_def, M3.mulVec, M3.col0, M3.col1, M3.col2] at *
  linear_combination q.x * c02 + q.y * c12 + q.z * c22

/-- for an orthonormal pose the pose image of the local cylinder is the axis description -/
theorem cylinderSet_iff (A : Pose ℝ) (r l : ℝ) (hR : Orthonormal A.R) (x : V) :
    cylinderSet A r l x ↔ axisCylSet A.t A.R.col2 r l x := by
  constructor
  · rintro ⟨q, ⟨hq1, hq2⟩, rfl⟩
    have hd : A.apply q - A.t = A.R.mulVec q := by unfold Pose.apply; apply V3.ext' <;> simp
    unfold axisCylSet
    rw [hd, dot_mulVec_col2 hR, mulVec_drop_z]
    refine ⟨hq2, ?_⟩
    rw [V3.normSq, hR.dot_mulVec]
    simp only [V3.dot_def]
    linarith
  · rintro ⟨h1, h2⟩
    refine ⟨A.applyInv x, ⟨?_, ?_⟩, (Pose.apply_applyInv hR x).symm⟩
    · -- q.x² + q.y² = |q|² − q.z² = |x − t|² − ⟨x − t, n⟩²
      have hq : V3.dot (A.applyInv x) (A.applyInv x) = V3.dot (x - A.t) (x - A.t) := by
        unfold Pose.applyInv; exact hR.dot_tmulVec _ _
      have hz : (A.applyInv x).z = V3.dot (x - A.t) A.R.col2 := by
        unfold Pose.applyInv; simp [M3.tmulVec, V3.dot_comm]
      have hrej : V3.normSq ((x - A.t) - V3.dot (x - A.t) A.R.col2 * A.R.col2) =
          V3.dot (x - A.t) (x - A.t) - V3.dot (x - A.t) A.R.col2 * V3.dot (x - A.t) A.R.col2 := by
        have c22 := hR.c22
        generalize A.R.col2 = n at *
        generalize x - A.t = d at *
        simp only [V3.normSq_def, V3.dot_def, V3.sub_x, V3.sub_y, V3.sub_z, V3.smul_x, V3.smul_y,
          V3.smul_z] at *
        linear_combination ((d.x * n.x + d.y * n.y + d.z * n.z) * (d.x * n.x + d.y * n.y + d.z * n.z)) * c22
      rw [hrej, ← hq, ← hz] at h2
      simp only [V3.dot_def] at h2
      linarith
    · have hz : (A.applyInv x).z = V3.dot (x - A.t) A.R.col2 := by
        unfold Pose.applyInv; simp [M3.tmulVec, V3.dot_comm]
      rw [hz]; exact h1

theorem GoodPt.congr {K K' : V → Prop} (h : ∀ x, K x ↔ K' x) {p : V} {r : PtRes ℝ}
    (hg : GoodPt K' p r) : GoodPt K p r :=
  ⟨(h _).mpr hg.1, hg.2.1, hg.2.2.1, fun x hx => hg.2.2.2 x ((h x).mp hx)⟩

/-- **`point_to_cylinder`** for an orthonormal pose, non-negative radius and length -/
theorem pointToCylinder_spec (p : V) (A : Pose ℝ) (r l : ℝ) (hR : Orthonormal A.R)
    (hr : 0 ≤ r) (hl : 0 ≤ l) :
    ∃ res, pointToCylinder p A r l = .ok res ∧ GoodPt (cylinderSet A r l) p res := by
  obtain ⟨res, h1, h2⟩ := pointToCylinder_axis p A r l hR.c22 hr hl
  exact ⟨res, h1, GoodPt.congr (cylinderSet_iff A r l hR) h2⟩

end DistPoly
end D3
