/-
Feasibility and optimality of the `_line.py` kernels at `α := ℝ`:
`_point_to_line`, `point_to_line_segment`, `_line_to_line`.
-/
import D3.Proofs.DistLineBasic

namespace D3
namespace DistLine

/-! ### `_point_to_line` -/

theorem pointToLineK_p (p lp ld : V) :
    (pointToLineK p lp ld).p = lp + (V3.dot ld (p - lp)) * ld := rfl

theorem pointToLineK_mem (p lp ld : V) : lineSet lp ld (pointToLineK p lp ld).p :=
  ⟨V3.dot ld (p - lp), rfl⟩

theorem pointToLineK_d (p lp ld : V) :
    (pointToLineK p lp ld).d = V3.norm (p - (pointToLineK p lp ld).p) := by
  have : p - lp - (V3.dot ld (p - lp)) * ld = p - (lp + (V3.dot ld (p - lp)) * ld) := by
    apply V3.ext' <;> simp only [V3.sub_x, V3.sub_y, V3.sub_z, V3.add_x, V3.add_y, V3.add_z] <;> ring
  show V3.norm (p - lp - (V3.dot ld (p - lp)) * ld) = _
  rw [this]; rfl

theorem pointToLineK_dist (p lp ld : V) :
    (pointToLineK p lp ld).d * (pointToLineK p lp ld).d = V3.normSq (p - (pointToLineK p lp ld).p) ∧
      0 ≤ (pointToLineK p lp ld).d := by
  rw [pointToLineK_d]; exact norm_dist _

/-- residual is orthogonal to the direction (needs `|ld| = 1`) -/
theorem pointToLineK_orth (p lp ld : V) (hu : UnitVec ld) :
    V3.dot (p - (pointToLineK p lp ld).p) ld = 0 := by
  rw [pointToLineK_p]
  unfold UnitVec at hu
  vsimp at hu
  vsimp
  linear_combination (-(ld.x * (p.x - lp.x) + ld.y * (p.y - lp.y) + ld.z * (p.z - lp.z))) * hu

theorem pointToLineK_opt (p lp ld : V) (hu : UnitVec ld) :
    LowerBound (pointSet p) (lineSet lp ld) (pointToLineK p lp ld).d := by
  apply lowerBound_of_variational (pointToLineK_dist p lp ld).1
  · intro x hx; rw [hx]
    vsimp; nlinarith
  · rintro y ⟨t, rfl⟩
    have h := pointToLineK_orth p lp ld hu
    have e : V3.dot (p - (pointToLineK p lp ld).p) (lp + t * ld - (pointToLineK p lp ld).p)
        = (t - V3.dot ld (p - lp)) * V3.dot (p - (pointToLineK p lp ld).p) ld := by
      rw [pointToLineK_p]; vsimp; ring
    rw [e, h]; simp

/-! ### `point_to_line_segment` -/

/-- characterisation of an `.ok` result -/
theorem pointToSegment_char {p a b : V} {r : PS ℝ} (h : pointToSegment p a b = .ok r) :
    V3.dot (b - a) (b - a) ≠ 0 ∧
    r.t = clamp01 (V3.dot (p - a) (b - a) / V3.dot (b - a) (b - a)) ∧
    r.p = a + r.t * (b - a) ∧ r.d = V3.norm (p - r.p) := by
  unfold pointToSegment at h
  simp only [bind, Except.bind, pure, Except.pure] at h
  split at h
  · cases h
  · rename_i q hq
    obtain ⟨hne, rfl⟩ := divC_eq_ok hq
    injection h with h
    subst h
    exact ⟨hne, rfl, rfl, rfl⟩

theorem pointToSegment_ok {p a b : V} (h : a ≠ b) : ∃ r, pointToSegment p a b = .ok r := by
  have hne : V3.dot (b - a) (b - a) ≠ 0 := by
    intro h0
    have := V3.normSq_eq_zero h0
    apply h
    have hx := congrArg V3.x this
    have hy := congrArg V3.y this
    have hz := congrArg V3.z this
    simp only [V3.sub_x, V3.sub_y, V3.sub_z] at hx hy hz
    exact V3.ext' (by linarith) (by linarith) (by linarith)
  unfold pointToSegment
  simp only [bind, Except.bind, pure, Except.pure]
  rw [divC_ok hne]
  exact ⟨_, rfl⟩

theorem pointToSegment_mem {p a b : V} {r : PS ℝ} (h : pointToSegment p a b = .ok r) :
    segmentSet a b r.p := by
  obtain ⟨_, ht, hp, _⟩ := pointToSegment_char h
  refine ⟨r.t, ?_, ?_, hp⟩
  · rw [ht]; exact (clamp01_mem _).1
  · rw [ht]; exact (clamp01_mem _).2

theorem pointToSegment_dist {p a b : V} {r : PS ℝ} (h : pointToSegment p a b = .ok r) :
    r.d * r.d = V3.normSq (p - r.p) ∧ 0 ≤ r.d := by
  obtain ⟨_, _, _, hd⟩ := pointToSegment_char h
  rw [hd]; exact norm_dist _

/-- the clamped projection satisfies the first-order condition on `[0,1]` -/
theorem pointToSegment_kkt {p a b : V} {r : PS ℝ} (h : pointToSegment p a b = .ok r) :
    KKT01 r.t (-(V3.dot (p - r.p) (b - a))) := by
  obtain ⟨hne, ht, hp, _⟩ := pointToSegment_char h
  have ha : 0 < V3.dot (b - a) (b - a) :=
    lt_of_le_of_ne (V3.normSq_nonneg (b - a)) (Ne.symm hne)
  have key := kkt01_clamp (a := V3.dot (b - a) (b - a)) (g0 := -(V3.dot (p - a) (b - a))) ha
  rw [neg_neg, ← ht] at key
  have e : -(V3.dot (p - r.p) (b - a)) = -(V3.dot (p - a) (b - a)) + V3.dot (b - a) (b - a) * r.t := by
    rw [hp]; vsimp; ring
  rw [e]; exact key

theorem pointToSegment_opt {p a b : V} {r : PS ℝ} (h : pointToSegment p a b = .ok r) :
    LowerBound (pointSet p) (segmentSet a b) r.d := by
  apply lowerBound_of_variational (pointToSegment_dist h).1
  · intro x hx; rw [hx]
    vsimp; nlinarith
  · rintro y ⟨t', h0, h1, rfl⟩
    have k := pointToSegment_kkt h t' h0 h1
    obtain ⟨_, _, hp, _⟩ := pointToSegment_char h
    have e : V3.dot (p - r.p) (a + t' * (b - a) - r.p) = (t' - r.t) * V3.dot (p - r.p) (b - a) := by
      rw [hp]; vsimp; ring
    rw [e]; nlinarith

/-! ### `_line_to_line` -/

/-- `det = 1 − (d₁·d₂)²` as the code computes it -/
def llDet (ld1 ld2 : V) : ℝ := 1 - -(V3.dot ld1 ld2) * -(V3.dot ld1 ld2)

/-- characterisation of an `.ok` result of `_line_to_line` -/
theorem lineToLineK_char {lp1 ld1 lp2 ld2 : V} {eps : ℝ} {r : Res ℝ}
    (h : lineToLineK lp1 ld1 lp2 ld2 eps = .ok r) :
    let a12 := -(V3.dot ld1 ld2)
    let b1 := V3.dot ld1 (lp1 - lp2)
    let b2 := -(V3.dot ld2 (lp1 - lp2))
    let c := V3.dot (lp1 - lp2) (lp1 - lp2)
    (r.br = 0 ∧ eps ≤ |llDet ld1 ld2| ∧ llDet ld1 ld2 ≠ 0 ∧
      r.t1 = (a12 * b2 - b1) / llDet ld1 ld2 ∧ r.t2 = (a12 * b1 - b2) / llDet ld1 ld2 ∧
      r.p1 = lp1 + r.t1 * ld1 ∧ r.p2 = lp2 + r.t2 * ld2 ∧
      r.d = Real.sqrt |r.t1 * (r.t1 + a12 * r.t2 + 2 * b1) + r.t2 * (a12 * r.t1 + r.t2 + 2 * b2) + c|) ∨
    (r.br = 1 ∧ |llDet ld1 ld2| < eps ∧ r.t1 = -b1 ∧ r.t2 = 0 ∧
      r.p1 = lp1 + r.t1 * ld1 ∧ r.p2 = lp2 ∧ r.d = Real.sqrt |b1 * r.t1 + c|) := by
  intro a12 b1 b2 c
  unfold lineToLineK at h
  simp only [bind, Except.bind, pure, Except.pure, absS_real, sqrt_real] at h
  split at h
  · rename_i hge
    left
    split at h
    · cases h
    · rename_i t1 ht1
      obtain ⟨hne, rfl⟩ := divC_eq_ok ht1
      split at h
      · cases h
      · rename_i t2 ht2
        obtain ⟨_, rfl⟩ := divC_eq_ok ht2
        injection h with h
        subst h
        exact ⟨rfl, hge, hne, rfl, rfl, rfl, rfl, rfl⟩
  · rename_i hlt
    right
    injection h with h
    subst h
    exact ⟨rfl, not_le.mp hlt, rfl, rfl, rfl, rfl, rfl⟩

theorem lineToLineK_ok (lp1 ld1 lp2 ld2 : V) {eps : ℝ} (he : 0 < eps) :
    ∃ r, lineToLineK lp1 ld1 lp2 ld2 eps = .ok r := by
  unfold lineToLineK
  simp only [bind, Except.bind, pure, Except.pure, absS_real]
  split
  · rename_i hge
    have hne : (1 : ℝ) - -(V3.dot ld1 ld2) * -(V3.dot ld1 ld2) ≠ 0 := by
      intro h0; rw [h0, abs_zero] at hge; linarith
    rw [divC_ok hne, divC_ok hne]
    exact ⟨_, rfl⟩
  · exact ⟨_, rfl⟩

theorem lineToLineK_mem₁ {lp1 ld1 lp2 ld2 : V} {eps : ℝ} {r : Res ℝ}
    (h : lineToLineK lp1 ld1 lp2 ld2 eps = .ok r) : lineSet lp1 ld1 r.p1 := by
  rcases lineToLineK_char h with ⟨_, _, _, _, _, hp, _⟩ | ⟨_, _, _, _, hp, _⟩ <;> exact ⟨r.t1, hp⟩

theorem lineToLineK_mem₂ {lp1 ld1 lp2 ld2 : V} {eps : ℝ} {r : Res ℝ}
    (h : lineToLineK lp1 ld1 lp2 ld2 eps = .ok r) : lineSet lp2 ld2 r.p2 := by
  rcases lineToLineK_char h with ⟨_, _, _, _, _, _, hp, _⟩ | ⟨_, _, _, ht, _, hp, _⟩
  · exact ⟨r.t2, hp⟩
  · refine ⟨0, ?_⟩
    rw [hp]; apply V3.ext' <;> simp

/-- the closed form of `dist_squared` is the squared distance of the returned points
(needs unit directions) -/
theorem ll_distSq_eq {lp1 ld1 lp2 ld2 : V} (hu1 : UnitVec ld1) (hu2 : UnitVec ld2) (t1 t2 : ℝ) :
    t1 * (t1 + -(V3.dot ld1 ld2) * t2 + 2 * V3.dot ld1 (lp1 - lp2)) +
      t2 * (-(V3.dot ld1 ld2) * t1 + t2 + 2 * -(V3.dot ld2 (lp1 - lp2))) +
      V3.dot (lp1 - lp2) (lp1 - lp2) = V3.normSq ((lp1 + t1 * ld1) - (lp2 + t2 * ld2)) := by
  unfold UnitVec at hu1 hu2
  vsimp at hu1
  vsimp at hu2
  vsimp
  linear_combination (-(t1 * t1)) * hu1 + (-(t2 * t2)) * hu2

theorem lineToLineK_dist {lp1 ld1 lp2 ld2 : V} {eps : ℝ} {r : Res ℝ}
    (h : lineToLineK lp1 ld1 lp2 ld2 eps = .ok r) (hu1 : UnitVec ld1) (hu2 : UnitVec ld2) :
    r.d * r.d = V3.normSq (r.p1 - r.p2) ∧ 0 ≤ r.d := by
  rcases lineToLineK_char h with ⟨_, _, _, _, _, hp1, hp2, hd⟩ | ⟨_, _, ht1, ht2, hp1, hp2, hd⟩
  · rw [hd, ll_distSq_eq hu1 hu2, abs_of_nonneg (V3.normSq_nonneg _), hp1, hp2]
    exact ⟨Real.mul_self_sqrt (V3.normSq_nonneg _), Real.sqrt_nonneg _⟩
  · have e : V3.dot ld1 (lp1 - lp2) * r.t1 + V3.dot (lp1 - lp2) (lp1 - lp2)
        = V3.normSq ((lp1 + r.t1 * ld1) - lp2) := by
      rw [ht1]
      unfold UnitVec at hu1
      vsimp at hu1
      vsimp
      linear_combination
        (-(ld1.x * (lp1.x - lp2.x) + ld1.y * (lp1.y - lp2.y) + ld1.z * (lp1.z - lp2.z)) ^ 2) * hu1
    rw [hd, e, abs_of_nonneg (V3.normSq_nonneg _), hp1, hp2]
    exact ⟨Real.mul_self_sqrt (V3.normSq_nonneg _), Real.sqrt_nonneg _⟩

/-- orthogonality of the connecting vector to both directions, in both branches
(the parallel branch needs **exact** parallelism `det = 0`) -/
theorem lineToLineK_orth {lp1 ld1 lp2 ld2 : V} {eps : ℝ} {r : Res ℝ}
    (h : lineToLineK lp1 ld1 lp2 ld2 eps = .ok r) (hu1 : UnitVec ld1) (hu2 : UnitVec ld2)
    (hband : eps ≤ |llDet ld1 ld2| ∨ llDet ld1 ld2 = 0) :
    V3.dot (r.p1 - r.p2) ld1 = 0 ∧ V3.dot (r.p1 - r.p2) ld2 = 0 := by
  unfold UnitVec at hu1 hu2
  rcases lineToLineK_char h with ⟨_, _, hne, ht1, ht2, hp1, hp2, _⟩ | ⟨_, hlt, ht1, ht2, hp1, hp2, _⟩
  · rw [hp1, hp2]
    have e1 : V3.dot (lp1 + r.t1 * ld1 - (lp2 + r.t2 * ld2)) ld1
        = V3.dot ld1 (lp1 - lp2) + r.t1 * V3.dot ld1 ld1 - r.t2 * V3.dot ld1 ld2 := by vsimp; ring
    have e2 : V3.dot (lp1 + r.t1 * ld1 - (lp2 + r.t2 * ld2)) ld2
        = V3.dot ld2 (lp1 - lp2) + r.t1 * V3.dot ld1 ld2 - r.t2 * V3.dot ld2 ld2 := by vsimp; ring
    rw [e1, e2, hu1, hu2]
    have hD : llDet ld1 ld2 = 1 - V3.dot ld1 ld2 * V3.dot ld1 ld2 := by unfold llDet; ring
    have h1 : r.t1 * llDet ld1 ld2
        = -(V3.dot ld1 ld2) * -(V3.dot ld2 (lp1 - lp2)) - V3.dot ld1 (lp1 - lp2) := by
      rw [ht1]; field_simp
    have h2 : r.t2 * llDet ld1 ld2
        = -(V3.dot ld1 ld2) * V3.dot ld1 (lp1 - lp2) - -(V3.dot ld2 (lp1 - lp2)) := by
      rw [ht2]; field_simp
    constructor
    · apply mul_right_cancel₀ hne
      linear_combination h1 - V3.dot ld1 ld2 * h2 + V3.dot ld1 (lp1 - lp2) * hD
    · apply mul_right_cancel₀ hne
      linear_combination V3.dot ld1 ld2 * h1 - h2 + V3.dot ld2 (lp1 - lp2) * hD
  · have hdet : llDet ld1 ld2 = 0 := by
      rcases hband with hb | hb
      · linarith
      · exact hb
    -- exact parallelism: d₂ = (d₁·d₂) d₁
    have hpar : V3.normSq (ld2 - (V3.dot ld1 ld2) * ld1) = 0 := by
      unfold llDet at hdet
      have : V3.normSq (ld2 - (V3.dot ld1 ld2) * ld1)
          = V3.dot ld2 ld2 - 2 * (V3.dot ld1 ld2) * (V3.dot ld1 ld2)
            + (V3.dot ld1 ld2) * (V3.dot ld1 ld2) * V3.dot ld1 ld1 := by vsimp; ring
      rw [this, hu1, hu2]; linarith
    have hz := V3.normSq_eq_zero hpar
    have hx := congrArg V3.x hz
    have hy := congrArg V3.y hz
    have hzz := congrArg V3.z hz
    simp only [V3.sub_x, V3.sub_y, V3.sub_z, V3.smul_x, V3.smul_y, V3.smul_z] at hx hy hzz
    have o1 : V3.dot (r.p1 - r.p2) ld1 = 0 := by
      rw [hp1, hp2, ht1]
      have : V3.dot (lp1 + -(V3.dot ld1 (lp1 - lp2)) * ld1 - lp2) ld1
          = V3.dot ld1 (lp1 - lp2) * (1 - V3.dot ld1 ld1) := by vsimp; ring
      rw [this, hu1]; ring
    refine ⟨o1, ?_⟩
    have : V3.dot (r.p1 - r.p2) ld2 = (V3.dot ld1 ld2) * V3.dot (r.p1 - r.p2) ld1 := by
      have ex : ld2.x = V3.dot ld1 ld2 * ld1.x := by linarith
      have ey : ld2.y = V3.dot ld1 ld2 * ld1.y := by linarith
      have ez : ld2.z = V3.dot ld1 ld2 * ld1.z := by linarith
      rw [V3.dot_def (r.p1 - r.p2) ld2, ex, ey, ez, V3.dot_def (r.p1 - r.p2) ld1]; ring
    rw [this, o1]; ring

theorem lineToLineK_opt {lp1 ld1 lp2 ld2 : V} {eps : ℝ} {r : Res ℝ}
    (h : lineToLineK lp1 ld1 lp2 ld2 eps = .ok r) (hu1 : UnitVec ld1) (hu2 : UnitVec ld2)
    (hband : eps ≤ |llDet ld1 ld2| ∨ llDet ld1 ld2 = 0) :
    LowerBound (lineSet lp1 ld1) (lineSet lp2 ld2) r.d := by
  obtain ⟨o1, o2⟩ := lineToLineK_orth h hu1 hu2 hband
  obtain ⟨s1, hs1⟩ := lineToLineK_mem₁ h
  obtain ⟨s2, hs2⟩ := lineToLineK_mem₂ h
  apply lowerBound_of_variational (lineToLineK_dist h hu1 hu2).1
  · rintro x ⟨t, rfl⟩
    have e : V3.dot (r.p1 - r.p2) (lp1 + t * ld1 - r.p1) = (t - s1) * V3.dot (r.p1 - r.p2) ld1 := by
      rw [V3.dot_def, V3.dot_def]
      simp only [V3.sub_x, V3.sub_y, V3.sub_z, V3.add_x, V3.add_y, V3.add_z, V3.smul_x, V3.smul_y,
        V3.smul_z]
      rw [hs1]
      simp only [V3.add_x, V3.add_y, V3.add_z, V3.smul_x, V3.smul_y, V3.smul_z]
      ring
    rw [e, o1]; simp
  · rintro y ⟨t, rfl⟩
    have e : V3.dot (r.p1 - r.p2) (lp2 + t * ld2 - r.p2) = (t - s2) * V3.dot (r.p1 - r.p2) ld2 := by
      rw [V3.dot_def, V3.dot_def]
      simp only [V3.sub_x, V3.sub_y, V3.sub_z, V3.add_x, V3.add_y, V3.add_z, V3.smul_x, V3.smul_y,
        V3.smul_z]
      rw [hs2]
      simp only [V3.add_x, V3.add_y, V3.add_z, V3.smul_x, V3.smul_y, V3.smul_z]
      ring
    rw [e, o2]; simp

end DistLine
end D3
