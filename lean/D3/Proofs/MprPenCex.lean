/-
The concrete scene behind `segment_contact_asIs_counterexample` (finding F-mpr-segment-contact):
two nested balls with their exact support mappings; the faithful model of `mpr_penetration`
leaves through `ORIGIN_ON_V0V1_SEGMENT` and reports a contact position outside collider 2.
-/
import D3.Proofs.MprPenTop

set_option linter.unusedSectionVars false
set_option linter.unusedVariables false

namespace D3
namespace MprPen
namespace Cex

/-- closed ball -/
def ball (c : V) (ρ : ℝ) : V → Prop := fun x => V3.normSq (x - c) ≤ ρ * ρ

def c1 : V := ⟨0, 0, 0⟩
def c2 : V := ⟨1, 0, 0⟩
def A : V → Prop := ball c1 4
def B : V → Prop := ball c2 (1 / 4)

/-- exact sphere support mappings: `collider1.support_function(d)`, `collider2.support_function(-d)` -/
noncomputable def sup : Sup ℝ := fun d => (c1 + (4 : ℝ) * normVector d, c2 + (1 / 4 : ℝ) * normVector (-d))

theorem normSq_sub_le {x c : V} {ρ : ℝ} (hρ : 0 ≤ ρ) (h : V3.normSq (x - c) ≤ ρ * ρ) :
    V3.norm (x - c) ≤ ρ := by
  rw [V3.norm_def]
  calc Real.sqrt (V3.normSq (x - c)) ≤ Real.sqrt (ρ * ρ) := Real.sqrt_le_sqrt h
    _ = ρ := Real.sqrt_mul_self hρ

theorem ball_support (c : V) (ρ : ℝ) (hρ : 0 ≤ ρ) (d : V) :
    IsSupport (ball c ρ) d (c + ρ * normVector d) := by
  by_cases hd : d = V3.zero
  · rw [hd, normVector_of_zero]
    refine ⟨?_, ?_⟩
    · show V3.normSq (c + ρ * (V3.zero : V) - c) ≤ ρ * ρ
      simp only [V3.normSq_def, add_def, sub_def, hsmul_def, zero_def]
      nlinarith [mul_self_nonneg ρ]
    · intro x _
      simp [V3.dot_def, zero_def]
  · have hu := normVector_unit hd
    have hp := norm_pos_of_ne hd
    refine ⟨?_, ?_⟩
    · show V3.normSq (c + ρ * normVector d - c) ≤ ρ * ρ
      have : V3.normSq (c + ρ * normVector d - c) = ρ * ρ * V3.normSq (normVector d) := by
        simp only [V3.normSq_def, add_def, sub_def, hsmul_def]; ring
      rw [this, hu]; linarith
    · intro x hx
      have h1 : V3.dot d (x - c) ≤ V3.norm d * V3.norm (x - c) := V3.dot_le_norm_mul _ _
      have h2 : V3.norm (x - c) ≤ ρ := normSq_sub_le hρ hx
      have h3 : V3.dot d (normVector d) = V3.norm d := by
        rw [dot_normVector hd]
        have := V3.norm_sq d
        rw [normSq_eq_dot] at this
        field_simp
        linarith
      have h4 : V3.norm d * V3.norm (x - c) ≤ V3.norm d * ρ := by nlinarith
      simp only [V3.dot_def, add_def, sub_def, hsmul_def] at *
      nlinarith

theorem supOK : SupOK A B sup := by
  intro d
  exact ⟨ball_support c1 4 (by norm_num) d, ball_support c2 (1 / 4) (by norm_num) (-d)⟩

theorem convex_ball (c : V) (ρ : ℝ) : ConvexSet (ball c ρ) := by
  intro x y hx hy s hs hs1
  show V3.normSq (s * x + (1 - s) * y - c) ≤ ρ * ρ
  have key : V3.normSq (s * x + (1 - s) * y - c) =
      s * V3.normSq (x - c) + (1 - s) * V3.normSq (y - c) - s * (1 - s) * V3.normSq (x - y) := by
    simp only [V3.normSq_def, add_def, sub_def, hsmul_def]; ring
  have h1 : V3.normSq (x - c) ≤ ρ * ρ := hx
  have h2 : V3.normSq (y - c) ≤ ρ * ρ := hy
  have h3 := V3.normSq_nonneg (x - y)
  have h4 : 0 ≤ s * (1 - s) := mul_nonneg hs (by linarith)
  rw [key]
  nlinarith [mul_nonneg h4 h3, mul_le_mul_of_nonneg_left h1 hs,
    mul_le_mul_of_nonneg_left h2 (by linarith : (0 : ℝ) ≤ 1 - s)]

theorem convexA : ConvexSet A := convex_ball _ _
theorem convexB : ConvexSet B := convex_ball _ _

theorem c1_mem : A c1 := by
  show V3.normSq (c1 - c1) ≤ 4 * 4
  simp [V3.normSq_def, sub_def]

theorem c2_mem : B c2 := by
  show V3.normSq (c2 - c2) ≤ 1 / 4 * (1 / 4)
  simp only [V3.normSq_def, sub_def]; norm_num

/-- `norm_vector` of a positive multiple of the x axis -/
theorem normVector_ex (t : ℝ) (ht : 0 < t) : normVector (⟨t, 0, 0⟩ : V) = ⟨1, 0, 0⟩ := by
  have hne : (⟨t, 0, 0⟩ : V) ≠ V3.zero := by
    intro h; have := congrArg V3.x h; simp [zero_def] at this; linarith
  have hn : V3.norm (⟨t, 0, 0⟩ : V) = t := by
    rw [V3.norm_def]
    have : V3.normSq (⟨t, 0, 0⟩ : V) = t * t := by simp [V3.normSq_def]
    rw [this]; exact Real.sqrt_mul_self ht.le
  rw [normVector_of_ne hne, hn]
  apply V3.ext' <;> simp [sdiv_def, ne_of_gt ht]

theorem normVector_ex_neg (t : ℝ) (ht : 0 < t) : normVector (⟨-t, -0, -0⟩ : V) = ⟨-1, 0, 0⟩ := by
  have hne : (⟨-t, -0, -0⟩ : V) ≠ V3.zero := by
    intro h; have := congrArg V3.x h; simp [zero_def] at this; linarith
  have hn : V3.norm (⟨-t, -0, -0⟩ : V) = t := by
    rw [V3.norm_def]
    have : V3.normSq (⟨-t, -0, -0⟩ : V) = t * t := by simp [V3.normSq_def]
    rw [this]; exact Real.sqrt_mul_self ht.le
  rw [normVector_of_ne hne, hn]
  apply V3.ext' <;> simp [sdiv_def, ne_of_gt ht]

/-- rows 0 and 1 of the portal -/
def p0 : SP ℝ := ⟨⟨-1, 0, 0⟩, c1, c2⟩
noncomputable def p1 : SP ℝ := ⟨⟨13 / 4, 0, 0⟩, ⟨4, 0, 0⟩, ⟨3 / 4, 0, 0⟩⟩

theorem origin_ray : findOriginRay c1 c2 = (p0, false) := by
  unfold findOriginRay
  have hnz : ¬ vecIsZero (makeSupportPoint c1 c2).v := by
    rw [vecIsZero_iff]
    intro h
    have := congrArg V3.x h
    simp [makeSupportPoint, c1, c2, sub_def, zero_def] at this
  simp only [hnz, if_false]
  simp [makeSupportPoint, p0, c1, c2, sub_def]

theorem first_dir : normVector (-p0.v) = ⟨1, 0, 0⟩ := by
  have : -p0.v = (⟨1, 0, 0⟩ : V) := by
    apply V3.ext' <;> simp [p0, neg_def]
  rw [this]
  exact normVector_ex 1 (by norm_num)

theorem first_support : supportFn sup ⟨1, 0, 0⟩ = p1 := by
  unfold supportFn sup makeSupportPoint
  have h1 := normVector_ex 1 (by norm_num)
  have h2 : normVector (-(⟨1, 0, 0⟩ : V)) = ⟨-1, 0, 0⟩ := by
    have := normVector_ex_neg 1 (by norm_num)
    simpa [neg_def] using this
  simp only [h1, h2]
  simp only [p1, c1, c2, add_def, sub_def, hsmul_def]
  norm_num

theorem discover (maxIter : ℕ) :
    discoverPortal sup c1 c2 maxIter = (.onSegment, ⟨p0, p1, SP.zero, SP.zero⟩, 0) := by
  have hE := EPS_pos
  unfold discoverPortal
  simp only [origin_ray]
  unfold findSupportOriginRay
  simp only [first_dir, first_support]
  have hnz : ¬ vecIsZero p1.v := by
    rw [vecIsZero_iff]
    intro h
    have := congrArg V3.x h
    simp [p1, zero_def] at this
  have hdot : ¬ V3.dot p1.v (⟨1, 0, 0⟩ : V) < EPS := by
    have : V3.dot p1.v (⟨1, 0, 0⟩ : V) = 13 / 4 := by simp [V3.dot_def, p1]
    rw [this]
    have : (EPS : ℝ) < 1 := by unfold EPS D3.Gen.utils__EPSILON; norm_num
    linarith
  simp only [hnz, hdot, not_false_eq_true, decide_true, decide_false, Bool.and_false, Bool.false_eq_true,
    if_false]
  unfold findSupportPerp
  have hcross : V3.dot (V3.cross p0.v p1.v) (V3.cross p0.v p1.v) < EPS := by
    have : V3.dot (V3.cross p0.v p1.v) (V3.cross p0.v p1.v) = 0 := by
      simp [V3.dot_def, cross_def, p0, p1]
    rw [this]; exact hE
  simp only [hcross, if_true, hnz, if_false]

theorem far_from_B (b : V) (hb : B b) : 9 / 8 ≤ V3.norm ((⟨19 / 8, 0, 0⟩ : V) - b) := by
  have hunit : V3.normSq (⟨1, 0, 0⟩ : V) = 1 := by simp [V3.normSq_def]
  have h1 := dot_le_norm_of_unit (x := (⟨19 / 8, 0, 0⟩ : V) - b) hunit
  have hbx : (b.x - 1) * (b.x - 1) ≤ 1 / 16 := by
    have : V3.normSq (b - c2) ≤ 1 / 4 * (1 / 4) := hb
    simp only [V3.normSq_def, sub_def, c2] at this
    nlinarith [mul_self_nonneg (b.y - 0), mul_self_nonneg (b.z - 0)]
  have hbx2 : b.x ≤ 5 / 4 := by nlinarith
  have hd : V3.dot ((⟨19 / 8, 0, 0⟩ : V) - b) (⟨1, 0, 0⟩ : V) = 19 / 8 - b.x := by
    simp [V3.dot_def, sub_def]
  rw [hd] at h1
  linarith

theorem run (tol : ℝ) (maxIter fuel : ℕ) : ∃ (res : PenRes ℝ) (i : PenInfo ℝ),
    mprPenetration sup c1 c2 tol maxIter fuel = .ok res ∧ res.inter = true ∧
    res.info = some i ∧ i.exit = 3 ∧ i.depth = 13 / 4 ∧ i.dir = ⟨1, 0, 0⟩ ∧
    i.pos = ⟨19 / 8, 0, 0⟩ ∧ ∀ b, B b → 9 / 8 ≤ V3.norm (i.pos - b) := by
  have hdepth : V3.norm p1.v = 13 / 4 := by
    rw [V3.norm_def]
    have : V3.normSq p1.v = 13 / 4 * (13 / 4) := by simp [V3.normSq_def, p1]
    rw [this]; exact Real.sqrt_mul_self (by norm_num)
  have hdir : normVector p1.v = ⟨1, 0, 0⟩ := normVector_ex (13 / 4) (by norm_num)
  have hpos : V3.smul 0.5 (p1.a + p1.b) = (⟨19 / 8, 0, 0⟩ : V) := by
    apply V3.ext' <;> simp only [smul_def, add_def, p1, half_real] <;> norm_num
  refine ⟨⟨true, .onSegment, some (specialInfo (findPenetrationSegment p1) 3 ⟨p0, p1, SP.zero, SP.zero⟩), 0⟩,
    specialInfo (findPenetrationSegment p1) 3 ⟨p0, p1, SP.zero, SP.zero⟩, ?_, rfl, rfl, rfl, ?_, ?_, ?_, ?_⟩
  · unfold mprPenetration
    simp only [discover]
  · simp only [specialInfo, findPenetrationSegment]; exact hdepth
  · simp only [specialInfo, findPenetrationSegment]; exact hdir
  · simp only [specialInfo, findPenetrationSegment]; exact hpos
  · intro b hb
    simp only [specialInfo, findPenetrationSegment]
    rw [hpos]; exact far_from_B b hb

end Cex
end MprPen
end D3
