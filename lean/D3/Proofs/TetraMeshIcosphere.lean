/-
Geometric invariant of the icosphere subdivision of `make_triangular_icosphere`, for every
subdivision order: all three pairwise dot products of the corners of every triangle are positive.
The python code (and the model `icoMidpoints`) stores the *unnormalised* midpoint
`0.5 * (vertices[a] + vertices[b])` and normalises all rows once at the end, so the only division
is by the norm of each final row; the invariant shows no midpoint of a triangle edge is the zero
vector.  The subdivision here (`geoIco`) works on triangles of position vectors, without the index /
midpoint-cache bookkeeping of `icoTopology`; the identification of the two is not proved.
-/
import D3.Proofs.TetraMeshRound

namespace D3
namespace TetraMesh

/-- a triangle of position vectors -/
abbrev GeoTri := V3 ℝ × V3 ℝ × V3 ℝ

/-- all three pairwise dot products of the corners are positive (in particular no two corners are
antipodal and no corner is zero) -/
def PosDots (t : GeoTri) : Prop :=
  0 < V3.dot t.1 t.2.1 ∧ 0 < V3.dot t.2.1 t.2.2 ∧ 0 < V3.dot t.2.2 t.1

/-- `0.5 * (vertices[a] + vertices[b])` -/
def geoMid (a b : V3 ℝ) : V3 ℝ := (0.5 : ℝ) * (a + b)

/-- the four sub-triangles, in the order of the python loop body -/
def geoSubdivide (t : GeoTri) : List GeoTri :=
  [(t.1, geoMid t.1 t.2.1, geoMid t.2.2 t.1),
   (t.2.1, geoMid t.2.1 t.2.2, geoMid t.1 t.2.1),
   (t.2.2, geoMid t.2.2 t.1, geoMid t.2.1 t.2.2),
   (geoMid t.1 t.2.1, geoMid t.2.1 t.2.2, geoMid t.2.2 t.1)]

/-- the 20 faces of the model's icosahedron as position triangles -/
noncomputable def geoIco0 : List GeoTri :=
  icoTriangles0.map fun t =>
    ((icoVertices0 : List (V3 ℝ)).getD t.1 V3.zero, (icoVertices0 : List (V3 ℝ)).getD t.2.1 V3.zero,
      (icoVertices0 : List (V3 ℝ)).getD t.2.2 V3.zero)

/-- `order` subdivision passes -/
noncomputable def geoIco (order : Nat) : List GeoTri :=
  Nat.repeat (fun ts => ts.flatMap geoSubdivide) order geoIco0

theorem dot_comm' (a b : V3 ℝ) : V3.dot a b = V3.dot b a := by
  simp only [V3.dot_def]; ring

theorem dot_self_nonneg' (a : V3 ℝ) : 0 ≤ V3.dot a a := by
  simp only [V3.dot_def]; nlinarith [mul_self_nonneg a.x, mul_self_nonneg a.y, mul_self_nonneg a.z]

theorem dot_geoMid_left (a b c : V3 ℝ) :
    V3.dot (geoMid a b) c = (V3.dot a c + V3.dot b c) / 2 := by
  simp only [V3.dot_def, geoMid, V3.smul_x, V3.smul_y, V3.smul_z, V3.add_x, V3.add_y, V3.add_z]
  norm_num; ring

theorem dot_geoMid_right (a b c : V3 ℝ) :
    V3.dot c (geoMid a b) = (V3.dot c a + V3.dot c b) / 2 := by
  rw [dot_comm', dot_geoMid_left, dot_comm' a c, dot_comm' b c]

/-- the midpoint of two vectors with positive dot product is not the zero vector -/
theorem geoMid_normSq_pos (a b : V3 ℝ) (h : 0 < V3.dot a b) : 0 < V3.normSq (geoMid a b) := by
  have e : V3.normSq (geoMid a b) = V3.dot (geoMid a b) (geoMid a b) := rfl
  rw [e, dot_geoMid_left, dot_geoMid_right, dot_geoMid_right]
  linarith [dot_comm' a b, dot_self_nonneg' a, dot_self_nonneg' b]

/-- **inductive step**: the four sub-triangles of a triangle with positive pairwise dot products
again have positive pairwise dot products -/
theorem geoSubdivide_posDots (t : GeoTri) (h : PosDots t) : ∀ s ∈ geoSubdivide t, PosDots s := by
  obtain ⟨v1, v2, v3⟩ := t
  obtain ⟨h12, h23, h31⟩ := h
  simp only at h12 h23 h31
  have c12 := dot_comm' v1 v2
  have c23 := dot_comm' v2 v3
  have c31 := dot_comm' v3 v1
  have n1 := dot_self_nonneg' v1
  have n2 := dot_self_nonneg' v2
  have n3 := dot_self_nonneg' v3
  intro s hs
  simp only [geoSubdivide, List.mem_cons, List.not_mem_nil, or_false] at hs
  rcases hs with rfl | rfl | rfl | rfl <;>
    (simp only [PosDots, dot_geoMid_left, dot_geoMid_right]
     refine ⟨?_, ?_, ?_⟩ <;> linarith)

theorem goldenF_sqrt_sq : sqrt (5.0 : ℝ) * sqrt (5.0 : ℝ) = 5 := by
  have h : Real.sqrt 5 * Real.sqrt 5 = 5 := Real.mul_self_sqrt (by norm_num)
  have e : (5.0 : ℝ) = 5 := by norm_num
  rw [e]; exact h

theorem goldenF_pos : 0 < (goldenF : ℝ) := by
  have h : (0 : ℝ) ≤ sqrt (5.0 : ℝ) := Real.sqrt_nonneg _
  unfold goldenF; linarith

theorem goldenF_sq : (goldenF : ℝ) * goldenF = goldenF + 1 := by
  have h := goldenF_sqrt_sq
  unfold goldenF; linear_combination (1 / 4 : ℝ) * h

theorem icoV_0 : (icoVertices0 : List (V3 ℝ)).getD 0 V3.zero = ⟨-1, goldenF, 0⟩ := rfl
theorem icoV_1 : (icoVertices0 : List (V3 ℝ)).getD 1 V3.zero = ⟨1, goldenF, 0⟩ := rfl
theorem icoV_2 : (icoVertices0 : List (V3 ℝ)).getD 2 V3.zero = ⟨-1, -goldenF, 0⟩ := rfl
theorem icoV_3 : (icoVertices0 : List (V3 ℝ)).getD 3 V3.zero = ⟨1, -goldenF, 0⟩ := rfl
theorem icoV_4 : (icoVertices0 : List (V3 ℝ)).getD 4 V3.zero = ⟨0, -1, goldenF⟩ := rfl
theorem icoV_5 : (icoVertices0 : List (V3 ℝ)).getD 5 V3.zero = ⟨0, 1, goldenF⟩ := rfl
theorem icoV_6 : (icoVertices0 : List (V3 ℝ)).getD 6 V3.zero = ⟨0, -1, -goldenF⟩ := rfl
theorem icoV_7 : (icoVertices0 : List (V3 ℝ)).getD 7 V3.zero = ⟨0, 1, -goldenF⟩ := rfl
theorem icoV_8 : (icoVertices0 : List (V3 ℝ)).getD 8 V3.zero = ⟨goldenF, 0, -1⟩ := rfl
theorem icoV_9 : (icoVertices0 : List (V3 ℝ)).getD 9 V3.zero = ⟨goldenF, 0, 1⟩ := rfl
theorem icoV_10 : (icoVertices0 : List (V3 ℝ)).getD 10 V3.zero = ⟨-goldenF, 0, -1⟩ := rfl
theorem icoV_11 : (icoVertices0 : List (V3 ℝ)).getD 11 V3.zero = ⟨-goldenF, 0, 1⟩ := rfl

/-- **base case**: on each of the 20 faces of the icosahedron the pairwise dot products of the
corners are positive (they all equal the golden ratio `f`, using `f² = f + 1`) -/
theorem geoIco0_posDots : ∀ t ∈ geoIco0, PosDots t := by
  have fp := goldenF_pos
  have fs := goldenF_sq
  intro t ht
  simp only [geoIco0, icoTriangles0, List.map_cons, List.map_nil, List.mem_cons, List.not_mem_nil,
    or_false] at ht
  rcases ht with rfl | rfl | rfl | rfl | rfl | rfl | rfl | rfl | rfl | rfl | rfl | rfl | rfl | rfl |
      rfl | rfl | rfl | rfl | rfl | rfl <;>
    (simp only [PosDots, icoV_0, icoV_1, icoV_2, icoV_3, icoV_4, icoV_5, icoV_6, icoV_7, icoV_8,
       icoV_9, icoV_10, icoV_11, V3.dot_def]
     refine ⟨?_, ?_, ?_⟩ <;> nlinarith)

/-- **all orders**: after any number of subdivision passes every triangle has positive pairwise dot
products of its corners -/
theorem geoIco_posDots : ∀ order, ∀ t ∈ geoIco order, PosDots t
  | 0 => geoIco0_posDots
  | order + 1 => by
    intro t ht
    have e : geoIco (order + 1) = (geoIco order).flatMap geoSubdivide := rfl
    rw [e, List.mem_flatMap] at ht
    obtain ⟨s, hs, hts⟩ := ht
    exact geoSubdivide_posDots s (geoIco_posDots order s hs) t hts

theorem geoIco_length : ∀ order, (geoIco order).length = 20 * 4 ^ order
  | 0 => rfl
  | order + 1 => by
    have e : geoIco (order + 1) = (geoIco order).flatMap geoSubdivide := rfl
    have h4 : ∀ l : List GeoTri, (l.flatMap geoSubdivide).length = 4 * l.length := by
      intro l
      induction l with
      | nil => rfl
      | cons a l ih => rw [List.flatMap_cons, List.length_append, ih]; simp [geoSubdivide]; ring
    rw [e, h4, geoIco_length order, pow_succ]; ring

/-- **last step of the factory, any order**: if the midpoint pass returns exactly the allocated
number of rows and every row is non-zero, the final normalisation divides by no zero and
`make_tetrahedral_sphere` returns a mesh -/
theorem sphere_defined_of_rows_pos (r : ℝ) (hr : 0 < r) (order : Nat) (vs : List (V3 ℝ))
    (hv : (icoTopology order).2.v ≤ icoVertexCount order)
    (hm : icoMidpoints (icoVertices0 : List (V3 ℝ)) (icoTopology order).2.parents = .ok vs)
    (hlen : vs.length = icoVertexCount order) (hpos : ∀ p ∈ vs, 0 < V3.normSq p) :
    ∃ m, makeTetrahedralSphere r order = .ok m := by
  obtain ⟨ws, hws⟩ := mapM_ok_of_forall (normalizeRow r) vs
    (fun p hp => normalizeRow_ok r hr p (hpos p hp))
  have hico : makeTriangularIcosphere (V3.zero : V3 ℝ) r order
      = .ok (ws.map (· + V3.zero), (icoTopology order).1) := by
    unfold makeTriangularIcosphere
    simp only [if_neg (Nat.not_lt.mpr hv), hm, hlen, Nat.sub_self, List.replicate_zero,
      List.append_nil, hws]
  exact ⟨_, by unfold makeTetrahedralSphere; rw [hico]⟩

/-! ### the cache key identifies the unordered edge -/

/-- triangular number as the code computes it -/
def triNum (s : Nat) : Nat := s * (s + 1) / 2

theorem triNum_succ (s : Nat) : triNum (s + 1) = triNum s + (s + 1) := by
  unfold triNum
  have h : (s + 1) * (s + 1 + 1) = s * (s + 1) + 2 * (s + 1) := by ring
  rw [h, Nat.add_mul_div_left _ _ (by norm_num : 0 < 2)]

theorem triNum_gap (s d : Nat) : triNum s + s + 1 ≤ triNum (s + 1 + d) := by
  induction d with
  | zero => rw [Nat.add_zero, triNum_succ]; omega
  | succ d ih =>
    have h := triNum_succ (s + 1 + d)
    rw [← Nat.add_assoc]; omega

/-- Cantor's pairing with `min` is injective on unordered pairs: two edges share a cache key only
if they are the same edge -/
theorem cantorKey_inj (a b c d : Nat) (h : cantorKey a b = cantorKey c d) :
    (a = c ∧ b = d) ∨ (a = d ∧ b = c) := by
  have e : ∀ x y, cantorKey x y = triNum (x + y) + min x y := fun _ _ => rfl
  rw [e, e] at h
  rcases Nat.lt_trichotomy (a + b) (c + d) with hlt | heq | hgt
  · obtain ⟨k, hk⟩ := Nat.exists_eq_add_of_lt hlt
    have g := triNum_gap (a + b) k
    have e2 : a + b + 1 + k = c + d := by omega
    rw [e2] at g; omega
  · rw [heq] at h; omega
  · obtain ⟨k, hk⟩ := Nat.exists_eq_add_of_lt hgt
    have g := triNum_gap (c + d) k
    have e2 : c + d + 1 + k = a + b := by omega
    rw [e2] at g; omega

/-! ### index bookkeeping of the subdivision: every parent index is in range -/

/-- every parent pair refers to rows created before it (`n` rows exist at the start) -/
def parentsOK : Nat → List (Nat × Nat) → Prop
  | _, [] => True
  | n, p :: r => p.1 < n ∧ p.2 < n ∧ parentsOK (n + 1) r

theorem parentsOK_append : ∀ (ps : List (Nat × Nat)) (n a b : Nat), parentsOK n ps →
    a < n + ps.length → b < n + ps.length → parentsOK n (ps ++ [(a, b)])
  | [], n, a, b, _, ha, hb => by
    simp only [List.length_nil, Nat.add_zero] at ha hb
    exact ⟨ha, hb, trivial⟩
  | p :: r, n, a, b, h, ha, hb => by
    obtain ⟨h1, h2, h3⟩ := h
    simp only [List.length_cons] at ha hb
    exact ⟨h1, h2, parentsOK_append r (n + 1) a b h3 (by omega) (by omega)⟩

theorem icoMidpoints_ok : ∀ (ps : List (Nat × Nat)) (vs : List (V3 ℝ)), parentsOK vs.length ps →
    ∃ ws, icoMidpoints vs ps = .ok ws ∧ ws.length = vs.length + ps.length
  | [], vs, _ => ⟨vs, rfl, by simp⟩
  | (a, b) :: r, vs, h => by
    obtain ⟨ha, hb, hr⟩ := h
    have hpa := getV_of_lt vs a ha
    have hpb := getV_of_lt vs b hb
    generalize vs.getD a V3.zero = pa at hpa
    generalize vs.getD b V3.zero = pb at hpb
    have hr' : parentsOK (vs ++ [(0.5 : ℝ) * (pa + pb)]).length r := by
      simpa using hr
    obtain ⟨ws, hws, hl⟩ := icoMidpoints_ok r (vs ++ [(0.5 : ℝ) * (pa + pb)]) hr'
    refine ⟨ws, ?_, ?_⟩
    · unfold icoMidpoints
      rw [hpa, hpb]
      exact hws
    · rw [hl]; simp; omega

theorem lookup_snd_mem (k : Nat) : ∀ (l : List (Nat × Nat)) (i : Nat), l.lookup k = some i →
    ∃ kv ∈ l, kv.2 = i
  | [], i, h => by simp at h
  | (k', v) :: l, i, h => by
    rw [List.lookup_cons] at h
    split at h
    · cases h; exact ⟨(k', v), by simp, rfl⟩
    · obtain ⟨kv, hm, e⟩ := lookup_snd_mem k l i h
      exact ⟨kv, by simp [hm], e⟩

/-- bookkeeping invariant of the subdivision state -/
structure StOK (st : IcoState) : Prop where
  cache : ∀ kv ∈ st.cache, kv.2 < st.v
  veq : st.v = 12 + st.parents.length
  par : parentsOK 12 st.parents

def TriLt (n : Nat) (t : Nat × Nat × Nat) : Prop := t.1 < n ∧ t.2.1 < n ∧ t.2.2 < n

theorem addMidPoint_ok (a b : Nat) (st : IcoState) (h : StOK st) (ha : a < st.v) (hb : b < st.v) :
    StOK (addMidPoint a b st).2 ∧ (addMidPoint a b st).1 < (addMidPoint a b st).2.v ∧
      st.v ≤ (addMidPoint a b st).2.v := by
  simp only [addMidPoint]
  cases hl : st.cache.lookup (cantorKey a b) with
  | some i =>
    obtain ⟨kv, hm, e⟩ := lookup_snd_mem _ _ _ hl
    have hi : i < st.v := e ▸ h.cache kv hm
    refine ⟨⟨?_, h.veq, h.par⟩, hi, le_refl _⟩
    intro kv' hkv'
    exact h.cache kv' (List.mem_filter.mp hkv').1
  | none =>
    refine ⟨⟨?_, ?_, ?_⟩, ?_, ?_⟩
    · intro kv hkv
      simp only [List.mem_cons] at hkv
      rcases hkv with rfl | hkv
      · simp
      · have := h.cache kv hkv
        simp only; omega
    · simp only [List.length_append, List.length_cons, List.length_nil]
      have := h.veq; omega
    · have := h.veq
      exact parentsOK_append _ _ _ _ h.par (by omega) (by omega)
    · simp
    · simp

theorem subdivideTriangle_ok (tris : List (Nat × Nat × Nat)) (st : IcoState) (t : Nat × Nat × Nat)
    (h : StOK st) (ht : TriLt st.v t) (hs : ∀ s ∈ tris, TriLt st.v s) :
    StOK (subdivideTriangle (tris, st) t).2 ∧ st.v ≤ (subdivideTriangle (tris, st) t).2.v ∧
      ∀ s ∈ (subdivideTriangle (tris, st) t).1, TriLt (subdivideTriangle (tris, st) t).2.v s := by
  obtain ⟨v1, v2, v3⟩ := t
  obtain ⟨h1, h2, h3⟩ := ht
  simp only at h1 h2 h3
  obtain ⟨ka, ia, la⟩ := addMidPoint_ok v1 v2 st h h1 h2
  obtain ⟨kb, ib, lb⟩ := addMidPoint_ok v2 v3 (addMidPoint v1 v2 st).2 ka (by omega) (by omega)
  obtain ⟨kc, ic, lc⟩ := addMidPoint_ok v3 v1 (addMidPoint v2 v3 (addMidPoint v1 v2 st).2).2 kb
    (by omega) (by omega)
  refine ⟨kc, by simp only [subdivideTriangle]; omega, ?_⟩
  intro s hs'
  simp only [subdivideTriangle, List.mem_append, List.mem_cons, List.not_mem_nil, or_false] at hs'
  rcases hs' with hs' | rfl | rfl | rfl | rfl
  · obtain ⟨x, y, z⟩ := hs s hs'
    simp only [subdivideTriangle]
    exact ⟨by omega, by omega, by omega⟩
  all_goals (simp only [subdivideTriangle, TriLt]; exact ⟨by omega, by omega, by omega⟩)

instance (n : Nat) (t : Nat × Nat × Nat) : Decidable (TriLt n t) := by unfold TriLt; infer_instance

theorem TriLt.mono {n m : Nat} (h : n ≤ m) {t : Nat × Nat × Nat} (ht : TriLt n t) : TriLt m t :=
  ⟨by have := ht.1; omega, by have := ht.2.1; omega, by have := ht.2.2; omega⟩

theorem subdivideFold_ok : ∀ (l tris : List (Nat × Nat × Nat)) (st : IcoState), StOK st →
    (∀ t ∈ l, TriLt st.v t) → (∀ s ∈ tris, TriLt st.v s) →
    StOK (l.foldl subdivideTriangle (tris, st)).2 ∧
      ∀ s ∈ (l.foldl subdivideTriangle (tris, st)).1,
        TriLt (l.foldl subdivideTriangle (tris, st)).2.v s
  | [], _, _, h, _, hs => ⟨h, hs⟩
  | t :: l, tris, st, h, hl, hs => by
    obtain ⟨k, le, hs'⟩ := subdivideTriangle_ok tris st t h (hl t (by simp)) hs
    rw [List.foldl_cons]
    generalize subdivideTriangle (tris, st) t = r at k le hs' ⊢
    obtain ⟨tris', st'⟩ := r
    exact subdivideFold_ok l tris' st' k (fun t' ht' => TriLt.mono le (hl t' (by simp [ht']))) hs'

/-- **index bookkeeping, all orders**: the state invariant holds and every triangle index is below
the number of created vertices -/
theorem icoTopology_ok : ∀ order, StOK (icoTopology order).2 ∧
    ∀ s ∈ (icoTopology order).1, TriLt (icoTopology order).2.v s
  | 0 => by
    have e : icoTopology 0 = (icoTriangles0, ⟨[], 12, []⟩) := rfl
    rw [e]
    exact ⟨⟨fun kv h => (by cases h), rfl, trivial⟩, by decide⟩
  | order + 1 => by
    obtain ⟨h, ht⟩ := icoTopology_ok order
    have e : icoTopology (order + 1) =
        (icoTopology order).1.foldl subdivideTriangle ([], (icoTopology order).2) := rfl
    rw [e]
    exact subdivideFold_ok _ [] _ h ht (fun s hs => (by cases hs))

/-- **midpoint pass defined, all orders**: no `IndexError` on reading a parent row, and the pass
returns exactly as many rows as the subdivision counted (`v`) -/
theorem icoMidpoints_defined_all_orders (order : Nat) :
    ∃ vs : List (V3 ℝ), icoMidpoints icoVertices0 (icoTopology order).2.parents = .ok vs ∧
      vs.length = (icoTopology order).2.v := by
  obtain ⟨h, _⟩ := icoTopology_ok order
  have h12 : (icoVertices0 : List (V3 ℝ)).length = 12 := rfl
  obtain ⟨ws, hws, hl⟩ := icoMidpoints_ok (icoTopology order).2.parents icoVertices0
    (by rw [h12]; exact h.par)
  exact ⟨ws, hws, by rw [hl, h.veq, h12]⟩

end TetraMesh
end D3
