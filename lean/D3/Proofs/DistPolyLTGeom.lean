/-
Geometry behind `_line_to_triangle`'s edge loop (no code here, only point sets at `ℝ`):

* `exit3`               : walking from a point with non-negative barycentric coordinates in a
                          direction that decreases at least one of them, there is a first
                          parameter at which a coordinate vanishes while all stay non-negative
                          (finite minimum, no continuity argument);
* `inPlane_decomp`      : a vector orthogonal to `e0 × e1` is a combination of `e0`, `e1`;
* `line_tri_to_boundary`: if a line does not meet a non-degenerate triangle, every pair
                          (point of the line, point of the triangle) is dominated by a pair
                          (point of the line, point of an edge) that is at most as far apart.
                          Non-parallel case: shrink the pair towards the point where the line
                          pierces the plane; parallel case: translate the pair along the line.
-/
import D3.Proofs.DistPolySets
import Mathlib.Data.Finset.Max
import Mathlib.Data.Fintype.Basic
import Mathlib.Data.Fin.VecNotation
import Mathlib.Tactic.FinCases

set_option linter.unusedSimpArgs false

namespace D3
namespace DistPoly

/-! ### first exit from the barycentric simplex -/

/-- finite form: `w i ≥ 0`, some `v i < 0` ⇒ there is `μ ≥ 0` with all `w i + μ v i ≥ 0` and one
of them `= 0` -/
theorem exitFin (w v : Fin 3 → ℝ) (hw : ∀ i, 0 ≤ w i) (hv : ∃ i, v i < 0) :
    ∃ μ : ℝ, 0 ≤ μ ∧ (∀ i, 0 ≤ w i + μ * v i) ∧ ∃ i, w i + μ * v i = 0 := by
  classical
  obtain ⟨i0, hi0⟩ := hv
  have hne : (Finset.univ.filter (fun i => v i < 0)).Nonempty :=
    ⟨i0, by simp [hi0]⟩
  obtain ⟨k, hk, hmin⟩ := Finset.exists_min_image _ (fun i => w i / (-(v i))) hne
  have hvk : v k < 0 := by simpa using hk
  have hnk : 0 < -(v k) := by linarith
  refine ⟨w k / (-(v k)), div_nonneg (hw k) hnk.le, ?_, k, ?_⟩
  · intro j
    by_cases hj : v j < 0
    · have hnj : 0 < -(v j) := by linarith
      have h1 := hmin j (by simp [hj])
      have h2 : w k / (-(v k)) * (-(v j)) ≤ w j := by
        have := mul_le_mul_of_nonneg_right h1 hnj.le
        rwa [div_mul_cancel₀ _ hnj.ne'] at this
      linarith
    · have hj' : 0 ≤ v j := not_lt.mp hj
      have : 0 ≤ w k / (-(v k)) * v j := mul_nonneg (div_nonneg (hw k) hnk.le) hj'
      linarith [hw j]
  · have : w k / (-(v k)) * (-(v k)) = w k := div_mul_cancel₀ _ hnk.ne'
    linarith

/-- the same for three named coordinates -/
theorem exit3 (w1 w2 w3 v1 v2 v3 : ℝ) (h1 : 0 ≤ w1) (h2 : 0 ≤ w2) (h3 : 0 ≤ w3)
    (hv : v1 < 0 ∨ v2 < 0 ∨ v3 < 0) :
    ∃ μ : ℝ, 0 ≤ μ ∧ 0 ≤ w1 + μ * v1 ∧ 0 ≤ w2 + μ * v2 ∧ 0 ≤ w3 + μ * v3 ∧
      (w1 + μ * v1 = 0 ∨ w2 + μ * v2 = 0 ∨ w3 + μ * v3 = 0) := by
  obtain ⟨μ, hμ, hall, i, hi⟩ := exitFin ![w1, w2, w3] ![v1, v2, v3]
    (by intro i; fin_cases i <;> simpa)
    (by
      rcases hv with h | h | h
      · exact ⟨0, by simpa⟩
      · exact ⟨1, by simpa⟩
      · exact ⟨2, by simpa⟩)
  refine ⟨μ, hμ, by simpa using hall 0, by simpa using hall 1, by simpa using hall 2, ?_⟩
  fin_cases i
  · left; simpa using hi
  · right; left; simpa using hi
  · right; right; simpa using hi

/-! ### vectors in the plane of the triangle -/

/-- a vector orthogonal to `e0 × e1 ≠ 0` is a combination of `e0` and `e1` -/
theorem inPlane_decomp (w e0 e1 : V) (hN : 0 < V3.normSq (V3.cross e0 e1))
    (h : V3.dot w (V3.cross e0 e1) = 0) : ∃ z0 z1 : ℝ, w = z0 * e0 + z1 * e1 := by
  have hN' : V3.normSq (V3.cross e0 e1) ≠ 0 := hN.ne'
  refine ⟨(V3.dot w e0 * V3.dot e1 e1 - V3.dot w e1 * V3.dot e0 e1) / V3.normSq (V3.cross e0 e1),
    (V3.dot w e1 * V3.dot e0 e0 - V3.dot w e0 * V3.dot e0 e1) / V3.normSq (V3.cross e0 e1), ?_⟩
  apply V3.ext' <;> simp only [V3.add_x, V3.add_y, V3.add_z, V3.smul_x, V3.smul_y, V3.smul_z] <;>
    field_simp <;>
    simp only [V3.dot_def, V3.normSq_def, V3.cross] at h ⊢
  · linear_combination (e0.y * e1.z - e0.z * e1.y) * h
  · linear_combination (e0.z * e1.x - e0.x * e1.z) * h
  · linear_combination (e0.x * e1.y - e0.y * e1.x) * h

/-- a point of the triangle with a vanishing barycentric coordinate lies on an edge
(edges in the order of `_line_to_triangle`'s loop: CA, AB, BC) -/
theorem edge_of_bary (a b c : V) (u v w : ℝ) (hu : 0 ≤ u) (hv : 0 ≤ v) (hw : 0 ≤ w)
    (hs : u + v + w = 1) (hz : u = 0 ∨ v = 0 ∨ w = 0) :
    segmentSet c a (u * a + v * b + w * c) ∨ segmentSet a b (u * a + v * b + w * c) ∨
      segmentSet b c (u * a + v * b + w * c) := by
  rcases hz with h | h | h
  · right; right
    refine ⟨w, hw, by linarith, ?_⟩
    have hv' : v = 1 - w := by linarith
    subst h; subst hv'
    apply V3.ext' <;> simp <;> ring
  · left
    refine ⟨u, hu, by linarith, ?_⟩
    have hw' : w = 1 - u := by linarith
    subst h; subst hw'
    apply V3.ext' <;> simp <;> ring
  · right; left
    refine ⟨v, hv, by linarith, ?_⟩
    have hu' : u = 1 - v := by linarith
    subst h; subst hu'
    apply V3.ext' <;> simp <;> ring

/-- a point on one of the three edges -/
def triBoundary (a b c : V) : V → Prop := fun y =>
  segmentSet c a y ∨ segmentSet a b y ∨ segmentSet b c y

/-- the line does not meet the triangle -/
def LineMisses (lp ld a b c : V) : Prop :=
  ∀ (τ : ℝ) (y : V), triangleSet a b c y → lp + τ * ld ≠ y

/-- **non-parallel case**: the line pierces the plane of the triangle in a point `z` outside the
triangle; shrinking a pair (x on the line, y in the triangle) towards `z` until `y` reaches the
boundary does not increase the distance -/
theorem line_tri_to_boundary_np (lp ld a b c : V)
    (hnd : 0 < V3.normSq (V3.cross (b - a) (c - a)))
    (hmiss : LineMisses lp ld a b c) (hnp : V3.dot ld (V3.cross (b - a) (c - a)) ≠ 0)
    (τ : ℝ) (y : V) (hy : triangleSet a b c y) :
    ∃ (τ' : ℝ) (y' : V), triBoundary a b c y' ∧
      V3.normSq ((lp + τ' * ld) - y') ≤ V3.normSq ((lp + τ * ld) - y) := by
  -- the piercing point
  set N := V3.cross (b - a) (c - a) with hNdef
  set τz := -(V3.dot (lp - a) N) / V3.dot ld N with hτz
  have hzN : V3.dot ((lp + τz * ld) - a) N = 0 := by
    have : V3.dot ((lp + τz * ld) - a) N = V3.dot (lp - a) N + τz * V3.dot ld N := by
      simp only [V3.dot_def, V3.sub_x, V3.sub_y, V3.sub_z, V3.add_x, V3.add_y, V3.add_z,
        V3.smul_x, V3.smul_y, V3.smul_z]; ring
    rw [this, hτz]; field_simp; ring
  obtain ⟨z0, z1, hz⟩ := inPlane_decomp _ (b - a) (c - a) hnd hzN
  have hzb : lp + τz * ld = (1 - z0 - z1) * a + z0 * b + z1 * c := by
    have hx := congrArg V3.x hz
    have hy' := congrArg V3.y hz
    have hz' := congrArg V3.z hz
    simp only [V3.sub_x, V3.sub_y, V3.sub_z, V3.add_x, V3.add_y, V3.add_z,
      V3.smul_x, V3.smul_y, V3.smul_z] at hx hy' hz'
    apply V3.ext' <;> simp only [V3.sub_x, V3.sub_y, V3.sub_z, V3.add_x, V3.add_y, V3.add_z,
      V3.smul_x, V3.smul_y, V3.smul_z] <;> linarith
  have hneg : 1 - z0 - z1 < 0 ∨ z0 < 0 ∨ z1 < 0 := by
    by_contra hcon
    push Not at hcon
    exact hmiss τz _ ⟨1 - z0 - z1, z0, z1, hcon.1, hcon.2.1, hcon.2.2, by ring, rfl⟩ hzb
  obtain ⟨u, v, w, hu, hv, hw, hs, rfl⟩ := hy
  obtain ⟨μ, hμ0, g1, g2, g3, gz⟩ := exit3 u v w ((1 - z0 - z1) - u) (z0 - v) (z1 - w) hu hv hw
    (by rcases hneg with h | h | h
        · left; linarith
        · right; left; linarith
        · right; right; linarith)
  have hμ1 : μ ≤ 1 := by
    by_contra hcon
    push Not at hcon
    rcases hneg with h | h | h
    · nlinarith [mul_nonneg hu (by linarith : (0:ℝ) ≤ μ - 1), mul_pos (by linarith : (0:ℝ) < μ) (neg_pos.mpr h)]
    · nlinarith [mul_nonneg hv (by linarith : (0:ℝ) ≤ μ - 1), mul_pos (by linarith : (0:ℝ) < μ) (neg_pos.mpr h)]
    · nlinarith [mul_nonneg hw (by linarith : (0:ℝ) ≤ μ - 1), mul_pos (by linarith : (0:ℝ) < μ) (neg_pos.mpr h)]
  refine ⟨(1 - μ) * τ + μ * τz,
    (u + μ * ((1 - z0 - z1) - u)) * a + (v + μ * (z0 - v)) * b + (w + μ * (z1 - w)) * c,
    edge_of_bary a b c _ _ _ g1 g2 g3 (by linear_combination (1 - μ) * hs) gz, ?_⟩
  have hdiff : (lp + ((1 - μ) * τ + μ * τz) * ld) -
      ((u + μ * ((1 - z0 - z1) - u)) * a + (v + μ * (z0 - v)) * b + (w + μ * (z1 - w)) * c) =
      (1 - μ) * ((lp + τ * ld) - (u * a + v * b + w * c)) := by
    have hx := congrArg V3.x hzb
    have hy' := congrArg V3.y hzb
    have hz' := congrArg V3.z hzb
    simp only [V3.sub_x, V3.sub_y, V3.sub_z, V3.add_x, V3.add_y, V3.add_z,
      V3.smul_x, V3.smul_y, V3.smul_z] at hx hy' hz'
    apply V3.ext' <;> simp only [V3.sub_x, V3.sub_y, V3.sub_z, V3.add_x, V3.add_y, V3.add_z,
      V3.smul_x, V3.smul_y, V3.smul_z]
    · linear_combination μ * hx
    · linear_combination μ * hy'
    · linear_combination μ * hz'
  rw [hdiff]
  have hsc : V3.normSq ((1 - μ) * ((lp + τ * ld) - (u * a + v * b + w * c))) =
      (1 - μ) * (1 - μ) * V3.normSq ((lp + τ * ld) - (u * a + v * b + w * c)) := by
    simp only [V3.normSq_def, V3.smul_x, V3.smul_y, V3.smul_z]; ring
  rw [hsc]
  have h01 : (1 - μ) * (1 - μ) ≤ 1 := by nlinarith
  nlinarith [V3.normSq_nonneg ((lp + τ * ld) - (u * a + v * b + w * c))]

/-- **parallel case**: translating a pair along the line direction keeps the distance; the
triangle point leaves the triangle through an edge -/
theorem line_tri_to_boundary_par (lp ld a b c : V)
    (hnd : 0 < V3.normSq (V3.cross (b - a) (c - a))) (hld : 0 < V3.normSq ld)
    (hpar : V3.dot ld (V3.cross (b - a) (c - a)) = 0)
    (τ : ℝ) (y : V) (hy : triangleSet a b c y) :
    ∃ (τ' : ℝ) (y' : V), triBoundary a b c y' ∧
      V3.normSq ((lp + τ' * ld) - y') ≤ V3.normSq ((lp + τ * ld) - y) := by
  obtain ⟨d0, d1, hd⟩ := inPlane_decomp ld (b - a) (c - a) hnd hpar
  have hneg : -(d0 + d1) < 0 ∨ d0 < 0 ∨ d1 < 0 := by
    by_contra hcon
    push Not at hcon
    have h0 : d0 = 0 := by linarith [hcon.1, hcon.2.1, hcon.2.2]
    have h1 : d1 = 0 := by linarith [hcon.1, hcon.2.1, hcon.2.2]
    rw [hd, h0, h1] at hld
    simp [V3.normSq_def] at hld
  obtain ⟨u, v, w, hu, hv, hw, hs, rfl⟩ := hy
  obtain ⟨μ, hμ0, g1, g2, g3, gz⟩ := exit3 u v w (-(d0 + d1)) d0 d1 hu hv hw hneg
  refine ⟨τ + μ, (u + μ * (-(d0 + d1))) * a + (v + μ * d0) * b + (w + μ * d1) * c,
    edge_of_bary a b c _ _ _ g1 g2 g3 (by linear_combination hs) gz, le_of_eq ?_⟩
  have hx := congrArg V3.x hd
  have hy' := congrArg V3.y hd
  have hz' := congrArg V3.z hd
  simp only [V3.sub_x, V3.sub_y, V3.sub_z, V3.add_x, V3.add_y, V3.add_z,
    V3.smul_x, V3.smul_y, V3.smul_z] at hx hy' hz'
  have hdiff : (lp + (τ + μ) * ld) -
      ((u + μ * (-(d0 + d1))) * a + (v + μ * d0) * b + (w + μ * d1) * c) =
      (lp + τ * ld) - (u * a + v * b + w * c) := by
    apply V3.ext' <;> simp only [V3.sub_x, V3.sub_y, V3.sub_z, V3.add_x, V3.add_y, V3.add_z,
      V3.smul_x, V3.smul_y, V3.smul_z]
    · linear_combination μ * hx
    · linear_combination μ * hy'
    · linear_combination μ * hz'
  rw [hdiff]

/-- **a line that misses the triangle is closest to its boundary**: every pair (point of the
line, point of the triangle) is dominated by a pair (point of the line, point of an edge) -/
theorem line_tri_to_boundary (lp ld a b c : V)
    (hnd : 0 < V3.normSq (V3.cross (b - a) (c - a))) (hld : 0 < V3.normSq ld)
    (hmiss : LineMisses lp ld a b c) (τ : ℝ) (y : V) (hy : triangleSet a b c y) :
    ∃ (τ' : ℝ) (y' : V), triBoundary a b c y' ∧
      V3.normSq ((lp + τ' * ld) - y') ≤ V3.normSq ((lp + τ * ld) - y) := by
  by_cases hpar : V3.dot ld (V3.cross (b - a) (c - a)) = 0
  · exact line_tri_to_boundary_par lp ld a b c hnd hld hpar τ y hy
  · exact line_tri_to_boundary_np lp ld a b c hnd hmiss hpar τ y hy

end DistPoly
end D3
