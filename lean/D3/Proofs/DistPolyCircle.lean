/-
`point_to_circle` (non-convex target): direct argument.  For `x` on the circle
`|p − x|² = |p − c|² + r² − 2⟨dip, x − c⟩` is minimised by the radial projection
(Cauchy–Schwarz); on the axis every circle point is at the same distance `sqrt(r² + dtp²)`.
Exact optimality holds outside the band `0 < |dip|² < thr` (`thr = epsilon²` in the current code,
`epsilon` before /repo commit 0e4a1a6); inside the band the code returns an arbitrary circle
point and `sqrt(r² + dtp²)`, which is off the true distance by at most `|dip| < sqrt thr`
(`pointToCircleThr_within`), i.e. by less than `epsilon` in the current code.
-/
import D3.Proofs.DistPolyConvex

namespace D3
namespace DistPoly

theorem pt3dEps_real : (pt3dEps : ℝ) = 1 / 10000000 := by unfold pt3dEps; norm_num

/-- pytransform3d's `perpendicular_to_vector` returns a non-zero vector orthogonal to `n`
unless `0 < |n.z| < eps` -/
theorem perp_spec (n : V) (hz : n.z = 0 ∨ (pt3dEps : ℝ) ≤ |n.z|) :
    ∃ v, perpendicularToVector n = .ok v ∧ V3.dot v n = 0 ∧ 0 < V3.normSq v := by
  unfold perpendicularToVector
  rw [absS_real]
  have heps : (0 : ℝ) < pt3dEps := by rw [pt3dEps_real]; norm_num
  split_ifs with h1 h2
  · have hz0 : n.z = 0 := by
      rcases hz with h | h
      · exact h
      · exact absurd h1 (not_lt.mpr h)
    exact ⟨_, rfl, by simp [V3.dot_def, hz0], by simp [V3.normSq_def]⟩
  · exfalso
    rw [isZero_real] at h2
    rw [h2] at h1
    simp at h1
    linarith
  · rw [isZero_real] at h2
    refine ⟨_, rfl, ?_, ?_⟩
    · simp only [V3.dot_def]
      field_simp
      ring
    · simp only [V3.normSq_def]
      nlinarith [mul_self_nonneg (-n.x / n.z)]

/-- `norm_vector` of a non-zero vector is a unit vector with the same orthogonal complement -/
theorem normVector_spec (v : V) (hv : 0 < V3.normSq v) :
    V3.dot (normVector v) (normVector v) = 1 ∧ ∀ n, V3.dot v n = 0 → V3.dot (normVector v) n = 0 := by
  unfold normVector
  dsimp only
  have hs : 0 < V3.norm v := Real.sqrt_pos.mpr hv
  have hs2 := V3.norm_sq v
  simp only [isZero_real, if_neg hs.ne']
  generalize V3.norm v = s at *
  constructor
  · simp only [V3.dot_def, V3.sdiv, V3.normSq_def] at *
    field_simp
    linarith
  · intro n hn
    simp only [V3.dot_def, V3.sdiv] at *
    field_simp
    linarith

theorem circle_id (dip n y : V) (dtp k : ℝ) (hdn : V3.dot dip n = 0) (hyn : V3.dot y n = 0) :
    V3.normSq ((dip + dtp * n) - y) - V3.normSq ((dip + dtp * n) - k * dip) =
      -2 * V3.dot dip y + V3.normSq y + (2 * k - k * k) * V3.dot dip dip := by
  simp only [V3.normSq_def, V3.dot_def, V3.sub_x, V3.sub_y, V3.sub_z, V3.add_x, V3.add_y, V3.add_z,
    V3.smul_x, V3.smul_y, V3.smul_z] at *
  linear_combination (2 * dtp * k) * hdn - (2 * dtp) * hyn

theorem axis_id (n y : V) (dtp : ℝ) (hnn : V3.dot n n = 1) (hyn : V3.dot y n = 0) :
    V3.normSq (dtp * n - y) = dtp * dtp + V3.normSq y := by
  simp only [V3.normSq_def, V3.dot_def, V3.sub_x, V3.sub_y, V3.sub_z,
    V3.smul_x, V3.smul_y, V3.smul_z] at *
  linear_combination (dtp * dtp) * hnn - (2 * dtp) * hyn

/-- **`point_to_circle`** (any positive threshold `eps` on `|dip|²`) for a unit normal, `r ≥ 0`,
outside the band `0 < |dip|² < eps` and outside pytransform3d's own band `0 < |n.z| < 1e-7` -/
theorem pointToCircleThr_spec (p c : V) (r : ℝ) (n : V) (eps : ℝ) (hn : V3.dot n n = 1) (hr : 0 ≤ r)
    (heps : 0 < eps)
    (hband : V3.normSq ((p - c) - V3.dot (p - c) n * n) = 0 ∨
      eps ≤ V3.normSq ((p - c) - V3.dot (p - c) n * n))
    (hz : n.z = 0 ∨ (pt3dEps : ℝ) ≤ |n.z|) :
    ∃ res, pointToCircleThr p c r n eps = .ok res ∧ GoodPt (circleSet c r n) p res := by
  unfold pointToCircleThr
  dsimp only
  have hdn := dot_reject (p - c) n hn
  have hdec := reject_decomp (p - c) n
  rw [V3.normSq] at hband
  generalize hdtp : V3.dot (p - c) n = dtp at *
  generalize hdip : (p - c) - dtp * n = dip at *
  split_ifs with h1 h2
  · -- general branch, division by zero impossible
    exfalso
    rw [isZero_real] at h2
    have : sqrt (V3.dot dip dip) * sqrt (V3.dot dip dip) = V3.dot dip dip :=
      Real.mul_self_sqrt (V3.normSq_nonneg dip)
    rw [h2] at this
    linarith
  · -- general branch
    have hpos : 0 < V3.dot dip dip := lt_of_lt_of_le heps h1
    have hs : 0 < sqrt (V3.dot dip dip) := Real.sqrt_pos.mpr hpos
    have hs2 : sqrt (V3.dot dip dip) * sqrt (V3.dot dip dip) = V3.dot dip dip :=
      Real.mul_self_sqrt hpos.le
    generalize sqrt (V3.dot dip dip) = s at *
    have hk : r / s * s = r := div_mul_cancel₀ r hs.ne'
    generalize r / s = k at *
    have hcpc : c + k * dip - c = k * dip := by apply V3.ext' <;> simp
    have hmem : circleSet c r n (c + k * dip) := by
      refine ⟨?_, ?_⟩
      · rw [hcpc]
        simp only [V3.dot_def, V3.smul_x, V3.smul_y, V3.smul_z] at hdn ⊢
        linear_combination k * hdn
      · rw [hcpc]
        have : V3.normSq (k * dip) = (k * s) * (k * s) := by
          have : V3.normSq (k * dip) = k * k * V3.dot dip dip := by
            simp only [V3.normSq_def, V3.dot_def, V3.smul_x, V3.smul_y, V3.smul_z]; ring
          rw [this, ← hs2]; ring
        rw [this, hk]
    obtain ⟨h0, hd⟩ := mkRes_dist 0 p (c + k * dip)
    refine ⟨_, rfl, hmem, h0, hd, ?_⟩
    rintro x ⟨hx1, hx2⟩
    rw [hd]
    have hp : p - (c + k * dip) = (dip + dtp * n) - k * dip := by
      have h1 : p - (c + k * dip) = (p - c) - k * dip := by apply V3.ext' <;> simp <;> ring
      rw [h1]; rw [← hdec]
    have hpx : p - x = (dip + dtp * n) - (x - c) := by
      rw [← hdec]; apply V3.ext' <;> simp
    have hid := circle_id dip n (x - c) dtp k hdn hx1
    have hcs : V3.dot dip (x - c) ≤ s * r :=
      dot_le_of_normSq hs.le hr (by rw [V3.normSq]; exact hs2.symm) (le_of_eq hx2)
    rw [hp, hpx]
    have e : (2 * k - k * k) * V3.dot dip dip = 2 * (k * s) * s - (k * s) * (k * s) := by
      rw [← hs2]; ring
    rw [e, hk, hx2] at hid
    nlinarith
  · -- on the axis
    have hzero : V3.dot dip dip = 0 := by
      rcases hband with h | h
      · exact h
      · exact absurd h h1
    have hd0 : dip = ⟨0, 0, 0⟩ := V3.normSq_eq_zero hzero
    obtain ⟨v, hv, hvn, hvpos⟩ := perp_spec n hz
    rw [hv]
    simp only [bind, Except.bind]
    obtain ⟨hu1, hu2⟩ := normVector_spec v hvpos
    have hpn := hu2 n hvn
    generalize normVector v = pd at *
    have hpc : p - c = dtp * n := by
      rw [hdec, hd0]; apply V3.ext' <;> simp
    have hcpc : c + r * pd - c = r * pd := by apply V3.ext' <;> simp
    have hrr : 0 ≤ r * r + dtp * dtp := by nlinarith [mul_self_nonneg r, mul_self_nonneg dtp]
    have hmem : circleSet c r n (c + r * pd) := by
      refine ⟨?_, ?_⟩
      · rw [hcpc]
        simp only [V3.dot_def, V3.smul_x, V3.smul_y, V3.smul_z] at hpn ⊢
        linear_combination r * hpn
      · rw [hcpc]
        simp only [V3.normSq_def, V3.dot_def, V3.smul_x, V3.smul_y, V3.smul_z] at hu1 ⊢
        linear_combination (r * r) * hu1
    have hsq : sqrt (r * r + dtp * dtp) * sqrt (r * r + dtp * dtp) = r * r + dtp * dtp :=
      Real.mul_self_sqrt hrr
    have hown : V3.normSq (p - (c + r * pd)) = r * r + dtp * dtp := by
      have : p - (c + r * pd) = dtp * n - (c + r * pd - c) := by
        rw [← hpc]; apply V3.ext' <;> simp <;> ring
      rw [this, axis_id n _ dtp hn hmem.1, hmem.2]; ring
    refine ⟨_, rfl, hmem, Real.sqrt_nonneg _, ?_, ?_⟩
    · show sqrt (r * r + dtp * dtp) * sqrt (r * r + dtp * dtp) = _
      rw [hsq, hown]
    · rintro x ⟨hx1, hx2⟩
      show sqrt (r * r + dtp * dtp) * sqrt (r * r + dtp * dtp) ≤ _
      have : p - x = dtp * n - (x - c) := by
        rw [← hpc]; apply V3.ext' <;> simp
      rw [hsq, this, axis_id n _ dtp hn hx1, hx2]
      linarith

/-- the current code: threshold `epsilon²` -/
theorem pointToCircle_spec (p c : V) (r : ℝ) (n : V) (eps : ℝ) (hn : V3.dot n n = 1) (hr : 0 ≤ r)
    (heps : 0 < eps)
    (hband : V3.normSq ((p - c) - V3.dot (p - c) n * n) = 0 ∨
      eps * eps ≤ V3.normSq ((p - c) - V3.dot (p - c) n * n))
    (hz : n.z = 0 ∨ (pt3dEps : ℝ) ≤ |n.z|) :
    ∃ res, pointToCircle p c r n eps = .ok res ∧ GoodPt (circleSet c r n) p res :=
  pointToCircleThr_spec p c r n (eps * eps) hn hr (mul_pos heps heps) hband hz

/-- `perpendicular_to_vector` never fails (the `divZero` arm of the model is unreachable) -/
theorem perp_ok (n : V) : ∃ v, perpendicularToVector n = .ok v := by
  unfold perpendicularToVector
  rw [absS_real]
  have heps : (0 : ℝ) < pt3dEps := by rw [pt3dEps_real]; norm_num
  split_ifs with h1 h2
  · exact ⟨_, rfl⟩
  · exfalso
    rw [isZero_real] at h2
    rw [h2] at h1
    simp at h1
    linarith
  · exact ⟨_, rfl⟩

theorem band_id (dip n y : V) (h : ℝ) (hdn : V3.dot dip n = 0) (hyn : V3.dot y n = 0)
    (hnn : V3.dot n n = 1) :
    V3.normSq ((dip + h * n) - y) = V3.dot dip dip - 2 * V3.dot dip y + V3.normSq y + h * h := by
  simp only [V3.normSq_def, V3.dot_def, V3.sub_x, V3.sub_y, V3.sub_z, V3.add_x, V3.add_y, V3.add_z,
    V3.smul_x, V3.smul_y, V3.smul_z] at *
  linear_combination (2 * h) * hdn - (2 * h) * hyn + (h * h) * hnn

/-- scalar core of the bounded error: `d = sqrt(r² + h²)`, a circle point at squared distance
`D² = ρ² − 2t + r² + h²` with `|t| ≤ ρ r` -/
theorem band_scalar {r h ρ t d D : ℝ} (_hr : 0 ≤ r) (hρ : 0 ≤ ρ) (hd : 0 ≤ d) (hD : 0 ≤ D)
    (hd2 : d * d = r * r + h * h) (hD2 : D * D = ρ * ρ - 2 * t + r * r + h * h)
    (ht1 : t ≤ ρ * r) (ht2 : -(ρ * r) ≤ t) : d ≤ D + ρ ∧ D ≤ d + ρ := by
  constructor
  · -- r ≤ D + ρ, then d² ≤ (D + ρ)²
    have h1 : r - ρ ≤ D := by
      by_contra hc
      rw [not_le] at hc
      have : D * D < (r - ρ) * (r - ρ) := by nlinarith
      nlinarith
    have h2 : d * d ≤ (D + ρ) * (D + ρ) := by nlinarith [mul_nonneg hρ hD, mul_nonneg hρ hρ]
    by_contra hc
    rw [not_le] at hc
    nlinarith
  · -- r ≤ d, then D² ≤ (d + ρ)²
    have h1 : r ≤ d := by
      by_contra hc
      rw [not_le] at hc
      nlinarith [mul_self_nonneg h]
    have h2 : D * D ≤ (d + ρ) * (d + ρ) := by nlinarith [mul_nonneg hρ hd, mul_nonneg hρ hρ]
    by_contra hc
    rw [not_le] at hc
    nlinarith

/-- **bounded error, every input** (no band hypothesis).  Unit normal, `r ≥ 0`, `eps > 0`,
threshold `eps²`: the function succeeds, `d ≥ 0`, and **no point of the circle is closer than
`d − eps`**; in the general branch even `d ≤ |p − x|`.  The proof also gives
`| |p − x| − d | ≤ eps` for every circle point `x` whenever the on-axis branch is taken, so the
returned (arbitrary) circle point is at distance `d ± eps`. -/
theorem pointToCircle_within (p c : V) (r : ℝ) (n : V) (eps : ℝ) (hn : V3.dot n n = 1) (hr : 0 ≤ r)
    (heps : 0 < eps) :
    ∃ res, pointToCircle p c r n eps = .ok res ∧ 0 ≤ res.dist ∧
      (∀ x, circleSet c r n x → res.dist ≤ V3.norm (p - x) + eps) ∧
      (res.branch = 1 → ∀ x, circleSet c r n x → V3.norm (p - x) ≤ res.dist + eps) := by
  by_cases hb : eps * eps ≤ V3.normSq ((p - c) - V3.dot (p - c) n * n)
  · -- general branch: exact (needs no hypothesis on n.z because `perpendicular_to_vector` is not called)
    have hmain : ∃ res, pointToCircle p c r n eps = .ok res ∧ res.branch = 0 ∧ 0 ≤ res.dist ∧
        ∀ x, circleSet c r n x → res.dist * res.dist ≤ V3.normSq (p - x) := by
      -- re-run the general-branch part of the spec with a harmless normal hypothesis replaced:
      -- the spec's `hz` is only used in the on-axis branch, so we go through the threshold form
      unfold pointToCircle pointToCircleThr
      dsimp only
      have hdn := dot_reject (p - c) n hn
      have hdec := reject_decomp (p - c) n
      rw [V3.normSq] at hb
      generalize hdtp : V3.dot (p - c) n = dtp at *
      generalize hdip : (p - c) - dtp * n = dip at *
      rw [if_pos hb]
      have hpos : 0 < V3.dot dip dip := lt_of_lt_of_le (mul_pos heps heps) hb
      have hs : 0 < sqrt (V3.dot dip dip) := Real.sqrt_pos.mpr hpos
      have hs2 : sqrt (V3.dot dip dip) * sqrt (V3.dot dip dip) = V3.dot dip dip :=
        Real.mul_self_sqrt hpos.le
      simp only [isZero_real, if_neg hs.ne']
      generalize sqrt (V3.dot dip dip) = s at *
      have hk : r / s * s = r := div_mul_cancel₀ r hs.ne'
      generalize r / s = k at *
      obtain ⟨h0, hd⟩ := mkRes_dist 0 p (c + k * dip)
      refine ⟨_, rfl, rfl, h0, ?_⟩
      rintro x ⟨hx1, hx2⟩
      rw [hd]
      have hp : p - (c + k * dip) = (dip + dtp * n) - k * dip := by
        have h1 : p - (c + k * dip) = (p - c) - k * dip := by apply V3.ext' <;> simp <;> ring
        rw [h1]; rw [← hdec]
      have hpx : p - x = (dip + dtp * n) - (x - c) := by
        rw [← hdec]; apply V3.ext' <;> simp
      have hid := circle_id dip n (x - c) dtp k hdn hx1
      have hcs : V3.dot dip (x - c) ≤ s * r :=
        dot_le_of_normSq hs.le hr (by rw [V3.normSq]; exact hs2.symm) (le_of_eq hx2)
      rw [hp, hpx]
      have e : (2 * k - k * k) * V3.dot dip dip = 2 * (k * s) * s - (k * s) * (k * s) := by
        rw [← hs2]; ring
      rw [e, hk, hx2] at hid
      nlinarith
    obtain ⟨res, h1, hbr, h0, hopt⟩ := hmain
    refine ⟨res, h1, h0, ?_, ?_⟩
    · intro x hx
      have hN := V3.norm_nonneg (p - x)
      have hsq := V3.norm_sq (p - x)
      have := hopt x hx
      have : res.dist ≤ V3.norm (p - x) := by
        by_contra hc
        rw [not_le] at hc
        nlinarith
      linarith
    · intro h; rw [hbr] at h; exact absurd h (by norm_num)
  · -- treated as on the axis: |dip| < eps
    rw [not_le] at hb
    obtain ⟨v, hv⟩ := perp_ok n
    unfold pointToCircle pointToCircleThr
    dsimp only
    have hdn := dot_reject (p - c) n hn
    have hdec := reject_decomp (p - c) n
    rw [V3.normSq] at hb
    generalize hdtp : V3.dot (p - c) n = dtp at *
    generalize hdip : (p - c) - dtp * n = dip at *
    rw [if_neg (not_le.mpr hb), hv]
    simp only [bind, Except.bind]
    have hrr : 0 ≤ r * r + dtp * dtp := by nlinarith [mul_self_nonneg r, mul_self_nonneg dtp]
    have hsq : sqrt (r * r + dtp * dtp) * sqrt (r * r + dtp * dtp) = r * r + dtp * dtp :=
      Real.mul_self_sqrt hrr
    have hd0 : 0 ≤ sqrt (r * r + dtp * dtp) := Real.sqrt_nonneg _
    have hρ0 : 0 ≤ sqrt (V3.dot dip dip) := Real.sqrt_nonneg _
    have hρ2 : sqrt (V3.dot dip dip) * sqrt (V3.dot dip dip) = V3.dot dip dip :=
      Real.mul_self_sqrt (V3.normSq_nonneg dip)
    have hρlt : sqrt (V3.dot dip dip) < eps := by
      by_contra hc
      rw [not_lt] at hc
      have := mul_le_mul hc hc heps.le hρ0
      linarith
    have key : ∀ x, circleSet c r n x →
        sqrt (r * r + dtp * dtp) ≤ V3.norm (p - x) + sqrt (V3.dot dip dip) ∧
        V3.norm (p - x) ≤ sqrt (r * r + dtp * dtp) + sqrt (V3.dot dip dip) := by
      rintro x ⟨hx1, hx2⟩
      have hpx : p - x = (dip + dtp * n) - (x - c) := by
        rw [← hdec]; apply V3.ext' <;> simp
      have hD2 : V3.norm (p - x) * V3.norm (p - x) =
          sqrt (V3.dot dip dip) * sqrt (V3.dot dip dip) - 2 * V3.dot dip (x - c) + r * r + dtp * dtp := by
        rw [V3.norm_sq, hpx, band_id dip n (x - c) dtp hdn hx1 hn, hx2, hρ2]
      have ht1 : V3.dot dip (x - c) ≤ sqrt (V3.dot dip dip) * r :=
        dot_le_of_normSq hρ0 hr (by rw [V3.normSq]; exact hρ2.symm) (le_of_eq hx2)
      have ht2 : -(sqrt (V3.dot dip dip) * r) ≤ V3.dot dip (x - c) := by
        have hneg : V3.normSq ((-1 : ℝ) * (x - c)) ≤ r * r := by
          have : V3.normSq ((-1 : ℝ) * (x - c)) = V3.normSq (x - c) := by
            simp only [V3.normSq_def, V3.smul_x, V3.smul_y, V3.smul_z]; ring
          rw [this, hx2]
        have := dot_le_of_normSq (a := dip) (b := (-1 : ℝ) * (x - c)) hρ0 hr
          (by rw [V3.normSq]; exact hρ2.symm) hneg
        have e : V3.dot dip ((-1 : ℝ) * (x - c)) = -V3.dot dip (x - c) := by
          simp only [V3.dot_def, V3.smul_x, V3.smul_y, V3.smul_z]; ring
        rw [e] at this
        linarith
      exact band_scalar hr hρ0 hd0 (V3.norm_nonneg _) hsq hD2 ht1 ht2
    refine ⟨_, rfl, hd0, ?_, ?_⟩
    · intro x hx
      have := (key x hx).1
      show sqrt (r * r + dtp * dtp) ≤ _
      linarith
    · intro _ x hx
      have := (key x hx).2
      show _ ≤ sqrt (r * r + dtp * dtp) + eps
      linarith

end DistPoly
end D3
