/-
`point_to_circle` (non-convex target): direct argument.  For `x` on the circle
`|p − x|² = |p − c|² + r² − 2⟨dip, x − c⟩` is minimised by the radial projection
(Cauchy–Schwarz); on the axis every circle point is at the same distance `sqrt(r² + dtp²)`.
The ε-band `0 < |dip|² < epsilon` is excluded by hypothesis (there the code returns an
arbitrary circle point, see `pointToCircle_asIs_counterexample` in `Properties/C11`).
-/
import D3.Proofs.DistPolyConvex

namespace D3
namespace DistPoly

theorem pt3dEps_real : (pt3dEps : ℝ) = 1 / 10000000 := by unfold pt3dEps; norm_num

/-- pytransform3d's `perpendicular_to_vector` returns a non-zero vector orthogonal to `n`
unless `0 < |n.z| < eps` -/
theorem perp_spec (n : V) (hz : n.z = 0 ∨ (pt3dEps : ℝ) ≤ |n.z|) :
    ∃ v, perpendicularToVector n = .ok v ∧ V3.dot v n = 0 ∧ 0 < V3.normSq v := by
  unfold perpendicularToVector
  rw [absS_real]
  have heps : (0 : ℝ) < pt3dEps := by rw [pt3dEps_real]; norm_num
  split_ifs with h1 h2
  · have hz0 : n.z = 0 := by
      rcases hz with h | h
      · exact h
      · exact absurd h1 (not_lt.mpr h)
    exact ⟨_, rfl, by simp [V3.dot_def, hz0], by simp [V3.normSq_def]⟩
  · exfalso
    rw [isZero_real] at h2
    rw [h2] at h1
    simp at h1
    linarith
  · rw [isZero_real] at h2
    refine ⟨_, rfl, ?_, ?_⟩
    · simp only [V3.dot_def]
      field_simp
      ring
    · simp only [V3.normSq_def]
      nlinarith [mul_self_nonneg (-n.x / n.z)]

/-- `norm_vector` of a non-zero vector is a unit vector with the same orthogonal complement -/
theorem normVector_spec (v : V) (hv : 0 < V3.normSq v) :
    V3.dot (normVector v) (normVector v) = 1 ∧ ∀ n, V3.dot v n = 0 → V3.dot (normVector v) n = 0 := by
  unfold normVector
  dsimp only
  have hs : 0 < V3.norm v := Real.sqrt_pos.mpr hv
  have hs2 := V3.norm_sq v
  simp only [isZero_real, if_neg hs.ne']
  generalize V3.norm v = s at *
  constructor
  · simp only [V3.dot_def, V3.sdiv, V3.normSq_def] at *
    field_simp
    linarith
  · intro n hn
    simp only [V3.dot_def, V3.sdiv] at *
    field_simp
    linarith

theorem circle_id (dip n y : V) (dtp k : ℝ) (hdn : V3.dot dip n = 0) (hyn : V3.dot y n = 0) :
    V3.normSq ((dip + dtp * n) - y) - V3.normSq ((dip + dtp * n) - k * dip) =
      -2 * V3.dot dip y + V3.normSq y + (2 * k - k * k) * V3.dot dip dip := by
  simp only [V3.normSq_def, V3.dot_def, V3.sub_x, V3.sub_y, V3.sub_z, V3.add_x, V3.add_y, V3.add_z,
    V3.smul_x, V3.smul_y, V3.smul_z] at *
  linear_combination (2 * dtp * k) * hdn - (2 * dtp) * hyn

theorem axis_id (n y : V) (dtp : ℝ) (hnn : V3.dot n n = 1) (hyn : V3.dot y n = 0) :
    V3.normSq (dtp * n - y) = dtp * dtp + V3.normSq y := by
  simp only [V3.normSq_def, V3.dot_def, V3.sub_x, V3.sub_y, V3.sub_z,
    V3.smul_x, V3.smul_y, V3.smul_z] at *
  linear_combination (dtp * dtp) * hnn - (2 * dtp) * hyn

/-- **`point_to_circle`** for a unit normal, `r ≥ 0`, `epsilon > 0`, outside the ε-band
`0 < |dip|² < epsilon` and outside pytransform3d's own band `0 < |n.z| < 1e-7` -/
theorem pointToCircle_spec (p c : V) (r : ℝ) (n : V) (eps : ℝ) (hn : V3.dot n n = 1) (hr : 0 ≤ r)
    (heps : 0 < eps)
    (hband : V3.normSq ((p - c) - V3.dot (p - c) n * n) = 0 ∨
      eps ≤ V3.normSq ((p - c) - V3.dot (p - c) n * n))
    (hz : n.z = 0 ∨ (pt3dEps : ℝ) ≤ |n.z|) :
    ∃ res, pointToCircle p c r n eps = .ok res ∧ GoodPt (circleSet c r n) p res := by
  unfold pointToCircle
  dsimp only
  have hdn := dot_reject (p - c) n hn
  have hdec := reject_decomp (p - c) n
  rw [V3.normSq] at hband
  generalize hdtp : V3.dot (p - c) n = dtp at *
  generalize hdip : (p - c) - dtp * n = dip at *
  split_ifs with h1 h2
  · -- general branch, division by zero impossible
    exfalso
    rw [isZero_real] at h2
    have : sqrt (V3.dot dip dip) * sqrt (V3.dot dip dip) = V3.dot dip dip :=
      Real.mul_self_sqrt (V3.normSq_nonneg dip)
    rw [h2] at this
    linarith
  · -- general branch
    have hpos : 0 < V3.dot dip dip := lt_of_lt_of_le heps h1
    have hs : 0 < sqrt (V3.dot dip dip) := Real.sqrt_pos.mpr hpos
    have hs2 : sqrt (V3.dot dip dip) * sqrt (V3.dot dip dip) = V3.dot dip dip :=
      Real.mul_self_sqrt hpos.le
    generalize sqrt (V3.dot dip dip) = s at *
    have hk : r / s * s = r := div_mul_cancel₀ r hs.ne'
    generalize r / s = k at *
    have hcpc : c + k * dip - c = k * dip := by apply V3.ext' <;> simp
    have hmem : circleSet c r n (c + k * dip) := by
      refine ⟨?_, ?_⟩
      · rw [hcpc]
        simp only [V3.dot_def, V3.smul_x, V3.smul_y, V3.smul_z] at hdn ⊢
        linear_combination k * hdn
      · rw [hcpc]
        have : V3.normSq (k * dip) = (k * s) * (k * s) := by
          have : V3.normSq (k * dip) = k * k * V3.dot dip dip := by
            simp only [V3.normSq_def, V3.dot_def, V3.smul_x, V3.smul_y, V3.smul_z]; ring
          rw [this, ← hs2]; ring
        rw [this, hk]
    obtain ⟨h0, hd⟩ := mkRes_dist 0 p (c + k * dip)
    refine ⟨_, rfl, hmem, h0, hd, ?_⟩
    rintro x ⟨hx1, hx2⟩
    rw [hd]
    have hp : p - (c + k * dip) = (dip + dtp * n) - k * dip := by
      have h1 : p - (c + k * dip) = (p - c) - k * dip := by apply V3.ext' <;> simp <;> ring
      rw [h1]; rw [← hdec]
    have hpx : p - x = (dip + dtp * n) - (x - c) := by
      rw [← hdec]; apply V3.ext' <;> simp
    have hid := circle_id dip n (x - c) dtp k hdn hx1
    have hcs : V3.dot dip (x - c) ≤ s * r :=
      dot_le_of_normSq hs.le hr (by rw [V3.normSq]; exact hs2.symm) (le_of_eq hx2)
    rw [hp, hpx]
    have e : (2 * k - k * k) * V3.dot dip dip = 2 * (k * s) * s - (k * s) * (k * s) := by
      rw [← hs2]; ring
    rw [e, hk, hx2] at hid
    nlinarith
  · -- on the axis
    have hzero : V3.dot dip dip = 0 := by
      rcases hband with h | h
      · exact h
      · exact absurd h h1
    have hd0 : dip = ⟨0, 0, 0⟩ := V3.normSq_eq_zero hzero
    obtain ⟨v, hv, hvn, hvpos⟩ := perp_spec n hz
    rw [hv]
    simp only [bind, Except.bind]
    obtain ⟨hu1, hu2⟩ := normVector_spec v hvpos
    have hpn := hu2 n hvn
    generalize normVector v = pd at *
    have hpc : p - c = dtp * n := by
      rw [hdec, hd0]; apply V3.ext' <;> simp
    have hcpc : c + r * pd - c = r * pd := by apply V3.ext' <;> simp
    have hrr : 0 ≤ r * r + dtp * dtp := by nlinarith [mul_self_nonneg r, mul_self_nonneg dtp]
    have hmem : circleSet c r n (c + r * pd) := by
      refine ⟨?_, ?_⟩
      · rw [hcpc]
        simp only [V3.dot_def, V3.smul_x, V3.smul_y, V3.smul_z] at hpn ⊢
        linear_combination r * hpn
      · rw [hcpc]
        simp only [V3.normSq_def, V3.dot_def, V3.smul_x, V3.smul_y, V3.smul_z] at hu1 ⊢
        linear_combination (r * r) * hu1
    have hsq : sqrt (r * r + dtp * dtp) * sqrt (r * r + dtp * dtp) = r * r + dtp * dtp :=
      Real.mul_self_sqrt hrr
    have hown : V3.normSq (p - (c + r * pd)) = r * r + dtp * dtp := by
      have : p - (c + r * pd) = dtp * n - (c + r * pd - c) := by
        rw [← hpc]; apply V3.ext' <;> simp <;> ring
      rw [this, axis_id n _ dtp hn hmem.1, hmem.2]; ring
    refine ⟨_, rfl, hmem, Real.sqrt_nonneg _, ?_, ?_⟩
    · show sqrt (r * r + dtp * dtp) * sqrt (r * r + dtp * dtp) = _
      rw [hsq, hown]
    · rintro x ⟨hx1, hx2⟩
      show sqrt (r * r + dtp * dtp) * sqrt (r * r + dtp * dtp) ≤ _
      have : p - x = dtp * n - (x - c) := by
        rw [← hpc]; apply V3.ext' <;> simp
      rw [hsq, this, axis_id n _ dtp hn hx1, hx2]
      linarith

end DistPoly
end D3
