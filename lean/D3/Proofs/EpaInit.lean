/-
EPA, the initial polytope: `norm_vector`, orientation of the four faces `buildFaces` (rows as
they come), the orientation step of `_initialize_from_simplex` (`initFaces_oriented`), and
`fix_ccw_normal_direction` now (`fixCcw`) and before the upstream repair
(`fixCcw_asIs_before_fix`).
-/
import D3.Proofs.EpaExit

namespace D3
namespace Epa

/-- `⟨(B−A)×(C−A), D−A⟩` : the four as-is faces ABC, ACD, ADB, BDC are wound outward iff this
is negative -/
def orient (A B C D : V) : ℝ := V3.dot (V3.cross (B - A) (C - A)) (D - A)

theorem simplexOrient_eq (A B C D : V) : simplexOrient A B C D = orient A B C D := rfl

/-- exchanging two rows flips the orientation: of the 24 row orders of a tetrahedron exactly 12
are wound outward -/
theorem orient_swap01 (A B C D : V) : orient B A C D = - orient A B C D := by
  simp only [orient, V3.cross, V3.dot_def, V3.sub_x, V3.sub_y, V3.sub_z]; ring

theorem orient_swap12 (A B C D : V) : orient A C B D = - orient A B C D := by
  simp only [orient, V3.cross, V3.dot_def, V3.sub_x, V3.sub_y, V3.sub_z]; ring

theorem orient_swap23 (A B C D : V) : orient A B D C = - orient A B C D := by
  simp only [orient, V3.cross, V3.dot_def, V3.sub_x, V3.sub_y, V3.sub_z]; ring

/-! ### `norm_vector` -/

theorem norm_pos_of_normSq_pos {v : V} (h : 0 < V3.normSq v) : 0 < V3.norm v := by
  rw [V3.norm_def]; exact Real.sqrt_pos.mpr h

theorem normVector_eq {v : V} (h : 0 < V3.normSq v) : normVector v = V3.sdiv v (V3.norm v) := by
  unfold normVector
  rw [if_neg (ne_of_gt (norm_pos_of_normSq_pos h))]

/-- `⟨norm_vector v, x⟩ = ⟨v, x⟩ / ‖v‖` -/
theorem dot_normVector {v : V} (h : 0 < V3.normSq v) (x : V) :
    V3.dot (normVector v) x = V3.dot v x / V3.norm v := by
  rw [normVector_eq h]
  have hp := norm_pos_of_normSq_pos h
  simp only [V3.sdiv, V3.dot_def]
  field_simp

theorem normVector_unit {v : V} (h : 0 < V3.normSq v) : IsUnitVec (normVector v) := by
  unfold IsUnitVec
  rw [dot_normVector h, V3.dot_comm, dot_normVector h]
  have hp := norm_pos_of_normSq_pos h
  have hs := V3.norm_sq v
  rw [show V3.dot v v = V3.normSq v from rfl]
  field_simp
  nlinarith [hs]

/-- a non-zero triple product forces a non-zero cross product -/
theorem cross_normSq_pos_of_dot_ne {u v w : V} (h : V3.dot (V3.cross u v) w ≠ 0) :
    0 < V3.normSq (V3.cross u v) := by
  rcases lt_or_eq_of_le (V3.normSq_nonneg (V3.cross u v)) with hlt | heq
  · exact hlt
  · exfalso
    have hz := V3.normSq_eq_zero heq.symm
    apply h
    rw [hz]; simp [V3.dot_def]

/-! ### the four initial faces -/

/-- raw normals of the four as-is faces -/
def nABC (A B C : V) : V := V3.cross (B - A) (C - A)

theorem nABC_D (A B C D : V) : V3.dot (nABC A B C) (D - A) = orient A B C D := rfl
theorem nACD_B (A B C D : V) : V3.dot (nABC A C D) (B - A) = orient A B C D := by
  simp only [nABC, orient, V3.cross, V3.dot_def, V3.sub_x, V3.sub_y, V3.sub_z]; ring
theorem nADB_C (A B C D : V) : V3.dot (nABC A D B) (C - A) = orient A B C D := by
  simp only [nABC, orient, V3.cross, V3.dot_def, V3.sub_x, V3.sub_y, V3.sub_z]; ring
theorem nBDC_A (A B C D : V) : V3.dot (nABC B D C) (A - B) = orient A B C D := by
  simp only [nABC, orient, V3.cross, V3.dot_def, V3.sub_x, V3.sub_y, V3.sub_z]; ring

theorem mkFace_n (a b c : V) : (mkFace a b c).n = normVector (nABC a b c) := rfl
theorem mkFace_a (a b c : V) : (mkFace a b c).a = a := rfl

/-- for a face whose raw normal is non-zero: `Inner` ⇔ the raw height is `≤ 0` -/
theorem inner_mkFace_iff {a b c : V} (h : 0 < V3.normSq (nABC a b c)) (x : V) :
    Inner (mkFace a b c) x ↔ V3.dot (nABC a b c) (x - a) ≤ 0 := by
  unfold Inner faceDist
  rw [mkFace_n, mkFace_a, V3.dot_comm a, dot_normVector h, dot_normVector h]
  have hp := norm_pos_of_normSq_pos h
  rw [div_le_div_iff_of_pos_right hp]
  simp only [V3.dot_def, V3.sub_x, V3.sub_y, V3.sub_z]
  constructor <;> intro hh <;> nlinarith [hh]

/-- `d_f = −⟨N, 0 − a⟩ / ‖N‖` : sign of the face distance -/
theorem faceDist_mkFace {a b c : V} (h : 0 < V3.normSq (nABC a b c)) :
    faceDist (mkFace a b c) = V3.dot (nABC a b c) a / V3.norm (nABC a b c) := by
  unfold faceDist
  rw [mkFace_n, mkFace_a, V3.dot_comm a, dot_normVector h]

/-- origin as a convex combination of the four simplex points -/
structure OriginInside (A B C D : V) (la lb lc ld : ℝ) : Prop where
  sum : la + lb + lc + ld = 1
  x : la * A.x + lb * B.x + lc * C.x + ld * D.x = 0
  y : la * A.y + lb * B.y + lc * C.y + ld * D.y = 0
  z : la * A.z + lb * B.z + lc * C.z + ld * D.z = 0

/-- `⟨N_ABC, A⟩ = −λ_D · orient` etc.: the raw face distances of the four faces -/
theorem raw_dist_ABC {A B C D : V} {la lb lc ld : ℝ} (h : OriginInside A B C D la lb lc ld) :
    V3.dot (nABC A B C) A = - ld * orient A B C D := by
  obtain ⟨hs, hx, hy, hz⟩ := h
  have ea : la = 1 - lb - lc - ld := by linarith
  subst ea
  simp only [nABC, orient, V3.cross, V3.dot_def, V3.sub_x, V3.sub_y, V3.sub_z]
  linear_combination
    ((B.y - A.y) * (C.z - A.z) - (B.z - A.z) * (C.y - A.y)) * hx +
    ((B.z - A.z) * (C.x - A.x) - (B.x - A.x) * (C.z - A.z)) * hy +
    ((B.x - A.x) * (C.y - A.y) - (B.y - A.y) * (C.x - A.x)) * hz

theorem raw_dist_ACD {A B C D : V} {la lb lc ld : ℝ} (h : OriginInside A B C D la lb lc ld) :
    V3.dot (nABC A C D) A = - lb * orient A B C D := by
  obtain ⟨hs, hx, hy, hz⟩ := h
  have ea : la = 1 - lb - lc - ld := by linarith
  subst ea
  simp only [nABC, orient, V3.cross, V3.dot_def, V3.sub_x, V3.sub_y, V3.sub_z]
  linear_combination
    ((C.y - A.y) * (D.z - A.z) - (C.z - A.z) * (D.y - A.y)) * hx +
    ((C.z - A.z) * (D.x - A.x) - (C.x - A.x) * (D.z - A.z)) * hy +
    ((C.x - A.x) * (D.y - A.y) - (C.y - A.y) * (D.x - A.x)) * hz

theorem raw_dist_ADB {A B C D : V} {la lb lc ld : ℝ} (h : OriginInside A B C D la lb lc ld) :
    V3.dot (nABC A D B) A = - lc * orient A B C D := by
  obtain ⟨hs, hx, hy, hz⟩ := h
  have ea : la = 1 - lb - lc - ld := by linarith
  subst ea
  simp only [nABC, orient, V3.cross, V3.dot_def, V3.sub_x, V3.sub_y, V3.sub_z]
  linear_combination
    ((D.y - A.y) * (B.z - A.z) - (D.z - A.z) * (B.y - A.y)) * hx +
    ((D.z - A.z) * (B.x - A.x) - (D.x - A.x) * (B.z - A.z)) * hy +
    ((D.x - A.x) * (B.y - A.y) - (D.y - A.y) * (B.x - A.x)) * hz

theorem raw_dist_BDC {A B C D : V} {la lb lc ld : ℝ} (h : OriginInside A B C D la lb lc ld) :
    V3.dot (nABC B D C) B = - la * orient A B C D := by
  obtain ⟨hs, hx, hy, hz⟩ := h
  have eb : lb = 1 - la - lc - ld := by linarith
  subst eb
  simp only [nABC, orient, V3.cross, V3.dot_def, V3.sub_x, V3.sub_y, V3.sub_z]
  linear_combination
    ((D.y - B.y) * (C.z - B.z) - (D.z - B.z) * (C.y - B.y)) * hx +
    ((D.z - B.z) * (C.x - B.x) - (D.x - B.x) * (C.z - B.z)) * hy +
    ((D.x - B.x) * (C.y - B.y) - (D.y - B.y) * (C.x - B.x)) * hz

/-- all four raw normals are non-zero for a non-degenerate tetrahedron -/
theorem raw_normals_pos {A B C D : V} (h : orient A B C D ≠ 0) :
    0 < V3.normSq (nABC A B C) ∧ 0 < V3.normSq (nABC A C D) ∧
    0 < V3.normSq (nABC A D B) ∧ 0 < V3.normSq (nABC B D C) := by
  refine ⟨?_, ?_, ?_, ?_⟩
  · exact cross_normSq_pos_of_dot_ne (w := D - A) (by rw [← nABC, nABC_D]; exact h)
  · exact cross_normSq_pos_of_dot_ne (w := B - A) (by rw [← nABC, nACD_B]; exact h)
  · exact cross_normSq_pos_of_dot_ne (w := C - A) (by rw [← nABC, nADB_C]; exact h)
  · exact cross_normSq_pos_of_dot_ne (w := A - B) (by rw [← nABC, nBDC_A]; exact h)

/-! ### convex sets -/

/-- closed under segments -/
def ConvexSet (M : V → Prop) : Prop :=
  ∀ x y, M x → M y → ∀ t : ℝ, 0 ≤ t → t ≤ 1 → M ((1 - t) * x + t * y)

/-- closed under convex combinations of four points -/
def Convex4 (M : V → Prop) : Prop :=
  ∀ a b c d, M a → M b → M c → M d → ∀ la lb lc ld : ℝ, 0 ≤ la → 0 ≤ lb → 0 ≤ lc → 0 ≤ ld →
    la + lb + lc + ld = 1 → M (la * a + lb * b + lc * c + ld * d)

theorem ConvexSet.comb2 {M : V → Prop} (h : ConvexSet M) {a b : V} (ha : M a) (hb : M b)
    {la lb : ℝ} (h0 : 0 ≤ la) (h1 : 0 ≤ lb) (hs : la + lb = 1) : M (la * a + lb * b) := by
  have := h a b ha hb lb h1 (by linarith)
  have e : (1 - lb) = la := by linarith
  rw [e] at this; exact this

theorem ConvexSet.comb3 {M : V → Prop} (h : ConvexSet M) {a b c : V} (ha : M a) (hb : M b)
    (hc : M c) {la lb lc : ℝ} (h0 : 0 ≤ la) (h1 : 0 ≤ lb) (h2 : 0 ≤ lc) (hs : la + lb + lc = 1) :
    M (la * a + lb * b + lc * c) := by
  by_cases hz : la + lb = 0
  · have e1 : la = 0 := by linarith
    have e2 : lb = 0 := by linarith
    have e3 : lc = 1 := by linarith
    subst e1 e2 e3
    have : (0 : ℝ) * a + (0 : ℝ) * b + (1 : ℝ) * c = c := by
      apply V3.ext' <;> simp
    rw [this]; exact hc
  · have hpos : 0 < la + lb := lt_of_le_of_ne (by linarith) (Ne.symm hz)
    have hy := h.comb2 ha hb (la := la / (la + lb)) (lb := lb / (la + lb))
      (div_nonneg h0 hpos.le) (div_nonneg h1 hpos.le) (by field_simp)
    have := h.comb2 hy hc (la := la + lb) (lb := lc) hpos.le h2 (by linarith)
    have e : (la + lb) * (la / (la + lb) * a + lb / (la + lb) * b) + lc * c
        = la * a + lb * b + lc * c := by
      apply V3.ext' <;> simp <;> field_simp
    rw [e] at this; exact this

theorem ConvexSet.convex4 {M : V → Prop} (h : ConvexSet M) : Convex4 M := by
  intro a b c d ha hb hc hd la lb lc ld h0 h1 h2 h3 hs
  by_cases hz : la + lb + lc = 0
  · have e1 : la = 0 := by linarith
    have e2 : lb = 0 := by linarith
    have e3 : lc = 0 := by linarith
    have e4 : ld = 1 := by linarith
    subst e1 e2 e3 e4
    have : (0 : ℝ) * a + (0 : ℝ) * b + (0 : ℝ) * c + (1 : ℝ) * d = d := by
      apply V3.ext' <;> simp
    rw [this]; exact hd
  · have hpos : 0 < la + lb + lc := lt_of_le_of_ne (by linarith) (Ne.symm hz)
    have hy := h.comb3 ha hb hc (la := la / (la + lb + lc)) (lb := lb / (la + lb + lc))
      (lc := lc / (la + lb + lc))
      (div_nonneg h0 hpos.le) (div_nonneg h1 hpos.le) (div_nonneg h2 hpos.le) (by field_simp)
    have := h.comb2 hy hd (la := la + lb + lc) (lb := ld) hpos.le h3 (by linarith)
    have e : (la + lb + lc) * (la / (la + lb + lc) * a + lb / (la + lb + lc) * b
        + lc / (la + lb + lc) * c) + ld * d = la * a + lb * b + lc * c + ld * d := by
      apply V3.ext' <;> simp <;> field_simp
    rw [e] at this; exact this

/-- barycentric reconstruction: every `x` is the affine combination of the four vertices with
weights `height_opposite_face(x) / orient` -/
theorem barycentric (A B C D x : V) :
    orient A B C D * x.x = V3.dot (nABC B D C) (x - B) * A.x + V3.dot (nABC A C D) (x - A) * B.x
      + V3.dot (nABC A D B) (x - A) * C.x + V3.dot (nABC A B C) (x - A) * D.x ∧
    orient A B C D * x.y = V3.dot (nABC B D C) (x - B) * A.y + V3.dot (nABC A C D) (x - A) * B.y
      + V3.dot (nABC A D B) (x - A) * C.y + V3.dot (nABC A B C) (x - A) * D.y ∧
    orient A B C D * x.z = V3.dot (nABC B D C) (x - B) * A.z + V3.dot (nABC A C D) (x - A) * B.z
      + V3.dot (nABC A D B) (x - A) * C.z + V3.dot (nABC A B C) (x - A) * D.z ∧
    orient A B C D = V3.dot (nABC B D C) (x - B) + V3.dot (nABC A C D) (x - A)
      + V3.dot (nABC A D B) (x - A) + V3.dot (nABC A B C) (x - A) := by
  simp only [nABC, orient, V3.cross, V3.dot_def, V3.sub_x, V3.sub_y, V3.sub_z]
  refine ⟨?_, ?_, ?_, ?_⟩ <;> ring

/-! ### the oriented construction of `_initialize_from_simplex` -/

theorem initFaces_of_pos {A B C D : V} (h : 0 < orient A B C D) :
    initFaces A B C D = buildFaces A C B D := by
  unfold initFaces; rw [simplexOrient_eq, if_pos h]

theorem initFaces_of_not_pos {A B C D : V} (h : ¬ 0 < orient A B C D) :
    initFaces A B C D = buildFaces A B C D := by
  unfold initFaces; rw [simplexOrient_eq, if_neg h]

/-- whatever the row order, the faces are those of a simplex `(A', B', C', D')` with the same
four points and `orient ≤ 0`; for a non-flat simplex `orient < 0` (wound outward) -/
theorem initFaces_oriented (A B C D : V) :
    (initFaces A B C D = buildFaces A B C D ∧ orient A B C D ≤ 0) ∨
    (initFaces A B C D = buildFaces A C B D ∧ orient A C B D < 0) := by
  by_cases h : 0 < orient A B C D
  · right; exact ⟨initFaces_of_pos h, by rw [orient_swap12]; linarith⟩
  · left; exact ⟨initFaces_of_not_pos h, not_lt.mp h⟩

theorem OriginInside.swap12 {A B C D : V} {la lb lc ld : ℝ} (h : OriginInside A B C D la lb lc ld) :
    OriginInside A C B D la lc lb ld := by
  obtain ⟨hs, hx, hy, hz⟩ := h
  exact ⟨by linarith, by linarith, by linarith, by linarith⟩

/-! ### `fix_ccw_normal_direction`, now and before the upstream repair -/

/-- when the flip condition holds the code swaps vertices 0 and 1 and negates the normal -/
theorem fixCcw_flip {bias : ℝ} {f : Face ℝ} (h : V3.dot f.a f.n + bias < 0) :
    fixCcw bias f = ⟨f.b, f.a, f.c, -f.n⟩ := by
  unfold fixCcw; rw [if_pos h]

/-- before the repair the result was `(b, b, c)` with the negated normal: vertex `a` was gone
(the swap went through numpy views) -/
theorem fixCcw_asIs_before_fix_flip {bias : ℝ} {f : Face ℝ} (h : V3.dot f.a f.n + bias < 0) :
    fixCcw_asIs_before_fix bias f = ⟨f.b, f.b, f.c, -f.n⟩ := by
  unfold fixCcw_asIs_before_fix; rw [if_pos h]

theorem fixCcw_keep {bias : ℝ} {f : Face ℝ} (h : ¬ V3.dot f.a f.n + bias < 0) :
    fixCcw bias f = f ∧ fixCcw_asIs_before_fix bias f = f := by
  unfold fixCcw fixCcw_asIs_before_fix; rw [if_neg h, if_neg h]; exact ⟨rfl, rfl⟩

/-- the repaired winding repair keeps the three vertices of the face -/
theorem fixCcw_verts_perm (bias : ℝ) (f : Face ℝ) :
    (faceVerts (fixCcw bias f)).Perm (faceVerts f) := by
  unfold fixCcw
  split
  · simp only [faceVerts]; exact List.Perm.swap _ _ _
  · exact List.Perm.refl _

end Epa
end D3
