/-
`add_collider` / `update_collider_poses` histories of the BVH model: what the dict of
colliders and the payload list are after any sequence of operations (scalar-independent),
and — on the tree layer, from C05's `history_leaves` — that rebuilding the tree from the
current AABBs by repeated `insert_aabb` yields a tight tree whose leaves are exactly those
AABBs.
-/
import D3.Properties.C05
import D3.Proofs.BvhDict

set_option linter.unusedSectionVars false
set_option linter.unusedVariables false

namespace D3
namespace Bvh
open Aabb

section Generic
scalar_variables

/-- every collider with the transform manager's current transform -/
def refreshed (getT : Frame → Pose α) (l : List (Frame × Collider α)) : List (Frame × Collider α) :=
  l.map fun p => (p.1, p.2.updatePose (getT p.1))

/-- `insert_aabb(collider.aabb(), (frame, collider))` for every entry, in order -/
def rebuild : Aabb.Tree α → Array (Frame × Collider α) → List (Frame × Collider α) →
    Except Err (Aabb.Tree α × Array (Frame × Collider α))
  | tree, pl, [] => .ok (tree, pl)
  | tree, pl, (f, c) :: rest =>
    match insertPayload tree pl f c with
    | .error e => .error e
    | .ok (tree', pl') => rebuild tree' pl' rest

theorem insertPayload_payload (tree tree' : Aabb.Tree α) (pl pl' : Array (Frame × Collider α))
    (f : Frame) (c : Collider α) (h : insertPayload tree pl f c = .ok (tree', pl')) :
    pl' = pl.push (f, c) := by
  unfold insertPayload at h
  split at h
  · cases h
  · simp only [Except.ok.injEq, Prod.mk.injEq] at h
    exact h.2.symm

theorem rebuild_payload : ∀ (l : List (Frame × Collider α)) (tree tree' : Aabb.Tree α)
    (pl pl' : Array (Frame × Collider α)), rebuild tree pl l = .ok (tree', pl') →
    pl' = pl ++ l.toArray
  | [], tree, tree', pl, pl', h => by
    simp only [rebuild, Except.ok.injEq, Prod.mk.injEq] at h
    simp [h.2]
  | (f, c) :: rest, tree, tree', pl, pl', h => by
    unfold rebuild at h
    cases hi : insertPayload tree pl f c with
    | error e => simp [hi] at h
    | ok r =>
      obtain ⟨t1, p1⟩ := r
      simp only [hi] at h
      have h1 := insertPayload_payload tree t1 pl p1 f c hi
      have h2 := rebuild_payload rest t1 tree' p1 pl' h
      rw [h2, h1]
      simp

theorem updateLoop_spec (getT : Frame → Pose α) :
    ∀ (l done : List (Frame × Collider α)) (tree : Aabb.Tree α) (pl : Array (Frame × Collider α))
      (s' : State α), updateLoop getT l done tree pl = .ok s' →
      s'.colliders = done.reverse ++ refreshed getT l ∧
      rebuild tree pl (refreshed getT l) = .ok (s'.tree, s'.payload)
  | [], done, tree, pl, s', h => by
    simp only [updateLoop, Except.ok.injEq] at h
    subst h
    simp [refreshed, rebuild]
  | (f, c) :: rest, done, tree, pl, s', h => by
    unfold updateLoop at h
    simp only at h
    cases hi : insertPayload tree pl f (c.updatePose (getT f)) with
    | error e => simp [hi] at h
    | ok r =>
      obtain ⟨t1, p1⟩ := r
      simp only [hi] at h
      obtain ⟨h1, h2⟩ := updateLoop_spec getT rest _ t1 p1 s' h
      refine ⟨?_, ?_⟩
      · rw [h1]; simp [refreshed]
      · simp only [refreshed, List.map_cons, rebuild, hi]
        exact h2

/-- **`update_collider_poses`**: the dict keeps its keys and order, every collider keeps its
shape and gets the manager's transform; tree and payload are rebuilt from scratch out of
exactly these refreshed colliders. -/
theorem update_spec (getT : Frame → Pose α) (s s' : State α)
    (h : updateColliderPoses getT s = .ok s') :
    s'.colliders = refreshed getT s.colliders ∧
    rebuild Aabb.Tree.empty #[] s'.colliders = .ok (s'.tree, s'.payload) ∧
    s'.payload = s'.colliders.toArray := by
  obtain ⟨h1, h2⟩ := updateLoop_spec getT s.colliders [] Aabb.Tree.empty #[] s' h
  simp only [List.reverse_nil, List.nil_append] at h1
  rw [← h1] at h2
  refine ⟨h1, h2, ?_⟩
  have := rebuild_payload _ _ _ _ _ h2
  simpa using this

theorem addCollider_colliders (s s' : State α) (f : Frame) (c : Collider α)
    (h : addCollider s f c = .ok s') : s'.colliders = dSet s.colliders f c := by
  unfold addCollider at h
  split at h
  · cases h
  · simp only [Except.ok.injEq] at h
    subst h
    rfl

theorem dKeys_refreshed (getT : Frame → Pose α) (l : List (Frame × Collider α)) :
    dKeys (refreshed getT l) = dKeys l := by
  simp [refreshed, dKeys, List.map_map, Function.comp_def]

theorem pose_refreshed (getT : Frame → Pose α) (l : List (Frame × Collider α)) (f : Frame)
    (c : Collider α) (h : (f, c) ∈ refreshed getT l) :
    c.pose = getT f ∧ ∃ c0, (f, c0) ∈ l ∧ c.aabb = c0.aabb := by
  simp only [refreshed, List.mem_map, Prod.mk.injEq] at h
  obtain ⟨p, hp, rfl, rfl⟩ := h
  exact ⟨rfl, p.2, hp, rfl⟩

/-- frames named by the `add_collider` calls of a history -/
def addedFrames : List (Op α) → List Frame
  | [] => []
  | .add f _ :: os => f :: addedFrames os
  | .update _ :: os => addedFrames os

theorem run_append (s : State α) (a b : List (Op α)) :
    run s (a ++ b) = (match run s a with
      | .error e => .error e
      | .ok s1 => run s1 b) := by
  induction a generalizing s with
  | nil => simp [run]
  | cons o os ih =>
    simp only [List.cons_append, run]
    cases step s o with
    | error e => rfl
    | ok s1 => exact ih s1

/-- keys of `colliders_` after a history: still distinct, and exactly the old keys plus the
added frames -/
theorem run_keys : ∀ (ops : List (Op α)) (s s' : State α), run s ops = .ok s' →
    (dKeys s.colliders).Nodup →
    (dKeys s'.colliders).Nodup ∧
      ∀ f, f ∈ dKeys s'.colliders ↔ f ∈ dKeys s.colliders ∨ f ∈ addedFrames ops
  | [], s, s', h, hn => by
    simp only [run, Except.ok.injEq] at h
    subst h
    exact ⟨hn, by simp [addedFrames]⟩
  | .add f c :: os, s, s', h, hn => by
    simp only [run, step] at h
    cases ha : addCollider s f c with
    | error e => simp [ha] at h
    | ok s1 =>
      simp only [ha] at h
      have hc := addCollider_colliders s s1 f c ha
      have hn1 : (dKeys s1.colliders).Nodup := by rw [hc]; exact nodup_dKeys_dSet _ _ _ hn
      obtain ⟨h1, h2⟩ := run_keys os s1 s' h hn1
      refine ⟨h1, ?_⟩
      intro x
      rw [h2 x, hc, mem_dKeys_dSet]
      simp only [addedFrames, List.mem_cons]
      tauto
  | .update getT :: os, s, s', h, hn => by
    simp only [run, step] at h
    cases hu : updateColliderPoses getT s with
    | error e => simp [hu] at h
    | ok s1 =>
      simp only [hu] at h
      have hc := (update_spec getT s s1 hu).1
      have hk : dKeys s1.colliders = dKeys s.colliders := by rw [hc]; exact dKeys_refreshed _ _
      obtain ⟨h1, h2⟩ := run_keys os s1 s' h (hk ▸ hn)
      refine ⟨h1, ?_⟩
      intro x
      rw [h2 x, hk]
      simp [addedFrames]

end Generic

/-! ### tree layer: the rebuilt tree holds exactly the current AABBs -/

/-- node row of the `k`-th `insert_aabb` on a fresh tree: the first leaf is row 0, the `k`-th
(`k ≥ 1`) leaf is row `2k-1` and its new parent row `2k` -/
def slotLeaf (k : Nat) : Int := if k = 0 then 0 else 2 * (k : Int) - 1
def slotParent (k : Nat) : Int := 2 * (k : Int)

def tagFrom : Nat → List (Box ℝ) → List (Int × Box ℝ)
  | _, [] => []
  | k, b :: bs => (slotLeaf k, b) :: tagFrom (k + 1) bs

def insFrom : Nat → List (Box ℝ) → List (Int × Box ℝ × Int)
  | _, [] => []
  | k, b :: bs => (slotLeaf k, b, slotParent k) :: insFrom (k + 1) bs

/-- the tree `update_collider_poses` builds, on the tree layer (C05's `T.insert`) -/
noncomputable def buildT : List (Box ℝ) → Option (T ℝ)
  | [] => none
  | b :: bs => (insFrom 1 bs).foldlM (fun t x => t.insert x.1 x.2.1 x.2.2) (T.leaf 0 b)

theorem insFrom_tags : ∀ (k : Nat) (bs : List (Box ℝ)),
    (insFrom k bs).map (fun x => (x.1, x.2.1)) = tagFrom k bs
  | _, [] => rfl
  | k, b :: bs => by simp [insFrom, tagFrom, insFrom_tags (k + 1) bs]

theorem insFrom_valid : ∀ (k : Nat) (bs : List (Box ℝ)), (∀ b ∈ bs, b.Valid) →
    ∀ x ∈ insFrom k bs, x.2.1.Valid
  | _, [], _, x, hx => by simp [insFrom] at hx
  | k, b :: bs, hv, x, hx => by
    simp only [insFrom, List.mem_cons] at hx
    rcases hx with rfl | hx
    · exact hv b List.mem_cons_self
    · exact insFrom_valid (k + 1) bs (fun b' hb' => hv b' (List.mem_cons_of_mem _ hb')) x hx

theorem insFrom_length : ∀ (k : Nat) (bs : List (Box ℝ)), (insFrom k bs).length = bs.length
  | _, [] => rfl
  | k, b :: bs => by simp [insFrom, insFrom_length (k + 1) bs]

/-- **tree layer of `update_collider_poses`**: inserting the current AABBs one by one never
trips the cost assertion and yields a tight tree whose leaves are exactly these AABBs, the
`k`-th one in row `slotLeaf k`, with `2n-1` nodes. -/
theorem buildT_leaves (b : Box ℝ) (bs : List (Box ℝ)) (hv : ∀ x ∈ b :: bs, x.Valid) :
    ∃ t, buildT (b :: bs) = some t ∧ t.Tight ∧
      t.leaves.Perm (tagFrom 0 (b :: bs)) ∧ t.size = 2 * bs.length + 1 := by
  have hvb : b.Valid := hv b List.mem_cons_self
  have hvs : ∀ x ∈ bs, x.Valid := fun x hx => hv x (List.mem_cons_of_mem _ hx)
  obtain ⟨t, ht, htight, _, hperm, hsize⟩ :=
    C05.history_leaves (insFrom 1 bs) (T.leaf 0 b) trivial hvb (insFrom_valid 1 bs hvs)
  refine ⟨t, ht, htight, ?_, ?_⟩
  · rw [insFrom_tags] at hperm
    refine hperm.trans ?_
    simp only [T.leaves, tagFrom]
    have h0 : slotLeaf 0 = 0 := by simp [slotLeaf]
    rw [h0]
    exact (List.perm_append_comm.trans (by simp)).trans
      (List.Perm.cons _ (List.reverse_perm _))
  · rw [hsize, insFrom_length]
    simp [T.size]
    omega

end Bvh
end D3
