/-
`make_tetrahedral_box` / `make_tetrahedral_cube` over ℝ: assembly of the per-class facts of
`TetraMeshBoxCases.lean` into statements about `makeTetrahedralBox size` for every positive size.
-/
import D3.Proofs.TetraMeshBoxCases

namespace D3
namespace TetraMesh

theorem tol_lit_pos : (0 : ℝ) < tolFactor := by unfold tolFactor; norm_num

/-- every class with at least one exactly-zero central half size -/
theorem boxFromCentral_good (hs hc : V3 ℝ) (mn : ℝ)
    (hpos : 0 < hs.x ∧ 0 < hs.y ∧ 0 < hs.z)
    (hc0 : 0 ≤ hc.x ∧ 0 ≤ hc.y ∧ 0 ≤ hc.z)
    (hlt : hc.x < hs.x ∧ hc.y < hs.y ∧ hc.z < hs.z)
    (hz : hc.x = 0 ∨ hc.y = 0 ∨ hc.z = 0) :
    ∃ m, boxFromCentral hs hc mn = .ok m ∧ BoxGood hs.x hs.y hs.z mn m := by
  obtain ⟨hx, hy, hz'⟩ := hs
  obtain ⟨cx, cy, cz⟩ := hc
  obtain ⟨h1, h2, h3⟩ := hpos
  obtain ⟨n1, n2, n3⟩ := hc0
  obtain ⟨l1, l2, l3⟩ := hlt
  simp only at h1 h2 h3 n1 n2 n3 l1 l2 l3 hz
  by_cases ex : cx = 0 <;> by_cases ey : cy = 0 <;> by_cases ez : cz = 0
  · subst ex ey ez
    exact ⟨_, boxFromCentral_TTT hx hy hz' mn, boxGood_TTT hx hy hz' mn h1 h2 h3⟩
  · subst ex ey
    have p3 : 0 < cz := lt_of_le_of_ne n3 (Ne.symm ez)
    exact ⟨_, boxFromCentral_TTF hx hy hz' cz mn ez, boxGood_TTF hx hy hz' cz mn h1 h2 h3 p3 l3⟩
  · subst ex ez
    have p2 : 0 < cy := lt_of_le_of_ne n2 (Ne.symm ey)
    exact ⟨_, boxFromCentral_TFT hx hy hz' cy mn ey, boxGood_TFT hx hy hz' cy mn h1 h2 h3 p2 l2⟩
  · subst ex
    have p2 : 0 < cy := lt_of_le_of_ne n2 (Ne.symm ey)
    have p3 : 0 < cz := lt_of_le_of_ne n3 (Ne.symm ez)
    exact ⟨_, boxFromCentral_TFF hx hy hz' cy cz mn ey ez,
      boxGood_TFF hx hy hz' cy cz mn h1 h2 h3 p2 l2 p3 l3⟩
  · subst ey ez
    have p1 : 0 < cx := lt_of_le_of_ne n1 (Ne.symm ex)
    exact ⟨_, boxFromCentral_FTT hx hy hz' cx mn ex, boxGood_FTT hx hy hz' cx mn h1 h2 h3 p1 l1⟩
  · subst ey
    have p1 : 0 < cx := lt_of_le_of_ne n1 (Ne.symm ex)
    have p3 : 0 < cz := lt_of_le_of_ne n3 (Ne.symm ez)
    exact ⟨_, boxFromCentral_FTF hx hy hz' cx cz mn ex ez,
      boxGood_FTF hx hy hz' cx cz mn h1 h2 h3 p1 l1 p3 l3⟩
  · subst ez
    have p1 : 0 < cx := lt_of_le_of_ne n1 (Ne.symm ex)
    have p2 : 0 < cy := lt_of_le_of_ne n2 (Ne.symm ey)
    exact ⟨_, boxFromCentral_FFT hx hy hz' cx cy mn ex ey,
      boxGood_FFT hx hy hz' cx cy mn h1 h2 h3 p1 l1 p2 l2⟩
  · exfalso
    rcases hz with h | h | h
    · exact ex h
    · exact ey h
    · exact ez h

/-! ### the thresholded central half sizes -/

theorem minHalfSize_le (hs : V3 ℝ) :
    minHalfSize hs ≤ hs.x ∧ minHalfSize hs ≤ hs.y ∧ minHalfSize hs ≤ hs.z := by
  unfold minHalfSize
  refine ⟨le_trans (min_le_left _ _) (min_le_left _ _), le_trans (min_le_left _ _) (min_le_right _ _),
    min_le_right _ _⟩

theorem minHalfSize_mem (hs : V3 ℝ) :
    minHalfSize hs = hs.x ∨ minHalfSize hs = hs.y ∨ minHalfSize hs = hs.z := by
  unfold minHalfSize
  rcases min_choice (min hs.x hs.y) hs.z with h | h
  · rw [h]; rcases min_choice hs.x hs.y with h' | h' <;> simp [h']
  · simp [h]

theorem minHalfSize_pos (hs : V3 ℝ) (h : 0 < hs.x ∧ 0 < hs.y ∧ 0 < hs.z) : 0 < minHalfSize hs := by
  rcases minHalfSize_mem hs with e | e | e <;> rw [e]
  · exact h.1
  · exact h.2.1
  · exact h.2.2

theorem relativeTolerance_pos (mn : ℝ) : 0 < relativeTolerance mn := by
  unfold relativeTolerance
  have : (0 : ℝ) < max 1 mn := lt_of_lt_of_le one_pos (le_max_left _ _)
  exact mul_pos tol_lit_pos this

theorem threshold_spec (tol x : ℝ) (ht : 0 < tol) (hx : 0 ≤ x) :
    0 ≤ threshold tol x ∧ threshold tol x ≤ x ∧ (x = 0 → threshold tol x = 0) ∧
      (threshold tol x = 0 ∨ threshold tol x = x) := by
  unfold threshold
  split
  · exact ⟨le_refl _, hx, fun _ => rfl, Or.inl rfl⟩
  · rename_i h
    refine ⟨hx, le_refl _, fun h0 => ?_, Or.inr rfl⟩
    exfalso; apply h; rw [h0]; exact le_of_lt ht

/-- facts about `half_central` for positive half sizes -/
theorem halfCentralOf_spec (hs : V3 ℝ) (h : 0 < hs.x ∧ 0 < hs.y ∧ 0 < hs.z) :
    let hc := halfCentralOf hs
    (0 ≤ hc.x ∧ 0 ≤ hc.y ∧ 0 ≤ hc.z) ∧ (hc.x < hs.x ∧ hc.y < hs.y ∧ hc.z < hs.z) ∧
      (hc.x = 0 ∨ hc.y = 0 ∨ hc.z = 0) := by
  have hm := minHalfSize_pos hs h
  obtain ⟨lx, ly, lz⟩ := minHalfSize_le hs
  have ht := relativeTolerance_pos (minHalfSize hs)
  obtain ⟨a1, a2, a3, _⟩ := threshold_spec (relativeTolerance (minHalfSize hs)) (hs.x - minHalfSize hs) ht (by linarith)
  obtain ⟨b1, b2, b3, _⟩ := threshold_spec (relativeTolerance (minHalfSize hs)) (hs.y - minHalfSize hs) ht (by linarith)
  obtain ⟨c1, c2, c3, _⟩ := threshold_spec (relativeTolerance (minHalfSize hs)) (hs.z - minHalfSize hs) ht (by linarith)
  simp only [halfCentralOf]
  refine ⟨⟨a1, b1, c1⟩, ⟨by linarith, by linarith, by linarith⟩, ?_⟩
  rcases minHalfSize_mem hs with e | e | e
  · exact Or.inl (a3 (by linarith))
  · exact Or.inr (Or.inl (b3 (by linarith)))
  · exact Or.inr (Or.inr (c3 (by linarith)))

/-- `make_tetrahedral_box` never fails on positive sizes and produces a `BoxGood` mesh for the half
sizes `size/2` with medial potential `min(size)/2` -/
theorem makeTetrahedralBox_good (size : V3 ℝ) (h : 0 < size.x ∧ 0 < size.y ∧ 0 < size.z) :
    ∃ m, makeTetrahedralBox size = .ok m ∧
      BoxGood (size.x / 2) (size.y / 2) (size.z / 2) (min (min size.x size.y) size.z / 2) m := by
  have hs : (0.5 : ℝ) * size = (⟨size.x / 2, size.y / 2, size.z / 2⟩ : V3 ℝ) := by
    apply V3.ext' <;> simp [half_lit] <;> ring
  have hpos : 0 < (⟨size.x / 2, size.y / 2, size.z / 2⟩ : V3 ℝ).x ∧
      0 < (⟨size.x / 2, size.y / 2, size.z / 2⟩ : V3 ℝ).y ∧
      0 < (⟨size.x / 2, size.y / 2, size.z / 2⟩ : V3 ℝ).z := by
    obtain ⟨a, b, c⟩ := h
    exact ⟨by positivity, by positivity, by positivity⟩
  obtain ⟨s1, s2, s3⟩ := halfCentralOf_spec _ hpos
  have hmn : minHalfSize (⟨size.x / 2, size.y / 2, size.z / 2⟩ : V3 ℝ) = min (min size.x size.y) size.z / 2 := by
    unfold minHalfSize
    simp only []
    rw [min_div_div_right (by norm_num : (0 : ℝ) ≤ 2), min_div_div_right (by norm_num : (0 : ℝ) ≤ 2)]
  unfold makeTetrahedralBox
  simp only [hs]
  obtain ⟨m, hm, hg⟩ := boxFromCentral_good _ _ (minHalfSize (⟨size.x / 2, size.y / 2, size.z / 2⟩ : V3 ℝ))
    hpos s1 s2 s3
  rw [hmn] at hg
  exact ⟨m, hm, hg⟩

/-! ### consequences of `BoxGood` -/

theorem BoxGood.volumes {hx hy hz mn : ℝ} {m : Mesh ℝ} (g : BoxGood hx hy hz mn m) :
    ∃ vols, m.volumes = .ok vols ∧ vols.length = m.tets.length ∧ (∀ v ∈ vols, 0 < v) ∧
      sumS vols = 8 * hx * hy * hz := by
  refine ⟨_, volumes_of_inRange m g.inRange, ?_, ?_, ?_⟩
  · simp [meshVolumes]
  · have hp : ∀ t ∈ m.tets.map (tetPtsD m.vertices), 0 < det3 t := by
      intro t ht
      obtain ⟨t', ht', rfl⟩ := List.mem_map.mp ht
      exact g.det_pos t' ht'
    intro v hv
    unfold meshVolumes at hv
    obtain ⟨t, ht, rfl⟩ := List.mem_map.mp hv
    rw [tetraVolume_of_pos (hp t ht)]
    have := hp t ht
    positivity
  · have hp : ∀ t ∈ m.tets.map (tetPtsD m.vertices), 0 < det3 t := by
      intro t ht
      obtain ⟨t', ht', rfl⟩ := List.mem_map.mp ht
      exact g.det_pos t' ht'
    rw [meshVolumes_of_pos _ hp, sumS_map_div, g.det_sum]
    ring

/-! ### `make_tetrahedral_cube` -/

theorem cube_vertices (s : ℝ) : (makeTetrahedralCube s).vertices =
    [⟨-(s / 2), -(s / 2), -(s / 2)⟩, ⟨-(s / 2), -(s / 2), s / 2⟩, ⟨-(s / 2), s / 2, -(s / 2)⟩,
     ⟨-(s / 2), s / 2, s / 2⟩, ⟨s / 2, -(s / 2), -(s / 2)⟩, ⟨s / 2, -(s / 2), s / 2⟩,
     ⟨s / 2, s / 2, -(s / 2)⟩, ⟨s / 2, s / 2, s / 2⟩, ⟨0, 0, 0⟩] := by
  simp only [makeTetrahedralCube, cubeCoords, List.map_cons, List.map_nil]
  have e1 : s * (-0.5 : ℝ) = -(s / 2) := by norm_num; ring
  have e2 : s * (0.5 : ℝ) = s / 2 := by norm_num; ring
  simp only [List.cons.injEq, and_true]
  refine ⟨?_, ?_, ?_, ?_, ?_, ?_, ?_, ?_, ?_⟩ <;> apply V3.ext' <;> simp [e1, e2]

/-- what is proved about the cube mesh (all tetrahedra are negatively oriented: the helper's
`abs` is what makes their volumes positive) -/
structure CubeGood (s : ℝ) (m : Mesh ℝ) : Prop where
  inRange : ∀ t ∈ m.tets, t.inRange m.vertices.length
  distinct : ∀ t ∈ m.tets, t.distinct = true
  used : ∀ i, i < m.vertices.length → ∃ t ∈ m.tets, i ∈ t.toList
  det_neg : ∀ t ∈ m.tets, det3 (tetPtsD m.vertices t) < 0
  det_sum : sumS ((m.tets.map (tetPtsD m.vertices)).map fun t => -det3 t) = 6 * (s * s * s)
  in_box : ∀ p ∈ m.vertices, -(s / 2) ≤ p.x ∧ p.x ≤ s / 2 ∧ -(s / 2) ≤ p.y ∧ p.y ≤ s / 2 ∧
    -(s / 2) ≤ p.z ∧ p.z ≤ s / 2
  pots : ∀ pq ∈ m.vertices.zip m.potentials,
    (OnBdry (s / 2) (s / 2) (s / 2) pq.1 ∧ pq.2 = 0) ∨ (Inside (s / 2) (s / 2) (s / 2) pq.1 ∧ pq.2 = s / 2)
  pot_len : m.potentials.length = m.vertices.length

theorem cube_potentials (s : ℝ) : (makeTetrahedralCube s).potentials = [0, 0, 0, 0, 0, 0, 0, 0, s / 2] := by
  simp [makeTetrahedralCube]

theorem cube_tets (s : ℝ) : (makeTetrahedralCube s).tets = cubeTets := rfl

theorem makeTetrahedralCube_good (s : ℝ) (hs : 0 < s) : CubeGood s (makeTetrahedralCube s) := by
  have h3 : 0 < s * s * s := by positivity
  refine ⟨?_, ?_, ?_, ?_, ?_, ?_, ?_, ?_⟩
  · rw [cube_vertices, cube_tets]
    show ∀ t ∈ cubeTets, t.inRange 9
    decide
  · rw [cube_tets]; decide
  · rw [cube_vertices, cube_tets]
    show ∀ i, i < 9 → ∃ t ∈ cubeTets, i ∈ t.toList
    decide
  · rw [cube_vertices, cube_tets]
    simp only [cubeTets, List.forall_mem_cons, tetPtsD, List.getD_cons_zero, List.getD_cons_succ,
      det3_def, List.not_mem_nil, IsEmpty.forall_iff, implies_true, and_true]
    refine ⟨?_, ?_, ?_, ?_, ?_, ?_, ?_, ?_, ?_, ?_, ?_, ?_⟩ <;> nlinarith [h3]
  · rw [cube_vertices, cube_tets]
    simp only [cubeTets, List.map_cons, List.map_nil, tetPtsD, List.getD_cons_zero, List.getD_cons_succ,
      det3_def, sumS_cons, sumS_nil]
    ring
  · intro p hp
    rw [cube_vertices] at hp
    simp only [List.mem_cons, List.not_mem_nil, or_false] at hp
    rcases hp with rfl | rfl | rfl | rfl | rfl | rfl | rfl | rfl | rfl <;>
    (refine ⟨?_, ?_, ?_, ?_, ?_, ?_⟩ <;> simp only [] <;> linarith)
  · intro pq hpq
    rw [cube_vertices, cube_potentials] at hpq
    simp only [List.zip_cons_cons, List.zip_nil_right, List.mem_cons, List.not_mem_nil, or_false] at hpq
    rcases hpq with rfl | rfl | rfl | rfl | rfl | rfl | rfl | rfl | rfl
    · exact Or.inl ⟨by simp [OnBdry], rfl⟩
    · exact Or.inl ⟨by simp [OnBdry], rfl⟩
    · exact Or.inl ⟨by simp [OnBdry], rfl⟩
    · exact Or.inl ⟨by simp [OnBdry], rfl⟩
    · exact Or.inl ⟨by simp [OnBdry], rfl⟩
    · exact Or.inl ⟨by simp [OnBdry], rfl⟩
    · exact Or.inl ⟨by simp [OnBdry], rfl⟩
    · exact Or.inl ⟨by simp [OnBdry], rfl⟩
    · exact Or.inr ⟨by refine ⟨?_, ?_, ?_, ?_, ?_, ?_⟩ <;> simp only [] <;> linarith, rfl⟩
  · rw [cube_vertices, cube_potentials]; rfl

theorem CubeGood.volumes {s : ℝ} {m : Mesh ℝ} (g : CubeGood s m) :
    ∃ vols, m.volumes = .ok vols ∧ vols.length = m.tets.length ∧ (∀ v ∈ vols, 0 < v) ∧
      sumS vols = s * s * s := by
  have hp : ∀ t ∈ m.tets.map (tetPtsD m.vertices), det3 t < 0 := by
    intro t ht
    obtain ⟨t', ht', rfl⟩ := List.mem_map.mp ht
    exact g.det_neg t' ht'
  refine ⟨_, volumes_of_inRange m g.inRange, ?_, ?_, ?_⟩
  · simp [meshVolumes]
  · intro v hv
    unfold meshVolumes at hv
    obtain ⟨t, ht, rfl⟩ := List.mem_map.mp hv
    rw [tetraVolume_of_neg (hp t ht)]
    have := hp t ht
    have : 0 < -det3 t := by linarith
    positivity
  · rw [meshVolumes_of_neg _ hp, sumS_map_div, g.det_sum]
    ring

end TetraMesh
end D3
