/-
C14, the layout side: under the JIT no query on a collider that is fresh at a C-contiguous
pose (up to the start index) can raise numba's signature-mismatch `TypeError`; the
`update_pose` of `Disk`/`Ellipse` before the repair could.
-/
import D3.Proofs.ColliderState

namespace D3
namespace CS

set_option linter.unusedSectionVars false

scalar_variables

theorem map_ok_ne_typeErr {β : Type} (g : β → Obs α) (x : β) :
    (Except.map g (Except.ok x : Except Err β)) ≠ .error .typeErr := by
  simp [Except.map]

/-- every search direction of the history is a C-contiguous array -/
def DirsContig (ops : List (Op α)) : Prop := ∀ d ∈ dirsOf ops, d.layout = Layout.c

/-- every pose of the history is a C-contiguous array -/
def PosesContig (ops : List (Op α)) : Prop := ∀ p ∈ posesOf ops, p.layout = Layout.c

/-- with the JIT on, a query on a collider fresh at a C-contiguous pose never hits a typed
kernel with a non-contiguous argument -/
theorem query_no_typeErr (K : Kernels α) :
    ∀ (shape : Shape α) (p : Arr (M4 α)) (f : Collider α) (i : Nat) (q : Query α),
      shape.contigParams = true → p.layout = .c → atPose .jit K shape p = .ok f →
      (∀ d, q = .support d → d.layout = .c) →
      ((f.setFirstIdx i).query .jit K q).2 ≠ .error .typeErr := by
  intro shape
  induction shape with
  | margin s m ih =>
    intro p f i q hs hp hf hq
    simp only [atPose, bind, Except.bind] at hf
    split at hf
    · cases hf
    · rename_i c hc
      simp only [pure, Except.pure] at hf
      injection hf with hf; subst hf
      simp only [Shape.contigParams] at hs
      have hin := fun q' hq' => ih p c i q' hs hp hc hq'
      cases q with
      | support d =>
        have hd := hq d rfl
        have h1 := hin (.support d) (fun d' h' => by cases h'; exact hd)
        simp only [Collider.setFirstIdx, Collider.query]
        cases hr : ((c.setFirstIdx i).query .jit K (.support d)).2 with
        | error err =>
          rw [hr] at h1
          intro h; injection h with h; subst h; exact h1 rfl
        | ok o =>
          simp only [typedCall_jit_ok [d.layout] _ (by intro l hl; simp at hl; rw [hl]; exact hd)]
          cases o <;> simp
      | aabb =>
        have h1 := hin .aabb (fun d' h' => by cases h')
        simp only [Collider.setFirstIdx, Collider.query]
        cases hr : ((c.setFirstIdx i).query .jit K .aabb).2 with
        | error err =>
          rw [hr] at h1
          intro h; injection h with h; subst h; exact h1 rfl
        | ok o => cases o <;> simp
      | center =>
        have h1 := hin .center (fun d' h' => by cases h')
        simpa only [Collider.setFirstIdx, Collider.query] using h1
      | firstVertex =>
        have h1 := hin .firstVertex (fun d' h' => by cases h')
        simpa only [Collider.setFirstIdx, Collider.query] using h1
      | collider2origin =>
        have h1 := hin .collider2origin (fun d' h' => by cases h')
        simpa only [Collider.setFirstIdx, Collider.query] using h1
  | box size =>
    intro p f i q hs hp hf hq
    simp only [atPose, bind, Except.bind] at hf
    split at hf
    · cases hf
    · rename_i v hv
      simp only [pure, Except.pure] at hf
      injection hf with hf; subst hf
      have hsz : size.layout = .c := by simpa [Shape.contigParams] using hs
      cases q with
      | support d => simp [Collider.setFirstIdx, Collider.query, okVec]
      | aabb =>
        simp only [Collider.setFirstIdx, Collider.query]
        rw [typedCall_jit_ok _ _ (by intro l hl; simp at hl; rcases hl with rfl | rfl <;> assumption)]
        exact map_ok_ne_typeErr _ _
      | center => simp [Collider.setFirstIdx, Collider.query, okVec]
      | firstVertex =>
        simp only [Collider.setFirstIdx, Collider.query]
        split <;> simp [okVec]
      | collider2origin => simp [Collider.setFirstIdx, Collider.query]
  | mesh verts tris =>
    intro p f i q hs hp hf hq
    simp only [atPose, bind, Except.bind] at hf
    split at hf
    · cases hf
    · split at hf
      · cases hf
      · simp only [pure, Except.pure] at hf
        injection hf with hf; subst hf
        cases q with
        | support d =>
          simp only [Collider.setFirstIdx, Collider.query, MeshC.support]
          split
          · simp
          · split <;> simp [okVec]
        | firstVertex =>
          simp only [Collider.setFirstIdx, Collider.query]
          split <;> simp [okVec]
        | _ => simp [Collider.setFirstIdx, Collider.query, okVec]
  | sphere r =>
    intro p f i q hs hp hf hq
    simp only [atPose, pure, Except.pure] at hf
    injection hf with hf; subst hf
    cases q with
    | support d =>
      have hd := hq d rfl
      simp only [Collider.setFirstIdx, Collider.query]
      rw [typedCall_jit_ok _ _ (by intro l hl; simp [Arr.ascontiguous] at hl; rcases hl with rfl | rfl <;> first | assumption | rfl)]
      exact map_ok_ne_typeErr _ _
    | _ => simp [Collider.setFirstIdx, Collider.query, okVec]
  | capsule r hh =>
    intro p f i q hs hp hf hq
    simp only [atPose, pure, Except.pure] at hf
    injection hf with hf; subst hf
    cases q with
    | support d =>
      have hd := hq d rfl
      simp only [Collider.setFirstIdx, Collider.query]
      rw [typedCall_jit_ok _ _ (by intro l hl; simp at hl; rcases hl with rfl | rfl <;> assumption)]
      exact map_ok_ne_typeErr _ _
    | _ => simp [Collider.setFirstIdx, Collider.query, okVec]
  | ellipsoid radii =>
    intro p f i q hs hp hf hq
    simp only [atPose, pure, Except.pure] at hf
    injection hf with hf; subst hf
    have hr : radii.layout = .c := by simpa [Shape.contigParams] using hs
    cases q with
    | support d =>
      have hd := hq d rfl
      simp only [Collider.setFirstIdx, Collider.query]
      rw [typedCall_jit_ok _ _ (by intro l hl; simp at hl; rcases hl with rfl | rfl | rfl <;> assumption)]
      exact map_ok_ne_typeErr _ _
    | _ => simp [Collider.setFirstIdx, Collider.query, okVec]
  | cylinder r l =>
    intro p f i q hs hp hf hq
    simp only [atPose, pure, Except.pure] at hf
    injection hf with hf; subst hf
    cases q with
    | support d =>
      have hd := hq d rfl
      simp only [Collider.setFirstIdx, Collider.query]
      rw [typedCall_jit_ok _ _ (by intro l hl; simp at hl; rcases hl with rfl | rfl <;> assumption)]
      exact map_ok_ne_typeErr _ _
    | _ => simp [Collider.setFirstIdx, Collider.query, okVec]
  | disk r =>
    intro p f i q hs hp hf hq
    simp only [atPose, pure, Except.pure] at hf
    injection hf with hf; subst hf
    cases q with
    | support d =>
      have hd := hq d rfl
      simp only [Collider.setFirstIdx, Collider.query]
      rw [typedCall_jit_ok _ _ (by intro l hl; simp [Arr.ascontiguous] at hl; rcases hl with rfl | rfl | rfl <;> first | assumption | rfl)]
      exact map_ok_ne_typeErr _ _
    | firstVertex =>
      simp only [Collider.setFirstIdx, Collider.query]
      rw [typedCall_jit_ok _ _ (by intro l hl; simp [Arr.ascontiguous] at hl; rw [hl])]
      exact map_ok_ne_typeErr _ _
    | collider2origin =>
      simp only [Collider.setFirstIdx, Collider.query]
      rw [typedCall_jit_ok _ _ (by intro l hl; simp [Arr.ascontiguous] at hl; rw [hl])]
      exact map_ok_ne_typeErr _ _
    | _ => simp [Collider.setFirstIdx, Collider.query, okVec]
  | ellipse radii =>
    intro p f i q hs hp hf hq
    simp only [atPose, pure, Except.pure] at hf
    injection hf with hf; subst hf
    have hr : radii.layout = .c := by simpa [Shape.contigParams] using hs
    cases q with
    | support d =>
      have hd := hq d rfl
      simp only [Collider.setFirstIdx, Collider.query]
      rw [typedCall_jit_ok _ _ (by intro l hl; simp [Arr.ascontiguous] at hl; rcases hl with rfl | rfl | rfl | rfl <;> first | assumption | rfl)]
      exact map_ok_ne_typeErr _ _
    | _ => simp [Collider.setFirstIdx, Collider.query, okVec]
  | cone r hh =>
    intro p f i q hs hp hf hq
    simp only [atPose, pure, Except.pure] at hf
    injection hf with hf; subst hf
    cases q with
    | support d =>
      have hd := hq d rfl
      simp only [Collider.setFirstIdx, Collider.query]
      rw [typedCall_jit_ok _ _ (by intro l hl; simp at hl; rcases hl with rfl | rfl <;> assumption)]
      exact map_ok_ne_typeErr _ _
    | _ => simp [Collider.setFirstIdx, Collider.query, okVec]

theorem dirsContig_cons_query {q : Query α} {ops : List (Op α)} (h : DirsContig (.query q :: ops)) :
    (∀ d, q = .support d → d.layout = .c) ∧ DirsContig ops := by
  constructor
  · intro d hd; subst hd; exact h d (by simp [dirsOf])
  · intro d hd
    cases q with
    | support d' => exact h d (by simp [dirsOf, hd])
    | _ => exact h d (by simpa [dirsOf] using hd)

theorem dirsContig_cons_update {p : Arr (M4 α)} {ops : List (Op α)}
    (h : DirsContig (.updatePose p :: ops)) : DirsContig ops :=
  fun d hd => h d (by simpa [dirsOf] using hd)

/-- the fresh-construction semantics never shows a signature mismatch on contiguous input -/
theorem runFresh_no_typeErr (K : Kernels α) (shape : Shape α) (hs : shape.contigParams = true) :
    ∀ (ops : List (Op α)) (last : Arr (M4 α)) (idx : Nat) (f : Collider α),
      atPose .jit K shape last = .ok f → last.layout = .c → PosesContig ops → DirsContig ops →
      ∀ o ∈ runFresh .jit K shape last idx ops, o ≠ .error .typeErr := by
  intro ops
  induction ops with
  | nil => intro last idx f _ _ _ _ o ho; simp [runFresh] at ho
  | cons op ops ih =>
    intro last idx f hf hl hP hD o ho
    cases op with
    | updatePose p =>
      have hp : p.layout = .c := hP p (by simp [posesOf])
      have hP' : PosesContig ops := fun q hq => hP q (by simp [posesOf, hq])
      obtain ⟨f', hf', _⟩ := update_atPose .jit K shape last p f idx hf (Or.inr hp)
      simp only [runFresh, hf', List.mem_cons] at ho
      rcases ho with rfl | ho
      · simp
      · exact ih p idx f' hf' hp hP' (dirsContig_cons_update hD) o ho
    | query q =>
      have hP' : PosesContig ops := fun p hp => hP p (by simpa [posesOf] using hp)
      obtain ⟨hq, hD'⟩ := dirsContig_cons_query hD
      simp only [runFresh, hf, List.mem_cons] at ho
      rcases ho with rfl | ho
      · exact query_no_typeErr K shape last f idx q hs hl hf hq
      · exact ih last _ f hf hl hP' hD' o ho

/-! ### no exception at all (given a hill climb that returns a vertex of the mesh) -/

/-- the hill climb returns an index into the vertex array (no `KeyError`, no `IndexError`) -/
def HillClimbTotal (K : Kernels α) : Prop :=
  ∀ d i (vs : Array (V3 α)) cn sc, 0 < vs.size → ∃ k, K.hillClimb d i vs cn sc = some k ∧ k < vs.size

theorem typedCall_all_c {β : Type} (e : Engine) (args : List Layout) (r : β)
    (h : ∀ l ∈ args, l = Layout.c) : typedCall e args r = .ok r := by
  cases e
  · rfl
  · exact typedCall_jit_ok args r h

/-- **relativised totality.**  `P vs cn sc i` singles out the mesh data (vertex array,
`connections`, shortcuts) and start indices the statement is about; on those the hill climb
returns an index into the vertex array that again satisfies `P` (so the cached start index of
the next call is covered too).  `HillClimbTotal` is the instance `P := fun vs _ _ _ => 0 < vs.size`
(`hillClimbTotalOn_of_total`); C03 proves the instance "well-formed data, valid start" for the
modelled `hill_climb_mesh_extreme` (D3/Proofs/ColliderStateLink.lean). -/
def HillClimbTotalOn (K : Kernels α)
    (P : Array (V3 α) → List (Nat × List Nat) → List Nat → Nat → Prop) : Prop :=
  ∀ d i (vs : Array (V3 α)) cn sc, P vs cn sc i →
    ∃ k, K.hillClimb d i vs cn sc = some k ∧ k < vs.size ∧ P vs cn sc k

/-- `i` is an acceptable (`P`) start index for the mesh data the constructor of `shape` stores
(`vertices`, `K.connections triangles`, `K.shortcuts vertices`); no condition for a shape
without a mesh -/
def Shape.StartOk (K : Kernels α)
    (P : Array (V3 α) → List (Nat × List Nat) → List Nat → Nat → Prop) : Shape α → Nat → Prop
  | .mesh verts tris, i => P verts (K.connections tris) (K.shortcuts verts) i
  | .margin s _, i => s.StartOk K P i
  | _, _ => True

theorem hillClimbTotalOn_of_total (K : Kernels α) (hK : HillClimbTotal K) :
    HillClimbTotalOn K (fun vs _ _ _ => 0 < vs.size) := by
  intro d i vs cn sc h
  obtain ⟨k, hk, hlt⟩ := hK d i vs cn sc h
  exact ⟨k, hk, hlt, h⟩

/-- a successfully constructed mesh has a vertex -/
theorem startOk_size_of_atPose (e : Engine) (K : Kernels α) :
    ∀ (shape : Shape α) (p : Arr (M4 α)) (f : Collider α) (i : Nat),
      atPose e K shape p = .ok f → shape.StartOk K (fun vs _ _ _ => 0 < vs.size) i := by
  intro shape
  induction shape with
  | margin s m ih =>
    intro p f i hf
    simp only [atPose, bind, Except.bind] at hf
    split at hf
    · cases hf
    · rename_i c hc
      exact ih p c i hc
  | mesh verts tris =>
    intro p f i hf
    simp only [atPose, bind, Except.bind] at hf
    split at hf
    · cases hf
    · split at hf
      · cases hf
      · rename_i hne
        simp only [Shape.StartOk]
        rcases Nat.eq_zero_or_pos verts.size with h | h
        · exact absurd (by simpa [Array.isEmpty] using h) hne
        · exact h
  | _ => intro p f i _; trivial

/-- `query_ok` relativised: the hill climb needs to be total only on the data/start indices
`P`, provided the current start index `i` is acceptable for the shape's own mesh data -/
theorem query_ok_on (e : Engine) (K : Kernels α)
    (P : Array (V3 α) → List (Nat × List Nat) → List Nat → Nat → Prop)
    (hK : HillClimbTotalOn K P) :
    ∀ (shape : Shape α) (p : Arr (M4 α)) (f : Collider α) (i : Nat) (q : Query α),
      shape.contigParams = true → p.layout = .c → atPose e K shape p = .ok f →
      shape.StartOk K P i →
      (∀ d, q = .support d → d.layout = .c) →
      ∃ o, ((f.setFirstIdx i).query e K q).2 = .ok o := by
  intro shape
  induction shape with
  | margin s m ih =>
    intro p f i q hs hp hf hi hq
    simp only [atPose, bind, Except.bind] at hf
    split at hf
    · cases hf
    · rename_i c hc
      simp only [pure, Except.pure] at hf
      injection hf with hf; subst hf
      simp only [Shape.contigParams] at hs
      simp only [Shape.StartOk] at hi
      have hin := fun q' hq' => ih p c i q' hs hp hc hi hq'
      cases q with
      | support d =>
        have hd := hq d rfl
        obtain ⟨o, ho⟩ := hin (.support d) (fun d' h' => by cases h'; exact hd)
        simp only [Collider.setFirstIdx, Collider.query, ho,
          typedCall_all_c e [d.layout] _ (by intro l hl; simp at hl; rw [hl]; exact hd)]
        -- the inner support point is a vector for every class
        have hvec : ∃ v, o = .vec v := by
          clear hin ih
          revert ho
          generalize c.setFirstIdx i = c'
          intro ho
          induction c' generalizing o with
          | margin c'' m' ih' =>
            simp only [Collider.query] at ho
            cases hr : (c''.query e K (.support d)).2 with
            | error err => rw [hr] at ho; cases ho
            | ok o' =>
              rw [hr] at ho
              obtain ⟨v', rfl⟩ := ih' o' hr
              cases ht : typedCall e [d.layout] (normVector d.val) with
              | error err => rw [ht] at ho; cases ho
              | ok n => rw [ht] at ho; injection ho with ho; exact ⟨_, ho.symm⟩
          | mesh s =>
            simp only [Collider.query, MeshC.support] at ho
            split at ho
            · cases ho
            · split at ho
              · cases ho
              · simp only [okVec] at ho; injection ho with ho; exact ⟨_, ho.symm⟩
          | box s => simp only [Collider.query, okVec] at ho; injection ho with ho; exact ⟨_, ho.symm⟩
          | sphere s =>
            simp only [Collider.query] at ho
            cases ht : typedCall e [d.layout, s.c.ascontiguous.layout] (K.supSphere d.val s.c.val s.radius) with
            | error err => rw [ht] at ho; cases ho
            | ok n => rw [ht] at ho; simp only [Except.map] at ho; injection ho with ho; exact ⟨_, ho.symm⟩
          | capsule s =>
            simp only [Collider.query] at ho
            cases ht : typedCall e [d.layout, s.capsule2origin.layout] (K.supCapsule d.val s.capsule2origin.val s.radius s.height) with
            | error err => rw [ht] at ho; cases ho
            | ok n => rw [ht] at ho; simp only [Except.map] at ho; injection ho with ho; exact ⟨_, ho.symm⟩
          | ellipsoid s =>
            simp only [Collider.query] at ho
            cases ht : typedCall e [d.layout, s.ellipsoid2origin.layout, s.radii.layout] (K.supEllipsoid d.val s.ellipsoid2origin.val s.radii.val) with
            | error err => rw [ht] at ho; cases ho
            | ok n => rw [ht] at ho; simp only [Except.map] at ho; injection ho with ho; exact ⟨_, ho.symm⟩
          | cylinder s =>
            simp only [Collider.query] at ho
            cases ht : typedCall e [d.layout, s.cylinder2origin.layout] (K.supCylinder d.val s.cylinder2origin.val s.radius s.length) with
            | error err => rw [ht] at ho; cases ho
            | ok n => rw [ht] at ho; simp only [Except.map] at ho; injection ho with ho; exact ⟨_, ho.symm⟩
          | disk s =>
            simp only [Collider.query] at ho
            cases ht : typedCall e [d.layout, s.c.layout, s.normal.layout] (K.supDisk d.val s.c.val s.radius s.normal.val) with
            | error err => rw [ht] at ho; cases ho
            | ok n => rw [ht] at ho; simp only [Except.map] at ho; injection ho with ho; exact ⟨_, ho.symm⟩
          | ellipse s =>
            simp only [Collider.query] at ho
            cases ht : typedCall e [d.layout, s.c.layout, s.axes.layout, s.radii.layout] (K.supEllipse d.val s.c.val s.axes.val s.radii.val) with
            | error err => rw [ht] at ho; cases ho
            | ok n => rw [ht] at ho; simp only [Except.map] at ho; injection ho with ho; exact ⟨_, ho.symm⟩
          | cone s =>
            simp only [Collider.query] at ho
            cases ht : typedCall e [d.layout, s.cone2origin.layout] (K.supCone d.val s.cone2origin.val s.radius s.height) with
            | error err => rw [ht] at ho; cases ho
            | ok n => rw [ht] at ho; simp only [Except.map] at ho; injection ho with ho; exact ⟨_, ho.symm⟩
        obtain ⟨v, rfl⟩ := hvec
        exact ⟨_, rfl⟩
      | aabb =>
        obtain ⟨o, ho⟩ := hin .aabb (fun d' h' => by cases h')
        simp only [Collider.setFirstIdx, Collider.query, ho]
        have hbox : ∃ b, o = .aabb b := by
          clear hin ih
          revert ho
          generalize c.setFirstIdx i = c'
          intro ho
          induction c' generalizing o with
          | margin c'' m' ih' =>
            simp only [Collider.query] at ho
            cases hr : (c''.query e K .aabb).2 with
            | error err => rw [hr] at ho; cases ho
            | ok o' =>
              rw [hr] at ho
              obtain ⟨b', rfl⟩ := ih' o' hr
              injection ho with ho; exact ⟨_, ho.symm⟩
          | box s =>
            simp only [Collider.query] at ho
            cases ht : typedCall e [s.box2origin.layout, s.size.layout] (K.aabbPoints (convertBox s.box2origin.val.P s.size.val)) with
            | error err => rw [ht] at ho; cases ho
            | ok n => rw [ht] at ho; simp only [Except.map] at ho; injection ho with ho; exact ⟨_, ho.symm⟩
          | _ => simp only [Collider.query] at ho; injection ho with ho; exact ⟨_, ho.symm⟩
        obtain ⟨b, rfl⟩ := hbox
        exact ⟨_, rfl⟩
      | center =>
        obtain ⟨o, ho⟩ := hin .center (fun d' h' => by cases h')
        exact ⟨o, by simpa only [Collider.setFirstIdx, Collider.query] using ho⟩
      | firstVertex =>
        obtain ⟨o, ho⟩ := hin .firstVertex (fun d' h' => by cases h')
        exact ⟨o, by simpa only [Collider.setFirstIdx, Collider.query] using ho⟩
      | collider2origin =>
        obtain ⟨o, ho⟩ := hin .collider2origin (fun d' h' => by cases h')
        exact ⟨o, by simpa only [Collider.setFirstIdx, Collider.query] using ho⟩
  | box size =>
    intro p f i q hs hp hf hi hq
    simp only [atPose, bind, Except.bind] at hf
    split at hf
    · cases hf
    · rename_i v hv
      simp only [pure, Except.pure] at hf
      injection hf with hf; subst hf
      have hsz : size.layout = .c := by simpa [Shape.contigParams] using hs
      have hvv := typedCall_ok_val hv
      cases q with
      | support d => exact ⟨_, rfl⟩
      | aabb =>
        simp only [Collider.setFirstIdx, Collider.query]
        rw [typedCall_all_c _ _ _ (by intro l hl; simp at hl; rcases hl with rfl | rfl <;> assumption)]
        exact ⟨_, rfl⟩
      | center => exact ⟨_, rfl⟩
      | firstVertex =>
        subst hvv
        exact ⟨_, rfl⟩
      | collider2origin => exact ⟨_, rfl⟩
  | mesh verts tris =>
    intro p f i q hs hp hf hi hq
    simp only [atPose, bind, Except.bind] at hf
    split at hf
    · cases hf
    · split at hf
      · cases hf
      · rename_i hne
        simp only [pure, Except.pure] at hf
        injection hf with hf; subst hf
        have h0 : 0 < verts.size := by
          rcases Nat.eq_zero_or_pos verts.size with h | h
          · exact absurd (by simpa [Array.isEmpty] using h) hne
          · exact h
        cases q with
        | support d =>
          simp only [Collider.setFirstIdx, Collider.query, MeshC.support]
          obtain ⟨k, hk, hlt, _⟩ := hK (p.val.P.R.tmulVec d.val) i verts (K.connections tris) (K.shortcuts verts) hi
          simp only [hk]
          have : verts[k]? = some verts[k] := Array.getElem?_eq_getElem hlt
          simp only [this]
          exact ⟨_, rfl⟩
        | firstVertex =>
          simp only [Collider.setFirstIdx, Collider.query]
          have : verts[0]? = some verts[0] := Array.getElem?_eq_getElem h0
          simp only [this]
          exact ⟨_, rfl⟩
        | _ => exact ⟨_, rfl⟩
  | sphere r =>
    intro p f i q hs hp hf hi hq
    simp only [atPose, pure, Except.pure] at hf
    injection hf with hf; subst hf
    cases q with
    | support d =>
      have hd := hq d rfl
      simp only [Collider.setFirstIdx, Collider.query]
      rw [typedCall_all_c _ _ _ (by intro l hl; simp [Arr.ascontiguous] at hl; rcases hl with rfl | rfl <;> first | assumption | rfl)]
      exact ⟨_, rfl⟩
    | _ => exact ⟨_, rfl⟩
  | capsule r hh =>
    intro p f i q hs hp hf hi hq
    simp only [atPose, pure, Except.pure] at hf
    injection hf with hf; subst hf
    cases q with
    | support d =>
      have hd := hq d rfl
      simp only [Collider.setFirstIdx, Collider.query]
      rw [typedCall_all_c _ _ _ (by intro l hl; simp at hl; rcases hl with rfl | rfl <;> assumption)]
      exact ⟨_, rfl⟩
    | _ => exact ⟨_, rfl⟩
  | ellipsoid radii =>
    intro p f i q hs hp hf hi hq
    simp only [atPose, pure, Except.pure] at hf
    injection hf with hf; subst hf
    have hr : radii.layout = .c := by simpa [Shape.contigParams] using hs
    cases q with
    | support d =>
      have hd := hq d rfl
      simp only [Collider.setFirstIdx, Collider.query]
      rw [typedCall_all_c _ _ _ (by intro l hl; simp at hl; rcases hl with rfl | rfl | rfl <;> assumption)]
      exact ⟨_, rfl⟩
    | _ => exact ⟨_, rfl⟩
  | cylinder r l =>
    intro p f i q hs hp hf hi hq
    simp only [atPose, pure, Except.pure] at hf
    injection hf with hf; subst hf
    cases q with
    | support d =>
      have hd := hq d rfl
      simp only [Collider.setFirstIdx, Collider.query]
      rw [typedCall_all_c _ _ _ (by intro l hl; simp at hl; rcases hl with rfl | rfl <;> assumption)]
      exact ⟨_, rfl⟩
    | _ => exact ⟨_, rfl⟩
  | disk r =>
    intro p f i q hs hp hf hi hq
    simp only [atPose, pure, Except.pure] at hf
    injection hf with hf; subst hf
    cases q with
    | support d =>
      have hd := hq d rfl
      simp only [Collider.setFirstIdx, Collider.query]
      rw [typedCall_all_c _ _ _ (by intro l hl; simp [Arr.ascontiguous] at hl; rcases hl with rfl | rfl | rfl <;> first | assumption | rfl)]
      exact ⟨_, rfl⟩
    | firstVertex =>
      simp only [Collider.setFirstIdx, Collider.query]
      rw [typedCall_all_c _ _ _ (by intro l hl; simp [Arr.ascontiguous] at hl; rw [hl])]
      exact ⟨_, rfl⟩
    | collider2origin =>
      simp only [Collider.setFirstIdx, Collider.query]
      rw [typedCall_all_c _ _ _ (by intro l hl; simp [Arr.ascontiguous] at hl; rw [hl])]
      exact ⟨_, rfl⟩
    | _ => exact ⟨_, rfl⟩
  | ellipse radii =>
    intro p f i q hs hp hf hi hq
    simp only [atPose, pure, Except.pure] at hf
    injection hf with hf; subst hf
    have hr : radii.layout = .c := by simpa [Shape.contigParams] using hs
    cases q with
    | support d =>
      have hd := hq d rfl
      simp only [Collider.setFirstIdx, Collider.query]
      rw [typedCall_all_c _ _ _ (by intro l hl; simp [Arr.ascontiguous] at hl; rcases hl with rfl | rfl | rfl | rfl <;> first | assumption | rfl)]
      exact ⟨_, rfl⟩
    | _ => exact ⟨_, rfl⟩
  | cone r hh =>
    intro p f i q hs hp hf hi hq
    simp only [atPose, pure, Except.pure] at hf
    injection hf with hf; subst hf
    cases q with
    | support d =>
      have hd := hq d rfl
      simp only [Collider.setFirstIdx, Collider.query]
      rw [typedCall_all_c _ _ _ (by intro l hl; simp at hl; rcases hl with rfl | rfl <;> assumption)]
      exact ⟨_, rfl⟩
    | _ => exact ⟨_, rfl⟩

theorem query_ok (e : Engine) (K : Kernels α) (hK : HillClimbTotal K) :
    ∀ (shape : Shape α) (p : Arr (M4 α)) (f : Collider α) (i : Nat) (q : Query α),
      shape.contigParams = true → p.layout = .c → atPose e K shape p = .ok f →
      (∀ d, q = .support d → d.layout = .c) →
      ∃ o, ((f.setFirstIdx i).query e K q).2 = .ok o :=
  fun shape p f i q hs hp hf hq =>
    query_ok_on e K _ (hillClimbTotalOn_of_total K hK) shape p f i q hs hp hf
      (startOk_size_of_atPose e K shape p f i hf) hq

/-- the fresh-construction semantics raises nothing on contiguous input -/
theorem runFresh_ok (e : Engine) (K : Kernels α) (hK : HillClimbTotal K) (shape : Shape α)
    (hs : shape.contigParams = true) :
    ∀ (ops : List (Op α)) (last : Arr (M4 α)) (idx : Nat) (f : Collider α),
      atPose e K shape last = .ok f → last.layout = .c → PosesContig ops → DirsContig ops →
      ∀ o ∈ runFresh e K shape last idx ops, ∃ v, o = .ok v := by
  intro ops
  induction ops with
  | nil => intro last idx f _ _ _ _ o ho; simp [runFresh] at ho
  | cons op ops ih =>
    intro last idx f hf hl hP hD o ho
    cases op with
    | updatePose p =>
      have hp : p.layout = .c := hP p (by simp [posesOf])
      have hP' : PosesContig ops := fun q hq => hP q (by simp [posesOf, hq])
      obtain ⟨f', hf', _⟩ := update_atPose e K shape last p f idx hf (Or.inr hp)
      simp only [runFresh, hf', List.mem_cons] at ho
      rcases ho with rfl | ho
      · exact ⟨_, rfl⟩
      · exact ih p idx f' hf' hp hP' (dirsContig_cons_update hD) o ho
    | query q =>
      have hP' : PosesContig ops := fun p hp => hP p (by simpa [posesOf] using hp)
      obtain ⟨hq, hD'⟩ := dirsContig_cons_query hD
      simp only [runFresh, hf, List.mem_cons] at ho
      rcases ho with rfl | ho
      · exact query_ok e K hK shape last f idx q hs hl hf hq
      · exact ih last _ f hf hl hP' hD' o ho

end CS
end D3
