/-
Point sets of the polygon / solid primitives and the generic optimality tools for C10/C11:
the variational inequality (`vi_min`: a point `c` with `⟨p − c, x − c⟩ ≤ 0` for all `x ∈ K`
minimises the distance from `p` over `K`; this direction needs no convexity), its reduction to
the generating vertices of a triangle, the clamp inequality behind `np.clip`, and the
Cauchy–Schwarz form used for the round primitives.
-/
import D3.Spec.Vec
import D3.Model.DistPoly
import Mathlib.Tactic.NormNum
import Mathlib.Tactic.Positivity

namespace D3
namespace DistPoly

/-! ### the model's own comparisons at `ℝ` -/

theorem isZero_real (x : ℝ) : isZero x ↔ x = 0 := by
  unfold isZero
  constructor
  · rintro ⟨h1, h2⟩; exact le_antisymm (not_lt.mp h2) (not_lt.mp h1)
  · rintro rfl; simp

theorem half_real : (0.5 : ℝ) = 1 / 2 := by norm_num

/-! ### point sets -/

/-- convex combinations of the three vertices -/
def triangleSet (a b c : V) : V → Prop := fun x =>
  ∃ u v w : ℝ, 0 ≤ u ∧ 0 ≤ v ∧ 0 ≤ w ∧ u + v + w = 1 ∧ x = u * a + v * b + w * c

/-- `center + s·axis0 + t·axis1`, `|s| ≤ l0/2`, `|t| ≤ l1/2` -/
def rectSet (c ax0 ax1 : V) (l0 l1 : ℝ) : V → Prop := fun x =>
  ∃ s t : ℝ, -(l0 / 2) ≤ s ∧ s ≤ l0 / 2 ∧ -(l1 / 2) ≤ t ∧ t ≤ l1 / 2 ∧ x = c + (s * ax0 + t * ax1)

/-- the box in its own frame -/
def boxLocal (size : V) : V → Prop := fun q =>
  |q.x| ≤ size.x / 2 ∧ |q.y| ≤ size.y / 2 ∧ |q.z| ≤ size.z / 2

/-- pose image of `|q_i| ≤ size_i / 2` -/
def boxSet (A : Pose ℝ) (size : V) : V → Prop := poseImage A (boxLocal size)

/-- points of the plane through `c` with normal `n` within `r` of `c` -/
def diskSet (c : V) (r : ℝ) (n : V) : V → Prop := fun x =>
  V3.dot (x - c) n = 0 ∧ V3.normSq (x - c) ≤ r * r

/-- points of the plane through `c` with normal `n` at distance exactly `r` from `c` -/
def circleSet (c : V) (r : ℝ) (n : V) : V → Prop := fun x =>
  V3.dot (x - c) n = 0 ∧ V3.normSq (x - c) = r * r

/-- the cylinder in its own frame: axis z, radius `r`, length `l` -/
def cylLocal (r l : ℝ) : V → Prop := fun q => q.x * q.x + q.y * q.y ≤ r * r ∧ |q.z| ≤ l / 2

def cylinderSet (A : Pose ℝ) (r l : ℝ) : V → Prop := poseImage A (cylLocal r l)

/-- the segment from `s` to `e` -/
def segmentSet (s e : V) : V → Prop := fun x => ∃ t : ℝ, 0 ≤ t ∧ t ≤ 1 ∧ x = s + t * (e - s)

/-- the line through `lp` with direction `ld` -/
def lineSet (lp ld : V) : V → Prop := fun x => ∃ t : ℝ, x = lp + t * ld

/-! ### variational inequality -/

/-- **variational inequality, sufficiency** (no convexity needed for this direction) -/
theorem vi_min (p c x : V) (h : V3.dot (p - c) (x - c) ≤ 0) :
    V3.normSq (p - c) ≤ V3.normSq (p - x) := by
  simp only [V3.dot_def, V3.normSq_def, V3.sub_x, V3.sub_y, V3.sub_z] at *
  nlinarith [mul_self_nonneg (x.x - c.x), mul_self_nonneg (x.y - c.y), mul_self_nonneg (x.z - c.z)]

/-- the set form: a point of `K` satisfying the variational inequality against every point of
`K` is a closest point of `K` to `p` -/
theorem vi_min_set (K : V → Prop) (p c : V)
    (h : ∀ x, K x → V3.dot (p - c) (x - c) ≤ 0) :
    ∀ x, K x → V3.normSq (p - c) ≤ V3.normSq (p - x) :=
  fun x hx => vi_min p c x (h x hx)

/-- for a triangle the variational inequality only has to be checked at the three vertices -/
theorem vi_triangle (p cp a b c : V)
    (ha : V3.dot (p - cp) (a - cp) ≤ 0) (hb : V3.dot (p - cp) (b - cp) ≤ 0)
    (hc : V3.dot (p - cp) (c - cp) ≤ 0) :
    ∀ x, triangleSet a b c x → V3.dot (p - cp) (x - cp) ≤ 0 := by
  rintro x ⟨u, v, w, hu, hv, hw, hs, rfl⟩
  have key : V3.dot (p - cp) (u * a + v * b + w * c - cp) =
      u * V3.dot (p - cp) (a - cp) + v * V3.dot (p - cp) (b - cp) + w * V3.dot (p - cp) (c - cp) := by
    simp only [V3.dot_def, V3.sub_x, V3.sub_y, V3.sub_z, V3.add_x, V3.add_y, V3.add_z,
      V3.smul_x, V3.smul_y, V3.smul_z]
    have hu' : u = 1 - v - w := by linarith
    subst hu'
    ring
  rw [key]
  nlinarith [mul_nonneg hu (neg_nonneg.mpr ha), mul_nonneg hv (neg_nonneg.mpr hb),
    mul_nonneg hw (neg_nonneg.mpr hc)]

/-! ### clamp -/

theorem clip_real (x lo hi : ℝ) : clip x lo hi = min (max x lo) hi := rfl

theorem clip_mem {x lo hi : ℝ} (h : lo ≤ hi) : lo ≤ clip x lo hi ∧ clip x lo hi ≤ hi := by
  rw [clip_real]
  exact ⟨le_min (le_max_right _ _) h, min_le_right _ _⟩

/-- the one-dimensional variational inequality of `np.clip` -/
theorem clip_vi {x lo hi s : ℝ} (h : lo ≤ hi) (hs1 : lo ≤ s) (hs2 : s ≤ hi) :
    (x - clip x lo hi) * (s - clip x lo hi) ≤ 0 := by
  rw [clip_real]
  rcases le_total x lo with h1 | h1
  · rw [max_eq_right h1, min_eq_left h]
    nlinarith
  · rw [max_eq_left h1]
    rcases le_total x hi with h2 | h2
    · rw [min_eq_left h2]; simp
    · rw [min_eq_right h2]
      nlinarith

/-! ### norms and distances -/

theorem mkRes_dist (br : Nat) (p cp : V) :
    0 ≤ (mkRes br p cp).dist ∧ (mkRes br p cp).dist * (mkRes br p cp).dist = V3.normSq (p - cp) :=
  ⟨V3.norm_nonneg _, V3.norm_sq _⟩

/-- what C10 (feasibility) and C11 (optimality) ask of a point-to-primitive result:
the returned point lies in the set, `d ≥ 0`, `d² = |p − cp|²`, and no point of the set is
closer than `d` -/
def GoodPt (K : V → Prop) (p : V) (r : PtRes ℝ) : Prop :=
  K r.cp ∧ 0 ≤ r.dist ∧ r.dist * r.dist = V3.normSq (p - r.cp) ∧
  ∀ x, K x → r.dist * r.dist ≤ V3.normSq (p - x)

/-- a member of `K` satisfying the variational inequality is a good result -/
theorem goodPt_of_vi (K : V → Prop) (p cp : V) (br : Nat) (hmem : K cp)
    (hvi : ∀ x, K x → V3.dot (p - cp) (x - cp) ≤ 0) : GoodPt K p (mkRes br p cp) := by
  obtain ⟨h0, h1⟩ := mkRes_dist br p cp
  refine ⟨hmem, h0, h1, fun x hx => ?_⟩
  rw [h1]
  exact vi_min p cp x (hvi x hx)

/-- `⟨a, b⟩ ≤ s·r` when `|a|² = s²`, `|b|² ≤ r²`, `s, r ≥ 0` (Cauchy–Schwarz) -/
theorem dot_le_of_normSq {a b : V} {s r : ℝ} (hs : 0 ≤ s) (hr : 0 ≤ r)
    (ha : V3.normSq a = s * s) (hb : V3.normSq b ≤ r * r) : V3.dot a b ≤ s * r := by
  have h := V3.dot_sq_le a b
  rw [ha] at h
  have h2 : V3.dot a b * V3.dot a b ≤ (s * r) * (s * r) := by
    have : s * s * V3.normSq b ≤ s * s * (r * r) := mul_le_mul_of_nonneg_left hb (mul_self_nonneg s)
    nlinarith
  have hsr : 0 ≤ s * r := mul_nonneg hs hr
  nlinarith [mul_self_nonneg (V3.dot a b - s * r), mul_self_nonneg (V3.dot a b + s * r)]

/-- removing the component along a unit vector gives a vector orthogonal to it -/
theorem dot_reject (d n : V) (hn : V3.dot n n = 1) :
    V3.dot (d - V3.dot d n * n) n = 0 := by
  simp only [V3.dot_def, V3.sub_x, V3.sub_y, V3.sub_z, V3.smul_x, V3.smul_y, V3.smul_z] at *
  linear_combination (-(d.x * n.x + d.y * n.y + d.z * n.z)) * hn

end DistPoly
end D3
