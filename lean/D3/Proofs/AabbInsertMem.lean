/-
Frame lemmas for the checked array accessors `rd` / `wr` of the AABB-tree model
(`Array.set!` at `Int.toNat` positions).  Core Lean only, any element type.
-/
import D3.Model.AabbTree

namespace D3
namespace Aabb

/-- the array after a successful checked write at `i` -/
def upd {β : Type} (a : Array β) (i : Int) (x : β) : Array β := a.set! i.toNat x

/-- `i` is a valid row index of `a` -/
def InR {β : Type} (a : Array β) (i : Int) : Prop := 0 ≤ i ∧ i.toNat < a.size

@[simp] theorem size_upd {β : Type} (a : Array β) (i : Int) (x : β) : (upd a i x).size = a.size := by
  simp [upd]

theorem InR_upd {β : Type} {a : Array β} {i j : Int} {x : β} : InR (upd a i x) j ↔ InR a j := by
  simp [InR]

theorem InR_of_size {β γ : Type} {a : Array β} {b : Array γ} (h : a.size = b.size) {i : Int} :
    InR a i → InR b i := by
  intro hi; exact ⟨hi.1, h ▸ hi.2⟩

theorem rd_ok_inR {β : Type} {a : Array β} {i : Int} {x : β} (h : rd a i = .ok x) : InR a i := by
  unfold rd at h
  split at h
  · rename_i h0
    split at h
    · rename_i y hy
      refine ⟨h0, ?_⟩
      have := Array.getElem?_eq_some_iff.mp hy
      exact this.1
    · cases h
  · cases h

theorem inR_rd {β : Type} {a : Array β} {i : Int} (h : InR a i) : ∃ x, rd a i = .ok x := by
  obtain ⟨h0, h1⟩ := h
  refine ⟨a[i.toNat], ?_⟩
  unfold rd
  rw [if_pos h0]
  simp [h1]

theorem wr_ok {β : Type} {a : Array β} {i : Int} (h : InR a i) (x : β) :
    wr a i x = .ok (upd a i x) := by
  unfold wr upd
  exact if_pos h

/-- **frame lemma**: reading after a write -/
theorem rd_upd {β : Type} {a : Array β} {i : Int} (h : InR a i) (x : β) (j : Int) :
    rd (upd a i x) j = if j = i then .ok x else rd a j := by
  obtain ⟨h0, h1⟩ := h
  unfold rd upd
  by_cases hj : 0 ≤ j
  · rw [if_pos hj, if_pos hj]
    by_cases hji : j = i
    · subst hji
      simp [h1]
    · rw [if_neg hji]
      have : i.toNat ≠ j.toNat := by omega
      simp [Array.set!_eq_setIfInBounds, this]
  · rw [if_neg hj, if_neg hj]
    have : j ≠ i := by omega
    rw [if_neg this]

theorem rd_upd_eq {β : Type} {a : Array β} {i : Int} (h : InR a i) (x : β) :
    rd (upd a i x) i = .ok x := by
  rw [rd_upd h, if_pos rfl]

theorem rd_upd_ne {β : Type} {a : Array β} {i : Int} (h : InR a i) (x : β) {j : Int} (hj : j ≠ i) :
    rd (upd a i x) j = rd a j := by
  rw [rd_upd h, if_neg hj]

theorem rd_idx_ne_none {β : Type} {a : Array β} {i : Int} {x : β} (h : rd a i = .ok x) :
    i ≠ INDEX_NONE := by
  have := (rd_ok_inR h).1
  simp only [INDEX_NONE]; omega

/-- reads below the cut are unaffected by `extract 0 n` -/
theorem rd_extract {β : Type} (a : Array β) (n : Nat) {i : Int} (hi : i < n) :
    rd (a.extract 0 n) i = rd a i := by
  unfold rd
  by_cases h0 : 0 ≤ i
  · rw [if_pos h0, if_pos h0]
    have hn : i.toNat < n := by omega
    by_cases hs : i.toNat < a.size
    · have : i.toNat < min n a.size := by omega
      have h2 : a[i.toNat]? = some a[i.toNat] := by simp [hs]
      simp [this, h2]
    · have h1 : ¬ i.toNat < min n a.size := by omega
      have h2 : a[i.toNat]? = none := by simp; omega
      simp [h1, h2]
  · rw [if_neg h0, if_neg h0]

/-- reads inside the old part are unaffected by appending -/
theorem rd_append_left {β : Type} (a b : Array β) {i : Int} (hi : i.toNat < a.size) :
    rd (a ++ b) i = rd a i := by
  unfold rd
  by_cases h0 : 0 ≤ i
  · rw [if_pos h0, if_pos h0]
    rw [Array.getElem?_append_left hi]
  · rw [if_neg h0, if_neg h0]

theorem rd_append_right {β : Type} (a b : Array β) {i : Int} (h0 : 0 ≤ i) (hi : a.size ≤ i.toNat) :
    rd (a ++ b) i = rd b (i - a.size) := by
  unfold rd
  have h1 : 0 ≤ i - (a.size : Int) := by omega
  rw [if_pos h0, if_pos h1]
  rw [Array.getElem?_append_right hi]
  have : (i - (a.size : Int)).toNat = i.toNat - a.size := by omega
  rw [this]

theorem rd_replicate {β : Type} (n : Nat) (x : β) {i : Int} (h0 : 0 ≤ i) (hi : i.toNat < n) :
    rd (Array.replicate n x) i = .ok x := by
  unfold rd
  rw [if_pos h0]
  simp [hi]

end Aabb
end D3
