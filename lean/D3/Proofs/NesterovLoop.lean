/-
C09 — exit-branch lemmas and the loop invariant of the Nesterov model (S2: abstract support pair).
-/
import D3.Proofs.NesterovBasic

namespace D3
namespace Nesterov

/-- the first `len` rows of the simplex are points of `M` -/
def rowsIn (M : V → Prop) (s : Simplex ℝ) (len : Nat) : Prop :=
  (0 < len → M s.p0) ∧ (1 < len → M s.p1) ∧ (2 < len → M s.p2) ∧ (3 < len → M s.p3)

theorem rowsIn_setRow {M : V → Prop} {s : Simplex ℝ} {len : Nat} {sp : V}
    (h : rowsIn M s len) (hsp : M sp) : rowsIn M (s.setRow len sp) (len + 1) := by
  obtain ⟨h0, h1, h2, h3⟩ := h
  unfold Simplex.setRow
  rcases len with _ | _ | _ | n
  · simp [rowsIn, hsp]
  · simp [rowsIn, hsp]; exact h0 (by omega)
  · simp [rowsIn, hsp]; exact ⟨h0 (by omega), h1 (by omega)⟩
  · simp [rowsIn, hsp]; exact ⟨h0 (by omega), h1 (by omega), h2 (by omega)⟩

theorem rowsIn_setRow_same {M : V → Prop} {s : Simplex ℝ} {len : Nat} {sp : V}
    (h : rowsIn M s len) (hsp : M sp) : rowsIn M (s.setRow len sp) len := by
  obtain ⟨h0, h1, h2, h3⟩ := h
  unfold Simplex.setRow
  rcases len with _ | _ | _ | n
  · simp [rowsIn]
  · simp [rowsIn]; exact h0 (by omega)
  · simp [rowsIn]; exact ⟨h0 (by omega), h1 (by omega)⟩
  · simp [rowsIn]; exact ⟨h0 (by omega), h1 (by omega), h2 (by omega), fun _ => hsp⟩

/-- contract of the support pair: what `support_function(-d, …)` returns minimises `⟨d,·⟩` over `M`
(see `support_pair_minimises`) — for **every** direction, also the momentum directions -/
def SuppOK {σ : Type} (M : V → Prop) (supp : σ → V → Except Err ((V × V) × σ)) : Prop :=
  ∀ o d s0 s1 o', supp o (-d) = .ok ((s0, s1), o') →
    M (s0 - s1) ∧ ∀ z, M z → V3.dot d (s0 - s1) ≤ V3.dot d z

/-- contract of the projections: the returned `ray` is a point of `M` and the kept rows are
points of `M` (true for a convex `M` whenever the routine returns a convex combination of the
rows; `projectLineOrigin_sound` proves it for the 2-point case under the un-accelerated
precondition, `projectLineOrigin_extrapolates` shows that it fails without it) -/
def ProjOK (M : V → Prop) : Prop :=
  ∀ s len sp p, rowsIn M s len → (len = 1 → M sp) → project s len sp = .ok p → p.inside = false →
    M p.ray ∧ rowsIn M p.simplex p.len

structure Inv (M : V → Prop) (st : St ℝ) : Prop where
  alpha : LowerBound M st.alpha
  ray : 0 < st.i → M st.ray ∧ st.rayLen = V3.norm st.ray
  rows : rowsIn M st.simplex st.len

theorem inv_init (M : V → Prop) (accel : Bool) : Inv M (initSt accel) := by
  refine ⟨?_, ?_, ?_⟩
  · exact lowerBound_zero M
  · intro h; simp [initSt] at h
  · simp [rowsIn, initSt]

/-- **cv exit** of one pass: it is only taken with the acceleration switched off, after at least
one projection, and returns `ray_len - inflation`. -/
theorem decideStep_done3 {σ : Type} {cfg : Cfg ℝ} {st : St ℝ} {rd sp : V} {ω : ℝ} {o' o'' : σ} {r : Res ℝ}
    (h : decideStep cfg st rd sp ω o' = .ok (.done r o'')) (h3 : r.exit = 3) :
    st.accel = false ∧ 0 < st.i ∧ cvCheckPassed cfg.tol st.rayLen (max st.alpha ω) = true ∧
      r.distance = st.rayLen - cfg.inflation ∧ r.iters = st.i := by
  simp only [decideStep] at h
  split at h
  · injection h with h; injection h with h; subst h; simp at h3
  · split at h
    · cases h
    · split at h
      · rename_i c3
        simp only [Bool.and_eq_true, decide_eq_true_eq] at c3
        split at h
        · cases h
        · rename_i c4
          injection h with h; injection h with h; subst h
          exact ⟨by simpa using c4, c3.1, c3.2, rfl, rfl⟩
      · cases hp : project (st.simplex.setRow st.len sp) (st.len + 1) sp with
        | error e => rw [hp] at h; cases h
        | ok p =>
          rw [hp] at h
          simp only [Except.map, afterProject] at h
          split at h
          · injection h with h; injection h with h; subst h; simp at h3
          · cases h

/-- a pass that continues keeps the invariant -/
theorem decideStep_next_inv {σ : Type} {M : V → Prop} {cfg : Cfg ℝ} {st st' : St ℝ} {rd sp : V} {ω : ℝ}
    {o' o'' : σ} (hinv : Inv M st) (hsp : M sp) (hω : LowerBound M ω) (hproj : ProjOK M)
    (h : decideStep cfg st rd sp ω o' = .ok (.next st' o'')) : Inv M st' := by
  simp only [decideStep] at h
  split at h
  · cases h
  · split at h
    · injection h with h; injection h with h; subst h
      exact ⟨hinv.alpha, hinv.ray, rowsIn_setRow_same hinv.rows hsp⟩
    · split at h
      · split at h
        · injection h with h; injection h with h; subst h
          exact ⟨hinv.alpha.max hω, hinv.ray, rowsIn_setRow_same hinv.rows hsp⟩
        · cases h
      · cases hp : project (st.simplex.setRow st.len sp) (st.len + 1) sp with
        | error e => rw [hp] at h; cases h
        | ok p =>
          rw [hp] at h
          simp only [Except.map, afterProject] at h
          split at h
          · cases h
          · rename_i hstop
            injection h with h; injection h with h; subst h
            rw [not_or] at hstop
            have hin : p.inside = false := by simpa using hstop.1
            obtain ⟨hray, hrows⟩ := hproj _ _ sp p (rowsIn_setRow hinv.rows hsp) (fun _ => hsp) hp hin
            refine ⟨hinv.alpha.max hω, fun _ => ⟨hray, ?_⟩, hrows⟩
            simp [projRayLen, hin]

/-- what one pass does, in terms of `decideStep` -/
theorem pass_cases {σ : Type} {cfg : Cfg ℝ} {supp : σ → V → Except Err ((V × V) × σ)} {st : St ℝ} {o : σ}
    {res : Step ℝ σ} (h : pass cfg supp st o = .ok res) :
    (st.rayLen < cfg.tol ∧ res = .done ⟨true, -cfg.inflation, st.simplex, st.len, st.i, 1⟩ o) ∨
    (¬ st.rayLen < cfg.tol ∧ ∃ s0 s1 o' ω, supp o (-(nextRayDir cfg st)) = .ok ((s0, s1), o') ∧
      omegaOf (nextRayDir cfg st) (s0 - s1) = .ok ω ∧
      decideStep cfg st (nextRayDir cfg st) (s0 - s1) ω o' = .ok res) := by
  unfold pass at h
  split at h
  · rename_i c; left; injection h with h; exact ⟨c, h.symm⟩
  · rename_i c; right
    refine ⟨c, ?_⟩
    simp only [bind, Except.bind] at h
    cases hs : supp o (-(nextRayDir cfg st)) with
    | error e => rw [hs] at h; cases h
    | ok v =>
      obtain ⟨⟨s0, s1⟩, o'⟩ := v
      rw [hs] at h
      simp only at h
      cases hw : omegaOf (nextRayDir cfg st) (s0 - s1) with
      | error e => rw [hw] at h; cases h
      | ok ω => rw [hw] at h; exact ⟨s0, s1, o', ω, rfl, hw, h⟩

theorem pass_next_inv {σ : Type} {M : V → Prop} {cfg : Cfg ℝ} {supp : σ → V → Except Err ((V × V) × σ)}
    {st st' : St ℝ} {o o' : σ} (hinv : Inv M st) (hs : SuppOK M supp) (hproj : ProjOK M)
    (h : pass cfg supp st o = .ok (.next st' o')) : Inv M st' := by
  rcases pass_cases h with ⟨_, h1⟩ | ⟨_, s0, s1, o1, ω, hsupp, hω, hd⟩
  · cases h1
  · obtain ⟨hm, hmin⟩ := hs _ _ _ _ _ hsupp
    exact decideStep_next_inv hinv hm (omega_lower_bound_core hmin hω) hproj hd

/-- **accuracy of the convergence exit of one pass** under the invariant -/
theorem pass_done3_accuracy {σ : Type} {M : V → Prop} {cfg : Cfg ℝ}
    {supp : σ → V → Except Err ((V × V) × σ)} {st : St ℝ} {o o'' : σ} {r : Res ℝ} {δ : ℝ}
    (hinv : Inv M st) (hs : SuppOK M supp) (hδ : IsDist M δ)
    (h : pass cfg supp st o = .ok (.done r o'')) (h3 : r.exit = 3) :
    st.accel = false ∧ δ ≤ r.distance + cfg.inflation ∧
      |r.distance + cfg.inflation - δ| ≤ cfg.tol * (r.distance + cfg.inflation) := by
  rcases pass_cases h with ⟨_, h1⟩ | ⟨_, s0, s1, o1, ω, hsupp, hω, hd⟩
  · injection h1 with h1; subst h1; simp at h3
  · obtain ⟨hacc, hi, hcv, hdist, _⟩ := decideStep_done3 hd h3
    obtain ⟨_, hmin⟩ := hs _ _ _ _ _ hsupp
    obtain ⟨hray, hlen⟩ := hinv.ray hi
    have hlb := hinv.alpha.max (omega_lower_bound_core hmin hω)
    rw [hlen] at hcv
    obtain ⟨_, h2, h4⟩ := cv_exit_core hray hlb hδ hcv
    have : r.distance + cfg.inflation = V3.norm st.ray := by rw [hdist, hlen]; ring
    rw [this]
    exact ⟨hacc, h2, h4⟩

/-- **loop level**: every run that leaves through the convergence test returns
`ray_len − inflation` with `ray_len` within `tolerance · ray_len` of the true distance of the sets
whose support pair was used. -/
theorem loop_exit3_accuracy {σ : Type} {M : V → Prop} {cfg : Cfg ℝ}
    {supp : σ → V → Except Err ((V × V) × σ)} {δ : ℝ}
    (hs : SuppOK M supp) (hproj : ProjOK M) (hδ : IsDist M δ) :
    ∀ (fuel : Nat) (st : St ℝ) (o : σ) (r : Res ℝ) (o' : σ), Inv M st →
      loop cfg supp fuel st o = .ok (r, o') → r.exit = 3 →
      δ ≤ r.distance + cfg.inflation ∧
        |r.distance + cfg.inflation - δ| ≤ cfg.tol * (r.distance + cfg.inflation) := by
  intro fuel
  induction fuel with
  | zero => intro st o r o' _ h; rw [loop] at h; cases h
  | succ n ih =>
    intro st o r o' hinv h h3
    rw [loop] at h
    split at h
    · simp only [bind, Except.bind] at h
      cases hp : pass cfg supp st o with
      | error e => rw [hp] at h; cases h
      | ok res =>
        rw [hp] at h
        cases res with
        | next st' o'' => exact ih st' o'' r o' (pass_next_inv hinv hs hproj hp) h h3
        | done r' o3 =>
          simp only at h
          injection h with h; injection h with h1 h2; subst h1
          exact (pass_done3_accuracy hinv hs hδ hp h3).2
    · injection h with h; injection h with h1 h2; subst h1; simp at h3

/-- **fall-back of the acceleration**: the convergence exit is only ever taken with
`use_nesterov_acceleration` switched off (a pass that would leave while it is on switches it
off and repeats the pass with `ray_dir = ray` instead). -/
theorem cv_exit_only_unaccelerated {σ : Type} {cfg : Cfg ℝ} {supp : σ → V → Except Err ((V × V) × σ)}
    {st : St ℝ} {o o'' : σ} {r : Res ℝ} (h : pass cfg supp st o = .ok (.done r o'')) (h3 : r.exit = 3) :
    st.accel = false ∧ nextRayDir cfg st = st.ray := by
  rcases pass_cases h with ⟨_, h1⟩ | ⟨_, s0, s1, o1, ω, _, _, hd⟩
  · injection h1 with h1; subst h1; simp at h3
  · have hacc := (decideStep_done3 hd h3).1
    exact ⟨hacc, by simp [nextRayDir, hacc]⟩

/-! ### termination of the modelled loop: the fuel `max_interations + 2` is never exhausted -/

theorem decideStep_next_measure {σ : Type} {cfg : Cfg ℝ} {st st' : St ℝ} {rd sp : V} {ω : ℝ} {o' o'' : σ}
    (h : decideStep cfg st rd sp ω o' = .ok (.next st' o'')) :
    (st'.i = st.i ∧ st.accel = true ∧ st'.accel = false) ∨ (st'.i = st.i + 1 ∧ st'.accel = st.accel) := by
  simp only [decideStep] at h
  split at h
  · cases h
  · split at h
    · rename_i c
      simp only [Bool.and_eq_true] at c
      injection h with h; injection h with h; subst h
      exact Or.inl ⟨rfl, c.1, rfl⟩
    · split at h
      · split at h
        · rename_i c
          injection h with h; injection h with h; subst h
          exact Or.inl ⟨rfl, c, rfl⟩
        · cases h
      · cases hp : project (st.simplex.setRow st.len sp) (st.len + 1) sp with
        | error e => rw [hp] at h; cases h
        | ok p =>
          rw [hp] at h
          simp only [Except.map, afterProject] at h
          split at h
          · cases h
          · injection h with h; injection h with h; subst h
            exact Or.inr ⟨rfl, rfl⟩

def measure (cfg : Cfg ℝ) (st : St ℝ) : Nat := (cfg.maxIter - st.i) + (if st.accel then 1 else 0)

/-- the fuel of the modelled `while` loop is sufficient: once it exceeds the measure
`(max_interations − i) + [acceleration on]`, more fuel never changes the result, i.e. the
`fuel` outcome of the base case is not what the model returns. `gjk` starts with
`max_interations + 2 > measure (initSt accel)`. -/
theorem loop_fuel_stable {σ : Type} (cfg : Cfg ℝ) (supp : σ → V → Except Err ((V × V) × σ)) :
    ∀ (fuel : Nat) (st : St ℝ) (o : σ), measure cfg st < fuel →
      loop cfg supp (fuel + 1) st o = loop cfg supp fuel st o := by
  intro fuel
  induction fuel with
  | zero => intro st o h; omega
  | succ n ih =>
    intro st o hm
    rw [loop, loop]
    split
    · rename_i hi
      simp only [bind, Except.bind]
      cases hp : pass cfg supp st o with
      | error e => rfl
      | ok res =>
        cases res with
        | done r o3 => rfl
        | next st' o' =>
          simp only
          rcases pass_cases hp with ⟨_, h1⟩ | ⟨_, s0, s1, o1, ω, _, _, hd⟩
          · cases h1
          · have hmm : measure cfg st' < n := by
              rcases decideStep_next_measure hd with ⟨h1, h2, h3⟩ | ⟨h1, h2⟩
              · simp only [measure, h1, h2, h3] at hm ⊢; simp at hm ⊢; omega
              · simp only [measure, h1, h2] at hm ⊢; omega
            exact ih st' o' hmm
    · rfl

theorem gjk_fuel_sufficient (maxIter : Nat) (accel : Bool) (cfg : Cfg ℝ) (h : cfg.maxIter = maxIter) :
    measure cfg (initSt accel) < maxIter + 2 := by
  unfold measure initSt
  cases accel <;> simp [h]

/-- the iteration cap: `distance = 0.0`, `inside = False` whatever the shapes are -/
theorem loop_cap_exit {σ : Type} (cfg : Cfg ℝ) (supp : σ → V → Except Err ((V × V) × σ)) (fuel : Nat)
    (st : St ℝ) (o : σ) (h : ¬ st.i < cfg.maxIter) :
    loop cfg supp (fuel + 1) st o = .ok (⟨false, 0, st.simplex, st.len, st.i, 5⟩, o) := by
  rw [loop]; simp [h]

end Nesterov
end D3
