/-
`make_tetrahedral_cylinder` over ℝ, top level: class decision + vertex count + the class
theorems of `TetraMeshCylinderMesh.lean`; vertices on or inside the cylinder and potentials.
-/
import D3.Proofs.TetraMeshCylinderMesh

namespace D3
namespace TetraMesh

/-- **cylinder, every class, every resolution hint.** If the factory returns a mesh for positive
radius and length, then the number of vertices per circle is `n = max(3, ⌈2·np.pi·r/hint⌉) ≥ 3`,
every tetrahedron has strictly positive volume and the volumes sum to the volume
`l · (½ r² Σ sin Δ_k)` of the prism over the polygon of ring vertices. -/
theorem cylinder_tiling (r l hint : ℝ) (fuel : Nat) (hr : 0 < r) (hl : 0 < l) (m : Mesh ℝ)
    (h : makeTetrahedralCylinder r l hint fuel = .ok m) :
    ∃ (n : Nat) (vols : List ℝ), 3 ≤ n ∧ 2 * piLit * r / hint ≤ (n : ℝ) ∧
      (n = 3 ∨ (n : ℝ) - 1 < 2 * piLit * r / hint) ∧
      m.volumes = .ok vols ∧ (∀ v ∈ vols, 0 < v) ∧ sumS vols = l / 2 * r ^ 2 * ringSinSum n := by
  unfold makeTetrahedralCylinder at h
  split at h
  · cases h
  · split at h
    · cases h
    · rename_i n hn
      obtain ⟨n3, nle, nmin⟩ := ceilMax3_spec _ _ _ hn
      obtain ⟨c0, c2, c1⟩ := cylinderClass_spec r l
      have ht := cylTol_pos r l
      rcases cylinderClass_cases r l with hc | hc | hc
      · rw [hc] at h
        have : r < l / 2 := by have := c0.mp hc; linarith
        obtain ⟨vols, hv, _, hp, hs⟩ := cylinder_long_tiling r l n n3 hr this m h
        exact ⟨n, vols, n3, nle, nmin, hv, hp, hs⟩
      · rw [hc] at h
        obtain ⟨vols, hv, _, hp, hs⟩ := cylinder_medium_tiling r l n n3 hr hl m h
        exact ⟨n, vols, n3, nle, nmin, hv, hp, hs⟩
      · rw [hc] at h
        have : l / 2 < r := by have := c2.mp hc; linarith
        obtain ⟨vols, hv, _, hp, hs⟩ := cylinder_short_tiling r l n n3 hl this m h
        exact ⟨n, vols, n3, nle, nmin, hv, hp, hs⟩

/-! ### vertices and potentials -/

theorem zip_outer_zero (outer : List (V3 ℝ)) (N : Nat) (_hN : outer.length = N) (pq : V3 ℝ × ℝ)
    (h : pq ∈ outer.zip (List.replicate N (0 : ℝ))) : pq.1 ∈ outer ∧ pq.2 = 0 := by
  obtain ⟨p, q⟩ := pq
  have := List.of_mem_zip h
  exact ⟨this.1, List.eq_of_mem_replicate this.2⟩

/-- on or inside the cylinder -/
def InCyl (r l : ℝ) (p : V3 ℝ) : Prop := p.x ^ 2 + p.y ^ 2 ≤ r ^ 2 ∧ |p.z| ≤ l / 2

/-- boundary vertex with potential 0, or strictly interior vertex with potential `φ` -/
def CylPot (r l φ : ℝ) (pq : V3 ℝ × ℝ) : Prop :=
  (pq.2 = 0 ∧ (pq.1.z = l / 2 ∨ pq.1.z = -(l / 2))) ∨
  (pq.2 = φ ∧ pq.1.x ^ 2 + pq.1.y ^ 2 < r ^ 2 ∧ |pq.1.z| < l / 2)

theorem outer_inCyl (r l : ℝ) (hl : 0 < l) (n : Nat) (p : V3 ℝ) (h : p ∈ cylinderOuter r (l / 2) n) :
    InCyl r l p := by
  obtain ⟨h1, h2⟩ := mem_cylinderOuter r (l / 2) n p h
  refine ⟨h1, ?_⟩
  rcases h2 with e | e <;> rw [e]
  · rw [abs_of_pos (by positivity)]
  · rw [abs_neg, abs_of_pos (by positivity)]

/-- **Long class: vertices and potentials.** -/
theorem cylinder_long_vertices (r l : ℝ) (n : Nat) (hr : 0 < r) (hl : r < l / 2)
    (m : Mesh ℝ) (hm : cylinderMeshN 0 r l n = .ok m) :
    m.potentials.length = m.vertices.length ∧ m.vertices.length = 2 * n + 4 ∧
      (∀ p ∈ m.vertices, InCyl r l p) ∧ (∀ pq ∈ m.vertices.zip m.potentials, CylPot r l r pq) := by
  have hh : (0.5 : ℝ) * l = l / 2 := by rw [half_lit]; ring
  have hl0 : 0 < l := by linarith
  simp only [cylinderMeshN, if_true, hh, cylinderOuter_length] at hm
  cases hm
  refine ⟨?_, ?_, ?_, ?_⟩
  · simp [cylinderOuter_length]
  · simp [cylinderOuter_length]
  · intro p hp
    rcases List.mem_append.mp hp with hp | hp
    · exact outer_inCyl r l hl0 n p hp
    · simp only [List.mem_cons, List.not_mem_nil, or_false] at hp
      rcases hp with rfl | rfl
      · refine ⟨by simp; positivity, ?_⟩
        rw [abs_neg, abs_of_pos (by linarith)]; linarith
      · refine ⟨by simp; positivity, ?_⟩
        rw [abs_of_pos (by linarith)]; linarith
  · intro pq hpq
    rw [List.zip_append (by simp [cylinderOuter_length])] at hpq
    rcases List.mem_append.mp hpq with hpq | hpq
    · obtain ⟨h1, h2⟩ := zip_outer_zero _ _ (cylinderOuter_length r (l / 2) n) pq hpq
      exact Or.inl ⟨h2, (mem_cylinderOuter r (l / 2) n pq.1 h1).2⟩
    · simp only [List.zip_cons_cons, List.zip_nil_right, List.mem_cons, List.not_mem_nil, or_false] at hpq
      rcases hpq with rfl | rfl
      · refine Or.inr ⟨rfl, by simp; positivity, ?_⟩
        simp only []
        rw [abs_neg, abs_of_pos (by linarith)]; linarith
      · refine Or.inr ⟨rfl, by simp; positivity, ?_⟩
        simp only []
        rw [abs_of_pos (by linarith)]; linarith

/-- **Medium class: vertices and potentials** (the medial potential is `radius`; the class
decision guarantees `|l/2 − r| ≤ 1e-14·max(1, min(l/2, r))`, see `cylinderClass_spec`). -/
theorem cylinder_medium_vertices (r l : ℝ) (n : Nat) (hr : 0 < r) (hl : 0 < l)
    (m : Mesh ℝ) (hm : cylinderMeshN 1 r l n = .ok m) :
    m.potentials.length = m.vertices.length ∧ m.vertices.length = 2 * n + 3 ∧
      (∀ p ∈ m.vertices, InCyl r l p) ∧ (∀ pq ∈ m.vertices.zip m.potentials, CylPot r l r pq) := by
  have hh : (0.5 : ℝ) * l = l / 2 := by rw [half_lit]; ring
  simp only [cylinderMeshN, if_true, hh, cylinderOuter_length, show ¬ (1 = 0) by omega, if_false] at hm
  cases hm
  refine ⟨?_, ?_, ?_, ?_⟩
  · simp [cylinderOuter_length]
  · simp [cylinderOuter_length]
  · intro p hp
    rcases List.mem_append.mp hp with hp | hp
    · exact outer_inCyl r l hl n p hp
    · simp only [List.mem_cons, List.not_mem_nil, or_false] at hp
      subst hp
      exact ⟨by simp; positivity, by simp; positivity⟩
  · intro pq hpq
    rw [List.zip_append (by simp [cylinderOuter_length])] at hpq
    rcases List.mem_append.mp hpq with hpq | hpq
    · obtain ⟨h1, h2⟩ := zip_outer_zero _ _ (cylinderOuter_length r (l / 2) n) pq hpq
      exact Or.inl ⟨h2, (mem_cylinderOuter r (l / 2) n pq.1 h1).2⟩
    · simp only [List.zip_cons_cons, List.zip_nil_right, List.mem_cons, List.not_mem_nil, or_false] at hpq
      subst hpq
      exact Or.inr ⟨rfl, by simp; positivity, by simp; positivity⟩

/-- **Short class: vertices and potentials** (centre and medial circle of radius `r − l/2`, all
with potential `l/2`). -/
theorem cylinder_short_vertices (r l : ℝ) (n : Nat) (hl : 0 < l) (hr : l / 2 < r)
    (m : Mesh ℝ) (hm : cylinderMeshN 2 r l n = .ok m) :
    m.potentials.length = m.vertices.length ∧ m.vertices.length = 3 * n + 3 ∧
      (∀ p ∈ m.vertices, InCyl r l p) ∧ (∀ pq ∈ m.vertices.zip m.potentials, CylPot r l (l / 2) pq) := by
  have hh : (0.5 : ℝ) * l = l / 2 := by rw [half_lit]; ring
  have hl2 : 0 < l / 2 := by positivity
  have hr0 : 0 < r := lt_trans hl2 hr
  simp only [cylinderMeshN, hh, cylinderOuter_length, show ¬ (2 = 0) by omega, show ¬ (2 = 1) by omega,
    if_false, if_neg (ne_of_gt hr0)] at hm
  cases hm
  set s : ℝ := (r - l / 2) / r with hs
  have hs0 : 0 < s := div_pos (sub_pos.2 hr) hr0
  have hs1 : s < 1 := by rw [hs, div_lt_one hr0]; linarith
  have hmed : ∀ i : Nat, ((circleXY r (2 * piLit / ofNatS n) i).1 * s) ^ 2 +
      ((circleXY r (2 * piLit / ofNatS n) i).2 * s) ^ 2 < r ^ 2 := by
    intro i
    simp only [circleXY]
    have := Real.sin_sq_add_cos_sq (2 * piLit / ofNatS n * ofNatS i)
    have e : (r * HasTrig.cos (2 * piLit / ofNatS n * ofNatS i) * s) ^ 2 +
        (r * HasTrig.sin (2 * piLit / ofNatS n * ofNatS i) * s) ^ 2 = r ^ 2 * s ^ 2 := by
      show (r * Real.cos _ * s) ^ 2 + (r * Real.sin _ * s) ^ 2 = _
      nlinarith [this]
    rw [e]
    have : s ^ 2 < 1 := by nlinarith
    nlinarith [mul_pos hr0 hr0]
  refine ⟨?_, ?_, ?_, ?_⟩
  · simp [cylinderOuter_length]
  · simp [cylinderOuter_length]; ring
  · intro p hp
    rw [List.append_assoc] at hp
    rcases List.mem_append.mp hp with hp | hp
    · exact outer_inCyl r l hl n p hp
    · simp only [List.singleton_append, List.mem_cons, List.mem_map, List.mem_range] at hp
      rcases hp with rfl | ⟨i, _, rfl⟩
      · exact ⟨by simp; positivity, by simp; positivity⟩
      · exact ⟨le_of_lt (hmed i), by simp; positivity⟩
  · intro pq hpq
    rw [List.append_assoc, List.append_assoc, List.zip_append (by simp [cylinderOuter_length])] at hpq
    rcases List.mem_append.mp hpq with hpq | hpq
    · obtain ⟨h1, h2⟩ := zip_outer_zero _ _ (cylinderOuter_length r (l / 2) n) pq hpq
      exact Or.inl ⟨h2, (mem_cylinderOuter r (l / 2) n pq.1 h1).2⟩
    · simp only [List.singleton_append, List.zip_cons_cons, List.mem_cons] at hpq
      rcases hpq with rfl | hpq
      · exact Or.inr ⟨rfl, by simp; positivity, by simp; positivity⟩
      · obtain ⟨p, q⟩ := pq
        have := List.of_mem_zip hpq
        have hq : q = l / 2 := List.eq_of_mem_replicate this.2
        obtain ⟨i, _, rfl⟩ := List.mem_map.mp this.1
        subst hq
        exact Or.inr ⟨rfl, hmed i, by simp; positivity⟩

end TetraMesh
end D3
