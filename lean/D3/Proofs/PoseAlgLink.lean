/-
C12 helper lemmas, part 4: the link between the optimality theorems of C11 / C10 and the
specification-level invariance of `D3/Proofs/PoseAlgSpec.lean`.

1. bridge: a feasible pair with a consistent distance (`d ≥ 0`, `d² = |p₁ − p₂|²`) and a lower bound on
   the squared distance of all competing pairs — the shape of every C11 (`GoodPt`) and C10
   (`LowerBound`) conclusion — is an attained minimum `IsDist K₁ K₂ d`;
2. transport: how each parametrised point set of `D3/Proofs/DistPolySets.lean` /
   `D3/Proofs/DistLineBasic.lean` / `D3/Proofs/DistLineShapes.lean` moves under a rigid motion and under
   a uniform positive scaling, and how the well-formedness hypotheses (non-zero triangle area, unit
   normals, band conditions) move with them;
The property theorems built from these are in `D3/Properties/C12Link.lean` (they instantiate
`C12.scalar_inherits`).
-/
import D3.Proofs.PoseAlgSpec
import D3.Proofs.DistPolySets
import D3.Proofs.DistLineShapes
import D3.Proofs.SupportSets

namespace D3
namespace PoseAlg

/-! ### 1. bridge: `d² = |v|²`, `d ≥ 0` vs `V3.norm` -/

theorem eq_norm_of_sq {d : ℝ} {v : V} (h0 : 0 ≤ d) (hd : d * d = V3.normSq v) : d = V3.norm v := by
  rw [V3.norm_def, ← hd, Real.sqrt_mul_self h0]

theorem le_norm_of_sq {d : ℝ} {v : V} (hd : d * d ≤ V3.normSq v) : d ≤ V3.norm v := by
  by_contra hlt
  have hlt' : V3.norm v < d := not_le.mp hlt
  have := mul_self_lt_mul_self (V3.norm_nonneg v) hlt'
  rw [V3.norm_sq] at this
  linarith

/-- **bridge (pairs).** The shape of the C10 conclusions: both returned points are feasible, the
distance is consistent with them and no pair of points is closer. -/
theorem isDist_of_lowerBound {K₁ K₂ : V → Prop} {p₁ p₂ : V} {d : ℝ} (h₁ : K₁ p₁) (h₂ : K₂ p₂)
    (hd : d * d = V3.normSq (p₁ - p₂) ∧ 0 ≤ d) (hlb : DistLine.LowerBound K₁ K₂ d) :
    IsDist K₁ K₂ d :=
  ⟨⟨p₁, h₁, p₂, h₂, (eq_norm_of_sq hd.2 hd.1).symm⟩,
    fun x hx y hy => le_norm_of_sq (hlb x hx y hy)⟩

/-- **bridge (point to primitive).** The shape of the C11 conclusions (`GoodPt`). -/
theorem isDist_of_goodPt {K : V → Prop} {p : V} {r : DistPoly.PtRes ℝ} (h : DistPoly.GoodPt K p r) :
    IsDist (· = p) K r.dist := by
  obtain ⟨hm, h0, hd, hopt⟩ := h
  refine ⟨⟨p, rfl, r.cp, hm, (eq_norm_of_sq h0 hd).symm⟩, ?_⟩
  rintro x rfl y hy
  exact le_norm_of_sq (hopt y hy)

/-- **bridge, in the shape of the three C11 property theorems** `f_opt`, `f_mem`, `f_dist`
(each an existential over the `.ok` result of the same call). -/
theorem isDist_of_c11₃ {ε : Type} {f : Except ε (DistPoly.PtRes ℝ)} {K : V → Prop} {p : V}
    (hopt : ∃ r, f = .ok r ∧ ∀ x, K x → r.dist * r.dist ≤ V3.normSq (p - x))
    (hmem : ∃ r, f = .ok r ∧ K r.cp)
    (hdist : ∃ r, f = .ok r ∧ 0 ≤ r.dist ∧ r.dist * r.dist = V3.normSq (p - r.cp)) :
    ∃ r, f = .ok r ∧ IsDist (· = p) K r.dist := by
  obtain ⟨r, hr, ho⟩ := hopt
  obtain ⟨r₁, hr₁, hm⟩ := hmem
  obtain ⟨r₂, hr₂, h0, hd⟩ := hdist
  rw [hr] at hr₁ hr₂
  cases hr₁
  cases hr₂
  exact ⟨r, hr, isDist_of_goodPt ⟨hm, h0, hd, ho⟩⟩

/-- … of the two C11 property theorems `f_opt`, `f_mem_dist` -/
theorem isDist_of_c11 {ε : Type} {f : Except ε (DistPoly.PtRes ℝ)} {K : V → Prop} {p : V}
    (hopt : ∃ r, f = .ok r ∧ ∀ x, K x → r.dist * r.dist ≤ V3.normSq (p - x))
    (hmd : ∃ r, f = .ok r ∧ K r.cp ∧ 0 ≤ r.dist ∧ r.dist * r.dist = V3.normSq (p - r.cp)) :
    ∃ r, f = .ok r ∧ IsDist (· = p) K r.dist := by
  obtain ⟨r, hr, hm, h0, hd⟩ := hmd
  exact isDist_of_c11₃ hopt ⟨r, hr, hm⟩ ⟨r, hr, h0, hd⟩

/-! ### 2. generic transport tools -/

/-- a set `K'` whose members are exactly the `g`-images of the members of `K` is the pose image -/
theorem eq_poseImage_of_iff {g : Pose ℝ} (hg : Orthonormal g.R) {K K' : V → Prop}
    (h : ∀ q, K' (g.apply q) ↔ K q) : K' = poseImage g K := by
  funext x
  apply propext
  constructor
  · intro hx
    refine ⟨g.applyInv x, ?_, (Pose.apply_applyInv hg x).symm⟩
    rw [← h, Pose.apply_applyInv hg]; exact hx
  · rintro ⟨q, hq, rfl⟩
    exact (h q).mpr hq

theorem smul_inv_smul {s : ℝ} (hs : 0 < s) (x : V) : s * (s⁻¹ * x) = x := by
  rw [smul_smul, mul_inv_cancel₀ hs.ne']
  apply V3.ext' <;> simp

theorem eq_scaleSet_of_iff {s : ℝ} (hs : 0 < s) {K K' : V → Prop}
    (h : ∀ q, K' (s * q) ↔ K q) : K' = scaleSet s K := by
  funext x
  apply propext
  constructor
  · intro hx
    refine ⟨s⁻¹ * x, ?_, (smul_inv_smul hs x).symm⟩
    rw [← h, smul_inv_smul hs]; exact hx
  · rintro ⟨q, hq, rfl⟩
    exact (h q).mpr hq

theorem poseImage_point (g : Pose ℝ) (p : V) : poseImage g (· = p) = (· = g.apply p) := by
  funext x
  apply propext
  exact ⟨fun ⟨q, hq, hx⟩ => by rw [hx, hq], fun h => ⟨p, rfl, h⟩⟩

theorem scaleSet_point (s : ℝ) (p : V) : scaleSet s (· = p) = (· = s * p) := by
  funext x
  apply propext
  exact ⟨fun ⟨q, hq, hx⟩ => by rw [hx, hq], fun h => ⟨p, rfl, h⟩⟩

theorem comp_apply (g A : Pose ℝ) (q : V) : (compose g A).apply q = g.apply (A.apply q) := by
  rw [← transformPoint_eq_apply, compose_transformPoint, transformPoint_eq_apply,
    transformPoint_eq_apply]

/-- the image under the composed pose `g · A` is the `g`-image of the `A`-image (every matrix) -/
theorem poseImage_compose (g A : Pose ℝ) (K : V → Prop) :
    poseImage (compose g A) K = poseImage g (poseImage A K) := by
  funext x
  apply propext
  constructor
  · rintro ⟨q, hq, rfl⟩
    exact ⟨A.apply q, ⟨q, hq, rfl⟩, comp_apply g A q⟩
  · rintro ⟨y, ⟨q, hq, rfl⟩, rfl⟩
    exact ⟨q, hq, (comp_apply g A q).symm⟩

/-- the pose `x ↦ R x + s·t` -/
def scalePose (s : ℝ) (A : Pose ℝ) : Pose ℝ := ⟨A.R, s * A.t⟩

theorem scalePose_apply (s : ℝ) (A : Pose ℝ) (q : V) :
    (scalePose s A).apply (s * q) = s * A.apply q := by
  unfold scalePose Pose.apply
  rw [mulVec_smul, smul_add]

/-- scaling a pose image: scale the local set and the translation, keep the rotation -/
theorem scaleSet_poseImage (s : ℝ) (A : Pose ℝ) (K : V → Prop) :
    poseImage (scalePose s A) (scaleSet s K) = scaleSet s (poseImage A K) := by
  funext x
  apply propext
  constructor
  · rintro ⟨y, ⟨q, hq, rfl⟩, rfl⟩
    exact ⟨A.apply q, ⟨q, hq, rfl⟩, scalePose_apply s A q⟩
  · rintro ⟨y, ⟨q, hq, rfl⟩, rfl⟩
    exact ⟨s * q, ⟨q, hq, rfl⟩, (scalePose_apply s A q).symm⟩

/-! ### 3. triangle -/

theorem apply_bary (g : Pose ℝ) (a b c : V) (u v w : ℝ) (h : u + v + w = 1) :
    g.apply (u * a + v * b + w * c) = u * g.apply a + v * g.apply b + w * g.apply c := by
  have hu : u = 1 - v - w := by linarith
  subst hu
  apply V3.ext' <;> simp [Pose.apply, M3.mulVec, V3.dot_def] <;> ring

/-- the triangle of the moved vertices is the moved triangle (every affine map) -/
theorem triangleSet_rigid (g : Pose ℝ) (a b c : V) :
    DistPoly.triangleSet (g.apply a) (g.apply b) (g.apply c) =
      poseImage g (DistPoly.triangleSet a b c) := by
  funext x
  apply propext
  constructor
  · rintro ⟨u, v, w, hu, hv, hw, hs, rfl⟩
    exact ⟨u * a + v * b + w * c, ⟨u, v, w, hu, hv, hw, hs, rfl⟩, (apply_bary g a b c u v w hs).symm⟩
  · rintro ⟨q, ⟨u, v, w, hu, hv, hw, hs, rfl⟩, rfl⟩
    exact ⟨u, v, w, hu, hv, hw, hs, apply_bary g a b c u v w hs⟩

theorem smul_bary (s : ℝ) (a b c : V) (u v w : ℝ) :
    s * (u * a + v * b + w * c) = u * (s * a) + v * (s * b) + w * (s * c) := by
  apply V3.ext' <;> simp <;> ring

theorem triangleSet_scale (s : ℝ) (a b c : V) :
    DistPoly.triangleSet (s * a) (s * b) (s * c) = scaleSet s (DistPoly.triangleSet a b c) := by
  funext x
  apply propext
  constructor
  · rintro ⟨u, v, w, hu, hv, hw, hs, rfl⟩
    exact ⟨u * a + v * b + w * c, ⟨u, v, w, hu, hv, hw, hs, rfl⟩, (smul_bary s a b c u v w).symm⟩
  · rintro ⟨q, ⟨u, v, w, hu, hv, hw, hs, rfl⟩, rfl⟩
    exact ⟨u, v, w, hu, hv, hw, hs, smul_bary s a b c u v w⟩

/-- Lagrange: `|u × v|² = |u|²|v|² − ⟨u, v⟩²` -/
theorem normSq_cross_gram (u v : V) :
    V3.normSq (V3.cross u v) = V3.dot u u * V3.dot v v - V3.dot u v * V3.dot u v := by
  simp only [V3.normSq_def, V3.dot_def, V3.cross]; ring

/-- orthonormal maps (proper or not) preserve the squared area of a triangle -/
theorem triangleArea_rigid {g : Pose ℝ} (hg : Orthonormal g.R) (a b c : V) :
    V3.normSq (V3.cross (g.apply b - g.apply a) (g.apply c - g.apply a)) =
      V3.normSq (V3.cross (b - a) (c - a)) := by
  rw [normSq_cross_gram, normSq_cross_gram, dot_rigid hg, dot_rigid hg, dot_rigid hg]

theorem triangleArea_scale (s : ℝ) (a b c : V) :
    V3.normSq (V3.cross (s * b - s * a) (s * c - s * a)) =
      (s * s) * (s * s) * V3.normSq (V3.cross (b - a) (c - a)) := by
  simp only [V3.normSq_def, V3.cross, V3.sub_x, V3.sub_y, V3.sub_z, V3.smul_x, V3.smul_y, V3.smul_z]
  ring

/-! ### 4. rectangle -/

theorem apply_rect (g : Pose ℝ) (c ax0 ax1 : V) (u v : ℝ) :
    g.apply (c + (u * ax0 + v * ax1)) = g.apply c + (u * g.R.mulVec ax0 + v * g.R.mulVec ax1) := by
  apply V3.ext' <;> simp [Pose.apply, M3.mulVec, V3.dot_def] <;> ring

/-- centre moved, axes rotated: the moved rectangle (every affine map) -/
theorem rectSet_rigid (g : Pose ℝ) (c ax0 ax1 : V) (l0 l1 : ℝ) :
    DistPoly.rectSet (g.apply c) (g.R.mulVec ax0) (g.R.mulVec ax1) l0 l1 =
      poseImage g (DistPoly.rectSet c ax0 ax1 l0 l1) := by
  funext x
  apply propext
  constructor
  · rintro ⟨u, v, h1, h2, h3, h4, rfl⟩
    exact ⟨c + (u * ax0 + v * ax1), ⟨u, v, h1, h2, h3, h4, rfl⟩, (apply_rect g c ax0 ax1 u v).symm⟩
  · rintro ⟨q, ⟨u, v, h1, h2, h3, h4, rfl⟩, rfl⟩
    exact ⟨u, v, h1, h2, h3, h4, apply_rect g c ax0 ax1 u v⟩

theorem smul_rect (s : ℝ) (c ax0 ax1 : V) (u v : ℝ) :
    s * (c + (u * ax0 + v * ax1)) = s * c + ((s * u) * ax0 + (s * v) * ax1) := by
  apply V3.ext' <;> simp <;> ring

/-- centre and side lengths scaled, unit axes kept: the scaled rectangle -/
theorem rectSet_scale {s : ℝ} (hs : 0 < s) (c ax0 ax1 : V) (l0 l1 : ℝ) :
    DistPoly.rectSet (s * c) ax0 ax1 (s * l0) (s * l1) =
      scaleSet s (DistPoly.rectSet c ax0 ax1 l0 l1) := by
  funext x
  apply propext
  constructor
  · rintro ⟨u, v, h1, h2, h3, h4, rfl⟩
    have e : ∀ t : ℝ, s * (t / s) = t := fun t => by field_simp
    refine ⟨c + ((u / s) * ax0 + (v / s) * ax1), ⟨u / s, v / s, ?_, ?_, ?_, ?_, rfl⟩, ?_⟩
    · rw [le_div_iff₀ hs]; linarith
    · rw [div_le_iff₀ hs]; linarith
    · rw [le_div_iff₀ hs]; linarith
    · rw [div_le_iff₀ hs]; linarith
    · rw [smul_rect, e, e]
  · rintro ⟨q, ⟨u, v, h1, h2, h3, h4, rfl⟩, rfl⟩
    refine ⟨s * u, s * v, ?_, ?_, ?_, ?_, smul_rect s c ax0 ax1 u v⟩
    · have := mul_le_mul_of_nonneg_left h1 hs.le; linarith
    · have := mul_le_mul_of_nonneg_left h2 hs.le; linarith
    · have := mul_le_mul_of_nonneg_left h3 hs.le; linarith
    · have := mul_le_mul_of_nonneg_left h4 hs.le; linarith

/-! ### 5. box, cylinder (pose images of local sets) -/

theorem boxSet_rigid (g A : Pose ℝ) (size : V) :
    DistPoly.boxSet (compose g A) size = poseImage g (DistPoly.boxSet A size) :=
  poseImage_compose g A _

theorem cylinderSet_rigid (g A : Pose ℝ) (r l : ℝ) :
    DistPoly.cylinderSet (compose g A) r l = poseImage g (DistPoly.cylinderSet A r l) :=
  poseImage_compose g A _

theorem abs_smul_le_iff {s : ℝ} (hs : 0 < s) (x h : ℝ) : |s * x| ≤ s * h / 2 ↔ |x| ≤ h / 2 := by
  rw [abs_mul, abs_of_pos hs, mul_div_assoc]
  exact mul_le_mul_iff_of_pos_left hs

theorem boxLocal_scale {s : ℝ} (hs : 0 < s) (size : V) :
    DistPoly.boxLocal (s * size) = scaleSet s (DistPoly.boxLocal size) := by
  apply eq_scaleSet_of_iff hs
  intro q
  unfold DistPoly.boxLocal
  simp only [V3.smul_x, V3.smul_y, V3.smul_z]
  rw [abs_smul_le_iff hs, abs_smul_le_iff hs, abs_smul_le_iff hs]

theorem boxSet_scale {s : ℝ} (hs : 0 < s) (A : Pose ℝ) (size : V) :
    DistPoly.boxSet (scalePose s A) (s * size) = scaleSet s (DistPoly.boxSet A size) := by
  unfold DistPoly.boxSet
  rw [boxLocal_scale hs, scaleSet_poseImage]

theorem cylLocal_scale {s : ℝ} (hs : 0 < s) (r l : ℝ) :
    DistPoly.cylLocal (s * r) (s * l) = scaleSet s (DistPoly.cylLocal r l) := by
  apply eq_scaleSet_of_iff hs
  intro q
  unfold DistPoly.cylLocal
  simp only [V3.smul_x, V3.smul_y, V3.smul_z]
  rw [abs_smul_le_iff hs]
  have e1 : s * q.x * (s * q.x) + s * q.y * (s * q.y) = (s * s) * (q.x * q.x + q.y * q.y) := by ring
  have e2 : s * r * (s * r) = (s * s) * (r * r) := by ring
  rw [e1, e2, mul_le_mul_iff_of_pos_left (mul_pos hs hs)]

theorem cylinderSet_scale {s : ℝ} (hs : 0 < s) (A : Pose ℝ) (r l : ℝ) :
    DistPoly.cylinderSet (scalePose s A) (s * r) (s * l) =
      scaleSet s (DistPoly.cylinderSet A r l) := by
  unfold DistPoly.cylinderSet
  rw [cylLocal_scale hs, scaleSet_poseImage]

/-! ### 6. disk -/

theorem normSq_rigid {g : Pose ℝ} (hg : Orthonormal g.R) (x y : V) :
    V3.normSq (g.apply x - g.apply y) = V3.normSq (x - y) := by
  unfold V3.normSq; exact dot_rigid hg x y x y

theorem normSq_smul_sub (s : ℝ) (x y : V) :
    V3.normSq (s * x - s * y) = (s * s) * V3.normSq (x - y) := by
  simp only [V3.normSq_def, V3.sub_x, V3.sub_y, V3.sub_z, V3.smul_x, V3.smul_y, V3.smul_z]; ring

theorem diskSet_rigid {g : Pose ℝ} (hg : Orthonormal g.R) (c : V) (r : ℝ) (n : V) :
    DistPoly.diskSet (g.apply c) r (g.R.mulVec n) = poseImage g (DistPoly.diskSet c r n) := by
  apply eq_poseImage_of_iff hg
  intro q
  unfold DistPoly.diskSet
  rw [normSq_rigid hg, apply_sub, hg.dot_mulVec]

theorem diskSet_scale {s : ℝ} (hs : 0 < s) (c : V) (r : ℝ) (n : V) :
    DistPoly.diskSet (s * c) (s * r) n = scaleSet s (DistPoly.diskSet c r n) := by
  apply eq_scaleSet_of_iff hs
  intro q
  unfold DistPoly.diskSet
  have e2 : s * r * (s * r) = (s * s) * (r * r) := by ring
  rw [normSq_smul_sub, smul_sub_smul, dot_smul_left, e2,
    mul_le_mul_iff_of_pos_left (mul_pos hs hs), mul_eq_zero]
  constructor
  · rintro ⟨h | h, h'⟩
    · exact absurd h hs.ne'
    · exact ⟨h, h'⟩
  · rintro ⟨h, h'⟩
    exact ⟨Or.inr h, h'⟩

/-! ### 6b. circle -/

theorem circleSet_rigid {g : Pose ℝ} (hg : Orthonormal g.R) (c : V) (r : ℝ) (n : V) :
    DistPoly.circleSet (g.apply c) r (g.R.mulVec n) = poseImage g (DistPoly.circleSet c r n) := by
  apply eq_poseImage_of_iff hg
  intro q
  unfold DistPoly.circleSet
  rw [normSq_rigid hg, apply_sub, hg.dot_mulVec]

theorem circleSet_scale {s : ℝ} (hs : 0 < s) (c : V) (r : ℝ) (n : V) :
    DistPoly.circleSet (s * c) (s * r) n = scaleSet s (DistPoly.circleSet c r n) := by
  apply eq_scaleSet_of_iff hs
  intro q
  unfold DistPoly.circleSet
  have e2 : s * r * (s * r) = (s * s) * (r * r) := by ring
  rw [normSq_smul_sub, smul_sub_smul, dot_smul_left, e2,
    mul_right_inj' (mul_pos hs hs).ne', mul_eq_zero]
  constructor
  · rintro ⟨h | h, h'⟩
    · exact absurd h hs.ne'
    · exact ⟨h, h'⟩
  · rintro ⟨h, h'⟩
    exact ⟨Or.inr h, h'⟩

/-- the squared in-plane offset `|dip|²` read by the branch test of `point_to_circle` is invariant
under a common rigid motion -/
theorem reject_rigid {g : Pose ℝ} (hg : Orthonormal g.R) (p c n : V) :
    V3.normSq ((g.apply p - g.apply c) - V3.dot (g.apply p - g.apply c) (g.R.mulVec n) * g.R.mulVec n) =
      V3.normSq ((p - c) - V3.dot (p - c) n * n) := by
  rw [apply_sub, hg.dot_mulVec, ← mulVec_smul, ← mulVec_sub]
  unfold V3.normSq
  exact hg.dot_mulVec _ _

/-! ### 7. lines, segments, planes (C10 sets) -/

theorem lineSet_rigid (g : Pose ℝ) (p d : V) :
    DistLine.lineSet (g.apply p) (g.R.mulVec d) = poseImage g (DistLine.lineSet p d) := by
  funext x
  apply propext
  constructor
  · rintro ⟨t, rfl⟩
    exact ⟨p + t * d, ⟨t, rfl⟩, (apply_add_smul g p d t).symm⟩
  · rintro ⟨q, ⟨t, rfl⟩, rfl⟩
    exact ⟨t, apply_add_smul g p d t⟩

theorem smul_add_smul (s t : ℝ) (p d : V) : s * (p + t * d) = s * p + (s * t) * d := by
  apply V3.ext' <;> simp <;> ring

/-- line point scaled, unit direction kept -/
theorem lineSet_scale {s : ℝ} (hs : 0 < s) (p d : V) :
    DistLine.lineSet (s * p) d = scaleSet s (DistLine.lineSet p d) := by
  funext x
  apply propext
  constructor
  · rintro ⟨t, rfl⟩
    refine ⟨p + (t / s) * d, ⟨t / s, rfl⟩, ?_⟩
    rw [smul_add_smul]
    have : s * (t / s) = t := by field_simp
    rw [this]
  · rintro ⟨q, ⟨t, rfl⟩, rfl⟩
    exact ⟨s * t, smul_add_smul s t p d⟩

theorem apply_seg (g : Pose ℝ) (a b : V) (t : ℝ) :
    g.apply (a + t * (b - a)) = g.apply a + t * (g.apply b - g.apply a) := by
  rw [apply_add_smul, apply_sub]

theorem segmentSet_rigid (g : Pose ℝ) (a b : V) :
    DistLine.segmentSet (g.apply a) (g.apply b) = poseImage g (DistLine.segmentSet a b) := by
  funext x
  apply propext
  constructor
  · rintro ⟨t, h0, h1, rfl⟩
    exact ⟨a + t * (b - a), ⟨t, h0, h1, rfl⟩, (apply_seg g a b t).symm⟩
  · rintro ⟨q, ⟨t, h0, h1, rfl⟩, rfl⟩
    exact ⟨t, h0, h1, apply_seg g a b t⟩

theorem smul_seg (s t : ℝ) (a b : V) : s * (a + t * (b - a)) = s * a + t * (s * b - s * a) := by
  apply V3.ext' <;> simp <;> ring

theorem segmentSet_scale (s : ℝ) (a b : V) :
    DistLine.segmentSet (s * a) (s * b) = scaleSet s (DistLine.segmentSet a b) := by
  funext x
  apply propext
  constructor
  · rintro ⟨t, h0, h1, rfl⟩
    exact ⟨a + t * (b - a), ⟨t, h0, h1, rfl⟩, (smul_seg s t a b).symm⟩
  · rintro ⟨q, ⟨t, h0, h1, rfl⟩, rfl⟩
    exact ⟨t, h0, h1, smul_seg s t a b⟩

theorem planeSet_rigid {g : Pose ℝ} (hg : Orthonormal g.R) (p n : V) :
    DistLine.planeSet (g.apply p) (g.R.mulVec n) = poseImage g (DistLine.planeSet p n) := by
  apply eq_poseImage_of_iff hg
  intro q
  unfold DistLine.planeSet
  rw [dot_dir_rigid hg]

/-- plane point scaled, unit normal kept -/
theorem planeSet_scale {s : ℝ} (hs : 0 < s) (p n : V) :
    DistLine.planeSet (s * p) n = scaleSet s (DistLine.planeSet p n) := by
  apply eq_scaleSet_of_iff hs
  intro q
  unfold DistLine.planeSet
  rw [smul_sub_smul, dot_smul_right, mul_eq_zero]
  exact ⟨fun h => h.resolve_left hs.ne', Or.inr⟩

theorem unitVec_mulVec {R : Mat} (hR : Orthonormal R) {n : V} (h : DistLine.UnitVec n) :
    DistLine.UnitVec (R.mulVec n) := by
  unfold DistLine.UnitVec at *; rw [hR.dot_mulVec]; exact h

/-- the barycentric triangle of the C10 vertical is the one of the C11 vertical -/
theorem triangleSet_eq (a b c : V) : DistLine.triangleSet a b c = DistPoly.triangleSet a b c := rfl

/-! ### 7b. band hypotheses of the C10 theorems move with the scene -/

theorem normSq_cross_mulVec {R : Mat} (hR : Orthonormal R) (a b : V) :
    V3.normSq (V3.cross (R.mulVec a) (R.mulVec b)) = V3.normSq (V3.cross a b) := by
  rw [normSq_cross_gram, normSq_cross_gram, hR.dot_mulVec, hR.dot_mulVec, hR.dot_mulVec]

theorem normSq_cross_comm (a b : V) : V3.normSq (V3.cross b a) = V3.normSq (V3.cross a b) := by
  simp only [V3.normSq_def, V3.cross]; ring

theorem eq_zero_iff_normSq (v : V) : v = ⟨0, 0, 0⟩ ↔ V3.normSq v = 0 :=
  ⟨fun h => by rw [h]; simp [V3.normSq_def], V3.normSq_eq_zero⟩

/-- the band condition of `plane_to_plane` (`epsilon < |n₁ × n₂|` or exactly parallel) only depends on
`|n₁ × n₂|²` -/
theorem planeBand_of_normSq {ε : ℝ} {a b a' b' : V}
    (e : V3.normSq (V3.cross a' b') = V3.normSq (V3.cross a b))
    (h : ε < V3.norm (V3.cross a b) ∨ V3.cross a b = ⟨0, 0, 0⟩) :
    ε < V3.norm (V3.cross a' b') ∨ V3.cross a' b' = ⟨0, 0, 0⟩ := by
  rcases h with h | h
  · left; rw [V3.norm_def, e, ← V3.norm_def]; exact h
  · right; rw [eq_zero_iff_normSq] at h ⊢; rw [e]; exact h

/-- a vertex list with no vertex strictly below the plane is outside the band -/
theorem hullNoBand_of_above {pp n : V} {pts : List V} (h : ∀ p ∈ pts, 0 ≤ V3.dot (p - pp) n) :
    DistLine.HullNoBand pp n pts :=
  fun p hp _ _ hpn _ => absurd hpn (not_lt.mpr (h p hp))

/-- `HullNoBand` (the band condition of `_plane_to_convex_hull_points`) is invariant under a common
rigid motion of plane and vertices -/
theorem hullNoBand_rigid {g : Pose ℝ} (hg : Orthonormal g.R) {pp n : V} {pts : List V}
    (h : DistLine.HullNoBand pp n pts) :
    DistLine.HullNoBand (g.apply pp) (g.R.mulVec n) (pts.map g.apply) := by
  intro p hp q hq
  rw [List.mem_map] at hp hq
  obtain ⟨p0, hp0, rfl⟩ := hp
  obtain ⟨q0, hq0, rfl⟩ := hq
  rw [normSq_rigid hg, apply_sub, apply_sub, hg.dot_mulVec, hg.dot_mulVec]
  exact h p0 hp0 q0 hq0

/-- … and under a common positive scaling (unit normal kept) -/
theorem hullNoBand_scale {s : ℝ} (hs : 0 < s) {pp n : V} {pts : List V}
    (h : DistLine.HullNoBand pp n pts) :
    DistLine.HullNoBand (s * pp) n (pts.map (fun x => s * x)) := by
  intro p hp q hq
  rw [List.mem_map] at hp hq
  obtain ⟨p0, hp0, rfl⟩ := hp
  obtain ⟨q0, hq0, rfl⟩ := hq
  rw [normSq_smul_sub, smul_sub_smul, smul_sub_smul, dot_smul_left, dot_smul_left]
  intro h1 h2
  have h1' : V3.dot (p0 - pp) n < 0 := by
    by_contra hc
    exact absurd h1 (not_lt.mpr (mul_nonneg hs.le (not_lt.mp hc)))
  have h2' : 0 < V3.dot (q0 - pp) n := by
    by_contra hc
    exact absurd h2 (not_lt.mpr (mul_nonpos_of_nonneg_of_nonpos hs.le (not_lt.mp hc)))
  have := mul_le_mul_of_nonneg_left (h p0 hp0 q0 hq0 h1' h2') (mul_self_nonneg s)
  calc (1e-6 : ℝ) * (s * s * V3.normSq (q0 - p0))
      = s * s * ((1e-6 : ℝ) * V3.normSq (q0 - p0)) := by ring
    _ ≤ s * s * (V3.dot (q0 - pp) n - V3.dot (p0 - pp) n) ^ 2 := this
    _ = (s * V3.dot (q0 - pp) n - s * V3.dot (p0 - pp) n) ^ 2 := by ring

/-- the band condition of `line_segment_to_plane` (C10 states it on the normalised direction computed by
`convert_segment_to_line`) in terms of the end points: `ε·|b − a|² ≤ ⟨b − a, n⟩²` or `⟨b − a, n⟩ = 0` -/
theorem segBand_to_endpoints {ε : ℝ} {a b n : V}
    (h : ε ≤ V3.dot (DistLine.segmentToLine a b).1 n * V3.dot (DistLine.segmentToLine a b).1 n ∨
      V3.dot (DistLine.segmentToLine a b).1 n = 0) :
    ε * V3.normSq (b - a) ≤ V3.dot (b - a) n * V3.dot (b - a) n ∨ V3.dot (b - a) n = 0 := by
  have e := DistLine.segmentToLine_sin a b n
  rcases h with h | h
  · left; rw [← e]; exact mul_le_mul_of_nonneg_right h (V3.normSq_nonneg _)
  · right
    rw [h] at e
    have : V3.dot (b - a) n * V3.dot (b - a) n = 0 := by rw [← e]; ring
    exact mul_self_eq_zero.mp this

theorem segBand_of_endpoints {ε : ℝ} {a b n : V} (hL : 0 < V3.normSq (b - a))
    (h : ε * V3.normSq (b - a) ≤ V3.dot (b - a) n * V3.dot (b - a) n ∨ V3.dot (b - a) n = 0) :
    ε ≤ V3.dot (DistLine.segmentToLine a b).1 n * V3.dot (DistLine.segmentToLine a b).1 n ∨
      V3.dot (DistLine.segmentToLine a b).1 n = 0 := by
  have e := DistLine.segmentToLine_sin a b n
  rcases h with h | h
  · left; rw [← e] at h; exact le_of_mul_le_mul_right h hL
  · right
    rw [h] at e
    have : V3.dot (DistLine.segmentToLine a b).1 n * V3.dot (DistLine.segmentToLine a b).1 n = 0 := by
      rcases mul_eq_zero.mp (e.trans (by ring : (0 : ℝ) * 0 = 0)) with h' | h'
      · exact h'
      · exact absurd h' hL.ne'
    exact mul_self_eq_zero.mp this

/-- the band condition of `line_segment_to_plane` moves with the scene (non-degenerate segment) -/
theorem segBand_rigid {g : Pose ℝ} (hg : Orthonormal g.R) {ε : ℝ} {a b n : V}
    (hL : 0 < V3.normSq (b - a))
    (h : ε ≤ V3.dot (DistLine.segmentToLine a b).1 n * V3.dot (DistLine.segmentToLine a b).1 n ∨
      V3.dot (DistLine.segmentToLine a b).1 n = 0) :
    ε ≤ V3.dot (DistLine.segmentToLine (g.apply a) (g.apply b)).1 (g.R.mulVec n) *
        V3.dot (DistLine.segmentToLine (g.apply a) (g.apply b)).1 (g.R.mulVec n) ∨
      V3.dot (DistLine.segmentToLine (g.apply a) (g.apply b)).1 (g.R.mulVec n) = 0 := by
  apply segBand_of_endpoints (by rw [normSq_rigid hg]; exact hL)
  rw [normSq_rigid hg, apply_sub, hg.dot_mulVec]
  exact segBand_to_endpoints h

theorem segBand_scale {s : ℝ} (hs : 0 < s) {ε : ℝ} {a b n : V} (hL : 0 < V3.normSq (b - a))
    (h : ε ≤ V3.dot (DistLine.segmentToLine a b).1 n * V3.dot (DistLine.segmentToLine a b).1 n ∨
      V3.dot (DistLine.segmentToLine a b).1 n = 0) :
    ε ≤ V3.dot (DistLine.segmentToLine (s * a) (s * b)).1 n *
        V3.dot (DistLine.segmentToLine (s * a) (s * b)).1 n ∨
      V3.dot (DistLine.segmentToLine (s * a) (s * b)).1 n = 0 := by
  apply segBand_of_endpoints (by rw [normSq_smul_sub]; exact mul_pos (mul_pos hs hs) hL)
  rw [normSq_smul_sub, smul_sub_smul, dot_smul_left]
  rcases segBand_to_endpoints h with h | h
  · left
    have := mul_le_mul_of_nonneg_left h (mul_self_nonneg s)
    calc ε * (s * s * V3.normSq (b - a)) = s * s * (ε * V3.normSq (b - a)) := by ring
      _ ≤ s * s * (V3.dot (b - a) n * V3.dot (b - a) n) := this
      _ = s * V3.dot (b - a) n * (s * V3.dot (b - a) n) := by ring
  · right; rw [h, mul_zero]

/-! ### 7c. the rectangle / box of the C10 vertical and their vertex lists -/

/-- the rectangle set of the C10 vertical is the one of the C11 vertical -/
theorem rectSet_eq (c ax0 ax1 : V) (l0 l1 : ℝ) :
    DistLine.rectSet c ax0 ax1 l0 l1 = DistPoly.rectSet c ax0 ax1 l0 l1 := by
  have e : ∀ u v : ℝ, c + u * ax0 + v * ax1 = c + (u * ax0 + v * ax1) := by
    intro u v; apply V3.ext' <;> simp <;> ring
  funext x
  apply propext
  constructor
  · rintro ⟨u, v, h1, h2, h3, h4, rfl⟩
    exact ⟨u, v, h1, h2, h3, h4, e u v⟩
  · rintro ⟨u, v, h1, h2, h3, h4, rfl⟩
    exact ⟨u, v, h1, h2, h3, h4, (e u v).symm⟩

/-- the box set of the C10 vertical is the one of the C11 vertical -/
theorem boxSet_eq (A : Pose ℝ) (size : V) : DistLine.boxSet A size = DistPoly.boxSet A size := by
  have e : ∀ q : V, A.t + A.R.mulVec q = A.apply q := by
    intro q; apply V3.ext' <;> simp [Pose.apply] <;> ring
  funext x
  apply propext
  constructor
  · rintro ⟨q, hx, hy, hz, rfl⟩
    exact ⟨q, ⟨abs_le.mpr hx, abs_le.mpr hy, abs_le.mpr hz⟩, e q⟩
  · rintro ⟨q, ⟨hx, hy, hz⟩, rfl⟩
    exact ⟨q, abs_le.mp hx, abs_le.mp hy, abs_le.mp hz, (e q).symm⟩

theorem lrectSet_rigid (g : Pose ℝ) (c ax0 ax1 : V) (l0 l1 : ℝ) :
    DistLine.rectSet (g.apply c) (g.R.mulVec ax0) (g.R.mulVec ax1) l0 l1 =
      poseImage g (DistLine.rectSet c ax0 ax1 l0 l1) := by
  rw [rectSet_eq, rectSet_eq]; exact rectSet_rigid g c ax0 ax1 l0 l1

theorem lrectSet_scale {s : ℝ} (hs : 0 < s) (c ax0 ax1 : V) (l0 l1 : ℝ) :
    DistLine.rectSet (s * c) ax0 ax1 (s * l0) (s * l1) =
      scaleSet s (DistLine.rectSet c ax0 ax1 l0 l1) := by
  rw [rectSet_eq, rectSet_eq]; exact rectSet_scale hs c ax0 ax1 l0 l1

theorem lboxSet_rigid (g A : Pose ℝ) (size : V) :
    DistLine.boxSet (compose g A) size = poseImage g (DistLine.boxSet A size) := by
  rw [boxSet_eq, boxSet_eq]; exact boxSet_rigid g A size

theorem lboxSet_scale {s : ℝ} (hs : 0 < s) (A : Pose ℝ) (size : V) :
    DistLine.boxSet (scalePose s A) (s * size) = scaleSet s (DistLine.boxSet A size) := by
  rw [boxSet_eq, boxSet_eq]; exact boxSet_scale hs A size

theorem rectVertices_rigid (g : Pose ℝ) (c ax0 ax1 : V) (l0 l1 : ℝ) :
    DistLine.rectVertices (g.apply c) (g.R.mulVec ax0) (g.R.mulVec ax1) l0 l1 =
      (DistLine.rectVertices c ax0 ax1 l0 l1).map g.apply := by
  unfold DistLine.rectVertices
  rw [List.map_map]
  apply List.map_congr_left
  intro k _
  apply V3.ext' <;> simp [DistLine.rectVertex, Pose.apply, M3.mulVec, V3.dot_def] <;> ring

theorem rectVertices_scale (s : ℝ) (c ax0 ax1 : V) (l0 l1 : ℝ) :
    DistLine.rectVertices (s * c) ax0 ax1 (s * l0) (s * l1) =
      (DistLine.rectVertices c ax0 ax1 l0 l1).map (fun x : V => s * x) := by
  unfold DistLine.rectVertices
  rw [List.map_map]
  apply List.map_congr_left
  intro k _
  apply V3.ext' <;> simp [DistLine.rectVertex] <;> ring

theorem boxVertices_rigid (g A : Pose ℝ) (size : V) :
    DistLine.boxVertices (compose g A) size = (DistLine.boxVertices A size).map g.apply := by
  unfold DistLine.boxVertices
  rw [List.map_map]
  apply List.map_congr_left
  intro k _
  apply V3.ext' <;>
    simp [DistLine.boxVertex, compose, Pose.apply, M3.mulVec, M3.mul, M3.transpose, M3.col0, M3.col1,
      M3.col2, V3.dot_def] <;> ring

theorem boxVertices_scale (s : ℝ) (A : Pose ℝ) (size : V) :
    DistLine.boxVertices (scalePose s A) (s * size) =
      (DistLine.boxVertices A size).map (fun x : V => s * x) := by
  unfold DistLine.boxVertices
  rw [List.map_map]
  apply List.map_congr_left
  intro k _
  apply V3.ext' <;> simp [DistLine.boxVertex, scalePose, V3.dot_def] <;> ring

/-! ### 9. the solid ellipsoid / cylinder of C03 (sets of `plane_to_ellipsoid`, `plane_to_cylinder`) -/

theorem ellipsoidLocalSet_scale {s : ℝ} (hs : 0 < s) (radii : V) :
    Support.ellipsoidLocalSet (s * radii) = scaleSet s (Support.ellipsoidLocalSet radii) := by
  apply eq_scaleSet_of_iff hs
  intro q
  unfold Support.ellipsoidLocalSet
  simp only [V3.smul_x, V3.smul_y, V3.smul_z]
  rw [mul_div_mul_left _ _ hs.ne', mul_div_mul_left _ _ hs.ne', mul_div_mul_left _ _ hs.ne']

theorem cylinderLocalSet_scale {s : ℝ} (hs : 0 < s) (r l : ℝ) :
    Support.cylinderLocalSet (s * r) (s * l) = scaleSet s (Support.cylinderLocalSet r l) := by
  apply eq_scaleSet_of_iff hs
  intro q
  unfold Support.cylinderLocalSet
  simp only [V3.smul_x, V3.smul_y, V3.smul_z]
  have e1 : s * q.x * (s * q.x) + s * q.y * (s * q.y) = (s * s) * (q.x * q.x + q.y * q.y) := by ring
  have e2 : s * r * (s * r) = (s * s) * (r * r) := by ring
  have e3 : -(s * l / 2) = s * -(l / 2) := by ring
  have e4 : s * l / 2 = s * (l / 2) := by ring
  rw [e1, e2, e3, e4, mul_le_mul_iff_of_pos_left (mul_pos hs hs), mul_le_mul_iff_of_pos_left hs,
    mul_le_mul_iff_of_pos_left hs]

/-- the solid ellipsoid with pose `g · A` is the `g`-image of the one with pose `A` (every matrix) -/
theorem ellipsoidSet_rigid (g A : Pose ℝ) (radii : V) :
    poseImage (compose g A) (Support.ellipsoidLocalSet radii) =
      poseImage g (poseImage A (Support.ellipsoidLocalSet radii)) :=
  poseImage_compose g A _

theorem ellipsoidSet_scale {s : ℝ} (hs : 0 < s) (A : Pose ℝ) (radii : V) :
    poseImage (scalePose s A) (Support.ellipsoidLocalSet (s * radii)) =
      scaleSet s (poseImage A (Support.ellipsoidLocalSet radii)) := by
  rw [ellipsoidLocalSet_scale hs, scaleSet_poseImage]

theorem scylinderSet_rigid (g A : Pose ℝ) (r l : ℝ) :
    poseImage (compose g A) (Support.cylinderLocalSet r l) =
      poseImage g (poseImage A (Support.cylinderLocalSet r l)) :=
  poseImage_compose g A _

theorem scylinderSet_scale {s : ℝ} (hs : 0 < s) (A : Pose ℝ) (r l : ℝ) :
    poseImage (scalePose s A) (Support.cylinderLocalSet (s * r) (s * l)) =
      scaleSet s (poseImage A (Support.cylinderLocalSet r l)) := by
  rw [cylinderLocalSet_scale hs, scaleSet_poseImage]

end PoseAlg
end D3
