/-
Bookkeeping facts for `AabbTree.insert_aabbs` (class level): the insert order of every mode
is a permutation of the batch rows (`argsortLo0` included), and what the enlarged arrays
hold before the jitted loop starts.
-/
import D3.Proofs.AabbInsertWf

set_option linter.unusedSectionVars false
set_option linter.unusedVariables false

namespace D3
namespace Aabb

/-! ### the insert order is a permutation of the batch -/

theorem argsort_go_perm {α : Type} [LT α] [DecidableLT α] (x : α × Nat) :
    ∀ l : List (α × Nat), (argsortLo0.go x l).Perm (x :: l)
  | [] => by simp [argsortLo0.go]
  | y :: ys => by
    unfold argsortLo0.go
    split
    · exact List.Perm.refl _
    · exact (List.Perm.cons y (argsort_go_perm x ys)).trans (List.Perm.swap x y ys)

theorem argsort_foldl_perm {α : Type} [LT α] [DecidableLT α] :
    ∀ (keyed acc : List (α × Nat)),
      (keyed.foldl (fun acc x => argsortLo0.go x acc) acc).Perm (keyed ++ acc)
  | [], acc => by simp
  | x :: keyed, acc => by
    simp only [List.foldl_cons]
    refine (argsort_foldl_perm keyed _).trans ?_
    refine (List.Perm.append_left keyed (argsort_go_perm x acc)).trans ?_
    simp only [List.cons_append]
    exact List.perm_middle

/-- `argsortLo0` returns a permutation of `0 … n-1` -/
theorem argsortLo0_perm {α : Type} [LT α] [DecidableLT α] (bs : List (Box α)) :
    (argsortLo0 bs).Perm (List.range bs.length) := by
  unfold argsortLo0
  simp only []
  have h := (argsort_foldl_perm (bs.zipIdx.map fun (b, i) => (b.lo0, i)) []).map (·.2)
  refine h.trans ?_
  simp only [List.append_nil, List.map_map]
  have : ((fun x : α × Nat => x.2) ∘ fun x : Box α × Nat => (x.1.lo0, x.2)) = Prod.snd := by
    funext x; rfl
  have h2 : List.map ((fun x : α × Nat => x.2) ∘ fun (x : Box α × Nat) =>
      match x with | (b, i) => (b.lo0, i)) bs.zipIdx = List.range bs.length := by
    rw [List.range_eq_range', ← List.zipIdx_map_snd]
    apply List.map_congr_left
    intro x _; rfl
  rw [h2]

/-- rows (relative to the batch start) in insertion order -/
noncomputable def orderKs (mode : Mode) (boxes : List (Box ℝ)) (perm : List Nat) : List Nat :=
  match mode with
  | .none => List.range boxes.length
  | .sort => argsortLo0 boxes
  | .shuffle => perm

theorem insertOrderFixed_eq (mode : Mode) (boxes : List (Box ℝ)) (f N : Nat) (perm : List Nat) :
    insertOrderFixed mode boxes f (f + boxes.length) N perm
      = (orderKs mode boxes perm).map fun k => ((f + k : Nat) : Int) := by
  cases mode <;> simp [insertOrderFixed, orderKs]

theorem orderKs_perm (mode : Mode) (boxes : List (Box ℝ)) (perm : List Nat)
    (h : mode = .shuffle → perm.Perm (List.range boxes.length)) :
    (orderKs mode boxes perm).Perm (List.range boxes.length) := by
  cases mode
  · exact List.Perm.refl _
  · exact argsortLo0_perm boxes
  · exact h rfl

/-! ### the rows of one batch -/

/-- the leaf rows of a batch: the `k`-th box goes to row `f + k` -/
def batchLeaves : Nat → List (Box ℝ) → List (Int × Box ℝ)
  | _, [] => []
  | f, b :: bs => ((f : Int), b) :: batchLeaves (f + 1) bs

theorem batchLeaves_eq : ∀ (boxes : List (Box ℝ)) (f : Nat),
    (List.range boxes.length).map (fun k => (((f + k : Nat) : Int), boxes.getD k zeroBox))
      = batchLeaves f boxes
  | [], f => rfl
  | b :: bs, f => by
    simp only [List.length_cons, List.range_succ_eq_map, List.map_cons, List.map_map, batchLeaves]
    congr 1
    rw [← batchLeaves_eq bs (f + 1)]
    apply List.map_congr_left
    intro k _
    simp only [Function.comp, Nat.succ_eq_add_one, List.getD_cons_succ]
    congr 2
    omega

theorem rd_toArray {β : Type} (l : List β) (k : Nat) (x : β) (h : l[k]? = some x) :
    rd l.toArray (k : Int) = .ok x := by
  unfold rd
  rw [if_pos (by omega)]
  simp [h]

end Aabb
end D3
